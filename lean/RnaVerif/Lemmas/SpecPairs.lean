import RnaVerif.Lemmas.Prefilter
/-!
# The executable checker `Pairs.specPairs` on label lists that satisfy the three clauses of C03

`specPairs` (Model/Pairs.lean) is what the C03 harness evaluates on the REAL output of `find_pairs`.  Here: if a list of
labels `out` is sound, edge-exclusive and maximal with respect to the contact list `cs` *at the level of labels*
(the conclusion of `findPairs_meets_spec`), then `specPairs` reports no failure on it:

* `checkSound_ok`      a pair with enough supporting contacts and the right cis/trans letter passes;
* `support_ge_count`   the support `specPairs` counts for a label is at least the label's multiplicity
                       (edge letters of one atom pairwise different);
* `checkExclusive_ok`  pairwise slot-disjoint pairs pass;
* `checkMaximal_ok`    a maximal list passes;
* `cisTri_symm`        the cis/trans answer does not depend on which residue is read first.
-/
namespace RnaVerif.Pairs
open RnaVerif

variable {P : Params}

/-- a label as a reported pair -/
def toRep (l : Label) : Reported := ⟨l.lo, l.hi, l.cis, l.e1, l.e2⟩

theorem foldl_fails {α : Type} (f : Verdict → α → Verdict) (l : List α) (v : Verdict)
    (h : ∀ v a, a ∈ l → (f v a).fails = v.fails) : (l.foldl f v).fails = v.fails := by
  induction l generalizing v with
  | nil => rfl
  | cons a rest ih =>
    simp only [List.foldl_cons]
    rw [ih _ (fun v a ha => h v a (List.mem_cons_of_mem _ ha)), h v a List.mem_cons_self]

/-! ## cis/trans is symmetric -/

theorem torsionCisTri_rev (p1 p2 p3 p4 : Q3) : torsionCisTri p4 p3 p2 p1 = torsionCisTri p1 p2 p3 p4 := by
  unfold torsionCisTri
  have e1 : V3.norm2 (V3.cross (V3.sub p3 p4) (V3.sub p2 p3)) = V3.norm2 (V3.cross (V3.sub p3 p2) (V3.sub p4 p3)) := by
    simp only [V3.norm2, V3.dot, V3.cross, V3.sub]; ring
  have e2 : V3.norm2 (V3.cross (V3.sub p2 p3) (V3.sub p1 p2)) = V3.norm2 (V3.cross (V3.sub p2 p1) (V3.sub p3 p2)) := by
    simp only [V3.norm2, V3.dot, V3.cross, V3.sub]; ring
  have e3 : V3.norm2 (V3.sub p3 p4) = V3.norm2 (V3.sub p4 p3) := by
    simp only [V3.norm2, V3.dot, V3.sub]; ring
  have e4 : V3.norm2 (V3.sub p2 p3) = V3.norm2 (V3.sub p3 p2) := by
    simp only [V3.norm2, V3.dot, V3.sub]; ring
  have e5 : V3.norm2 (V3.sub p1 p2) = V3.norm2 (V3.sub p2 p1) := by
    simp only [V3.norm2, V3.dot, V3.sub]; ring
  have e6 : V3.dot (V3.cross (V3.sub p3 p4) (V3.sub p2 p3)) (V3.cross (V3.sub p2 p3) (V3.sub p1 p2)) =
      V3.dot (V3.cross (V3.sub p2 p1) (V3.sub p3 p2)) (V3.cross (V3.sub p3 p2) (V3.sub p4 p3)) := by
    simp only [V3.dot, V3.cross, V3.sub]; ring
  simp only [e1, e2, e3, e4, e5, e6]
  have c1 : V3.norm2 (V3.sub p4 p3) * V3.norm2 (V3.sub p3 p2) = V3.norm2 (V3.sub p3 p2) * V3.norm2 (V3.sub p4 p3) :=
    mul_comm _ _
  have c2 : V3.norm2 (V3.sub p3 p2) * V3.norm2 (V3.sub p2 p1) = V3.norm2 (V3.sub p2 p1) * V3.norm2 (V3.sub p3 p2) :=
    mul_comm _ _
  have c3 : V3.norm2 (V3.cross (V3.sub p3 p2) (V3.sub p4 p3)) * V3.norm2 (V3.cross (V3.sub p2 p1) (V3.sub p3 p2)) =
      V3.norm2 (V3.cross (V3.sub p2 p1) (V3.sub p3 p2)) * V3.norm2 (V3.cross (V3.sub p3 p2) (V3.sub p4 p3)) :=
    mul_comm _ _
  rw [c1, c2, c3]
  by_cases hA : V3.norm2 (V3.cross (V3.sub p2 p1) (V3.sub p3 p2)) ≤ degBand * (V3.norm2 (V3.sub p2 p1) * V3.norm2 (V3.sub p3 p2))
  · by_cases hB : V3.norm2 (V3.cross (V3.sub p3 p2) (V3.sub p4 p3)) ≤ degBand * (V3.norm2 (V3.sub p3 p2) * V3.norm2 (V3.sub p4 p3))
    · simp [hA, hB]
    · simp [hA, hB]
  · by_cases hB : V3.norm2 (V3.cross (V3.sub p3 p2) (V3.sub p4 p3)) ≤ degBand * (V3.norm2 (V3.sub p3 p2) * V3.norm2 (V3.sub p4 p3))
    · simp [hA, hB]
    · simp [hA, hB]

/-- **cisTri_symm** -/
theorem cisTri_symm (ri rj : Res) : cisTri P rj ri = cisTri P ri rj := by
  unfold cisTri
  cases findAtom ri P.glycoSugar <;> cases findAtom rj P.glycoSugar <;>
    cases findAtom ri (glycoName P ri) <;> cases findAtom rj (glycoName P rj) <;>
    simp [torsionCisTri_rev]

/-! ## labels of one contact -/

theorem mem_labelsOfContact {lt : Bool} {c : Contact} {b : Bool} {l : Label} :
    l ∈ labelsOfContact lt c b ↔ ∃ ei ∈ c.ea, ∃ ej ∈ c.eb, l = orient lt c.i c.j b ei ej := by
  unfold labelsOfContact
  simp only [List.mem_flatMap, List.mem_map]
  constructor
  · rintro ⟨ei, hei, ej, hej, rfl⟩; exact ⟨ei, hei, ej, hej, rfl⟩
  · rintro ⟨ei, hei, ej, hej, rfl⟩; exact ⟨ei, hei, ej, hej, rfl⟩

theorem orient_inj {lt : Bool} {i j : Nat} {b : Bool} {ei ej ei' ej' : Char}
    (h : orient lt i j b ei ej = orient lt i j b ei' ej') : ei = ei' ∧ ej = ej' := by
  unfold orient at h
  cases lt
  · simp only [Bool.false_eq_true, ↓reduceIte, Label.mk.injEq, true_and] at h
    exact ⟨h.2, h.1⟩
  · simp only [↓reduceIte, Label.mk.injEq, true_and] at h
    exact h

theorem labelsOfContact_nodup (lt : Bool) (c : Contact) (b : Bool) (h1 : c.ea.Nodup) (h2 : c.eb.Nodup) :
    (labelsOfContact lt c b).Nodup := by
  unfold labelsOfContact
  rw [List.nodup_flatMap]
  constructor
  · intro ei _
    exact List.Nodup.map (fun ej ej' h => (orient_inj h).2) h2
  · refine (List.nodup_iff_pairwise_ne.mp h1).imp ?_
    intro ei ei' hne
    simp only [Function.onFun, List.disjoint_left, List.mem_map]
    rintro l ⟨ej, _, rfl⟩ ⟨ej', _, h⟩
    exact hne (orient_inj h).1.symm

/-- the per-contact contribution to `modelLabels` -/
def labC (P : Params) (s : Array Res) (c : Contact) : List Label :=
  match s[c.i]?, s[c.j]? with
  | some ri, some rj =>
    match cisTri P ri rj with
    | some .yes => labelsOfContact (resLt ri rj) c true
    | some .no => labelsOfContact (resLt ri rj) c false
    | _ => []
  | _, _ => []

theorem modelLabels_eq (s : Array Res) (cs : List Contact) : modelLabels P s cs = cs.flatMap (labC P s) := rfl

/-- what a label of `modelLabels` comes from -/
theorem mem_labC {s : Array Res} {c : Contact} {l : Label} (h : l ∈ labC P s c) :
    ∃ ri rj b, s[c.i]? = some ri ∧ s[c.j]? = some rj ∧ cisTri P ri rj = some (if b then Tri.yes else Tri.no) ∧
      l ∈ labelsOfContact (resLt ri rj) c b := by
  unfold labC at h
  cases ei : s[c.i]? with
  | none => simp [ei] at h
  | some ri =>
    cases ej : s[c.j]? with
    | none => simp [ei, ej] at h
    | some rj =>
      simp only [ei, ej] at h
      cases ht : cisTri P ri rj with
      | none => simp [ht] at h
      | some t =>
        cases t with
        | yes => simp only [ht] at h; exact ⟨ri, rj, true, rfl, rfl, by simpa using ht, h⟩
        | no => simp only [ht] at h; exact ⟨ri, rj, false, rfl, rfl, by simpa using ht, h⟩
        | undecided => simp [ht] at h

theorem labC_nodup (s : Array Res) (c : Contact) (h1 : c.ea.Nodup) (h2 : c.eb.Nodup) : (labC P s c).Nodup := by
  unfold labC
  split
  · split
    · exact labelsOfContact_nodup _ _ _ h1 h2
    · exact labelsOfContact_nodup _ _ _ h1 h2
    · exact List.nodup_nil
  · exact List.nodup_nil

/-! ## the support `specPairs` counts -/

def supp (p : Reported) (c : Contact) : Bool :=
  (c.i == p.i && c.j == p.j && c.ea.contains p.e1 && c.eb.contains p.e2) ||
  (c.i == p.j && c.j == p.i && c.ea.contains p.e2 && c.eb.contains p.e1)

theorem supportOf_eq (cs : List Contact) (p : Reported) : supportOf cs p = cs.filter (supp p) := rfl

theorem supp_of_mem_labC {s : Array Res} {c : Contact} {l : Label} (h : l ∈ labC P s c) : supp (toRep l) c = true := by
  obtain ⟨ri, rj, b, _, _, _, hl⟩ := mem_labC h
  obtain ⟨ei, hei, ej, hej, rfl⟩ := mem_labelsOfContact.mp hl
  unfold supp toRep orient
  cases resLt ri rj <;> simp [hei, hej]

theorem sum_le_filter_length {α : Type} (g : α → Nat) (q : α → Bool) :
    ∀ (l : List α), (∀ a ∈ l, g a ≤ if q a then 1 else 0) → (l.map g).sum ≤ (l.filter q).length
  | [], _ => by simp
  | a :: rest, h => by
    have ih := sum_le_filter_length g q rest (fun b hb => h b (List.mem_cons_of_mem _ hb))
    have ha := h a List.mem_cons_self
    simp only [List.map_cons, List.sum_cons, List.filter_cons]
    split
    · next hq => simp only [hq, ↓reduceIte] at ha; simp only [List.length_cons]; omega
    · next hq => simp only [hq, Bool.false_eq_true, ↓reduceIte] at ha; omega

/-- **support_ge_count**: the number of contacts supporting a label is at least the label's multiplicity -/
theorem support_ge_count (s : Array Res) (cs : List Contact) (hnd : ∀ c ∈ cs, c.ea.Nodup ∧ c.eb.Nodup) (l : Label) :
    (modelLabels P s cs).count l ≤ (supportOf cs (toRep l)).length := by
  rw [modelLabels_eq, supportOf_eq, List.count_flatMap]
  apply sum_le_filter_length
  intro c hc
  simp only [Function.comp]
  have hn := labC_nodup (P := P) s c (hnd c hc).1 (hnd c hc).2
  rw [List.Nodup.count hn]
  by_cases hm : l ∈ labC P s c
  · simp [hm, supp_of_mem_labC hm]
  · simp [hm]

/-! ## checkSound -/

theorem checkSound_ok (s : Array Res) (cs : List Contact) (v : Verdict) (p : Reported) {ri rj : Res}
    (hne : p.i ≠ p.j) (ei : s[p.i]? = some ri) (ej : s[p.j]? = some rj)
    (hsup : P.minCount ≤ (supportOf cs p).length)
    (hcis : (cisTri P ri rj = some .yes ∧ p.cis = true) ∨ (cisTri P ri rj = some .no ∧ p.cis = false)) :
    (checkSound P s cs v p).fails = v.fails := by
  unfold checkSound
  have e1 : (p.i == p.j) = false := by simpa using hne
  have e2 : ¬ (supportOf cs p).length < P.minCount := by omega
  simp only [e1, Bool.false_eq_true, ↓reduceIte, ei, ej, e2]
  rcases hcis with ⟨h1, h2⟩ | ⟨h1, h2⟩
  · simp only [h1, h2, ↓reduceIte]
    split <;> rfl
  · simp only [h1, h2, Bool.false_eq_true, ↓reduceIte]
    split <;> rfl

/-! ## checkExclusive -/

theorem checkExclusive_go_ok :
    ∀ (l : List Reported) (seen : List Slot) (v : Verdict),
      (∀ p ∈ l, ∀ sl ∈ p.slots, sl ∉ seen) → l.Pairwise (fun a b => ∀ sl ∈ a.slots, sl ∉ b.slots) →
      (checkExclusive.go l seen v).fails = v.fails
  | [], _, _, _, _ => rfl
  | p :: rest, seen, v, h1, h2 => by
    unfold checkExclusive.go
    have hp := List.pairwise_cons.mp h2
    have hclash : (p.slots.filter (fun s => seen.contains s)) = [] := by
      rw [List.filter_eq_nil_iff]
      intro sl hsl
      simp only [List.contains_eq_mem, decide_eq_true_eq]
      exact h1 p List.mem_cons_self sl hsl
    simp only [hclash, List.isEmpty_nil, ↓reduceIte]
    apply checkExclusive_go_ok rest (p.slots ++ seen) v
    · intro q hq sl hsl hmem
      rcases List.mem_append.mp hmem with h | h
      · exact hp.1 q hq sl h hsl
      · exact h1 q (List.mem_cons_of_mem _ hq) sl hsl h
    · exact hp.2

theorem checkExclusive_ok (rep : List Reported) (v : Verdict)
    (h : rep.Pairwise (fun a b => ∀ sl ∈ a.slots, sl ∉ b.slots)) : (checkExclusive rep v).fails = v.fails := by
  unfold checkExclusive
  exact checkExclusive_go_ok rep [] v (fun _ _ _ _ h => by cases h) h

/-! ## checkMaximal -/

/-- the candidate label with the letter the torsion gives -/
def withCis (b : Bool) (l : Label) : Label := { l with cis := b }

theorem labelsOfContact_withCis (lt : Bool) (c : Contact) (b : Bool) :
    labelsOfContact lt c b = (labelsOfContact lt c true).map (withCis b) := by
  unfold labelsOfContact
  rw [List.map_flatMap]
  apply flatMap_congr'
  intro ei _
  rw [List.map_map]
  apply List.map_congr_left
  intro ej _
  unfold orient withCis
  cases lt <;> rfl

/-- one step of the candidate loop of `checkMaximal` -/
theorem maxStep_ok (rep : List Reported) (occupied : List Slot) (okLetter : Reported → Bool) (amb : Bool) (l : Label)
    (v : Verdict) (msg : String)
    (h : (∃ p ∈ rep, okLetter p = true ∧ p.i = l.lo ∧ p.j = l.hi ∧ p.e1 = l.e1 ∧ p.e2 = l.e2) ∨
      l.slot1 ∈ occupied ∨ l.slot2 ∈ occupied) :
    (if (rep.any fun p => okLetter p &&
          (p.i == l.lo && p.j == l.hi && p.e1 == l.e1 && p.e2 == l.e2 ||
            amb && p.i == l.hi && p.j == l.lo && p.e1 == l.e2 && p.e2 == l.e1)) = true then v
      else if (occupied.contains l.slot1 || occupied.contains l.slot2) = true then v else v.fail msg).fails = v.fails := by
  split
  · rfl
  · next hrep =>
    split
    · rfl
    · next hocc =>
      exfalso
      rcases h with ⟨p, hp, h1, h2, h3, h4, h5⟩ | h | h
      · apply hrep
        rw [List.any_eq_true]
        exact ⟨p, hp, by simp [h1, h2, h3, h4, h5]⟩
      · apply hocc; simp [h]
      · apply hocc; simp [h]

/-- **checkMaximal_ok**: a list that is maximal at the level of labels passes `checkMaximal` -/
theorem checkMaximal_ok (s : Array Res) (cs : List Contact) (out : List Label) (v : Verdict)
    (hdec : ∀ c ∈ cs, c.sp = false → c.tri = .yes → ∀ ri rj, s[c.i]? = some ri → s[c.j]? = some rj →
      cisTri P ri rj ≠ some .undecided)
    (hmax : ∀ l, P.minCount ≤ (modelLabels P s (cs.filter (fun c => !c.sp && c.tri == .yes))).count l →
      l ∈ out ∨ ∃ o ∈ out, l.slot1 ∈ o.slots ∨ l.slot2 ∈ o.slots) :
    (checkMaximal P s cs (out.map toRep) v).fails = v.fails := by
  unfold checkMaximal
  simp only
  apply foldl_fails
  rintro v ⟨i, j⟩ hij
  simp only
  cases ei : s[i]? with
  | none => rfl
  | some ri =>
    cases ej : s[j]? with
    | none => rfl
    | some rj =>
      simp only
      cases ht : cisTri P ri rj with
      | none => rfl
      | some t =>
        simp only
        apply foldl_fails
        intro v l hl
        -- the residue pair comes from a decided base-to-base contact
        have hij' : (i, j) ∈ (cs.filter (fun c => !c.sp && c.tri == .yes)).map (fun c => (c.i, c.j)) :=
          List.mem_eraseDups.mp hij
        obtain ⟨c0, hc0, e0⟩ := List.mem_map.mp hij'
        simp only [Prod.mk.injEq] at e0
        obtain ⟨hc0cs, hc0f⟩ := List.mem_filter.mp hc0
        simp only [Bool.and_eq_true, Bool.not_eq_true', beq_iff_eq] at hc0f
        have htne : t ≠ .undecided := by
          intro e
          apply hdec c0 hc0cs hc0f.1 hc0f.2 ri rj (by rw [e0.1]; exact ei) (by rw [e0.2]; exact ej)
          rw [ht, e]
        -- the candidate has enough decided base-to-base contacts
        obtain ⟨hl1, hl2⟩ := List.mem_filter.mp hl
        simp only [ge_iff_le, decide_eq_true_eq] at hl2
        let b : Bool := (t == .yes)
        have htb : cisTri P ri rj = some (if b then Tri.yes else Tri.no) := by
          rw [ht]
          cases t <;> simp_all [b]
        -- multiplicity of the label with its letter in `modelLabels` of the decided base-to-base contacts
        have hcount : P.minCount ≤ (modelLabels P s (cs.filter (fun c => !c.sp && c.tri == .yes))).count (withCis b l) := by
          refine Nat.le_trans hl2 ?_
          rw [modelLabels_eq]
          let bb := cs.filter (fun c => !c.sp && c.tri == .yes)
          let mine := bb.filter (fun c => c.i == i && c.j == j)
          have h1 : (mine.flatMap (fun c => labelsOfContact (resLt ri rj) c true)).count l ≤
              ((mine.flatMap (fun c => labelsOfContact (resLt ri rj) c true)).map (withCis b)).count (withCis b l) :=
            List.count_le_count_map
          have h2 : (mine.flatMap (fun c => labelsOfContact (resLt ri rj) c true)).map (withCis b) =
              mine.flatMap (labC P s) := by
            rw [List.map_flatMap]
            apply flatMap_congr'
            intro c hc
            have hcf := (List.mem_filter.mp hc).2
            simp only [Bool.and_eq_true, beq_iff_eq] at hcf
            unfold labC
            rw [hcf.1, hcf.2, ei, ej]
            simp only [htb]
            rw [← labelsOfContact_withCis]
            cases b <;> rfl
          have h3 : (mine.flatMap (labC P s)).count (withCis b l) ≤ (bb.flatMap (labC P s)).count (withCis b l) :=
            List.Sublist.count_le _ (FindPairs.sublist_flatMap _ List.filter_sublist)
          rw [h2] at h1
          exact Nat.le_trans h1 h3
        -- the label has cis = true (it was built with the placeholder letter)
        have hlcis : l.cis = true := by
          have := mem_dedupL.mp hl1
          obtain ⟨c, _, hc⟩ := List.mem_flatMap.mp this
          obtain ⟨_, _, _, _, rfl⟩ := mem_labelsOfContact.mp hc
          unfold orient
          split <;> rfl
        refine maxStep_ok (out.map toRep) _ _ _ l v _ ?_
        rcases hmax (withCis b l) hcount with hin | ⟨o, ho, hs⟩
        · left
          refine ⟨toRep (withCis b l), List.mem_map.mpr ⟨_, hin, rfl⟩, ?_, rfl, rfl, rfl, rfl⟩
          cases t
          · simp [toRep, withCis, b]
          · simp [toRep, withCis, b]
          · exact absurd rfl htne
        · right
          rcases hs with h | h
          · exact Or.inl (List.mem_flatMap.mpr ⟨toRep o, List.mem_map.mpr ⟨o, ho, rfl⟩, h⟩)
          · exact Or.inr (List.mem_flatMap.mpr ⟨toRep o, List.mem_map.mpr ⟨o, ho, rfl⟩, h⟩)

end RnaVerif.Pairs

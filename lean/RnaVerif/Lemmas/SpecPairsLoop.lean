import RnaVerif.Lemmas.SpecPairs
/-!
# `Pairs.specPairs` reports no failure on the base pairs of the functional model (C03)

Combines `labels_sandwich` (Lemmas/FindPairsRefine.lean), the exactness of the pre-filter (Lemmas/Prefilter.lean) and the
analysis of the three checkers (Lemmas/SpecPairs.lean).
-/
namespace RnaVerif.FindPairs
open RnaVerif RnaVerif.Pairs

variable {P : Params}

/-- edge letters of one atom are pairwise different -/
def EdgesNodup (P : Params) : Prop := ∀ base n e, edgesOf P base n = some e → e.Nodup

theorem contactsAll_edges_nodup (hedge : EdgesNodup P) (s : Array Res) :
    ∀ c ∈ contactsAll P s, c.ea.Nodup ∧ c.eb.Nodup := by
  intro c hc
  obtain ⟨ri, rj, _, _, _, hcb⟩ := mem_contactsAll.mp hc
  obtain ⟨_, _, _, pa, pb, _, _, hxa, hxb, _⟩ := mem_contactsBetween.mp hcb
  exact ⟨hedge _ _ _ (mem_edgePoints.mp hxa).2.2.1, hedge _ _ _ (mem_edgePoints.mp hxb).2.2.1⟩

/-- the reported labels are labels the code collected -/
theorem out_subset_labels (hpos : 0 < P.minCount) (model : Option Int) (s : Array Res) :
    ∀ l ∈ modelPairs P s (loopContacts P model s), l ∈ modelLabels P s (loopContacts P model s) := by
  intro l hl
  unfold modelPairs at hl
  have hl' := (assemble_perm _ _).mem_iff.mp hl
  exact greedy_subset _ _ hpos l hl'

/-- `und = false`: nothing on the executed path was inside a band -/
theorem und_false {model : Option Int} {s : Array Res} (h : (findPairs P model s).und = false) :
    (loop P model s).und = false ∧ ∀ c ∈ loopContacts P model s, contactUnd P s c = false := by
  unfold findPairs output at h
  simp only [Bool.or_eq_false_iff, List.any_eq_false] at h
  exact ⟨h.1, fun c hc => by simpa using h.2 c hc⟩

/-- **specPairs_no_fail** -/
theorem specPairs_no_fail {model : Option Int} {s : Array Res} (hreg : Regular P model s)
    (hund : (findPairs P model s).und = false) (hpos : 0 ≤ P.maxDist) (hmin : 0 < P.minCount) (hedge : EdgesNodup P) :
    (specPairs P s ((modelPairs P s (loopContacts P model s)).map toRep)).fails = [] := by
  have hsw := labels_sandwich hreg
  obtain ⟨_, hcu⟩ := und_false hund
  -- the three clauses at the level of labels
  let code := modelLabels P s (loopContacts P model s)
  let out := modelPairs P s (loopContacts P model s)
  have hperm : out.Perm (greedyOccupy P (mostCommonOrder code) code) := assemble_perm _ _
  have hsound : ∀ l ∈ out, P.minCount ≤ (modelLabels P s (contactsAll P s)).count l := fun l hl =>
    Nat.le_trans (greedy_sound' _ code l (hperm.mem_iff.mp hl)) (hsw l).2
  have hexcl : out.Pairwise (fun a b => ∀ sl ∈ a.slots, sl ∉ b.slots) :=
    (hperm.pairwise_iff (fun {a b} h sl hb ha => h sl ha hb)).mpr (greedy_exclusive' _ code)
  have hmax : ∀ l, P.minCount ≤ (modelLabels P s ((contactsAll P s).filter (fun c => !c.sp && c.tri == .yes))).count l →
      l ∈ out ∨ ∃ o ∈ out, l.slot1 ∈ o.slots ∨ l.slot2 ∈ o.slots := by
    intro l hb
    have hc : P.minCount ≤ code.count l := Nat.le_trans hb (hsw l).1
    have hmem : l ∈ code := List.count_pos_iff.mp (by omega)
    by_cases hin : l ∈ greedyOccupy P (mostCommonOrder code) code
    · exact Or.inl (hperm.mem_iff.mpr hin)
    · obtain ⟨o, ho, hs⟩ := greedy_maximal' (P := P) _ code l (mem_mostCommonOrder.mpr hmem) hc hin
      exact Or.inr ⟨o, hperm.mem_iff.mpr ho, hs⟩
  unfold specPairs
  simp only
  rw [contacts_eq_contactsAll hpos]
  rw [checkMaximal_ok s (contactsAll P s) out _ ?_ hmax, checkExclusive_ok _ _ ?_]
  · -- checkSound on every reported pair
    apply foldl_fails
    intro v p hp
    obtain ⟨l, hl, rfl⟩ := List.mem_map.mp hp
    have hlc : l ∈ code := out_subset_labels hmin model s l hl
    rw [show code = (loopContacts P model s).flatMap (labC P s) from rfl] at hlc
    obtain ⟨c, hc, hlab⟩ := List.mem_flatMap.mp hlc
    obtain ⟨ri, rj, b, ei, ej, hcis, hlo⟩ := mem_labC hlab
    obtain ⟨x, hx, y, hy, rfl⟩ := mem_labelsOfContact.mp hlo
    -- the contact joins two different positions
    obtain ⟨h, hh, hc'⟩ := List.mem_filterMap.mp hc
    obtain ⟨c', hc1, ecore, _⟩ := hb_upper hreg hh hc'
    obtain ⟨_, _, hij, _⟩ := mem_contactsAll.mp hc1
    simp only [core, Prod.mk.injEq] at ecore
    rw [ecore.1, ecore.2.1] at hij
    have hsup := Nat.le_trans (hsound _ hl) (support_ge_count s _ (contactsAll_edges_nodup hedge s) _)
    unfold orient at hsup hl ⊢
    cases hlt : resLt ri rj
    · simp only [hlt, Bool.false_eq_true, ↓reduceIte] at hsup ⊢
      refine checkSound_ok s _ v _ (ri := rj) (rj := ri) (by simp only [toRep]; omega) ej ei hsup ?_
      rw [cisTri_symm]
      cases b
      · exact Or.inr ⟨by simpa using hcis, rfl⟩
      · exact Or.inl ⟨by simpa using hcis, rfl⟩
    · simp only [hlt, ↓reduceIte] at hsup ⊢
      refine checkSound_ok s _ v _ (ri := ri) (rj := rj) (by simp only [toRep]; omega) ei ej hsup ?_
      cases b
      · exact Or.inr ⟨by simpa using hcis, rfl⟩
      · exact Or.inl ⟨by simpa using hcis, rfl⟩
  · -- exclusivity
    rw [List.pairwise_map]
    exact hexcl
  · -- every decided base-to-base contact has a decided cis/trans letter
    intro c hc hsp hy ri rj ei ej hcon
    obtain ⟨h, hh, c', hc', ecore⟩ := hb_lower hreg hc hsp hy
    have hmem : c' ∈ loopContacts P model s := List.mem_filterMap.mpr ⟨h, hh, hc'⟩
    have hu := hcu c' hmem
    simp only [core, Prod.mk.injEq] at ecore
    unfold contactUnd at hu
    rw [ecore.1, ecore.2.1, ei, ej] at hu
    simp only [hcon, beq_self_eq_true] at hu
    cases hu

end RnaVerif.FindPairs

import RnaVerif.Model.Splitter
import RnaVerif.Lemmas.Fit
import RnaVerif.Lemmas.PdbDoc
/-! # helper lemmas for the splitter model (C09 / C10 at `splitter.main`) -/
namespace RnaVerif.Splitter
open RnaVerif RnaVerif.Pdb RnaVerif.Fit RnaVerif.Gen

/-! ## the groups -/

theorem insertSorted_perm (x : Int) : ∀ l : List Int, (insertSorted x l).Perm (x :: l)
  | [] => List.Perm.refl _
  | y :: ys => by
    unfold insertSorted
    split
    · exact List.Perm.refl _
    · exact ((insertSorted_perm x ys).cons y).trans (List.Perm.swap x y ys)

theorem sortInts_perm : ∀ l : List Int, (sortInts l).Perm l
  | [] => List.Perm.refl _
  | x :: xs => (insertSorted_perm x (sortInts xs)).trans ((sortInts_perm xs).cons x)

theorem mem_modelsOf (t : Table) (m : Int) : m ∈ modelsOf t ↔ ∃ a ∈ t, a.model = m := by
  unfold modelsOf
  rw [(sortInts_perm _).mem_iff, mem_firstSeen]
  simp

theorem modelsOf_nodup (t : Table) : (modelsOf t).Nodup := by
  unfold modelsOf
  exact (sortInts_perm _).nodup_iff.2 (firstSeen_nodup _)

/-- the model numbers come out in ascending order -/
theorem insertSorted_pairwise (x : Int) : ∀ l : List Int, l.Pairwise (· ≤ ·) → (insertSorted x l).Pairwise (· ≤ ·)
  | [], _ => by simp [insertSorted]
  | y :: ys, h => by
    unfold insertSorted
    have h' := List.pairwise_cons.1 h
    split
    · rename_i hxy
      exact List.pairwise_cons.2 ⟨fun z hz => by
        rcases List.mem_cons.1 hz with rfl | hz
        · exact hxy
        · exact Int.le_trans hxy (h'.1 z hz), h⟩
    · rename_i hxy
      refine List.pairwise_cons.2 ⟨fun z hz => ?_, insertSorted_pairwise x ys h'.2⟩
      rcases List.mem_cons.1 ((insertSorted_perm x ys).mem_iff.1 hz) with rfl | hz
      · omega
      · exact h'.1 z hz

theorem modelsOf_sorted (t : Table) : (modelsOf t).Pairwise (· ≤ ·) := by
  unfold modelsOf sortInts
  induction firstSeen (t.map (·.model)) with
  | nil => exact List.Pairwise.nil
  | cons x xs ih => exact insertSorted_pairwise x _ ih

theorem mem_rowsOfModel (t : Table) (m : Int) (a : Atom) : a ∈ rowsOfModel t m ↔ a ∈ t ∧ a.model = m := by
  simp [rowsOfModel]

theorem rowsOfModel_sublist (t : Table) (m : Int) : (rowsOfModel t m).Sublist t :=
  List.filter_sublist

theorem rowsOfModel_ne_nil (t : Table) (m : Int) (h : m ∈ modelsOf t) : rowsOfModel t m ≠ [] := by
  obtain ⟨a, ha, e⟩ := (mem_modelsOf t m).1 h
  intro hn
  have : a ∈ rowsOfModel t m := (mem_rowsOfModel t m a).2 ⟨ha, e⟩
  rw [hn] at this
  cases this

theorem count_rowsOfModel (t : Table) (m : Int) (a : Atom) :
    (rowsOfModel t m).count a = if a.model = m then t.count a else 0 := by
  unfold rowsOfModel
  by_cases h : a.model = m
  · rw [if_pos h, List.count_filter (by simpa using h)]
  · rw [if_neg h, List.count_eq_zero]
    intro hm
    exact h (by simpa using (List.mem_filter.1 hm).2)

/-- multiset partition: over a duplicate-free list of model numbers, the groups contain every row of
those models exactly as often as the table does, and nothing else -/
theorem count_groups (t : Table) (a : Atom) : ∀ (ms : List Int), ms.Nodup →
    (ms.flatMap (rowsOfModel t)).count a = if a.model ∈ ms then t.count a else 0
  | [], _ => by simp
  | m :: ms, hn => by
    have hn' := List.nodup_cons.1 hn
    rw [List.flatMap_cons, List.count_append, count_rowsOfModel, count_groups t a ms hn'.2]
    by_cases h : a.model = m
    · have hnot : a.model ∉ ms := h ▸ hn'.1
      rw [if_pos h, if_neg hnot, if_pos (by simp [h])]
      rfl
    · rw [if_neg h]
      simp [h]

theorem count_all_groups (t : Table) (a : Atom) :
    ((modelsOf t).flatMap (rowsOfModel t)).count a = t.count a := by
  rw [count_groups t a _ (modelsOf_nodup t)]
  by_cases h : a ∈ t
  · rw [if_pos ((mem_modelsOf t a.model).2 ⟨a, h, rfl⟩)]
  · have : t.count a = 0 := List.count_eq_zero.2 h
    rw [this]; split <;> rfl

/-! ## tables within the PDB limits need no fitting -/

theorem rowFits_of_within (a : Atom) (h : WithinPdbLimits a) : rowFits a = true := by
  have hb : ParserV2.canWriteMaxSerial = ParserV2.maxSerial ∧ ParserV2.canWriteMaxChainLen = 1 ∧
      ParserV2.canWriteMaxResSeq = ParserV2.maxResSeq := by decide
  unfold WithinPdbLimits withinPdbLimits at h
  simp only [Bool.and_eq_true, decide_eq_true_eq] at h
  unfold rowFits
  simp only [Bool.and_eq_true, decide_eq_true_eq, hb.1, hb.2.1, hb.2.2]
  omega

theorem rowFitsPdb_of_within (a : Atom) (h : WithinPdbLimits a) : rowFitsPdb a = true := by
  have hb : ParserV2.canWritePdbMaxSerial = ParserV2.maxSerial ∧ ParserV2.canWritePdbMaxChainLen = 1 ∧
      ParserV2.canWritePdbMaxResSeq = ParserV2.maxResSeq := by decide
  unfold WithinPdbLimits withinPdbLimits at h
  simp only [Bool.and_eq_true, decide_eq_true_eq] at h
  unfold rowFitsPdb
  simp only [Bool.and_eq_true, decide_eq_true_eq, hb.1, hb.2.1, hb.2.2]
  omega

theorem canWrite_of_within (fmt : Format) (t : Table) (h : ∀ a ∈ t, WithinPdbLimits a) :
    canWritePdb fmt t = true := by
  cases fmt with
  | pdb =>
    have : t.all rowFitsPdb = true := by
      rw [List.all_eq_true]
      exact fun a ha => rowFitsPdb_of_within a (h a ha)
    show (if ParserV2.pdbAssumedToFit then true else t.all rowFitsPdb) = true
    rw [this]
    exact ite_self true
  | cif =>
    unfold canWritePdb
    rw [Bool.or_eq_true]
    right
    rw [List.all_eq_true]
    exact fun a ha => rowFits_of_within a (h a ha)

/-! ## one MODEL … ENDMDL block per single-model table -/

def isModelLine : Line → Bool
  | .model _ => true
  | _ => false

def isEndmdlLine : Line → Bool
  | .endmdl => true
  | _ => false

theorem emitFrom_sameModel_counts (fixed : Bool) (p : Atom) (rest : List Atom)
    (h : ∀ a ∈ rest, a.model = p.model) :
    (emitFrom fixed p rest).countP isModelLine = 0 ∧ (emitFrom fixed p rest).countP isEndmdlLine = 1 := by
  induction rest generalizing p with
  | nil => exact ⟨rfl, rfl⟩
  | cons a rest ih =>
    have hm : a.model = p.model := h a (by simp)
    have hrest : ∀ b ∈ rest, b.model = a.model := fun b hb => by
      rw [hm]; exact h b (by simp [hb])
    obtain ⟨i1, i2⟩ := ih a hrest
    by_cases hc : a.chain = p.chain
    · simp [emitFrom, between, hm, hc, isModelLine, isEndmdlLine, i1, i2]
    · simp [emitFrom, between, hm, hc, isModelLine, isEndmdlLine, i1, i2]

/-- a non-empty table whose rows carry one model number is written as exactly one MODEL record and
exactly one ENDMDL record (whichever way the TER-before-ENDMDL switch is read off the source) -/
theorem one_block (rows : List Atom) (hne : rows ≠ []) (h : ∀ a ∈ rows, ∀ b ∈ rows, a.model = b.model) :
    (writePdbLines rows).countP isModelLine = 1 ∧ (writePdbLines rows).countP isEndmdlLine = 1 := by
  cases rows with
  | nil => exact absurd rfl hne
  | cons a rest =>
    have hrest : ∀ b ∈ rest, b.model = a.model := fun b hb => h b (by simp [hb]) a (by simp)
    unfold writePdbLines writePdbLinesWith
    cases ParserV2.terBeforeEndmdl
    · obtain ⟨i1, i2⟩ := emitFrom_sameModel_counts false a rest hrest
      simp [writePdbLines_cons, isModelLine, isEndmdlLine, List.countP_cons, i1, i2]
    · obtain ⟨i1, i2⟩ := emitFrom_sameModel_counts true a rest hrest
      simp [writePdbLinesFixed_cons, isModelLine, isEndmdlLine, List.countP_cons, i1, i2]

/-! ## what `fit_to_pdb` keeps of the model number -/

theorem fit_keeps_model (fmt : Format) (t t' : Table) (m : Int) (h : fitToPdb fmt t = .ok t')
    (hm : ∀ a ∈ t, a.model = m) : ∀ a ∈ t', a.model = m := by
  cases hc : canWritePdb fmt t with
  | true => rw [fit_of_canWrite fmt t t' h hc]; exact hm
  | false =>
    intro a' ha'
    obtain ⟨a, ha, s, -, e⟩ := fit_mem fmt t t' h hc a' ha'
    rw [e]; exact hm a ha

theorem fit_ne_nil (fmt : Format) (t t' : Table) (h : fitToPdb fmt t = .ok t') (hne : t ≠ []) : t' ≠ [] := by
  have hl := (fit_ok_preserves_rows fmt t t' h).1
  intro e
  rw [e] at hl
  exact hne (List.eq_nil_of_length_eq_zero hl.symm)

end RnaVerif.Splitter

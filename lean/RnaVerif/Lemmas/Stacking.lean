import RnaVerif.Model.Stacking
import RnaVerif.Lemmas.PairUtil
import Mathlib.Data.String.Basic
import Mathlib.Data.Prod.Lex
import Mathlib.Tactic.Ring
import Mathlib.Tactic.Linarith
/-!
# Lemmas about the stacking model (combinatorial part): the list is the filter of the defining
predicate, every unordered pair occurs once, the list is sorted, the lower residue comes first,
the label follows the sign of `n_i · n_j` and the residue order.
-/
namespace RnaVerif.Stacking
open RnaVerif

/-! ## the order on residue keys is the lexicographic linear order -/

def Key.lex (k : Key) : ℤ ×ₗ String ×ₗ ℤ ×ₗ String :=
  toLex (k.model, toLex (k.chain, toLex (k.number, k.icode)))

theorem Key.lex_inj {a b : Key} : a.lex = b.lex ↔ a = b := by
  cases a; cases b
  simp [Key.lex, Prod.ext_iff]

theorem keyLt_iff (a b : Key) : keyLt a b = true ↔ a.lex < b.lex := by
  simp [keyLt, Key.lex, Prod.Lex.toLex_lt_toLex]

theorem keyLt_asymm {a b : Key} (h : keyLt a b = true) : keyLt b a = false := by
  rw [keyLt_iff] at h
  cases hb : keyLt b a
  · rfl
  · rw [keyLt_iff] at hb
    exact absurd h (lt_asymm hb)

theorem keyLt_irrefl (a : Key) : keyLt a a = false := by
  cases h : keyLt a a
  · rfl
  · exact absurd ((keyLt_iff a a).1 h) (lt_irrefl _)

theorem keyLt_total {a b : Key} (h : a ≠ b) : keyLt a b = true ∨ keyLt b a = true := by
  rw [keyLt_iff, keyLt_iff]
  exact lt_or_gt_of_ne (fun e => h (Key.lex_inj.1 e))

def Stk.lex (s : Stk) : (ℤ ×ₗ String ×ₗ ℤ ×ₗ String) ×ₗ (ℤ ×ₗ String ×ₗ ℤ ×ₗ String) :=
  toLex (s.r1.key.lex, s.r2.key.lex)

theorem stkLt_iff (s t : Stk) : stkLt s t = true ↔ s.lex < t.lex := by
  simp only [stkLt, Stk.lex, Prod.Lex.toLex_lt_toLex, Bool.or_eq_true, Bool.and_eq_true, keyLt_iff,
    beq_iff_eq, Key.lex_inj]

theorem stkLe_iff (s t : Stk) : stkLe s t = true ↔ s.lex ≤ t.lex := by
  simp only [stkLe, Bool.not_eq_true']
  rw [← not_lt, ← stkLt_iff]
  simp

theorem stkLe_trans (a b c : Stk) : stkLe a b = true → stkLe b c = true → stkLe a c = true := by
  simp only [stkLe_iff]; exact le_trans

theorem stkLe_total (a b : Stk) : (stkLe a b || stkLe b a) = true := by
  simp only [Bool.or_eq_true, stkLe_iff]; exact le_total _ _


/-! ## the defining predicate, written out -/

/-- **The geometric definition of a stacking**, for residue `a` listed before residue `b` in the
file, in exact arithmetic with the certain side of every threshold:
both normals exist; `v = c_a - c_b` (signed, file order);
`|v|² ≤ (D - δ)²`; `(n·m)² ≥ (cos²35° + δ) |n|²|m|²`; and for one of the two normals `k`:
`v·k > 0 ∧ (v·k)² ≥ (cos²45° + δ) |v|²|k|²`. -/
def StackDef (a b : Prep) : Prop :=
  match a.n, b.n with
  | some n, some m =>
    let v := V3.sub a.c b.c
    V3.norm2 v ≤ sq (Gen.stackingMaxDistance - margin) ∧
    (V3.norm2 n * V3.norm2 m ≠ 0 ∧
      (Gen.cosSqNormalsHi + margin) * (V3.norm2 n * V3.norm2 m) ≤ sq (V3.dot n m)) ∧
    ((V3.norm2 v * V3.norm2 n ≠ 0 ∧ 0 < V3.dot v n ∧
        (Gen.cosSqVectorHi + margin) * (V3.norm2 v * V3.norm2 n) ≤ sq (V3.dot v n)) ∨
     (V3.norm2 v * V3.norm2 m ≠ 0 ∧ 0 < V3.dot v m ∧
        (Gen.cosSqVectorHi + margin) * (V3.norm2 v * V3.norm2 m) ≤ sq (V3.dot v m)))
  | _, _ => False

instance (a b : Prep) : Decidable (StackDef a b) := by
  unfold StackDef
  split <;> infer_instance

theorem and3_yes {x y : Tri} : Tri.and3 x y = .yes ↔ x = .yes ∧ y = .yes := by
  cases x <;> cases y <;> simp [Tri.and3]

theorem or3_yes {x y : Tri} : Tri.or3 x y = .yes ↔ x = .yes ∨ y = .yes := by
  cases x <;> cases y <;> simp [Tri.or3]

theorem distTri_yes {d2 : Rat} : distTri d2 = .yes ↔ d2 ≤ sq (Gen.stackingMaxDistance - margin) := by
  unfold distTri
  split
  · simp [*]
  · split <;> simp [*]

theorem normTri_yes {n m : V3 Rat} : normTri n m = .yes ↔
    (V3.norm2 n * V3.norm2 m ≠ 0 ∧
      (Gen.cosSqNormalsHi + margin) * (V3.norm2 n * V3.norm2 m) ≤ sq (V3.dot n m)) := by
  unfold normTri
  simp only
  split
  · simp [*]
  · split
    · simp [*]
    · split <;> simp [*]

theorem vecTri_yes {v n : V3 Rat} : vecTri v n = .yes ↔
    (V3.norm2 v * V3.norm2 n ≠ 0 ∧ 0 < V3.dot v n ∧
      (Gen.cosSqVectorHi + margin) * (V3.norm2 v * V3.norm2 n) ≤ sq (V3.dot v n)) := by
  unfold vecTri
  simp only
  by_cases hq : V3.norm2 v * V3.norm2 n = 0
  · simp [hq]
  · rw [if_neg hq]
    by_cases hy : (0 < V3.dot v n ∧
        (Gen.cosSqVectorHi + margin) * (V3.norm2 v * V3.norm2 n) ≤ sq (V3.dot v n))
    · rw [if_pos (by simpa using hy)]
      simp [hq, hy]
    · rw [if_neg (by simpa using hy)]
      constructor
      · intro h; split at h <;> cases h
      · rintro ⟨_, h1, h2⟩; exact absurd ⟨h1, h2⟩ hy

theorem pairTri_yes_iff (a b : Prep) : pairTri a b = .yes ↔ StackDef a b := by
  cases ha : a.n <;> cases hb : b.n <;>
    simp only [pairTri, StackDef, ha, hb, and3_yes, or3_yes, distTri_yes, normTri_yes, vecTri_yes] <;>
    simp

theorem and3_no {x y : Tri} : Tri.and3 x y = .no ↔ x = .no ∨ y = .no := by
  cases x <;> cases y <;> simp [Tri.and3]

theorem or3_no {x y : Tri} : Tri.or3 x y = .no ↔ x = .no ∧ y = .no := by
  cases x <;> cases y <;> simp [Tri.or3]

theorem distTri_no {d2 : Rat} (h : distTri d2 = .no) : sq (Gen.stackingMaxDistance + margin) < d2 := by
  unfold distTri at h
  split at h
  · cases h
  · split at h
    · assumption
    · cases h

theorem normTri_no {n m : V3 Rat} (h : normTri n m = .no) :
    V3.norm2 n * V3.norm2 m ≠ 0 ∧ sq (V3.dot n m) ≤ (Gen.cosSqNormalsLo - margin) * (V3.norm2 n * V3.norm2 m) := by
  unfold normTri at h
  simp only at h
  split at h
  · cases h
  · split at h
    · cases h
    · split at h
      · exact ⟨by assumption, by assumption⟩
      · cases h

theorem vecTri_no {v n : V3 Rat} (h : vecTri v n = .no) :
    V3.norm2 v * V3.norm2 n ≠ 0 ∧
      (V3.dot v n ≤ 0 ∨ sq (V3.dot v n) ≤ (Gen.cosSqVectorLo - margin) * (V3.norm2 v * V3.norm2 n)) := by
  unfold vecTri at h
  simp only at h
  split at h
  · cases h
  · split at h
    · cases h
    · split at h
      · rename_i hq _ hno
        simp only [Bool.or_eq_true, decide_eq_true_eq] at hno
        exact ⟨hq, hno⟩
      · cases h

/-- what a `no` of the model means for a pair with both normals -/
theorem pairTri_no {a b : Prep} {n m : V3 Rat} (hn : a.n = some n) (hm : b.n = some m)
    (h : pairTri a b = .no) :
    distTri (V3.norm2 (V3.sub a.c b.c)) = .no ∨ normTri n m = .no ∨
      (vecTri (V3.sub a.c b.c) n = .no ∧ vecTri (V3.sub a.c b.c) m = .no) := by
  simpa only [pairTri, hn, hm, and3_no, or3_no] using h

/-- the loop is the filter of the defining predicate followed by the labelling -/
theorem collect_eq (cs : List (Prep × Prep)) :
    collect cs = (cs.filter (fun p => decide (StackDef p.1 p.2))).map (fun p => classify p.1 p.2) := by
  induction cs with
  | nil => rfl
  | cons p rest ih =>
    obtain ⟨a, b⟩ := p
    simp only [collect, List.filter_cons]
    by_cases h : StackDef a b
    · have h' := (pairTri_yes_iff a b).2 h
      simp [h, h', ih]
    · have h' : pairTri a b ≠ .yes := fun e => h ((pairTri_yes_iff a b).1 e)
      simp only [h, decide_false]
      cases hp : pairTri a b <;> simp_all


/-! ## once, oriented, labelled, sorted -/

theorem prepOne_idx {m : Option Int} {p : Nat × Res} {q : Prep} (h : prepOne m p = some q) : q.idx = p.1 := by
  unfold prepOne at h
  split at h
  · cases h
  · split at h
    · cases h
    · cases h; rfl

/-- prepared residues keep the file order -/
theorem prepare_pairwise (m : Option Int) (rs : List Res) :
    (prepare m rs).Pairwise (fun a b => a.idx < b.idx) := by
  unfold prepare
  refine List.Pairwise.filterMap _ ?_ (enumFrom'_pairwise 0 rs).1
  intro a a' h b hb b' hb'
  rw [prepOne_idx hb, prepOne_idx hb']; exact h

theorem idx_lt_of_mem_candidates {m : Option Int} {rs : List Res} {p : Prep × Prep}
    (hp : p ∈ candidates m rs) : p.1.idx < p.2.idx :=
  rel_of_mem_pairsUp (prepare_pairwise m rs) hp

/-- the unordered pair of file positions of a reported stacking -/
def Stk.upair (s : Stk) : Nat × Nat := (min s.r1.idx s.r2.idx, max s.r1.idx s.r2.idx)

theorem classify_upair {a b : Prep} (h : a.idx < b.idx) : (classify a b).upair = (a.idx, b.idx) := by
  unfold classify Stk.upair
  split <;> simp only [Prod.mk.injEq] <;> omega

theorem mem_stackings {m : Option Int} {rs : List Res} {s : Stk} :
    s ∈ stackings m rs ↔ ∃ p ∈ candidates m rs, StackDef p.1 p.2 ∧ s = classify p.1 p.2 := by
  unfold stackings
  rw [(List.mergeSort_perm _ _).mem_iff, collect_eq]
  simp only [List.mem_map, List.mem_filter, decide_eq_true_eq]
  constructor
  · rintro ⟨p, ⟨hp, hd⟩, rfl⟩; exact ⟨p, hp, hd, rfl⟩
  · rintro ⟨p, hp, hd, rfl⟩; exact ⟨p, ⟨hp, hd⟩, rfl⟩

theorem stackings_once' (m : Option Int) (rs : List Res) : ((stackings m rs).map Stk.upair).Nodup := by
  unfold stackings
  rw [((List.mergeSort_perm _ _).map _).nodup_iff, collect_eq, List.map_map]
  have h1 : ∀ p ∈ (candidates m rs).filter (fun p => decide (StackDef p.1 p.2)),
      (Stk.upair ∘ fun p => classify p.1 p.2) p = (fun p : Prep × Prep => (p.1.idx, p.2.idx)) p := by
    intro p hp
    exact classify_upair (idx_lt_of_mem_candidates (List.mem_of_mem_filter hp))
  rw [List.map_congr_left h1]
  exact List.Nodup.sublist (List.filter_sublist.map _) (pairsUp_tags_nodup Prep.idx (prepare_pairwise m rs))

theorem stackings_sorted' (m : Option Int) (rs : List Res) :
    (stackings m rs).Pairwise (fun s t => stkLe s t = true) :=
  List.pairwise_mergeSort stkLe_trans stkLe_total _

theorem stackings_oriented' (m : Option Int) (rs : List Res) :
    ∀ s ∈ stackings m rs, keyLt s.r2.key s.r1.key = false ∧ s.r1.idx ≠ s.r2.idx := by
  intro s hs
  obtain ⟨p, hp, _, rfl⟩ := mem_stackings.1 hs
  have hlt := idx_lt_of_mem_candidates hp
  unfold classify
  split
  · rename_i h; exact ⟨keyLt_asymm h, by simp only; omega⟩
  · rename_i h; exact ⟨by simpa using h, by simp only; omega⟩

theorem dot_comm (n m : V3 Rat) : V3.dot n m = V3.dot m n := by
  simp only [V3.dot]; ring

theorem StackDef.normals {a b : Prep} (h : StackDef a b) : ∃ n m, a.n = some n ∧ b.n = some m := by
  unfold StackDef at h
  split at h
  · rename_i n m ha hb; exact ⟨n, m, ha, hb⟩
  · exact h.elim

theorem topology_label' (m : Option Int) (rs : List Res) :
    ∀ s ∈ stackings m rs, ∃ n1 n2, s.r1.n = some n1 ∧ s.r2.n = some n2 ∧
      ((s.topo = .upward ∨ s.topo = .downward) ↔ 0 < V3.dot n1 n2) ∧
      ((s.topo = .upward ∨ s.topo = .inward) ↔ s.r1.idx < s.r2.idx) := by
  intro s hs
  obtain ⟨p, hp, hd, rfl⟩ := mem_stackings.1 hs
  have hlt := idx_lt_of_mem_candidates hp
  obtain ⟨n, k, hn, hk⟩ := hd.normals
  unfold classify
  split
  · refine ⟨n, k, hn, hk, ?_, ?_⟩
    · by_cases hs : 0 < V3.dot n k <;> simp [sameDirection, hn, hk, hs]
    · by_cases hs : 0 < V3.dot n k <;> simp [sameDirection, hn, hk, hs, hlt]
  · refine ⟨k, n, hk, hn, ?_, ?_⟩
    · rw [dot_comm k n]
      by_cases hs : 0 < V3.dot n k <;> simp [sameDirection, hn, hk, hs]
    · by_cases hs : 0 < V3.dot n k <;> simp [sameDirection, hn, hk, hs] <;> omega

/-- the model's list, as the defining filter over all ordered pairs -/
theorem stackings_eq_filter' (m : Option Int) (rs : List Res) :
    stackings m rs =
      (((pairsUp (prepare m rs)).filter (fun p => decide (StackDef p.1 p.2))).map
        (fun p => classify p.1 p.2)).mergeSort stkLe := by
  unfold stackings candidates
  rw [collect_eq]

end RnaVerif.Stacking

import RnaVerif.Lemmas.Stacking
import RnaVerif.Lemmas.CosBounds
import Mathlib.Analysis.SpecialFunctions.Trigonometric.Inverse
import Mathlib.Tactic.Ring
import Mathlib.Tactic.Linarith
import Mathlib.Tactic.Positivity
import Mathlib.Tactic.FieldSimp
/-!
# The angle clauses of the stacking definition over ℝ and their polynomial forms

`angle u w = arccos (u·w / (|u| |w|))` is what `annotator.angle_between_vectors` computes;
`deg` is `math.degrees`.
-/
namespace RnaVerif.Stacking
open RnaVerif Real

noncomputable def angle (u w : V3 ℝ) : ℝ :=
  arccos (V3.dot u w / (√(V3.norm2 u) * √(V3.norm2 w)))

/-- `math.degrees` -/
noncomputable def deg (x : ℝ) : ℝ := x * 180 / π

theorem deg_le_iff (x t : ℝ) : deg x ≤ t ↔ x ≤ t * π / 180 := by
  unfold deg
  rw [div_le_iff₀ pi_pos, le_div_iff₀ (by norm_num : (0 : ℝ) < 180)]

theorem norm2_nonneg (u : V3 ℝ) : 0 ≤ V3.norm2 u := by
  simp only [V3.norm2, V3.dot]; nlinarith [sq_nonneg u.x, sq_nonneg u.y, sq_nonneg u.z]

/-- Cauchy–Schwarz through Lagrange's identity -/
theorem cauchy (u w : V3 ℝ) : V3.dot u w ^ 2 ≤ V3.norm2 u * V3.norm2 w := by
  simp only [V3.norm2, V3.dot]
  nlinarith [sq_nonneg (u.x * w.y - u.y * w.x), sq_nonneg (u.x * w.z - u.z * w.x),
    sq_nonneg (u.y * w.z - u.z * w.y)]

theorem cosArg_sq {u w : V3 ℝ} (hu : 0 < V3.norm2 u) (hw : 0 < V3.norm2 w) :
    (V3.dot u w / (√(V3.norm2 u) * √(V3.norm2 w))) ^ 2 = V3.dot u w ^ 2 / (V3.norm2 u * V3.norm2 w) := by
  rw [div_pow, mul_pow, sq_sqrt hu.le, sq_sqrt hw.le]

theorem cosArg_mem {u w : V3 ℝ} (hu : 0 < V3.norm2 u) (hw : 0 < V3.norm2 w) :
    V3.dot u w / (√(V3.norm2 u) * √(V3.norm2 w)) ∈ Set.Icc (-1 : ℝ) 1 := by
  have h : (V3.dot u w / (√(V3.norm2 u) * √(V3.norm2 w))) ^ 2 ≤ 1 := by
    rw [cosArg_sq hu hw, div_le_one (mul_pos hu hw)]
    exact cauchy u w
  exact ⟨by nlinarith, by nlinarith⟩

theorem arccos_le_iff' {x θ : ℝ} (hx : x ∈ Set.Icc (-1 : ℝ) 1) (h0 : 0 ≤ θ) (hπ : θ ≤ π) :
    arccos x ≤ θ ↔ cos θ ≤ x := by
  have hc : cos θ ∈ Set.Icc (-1 : ℝ) 1 := ⟨neg_one_le_cos θ, cos_le_one θ⟩
  conv_lhs => rw [← arccos_cos h0 hπ]
  exact strictAntiOn_arccos.le_iff_ge hx hc

/-- `∠(u, w) ≤ θ` for `θ ≤ 90°`: the dot product is non-negative and its square is large enough -/
theorem angle_le_iff {u w : V3 ℝ} (hu : 0 < V3.norm2 u) (hw : 0 < V3.norm2 w) {θ : ℝ}
    (h0 : 0 ≤ θ) (h2 : θ ≤ π / 2) :
    angle u w ≤ θ ↔ 0 ≤ V3.dot u w ∧ cos θ ^ 2 * (V3.norm2 u * V3.norm2 w) ≤ V3.dot u w ^ 2 := by
  have hπ : θ ≤ π := by linarith [pi_pos]
  have hc : 0 ≤ cos θ := cos_nonneg_of_neg_pi_div_two_le_of_le (by linarith [pi_pos]) h2
  have hs : 0 < √(V3.norm2 u) * √(V3.norm2 w) := mul_pos (sqrt_pos.2 hu) (sqrt_pos.2 hw)
  have hq : 0 < V3.norm2 u * V3.norm2 w := mul_pos hu hw
  unfold angle
  rw [arccos_le_iff' (cosArg_mem hu hw) h0 hπ]
  set x := V3.dot u w / (√(V3.norm2 u) * √(V3.norm2 w)) with hxdef
  have hx2 : x ^ 2 = V3.dot u w ^ 2 / (V3.norm2 u * V3.norm2 w) := cosArg_sq hu hw
  have hsign : 0 ≤ x ↔ 0 ≤ V3.dot u w := by
    rw [hxdef]
    constructor
    · intro h; have := mul_nonneg h hs.le; rwa [div_mul_cancel₀ _ hs.ne'] at this
    · intro h; exact div_nonneg h hs.le
  constructor
  · intro h
    have hx0 : 0 ≤ x := le_trans hc h
    refine ⟨hsign.1 hx0, ?_⟩
    have : cos θ ^ 2 ≤ x ^ 2 := by nlinarith
    rw [hx2, le_div_iff₀ hq] at this
    exact this
  · rintro ⟨hd, hp⟩
    have hx0 : 0 ≤ x := hsign.2 hd
    have : cos θ ^ 2 ≤ x ^ 2 := by rw [hx2, le_div_iff₀ hq]; exact hp
    nlinarith

theorem dot_neg_left (u w : V3 ℝ) : V3.dot (V3.neg u) w = - V3.dot u w := by
  simp only [V3.dot, V3.neg]; ring

theorem norm2_neg (u : V3 ℝ) : V3.norm2 (V3.neg u) = V3.norm2 u := by
  simp only [V3.norm2, V3.dot, V3.neg]; ring

/-- normals within `θ ≤ 90°` of parallel **or antiparallel** -/
theorem normals_iff {u w : V3 ℝ} (hu : 0 < V3.norm2 u) (hw : 0 < V3.norm2 w) {θ : ℝ}
    (h0 : 0 ≤ θ) (h2 : θ ≤ π / 2) :
    min (angle u w) (angle (V3.neg u) w) ≤ θ ↔
      cos θ ^ 2 * (V3.norm2 u * V3.norm2 w) ≤ V3.dot u w ^ 2 := by
  have hu' : 0 < V3.norm2 (V3.neg u) := by rw [norm2_neg]; exact hu
  rw [min_le_iff, angle_le_iff hu hw h0 h2, angle_le_iff hu' hw h0 h2, norm2_neg, dot_neg_left, neg_sq]
  constructor
  · rintro (h | h) <;> exact h.2
  · intro h
    rcases le_total 0 (V3.dot u w) with hd | hd
    · exact Or.inl ⟨hd, h⟩
    · exact Or.inr ⟨by linarith, h⟩

/-- the centroid vector within `θ` of one of the two normals -/
theorem vector_iff {v n m : V3 ℝ} (hv : 0 < V3.norm2 v) (hn : 0 < V3.norm2 n) (hm : 0 < V3.norm2 m)
    {θ : ℝ} (h0 : 0 ≤ θ) (h2 : θ ≤ π / 2) :
    min (angle v n) (angle v m) ≤ θ ↔
      (0 ≤ V3.dot v n ∧ cos θ ^ 2 * (V3.norm2 v * V3.norm2 n) ≤ V3.dot v n ^ 2) ∨
      (0 ≤ V3.dot v m ∧ cos θ ^ 2 * (V3.norm2 v * V3.norm2 m) ≤ V3.dot v m ^ 2) := by
  rw [min_le_iff, angle_le_iff hv hn h0 h2, angle_le_iff hv hm h0 h2]

theorem dist_iff (v : V3 ℝ) {D : ℝ} (hD : 0 ≤ D) : √(V3.norm2 v) ≤ D ↔ V3.norm2 v ≤ D ^ 2 := by
  rw [sqrt_le_iff]; exact ⟨fun h => h.2, fun h => ⟨hD, h⟩⟩


/-! ## the rational model against the real-number definition -/

/-- a rational vector read as a real one -/
def toR (v : V3 Rat) : V3 ℝ := ⟨(v.x : ℝ), (v.y : ℝ), (v.z : ℝ)⟩

theorem toR_dot (a b : V3 Rat) : V3.dot (toR a) (toR b) = ((V3.dot a b : Rat) : ℝ) := by
  simp only [V3.dot, toR]; push_cast; ring

theorem toR_norm2 (a : V3 Rat) : V3.norm2 (toR a) = ((V3.norm2 a : Rat) : ℝ) := by
  simp only [V3.norm2]; exact toR_dot a a

theorem toR_sub (a b : V3 Rat) : V3.sub (toR a) (toR b) = toR (V3.sub a b) := by
  simp only [V3.sub, toR]; push_cast; rfl

/-- **The stacking definition of the property statement**, over ℝ, for residue `i` listed before
residue `j`: centroids within `D` Å, normals within `A`° of parallel or antiparallel, and the
centroid-to-centroid vector `c_i - c_j` within `B`° of one of the normals. -/
def GeomStack (D A B : ℝ) (ci cj ni nj : V3 ℝ) : Prop :=
  √(V3.norm2 (V3.sub ci cj)) ≤ D ∧
  deg (min (angle ni nj) (angle (V3.neg ni) nj)) ≤ A ∧
  deg (min (angle (V3.sub ci cj) ni) (angle (V3.sub ci cj) nj)) ≤ B

/-- what is assumed (or proved, see `Props/C04.lean`) about the generated rational constants -/
structure Enclosures : Prop where
  n_lo : (Gen.cosSqNormalsLo : ℝ) ≤ cos ((Gen.stackingMaxAngleNormals : ℝ) * π / 180) ^ 2
  n_hi : cos ((Gen.stackingMaxAngleNormals : ℝ) * π / 180) ^ 2 ≤ (Gen.cosSqNormalsHi : ℝ)
  v_lo : (Gen.cosSqVectorLo : ℝ) ≤ cos ((Gen.stackingMaxAngleVector : ℝ) * π / 180) ^ 2
  v_hi : cos ((Gen.stackingMaxAngleVector : ℝ) * π / 180) ^ 2 ≤ (Gen.cosSqVectorHi : ℝ)

theorem angles_in_range :
    0 ≤ (Gen.stackingMaxAngleNormals : ℝ) * π / 180 ∧ (Gen.stackingMaxAngleNormals : ℝ) * π / 180 ≤ π / 2 ∧
    0 ≤ (Gen.stackingMaxAngleVector : ℝ) * π / 180 ∧ (Gen.stackingMaxAngleVector : ℝ) * π / 180 ≤ π / 2 := by
  have hp := pi_pos
  have h1 : (0 : ℝ) ≤ (Gen.stackingMaxAngleNormals : ℝ) ∧ (Gen.stackingMaxAngleNormals : ℝ) ≤ 90 := by
    constructor <;> (simp only [Gen.stackingMaxAngleNormals]; norm_num)
  have h2 : (0 : ℝ) ≤ (Gen.stackingMaxAngleVector : ℝ) ∧ (Gen.stackingMaxAngleVector : ℝ) ≤ 90 := by
    constructor <;> (simp only [Gen.stackingMaxAngleVector]; norm_num)
  refine ⟨div_nonneg (mul_nonneg h1.1 hp.le) (by norm_num), by nlinarith,
    div_nonneg (mul_nonneg h2.1 hp.le) (by norm_num), by nlinarith⟩

theorem margin_pos : (0 : ℝ) < (margin : ℝ) := by simp only [margin]; norm_num

theorem pos_of_mul_ne_zero {x y : ℝ} (hx : 0 ≤ x) (hy : 0 ≤ y) (h : x * y ≠ 0) : 0 < x ∧ 0 < y := by
  constructor
  · rcases hx.lt_or_eq with h' | h'
    · exact h'
    · exact absurd (by rw [← h', zero_mul]) h
  · rcases hy.lt_or_eq with h' | h'
    · exact h'
    · exact absurd (by rw [← h', mul_zero]) h

theorem castq_ne {q : Rat} (h : q ≠ 0) : (q : ℝ) ≠ 0 := by exact_mod_cast h

/-- **soundness**: a pair the exact model accepts is a stacking by the real-number definition -/
theorem stackDef_sound (E : Enclosures) {a b : Prep} {n m : V3 Rat} (hn : a.n = some n) (hm : b.n = some m)
    (h : StackDef a b) :
    GeomStack (Gen.stackingMaxDistance : ℝ) (Gen.stackingMaxAngleNormals : ℝ) (Gen.stackingMaxAngleVector : ℝ)
      (toR a.c) (toR b.c) (toR n) (toR m) := by
  obtain ⟨r0, r1, r2, r3⟩ := angles_in_range
  have hδ := margin_pos
  simp only [StackDef, hn, hm] at h
  obtain ⟨hd, ⟨hq, hnn⟩, hv⟩ := h
  -- normals are non-zero
  have hqR : (V3.norm2 (toR n)) * (V3.norm2 (toR m)) ≠ 0 := by
    rw [toR_norm2, toR_norm2]; exact_mod_cast hq
  obtain ⟨hnpos, hmpos⟩ := pos_of_mul_ne_zero (norm2_nonneg _) (norm2_nonneg _) hqR
  refine ⟨?_, ?_, ?_⟩
  · -- distance
    have hD : (0 : ℝ) ≤ (Gen.stackingMaxDistance : ℝ) := by simp only [Gen.stackingMaxDistance]; norm_num
    rw [toR_sub, dist_iff _ hD, toR_norm2]
    have h1 : ((V3.norm2 (V3.sub a.c b.c) : Rat) : ℝ) ≤ ((sq (Gen.stackingMaxDistance - margin) : Rat) : ℝ) := by
      exact_mod_cast hd
    have h2 : ((sq (Gen.stackingMaxDistance - margin) : Rat) : ℝ) ≤ (Gen.stackingMaxDistance : ℝ) ^ 2 := by
      simp only [sq, Gen.stackingMaxDistance, margin]; norm_num
    exact le_trans h1 h2
  · -- normals
    rw [deg_le_iff, normals_iff hnpos hmpos r0 r1, toR_norm2, toR_norm2, toR_dot]
    have h1 : ((Gen.cosSqNormalsHi : ℝ) + (margin : ℝ)) * (((V3.norm2 n : Rat) : ℝ) * ((V3.norm2 m : Rat) : ℝ))
        ≤ ((V3.dot n m : Rat) : ℝ) ^ 2 := by
      have := hnn; simp only [sq] at this
      have h' : (((Gen.cosSqNormalsHi + margin) * (V3.norm2 n * V3.norm2 m) : Rat) : ℝ) ≤
          ((V3.dot n m * V3.dot n m : Rat) : ℝ) := by exact_mod_cast this
      push_cast at h'; nlinarith
    have hqpos : 0 < ((V3.norm2 n : Rat) : ℝ) * ((V3.norm2 m : Rat) : ℝ) := by
      rw [← toR_norm2, ← toR_norm2]; exact mul_pos hnpos hmpos
    nlinarith [E.n_hi, mul_le_mul_of_nonneg_right E.n_hi hqpos.le]
  · -- centroid vector
    have key : ∀ k : V3 Rat, (V3.norm2 (V3.sub a.c b.c) * V3.norm2 k ≠ 0 ∧ 0 < V3.dot (V3.sub a.c b.c) k ∧
        (Gen.cosSqVectorHi + margin) * (V3.norm2 (V3.sub a.c b.c) * V3.norm2 k) ≤ sq (V3.dot (V3.sub a.c b.c) k)) →
        0 < V3.norm2 (toR (V3.sub a.c b.c)) ∧
        (0 ≤ V3.dot (toR (V3.sub a.c b.c)) (toR k) ∧
          cos ((Gen.stackingMaxAngleVector : ℝ) * π / 180) ^ 2 *
            (V3.norm2 (toR (V3.sub a.c b.c)) * V3.norm2 (toR k)) ≤ V3.dot (toR (V3.sub a.c b.c)) (toR k) ^ 2) := by
      rintro k ⟨hq', hs, hp⟩
      have hq'R : V3.norm2 (toR (V3.sub a.c b.c)) * V3.norm2 (toR k) ≠ 0 := by
        rw [toR_norm2, toR_norm2]; exact_mod_cast hq'
      obtain ⟨hvpos, hkpos⟩ := pos_of_mul_ne_zero (norm2_nonneg _) (norm2_nonneg _) hq'R
      refine ⟨hvpos, ?_, ?_⟩
      · rw [toR_dot]; exact_mod_cast hs.le
      · have hqpos := mul_pos hvpos hkpos
        rw [toR_norm2, toR_norm2] at hqpos
        rw [toR_norm2, toR_norm2, toR_dot]
        simp only [sq] at hp
        have h' : (((Gen.cosSqVectorHi + margin) * (V3.norm2 (V3.sub a.c b.c) * V3.norm2 k) : Rat) : ℝ) ≤
            ((V3.dot (V3.sub a.c b.c) k * V3.dot (V3.sub a.c b.c) k : Rat) : ℝ) := by exact_mod_cast hp
        push_cast at h'
        nlinarith [E.v_hi, mul_le_mul_of_nonneg_right E.v_hi hqpos.le]
    rw [deg_le_iff, toR_sub]
    rcases hv with hv | hv
    · obtain ⟨hvpos, hk⟩ := key n hv
      exact (vector_iff hvpos hnpos hmpos r2 r3).2 (Or.inl hk)
    · obtain ⟨hvpos, hk⟩ := key m hv
      exact (vector_iff hvpos hnpos hmpos r2 r3).2 (Or.inr hk)


/-- **completeness**: a pair (with both normals) the exact model rejects is not a stacking by the
real-number definition — so every real stacking is reported by the model or left undecided -/
theorem pairTri_no_complete (E : Enclosures) {a b : Prep} {n m : V3 Rat} (hn : a.n = some n) (hm : b.n = some m)
    (h : pairTri a b = .no) :
    ¬ GeomStack (Gen.stackingMaxDistance : ℝ) (Gen.stackingMaxAngleNormals : ℝ) (Gen.stackingMaxAngleVector : ℝ)
      (toR a.c) (toR b.c) (toR n) (toR m) := by
  obtain ⟨r0, r1, r2, r3⟩ := angles_in_range
  have hδ := margin_pos
  rintro ⟨g1, g2, g3⟩
  rcases pairTri_no hn hm h with h | h | ⟨h1, h2⟩
  · -- too far
    have hD : (0 : ℝ) ≤ (Gen.stackingMaxDistance : ℝ) := by simp only [Gen.stackingMaxDistance]; norm_num
    rw [toR_sub, dist_iff _ hD, toR_norm2] at g1
    have h1 : ((sq (Gen.stackingMaxDistance + margin) : Rat) : ℝ) < ((V3.norm2 (V3.sub a.c b.c) : Rat) : ℝ) := by
      exact_mod_cast distTri_no h
    have h2 : (Gen.stackingMaxDistance : ℝ) ^ 2 ≤ ((sq (Gen.stackingMaxDistance + margin) : Rat) : ℝ) := by
      simp only [sq, Gen.stackingMaxDistance, margin]; norm_num
    linarith
  · -- normals too far from (anti)parallel
    obtain ⟨hq, hp⟩ := normTri_no h
    have hqR : (V3.norm2 (toR n)) * (V3.norm2 (toR m)) ≠ 0 := by
      rw [toR_norm2, toR_norm2]; exact_mod_cast hq
    obtain ⟨hnpos, hmpos⟩ := pos_of_mul_ne_zero (norm2_nonneg _) (norm2_nonneg _) hqR
    rw [deg_le_iff, normals_iff hnpos hmpos r0 r1, toR_norm2, toR_norm2, toR_dot] at g2
    have hqpos : 0 < ((V3.norm2 n : Rat) : ℝ) * ((V3.norm2 m : Rat) : ℝ) := by
      rw [← toR_norm2, ← toR_norm2]; exact mul_pos hnpos hmpos
    simp only [sq] at hp
    have h' : ((V3.dot n m * V3.dot n m : Rat) : ℝ) ≤
        (((Gen.cosSqNormalsLo - margin) * (V3.norm2 n * V3.norm2 m) : Rat) : ℝ) := by exact_mod_cast hp
    push_cast at h'
    nlinarith [E.n_lo, mul_le_mul_of_nonneg_right E.n_lo hqpos.le, mul_pos hδ hqpos]
  · -- the centroid vector is far from both normals
    obtain ⟨hq1, hc1⟩ := vecTri_no h1
    obtain ⟨hq2, hc2⟩ := vecTri_no h2
    have hlo : (0 : ℝ) < (Gen.cosSqVectorLo : ℝ) := by simp only [Gen.cosSqVectorLo]; norm_num
    have key : ∀ k : V3 Rat, V3.norm2 (V3.sub a.c b.c) * V3.norm2 k ≠ 0 →
        (V3.dot (V3.sub a.c b.c) k ≤ 0 ∨
          sq (V3.dot (V3.sub a.c b.c) k) ≤ (Gen.cosSqVectorLo - margin) * (V3.norm2 (V3.sub a.c b.c) * V3.norm2 k)) →
        (0 < V3.norm2 (toR (V3.sub a.c b.c)) ∧ 0 < V3.norm2 (toR k)) ∧
        ¬ (0 ≤ V3.dot (toR (V3.sub a.c b.c)) (toR k) ∧
          cos ((Gen.stackingMaxAngleVector : ℝ) * π / 180) ^ 2 *
            (V3.norm2 (toR (V3.sub a.c b.c)) * V3.norm2 (toR k)) ≤ V3.dot (toR (V3.sub a.c b.c)) (toR k) ^ 2) := by
      intro k hq' hc
      have hq'R : V3.norm2 (toR (V3.sub a.c b.c)) * V3.norm2 (toR k) ≠ 0 := by
        rw [toR_norm2, toR_norm2]; exact_mod_cast hq'
      obtain ⟨hvpos, hkpos⟩ := pos_of_mul_ne_zero (norm2_nonneg _) (norm2_nonneg _) hq'R
      refine ⟨⟨hvpos, hkpos⟩, ?_⟩
      have hqpos := mul_pos hvpos hkpos
      rw [toR_norm2, toR_norm2] at hqpos
      rw [toR_norm2, toR_norm2, toR_dot]
      rintro ⟨hs, hp⟩
      have hcq := mul_le_mul_of_nonneg_right E.v_lo hqpos.le
      rcases hc with hc | hc
      · have hs0 : ((V3.dot (V3.sub a.c b.c) k : Rat) : ℝ) = 0 := by
          have : ((V3.dot (V3.sub a.c b.c) k : Rat) : ℝ) ≤ 0 := by exact_mod_cast hc
          linarith
        rw [hs0] at hp
        nlinarith [mul_pos hlo hqpos]
      · simp only [sq] at hc
        have h' : ((V3.dot (V3.sub a.c b.c) k * V3.dot (V3.sub a.c b.c) k : Rat) : ℝ) ≤
            (((Gen.cosSqVectorLo - margin) * (V3.norm2 (V3.sub a.c b.c) * V3.norm2 k) : Rat) : ℝ) := by
          exact_mod_cast hc
        push_cast at h'
        nlinarith [mul_pos hδ hqpos]
    obtain ⟨⟨hvpos, hnpos⟩, k1⟩ := key n hq1 hc1
    obtain ⟨⟨_, hmpos⟩, k2⟩ := key m hq2 hc2
    rw [deg_le_iff, toR_sub, vector_iff hvpos hnpos hmpos r2 r3] at g3
    rcases g3 with g | g
    · exact k1 g
    · exact k2 g


/-! ## the generated enclosures do enclose cos² 35° and cos² 45° -/

theorem enclosures_hold : Enclosures := by
  have hx : (Gen.stackingMaxAngleNormals : ℝ) * π / 180 = CosBounds.x35 := by
    simp only [Gen.stackingMaxAngleNormals, CosBounds.x35]; push_cast; ring
  have hy : (Gen.stackingMaxAngleVector : ℝ) * π / 180 = π / 4 := by
    simp only [Gen.stackingMaxAngleVector]; push_cast; ring
  obtain ⟨ha, hb⟩ := CosBounds.cos35_bounds
  have ha0 : (0 : ℝ) ≤ CosBounds.a35 := by unfold CosBounds.a35; norm_num
  have h45 : cos (π / 4) ^ 2 = 1 / 2 := by
    rw [cos_pi_div_four, div_pow, sq_sqrt (by norm_num : (0 : ℝ) ≤ 2)]; norm_num
  refine ⟨?_, ?_, ?_, ?_⟩
  · rw [hx]
    have h1 : (Gen.cosSqNormalsLo : ℝ) ≤ CosBounds.a35 ^ 2 := by
      simp only [Gen.cosSqNormalsLo, CosBounds.a35]; norm_num
    exact le_trans h1 (pow_le_pow_left₀ ha0 ha 2)
  · rw [hx]
    have h1 : CosBounds.b35 ^ 2 ≤ (Gen.cosSqNormalsHi : ℝ) := by
      simp only [Gen.cosSqNormalsHi, CosBounds.b35]; norm_num
    exact le_trans (pow_le_pow_left₀ (le_trans ha0 ha) hb 2) h1
  · rw [hy, h45]; simp only [Gen.cosSqVectorLo]; norm_num
  · rw [hy, h45]; simp only [Gen.cosSqVectorHi]; norm_num

end RnaVerif.Stacking

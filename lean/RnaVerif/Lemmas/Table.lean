import RnaVerif.Model.Table
/-!
# Lemmas about the mmCIF item-editing model (core Lean only)

`setCat` frame lemmas, the pure description of `copyRows`, and the invariants of the first-seen
mapping built by `replaceRows` (prefix growth, keys = `seenFrom`, letters = prefix of the alphabet,
success ⇔ enough letters).
-/
namespace RnaVerif.Table

/-! ## getCat / setCat -/

theorem getCat_name {d : Document} {cat : String} {c : Category} (h : getCat d cat = some c) : c.name = cat := by
  have := List.find?_some h
  simpa using this

theorem getCat_mem {d : Document} {cat : String} {c : Category} (h : getCat d cat = some c) : c ∈ d :=
  List.mem_of_find?_eq_some h

theorem setCat_length (d : Document) (cat : String) (c' : Category) : (setCat d cat c').length = d.length := by
  induction d with
  | nil => rfl
  | cons c cs ih => unfold setCat; split <;> simp [ih]

theorem setCat_names (d : Document) (cat : String) (c' : Category) (hn : c'.name = cat) :
    (setCat d cat c').map (·.name) = d.map (·.name) := by
  induction d with
  | nil => rfl
  | cons c cs ih =>
    unfold setCat; split
    · rename_i h; simp at h; simp [hn, h]
    · simp [ih]

theorem setCat_other (d : Document) (cat : String) (c' : Category) (k : Nat) (x : Category)
    (hk : d[k]? = some x) (hx : x.name ≠ cat) : (setCat d cat c')[k]? = some x := by
  induction d generalizing k with
  | nil => simp at hk
  | cons c cs ih =>
    unfold setCat
    cases k with
    | zero =>
      simp at hk; subst hk
      have : (c.name == cat) = false := by simpa using hx
      simp [this]
    | succ k =>
      simp at hk
      split
      · simpa using hk
      · simpa using ih k hk

theorem getCat_setCat (d : Document) (cat : String) (c c' : Category) (h : getCat d cat = some c)
    (hn : c'.name = cat) : getCat (setCat d cat c') cat = some c' := by
  induction d with
  | nil => simp [getCat] at h
  | cons x xs ih =>
    unfold setCat
    by_cases hx : (x.name == cat) = true
    · simp [hx, getCat, hn]
    · simp only [Bool.not_eq_true] at hx
      have h' : getCat xs cat = some c := by simpa [getCat, List.find?, hx] using h
      simp [hx, getCat]
      simpa [getCat] using ih h'

/-- a category of the result is either an untouched category of the input or the edited one -/
theorem mem_setCat {d : Document} {cat : String} {c' x : Category} (h : x ∈ setCat d cat c') : x ∈ d ∨ x = c' := by
  induction d with
  | nil => simp [setCat] at h
  | cons c cs ih =>
    unfold setCat at h
    split at h
    · simp at h; rcases h with h | h
      · exact .inr h
      · exact .inl (by simp [h])
    · simp at h; rcases h with h | h
      · exact .inl (by simp [h])
      · rcases ih h with h | h
        · exact .inl (by simp [h])
        · exact .inr h

/-! ## copy -/

/-- the loop body without the exception -/
def copyRowPure (i j : Nat) (r : Row) : Row :=
  if j ≥ r.length then r ++ [r.getD i ""] else r.set j (r.getD i "")

theorem copyRow_ok {i j : Nat} {r r' : Row} (h : copyRow i j r = .ok r') : i < r.length ∧ r' = copyRowPure i j r := by
  unfold copyRow at h
  split at h
  · cases h
  · rename_i v hv
    have hi : i < r.length := by
      rcases Nat.lt_or_ge i r.length with hlt | hge
      · exact hlt
      · simp [List.getElem?_eq_none hge] at hv
    have hv' : r.getD i "" = v := by simp [List.getD, hv]
    refine ⟨hi, ?_⟩
    unfold copyRowPure
    split at h <;> rename_i hj
    · cases h; simp [hj, hv]
    · cases h; simp [hj, hv]

theorem copyRow_of_lt {i j : Nat} {r : Row} (hi : i < r.length) : copyRow i j r = .ok (copyRowPure i j r) := by
  unfold copyRow copyRowPure
  have : r[i]? = some r[i] := List.getElem?_eq_getElem hi
  simp only [this, List.getD, Option.getD_some]
  split <;> rfl

theorem copyRows_ok {i j : Nat} {rows rows' : List Row} (h : copyRows i j rows = .ok rows') :
    (∀ r ∈ rows, i < r.length) ∧ rows' = rows.map (copyRowPure i j) := by
  induction rows generalizing rows' with
  | nil => simp [copyRows] at h; simp [h]
  | cons r rs ih =>
    unfold copyRows at h
    split at h
    · cases h
    · rename_i r' hr
      split at h
      · cases h
      · rename_i rs' hrs
        cases h
        obtain ⟨hi, hr'⟩ := copyRow_ok hr
        obtain ⟨his, hrs'⟩ := ih hrs
        constructor
        · intro x hx
          simp at hx
          rcases hx with rfl | hx
          · exact hi
          · exact his x hx
        · simp [hr', hrs']

theorem copyRows_of_lt {i j : Nat} {rows : List Row} (h : ∀ r ∈ rows, i < r.length) :
    copyRows i j rows = .ok (rows.map (copyRowPure i j)) := by
  induction rows with
  | nil => rfl
  | cons r rs ih =>
    have h1 : i < r.length := h r (by simp)
    have h2 : ∀ x ∈ rs, i < x.length := fun x hx => h x (by simp [hx])
    simp [copyRows, copyRow_of_lt h1, ih h2]

theorem copyRows_error {i j : Nat} {rows : List Row} {e : Err} (h : copyRows i j rows = .error e) : e = .indexError := by
  induction rows with
  | nil => simp [copyRows] at h
  | cons r rs ih =>
    unfold copyRows at h
    split at h
    · rename_i e' he
      cases h
      unfold copyRow at he
      split at he
      · cases he; rfl
      · split at he <;> cases he
    · split at h
      · rename_i e' he; cases h; exact ih he
      · cases h

/-- positions other than the target keep their value -/
theorem copyRowPure_other {i j p : Nat} {r : Row} (hp : p ≠ j) (hlt : p < r.length) :
    (copyRowPure i j r)[p]? = r[p]? := by
  unfold copyRowPure
  split
  · exact List.getElem?_append_left hlt
  · rw [List.getElem?_set]; simp [Ne.symm hp]

/-- the target position receives the source value -/
theorem copyRowPure_target {i j : Nat} {r : Row} (hi : i < r.length) (hj : j ≤ r.length) :
    (copyRowPure i j r)[j]? = r[i]? := by
  unfold copyRowPure
  have hv : r.getD i "" = r[i] := by simp [List.getD, List.getElem?_eq_getElem hi]
  split
  · rename_i h
    have : j = r.length := Nat.le_antisymm hj h
    subst this
    rw [List.getElem?_append_right (Nat.le_refl _)]
    simp [List.getElem?_eq_getElem hi]
  · rename_i h
    rw [List.getElem?_set]
    simp [Nat.lt_of_not_ge h, List.getElem?_eq_getElem hi]

theorem copyRowPure_length {i j : Nat} {r : Row} :
    (copyRowPure i j r).length = if j ≥ r.length then r.length + 1 else r.length := by
  unfold copyRowPure; split <;> simp

/-! ### item list -/

theorem itemsWith_idxOf_to (items : List String) (to : String) : (itemsWith items to).idxOf to = items.idxOf to := by
  unfold itemsWith
  split
  · rfl
  · rename_i h
    rw [List.idxOf_append]; simp [h, List.idxOf_eq_length h]

theorem itemsWith_idxOf_mem (items : List String) (to it : String) (h : it ∈ items) :
    (itemsWith items to).idxOf it = items.idxOf it := by
  unfold itemsWith
  split
  · rfl
  · rw [List.idxOf_append]; simp [h]

theorem itemsWith_prefix (items : List String) (to : String) : items <+: itemsWith items to := by
  unfold itemsWith; split
  · exact List.prefix_refl _
  · exact List.prefix_append _ _

theorem itemsWith_length (items : List String) (to : String) :
    (itemsWith items to).length = if to ∈ items then items.length else items.length + 1 := by
  unfold itemsWith; split <;> simp

theorem idxOf_ne_of_ne {items : List String} {a b : String} (ha : a ∈ items) (hab : a ≠ b) :
    items.idxOf a ≠ items.idxOf b := by
  intro h
  have hl : items.idxOf a < items.length := List.idxOf_lt_length_iff.mpr ha
  have hb : items.idxOf b < items.length := h ▸ hl
  have e1 : items[items.idxOf a] = a := List.getElem_idxOf hl
  have e2 : items[items.idxOf b] = b := List.getElem_idxOf hb
  apply hab
  rw [← e1, ← e2]
  simp [h]

/-! ### copyCategory -/

theorem copyCategory_ok {c c' : Category} {src to : String} (h : copyCategory c src to = .ok c') :
    c'.name = c.name ∧ c'.items = itemsWith c.items to ∧
    (∀ r ∈ c.rows, (itemsWith c.items to).idxOf src < r.length) ∧
    c'.rows = c.rows.map (copyRowPure ((itemsWith c.items to).idxOf src) ((itemsWith c.items to).idxOf to)) := by
  unfold copyCategory at h
  simp only at h
  split at h
  · cases h
  · rename_i rows' hr
    cases h
    obtain ⟨h1, h2⟩ := copyRows_ok hr
    exact ⟨rfl, rfl, h1, h2⟩

theorem copyCategory_error {c : Category} {src to : String} {e : Err} (h : copyCategory c src to = .error e) :
    e = .indexError := by
  unfold copyCategory at h
  simp only at h
  split at h
  · rename_i e' he; cases h; exact copyRows_error he
  · cases h

theorem copyCategory_total {c : Category} {src to : String} (hr : c.Rect) (hs : src ∈ c.items) :
    ∃ c', copyCategory c src to = .ok c' := by
  unfold copyCategory
  simp only
  have : ∀ r ∈ c.rows, (itemsWith c.items to).idxOf src < r.length := by
    intro r hrm
    rw [itemsWith_idxOf_mem _ _ _ hs, hr r hrm]
    exact List.idxOf_lt_length_iff.mpr hs
  rw [copyRows_of_lt this]
  exact ⟨_, rfl⟩

/-! ## replace -/

def keys (m : Mapping) : List String := m.map (·.1)

/-- the letters handed out so far are an initial segment of the alphabet -/
def Good (values : List Char) (m : Mapping) : Prop := m.map (·.2) = values.take m.length

theorem keys_length (m : Mapping) : (keys m).length = m.length := by simp [keys]

theorem lookup_eq_none {m : Mapping} {v : String} : lookup m v = none ↔ v ∉ keys m := by
  unfold lookup keys
  simp only [Option.map_eq_none_iff, List.find?_eq_none, List.mem_map, not_exists, not_and]
  constructor
  · intro h x hx hv
    have := h x hx
    simp [hv] at this
  · intro h x hx hv
    simp at hv
    exact h x hx hv

theorem lookup_append_of_some {m ext : Mapping} {v : String} {c : Char} (h : lookup m v = some c) :
    lookup (m ++ ext) v = some c := by
  unfold lookup at *
  rw [List.find?_append]
  cases hf : List.find? (fun p => p.1 == v) m with
  | none => simp [hf] at h
  | some p => simpa [hf] using h

theorem lookup_snoc_new {m : Mapping} {v : String} {c : Char} (h : lookup m v = none) :
    lookup (m ++ [(v, c)]) v = some c := by
  unfold lookup at *
  rw [List.find?_append]
  have : List.find? (fun p => p.1 == v) m = none := by simpa using h
  simp [this]

theorem lookup_mem {m : Mapping} {v : String} {c : Char} (h : lookup m v = some c) : (v, c) ∈ m := by
  unfold lookup at h
  cases hf : List.find? (fun p => p.1 == v) m with
  | none => simp [hf] at h
  | some p =>
    simp [hf] at h
    have h1 := List.find?_some hf
    have h2 := List.mem_of_find?_eq_some hf
    simp at h1
    have : p = (v, c) := by cases p; simp_all
    exact this ▸ h2

theorem step_ok {values : List Char} {m m1 : Mapping} {v : String} {c : Char} (h : step values m v = .ok (m1, c)) :
    (∃ ext, m1 = m ++ ext) ∧ lookup m1 v = some c ∧
    keys m1 = (if v ∈ keys m then keys m else keys m ++ [v]) ∧ (Good values m → Good values m1) := by
  unfold step at h
  split at h
  · rename_i c' hl
    cases h
    have hin : v ∈ keys m := by
      apply Classical.byContradiction
      intro hn; rw [← lookup_eq_none] at hn; simp [hn] at hl
    exact ⟨⟨[], by simp⟩, hl, by simp [hin], id⟩
  · rename_i hl
    have hnin : v ∉ keys m := lookup_eq_none.mp hl
    split at h
    · cases h
    · rename_i c' hc
      cases h
      have hnin' : v ∉ List.map (fun x => x.fst) m := hnin
      refine ⟨⟨_, rfl⟩, lookup_snoc_new hl, by simp [hnin', keys], ?_⟩
      intro hg
      unfold Good at *
      have hlt : m.length < values.length := by
        rcases Nat.lt_or_ge m.length values.length with hlt | hge
        · exact hlt
        · simp [List.getElem?_eq_none hge] at hc
      have hc' : values[m.length] = c := by
        have := List.getElem?_eq_getElem hlt
        rw [this] at hc; simpa using hc
      simp only [List.map_append, List.map_cons, List.map_nil, List.length_append, List.length_cons,
        List.length_nil, Nat.zero_add]
      rw [hg, ← List.take_append_getElem hlt, hc']

theorem step_error {values : List Char} {m : Mapping} {v : String} {e : Err} (h : step values m v = .error e) :
    e = .indexError ∧ v ∉ keys m ∧ values.length ≤ m.length := by
  unfold step at h
  split at h
  · cases h
  · rename_i hl
    split at h
    · rename_i hn
      cases h
      refine ⟨rfl, lookup_eq_none.mp hl, ?_⟩
      rcases Nat.lt_or_ge m.length values.length with hlt | hge
      · simp [List.getElem?_eq_getElem hlt] at hn
      · exact hge
    · cases h

theorem step_known {values : List Char} {m : Mapping} {v : String} (h : v ∈ keys m) :
    ∃ c, step values m v = .ok (m, c) := by
  unfold step
  cases hl : lookup m v with
  | none => exact absurd h (lookup_eq_none.mp hl)
  | some c => exact ⟨c, rfl⟩

theorem step_new {values : List Char} {m : Mapping} {v : String} (h : v ∉ keys m) (hlt : m.length < values.length) :
    step values m v = .ok (m ++ [(v, values[m.length])], values[m.length]) := by
  unfold step
  rw [lookup_eq_none.mpr h]
  simp [List.getElem?_eq_getElem hlt]

theorem step_full {values : List Char} {m : Mapping} {v : String} (h : v ∉ keys m) (hge : values.length ≤ m.length) :
    step values m v = .error .indexError := by
  unfold step
  rw [lookup_eq_none.mpr h]
  simp [List.getElem?_eq_none hge]

theorem seenFrom_length_ge (acc l : List String) : acc.length ≤ (seenFrom acc l).length := by
  induction l generalizing acc with
  | nil => simp [seenFrom]
  | cons v vs ih =>
    unfold seenFrom
    split
    · exact ih acc
    · exact Nat.le_trans (by simp) (ih (acc ++ [v]))

theorem seenFrom_nodup (acc l : List String) (h : acc.Nodup) : (seenFrom acc l).Nodup := by
  induction l generalizing acc with
  | nil => simpa [seenFrom]
  | cons v vs ih =>
    unfold seenFrom
    split
    · exact ih acc h
    · rename_i hn
      apply ih
      rw [List.nodup_append]
      refine ⟨h, by simp, ?_⟩
      intro a ha b hb
      simp at hb; subst hb
      intro hab; exact hn (hab ▸ ha)

theorem mem_seenFrom (acc l : List String) (x : String) : x ∈ seenFrom acc l ↔ x ∈ acc ∨ x ∈ l := by
  induction l generalizing acc with
  | nil => simp [seenFrom]
  | cons v vs ih =>
    unfold seenFrom
    split
    · rename_i hv
      rw [ih]; simp
      constructor
      · rintro (h | h)
        · exact .inl h
        · exact .inr (.inr h)
      · rintro (h | h | h)
        · exact .inl h
        · exact .inl (h ▸ hv)
        · exact .inr h
    · rw [ih]; simp [or_assoc]

theorem seenFrom_prefix (acc l : List String) : acc <+: seenFrom acc l := by
  induction l generalizing acc with
  | nil => simp [seenFrom]
  | cons v vs ih =>
    unfold seenFrom
    split
    · exact ih acc
    · exact List.IsPrefix.trans (List.prefix_append _ _) (ih (acc ++ [v]))

/-- everything the property says about a successful run of the row loop -/
theorem replaceRows_ok {values : List Char} {i : Nat} {rows rows' : List Row} {m m2 : Mapping}
    (h : replaceRows values i m rows = .ok (m2, rows')) :
    (∃ ext, m2 = m ++ ext) ∧
    keys m2 = seenFrom (keys m) (valsAt rows i) ∧
    (Good values m → Good values m2) ∧
    (∀ r ∈ rows, i < r.length) ∧
    rows'.length = rows.length ∧
    (∀ (k : Nat) (r : Row), rows[k]? = some r → ∃ v c, r[i]? = some v ∧ lookup m2 v = some c ∧
        rows'[k]? = some (r.set i (String.singleton c))) := by
  induction rows generalizing m m2 rows' with
  | nil =>
    simp [replaceRows] at h
    obtain ⟨rfl, rfl⟩ := h
    exact ⟨⟨[], by simp⟩, by simp [valsAt, seenFrom], id, by simp, rfl, by simp⟩
  | cons r rs ih =>
    unfold replaceRows at h
    split at h
    · cases h
    · rename_i v hv
      split at h
      · cases h
      · rename_i m1 c hs
        split at h
        · cases h
        · rename_i m2' rs' hrs
          cases h
          obtain ⟨⟨e1, he1⟩, hl1, hk1, hg1⟩ := step_ok hs
          obtain ⟨⟨e2, he2⟩, hk2, hg2, hlen2, hlen, hrow⟩ := ih hrs
          have hi : i < r.length := by
            rcases Nat.lt_or_ge i r.length with hlt | hge
            · exact hlt
            · simp [List.getElem?_eq_none hge] at hv
          refine ⟨⟨e1 ++ e2, by simp [he2, he1]⟩, ?_, fun g => hg2 (hg1 g), ?_, by simp [hlen], ?_⟩
          · rw [hk2, hk1]
            simp only [valsAt, List.filterMap_cons, hv]
            conv => rhs; unfold seenFrom
            split <;> rfl
          · intro x hx
            simp at hx
            rcases hx with rfl | hx
            · exact hi
            · exact hlen2 x hx
          · intro k x hk
            cases k with
            | zero =>
              simp at hk; subst hk
              refine ⟨v, c, hv, ?_, by simp⟩
              rw [he2]; exact lookup_append_of_some hl1
            | succ k =>
              simp at hk
              obtain ⟨v', c', h1, h2, h3⟩ := hrow k x hk
              exact ⟨v', c', h1, h2, by simpa using h3⟩

theorem replaceRows_error {values : List Char} {i : Nat} {rows : List Row} {m : Mapping} {e : Err}
    (h : replaceRows values i m rows = .error e) : e = .indexError := by
  induction rows generalizing m with
  | nil => simp [replaceRows] at h
  | cons r rs ih =>
    unfold replaceRows at h
    split at h
    · cases h; rfl
    · split at h
      · rename_i e' he; cases h; exact (step_error he).1
      · split at h
        · rename_i e' he; cases h; exact ih he
        · cases h

/-- with rectangular rows the loop succeeds exactly when the alphabet has a letter for every
distinct value -/
theorem replaceRows_isOk_iff {values : List Char} {i : Nat} {rows : List Row} {m : Mapping}
    (hi : ∀ r ∈ rows, i < r.length) (hm : m.length ≤ values.length) :
    (∃ res, replaceRows values i m rows = .ok res) ↔
      (seenFrom (keys m) (valsAt rows i)).length ≤ values.length := by
  induction rows generalizing m with
  | nil => simp [replaceRows, valsAt, seenFrom, keys_length, hm]
  | cons r rs ih =>
    have h1 : i < r.length := hi r (by simp)
    have h2 : ∀ x ∈ rs, i < x.length := fun x hx => hi x (by simp [hx])
    have hv : r[i]? = some r[i] := List.getElem?_eq_getElem h1
    have hvals : valsAt (r :: rs) i = r[i] :: valsAt rs i := by simp [valsAt, hv]
    rw [hvals]
    unfold replaceRows
    simp only [hv]
    by_cases hk : r[i] ∈ keys m
    · obtain ⟨c, hc⟩ := step_known (values := values) hk
      rw [hc]
      simp only
      have : seenFrom (keys m) (r[i] :: valsAt rs i) = seenFrom (keys m) (valsAt rs i) := by
        conv => lhs; unfold seenFrom
        simp [hk]
      rw [this, ← ih h2 hm]
      constructor
      · rintro ⟨res, hres⟩
        split at hres
        · cases hres
        · rename_i m2 rs' hrs; exact ⟨_, hrs⟩
      · rintro ⟨⟨m2, rs'⟩, hres⟩
        rw [hres]; exact ⟨_, rfl⟩
    · have hs : seenFrom (keys m) (r[i] :: valsAt rs i) = seenFrom (keys m ++ [r[i]]) (valsAt rs i) := by
        conv => lhs; unfold seenFrom
        simp [hk]
      rw [hs]
      rcases Nat.lt_or_ge m.length values.length with hlt | hge
      · rw [step_new hk hlt]
        simp only
        have hm' : (m ++ [(r[i], values[m.length])]).length ≤ values.length := by simp; omega
        have hk' : keys (m ++ [(r[i], values[m.length])]) = keys m ++ [r[i]] := by simp [keys]
        rw [← hk', ← ih h2 hm']
        constructor
        · rintro ⟨res, hres⟩
          split at hres
          · cases hres
          · rename_i m2 rs' hrs; exact ⟨_, hrs⟩
        · rintro ⟨⟨m2, rs'⟩, hres⟩
          rw [hres]; exact ⟨_, rfl⟩
      · rw [step_full hk hge]
        simp only
        constructor
        · rintro ⟨res, hres⟩; cases hres
        · intro hle
          have := seenFrom_length_ge (keys m ++ [r[i]]) (valsAt rs i)
          simp [keys_length] at this
          omega

/-! ### the mapping as a zip -/

theorem zip_take_right (l : List String) (vs : List Char) : l.zip (vs.take l.length) = l.zip vs := by
  induction l generalizing vs with
  | nil => simp
  | cons a l ih =>
    cases vs with
    | nil => simp
    | cons b vs => simp [ih]

theorem eq_zip_keys_snd (m : Mapping) : m = (keys m).zip (m.map (·.2)) := by
  unfold keys
  induction m with
  | nil => rfl
  | cons p ps ih => simpa using ih

theorem eq_zip_of_keys_good {values : List Char} {m : Mapping} {ks : List String}
    (hk : keys m = ks) (hg : Good values m) : m = ks.zip values := by
  have h1 := eq_zip_keys_snd m
  rw [h1, hg, ← keys_length, hk, zip_take_right]

theorem zip_snd_sublist (l : List String) (vs : List Char) : ((l.zip vs).map (·.2)).Sublist vs := by
  induction l generalizing vs with
  | nil => simp
  | cons a l ih =>
    cases vs with
    | nil => simp
    | cons b vs => simpa using ih vs

theorem pair_inj_of_nodup_snd {m : Mapping} (hn : (m.map (·.2)).Nodup) {a b : String} {c : Char}
    (ha : (a, c) ∈ m) (hb : (b, c) ∈ m) : a = b := by
  induction m with
  | nil => simp at ha
  | cons p ps ih =>
    simp only [List.map_cons, List.nodup_cons] at hn
    simp only [List.mem_cons] at ha hb
    rcases ha with ha | ha <;> rcases hb with hb | hb
    · rw [← hb] at ha; exact (Prod.mk.inj ha).1
    · exfalso; apply hn.1
      rw [← ha]; exact List.mem_map.mpr ⟨(b, c), hb, rfl⟩
    · exfalso; apply hn.1
      rw [← hb]; exact List.mem_map.mpr ⟨(a, c), ha, rfl⟩
    · exact ih hn.2 ha hb

/-! # The property-level theorems (restated in `Props/C20.lean`) -/

/-! ## copy -/

/-- what a successful `copy_from_to` is made of: the category exists, the source item exists, and the
result is the input with that one category exchanged -/
theorem copy_shape {d d' : Document} {cat src to : String}
    (h : copyFromTo d cat src to = .ok (.rewritten d')) :
    ∃ c c', getCat d cat = some c ∧ src ∈ c.items ∧ copyCategory c src to = .ok c' ∧ d' = setCat d cat c' := by
  unfold copyFromTo at h
  split at h
  · cases h
  · rename_i c hc
    split at h
    · rename_i hs
      split at h
      · cases h
      · rename_i c' hcc
        cases h
        exact ⟨c, c', hc, hs, hcc, rfl⟩
    · cases h

/-- **frame condition of copy**: every other category is untouched and stays at its place, no category
appears or disappears, and inside the edited category the item names keep their order, the rows keep
their number and order, and every position other than the target's keeps its value in every row -/
theorem copy_frame {d d' : Document} {cat src to : String}
    (h : copyFromTo d cat src to = .ok (.rewritten d')) :
    d'.length = d.length ∧ d'.map (·.name) = d.map (·.name) ∧
    (∀ (k : Nat) (x : Category), d[k]? = some x → x.name ≠ cat → d'[k]? = some x) ∧
    ∃ c c', getCat d cat = some c ∧ getCat d' cat = some c' ∧
      c.items <+: c'.items ∧ c'.rows.length = c.rows.length ∧
      (c.Rect → ∀ p, p < c.items.length → p ≠ c.items.idxOf to → c'.colAt p = c.colAt p) ∧
      (c.Rect → ∀ it ∈ c.items, it ≠ to → c'.col it = c.col it) := by
  obtain ⟨c, c', hc, _hs, hcc, rfl⟩ := copy_shape h
  obtain ⟨hn, hit, _hlt, hrows⟩ := copyCategory_ok hcc
  have hname : c'.name = cat := hn.trans (getCat_name hc)
  have hpos : c.Rect → ∀ p, p < c.items.length → p ≠ c.items.idxOf to → c'.colAt p = c.colAt p := by
    intro hr p hp hne
    unfold Category.colAt
    rw [hrows, List.map_map]
    apply List.map_congr_left
    intro r hrm
    simp only [Function.comp]
    apply copyRowPure_other
    · rw [itemsWith_idxOf_to]; exact hne
    · rw [hr r hrm]; exact hp
  refine ⟨setCat_length _ _ _, setCat_names _ _ _ hname, fun k x hk hx => setCat_other _ _ _ k x hk hx,
    c, c', hc, getCat_setCat _ _ _ _ hc hname, ?_, ?_, hpos, ?_⟩
  · rw [hit]; exact itemsWith_prefix _ _
  · rw [hrows]; simp
  · intro hr it hmem hne
    unfold Category.col
    rw [hit, itemsWith_idxOf_mem _ _ _ hmem]
    exact hpos hr _ (List.idxOf_lt_length_iff.mpr hmem) (idxOf_ne_of_ne hmem hne)

/-- **target equals source**: after the copy the target item holds, row by row, the values of the
source item (which is itself unchanged) -/
theorem copy_target_eq_source {d d' : Document} {cat src to : String}
    (h : copyFromTo d cat src to = .ok (.rewritten d')) :
    ∃ c c', getCat d cat = some c ∧ getCat d' cat = some c' ∧ to ∈ c'.items ∧
      (c.Rect → c'.col to = c.col src ∧ c'.col src = c.col src) := by
  obtain ⟨c, c', hc, hs, hcc, rfl⟩ := copy_shape h
  obtain ⟨hn, hit, _hlt, hrows⟩ := copyCategory_ok hcc
  have hname : c'.name = cat := hn.trans (getCat_name hc)
  refine ⟨c, c', hc, getCat_setCat _ _ _ _ hc hname, ?_, ?_⟩
  · rw [hit]; unfold itemsWith; split <;> simp [*]
  · intro hr
    have hsi : c.items.idxOf src < c.items.length := List.idxOf_lt_length_iff.mpr hs
    have key : c'.col to = c.col src := by
      unfold Category.col Category.colAt
      rw [hit, hrows, List.map_map]
      apply List.map_congr_left
      intro r hrm
      simp only [Function.comp]
      rw [itemsWith_idxOf_mem _ _ _ hs, itemsWith_idxOf_to]
      apply copyRowPure_target
      · rw [hr r hrm]; exact hsi
      · rw [hr r hrm]
        by_cases hto : to ∈ c.items
        · exact Nat.le_of_lt (List.idxOf_lt_length_iff.mpr hto)
        · rw [List.idxOf_eq_length hto]; exact Nat.le_refl _
    refine ⟨key, ?_⟩
    by_cases hst : src = to
    · subst hst; exact key
    · obtain ⟨_, _, _, c0, c0', hc0, hc0', _, _, _, hcol⟩ := copy_frame h
      rw [hc] at hc0; cases hc0
      rw [getCat_setCat _ _ _ _ hc hname] at hc0'; cases hc0'
      exact hcol hr src hs hst

/-- **new target item**: an item name that does not exist yet is appended as the last item and every
row receives its source value as a new last value; an existing target keeps the item list as it is;
rectangular stays rectangular -/
theorem copy_new_item_appended {d d' : Document} {cat src to : String}
    (h : copyFromTo d cat src to = .ok (.rewritten d')) :
    ∃ c c', getCat d cat = some c ∧ getCat d' cat = some c' ∧
      (to ∈ c.items → c'.items = c.items) ∧
      (to ∉ c.items → c'.items = c.items ++ [to] ∧
        (c.Rect → c'.rows = c.rows.map (fun r => r ++ [r.getD (c.items.idxOf src) ""]))) ∧
      (c.Rect → c'.Rect) := by
  obtain ⟨c, c', hc, hs, hcc, rfl⟩ := copy_shape h
  obtain ⟨hn, hit, _hlt, hrows⟩ := copyCategory_ok hcc
  have hname : c'.name = cat := hn.trans (getCat_name hc)
  refine ⟨c, c', hc, getCat_setCat _ _ _ _ hc hname, ?_, ?_, ?_⟩
  · intro hto; rw [hit]; simp [itemsWith, hto]
  · intro hto
    refine ⟨by rw [hit]; simp [itemsWith, hto], ?_⟩
    intro hr
    rw [hrows]
    apply List.map_congr_left
    intro r hrm
    rw [itemsWith_idxOf_mem _ _ _ hs, itemsWith_idxOf_to, List.idxOf_eq_length hto]
    simp [copyRowPure, hr r hrm]
  · intro hr r' hr'
    rw [hrows] at hr'
    obtain ⟨r, hrm, rfl⟩ := List.mem_map.mp hr'
    rw [copyRowPure_length, hit, itemsWith_length, itemsWith_idxOf_to, hr r hrm]
    by_cases hto : to ∈ c.items
    · have := List.idxOf_lt_length_iff.mpr hto
      simp [hto]; omega
    · simp [hto, List.idxOf_eq_length hto]

/-- with rectangular rows the copy never raises; in general the only exception is `IndexError` -/
theorem copy_total {d : Document} {cat src to : String} (hr : ∀ c ∈ d, c.Rect) :
    ∃ o, copyFromTo d cat src to = .ok o := by
  unfold copyFromTo
  split
  · exact ⟨_, rfl⟩
  · rename_i c hc
    split
    · rename_i hs
      obtain ⟨c', hc'⟩ := copyCategory_total (to := to) (hr c (getCat_mem hc)) hs
      rw [hc']; exact ⟨_, rfl⟩
    · exact ⟨_, rfl⟩

theorem copy_error_is_index {d : Document} {cat src to : String} {e : Err}
    (h : copyFromTo d cat src to = .error e) : e = .indexError := by
  unfold copyFromTo at h
  split at h
  · cases h
  · split at h
    · split at h
      · rename_i e' he; cases h; exact copyCategory_error he
      · cases h
    · cases h

/-! ## replace -/

theorem replace_shape {d d' : Document} {cat col : String} {values : List Char} {m : Mapping}
    (h : replaceValue d cat col values = .ok (.rewritten d', m)) :
    ∃ c rows', getCat d cat = some c ∧ col ∈ c.items ∧
      replaceRows values (c.items.idxOf col) [] c.rows = .ok (m, rows') ∧
      d' = setCat d cat { c with rows := rows' } := by
  unfold replaceValue at h
  split at h
  · cases h
  · rename_i c hc
    split at h
    · rename_i hs
      split at h
      · cases h
      · rename_i m' rows' hrr
        cases h
        exact ⟨c, rows', hc, hs, hrr, rfl⟩
    · cases h

/-- **frame condition of replace**: every other category is untouched and stays at its place; inside
the edited category the item list is the same, the rows keep their number and order and every position
other than the replaced item's keeps its value in every row -/
theorem replace_frame {d d' : Document} {cat col : String} {values : List Char} {m : Mapping}
    (h : replaceValue d cat col values = .ok (.rewritten d', m)) :
    d'.length = d.length ∧ d'.map (·.name) = d.map (·.name) ∧
    (∀ (k : Nat) (x : Category), d[k]? = some x → x.name ≠ cat → d'[k]? = some x) ∧
    ∃ c c', getCat d cat = some c ∧ getCat d' cat = some c' ∧
      c'.items = c.items ∧ c'.rows.length = c.rows.length ∧
      (∀ p, p ≠ c.items.idxOf col → c'.colAt p = c.colAt p) ∧
      (∀ it ∈ c.items, it ≠ col → c'.col it = c.col it) := by
  obtain ⟨c, rows', hc, _hs, hrr, rfl⟩ := replace_shape h
  obtain ⟨_, _, _, _, hlen, hrow⟩ := replaceRows_ok hrr
  have hname : ({ c with rows := rows' } : Category).name = cat := (getCat_name hc : c.name = cat)
  have hpos : ∀ p, p ≠ c.items.idxOf col →
      ({ c with rows := rows' } : Category).colAt p = c.colAt p := by
    intro p hp
    unfold Category.colAt
    apply List.ext_getElem?
    intro k
    simp only [List.getElem?_map]
    cases hk : c.rows[k]? with
    | none =>
      have : rows'[k]? = none := by
        rw [List.getElem?_eq_none_iff] at hk ⊢; omega
      simp [this]
    | some r =>
      obtain ⟨v, ch, _, _, hr'⟩ := hrow k r hk
      simp [hr', Ne.symm hp]
  refine ⟨setCat_length _ _ _, setCat_names _ _ _ hname, fun k x hk hx => setCat_other _ _ _ k x hk hx,
    c, _, hc, getCat_setCat _ _ _ _ hc hname, rfl, hlen, hpos, ?_⟩
  intro it hmem hne
  exact hpos _ (idxOf_ne_of_ne hmem hne)

/-- **the new column is the image of the old one under the first-seen mapping, and that mapping is what
is returned**: the returned mapping `m` sends the k-th distinct value (in order of first appearance) to
the k-th letter of the alphabet, and every row's new value is the letter of its old value -/
theorem replace_is_firstSeen_image {d d' : Document} {cat col : String} {values : List Char} {m : Mapping}
    (h : replaceValue d cat col values = .ok (.rewritten d', m)) :
    ∃ c c', getCat d cat = some c ∧ getCat d' cat = some c' ∧
      m = firstSeenMap values (valsAt c.rows (c.items.idxOf col)) ∧
      (∀ (k : Nat) (r : Row), c.rows[k]? = some r → ∃ v ch, r[c.items.idxOf col]? = some v ∧ lookup m v = some ch ∧
        c'.rows[k]? = some (r.set (c.items.idxOf col) (String.singleton ch))) ∧
      (values.Nodup → ∀ a b ch, lookup m a = some ch → lookup m b = some ch → a = b) := by
  obtain ⟨c, rows', hc, _hs, hrr, rfl⟩ := replace_shape h
  obtain ⟨_, hkeys, hgood, _, _, hrow⟩ := replaceRows_ok hrr
  have hname : ({ c with rows := rows' } : Category).name = cat := (getCat_name hc : c.name = cat)
  have hg : Good values m := hgood (by simp [Good])
  have hm : m = firstSeenMap values (valsAt c.rows (c.items.idxOf col)) :=
    eq_zip_of_keys_good (by simpa [keys, firstSeen] using hkeys) hg
  refine ⟨c, _, hc, getCat_setCat _ _ _ _ hc hname, hm, hrow, ?_⟩
  intro hnd a b ch ha hb
  have hsn : (m.map (·.2)).Nodup := by
    rw [hm]; exact List.Nodup.sublist (zip_snd_sublist _ _) hnd
  exact pair_inj_of_nodup_snd hsn (lookup_mem ha) (lookup_mem hb)

/-- **the first-seen mapping through an alphabet without repeated letters is injective**, its keys are
exactly the distinct values of the column, each once -/
theorem firstSeen_injective (values : List Char) (l : List String) (hnd : values.Nodup) :
    (∀ a b ch, lookup (firstSeenMap values l) a = some ch → lookup (firstSeenMap values l) b = some ch → a = b) ∧
    (firstSeen l).Nodup ∧ (∀ x, x ∈ firstSeen l ↔ x ∈ l) := by
  refine ⟨?_, seenFrom_nodup [] l (by simp), fun x => by simp [firstSeen, mem_seenFrom]⟩
  intro a b ch ha hb
  have hsn : ((firstSeenMap values l).map (·.2)).Nodup :=
    List.Nodup.sublist (zip_snd_sublist _ _) hnd
  exact pair_inj_of_nodup_snd hsn (lookup_mem ha) (lookup_mem hb)

/-- **alphabet exhausted ⇔ error**: on a rectangular category with the item present, `replace_value`
raises exactly when the item has more distinct values than the alphabet has letters, and what it raises
is `IndexError` -/
theorem replace_alphabet_exhausted_iff_error {d : Document} {cat col : String} {values : List Char} {c : Category}
    (hc : getCat d cat = some c) (hcol : col ∈ c.items) (hr : c.Rect) :
    ((∃ e, replaceValue d cat col values = .error e) ↔
        values.length < (firstSeen (valsAt c.rows (c.items.idxOf col))).length) ∧
    (∀ e, replaceValue d cat col values = .error e → e = .indexError) := by
  have hi : ∀ r ∈ c.rows, c.items.idxOf col < r.length := by
    intro r hrm; rw [hr r hrm]; exact List.idxOf_lt_length_iff.mpr hcol
  have hiff := replaceRows_isOk_iff (values := values) (m := []) hi (Nat.zero_le _)
  have hk : keys ([] : Mapping) = [] := rfl
  rw [hk] at hiff
  constructor
  · unfold replaceValue firstSeen
    simp only [hc, hcol, if_true]
    constructor
    · rintro ⟨e, he⟩
      apply Nat.lt_of_not_ge
      intro hle
      obtain ⟨res, hres⟩ := hiff.mpr hle
      rw [hres] at he
      cases he
    · intro hlt
      cases hrr : replaceRows values (c.items.idxOf col) [] c.rows with
      | error e => exact ⟨e, rfl⟩
      | ok res =>
        have := hiff.mp ⟨res, hrr⟩
        omega
  · intro e he
    unfold replaceValue at he
    simp only [hc, hcol, if_true] at he
    split at he
    · rename_i e' hrr; cases he; exact replaceRows_error hrr
    · cases he

theorem replace_error_is_index {d : Document} {cat col : String} {values : List Char} {e : Err}
    (h : replaceValue d cat col values = .error e) : e = .indexError := by
  unfold replaceValue at h
  split at h
  · cases h
  · split at h
    · split at h
      · rename_i e' hrr; cases h; exact replaceRows_error hrr
      · cases h
    · cases h

/-! ## missing category / item -/

/-- **a missing category or a missing source item leaves the file untouched**: the library functions
return the very text they were given (and `replace_value` an empty mapping), whatever the tokeniser
makes of it; the same for a text without any data block and for `category=None` -/
theorem missing_leaves_untouched (cd : Codec) (content : String) :
    (∀ cat src to, (∀ b bs, cd.parse content = b :: bs → ∀ c, getCat b.cats cat = some c → src ∉ c.items) →
        copyText cd content (some cat) src to = .ok content) ∧
    (∀ cat col values, (∀ b bs, cd.parse content = b :: bs → ∀ c, getCat b.cats cat = some c → col ∉ c.items) →
        replaceText cd content (some cat) col values = .ok (content, [])) ∧
    (∀ src to, copyText cd content none src to = .ok content) ∧
    (∀ col values, replaceText cd content none col values = .ok (content, [])) := by
  refine ⟨?_, ?_, fun _ _ => rfl, fun _ _ => rfl⟩
  · intro cat src to hmiss
    unfold copyText copyFile
    cases hp : cd.parse content with
    | nil => rfl
    | cons b bs =>
      simp only
      unfold copyFromTo
      cases hg : getCat b.cats cat with
      | none => rfl
      | some c => simp [hmiss b bs hp c hg]
  · intro cat col values hmiss
    unfold replaceText replaceFile
    cases hp : cd.parse content with
    | nil => rfl
    | cons b bs =>
      simp only
      unfold replaceValue
      cases hg : getCat b.cats cat with
      | none => rfl
      | some c => simp [hmiss b bs hp c hg]

/-- on the parsed level: the outcome is `unchanged` exactly when the category or the source item is
missing (so nothing else is ever returned verbatim, and nothing is ever rewritten when they are missing) -/
theorem copy_unchanged_iff {d : Document} {cat src to : String} :
    copyFromTo d cat src to = .ok .unchanged ↔ (∀ c, getCat d cat = some c → src ∉ c.items) := by
  unfold copyFromTo
  cases hg : getCat d cat with
  | none => simp
  | some c =>
    by_cases hs : src ∈ c.items
    · simp only [hs, if_true]
      constructor
      · intro h; split at h <;> cases h
      · intro h; exact absurd hs (h c rfl)
    · simp [hs]

theorem replace_unchanged_iff {d : Document} {cat col : String} {values : List Char} :
    (∃ m, replaceValue d cat col values = .ok (.unchanged, m)) ↔ (∀ c, getCat d cat = some c → col ∉ c.items) := by
  unfold replaceValue
  cases hg : getCat d cat with
  | none => simp
  | some c =>
    by_cases hs : col ∈ c.items
    · simp only [hs, if_true]
      constructor
      · rintro ⟨m, h⟩; split at h <;> cases h
      · intro h; exact absurd hs (h c rfl)
    · simp [hs]

/-- the mapping returned for a missing category / item is empty -/
theorem replace_unchanged_mapping {d : Document} {cat col : String} {values : List Char} {m : Mapping}
    (h : replaceValue d cat col values = .ok (.unchanged, m)) : m = [] := by
  unfold replaceValue at h
  split at h
  · cases h; rfl
  · split at h
    · split at h <;> cases h
    · cases h; rfl

/-! ## command line -/

/-- the statement for one set of flags: on an existing input file the tool does what `cliSpec` says -/
def CliEqLibrary (fl : CliFlags) : Prop :=
  ∀ (cd : Codec) (fs : String → Option String) (a : Args) (content : String),
    fs a.input = some content → cliMain fl cd fs a = cliSpec cd content a

/-- whenever `main` hands the file's *content* to the library function and writes the *text* component
of the result, the tool writes exactly what the library function returns for the input file's content -/
theorem cli_eq_library_of_fixed (readsFirst : Bool) : CliEqLibrary (fixedFlags readsFirst) := by
  intro cd fs a content hfs
  unfold cliMain cliSpec readInput fixedFlags
  simp only [hfs]
  cases readsFirst <;> simp only [Bool.false_eq_true, if_false] <;> split
  all_goals first | rfl | skip
  all_goals split
  all_goals first | rfl | skip
  all_goals split
  all_goals first | rfl | skip

/-- the flags matter: a `main` that passes the path as content, or writes the tuple, does not satisfy
the statement (this was the state of the tree before the `fix:` commit) -/
theorem cli_not_eq_library_when_path_passed :
    ¬ CliEqLibrary { readsFirst := false, copyPassesPath := true, replacePassesPath := true, replaceWritesTuple := true } := by
  intro h
  -- a codec that knows one text: "data_a _c.x 1" parses to one block; every other text to nothing
  let cd : Codec :=
    { parse := fun s => if s = "D" then [⟨"a", [⟨"c", ["x"], [["1"]]⟩]⟩] else []
      render := fun _ => "R" }
  let a : Args := { input := "in.cif", output := "out.cif", category := some "c", copyFrom := some "x", copyTo := some "y" }
  have := h cd (fun _ => some "D") a "D" rfl
  revert this
  decide

end RnaVerif.Table

import RnaVerif.Model.Text
/-!
# Text round trips (helper lemmas for C01 glue)

* decimal digits: `pyInt (showInt i) = .ok i`;
* `splitBy`, `pySplit`, `pyStrip`, `splitLines` on printed lines;
* `parseLines_print` — the BPSEQ text round trip; `parseLine_err` — only `ValueError`;
* `scanGo_print` — the multi-strand round trip through the model of the regular expression's scan;
* `dbFromFile_print`.
-/
namespace RnaVerif.Text
open RnaVerif.Labels

/-! ### decimal digits -/

theorem mem_asciiDigits_of_isDigit {c : Char} (h : c.isDigit = true) : c ∈ asciiDigits := by
  have h' : 48 ≤ c.toNat ∧ c.toNat ≤ 57 := by
    simp only [Char.isDigit, Bool.and_eq_true, decide_eq_true_eq] at h
    have a : '0'.val ≤ c.val := h.1
    have b : c.val ≤ '9'.val := h.2
    rw [UInt32.le_iff_toNat_le] at a b
    exact ⟨a, b⟩
  rw [← Char.ofNat_toNat c]
  generalize c.toNat = n at h'
  have : n = 48 ∨ n = 49 ∨ n = 50 ∨ n = 51 ∨ n = 52 ∨ n = 53 ∨ n = 54 ∨ n = 55 ∨ n = 56 ∨ n = 57 := by omega
  rcases this with rfl | rfl | rfl | rfl | rfl | rfl | rfl | rfl | rfl | rfl <;> decide

/-- what the round-trip proofs need to know about a character that is a decimal digit or `-` -/
structure Plain (c : Char) : Prop where
  notPySpace : pySpaces.contains c = false
  notCSpace : cSpaces.contains c = false
  notBreak : lineBreaks.contains c = false

theorem plain_of_mem : ∀ c ∈ '-' :: asciiDigits, Plain c := by
  have h : ∀ c ∈ '-' :: asciiDigits,
      pySpaces.contains c = false ∧ cSpaces.contains c = false ∧ lineBreaks.contains c = false := by
    decide
  exact fun c hc => ⟨(h c hc).1, (h c hc).2.1, (h c hc).2.2⟩

theorem digit_facts : ∀ c ∈ asciiDigits, pyIsDigit c = true ∧ c ≠ '_' ∧ c ≠ '-' ∧ c ≠ '+' := by decide

theorem toDigits_mem (n : Nat) : ∀ c ∈ Nat.toDigits 10 n, c ∈ asciiDigits :=
  fun _ hc => mem_asciiDigits_of_isDigit (Nat.isDigit_of_mem_toDigits (by decide) (by decide) hc)

theorem showInt_mem (i : Int) : ∀ c ∈ showInt i, c ∈ '-' :: asciiDigits := by
  intro c hc
  cases i with
  | ofNat n => exact List.mem_cons_of_mem _ (toDigits_mem n c hc)
  | negSucc n =>
    simp only [showInt, List.mem_cons] at hc
    rcases hc with rfl | hc
    · exact List.mem_cons_self
    · exact List.mem_cons_of_mem _ (toDigits_mem _ c hc)

theorem showInt_plain (i : Int) : ∀ c ∈ showInt i, Plain c :=
  fun c hc => plain_of_mem c (showInt_mem i c hc)

theorem showInt_ne_nil (i : Int) : showInt i ≠ [] := by
  cases i with
  | ofNat n => exact Nat.toDigits_ne_nil
  | negSucc n => simp [showInt]

theorem digitsGo_digits : ∀ (l : List Char) (acc : Nat), (∀ c ∈ l, c ∈ asciiDigits) →
    digitsGo l acc false = some (Nat.ofDigitChars 10 l acc) := by
  intro l
  induction l with
  | nil => intro acc _; simp [digitsGo]
  | cons c cs ih =>
    intro acc h
    obtain ⟨d1, d2, _, _⟩ := digit_facts c (h c (by simp))
    rw [digitsGo, if_neg d2, if_pos d1, ih _ (fun x hx => h x (List.mem_cons_of_mem _ hx)),
      Nat.ofDigitChars_cons]
    simp only [digitVal]
    rw [Nat.mul_comm]
    rfl

theorem pyNat_toDigits (n : Nat) : pyNat (Nat.toDigits 10 n) = some n := by
  have hm := toDigits_mem n
  have hv := Nat.ofDigitChars_ten_toDigits (n := n)
  cases hd : Nat.toDigits 10 n with
  | nil => exact absurd hd Nat.toDigits_ne_nil
  | cons d r =>
    rw [hd] at hm hv
    obtain ⟨d1, _, _, _⟩ := digit_facts d (hm d (by simp))
    rw [pyNat, if_pos d1, digitsGo_digits r _ (fun x hx => hm x (List.mem_cons_of_mem _ hx))]
    rw [Nat.ofDigitChars_cons] at hv
    simp only [Nat.mul_zero, Nat.zero_add] at hv
    rw [← hv]
    rfl

/-! ### strip -/

theorem dropWhile_head {p : Char → Bool} {a : Char} {t : List Char} (h : p a = false) :
    (a :: t).dropWhile p = a :: t := by
  simp [h]

/-- `strip()` leaves alone a text whose first and last characters are not whitespace -/
theorem stripWith_ends {sp : List Char} {a z : Char} {mid : List Char}
    (ha : sp.contains a = false) (hz : sp.contains z = false) :
    stripWith sp (a :: (mid ++ [z])) = a :: (mid ++ [z]) := by
  unfold stripWith
  rw [dropWhile_head ha]
  have : (a :: (mid ++ [z])).reverse = z :: (a :: mid).reverse := by simp
  rw [this, dropWhile_head hz]
  simp

theorem stripWith_single {sp : List Char} {a : Char} (ha : sp.contains a = false) :
    stripWith sp [a] = [a] := by
  unfold stripWith
  rw [dropWhile_head ha]
  simp only [List.reverse_cons, List.reverse_nil, List.nil_append]
  rw [dropWhile_head ha]
  rfl

/-- a non-empty text whose first and last characters are not whitespace is its own `strip()` -/
theorem stripWith_of_ends {sp : List Char} {l : List Char} (hne : l ≠ [])
    (hh : ∀ a, l.head? = some a → sp.contains a = false)
    (hl : ∀ z, l.getLast? = some z → sp.contains z = false) : stripWith sp l = l := by
  cases l with
  | nil => exact absurd rfl hne
  | cons a t =>
    have ha := hh a rfl
    rcases List.eq_nil_or_concat t with rfl | ⟨mid, z, rfl⟩
    · exact stripWith_single ha
    · have hz := hl z (by
        rw [List.concat_eq_append, ← List.cons_append, List.getLast?_append]
        simp)
      simpa using stripWith_ends (mid := mid) ha hz

theorem stripWith_all {sp : List Char} {l : List Char} (h : ∀ c ∈ l, sp.contains c = false) :
    stripWith sp l = l := by
  by_cases hne : l = []
  · subst hne; rfl
  · apply stripWith_of_ends hne
    · intro a ha; exact h a (List.mem_of_mem_head? ha)
    · intro z hz; exact h z (List.mem_of_getLast? hz)

/-! ### `int(str(i)) = i` -/

theorem pyInt_showInt {i : Int} (h : wfInt i = true) : pyInt (showInt i) = .ok i := by
  have hs : stripWith cSpaces (showInt i) = showInt i :=
    stripWith_all (fun c hc => (showInt_plain i c hc).notCSpace)
  unfold pyInt
  rw [hs]
  have hfilter : ∀ n : Nat, ((Nat.toDigits 10 n).filter pyIsDigit).length = (Nat.toDigits 10 n).length := by
    intro n
    rw [List.filter_eq_self.mpr (fun c hc => (digit_facts c (toDigits_mem n c hc)).1)]
  have hlim : ∀ n : Nat, n = i.natAbs →
      (Gen.pyIntMaxStrDigits != 0 &&
        decide (((Nat.toDigits 10 n).filter pyIsDigit).length > Gen.pyIntMaxStrDigits)) = false := by
    intro n hn
    rw [hfilter n]
    unfold wfInt at h
    rw [← hn] at h
    simp only [Bool.or_eq_true, beq_iff_eq, decide_eq_true_eq] at h
    rcases h with h | h
    · simp [h]
    · simp; intro _; omega
  cases i with
  | ofNat n =>
    have hsplit : splitSign (Nat.toDigits 10 n) = (false, Nat.toDigits 10 n) := by
      cases hd : Nat.toDigits 10 n with
      | nil => rfl
      | cons d r =>
        obtain ⟨_, _, d3, d4⟩ := digit_facts d (toDigits_mem n d (by rw [hd]; simp))
        unfold splitSign
        split
        · rename_i heq; cases heq; exact absurd rfl d3
        · rename_i heq; cases heq; exact absurd rfl d4
        · rfl
    simp only [showInt, hsplit, pyNat_toDigits]
    rw [hlim n (by simp)]
    simp
  | negSucc n =>
    have hsplit : splitSign ('-' :: Nat.toDigits 10 (n + 1)) = (true, Nat.toDigits 10 (n + 1)) := rfl
    simp only [showInt, hsplit, pyNat_toDigits]
    rw [hlim (n + 1) (by simp [Int.natAbs])]
    simp [Int.negSucc_eq]

/-! ### split on single characters -/

theorem splitBy_nosep {p : Char → Bool} : ∀ (a : List Char), (∀ c ∈ a, p c = false) → splitBy p a = [a] := by
  intro a
  induction a with
  | nil => intro _; rfl
  | cons c cs ih =>
    intro h
    rw [splitBy, if_neg (by simp [h c (by simp)]), ih (fun x hx => h x (List.mem_cons_of_mem _ hx))]

theorem splitBy_append_sep {p : Char → Bool} {s : Char} (hs : p s = true) (b : List Char) :
    ∀ (a : List Char), (∀ c ∈ a, p c = false) → splitBy p (a ++ s :: b) = a :: splitBy p b := by
  intro a
  induction a with
  | nil => intro _; simp [splitBy, hs]
  | cons c cs ih =>
    intro h
    rw [List.cons_append, splitBy, if_neg (by simp [h c (by simp)]),
      ih (fun x hx => h x (List.mem_cons_of_mem _ hx))]

/-! ### `splitlines()` on joined lines -/

theorem splitLinesGo_nobreak : ∀ (l : List Char), (∀ c ∈ l, lineBreaks.contains c = false) → l ≠ [] →
    splitLinesGo l false = [l] := by
  intro l
  induction l with
  | nil => intro _ h; exact absurd rfl h
  | cons c cs ih =>
    intro h _
    have hc := h c (by simp)
    rw [splitLinesGo]
    simp only [Bool.false_and, Bool.false_eq_true, if_false, hc]
    by_cases hcs : cs = []
    · subst hcs; rfl
    · rw [ih (fun x hx => h x (List.mem_cons_of_mem _ hx)) hcs]; rfl

theorem splitLinesGo_append (rest : List Char) : ∀ (l : List Char),
    (∀ c ∈ l, lineBreaks.contains c = false) →
    splitLinesGo (l ++ '\n' :: rest) false = l :: splitLinesGo rest false := by
  intro l
  induction l with
  | nil =>
    intro _
    rw [List.nil_append, splitLinesGo]
    simp only [Bool.false_and, Bool.false_eq_true, if_false]
    rw [if_pos (by decide)]
    rfl
  | cons c cs ih =>
    intro h
    have hc := h c (by simp)
    rw [List.cons_append, splitLinesGo]
    simp only [Bool.false_and, Bool.false_eq_true, if_false, hc]
    rw [ih (fun x hx => h x (List.mem_cons_of_mem _ hx))]; rfl

theorem joinWith_cons_cons (sep l l2 : List Char) (ls : List (List Char)) :
    joinWith sep (l :: l2 :: ls) = l ++ sep ++ joinWith sep (l2 :: ls) := by
  simp [joinWith]

theorem splitLines_join : ∀ (ls : List (List Char)),
    (∀ l ∈ ls, l ≠ [] ∧ ∀ c ∈ l, lineBreaks.contains c = false) →
    splitLines (joinWith ['\n'] ls) = ls := by
  intro ls
  unfold splitLines
  induction ls with
  | nil => intro _; rfl
  | cons l ls ih =>
    intro h
    cases ls with
    | nil => exact splitLinesGo_nobreak l (h l (by simp)).2 (h l (by simp)).1
    | cons l2 ls =>
      rw [joinWith_cons_cons]
      simp only [List.append_assoc, List.singleton_append]
      rw [splitLinesGo_append _ l (h l (by simp)).2, ih (fun x hx => h x (List.mem_cons_of_mem _ hx))]

/-! ### one printed entry -/

theorem piece_values : piece 0 = [] ∧ piece 1 = [' '] ∧ piece 2 = [' '] ∧ piece 3 = [] := by decide

theorem printEntryS_eq (e : EntryS) :
    printEntryS e = showInt e.idx ++ ' ' :: (e.tok.toList ++ ' ' :: showInt e.pair) := by
  unfold printEntryS
  rw [piece_values.1, piece_values.2.1, piece_values.2.2.1, piece_values.2.2.2]
  simp

/-- well-formedness of one entry, unfolded -/
structure WfEntry (e : EntryS) : Prop where
  idx : wfInt e.idx = true
  pair : wfInt e.pair = true
  ne : e.tok.toList ≠ []
  noSpace : ∀ c ∈ e.tok.toList, pySpaces.contains c = false

theorem wfEntry_of {es : List EntryS} (h : WellFormedEntries es) : ∀ e ∈ es, WfEntry e := by
  intro e he
  have := List.all_eq_true.mp h e he
  simp only [Bool.and_eq_true, Bool.not_eq_true', List.all_eq_true, List.isEmpty_eq_false_iff] at this
  exact ⟨this.1.1.1, this.1.1.2, this.1.2, fun c hc => by simpa using this.2 c hc⟩

theorem space_is_space : pySpaces.contains ' ' = true := by decide

theorem breaks_are_spaces : ∀ c, lineBreaks.contains c = true → pySpaces.contains c = true := by
  intro c h
  have : c ∈ lineBreaks := by simpa using h
  have hall : ∀ x ∈ lineBreaks, pySpaces.contains x = true := by decide
  exact hall c this

theorem printEntryS_nobreak {e : EntryS} (w : WfEntry e) :
    printEntryS e ≠ [] ∧ ∀ c ∈ printEntryS e, lineBreaks.contains c = false := by
  rw [printEntryS_eq]
  refine ⟨by simp [showInt_ne_nil], ?_⟩
  intro c hc
  simp only [List.mem_append, List.mem_cons] at hc
  rcases hc with hc | rfl | hc | rfl | hc
  · exact (showInt_plain _ c hc).notBreak
  · decide
  · cases hb : lineBreaks.contains c with
    | false => rfl
    | true => have := breaks_are_spaces c hb; rw [w.noSpace c hc] at this; cases this
  · decide
  · exact (showInt_plain _ c hc).notBreak

theorem pySplit_print {e : EntryS} (w : WfEntry e) :
    pySplit (printEntryS e) = [showInt e.idx, e.tok.toList, showInt e.pair] := by
  rw [printEntryS_eq]
  unfold pySplit
  rw [splitBy_append_sep space_is_space _ _ (fun c hc => (showInt_plain _ c hc).notPySpace),
    splitBy_append_sep space_is_space _ _ w.noSpace,
    splitBy_nosep _ (fun c hc => (showInt_plain _ c hc).notPySpace)]
  simp [showInt_ne_nil, w.ne]

theorem pyStrip_print {e : EntryS} (w : WfEntry e) : pyStrip (printEntryS e) = printEntryS e := by
  unfold pyStrip
  apply stripWith_of_ends (printEntryS_nobreak w).1
  · intro a ha
    rw [printEntryS_eq] at ha
    obtain ⟨d, r, hd⟩ := List.exists_cons_of_ne_nil (showInt_ne_nil e.idx)
    rw [hd] at ha
    simp only [List.cons_append, List.head?_cons, Option.some.injEq] at ha
    subst ha
    exact (showInt_plain e.idx d (by rw [hd]; simp)).notPySpace
  · intro z hz
    rcases List.eq_nil_or_concat (showInt e.pair) with h | ⟨r, z', h⟩
    · exact absurd h (showInt_ne_nil e.pair)
    · have hform : printEntryS e = (showInt e.idx ++ ' ' :: (e.tok.toList ++ ' ' :: r)) ++ [z'] := by
        rw [printEntryS_eq, h]; simp
      rw [hform, List.getLast?_append] at hz
      simp only [List.getLast?_singleton, Option.some_or, Option.some.injEq] at hz
      subst hz
      exact (showInt_plain e.pair z' (by rw [h]; simp)).notPySpace

theorem fields_bridge : Gen.bpseqFields = 3 := by decide

theorem parseLine_print {e : EntryS} (w : WfEntry e) : parseLine (printEntryS e) = .ok (.entry e) := by
  unfold parseLine
  simp only [pyStrip_print w, pySplit_print w]
  have hlen : ((printEntryS e).length == 0) = false := by
    have := (printEntryS_nobreak w).1
    cases h : printEntryS e with
    | nil => exact absurd h this
    | cons a t => simp
  rw [hlen]
  simp only [Bool.false_eq_true, if_false, List.length_cons, List.length_nil, fields_bridge]
  simp only [getIdx, List.getElem?_cons_zero, List.getElem?_cons_succ]
  rw [pyInt_showInt w.idx]
  simp only
  rw [pyInt_showInt w.pair]
  simp

theorem parseLines_print : ∀ (es : List EntryS), (∀ e ∈ es, WfEntry e) →
    parseLines (es.map printEntryS) = .ok (es, 0) := by
  intro es
  induction es with
  | nil => intro _; rfl
  | cons e es ih =>
    intro h
    rw [List.map_cons, parseLines, parseLine_print (h e (by simp)),
      ih (fun x hx => h x (List.mem_cons_of_mem _ hx))]

theorem join_bridge : Gen.bpseqJoin.toList = ['\n'] := by decide

theorem parseBpseqW_print {es : List EntryS} (h : WellFormedEntries es) :
    parseBpseqW (printBpseqS es) = .ok (es, 0) := by
  have w := wfEntry_of h
  unfold parseBpseqW printBpseqS printBpseqL
  rw [String.toList_ofList, join_bridge, splitLines_join, parseLines_print es w]
  intro l hl
  obtain ⟨e, he, rfl⟩ := List.mem_map.mp hl
  exact printEntryS_nobreak (w e he)

/-! ### `from_string` raises nothing but `ValueError` -/

theorem pyInt_err {cs : List Char} {e : Err} (h : pyInt cs = .error e) : e = .valueError := by
  unfold pyInt at h
  simp only at h
  split at h
  · cases h; rfl
  · split at h
    · cases h; rfl
    · cases h

theorem parseLine_err {raw : List Char} {e : Err} (h : parseLine raw = .error e) : e = .valueError := by
  unfold parseLine at h
  simp only at h
  split at h
  · cases h
  · split at h
    · cases h
    · rename_i hlen
      have h3 : (pySplit (pyStrip raw)).length = 3 := by
        simpa [fields_bridge] using hlen
      match hf : pySplit (pyStrip raw), h3 with
      | [a, b, c], _ =>
        rw [hf] at h
        simp only [getIdx, List.getElem?_cons_zero, List.getElem?_cons_succ] at h
        split at h
        · cases h; exact pyInt_err (by assumption)
        · split at h
          · cases h; exact pyInt_err (by assumption)
          · cases h

theorem parseLines_err : ∀ (ls : List (List Char)) {e : Err}, parseLines ls = .error e → e = .valueError := by
  intro ls
  induction ls with
  | nil => intro e h; cases h
  | cons l ls ih =>
    intro e h
    rw [parseLines] at h
    split at h
    · cases h; exact parseLine_err (by assumption)
    · split at h
      · cases h; exact ih (by assumption)
      · split at h <;> cases h

/-! ### multi-strand text: the scan reads back what `printMulti` prints -/

theorem takeWhile_append_stop {p : Char → Bool} (b : List Char)
    (hb : ∀ x, b.head? = some x → p x = false) : ∀ (a : List Char), (∀ c ∈ a, p c = true) →
    (a ++ b).takeWhile p = a ∧ (a ++ b).dropWhile p = b := by
  intro a
  induction a with
  | nil =>
    intro _
    cases b with
    | nil => exact ⟨rfl, rfl⟩
    | cons x t =>
      have := hb x rfl
      simp [this]
  | cons c cs ih =>
    intro h
    have hc := h c (by simp)
    obtain ⟨i1, i2⟩ := ih (fun x hx => h x (List.mem_cons_of_mem _ hx))
    simp [hc, i1, i2]

theorem class_facts : isSeqCh '\n' = false ∧ isStrCh '\n' = false ∧ isSeqCh '>' = false := by decide

/-- what follows a record in a printed text: nothing, or the newline that separates records -/
def Stop (rest : List Char) : Prop := ∀ x, rest.head? = some x → x = '\n'

structure WfRecord (r : Record) : Prop where
  hdr : ∀ h, r.header = some h → ∀ c ∈ h, (c != '\n') = true
  ne : r.seq ≠ []
  seqOk : ∀ c ∈ r.seq, isSeqCh c = true
  strOk : ∀ c ∈ r.str, isStrCh c = true
  len : r.seq.length = r.str.length

theorem wfRecord_of {rs : List Record} (h : wellFormedRecords rs = true) : ∀ r ∈ rs, WfRecord r := by
  intro r hr
  have := List.all_eq_true.mp h r hr
  simp only [Bool.and_eq_true, List.all_eq_true, beq_iff_eq, Bool.not_eq_true',
    List.isEmpty_eq_false_iff] at this
  obtain ⟨⟨⟨⟨h1, h2⟩, h3⟩, h4⟩, h5⟩ := this
  refine ⟨?_, h2, h3, h4, h5⟩
  intro h hh c hc
  rw [hh] at h1
  exact List.all_eq_true.mp h1 c hc

theorem matchBody_record {seq str rest : List Char} (hne : seq ≠ []) (hs : ∀ c ∈ seq, isSeqCh c = true)
    (ht : ∀ c ∈ str, isStrCh c = true) (hlen : seq.length = str.length) (hr : Stop rest) :
    matchBody (seq ++ '\n' :: (str ++ rest)) = some (seq, str, seq.length + 1 + str.length) := by
  obtain ⟨a1, a2⟩ := takeWhile_append_stop (p := isSeqCh) ('\n' :: (str ++ rest))
    (fun x hx => by simp at hx; subst hx; exact class_facts.1) seq hs
  obtain ⟨b1, _⟩ := takeWhile_append_stop (p := isStrCh) rest
    (fun x hx => by rw [hr x hx]; exact class_facts.2.1) str ht
  have hne' : str ≠ [] := by
    intro e; rw [e] at hlen; simp at hlen; exact hne hlen
  unfold matchBody
  simp only [a1, a2, b1]
  cases seq with
  | nil => exact absurd rfl hne
  | cons c cs =>
    cases str with
    | nil => exact absurd rfl hne'
    | cons d ds => simp

theorem matchAt_record {r : Record} (w : WfRecord r) {rest : List Char} (hr : Stop rest) :
    matchAt (printRecord r ++ rest) = some (r.seq, r.str, (printRecord r).length) := by
  have hb := matchBody_record w.ne w.seqOk w.strOk w.len hr
  obtain ⟨c, cs, hseq⟩ := List.exists_cons_of_ne_nil w.ne
  have hcgt : (c == '>') = false := by
    have h1 := w.seqOk c (by rw [hseq]; simp)
    cases hq : c == '>' with
    | false => rfl
    | true =>
      have : c = '>' := by simpa using hq
      rw [this, class_facts.2.2] at h1; cases h1
  cases hh : r.header with
  | none =>
    have hp : printRecord r ++ rest = r.seq ++ '\n' :: (r.str ++ rest) := by
      simp [printRecord, hh]
    have hl : (printRecord r).length = r.seq.length + 1 + r.str.length := by
      simp [printRecord, hh]; omega
    rw [hp, hl, ← hb]
    rw [hseq]
    simp only [List.cons_append, matchAt, hcgt, Bool.false_eq_true, if_false]
  | some h =>
    have hp : printRecord r ++ rest = '>' :: (h ++ '\n' :: (r.seq ++ '\n' :: (r.str ++ rest))) := by
      simp [printRecord, hh]
    have hl : (printRecord r).length = 1 + h.length + 1 + (r.seq.length + 1 + r.str.length) := by
      simp [printRecord, hh]; omega
    obtain ⟨a1, a2⟩ := takeWhile_append_stop (p := (· != '\n')) ('\n' :: (r.seq ++ '\n' :: (r.str ++ rest)))
      (fun x hx => by simp at hx; subst hx; rfl) h (w.hdr h hh)
    rw [hp, hl]
    simp only [matchAt, beq_self_eq_true, if_true, a1, a2, hb]

theorem scanGo_skip (b : List Char) (first : Nat) : ∀ (a : List Char),
    scanGo (a ++ b) a.length first = scanGo b 0 first := by
  intro a
  induction a with
  | nil => rfl
  | cons x a ih => rw [List.cons_append, List.length_cons, scanGo, ih]

theorem printRecord_ne_nil {r : Record} (w : WfRecord r) : printRecord r ≠ [] := by
  obtain ⟨c, cs, hseq⟩ := List.exists_cons_of_ne_nil w.ne
  cases hh : r.header <;> simp [printRecord, hh, hseq]

/-- one record is consumed, the scan continues behind it -/
theorem scanGo_record {r : Record} (w : WfRecord r) {rest : List Char} (hr : Stop rest) (first : Nat) :
    scanGo (printRecord r ++ rest) 0 first =
      match scanGo rest 0 (first + r.seq.length) with
      | .error e => .error e
      | .ok l => .ok (⟨first, first + r.seq.length - 1, r.seq, r.str⟩ :: l) := by
  have hm := matchAt_record w hr
  obtain ⟨c, P', hP⟩ := List.exists_cons_of_ne_nil (printRecord_ne_nil w)
  rw [hP] at hm ⊢
  rw [List.cons_append] at hm ⊢
  rw [scanGo, hm]
  simp only
  rw [if_neg (by simp [w.len])]
  simp only [List.length_cons, Nat.add_sub_cancel]
  rw [scanGo_skip]
  cases scanGo rest 0 (first + r.seq.length) <;> rfl

theorem scanGo_newline (J : List Char) (first : Nat) : scanGo ('\n' :: J) 0 first = scanGo J 0 first := by
  have hm : matchAt ('\n' :: J) = none := by
    have h1 : ('\n' == '>') = false := by decide
    simp only [matchAt, h1, Bool.false_eq_true, if_false, matchBody, List.takeWhile_cons, class_facts.1]
    rfl
  rw [scanGo, hm]

theorem scanGo_print : ∀ (rs : List Record) (first : Nat), (∀ r ∈ rs, WfRecord r) →
    scanGo (printMulti rs) 0 first = .ok (number rs first) := by
  intro rs
  unfold printMulti
  induction rs with
  | nil => intro _ _; rfl
  | cons r rs ih =>
    intro first h
    have w := h r (by simp)
    cases rs with
    | nil =>
      have := scanGo_record w (rest := []) (fun x hx => by simp at hx) first
      simp only [List.append_nil] at this
      simp only [List.map_cons, List.map_nil, joinWith, number]
      rw [this]
      rfl
    | cons r2 rs =>
      simp only [List.map_cons] at ih ⊢
      rw [joinWith_cons_cons]
      simp only [List.append_assoc, List.singleton_append]
      rw [scanGo_record w (fun x hx => by simp at hx; exact hx.symm) first, scanGo_newline,
        ih (first + r.seq.length) (fun x hx => h x (List.mem_cons_of_mem _ hx))]
      rfl

/-! ### dot-bracket text: `from_file(str(d)) = d` -/

theorem univNL_id : ∀ (l : List Char), (∀ c ∈ l, c ≠ '\r') → univNL l false = l := by
  intro l
  induction l with
  | nil => intro _; rfl
  | cons c cs ih =>
    intro h
    have hc : (c == '\r') = false := by simpa using h c (by simp)
    rw [univNL]
    simp only [Bool.false_and, Bool.false_eq_true, if_false, hc]
    rw [ih (fun x hx => h x (List.mem_cons_of_mem _ hx))]

theorem dropWhile_none {p : Char → Bool} {l : List Char} (h : ∀ c ∈ l, p c = false) :
    l.dropWhile p = l := by
  cases l with
  | nil => rfl
  | cons a t => exact dropWhile_head (h a (by simp))

theorem pyRStrip_id {l : List Char} (h : ∀ c ∈ l, pySpaces.contains c = false) : pyRStrip l = l := by
  unfold pyRStrip
  rw [dropWhile_none (fun c hc => h c (List.mem_reverse.mp hc)), List.reverse_reverse]

theorem space_facts : pySpaces.contains '\r' = true ∧ pySpaces.contains '\n' = true := by decide

theorem dbsep_bridge : Gen.dbStrSep.toList = ['\n'] ∧
    Gen.dbFileCases.find? (fun c => c.1 == 2) = some (2, 0, 1) := by decide

theorem dbFromFile_print {seq str : List Char} (h2 : str ≠ [])
    (hs : ∀ c ∈ seq, pySpaces.contains c = false) (ht : ∀ c ∈ str, pySpaces.contains c = false) :
    dbFromFile (printDB seq str) = dbFromString seq str := by
  have ne : ∀ (l : List Char), (∀ c ∈ l, pySpaces.contains c = false) → ∀ c ∈ l, c ≠ '\r' ∧ c ≠ '\n' := by
    intro l hl c hc
    refine ⟨?_, ?_⟩ <;> intro e <;> have := hl c hc <;> rw [e] at this
    · rw [space_facts.1] at this; cases this
    · rw [space_facts.2] at this; cases this
  have htext : printDB seq str = seq ++ '\n' :: str := by
    unfold printDB; rw [dbsep_bridge.1]; simp
  have hu : univNL (seq ++ '\n' :: str) false = seq ++ '\n' :: str := by
    apply univNL_id
    intro c hc
    simp only [List.mem_append, List.mem_cons] at hc
    rcases hc with hc | rfl | hc
    · exact (ne seq hs c hc).1
    · decide
    · exact (ne str ht c hc).1
  have hsplit : splitBy (· == '\n') (seq ++ '\n' :: str) = [seq, str] := by
    rw [splitBy_append_sep (by decide) _ _ (fun c hc => by simpa using (ne seq hs c hc).2),
      splitBy_nosep _ (fun c hc => by simpa using (ne str ht c hc).2)]
  have hlines : readLines (printDB seq str) = [seq, str] := by
    unfold readLines
    rw [htext, hu, hsplit]
    cases str with
    | nil => exact absurd rfl h2
    | cons a t => simp
  unfold dbFromFile
  rw [hlines]
  simp only [List.length_cons, List.length_nil]
  rw [dbsep_bridge.2]
  simp only [getIdx, List.getElem?_cons_zero, List.getElem?_cons_succ]
  rw [pyRStrip_id hs, pyRStrip_id ht]

end RnaVerif.Text

import Mathlib.Analysis.SpecialFunctions.Complex.Arg
import Mathlib.Tactic.Ring
import Mathlib.Tactic.LinearCombination
import RnaVerif.Model.Torsion
/-!
# Lemmas for C18 (torsion angles)

Part 1: algebra over an arbitrary commutative ring — rotation/translation invariance of dot and triple
products, Binet–Cauchy, and the consequence that the `atan2` arguments of both implementations are
functions of dot products of bond vectors and one triple product.
Part 2: over ℝ with `atan2 y x := Complex.arg ⟨x, y⟩` — the canonical-frame computation and what each
implementation returns.
-/
namespace RnaVerif.Torsion
open RnaVerif RnaVerif.V3

/-! ## Part 1 — algebra over a commutative ring -/
section ring
variable {K : Type} [CommRing K]

theorem dot_rot (R : M3 K) (h : M3.Orthonormal (1 : K) 0 (transpose R)) (u v : V3 K) :
    dot (R.apply u) (R.apply v) = dot u v := by
  obtain ⟨h11, h22, h33, h12, h13, h23⟩ := h
  simp only [transpose, dot] at h11 h22 h33 h12 h13 h23
  simp only [M3.apply, dot]
  linear_combination (u.x * v.x) * h11 + (u.y * v.y) * h22 + (u.z * v.z) * h33 +
    (u.x * v.y + u.y * v.x) * h12 + (u.x * v.z + u.z * v.x) * h13 + (u.y * v.z + u.z * v.y) * h23

theorem triple_rot (R : M3 K) (u v w : V3 K) :
    triple (R.apply u) (R.apply v) (R.apply w) = R.det * triple u v w := by
  simp only [triple, dot, cross, M3.apply, M3.det]; ring

theorem binet (a b c d : V3 K) :
    dot (cross a b) (cross c d) = dot a c * dot b d - dot a d * dot b c := by
  simp only [dot, cross]; ring

theorem apply_sub (R : M3 K) (p q : V3 K) :
    R.apply (sub p q) = sub (R.apply p) (R.apply q) := by
  simp only [M3.apply, sub, dot, V3.mk.injEq]; refine ⟨?_, ?_, ?_⟩ <;> (first | trivial | ring)

theorem sub_add_right (p q t : V3 K) : sub (add p t) (add q t) = sub p q := by
  simp only [sub, add, V3.mk.injEq]; refine ⟨?_, ?_, ?_⟩ <;> (first | trivial | ring)

theorem move_sub (R : M3 K) (t p q : V3 K) :
    sub (move R t p) (move R t q) = R.apply (sub p q) := by
  rw [move, move, sub_add_right, apply_sub]

/-- v1's arguments written with dot products and one triple product only -/
theorem argsV1_eq (v1 v2 v3 : V3 K) :
    argsV1 v1 v2 v3 =
      ⟨dot v1 v2 * dot v2 v3 - dot v1 v3 * dot v2 v2, triple v1 v2 v3, dot v2 v2⟩ := by
  simp only [argsV1, triple, dot, cross, Args.mk.injEq]; refine ⟨?_, ?_, ?_⟩ <;> (first | trivial | ring)

/-- v2's arguments written with dot products and one triple product only: `x₂ = n·x₁`, `w₂ = −n·w₁` -/
theorem argsV2_eq (v1 v2 v3 : V3 K) :
    argsV2 v1 v2 v3 =
      ⟨dot v2 v2 * (dot v1 v2 * dot v2 v3 - dot v1 v3 * dot v2 v2),
       -(dot v2 v2 * triple v1 v2 v3), dot v2 v2⟩ := by
  simp only [argsV2, triple, dot, cross, Args.mk.injEq]; refine ⟨?_, ?_, ?_⟩ <;> (first | trivial | ring)

/-- the two implementations: same `n`, `x₂ = n·x₁`, `w₂ = −n·w₁` -/
theorem argsV2_eq_argsV1 (v1 v2 v3 : V3 K) :
    argsV2 v1 v2 v3 =
      ⟨(argsV1 v1 v2 v3).n * (argsV1 v1 v2 v3).x, -((argsV1 v1 v2 v3).n * (argsV1 v1 v2 v3).w),
       (argsV1 v1 v2 v3).n⟩ := by
  rw [argsV2_eq, argsV1_eq]

theorem argsV1_rot (R : M3 K) (h : M3.Orthonormal (1 : K) 0 (transpose R)) (v1 v2 v3 : V3 K) :
    argsV1 (R.apply v1) (R.apply v2) (R.apply v3) =
      ⟨(argsV1 v1 v2 v3).x, R.det * (argsV1 v1 v2 v3).w, (argsV1 v1 v2 v3).n⟩ := by
  rw [argsV1_eq, argsV1_eq]; simp only [dot_rot R h, triple_rot]

theorem argsV2_rot (R : M3 K) (h : M3.Orthonormal (1 : K) 0 (transpose R)) (v1 v2 v3 : V3 K) :
    argsV2 (R.apply v1) (R.apply v2) (R.apply v3) =
      ⟨(argsV2 v1 v2 v3).x, R.det * (argsV2 v1 v2 v3).w, (argsV2 v1 v2 v3).n⟩ := by
  rw [argsV2_eq, argsV2_eq]; simp only [dot_rot R h, triple_rot, Args.mk.injEq]
  refine ⟨trivial, ?_, trivial⟩; ring

/-- positive scaling of the three bond vectors (= the normalisations of v1): `x` and `√n·w` are both
multiplied by `s₁ s₂² s₃` (`√n` picks up `s₂`) -/
theorem argsV1_scale (s1 s2 s3 : K) (v1 v2 v3 : V3 K) :
    argsV1 (smul s1 v1) (smul s2 v2) (smul s3 v3) =
      ⟨s1 * s2 ^ 2 * s3 * (argsV1 v1 v2 v3).x, s1 * s2 * s3 * (argsV1 v1 v2 v3).w,
       s2 ^ 2 * (argsV1 v1 v2 v3).n⟩ := by
  simp only [argsV1, smul, dot, cross, Args.mk.injEq]; refine ⟨?_, ?_, ?_⟩ <;> (first | trivial | ring)

theorem args1_move (R : M3 K) (h : M3.Orthonormal (1 : K) 0 (transpose R)) (t : V3 K) (q : Quad K) :
    (q.map (move R t)).args1 = ⟨q.args1.x, R.det * q.args1.w, q.args1.n⟩ := by
  simp only [Quad.args1, Quad.map, args1, move_sub]; exact argsV1_rot R h _ _ _

theorem args2_move (R : M3 K) (h : M3.Orthonormal (1 : K) 0 (transpose R)) (t : V3 K) (q : Quad K) :
    (q.map (move R t)).args2 = ⟨q.args2.x, R.det * q.args2.w, q.args2.n⟩ := by
  simp only [Quad.args2, Quad.map, args2, move_sub]; exact argsV2_rot R h _ _ _

theorem args1_rev (q : Quad K) : q.rev.args1 = q.args1 := by
  simp only [Quad.args1, Quad.rev, args1, argsV1, sub, dot, cross, Args.mk.injEq]
  refine ⟨?_, ?_, ?_⟩ <;> (first | trivial | ring)

theorem args2_rev (q : Quad K) : q.rev.args2 = q.args2 := by
  simp only [Quad.args2, Quad.rev, args2, argsV2, sub, dot, cross, Args.mk.injEq]
  refine ⟨?_, ?_, ?_⟩ <;> (first | trivial | ring)

theorem args2_eq_args1 (q : Quad K) :
    q.args2 = ⟨q.args1.n * q.args1.x, -(q.args1.n * q.args1.w), q.args1.n⟩ :=
  argsV2_eq_argsV1 _ _ _

/-- the reflection z ↦ −z as a matrix -/
def mirrorM : M3 K := ⟨⟨1, 0, 0⟩, ⟨0, 1, 0⟩, ⟨0, 0, -1⟩⟩

theorem mirrorM_orth : M3.Orthonormal (1 : K) 0 (transpose (mirrorM : M3 K)) := by
  simp only [M3.Orthonormal, transpose, mirrorM, dot]
  refine ⟨?_, ?_, ?_, ?_, ?_, ?_⟩ <;> (first | trivial | ring)

theorem mirrorM_det : (mirrorM : M3 K).det = -1 := by
  simp only [M3.det, mirrorM, triple, dot, cross]; ring

theorem mirrorZ_eq_move (p : V3 K) : mirrorZ p = move mirrorM ⟨0, 0, 0⟩ p := by
  simp only [mirrorZ, move, mirrorM, M3.apply, add, dot, V3.mk.injEq]
  refine ⟨?_, ?_, ?_⟩ <;> (first | trivial | ring)

/-- canonical frame: the polynomial part (`c`, `s` arbitrary ring elements) -/
theorem args1_built (a b l c1 c3 c s : K) :
    (built a b l c1 c3 c s).args1 = ⟨a * l ^ 2 * b * c, a * l * b * s, l * l⟩ := by
  simp only [Quad.args1, built, args1, argsV1, sub, dot, cross, Args.mk.injEq]
  refine ⟨?_, ?_, ?_⟩ <;> (first | trivial | ring)

theorem args2_built (a b l c1 c3 c s : K) :
    (built a b l c1 c3 c s).args2 =
      ⟨l ^ 2 * (a * l ^ 2 * b * c), -(l ^ 2 * (a * l * b * s)), l * l⟩ := by
  simp only [Quad.args2, built, args2, argsV2, sub, dot, cross, Args.mk.injEq]
  refine ⟨?_, ?_, ?_⟩ <;> (first | trivial | ring)

end ring

section real
open Real

/-! ## Part 2 — over ℝ -/

/-- `atan2` of both implementations (`math.atan2`, `numpy.arctan2`): the argument of `x + i y` in (−π, π] -/
noncomputable def atan2 (y x : ℝ) : ℝ := Complex.arg ⟨x, y⟩

/-- the angle denoted by a triple `⟨x, w, n⟩` -/
noncomputable def angle (a : Args ℝ) : ℝ := atan2 (Real.sqrt a.n * a.w) a.x

/-- what `tertiary.calculate_torsion_angle_coords` returns on a non-degenerate quadruple -/
noncomputable def torsion1 (q : Quad ℝ) : ℝ := angle q.args1
/-- what `tertiary_v2.calculate_torsion_angle` returns on a non-degenerate quadruple -/
noncomputable def torsion2 (q : Quad ℝ) : ℝ := angle q.args2

theorem atan2_mem (y x : ℝ) : atan2 y x ∈ Set.Ioc (-π) π := Complex.arg_mem_Ioc _

theorem atan2_polar {k φ : ℝ} (hk : 0 < k) (hφ : φ ∈ Set.Ioc (-π) π) :
    atan2 (k * sin φ) (k * cos φ) = φ := by
  unfold atan2
  have h := Complex.arg_mul_cos_add_sin_mul_I hk hφ
  convert h using 2
  apply Complex.ext <;> simp [Complex.cos_ofReal_re, Complex.sin_ofReal_re]

theorem atan2_scale {k : ℝ} (hk : 0 < k) (y x : ℝ) : atan2 (k * y) (k * x) = atan2 y x := by
  unfold atan2
  have h := Complex.arg_real_mul (⟨x, y⟩ : ℂ) hk
  rw [← h]; congr 1
  apply Complex.ext <;> simp

theorem atan2_neg (y x : ℝ) :
    atan2 (-y) x = if atan2 y x = π then π else -atan2 y x := by
  unfold atan2
  have h := Complex.arg_conj (⟨x, y⟩ : ℂ)
  rw [← h]; congr 1

theorem atan2_neg_of_ne_pi {y x : ℝ} (h : atan2 y x ≠ π) : atan2 (-y) x = -atan2 y x := by
  rw [atan2_neg, if_neg h]


theorem angle_scale {k : ℝ} (hk : 0 < k) (a : Args ℝ) :
    angle ⟨k * a.x, k * a.w, a.n⟩ = angle a := by
  unfold angle
  simp only
  rw [show Real.sqrt a.n * (k * a.w) = k * (Real.sqrt a.n * a.w) by ring]
  exact atan2_scale hk _ _

theorem angle_mem (a : Args ℝ) : angle a ∈ Set.Ioc (-π) π := atan2_mem _ _

theorem angle_neg (a : Args ℝ) :
    angle ⟨a.x, -a.w, a.n⟩ = if angle a = π then π else -angle a := by
  unfold angle
  simp only
  rw [show Real.sqrt a.n * -a.w = -(Real.sqrt a.n * a.w) by ring]
  exact atan2_neg _ _

/-- canonical frame, v1: `(x, y) = k (cos φ, sin φ)` with `k = a l² b > 0` — for all bond lengths
`√(a²+c₁²)`, `l`, `√(b²+c₃²)` and all bond angles -/
theorem v1_xy_canonical (a b l c1 c3 φ : ℝ) (ha : 0 < a) (hb : 0 < b) (hl : 0 < l) :
    0 < a * l ^ 2 * b ∧
    (built a b l c1 c3 (cos φ) (sin φ)).args1.x = (a * l ^ 2 * b) * cos φ ∧
    Real.sqrt (built a b l c1 c3 (cos φ) (sin φ)).args1.n * (built a b l c1 c3 (cos φ) (sin φ)).args1.w
      = (a * l ^ 2 * b) * sin φ := by
  refine ⟨by positivity, ?_, ?_⟩
  · rw [args1_built]
  · rw [args1_built]; simp only; rw [Real.sqrt_mul_self hl.le]; ring

/-- canonical frame, v2: `(x, y) = k (cos φ, −sin φ)` with `k = a l⁴ b > 0` -/
theorem v2_xy_canonical (a b l c1 c3 φ : ℝ) (ha : 0 < a) (hb : 0 < b) (hl : 0 < l) :
    0 < a * l ^ 4 * b ∧
    (built a b l c1 c3 (cos φ) (sin φ)).args2.x = (a * l ^ 4 * b) * cos φ ∧
    Real.sqrt (built a b l c1 c3 (cos φ) (sin φ)).args2.n * (built a b l c1 c3 (cos φ) (sin φ)).args2.w
      = -((a * l ^ 4 * b) * sin φ) := by
  refine ⟨by positivity, ?_, ?_⟩
  · rw [args2_built]; simp only; ring
  · rw [args2_built]; simp only; rw [Real.sqrt_mul_self hl.le]; ring

theorem v1_returns_phi (a b l c1 c3 φ : ℝ) (ha : 0 < a) (hb : 0 < b) (hl : 0 < l)
    (hφ : φ ∈ Set.Ioc (-π) π) :
    torsion1 (built a b l c1 c3 (cos φ) (sin φ)) = φ := by
  obtain ⟨hk, hx, hy⟩ := v1_xy_canonical a b l c1 c3 φ ha hb hl
  unfold torsion1 angle
  rw [hx, hy]
  exact atan2_polar hk hφ

theorem v2_returns_neg_phi (a b l c1 c3 φ : ℝ) (ha : 0 < a) (hb : 0 < b) (hl : 0 < l)
    (hφ : φ ∈ Set.Ioo (-π) π) :
    torsion2 (built a b l c1 c3 (cos φ) (sin φ)) = -φ := by
  obtain ⟨hk, hx, hy⟩ := v2_xy_canonical a b l c1 c3 φ ha hb hl
  unfold torsion2 angle
  rw [hx, hy, ← Real.cos_neg φ, show -(a * l ^ 4 * b * sin φ) = a * l ^ 4 * b * sin (-φ) by
    rw [Real.sin_neg]; ring]
  refine atan2_polar hk ⟨?_, ?_⟩
  · have := hφ.2; linarith
  · have := hφ.1; linarith

/-- at φ = π the two conventions coincide (−π is not in the range) -/
theorem v2_at_pi (a b l c1 c3 : ℝ) (ha : 0 < a) (hb : 0 < b) (hl : 0 < l) :
    torsion2 (built a b l c1 c3 (cos π) (sin π)) = π := by
  obtain ⟨hk, hx, hy⟩ := v2_xy_canonical a b l c1 c3 π ha hb hl
  unfold torsion2 angle
  rw [hx, hy, show -(a * l ^ 4 * b * sin π) = a * l ^ 4 * b * sin π by rw [Real.sin_pi]; ring]
  exact atan2_polar hk ⟨by linarith [Real.pi_pos], le_refl _⟩

/-- general relation between the implementations (every quadruple with p₂ ≠ p₃) -/
theorem torsion2_eq (q : Quad ℝ) (hn : 0 < q.args1.n) :
    torsion2 q = if torsion1 q = π then π else -torsion1 q := by
  unfold torsion2 torsion1
  rw [args2_eq_args1]
  have h := angle_scale hn ⟨q.args1.x, -q.args1.w, q.args1.n⟩
  simp only at h
  rw [show -(q.args1.n * q.args1.w) = q.args1.n * -q.args1.w by ring, h]
  exact angle_neg _

theorem torsion1_rigid (R : M3 ℝ) (h : M3.Orthonormal (1 : ℝ) 0 (transpose R)) (hd : R.det = 1)
    (t : V3 ℝ) (q : Quad ℝ) : torsion1 (q.map (move R t)) = torsion1 q := by
  unfold torsion1; rw [args1_move R h, hd, one_mul]

theorem torsion2_rigid (R : M3 ℝ) (h : M3.Orthonormal (1 : ℝ) 0 (transpose R)) (hd : R.det = 1)
    (t : V3 ℝ) (q : Quad ℝ) : torsion2 (q.map (move R t)) = torsion2 q := by
  unfold torsion2; rw [args2_move R h, hd, one_mul]

theorem torsion1_improper (R : M3 ℝ) (h : M3.Orthonormal (1 : ℝ) 0 (transpose R)) (hd : R.det = -1)
    (t : V3 ℝ) (q : Quad ℝ) :
    torsion1 (q.map (move R t)) = if torsion1 q = π then π else -torsion1 q := by
  unfold torsion1; rw [args1_move R h, hd, neg_one_mul]; exact angle_neg _

theorem torsion2_improper (R : M3 ℝ) (h : M3.Orthonormal (1 : ℝ) 0 (transpose R)) (hd : R.det = -1)
    (t : V3 ℝ) (q : Quad ℝ) :
    torsion2 (q.map (move R t)) = if torsion2 q = π then π else -torsion2 q := by
  unfold torsion2; rw [args2_move R h, hd, neg_one_mul]; exact angle_neg _

theorem torsion1_rev (q : Quad ℝ) : torsion1 q.rev = torsion1 q := by
  unfold torsion1; rw [args1_rev]

theorem torsion2_rev (q : Quad ℝ) : torsion2 q.rev = torsion2 q := by
  unfold torsion2; rw [args2_rev]

theorem map_mirrorZ (q : Quad ℝ) : q.map mirrorZ = q.map (move mirrorM ⟨0, 0, 0⟩) := by
  simp only [Quad.map, mirrorZ_eq_move]


/-! ### the normalisations of the code only scale both `atan2` arguments by a common positive factor -/

/-- literally the arithmetic of `tertiary.calculate_torsion_angle_coords` after the guard, with
`uᵢ = sᵢ·vᵢ` (`sᵢ = 1/|vᵢ|` when the vector is normalised, `sᵢ = 1` when `|vᵢ| ≤ 1e-6`); the `clip`
of the first argument to [−1, 1] is the identity on exact values (`|t₁·t₂| ≤ |u₁||u₂|²|u₃| ≤ 1`) and is
covered by the correspondence check -/
noncomputable def v1Code (s1 s2 s3 : ℝ) (q : Quad ℝ) : ℝ :=
  let u1 := smul s1 (sub q.p2 q.p1)
  let u2 := smul s2 (sub q.p3 q.p2)
  let u3 := smul s3 (sub q.p4 q.p3)
  let t1 := cross u1 u2
  let t2 := cross u2 u3
  let t3 := smul (Real.sqrt (norm2 u2)) u1
  atan2 (dot t2 t3) (dot t1 t2)

theorem v1_scaling {s1 s2 s3 : ℝ} (h1 : 0 < s1) (h2 : 0 < s2) (h3 : 0 < s3) (q : Quad ℝ) :
    v1Code s1 s2 s3 q = torsion1 q := by
  have key := argsV1_scale s1 s2 s3 (sub q.p2 q.p1) (sub q.p3 q.p2) (sub q.p4 q.p3)
  have hk : 0 < s1 * s2 ^ 2 * s3 := by positivity
  have e : v1Code s1 s2 s3 q =
      angle (argsV1 (smul s1 (sub q.p2 q.p1)) (smul s2 (sub q.p3 q.p2)) (smul s3 (sub q.p4 q.p3))) := by
    unfold v1Code angle
    simp only [argsV1, norm2]
    congr 1
    simp only [smul, dot]; ring
  rw [e, key]
  unfold torsion1 Quad.args1 args1 angle
  simp only
  rw [Real.sqrt_mul (sq_nonneg s2), Real.sqrt_sq h2.le,
    show s2 * Real.sqrt (argsV1 (sub q.p2 q.p1) (sub q.p3 q.p2) (sub q.p4 q.p3)).n *
        (s1 * s2 * s3 * (argsV1 (sub q.p2 q.p1) (sub q.p3 q.p2) (sub q.p4 q.p3)).w) =
      s1 * s2 ^ 2 * s3 * (Real.sqrt (argsV1 (sub q.p2 q.p1) (sub q.p3 q.p2) (sub q.p4 q.p3)).n *
        (argsV1 (sub q.p2 q.p1) (sub q.p3 q.p2) (sub q.p4 q.p3)).w) by ring]
  exact atan2_scale hk _ _

/-- literally the arithmetic of `tertiary_v2.calculate_torsion_angle` after the guard -/
noncomputable def v2Code (q : Quad ℝ) : ℝ :=
  let v1 := sub q.p2 q.p1
  let v2 := sub q.p3 q.p2
  let v3 := sub q.p4 q.p3
  let n1 := cross v1 v2
  let n2 := cross v2 v3
  let n1' := smul (1 / Real.sqrt (norm2 n1)) n1
  let n2' := smul (1 / Real.sqrt (norm2 n2)) n2
  let m1 := cross n1' (smul (1 / Real.sqrt (norm2 v2)) v2)
  atan2 (dot m1 n2') (dot n1' n2')

theorem v2_scaling (q : Quad ℝ)
    (h1 : 0 < norm2 (cross (sub q.p2 q.p1) (sub q.p3 q.p2)))
    (h2 : 0 < norm2 (cross (sub q.p3 q.p2) (sub q.p4 q.p3)))
    (hn : 0 < norm2 (sub q.p3 q.p2)) :
    v2Code q = torsion2 q := by
  set v1 := sub q.p2 q.p1 with hv1
  set v2 := sub q.p3 q.p2 with hv2
  set v3 := sub q.p4 q.p3 with hv3
  set A := Real.sqrt (norm2 (cross v1 v2)) with hA
  set B := Real.sqrt (norm2 (cross v2 v3)) with hB
  set C := Real.sqrt (norm2 v2) with hC
  have hA0 : 0 < A := Real.sqrt_pos.mpr h1
  have hB0 : 0 < B := Real.sqrt_pos.mpr h2
  have hC0 : 0 < C := Real.sqrt_pos.mpr hn
  have hCC : C * C = norm2 v2 := Real.mul_self_sqrt hn.le
  have hk : 0 < 1 / (A * B * (C * C)) := by positivity
  have e : v2Code q = atan2 (1 / (A * B * (C * C)) * (C * (argsV2 v1 v2 v3).w))
      (1 / (A * B * (C * C)) * (argsV2 v1 v2 v3).x) := by
    unfold v2Code
    simp only [← hv1, ← hv2, ← hv3, ← hA, ← hB, ← hC]
    congr 1
    · simp only [argsV2, smul, dot, cross]; field_simp
    · simp only [argsV2]
      rw [show dot v2 v2 = C * C from hCC.symm]
      simp only [smul, dot, cross]; field_simp
  rw [e, atan2_scale hk]
  unfold torsion2 Quad.args2 args2 angle
  simp only [← hv1, ← hv2, ← hv3]
  rfl


theorem norm2_nonneg (v : V3 ℝ) : 0 ≤ norm2 v := by
  simp only [norm2, dot]; nlinarith [mul_self_nonneg v.x, mul_self_nonneg v.y, mul_self_nonneg v.z]

/-- Lagrange: `|a×b|² = |a|²|b|² − (a·b)²` -/
theorem lagrange {K : Type} [CommRing K] (a b : V3 K) :
    norm2 (cross a b) = norm2 a * norm2 b - dot a b * dot a b := by
  simp only [norm2, dot, cross]; ring

/-- v2's guard implies `p₂ ≠ p₃` (so no division by zero after it) -/
theorem norm2_pos_of_cross_pos (a b : V3 ℝ) (h : 0 < norm2 (cross a b)) : 0 < norm2 b := by
  rcases (norm2_nonneg b).lt_or_eq with hb | hb
  · exact hb
  · rw [lagrange, ← hb] at h
    nlinarith [mul_self_nonneg (dot a b)]

theorem v2_scaling' (q : Quad ℝ)
    (h1 : 0 < norm2 (cross (sub q.p2 q.p1) (sub q.p3 q.p2)))
    (h2 : 0 < norm2 (cross (sub q.p3 q.p2) (sub q.p4 q.p3))) :
    v2Code q = torsion2 q :=
  v2_scaling q h1 h2 (norm2_pos_of_cross_pos _ _ h1)

/-! ### soundness of the executable twin: signs and tan² determine the returned angle -/

theorem twin_sound (a : Args ℝ) (hn : 0 < a.n) (hx : a.x ≠ 0) :
    Real.tan (angle a) ^ 2 = a.n * (a.w * a.w) / (a.x * a.x) ∧
    (0 < Real.cos (angle a) ↔ 0 < a.x) ∧ (Real.cos (angle a) < 0 ↔ a.x < 0) ∧
    (0 < Real.sin (angle a) ↔ 0 < a.w) ∧ (Real.sin (angle a) < 0 ↔ a.w < 0) := by
  have hz : (⟨a.x, Real.sqrt a.n * a.w⟩ : ℂ) ≠ 0 := by
    intro h; exact hx (congrArg Complex.re h)
  have hnz : 0 < ‖(⟨a.x, Real.sqrt a.n * a.w⟩ : ℂ)‖ := norm_pos_iff.mpr hz
  have hs : 0 < Real.sqrt a.n := Real.sqrt_pos.mpr hn
  unfold angle atan2
  rw [Complex.tan_arg, Complex.cos_arg hz, Complex.sin_arg]
  simp only
  refine ⟨?_, ?_, ?_, ?_, ?_⟩
  · rw [div_pow, mul_pow, Real.sq_sqrt hn.le]; ring
  · exact div_pos_iff_of_pos_right hnz
  · rw [div_lt_iff₀ hnz, zero_mul]
  · rw [div_pos_iff_of_pos_right hnz]; exact mul_pos_iff_of_pos_left hs
  · rw [div_lt_iff₀ hnz, zero_mul]
    constructor
    · intro h; by_contra hw; have hw := not_lt.mp hw
      exact absurd h (not_lt.mpr (mul_nonneg hs.le hw))
    · intro h; exact mul_neg_of_pos_of_neg hs h

/-- `x = 0`: the angle is ±π/2 (cos = 0), the sign of sin is the sign of `w` -/
theorem twin_sound_x0 (a : Args ℝ) (hn : 0 < a.n) (hx : a.x = 0) (hw : a.w ≠ 0) :
    Real.cos (angle a) = 0 ∧ (0 < Real.sin (angle a) ↔ 0 < a.w) := by
  have hs : 0 < Real.sqrt a.n := Real.sqrt_pos.mpr hn
  have hz : (⟨a.x, Real.sqrt a.n * a.w⟩ : ℂ) ≠ 0 := by
    intro h; exact (mul_ne_zero hs.ne' hw) (congrArg Complex.im h)
  have hnz : 0 < ‖(⟨a.x, Real.sqrt a.n * a.w⟩ : ℂ)‖ := norm_pos_iff.mpr hz
  unfold angle atan2
  rw [Complex.cos_arg hz, Complex.sin_arg]
  simp only
  refine ⟨by rw [hx, zero_div], ?_⟩
  rw [div_pos_iff_of_pos_right hnz]; exact mul_pos_iff_of_pos_left hs

/-- casting a rational quadruple / triple to ℝ -/
def Args.toReal (a : Args ℚ) : Args ℝ := ⟨a.x, a.w, a.n⟩
def castV (p : V3 ℚ) : V3 ℝ := ⟨p.x, p.y, p.z⟩
def castQ (q : Quad ℚ) : Quad ℝ := ⟨castV q.p1, castV q.p2, castV q.p3, castV q.p4⟩

theorem args1_cast (q : Quad ℚ) : (castQ q).args1 = q.args1.toReal := by
  simp only [castQ, Quad.args1, args1, argsV1, castV, sub, dot, cross, Args.toReal, Args.mk.injEq]
  refine ⟨?_, ?_, ?_⟩ <;> push_cast <;> ring

theorem args2_cast (q : Quad ℚ) : (castQ q).args2 = q.args2.toReal := by
  simp only [castQ, Quad.args2, args2, argsV2, castV, sub, dot, cross, Args.toReal, Args.mk.injEq]
  refine ⟨?_, ?_, ?_⟩ <;> push_cast <;> ring

/-- the third component printed by the driver is `tan²` of the real angle -/
theorem quadTan_tan2 (A : Args ℚ) (hn : 0 < A.n) (hx : A.x ≠ 0) :
    quadTan A = .val (sgn A.x) (sgn A.w) (some (A.n * (A.w * A.w) / (A.x * A.x))) ∧
    Real.tan (angle A.toReal) ^ 2 = ((A.n * (A.w * A.w) / (A.x * A.x) : ℚ) : ℝ) := by
  constructor
  · simp only [quadTan, if_neg hx]
  · have hn' : (0 : ℝ) < A.toReal.n := by simp only [Args.toReal]; exact_mod_cast hn
    have hx' : A.toReal.x ≠ 0 := by simp only [Args.toReal]; exact_mod_cast hx
    rw [(twin_sound A.toReal hn' hx').1]
    simp only [Args.toReal]; push_cast; ring

/-! ### the witness of the pinned test `tests/test_v2.py::test_torsion_angle_calculation` -/

def Wit : Quad ℝ := ⟨⟨1, 0, 0⟩, ⟨0, 0, 0⟩, ⟨0, 1, 0⟩, ⟨0, 1, 1⟩⟩

/-- proper rotation x ↦ x, y ↦ −z, z ↦ y -/
def Rw : M3 ℝ := ⟨⟨1, 0, 0⟩, ⟨0, 0, 1⟩, ⟨0, -1, 0⟩⟩

theorem Rw_orth : M3.Orthonormal (1 : ℝ) 0 (transpose Rw) := by
  simp only [M3.Orthonormal, transpose, Rw, dot]
  refine ⟨?_, ?_, ?_, ?_, ?_, ?_⟩ <;> ring

theorem Rw_det : Rw.det = 1 := by
  simp only [M3.det, Rw, triple, dot, cross]; ring

/-- the witness is the canonical construction with prescribed dihedral φ = −π/2 (a = b = l = 1,
right bond angles), rotated -/
theorem Wit_is_built :
    Wit = (built 1 1 1 0 0 (cos (-(π / 2))) (sin (-(π / 2)))).map (move Rw ⟨0, 0, 0⟩) := by
  simp only [Wit, built, Quad.map, move, Rw, M3.apply, add, dot, Real.cos_neg, Real.sin_neg,
    Real.cos_pi_div_two, Real.sin_pi_div_two, Quad.mk.injEq, V3.mk.injEq]
  norm_num

theorem neg_half_pi_mem : -(π / 2) ∈ Set.Ioo (-π) π :=
  ⟨by linarith [Real.pi_pos], by linarith [Real.pi_pos]⟩

theorem v1_witness : torsion1 Wit = -(π / 2) := by
  rw [Wit_is_built, torsion1_rigid Rw Rw_orth Rw_det]
  exact v1_returns_phi 1 1 1 0 0 _ one_pos one_pos one_pos ⟨neg_half_pi_mem.1, neg_half_pi_mem.2.le⟩

theorem v2_witness : torsion2 Wit = π / 2 := by
  rw [Wit_is_built, torsion2_rigid Rw Rw_orth Rw_det,
    v2_returns_neg_phi 1 1 1 0 0 _ one_pos one_pos one_pos neg_half_pi_mem, neg_neg]


end real


/-! ## Part 3 — the degenerate guards and the clip -/
section guards
open Real

section ring2
variable {K : Type} [CommRing K]

theorem norm2_rot (R : M3 K) (h : M3.Orthonormal (1 : K) 0 (transpose R)) (v : V3 K) :
    norm2 (R.apply v) = norm2 v := dot_rot R h v v

theorem norm2_cross_rot (R : M3 K) (h : M3.Orthonormal (1 : K) 0 (transpose R)) (u v : V3 K) :
    norm2 (cross (R.apply u) (R.apply v)) = norm2 (cross u v) := by
  rw [lagrange, lagrange, norm2_rot R h, norm2_rot R h, dot_rot R h]

/-- the five quantities both degenerate guards look at -/
def guardQ {K : Type} [Add K] [Sub K] [Mul K] (q : Quad K) : K × K × K × K × K :=
  (norm2 (sub q.p2 q.p1), norm2 (sub q.p3 q.p2), norm2 (sub q.p4 q.p3),
   norm2 (cross (sub q.p2 q.p1) (sub q.p3 q.p2)), norm2 (cross (sub q.p3 q.p2) (sub q.p4 q.p3)))

theorem guardQ_move (R : M3 K) (h : M3.Orthonormal (1 : K) 0 (transpose R)) (t : V3 K) (q : Quad K) :
    guardQ (q.map (move R t)) = guardQ q := by
  simp only [guardQ, Quad.map, move_sub, norm2_rot R h, norm2_cross_rot R h]

theorem guardQ_built (a b l c1 c3 c s : K) (hcs : c * c + s * s = 1) :
    guardQ (built a b l c1 c3 c s) =
      (a ^ 2 + c1 ^ 2, l ^ 2, b ^ 2 + c3 ^ 2, a ^ 2 * l ^ 2, b ^ 2 * l ^ 2) := by
  simp only [guardQ, built, norm2, sub, dot, cross, Prod.mk.injEq]
  refine ⟨by ring, by ring, ?_, by ring, ?_⟩
  · linear_combination (b ^ 2) * hcs
  · linear_combination (b ^ 2 * l ^ 2) * hcs

end ring2

section real2

/-- v1's guard as a function of `guardQ` -/
def deg1G {K : Type} [Mul K] [LT K] [DecidableLT K] [OfNat K 1] (en2 e2 : K) (g : K × K × K × K × K) : Bool :=
  let d1 := if en2 < g.1 then g.1 else 1
  let d2 := if en2 < g.2.1 then g.2.1 else 1
  let d3 := if en2 < g.2.2.1 then g.2.2.1 else 1
  decide (g.2.2.2.1 < e2 * (d1 * d2)) || decide (g.2.2.2.2 < e2 * (d2 * d3))

def deg2G {K : Type} [LT K] [DecidableLT K] (e2 : K) (g : K × K × K × K × K) : Bool :=
  decide (g.2.2.2.1 < e2) || decide (g.2.2.2.2 < e2)

theorem degenerate1_eq (en2 e2 : ℝ) (q : Quad ℝ) :
    degenerate1 en2 e2 q.p1 q.p2 q.p3 q.p4 = deg1G en2 e2 (guardQ q) := rfl

theorem degenerate2_eq (e2 : ℝ) (q : Quad ℝ) :
    degenerate2 e2 q.p1 q.p2 q.p3 q.p4 = deg2G e2 (guardQ q) := rfl

/-- the same definitions on `Rat` are what the driver runs -/
theorem degenerate1_eq_rat (en2 e2 : ℚ) (q : Quad ℚ) :
    degenerate1 en2 e2 q.p1 q.p2 q.p3 q.p4 = deg1G en2 e2 (guardQ q) := rfl

/-- `tertiary.calculate_torsion_angle_coords` with its guard (thresholds from the source) -/
noncomputable def code1 (q : Quad ℝ) : ℝ :=
  if degenerate1 ((v1NormEps2 : ℚ) : ℝ) ((v1CrossEps2 : ℚ) : ℝ) q.p1 q.p2 q.p3 q.p4
  then ((Gen.Tor.v1DegenerateValue : ℚ) : ℝ) else torsion1 q

/-- `tertiary_v2.calculate_torsion_angle` with its guard; `none` = nan -/
noncomputable def code2 (q : Quad ℝ) : Option ℝ :=
  if degenerate2 ((v2CrossEps2 : ℚ) : ℝ) q.p1 q.p2 q.p3 q.p4 then none else some (torsion2 q)

theorem deg1_built (en2 e2 : ℝ) (R : M3 ℝ) (hR : M3.Orthonormal (1 : ℝ) 0 (transpose R)) (t : V3 ℝ)
    (a b l c1 c3 φ : ℝ) (h1 : en2 < a ^ 2 + c1 ^ 2) (h2 : en2 < l ^ 2) (h3 : en2 < b ^ 2 + c3 ^ 2)
    (hs1 : e2 * (a ^ 2 + c1 ^ 2) ≤ a ^ 2) (hs2 : e2 * (b ^ 2 + c3 ^ 2) ≤ b ^ 2) :
    let q := (built a b l c1 c3 (cos φ) (sin φ)).map (move R t)
    degenerate1 en2 e2 q.p1 q.p2 q.p3 q.p4 = false := by
  intro q
  have hcs : cos φ * cos φ + sin φ * sin φ = 1 := by
    have := Real.cos_sq_add_sin_sq φ; nlinarith
  rw [degenerate1_eq, guardQ_move R hR, guardQ_built _ _ _ _ _ _ _ hcs]
  simp only [deg1G, if_pos h1, if_pos h2, if_pos h3, Bool.or_eq_false_iff, decide_eq_false_iff_not, not_lt]
  have hl : 0 ≤ l ^ 2 := sq_nonneg l
  constructor
  · nlinarith [mul_le_mul_of_nonneg_right hs1 hl]
  · nlinarith [mul_le_mul_of_nonneg_right hs2 hl]

theorem deg2_built (e2 : ℝ) (R : M3 ℝ) (hR : M3.Orthonormal (1 : ℝ) 0 (transpose R)) (t : V3 ℝ)
    (a b l c1 c3 φ : ℝ) (hs1 : e2 ≤ a ^ 2 * l ^ 2) (hs2 : e2 ≤ b ^ 2 * l ^ 2) :
    let q := (built a b l c1 c3 (cos φ) (sin φ)).map (move R t)
    degenerate2 e2 q.p1 q.p2 q.p3 q.p4 = false := by
  intro q
  have hcs : cos φ * cos φ + sin φ * sin φ = 1 := by
    have := Real.cos_sq_add_sin_sq φ; nlinarith
  rw [degenerate2_eq, guardQ_move R hR, guardQ_built _ _ _ _ _ _ _ hcs]
  simp only [deg2G, Bool.or_eq_false_iff, decide_eq_false_iff_not, not_lt]
  exact ⟨hs1, hs2⟩

end real2

theorem dot_sq_le (a b : V3 ℝ) : dot a b * dot a b ≤ norm2 a * norm2 b := by
  have h := lagrange a b
  have := norm2_nonneg (cross a b)
  linarith

theorem norm2_cross_le (a b : V3 ℝ) : norm2 (cross a b) ≤ norm2 a * norm2 b := by
  have h := lagrange a b
  have := mul_self_nonneg (dot a b)
  linarith

/-- `|t₁·t₂| ≤ 1` when the three vectors have length ≤ 1 (normalised, or shorter than 1e-6) -/
theorem abs_dot_cross_le_one (u1 u2 u3 : V3 ℝ) (h1 : norm2 u1 ≤ 1) (h2 : norm2 u2 ≤ 1)
    (h3 : norm2 u3 ≤ 1) : |dot (cross u1 u2) (cross u2 u3)| ≤ 1 := by
  have a1 := norm2_nonneg u1
  have a2 := norm2_nonneg u2
  have a3 := norm2_nonneg u3
  have c1 := norm2_cross_le u1 u2
  have c2 := norm2_cross_le u2 u3
  have n1 := norm2_nonneg (cross u1 u2)
  have n2 := norm2_nonneg (cross u2 u3)
  have e1 : norm2 (cross u1 u2) ≤ 1 := le_trans c1 (by nlinarith)
  have e2 : norm2 (cross u2 u3) ≤ 1 := le_trans c2 (by nlinarith)
  have hx := dot_sq_le (cross u1 u2) (cross u2 u3)
  have hx1 : dot (cross u1 u2) (cross u2 u3) * dot (cross u1 u2) (cross u2 u3) ≤ 1 :=
    le_trans hx (by nlinarith)
  exact abs_le_one_iff_mul_self_le_one.mpr hx1

/-- `numpy.clip` -/
noncomputable def clip (x lo hi : ℝ) : ℝ := max lo (min hi x)

theorem clip_id {x : ℝ} (h : |x| ≤ 1) : clip x (-1) 1 = x := by
  obtain ⟨h1, h2⟩ := abs_le.mp h
  unfold clip; rw [min_eq_right h2, max_eq_right h1]

/-- the arithmetic of tertiary.py *with* its `numpy.clip(dot_t1_t2, lo, hi)` -/
noncomputable def v1CodeClipped (s1 s2 s3 : ℝ) (q : Quad ℝ) : ℝ :=
  let u1 := smul s1 (sub q.p2 q.p1)
  let u2 := smul s2 (sub q.p3 q.p2)
  let u3 := smul s3 (sub q.p4 q.p3)
  let t1 := cross u1 u2
  let t2 := cross u2 u3
  let t3 := smul (Real.sqrt (norm2 u2)) u1
  atan2 (dot t2 t3) (clip (dot t1 t2) ((Gen.Tor.v1ClipLo : ℚ) : ℝ) ((Gen.Tor.v1ClipHi : ℚ) : ℝ))

theorem v1_clip_harmless {s1 s2 s3 : ℝ} (q : Quad ℝ)
    (h1 : norm2 (smul s1 (sub q.p2 q.p1)) ≤ 1) (h2 : norm2 (smul s2 (sub q.p3 q.p2)) ≤ 1)
    (h3 : norm2 (smul s3 (sub q.p4 q.p3)) ≤ 1) :
    v1CodeClipped s1 s2 s3 q = v1Code s1 s2 s3 q := by
  unfold v1CodeClipped v1Code
  simp only [Gen.Tor.v1ClipLo, Gen.Tor.v1ClipHi]
  rw [show ((-1 : ℚ) : ℝ) = -1 by norm_num, show ((1 : ℚ) : ℝ) = 1 by norm_num,
    clip_id (abs_dot_cross_le_one _ _ _ h1 h2 h3)]


end guards

end RnaVerif.Torsion

import RnaVerif.Model.Unifier
import RnaVerif.Lemmas.Splitter
import RnaVerif.Lemmas.ReadersGroup
/-! # helper lemmas for the unifier model (C10 at `unifier.main`) -/
namespace RnaVerif.Unifier
open RnaVerif RnaVerif.Pdb RnaVerif.Fit RnaVerif.Splitter

/-! ## the stable sort -/

theorem insertBy_perm (key : Atom → Nat) (x : Atom) : ∀ l : Table, (insertBy key x l).Perm (x :: l)
  | [] => List.Perm.refl _
  | y :: ys => by
    unfold insertBy
    split
    · exact List.Perm.refl _
    · exact ((insertBy_perm key x ys).cons y).trans (List.Perm.swap x y ys)

theorem sortBy_perm (key : Atom → Nat) : ∀ l : Table, (sortBy key l).Perm l
  | [] => List.Perm.refl _
  | x :: xs => (insertBy_perm key x (sortBy key xs)).trans ((sortBy_perm key xs).cons x)

theorem mem_sortBy (key : Atom → Nat) (l : Table) (a : Atom) : a ∈ sortBy key l ↔ a ∈ l :=
  (sortBy_perm key l).mem_iff

theorem insertBy_sorted (key : Atom → Nat) (x : Atom) : ∀ l : Table,
    l.Pairwise (fun a b => key a ≤ key b) → (insertBy key x l).Pairwise (fun a b => key a ≤ key b)
  | [], _ => by simp [insertBy]
  | y :: ys, h => by
    unfold insertBy
    have h' := List.pairwise_cons.1 h
    split
    · rename_i hxy
      exact List.pairwise_cons.2 ⟨fun z hz => by
        rcases List.mem_cons.1 hz with rfl | hz
        · exact hxy
        · exact Nat.le_trans hxy (h'.1 z hz), h⟩
    · rename_i hxy
      refine List.pairwise_cons.2 ⟨fun z hz => ?_, insertBy_sorted key x ys h'.2⟩
      rcases List.mem_cons.1 ((insertBy_perm key x ys).mem_iff.1 hz) with rfl | hz
      · omega
      · exact h'.1 z hz

/-- the result is ascending in the key -/
theorem sortBy_sorted (key : Atom → Nat) : ∀ l : Table, (sortBy key l).Pairwise (fun a b => key a ≤ key b)
  | [] => List.Pairwise.nil
  | x :: xs => insertBy_sorted key x _ (sortBy_sorted key xs)

theorem insertBy_filter (key : Atom → Nat) (k : Nat) (x : Atom) : ∀ l : Table,
    (insertBy key x l).filter (fun a => key a == k) =
      if key x = k then x :: l.filter (fun a => key a == k) else l.filter (fun a => key a == k)
  | [] => by unfold insertBy; by_cases h : key x = k <;> simp [h]
  | y :: ys => by
    unfold insertBy
    split
    · by_cases h : key x = k <;> simp [h]
    · rename_i hxy
      rw [List.filter_cons, insertBy_filter key k x ys]
      by_cases h : key x = k
      · have hy : (key y == k) = false := by
          rw [beq_eq_false_iff_ne]; omega
        simp [h, hy]
      · simp [h, List.filter_cons]

/-- stability: the rows that share a key keep the order they had -/
theorem sortBy_stable (key : Atom → Nat) (k : Nat) : ∀ l : Table,
    (sortBy key l).filter (fun a => key a == k) = l.filter (fun a => key a == k)
  | [] => rfl
  | x :: xs => by
    show (insertBy key x (sortBy key xs)).filter _ = _
    rw [insertBy_filter, sortBy_stable key k xs, List.filter_cons]
    by_cases h : key x = k <;> simp [h]

/-! ## one residue -/

/-- the row `a` is the input row `a0` with the component's standard name -/
def renamedFrom (c : Component) (a0 a : Atom) : Prop := a = { a0 with name := rename c a0.name }

theorem mem_normalise (cfg : Cfg) (c : Component) (cats : List Str) (g : Table) (a : Atom) :
    a ∈ normalise cfg c cats g ↔ (∃ a0 ∈ g, renamedFrom c a0 a) ∧ a.name ∈ validNames cfg c := by
  unfold normalise renamedFrom
  simp only [mem_sortBy, List.mem_filter, List.mem_map, List.contains_iff_mem]
  constructor
  · rintro ⟨⟨a0, h0, rfl⟩, hv⟩
    exact ⟨⟨a0, h0, rfl⟩, hv⟩
  · rintro ⟨⟨a0, h0, rfl⟩, hv⟩
    exact ⟨⟨a0, h0, rfl⟩, hv⟩

theorem normalise_sorted (cfg : Cfg) (c : Component) (cats : List Str) (g : Table) :
    (normalise cfg c cats g).Pairwise
      (fun a b => sortKeyOf (validNames cfg c) (catsAfter c cats) a ≤ sortKeyOf (validNames cfg c) (catsAfter c cats) b) :=
  sortBy_sorted _ _

/-- component order, when the name column does not stay categorical under `map(valid_order)` -/
theorem normalise_component_order (cfg : Cfg) (c : Component) (cats : List Str) (g : Table)
    (h : sortsByCategory (validNames cfg c) (catsAfter c cats) = false) :
    (normalise cfg c cats g).Pairwise
      (fun a b => orderKey (validNames cfg c) a ≤ orderKey (validNames cfg c) b) := by
  have := normalise_sorted cfg c cats g
  simpa [sortKeyOf, h] using this

/-- the kept rows are the renamed valid rows, each as often as before -/
theorem normalise_perm (cfg : Cfg) (c : Component) (cats : List Str) (g : Table) :
    (normalise cfg c cats g).Perm
      ((g.map (fun a => { a with name := rename c a.name })).filter (fun a => (validNames cfg c).contains a.name)) :=
  sortBy_perm _ _

theorem validNames_no_hydrogen (cfg : Cfg) (c : Component) (n : Str) (h : n ∈ validNames cfg c) :
    cfg.hPrefix.isPrefixOf n = false ∧ n ∈ c.map (·.1) := by
  unfold validNames at h
  rw [List.mem_filter] at h
  exact ⟨by simpa using h.2, h.1⟩

/-! ## the residue loop -/

theorem processResidue_some (cfg : Cfg) (cats : List Str) (g : Table) (r : URes)
    (h : processResidue cfg cats g = .ok (some r)) :
    ∃ c, cfg.comps.lookup r.name = some c ∧ r.atoms = normalise cfg c cats g ∧
      ∃ a ∈ g, a.resName = r.name := by
  unfold processResidue at h
  cases g with
  | nil => cases h
  | cons a rest =>
    simp only at h
    split at h
    · cases h
    · split at h
      · cases h
      · rename_i c hc
        injection h with h
        injection h with h
        subst h
        exact ⟨c, hc, rfl, a, by simp, rfl⟩

theorem mem_processAll (cfg : Cfg) (cats : List Str) : ∀ (gs : List Table) (rs : List URes),
    processAll cfg cats gs = .ok rs → ∀ r ∈ rs, ∃ g ∈ gs, processResidue cfg cats g = .ok (some r)
  | [], rs, h, r, hr => by
    injection h with h; subst h; cases hr
  | g :: gs, rs, h, r, hr => by
    unfold processAll at h
    cases h1 : processResidue cfg cats g with
    | error e => rw [h1] at h; cases h
    | ok o =>
      rw [h1] at h
      cases h2 : processAll cfg cats gs with
      | error e => rw [h2] at h; cases h
      | ok rs' =>
        rw [h2] at h
        injection h with h
        subst h
        cases o with
        | none =>
          obtain ⟨g', hg', e⟩ := mem_processAll cfg cats gs rs' h2 r hr
          exact ⟨g', List.mem_cons_of_mem _ hg', e⟩
        | some x =>
          rcases List.mem_cons.1 hr with rfl | hr'
          · exact ⟨g, List.mem_cons_self, h1⟩
          · obtain ⟨g', hg', e⟩ := mem_processAll cfg cats gs rs' h2 r hr'
            exact ⟨g', List.mem_cons_of_mem _ hg', e⟩

/-- every group holds rows of the file -/
theorem mem_groupsOf (f : UFile) (g : Table) (hg : g ∈ groupsOf f) : ∀ a ∈ g, a ∈ f.rows.map (·.2) := by
  unfold groupsOf at hg
  cases hf : f.fmt <;> rw [hf] at hg <;> simp only [List.mem_map] at hg
  all_goals
    obtain ⟨p, hp, rfl⟩ := hg
    intro a ha
    obtain ⟨q, hq, rfl⟩ := List.mem_map.1 ha
    have := (Readers.mem_groupSorted.1 hp).2
    rw [this] at hq
    exact List.mem_map.2 ⟨q, (List.mem_filter.1 hq).1, rfl⟩

/-! ## `mapMExcept` -/

theorem mapMExcept_length {α β} (f : α → Except Err β) : ∀ (xs : List α) (ys : List β),
    mapMExcept f xs = .ok ys → ys.length = xs.length
  | [], ys, h => by injection h with h; subst h; rfl
  | x :: xs, ys, h => by
    unfold mapMExcept at h
    cases h1 : f x with
    | error e => rw [h1] at h; cases h
    | ok y =>
      rw [h1] at h
      cases h2 : mapMExcept f xs with
      | error e => rw [h2] at h; cases h
      | ok ys' =>
        rw [h2] at h
        injection h with h
        subst h
        simp [mapMExcept_length f xs ys' h2]

theorem mapMExcept_mem {α β} (f : α → Except Err β) : ∀ (xs : List α) (ys : List β),
    mapMExcept f xs = .ok ys → ∀ y ∈ ys, ∃ x ∈ xs, f x = .ok y
  | [], ys, h, y, hy => by injection h with h; subst h; cases hy
  | x :: xs, ys, h, y, hy => by
    unfold mapMExcept at h
    cases h1 : f x with
    | error e => rw [h1] at h; cases h
    | ok y0 =>
      rw [h1] at h
      cases h2 : mapMExcept f xs with
      | error e => rw [h2] at h; cases h
      | ok ys' =>
        rw [h2] at h
        injection h with h
        subst h
        rcases List.mem_cons.1 hy with rfl | hy'
        · exact ⟨x, List.mem_cons_self, h1⟩
        · obtain ⟨x', hx', e⟩ := mapMExcept_mem f xs ys' h2 y hy'
          exact ⟨x', List.mem_cons_of_mem _ hx', e⟩

/-- position-wise pairing of inputs and results -/
theorem mem_zip_map_of_mapM {α β γ δ} (F : α → Except Err β) (f : α → γ) (g : β → δ) :
    ∀ (xs : List α) (ys : List β), mapMExcept F xs = .ok ys →
      ∀ p ∈ (xs.map f).zip (ys.map g), ∃ x ∈ xs, ∃ y ∈ ys, F x = .ok y ∧ p = (f x, g y)
  | [], ys, h, p, hp => by simp at hp
  | x :: xs, ys, h, p, hp => by
    unfold mapMExcept at h
    cases h1 : F x with
    | error e => rw [h1] at h; cases h
    | ok y0 =>
      rw [h1] at h
      cases h2 : mapMExcept F xs with
      | error e => rw [h2] at h; cases h
      | ok ys' =>
        rw [h2] at h
        injection h with h
        subst h
        simp only [List.map_cons, List.zip_cons_cons, List.mem_cons] at hp
        rcases hp with rfl | hp
        · exact ⟨x, List.mem_cons_self, y0, List.mem_cons_self, h1, rfl⟩
        · obtain ⟨x', hx', y', hy', e, e'⟩ := mem_zip_map_of_mapM F f g xs ys' h2 p hp
          exact ⟨x', List.mem_cons_of_mem _ hx', y', List.mem_cons_of_mem _ hy', e, e'⟩

/-! ## deleting positions, writing identifiers -/

theorem filterMap_congr' {α β} {f g : α → Option β} : ∀ {l : List α}, (∀ x ∈ l, f x = g x) →
    l.filterMap f = l.filterMap g
  | [], _ => rfl
  | x :: xs, h => by
    rw [List.filterMap_cons, List.filterMap_cons, h x List.mem_cons_self,
      filterMap_congr' (fun y hy => h y (List.mem_cons_of_mem _ hy))]

theorem mem_keepPositions (rm : List Nat) (rs : List URes) (r : URes) (h : r ∈ keepPositions rm rs) : r ∈ rs := by
  unfold keepPositions at h
  obtain ⟨i, -, hi⟩ := List.mem_filterMap.1 h
  exact List.mem_of_getElem? hi

/-- positions that are kept hold, in every file, a residue with as many atoms as the first file's -/
theorem toRemove_spec (ref : List URes) (files : List (List URes)) (i : Nat) (hi : i < ref.length)
    (hn : (toRemove ref files).contains i = false) :
    ∀ rs ∈ files, rs[i]?.map alen = ref[i]?.map alen := by
  intro rs hrs
  unfold toRemove at hn
  rw [List.contains_eq_mem, decide_eq_false_iff_not, List.mem_filter] at hn
  have : ¬ (files.any (fun rs => rs[i]?.map alen != ref[i]?.map alen) = true) := fun h =>
    hn ⟨List.mem_range.2 hi, h⟩
  rw [List.any_eq_true] at this
  cases hd : decide (rs[i]?.map alen = ref[i]?.map alen) with
  | true => exact of_decide_eq_true hd
  | false =>
    exact absurd ⟨rs, hrs, by simpa using of_decide_eq_false hd⟩ this

/-- **same shape after the deletion**: a file with as many residues as the first keeps, position by position,
residues with the first file's atom counts -/
theorem keepPositions_shape (ref : List URes) (files : List (List URes)) (rs : List URes) (hrs : rs ∈ files)
    (hl : rs.length = ref.length) :
    (keepPositions (toRemove ref files) rs).map alen = (keepPositions (toRemove ref files) ref).map alen := by
  unfold keepPositions
  rw [List.map_filterMap, List.map_filterMap, hl]
  apply filterMap_congr'
  intro i hi
  rw [List.mem_filter] at hi
  have hi1 : i < ref.length := List.mem_range.1 hi.1
  have hi2 : (toRemove ref files).contains i = false := by simpa using hi.2
  exact toRemove_spec ref files i hi1 hi2 rs hrs

theorem setIdents_shape : ∀ (ids : List ResIdent) (rs : List URes), (setIdents ids rs).map alen = rs.map alen
  | [], rs => by cases rs <;> rfl
  | _ :: _, [] => rfl
  | i :: is, r :: rs => by
    show alen (setIdent i r) :: (setIdents is rs).map alen = _
    rw [setIdents_shape is rs]
    simp [alen, setIdent]

/-- a residue after `setIdents` is a residue of the list, unchanged or with an identifier written into every atom -/
theorem mem_setIdents : ∀ (ids : List ResIdent) (rs : List URes) (r' : URes), r' ∈ setIdents ids rs →
    ∃ r ∈ rs, r' = r ∨ ∃ i, r' = setIdent i r
  | [], rs, r', h => by
    have : setIdents [] rs = rs := by cases rs <;> rfl
    rw [this] at h
    exact ⟨r', h, Or.inl rfl⟩
  | _ :: _, [], r', h => by cases h
  | i :: is, r :: rs, r', h => by
    rcases List.mem_cons.1 (show r' ∈ setIdent i r :: setIdents is rs from h) with rfl | h'
    · exact ⟨r, List.mem_cons_self, Or.inr ⟨i, rfl⟩⟩
    · obtain ⟨r0, h0, e⟩ := mem_setIdents is rs r' h'
      exact ⟨r0, List.mem_cons_of_mem _ h0, e⟩

theorem shapesAgree_length (ref : List URes) (files : List (List URes)) (h : shapesAgree ref files = true) :
    ∀ rs ∈ files, rs.length = ref.length ∧ rs.map (·.name) = ref.map (·.name) := by
  intro rs hrs
  unfold shapesAgree at h
  have := List.all_eq_true.1 h rs hrs
  simpa using this

/-! ## everything up to the output loop -/

/-- what a successful run of the first part is made of -/
theorem unifyResidues_ok (cfg : Cfg) (inputs : List UFile) (out : List (Format × List URes))
    (h : unifyResidues cfg inputs = .ok out) :
    ∃ (files : List (List URes)) (ref : List URes) (ids : List ResIdent),
      mapMExcept (residuesOfFile cfg) inputs = .ok files ∧ files.head? = some ref ∧ shapesAgree ref files = true ∧
      out = (inputs.map (·.fmt)).zip
        (files.map (fun rs => setIdents ids (keepPositions (toRemove ref files) rs))) := by
  unfold unifyResidues at h
  cases h1 : mapMExcept (residuesOfFile cfg) inputs with
  | error e => rw [h1] at h; cases h
  | ok files =>
    rw [h1] at h
    cases files with
    | nil => cases h
    | cons ref rest =>
      simp only at h
      split at h
      · cases h
      · rename_i hs
        split at h
        · cases h
        · rename_i ids hids
          injection h with h
          refine ⟨ref :: rest, ref, ids, rfl, rfl, by simpa using hs, ?_⟩
          rw [← h, List.map_map]
          rfl

/-! ## where the written atoms come from -/

theorem sameOther_iff (a b : Atom) :
    sameOtherFields a b = true ↔
      a.record = b.record ∧ a.name = b.name ∧ a.altLoc = b.altLoc ∧ a.resName = b.resName ∧ a.x = b.x ∧ a.y = b.y ∧
      a.z = b.z ∧ a.occ = b.occ ∧ a.b = b.b ∧ a.element = b.element ∧ a.charge = b.charge ∧ a.model = b.model := by
  simp [sameOtherFields, and_assoc]

/-- `a` is the input row `a0` under the standard name of a component that has this name as a non-hydrogen atom;
record type, alternate location, residue name, coordinates, occupancy, B-factor, element, charge and model are
those of `a0` (identifiers and serial may have been rewritten) -/
def Derived (cfg : Cfg) (a0 a : Atom) : Prop :=
  ∃ n c, cfg.comps.lookup n = some c ∧ a.name = rename c a0.name ∧ a.name ∈ validNames cfg c ∧
    sameOtherFields { a0 with name := a.name } a = true

theorem Derived.of_same {cfg : Cfg} {a0 a a' : Atom} (h : Derived cfg a0 a) (hs : sameOtherFields a a' = true) :
    Derived cfg a0 a' := by
  obtain ⟨n, c, h1, h2, h3, h4⟩ := h
  rw [sameOther_iff] at hs h4
  obtain ⟨s1, s2, s3, s4, s5, s6, s7, s8, s9, s10, s11, s12⟩ := hs
  obtain ⟨t1, -, t3, t4, t5, t6, t7, t8, t9, t10, t11, t12⟩ := h4
  refine ⟨n, c, h1, s2 ▸ h2, s2 ▸ h3, ?_⟩
  rw [sameOther_iff]
  exact ⟨t1.trans s1, rfl, t3.trans s3, t4.trans s4, t5.trans s5, t6.trans s6, t7.trans s7, t8.trans s8,
    t9.trans s9, t10.trans s10, t11.trans s11, t12.trans s12⟩

/-- atoms of a residue produced by the residue loop -/
theorem residue_atoms_derived (cfg : Cfg) (x : UFile) (rs : List URes) (h : residuesOfFile cfg x = .ok rs)
    (r : URes) (hr : r ∈ rs) (a : Atom) (ha : a ∈ r.atoms) :
    ∃ a0 ∈ x.rows.map (·.2), Derived cfg a0 a := by
  obtain ⟨g, hg, hp⟩ := mem_processAll cfg _ _ rs h r hr
  obtain ⟨c, hc, hat, -⟩ := processResidue_some cfg _ g r hp
  rw [hat, mem_normalise] at ha
  obtain ⟨⟨a0, h0, e⟩, hv⟩ := ha
  refine ⟨a0, mem_groupsOf x g hg a0 h0, r.name, c, hc, ?_, hv, ?_⟩
  · rw [e]
  · rw [e, sameOther_iff]; simp

theorem setIdent_atoms (i : ResIdent) (r : URes) (a' : Atom) (h : a' ∈ (setIdent i r).atoms) :
    ∃ a ∈ r.atoms, sameOtherFields a a' = true := by
  unfold setIdent at h
  obtain ⟨a, ha, rfl⟩ := List.mem_map.1 h
  exact ⟨a, ha, by rw [sameOther_iff]; simp⟩

theorem sameOther_refl (a : Atom) : sameOtherFields a a = true := by rw [sameOther_iff]; simp

/-- **every atom of every unified residue list is an input atom of the file at the same position** -/
theorem unified_atoms_derived (cfg : Cfg) (inputs : List UFile) (out : List (Format × List URes))
    (h : unifyResidues cfg inputs = .ok out) (p : Format × List URes) (hp : p ∈ out) :
    ∃ x ∈ inputs, p.1 = x.fmt ∧ ∀ r ∈ p.2, ∀ a ∈ r.atoms, ∃ a0 ∈ x.rows.map (·.2), Derived cfg a0 a := by
  obtain ⟨files, ref, ids, hm, -, -, e⟩ := unifyResidues_ok cfg inputs out h
  rw [e] at hp
  obtain ⟨x, hx, rs0, -, hx0, e'⟩ := mem_zip_map_of_mapM (residuesOfFile cfg) (·.fmt)
    (fun rs => setIdents ids (keepPositions (toRemove ref files) rs)) inputs files hm p hp
  refine ⟨x, hx, by rw [e'], ?_⟩
  intro r' hr' a' ha'
  rw [e'] at hr'
  obtain ⟨r, hr, hcase⟩ := mem_setIdents ids _ r' hr'
  have hr0 : r ∈ rs0 := mem_keepPositions _ _ r hr
  rcases hcase with rfl | ⟨i, rfl⟩
  · exact residue_atoms_derived cfg x rs0 hx0 r' hr0 a' ha'
  · obtain ⟨a, ha, hs⟩ := setIdent_atoms i r a' ha'
    obtain ⟨a0, h0, hd⟩ := residue_atoms_derived cfg x rs0 hx0 r hr0 a ha
    exact ⟨a0, h0, hd.of_same hs⟩

/-- **same shape**: after unification all files have the same number of residues and, position by position, the
same number of atoms -/
theorem unified_same_shape (cfg : Cfg) (inputs : List UFile) (out : List (Format × List URes))
    (h : unifyResidues cfg inputs = .ok out) :
    ∀ p ∈ out, ∀ q ∈ out, p.2.map alen = q.2.map alen := by
  obtain ⟨files, ref, ids, hm, hhead, hs, e⟩ := unifyResidues_ok cfg inputs out h
  have key : ∀ p ∈ out, p.2.map alen = (keepPositions (toRemove ref files) ref).map alen := by
    intro p hp
    rw [e] at hp
    obtain ⟨x, -, rs0, hrs0, -, e'⟩ := mem_zip_map_of_mapM (residuesOfFile cfg) (·.fmt)
      (fun rs => setIdents ids (keepPositions (toRemove ref files) rs)) inputs files hm p hp
    rw [e']
    show (setIdents ids _).map alen = _
    rw [setIdents_shape]
    exact keepPositions_shape ref files rs0 hrs0 (shapesAgree_length ref files hs rs0 hrs0).1
  intro p hp q hq
  rw [key p hp, key q hq]

/-- residue names agree as well (second validity check) -/
theorem concat_length (rs : List URes) : (concatAtoms rs).length = (rs.map alen).sum := by
  unfold concatAtoms
  induction rs with
  | nil => rfl
  | cons r rs ih => simp [List.flatMap_cons, ih, alen]

/-! ## the output loop -/

theorem writeAll_mem (o : OutFmt) (files : List (Format × List URes)) (fs : List OutFile)
    (h : writeAll o files = .ok fs) (f : OutFile) (hf : f ∈ fs) :
    ∃ p ∈ files, p.2 ≠ [] ∧ f.fmt = outFormat p.1 o ∧
      f.content = splitOne p.1 (outFormat p.1 o) (concatAtoms p.2) := by
  unfold writeAll at h
  obtain ⟨q, hq, e⟩ := mapMExcept_mem _ _ fs h f hf
  have hq2 : q.2 ∈ files := (List.of_mem_zip hq).2
  refine ⟨q.2, hq2, ?_⟩
  by_cases hem : q.2.2.isEmpty = true
  · simp [hem] at e
  · simp only [hem] at e
    injection e with e
    subst e
    exact ⟨fun hn => hem (by rw [hn]; rfl), rfl, rfl⟩

/-- the table behind a written PDB file is what `fit_to_pdb` returned for the concatenated residues -/
theorem splitOne_pdb (infmt out : Format) (rows t' : Table) (h : splitOne infmt out rows = .pdb t') :
    out = .pdb ∧ fitToPdb infmt rows = .ok t' := by
  unfold splitOne at h
  cases out with
  | cif => cases h
  | pdb =>
    simp only at h
    cases hr : fitToPdb infmt rows with
    | error e => rw [hr] at h; cases h
    | ok t'' => rw [hr] at h; injection h with h; rw [h]; exact ⟨rfl, rfl⟩

/-- rows of a fitted table, seen from the table that was fitted -/
theorem fit_mem_same (fmt : Format) (t t' : Table) (h : fitToPdb fmt t = .ok t') (a' : Atom) (ha' : a' ∈ t') :
    ∃ a ∈ t, sameOtherFields a a' = true := by
  cases hc : canWritePdb fmt t with
  | true =>
    rw [fit_of_canWrite fmt t t' h hc] at ha'
    exact ⟨a', ha', sameOther_refl a'⟩
  | false =>
    obtain ⟨a, ha, s, -, e⟩ := fit_mem fmt t t' h hc a' ha'
    exact ⟨a, ha, by rw [e, sameOther_iff]; simp [newRow]⟩

/-! ## order of the atoms inside a unified residue -/

/-- the order in effect for residues of component `c` in file `x` -/
def keyIn (cfg : Cfg) (x : UFile) (c : Component) (a : Atom) : Nat :=
  sortKeyOf (validNames cfg c) (catsAfter c (catsOfFile (x.rows.map (·.2)))) a

theorem sortKeyOf_name (valid cats' : List Str) (a b : Atom) (h : a.name = b.name) :
    sortKeyOf valid cats' a = sortKeyOf valid cats' b := by
  unfold sortKeyOf orderKey; rw [h]

theorem residue_sorted (cfg : Cfg) (x : UFile) (rs : List URes) (h : residuesOfFile cfg x = .ok rs)
    (r : URes) (hr : r ∈ rs) :
    ∃ c, cfg.comps.lookup r.name = some c ∧ r.atoms.Pairwise (fun a b => keyIn cfg x c a ≤ keyIn cfg x c b) := by
  obtain ⟨g, -, hp⟩ := mem_processAll cfg _ _ rs h r hr
  obtain ⟨c, hc, hat, -⟩ := processResidue_some cfg _ g r hp
  exact ⟨c, hc, hat ▸ normalise_sorted cfg c _ g⟩

theorem unified_sorted (cfg : Cfg) (inputs : List UFile) (out : List (Format × List URes))
    (h : unifyResidues cfg inputs = .ok out) (p : Format × List URes) (hp : p ∈ out) :
    ∃ x ∈ inputs, p.1 = x.fmt ∧ ∀ r ∈ p.2, ∃ c, cfg.comps.lookup r.name = some c ∧
      r.atoms.Pairwise (fun a b => keyIn cfg x c a ≤ keyIn cfg x c b) := by
  obtain ⟨files, ref, ids, hm, -, -, e⟩ := unifyResidues_ok cfg inputs out h
  rw [e] at hp
  obtain ⟨x, hx, rs0, -, hx0, e'⟩ := mem_zip_map_of_mapM (residuesOfFile cfg) (·.fmt)
    (fun rs => setIdents ids (keepPositions (toRemove ref files) rs)) inputs files hm p hp
  refine ⟨x, hx, by rw [e'], ?_⟩
  intro r' hr'
  rw [e'] at hr'
  obtain ⟨r, hr, hcase⟩ := mem_setIdents ids _ r' hr'
  have hr0 : r ∈ rs0 := mem_keepPositions _ _ r hr
  obtain ⟨c, hc, hs⟩ := residue_sorted cfg x rs0 hx0 r hr0
  rcases hcase with rfl | ⟨i, rfl⟩
  · exact ⟨c, hc, hs⟩
  · refine ⟨c, hc, ?_⟩
    show (r.atoms.map _).Pairwise _
    rw [List.pairwise_map]
    refine hs.imp ?_
    intro a b hab
    unfold keyIn at hab ⊢
    exact hab

theorem unify_files (cfg : Cfg) (o : OutFmt) (inputs : List UFile) (fs : List OutFile)
    (h : unify cfg o inputs = .files fs) :
    ∃ out, unifyResidues cfg inputs = .ok out ∧ writeAll o out = .ok fs := by
  unfold unify at h
  cases h1 : unifyResidues cfg inputs with
  | exit1 => rw [h1] at h; cases h
  | crash e => rw [h1] at h; cases h
  | ok out =>
    rw [h1] at h
    simp only at h
    cases h2 : writeAll o out with
    | error e => rw [h2] at h; cases h
    | ok fs' => rw [h2] at h; injection h with h; exact ⟨out, rfl, h ▸ h2⟩

end RnaVerif.Unifier

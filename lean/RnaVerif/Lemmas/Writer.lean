import RnaVerif.Model.Writer
import RnaVerif.Lemmas.MkDB
/-!
# The write-by-write model `mkDBw` agrees with the pointwise model `mkDB` on valid structures

* `writeStem_spec` — one stem whose two strands are in range and do not meet is written as two
  intervals;
* `writeRegions_spec` — stems with pairwise disjoint strands: after all writes the character at `p`
  is the character of the token `tokOf (triples …) p`, or the old one where no stem passes;
* `decodeFrom_total` — the decoder never pops an empty stack on the token string of a levelled
  matching whose openings precede their closings (no properness needed): counting invariant;
* `mkDBw_eq_mkDB`.
-/
namespace RnaVerif.SecStr

/-! ### Python indexing at natural-number positions -/

theorem pyIdx_pred {len i : Nat} (h1 : 1 ≤ i) (h2 : i ≤ len) : pyIdx len ((i : Int) - 1) = some (i - 1) := by
  unfold pyIdx
  have a : (0 : Int) ≤ (i : Int) - 1 := by omega
  have b : ((i : Int) - 1).toNat = i - 1 := by omega
  rw [if_pos a, b, if_pos (by omega)]

theorem pySet_pred {l : List Char} {i : Nat} (h1 : 1 ≤ i) (h2 : i ≤ l.length) (v : Char) :
    pySet l ((i : Int) - 1) v = .ok (l.set (i - 1) v) := by
  unfold pySet
  rw [pyIdx_pred h1 h2]

theorem pyIdx_nat {len i : Nat} : pyIdx len (i : Int) = if i < len then some i else none := by
  unfold pyIdx
  simp

theorem pyGet_nat {α} {l : List α} {i : Nat} (h : i < l.length) : pyGet l (i : Int) = .ok l[i] := by
  unfold pyGet
  rw [pyIdx_nat, if_pos h]
  simp [h]

theorem pyGet_nat_err {α} {l : List α} {i : Nat} (h : l.length ≤ i) :
    pyGet l (i : Int) = .error .indexError := by
  unfold pyGet
  rw [pyIdx_nat, if_neg (by omega)]

/-! ### every exception of the writer is an IndexError -/

theorem pySet_err {α} {l : List α} {i : Int} {v : α} {e : Err} (h : pySet l i v = .error e) :
    e = .indexError := by
  unfold pySet at h
  split at h
  · cases h
  · cases h; rfl

theorem pyGet_err {α} {l : List α} {i : Int} {e : Err} (h : pyGet l i = .error e) :
    e = .indexError := by
  unfold pyGet at h
  split at h
  · split at h
    · cases h
    · cases h; rfl
  · cases h; rfl

theorem writeStem_err {n : Nat} {j k : Int} {b : Char × Char} {s : List Char} {e : Err}
    (h : writeStem n j k b s = .error e) : e = .indexError := by
  induction n generalizing j k s with
  | zero => simp [writeStem] at h
  | succ n ih =>
    simp only [writeStem] at h
    split at h
    · cases h; exact pySet_err (by assumption)
    · split at h
      · cases h; exact pySet_err (by assumption)
      · exact ih h

theorem writeRegions_err {br : List (Char × Char)} {orders : List Int} {regs : List RegionZ} {i : Nat}
    {s : List Char} {e : Err} (h : writeRegions br orders regs i s = .error e) : e = .indexError := by
  induction regs generalizing i s with
  | nil => simp [writeRegions] at h
  | cons r regs ih =>
    obtain ⟨j, k, n⟩ := r
    simp only [writeRegions] at h
    split at h
    · cases h; exact pyGet_err (by assumption)
    · split at h
      · cases h; exact pyGet_err (by assumption)
      · split at h
        · cases h; exact writeStem_err (by assumption)
        · exact ih h

/-! ### list writes never change the length -/

theorem pySet_length {α} {l l' : List α} {i : Int} {v : α} (h : pySet l i v = .ok l') :
    l'.length = l.length := by
  unfold pySet at h
  split at h
  · cases h; simp
  · cases h

theorem writeStem_length {n : Nat} {j k : Int} {b : Char × Char} {s s' : List Char}
    (h : writeStem n j k b s = .ok s') : s'.length = s.length := by
  induction n generalizing j k s with
  | zero => simp only [writeStem] at h; cases h; rfl
  | succ n ih =>
    simp only [writeStem] at h
    split at h
    · cases h
    · rename_i s1 h1
      split at h
      · cases h
      · rename_i s2 h2
        rw [ih h, pySet_length h2, pySet_length h1]

theorem writeRegions_length {br : List (Char × Char)} {orders : List Int} {regs : List RegionZ}
    {i : Nat} {s s' : List Char} (h : writeRegions br orders regs i s = .ok s') :
    s'.length = s.length := by
  induction regs generalizing i s with
  | nil => simp only [writeRegions] at h; cases h; rfl
  | cons r regs ih =>
    obtain ⟨j, k, n⟩ := r
    simp only [writeRegions] at h
    split at h
    · cases h
    · split at h
      · cases h
      · split at h
        · cases h
        · rename_i s1 h1
          rw [ih h, writeStem_length h1]

/-- whatever integers it is given, `__make_dot_bracket` raises nothing but `IndexError`, and a
line it returns has the length of the sequence -/
theorem mkDBwZ_err {n : Nat} {regs : List RegionZ} {orders : List Int} {e : Err}
    (h : mkDBwZ n regs orders = .error e) : e = .indexError := by
  unfold mkDBwZ at h
  split at h
  · cases h; exact writeRegions_err (by assumption)
  · rename_i s hs
    have hl := writeRegions_length hs
    rw [List.length_replicate] at hl
    rw [if_neg (by simp [hl])] at h
    unfold decodePairs at h
    split at h
    · rename_i heq
      cases h
      split at heq
      · cases heq
      · cases heq; rfl
    · cases h

theorem mkDBwZ_length {n : Nat} {regs : List RegionZ} {orders : List Int} {s : List Char}
    (h : mkDBwZ n regs orders = .ok s) : s.length = n := by
  unfold mkDBwZ at h
  split at h
  · cases h
  · rename_i s0 hs
    have hl := writeRegions_length hs
    rw [List.length_replicate] at hl
    rw [if_neg (by simp [hl])] at h
    split at h
    · cases h
    · cases h; exact hl

/-! ### one stem -/

theorem writeStem_spec (len : Nat) : ∀ (i j : Nat) (b : Char × Char) (s : List Char),
    1 ≤ i → i + 2 * len ≤ j + 1 → j ≤ s.length →
    ∃ s', writeStem len (i : Int) (j : Int) b s = .ok s' ∧ s'.length = s.length ∧
      ∀ p, s'.getD p '.' =
        if i - 1 ≤ p ∧ p < i - 1 + len then b.1
        else if j - len ≤ p ∧ p < j then b.2 else s.getD p '.' := by
  induction len with
  | zero =>
    intro i j b s _ _ _
    refine ⟨s, rfl, rfl, ?_⟩
    intro p
    rw [if_neg (by omega), if_neg (by omega)]
  | succ len ih =>
    intro i j b s h1 h2 h3
    have hj1 : 1 ≤ j := by omega
    simp only [writeStem]
    rw [pySet_pred h1 (by omega)]
    simp only
    rw [pySet_pred hj1 (by simp; omega)]
    simp only
    have e1 : ((i : Int) + 1) = ((i + 1 : Nat) : Int) := by omega
    have e2 : ((j : Int) - 1) = ((j - 1 : Nat) : Int) := by omega
    rw [e1, e2]
    obtain ⟨s', hs', hl, hp⟩ := ih (i + 1) (j - 1) b ((s.set (i - 1) b.1).set (j - 1) b.2)
      (by omega) (by omega) (by simp; omega)
    refine ⟨s', hs', by simpa using hl, ?_⟩
    intro p
    rw [hp p]
    simp only [List.getD_eq_getElem?_getD, List.getElem?_set, List.length_set]
    by_cases c1 : i - 1 ≤ p ∧ p < i - 1 + (len + 1)
    · rw [if_pos c1]
      by_cases c2 : i + 1 - 1 ≤ p ∧ p < i + 1 - 1 + len
      · rw [if_pos c2]
      · have hp' : p = i - 1 := by omega
        subst hp'
        rw [if_neg c2, if_neg (by omega), if_neg (by omega), if_pos rfl, if_pos (by omega)]
        rfl
    · rw [if_neg c1, if_neg (by omega)]
      by_cases c3 : j - (len + 1) ≤ p ∧ p < j
      · rw [if_pos c3]
        by_cases c4 : j - 1 - len ≤ p ∧ p < j - 1
        · rw [if_pos c4]
        · have hp' : p = j - 1 := by omega
          subst hp'
          rw [if_neg c4, if_pos rfl, if_pos (by omega)]
          rfl
      · rw [if_neg c3, if_neg (by omega), if_neg (by omega), if_neg (by omega)]

/-! ### token of a position in a concatenation -/

theorem tokOf_untouched {M : List Tr} {p : Nat} (h : ∀ m ∈ M, m.1 ≠ p ∧ m.2.1 ≠ p) :
    tokOf M p = .dot := by
  unfold tokOf
  have h1 : M.find? (fun m => m.1 == p) = none :=
    List.find?_eq_none.mpr (fun m hm => by simpa using (h m hm).1)
  have h2 : M.find? (fun m => m.2.1 == p) = none :=
    List.find?_eq_none.mpr (fun m hm => by simpa using (h m hm).2)
  rw [h1, h2]

theorem tokOf_append_left {A B : List Tr} {p : Nat} (h : ∀ m ∈ B, m.1 ≠ p ∧ m.2.1 ≠ p) :
    tokOf (A ++ B) p = tokOf A p := by
  unfold tokOf
  have h1 : B.find? (fun m => m.1 == p) = none :=
    List.find?_eq_none.mpr (fun m hm => by simpa using (h m hm).1)
  have h2 : B.find? (fun m => m.2.1 == p) = none :=
    List.find?_eq_none.mpr (fun m hm => by simpa using (h m hm).2)
  rw [List.find?_append, List.find?_append, h1, h2]
  simp

theorem tokOf_append_right {A B : List Tr} {p : Nat} (h : ∀ m ∈ A, m.1 ≠ p ∧ m.2.1 ≠ p) :
    tokOf (A ++ B) p = tokOf B p := by
  unfold tokOf
  have h1 : A.find? (fun m => m.1 == p) = none :=
    List.find?_eq_none.mpr (fun m hm => by simpa using (h m hm).1)
  have h2 : A.find? (fun m => m.2.1 == p) = none :=
    List.find?_eq_none.mpr (fun m hm => by simpa using (h m hm).2)
  rw [List.find?_append, List.find?_append, h1, h2]
  simp

theorem mem_expandRegion {r : Region} {l : Nat} {m : Tr} :
    m ∈ expandRegion r l ↔ ∃ t, t < r.len ∧ m = (r.i - 1 + t, r.j - 1 - t, l) := by
  simp only [expandRegion, List.mem_map, List.mem_range]
  constructor
  · rintro ⟨t, ht, rfl⟩; exact ⟨t, ht, rfl⟩
  · rintro ⟨t, ht, rfl⟩; exact ⟨t, ht, rfl⟩

/-- the token function of a single stem whose strands do not meet: two intervals -/
theorem tokOf_expandRegion {r : Region} {l : Nat} (h1 : 1 ≤ r.i) (h2 : r.i + 2 * r.len ≤ r.j + 1)
    (p : Nat) :
    tokOf (expandRegion r l) p =
      if r.i - 1 ≤ p ∧ p < r.i - 1 + r.len then .op l
      else if r.j - r.len ≤ p ∧ p < r.j then .cl l else .dot := by
  by_cases c1 : r.i - 1 ≤ p ∧ p < r.i - 1 + r.len
  · rw [if_pos c1]
    unfold tokOf
    cases ho : (expandRegion r l).find? (fun m => m.1 == p) with
    | some m =>
      obtain ⟨t, _, rfl⟩ := mem_expandRegion.mp (find_open_some ho).1
      rfl
    | none =>
      exfalso
      have := find_open_none ho (r.i - 1 + (p - (r.i - 1)), r.j - 1 - (p - (r.i - 1)), l)
        (mem_expandRegion.mpr ⟨p - (r.i - 1), by omega, rfl⟩)
      simp only at this
      omega
  · rw [if_neg c1]
    have hno : (expandRegion r l).find? (fun m => m.1 == p) = none := by
      apply List.find?_eq_none.mpr
      intro m hm
      obtain ⟨t, ht, rfl⟩ := mem_expandRegion.mp hm
      simp only [beq_iff_eq]
      omega
    by_cases c2 : r.j - r.len ≤ p ∧ p < r.j
    · rw [if_pos c2]
      unfold tokOf
      rw [hno]
      cases hc : (expandRegion r l).find? (fun m => m.2.1 == p) with
      | some m =>
        obtain ⟨t, _, rfl⟩ := mem_expandRegion.mp (find_close_some hc).1
        rfl
      | none =>
        exfalso
        have := find_close_none hc (r.i - 1 + (r.j - 1 - p), r.j - 1 - (r.j - 1 - p), l)
          (mem_expandRegion.mpr ⟨r.j - 1 - p, by omega, rfl⟩)
        simp only at this
        omega
    · rw [if_neg c2]
      apply tokOf_untouched
      intro m hm
      obtain ⟨t, ht, rfl⟩ := mem_expandRegion.mp hm
      simp only
      omega

/-! ### all stems -/

/-- one stem is written inside `1..n` and its 5' strand ends before its 3' strand begins -/
def StemOK (n : Nat) (r : Region) : Prop := 1 ≤ r.i ∧ r.i + 2 * r.len ≤ r.j + 1 ∧ r.j ≤ n

/-- the four strands of two stems (`r` listed before `s`) are disjoint intervals -/
def StemsApart (r s : Region) : Prop :=
  r.i + r.len ≤ s.i ∧ (r.j + s.len ≤ s.j ∨ s.j + r.len ≤ r.j) ∧
    (r.j < s.i ∨ s.i + s.len + r.len ≤ r.j + 1)

structure GoodStems (n : Nat) (rs : List Region) : Prop where
  ok : ∀ r ∈ rs, StemOK n r
  apart : rs.Pairwise StemsApart

theorem triples_cons (r : Region) (rs : List Region) (l : Nat) (ls : List Nat) :
    triples (r :: rs) (l :: ls) = expandRegion r l ++ triples rs ls := by
  simp [triples]

theorem triples_untouched_of_apart {n : Nat} {r : Region} {rs : List Region} {ls : List Nat}
    (hr : StemOK n r) (hok : ∀ s ∈ rs, StemOK n s) (hap : ∀ s ∈ rs, StemsApart r s) {p : Nat}
    (hp : (r.i - 1 ≤ p ∧ p < r.i - 1 + r.len) ∨ (r.j - r.len ≤ p ∧ p < r.j)) :
    ∀ m ∈ triples rs ls, m.1 ≠ p ∧ m.2.1 ≠ p := by
  intro m hm
  obtain ⟨u, hu, _, t, ht, rfl⟩ := mem_triples.mp hm
  have a := hap _ (List.getElem_mem hu)
  have b := hok _ (List.getElem_mem hu)
  unfold StemsApart at a
  unfold StemOK at b hr
  simp only
  omega

theorem writeRegions_spec {n : Nat} (lvs : List Nat) :
    ∀ (rs : List Region) (i0 : Nat) (s : List Char), GoodStems n rs → s.length = n →
      (∀ u, u < rs.length → ∃ h : i0 + u < lvs.length, lvs[i0 + u] < Gen.encBrackets.length) →
      ∃ s', writeRegions Gen.encBrackets (lvs.map Int.ofNat) (rs.map Region.toZ) i0 s = .ok s' ∧
        s'.length = n ∧
        ∀ p, s'.getD p '.' =
          match tokOf (triples rs (lvs.drop i0)) p with
          | .dot => s.getD p '.'
          | t => charOfTok Gen.encBrackets t := by
  intro rs
  induction rs with
  | nil =>
    intro i0 s _ hs _
    exact ⟨s, rfl, hs, fun p => by simp [triples, tokOf]⟩
  | cons r rs ih =>
    intro i0 s g hs hl
    obtain ⟨h0, hlv⟩ := hl 0 (by simp)
    simp only [Nat.add_zero] at h0 hlv
    have hr : StemOK n r := g.ok r (by simp)
    have hap := (List.pairwise_cons.mp g.apart).1
    have g' : GoodStems n rs :=
      ⟨fun x hx => g.ok x (List.mem_cons_of_mem _ hx), (List.pairwise_cons.mp g.apart).2⟩
    simp only [List.map_cons, Region.toZ, writeRegions]
    rw [pyGet_nat (by simpa using h0)]
    simp only [List.getElem_map]
    rw [show Int.ofNat lvs[i0] = ((lvs[i0] : Nat) : Int) from rfl, pyGet_nat hlv]
    simp only [Int.toNat_natCast]
    obtain ⟨s1, hs1, hl1, hp1⟩ := writeStem_spec r.len r.i r.j Gen.encBrackets[lvs[i0]] s hr.1 hr.2.1
      (by rw [hs]; exact hr.2.2)
    rw [hs1]
    simp only
    obtain ⟨s2, hs2, hl2, hp2⟩ := ih (i0 + 1) s1 g' (by rw [hl1, hs]) (fun u hu => by
      obtain ⟨a, b⟩ := hl (u + 1) (by simpa using hu)
      have e : i0 + (u + 1) = i0 + 1 + u := by omega
      exact ⟨by omega, by simpa [e] using b⟩)
    refine ⟨s2, hs2, hl2, ?_⟩
    intro p
    rw [hp2 p, hp1 p]
    have hd : lvs.drop i0 = lvs[i0] :: lvs.drop (i0 + 1) := (List.drop_eq_getElem_cons h0)
    rw [hd, triples_cons]
    by_cases c : (r.i - 1 ≤ p ∧ p < r.i - 1 + r.len) ∨ (r.j - r.len ≤ p ∧ p < r.j)
    · have hun := triples_untouched_of_apart (ls := lvs.drop (i0 + 1)) hr g'.ok hap c
      rw [tokOf_untouched hun, tokOf_append_left hun, tokOf_expandRegion hr.1 hr.2.1]
      have hb : Gen.encBrackets.getD lvs[i0] ('?', '?') = Gen.encBrackets[lvs[i0]] := by
        simp [List.getD_eq_getElem?_getD, hlv]
      rcases c with c | c
      · rw [if_pos c, if_pos c]
        simp only [charOfTok, hb]
      · have c' : ¬ (r.i - 1 ≤ p ∧ p < r.i - 1 + r.len) := by unfold StemOK at hr; omega
        rw [if_neg c', if_pos c, if_neg c', if_pos c]
        simp only [charOfTok, hb]
    · have hE : ∀ m ∈ expandRegion r lvs[i0], m.1 ≠ p ∧ m.2.1 ≠ p := by
        intro m hm
        obtain ⟨t, ht, rfl⟩ := mem_expandRegion.mp hm
        unfold StemOK at hr
        simp only
        omega
      rw [tokOf_append_right hE, if_neg (by omega), if_neg (by omega)]

/-! ### the regions of a valid BPSEQ are good stems -/

theorem goodStems_regions {es : List Entry} (v : ValidP es) : GoodStems es.length (regions es) := by
  have facts := fun u (hu : u < (regions es).length) => stemFacts_regions v (List.getElem_mem hu)
  refine ⟨?_, ?_⟩
  · intro r hr
    obtain ⟨u, hu, rfl⟩ := List.mem_iff_getElem.mp hr
    have f := facts u hu
    have a := stem_single f f.len_pos
    exact ⟨a.1, a.2.2.2.2, by omega⟩
  · rw [List.pairwise_iff_getElem]
    intro u w hu hw huw
    have srt := regions_sorted v u w hu hw huw
    have d := stems_disjoint v (facts u hu) (facts w hw) srt
    exact ⟨srt, d.1, d.2.1⟩

/-! ### the decoder never fails when openings precede their closings -/

/-- a levelled matching without the non-crossing condition -/
structure WF4 (M : List Tr) : Prop where
  bnd : ∀ m ∈ M, m.1 < m.2.1
  injO : ∀ m ∈ M, ∀ m' ∈ M, m.1 = m'.1 → m = m'
  injC : ∀ m ∈ M, ∀ m' ∈ M, m.2.1 = m'.2.1 → m = m'
  oc : ∀ m ∈ M, ∀ m' ∈ M, m.1 ≠ m'.2.1
  nodup : M.Nodup

/-- pair `m` is open at position `k` on level `t`: opened before `k`, closes at `k` or later -/
def openAt (k t : Nat) (m : Tr) : Bool := decide (m.2.2 = t) && decide (m.1 < k) && decide (k ≤ m.2.1)

theorem countP_flip {α} [DecidableEq α] {l : List α} (hnd : l.Nodup) {a : α} (ha : a ∈ l)
    (p q : α → Bool) (hpq : ∀ x ∈ l, x ≠ a → p x = q x) (hp : p a = false) (hq : q a = true) :
    l.countP q = l.countP p + 1 := by
  induction l with
  | nil => cases ha
  | cons x xs ih =>
    rw [List.nodup_cons] at hnd
    by_cases hx : x = a
    · subst hx
      have hc : xs.countP q = xs.countP p := by
        apply List.countP_congr
        intro y hy
        have hne : y ≠ x := fun e => hnd.1 (e ▸ hy)
        rw [hpq y (List.mem_cons_of_mem _ hy) hne]
      rw [List.countP_cons, List.countP_cons, hc, hp, hq]
      simp
    · have ha' : a ∈ xs := by
        rcases List.mem_cons.mp ha with h | h
        · exact absurd h.symm hx
        · exact h
      have := ih hnd.2 ha' (fun y hy hne => hpq y (List.mem_cons_of_mem _ hy) hne)
      rw [List.countP_cons, List.countP_cons, this, hpq x (by simp) hx]
      omega

theorem openAt_succ {k t : Nat} {x : Tr} (h1 : x.1 ≠ k) (h2 : x.2.1 ≠ k) :
    openAt k t x = openAt (k + 1) t x := by
  unfold openAt
  have a : decide (x.1 < k) = decide (x.1 < k + 1) := decide_eq_decide.mpr (by omega)
  have b : decide (k ≤ x.2.1) = decide (k + 1 ≤ x.2.1) := decide_eq_decide.mpr (by omega)
  rw [a, b]

/-- the stack of every bracket type is as long as the number of pairs of that level open here -/
def CInv (M : List Tr) (k : Nat) (s : St) : Prop := ∀ t, (s.stacks t).length = M.countP (openAt k t)

theorem cinv_step {M : List Tr} (wf : WF4 M) {k : Nat} {s : St} (inv : CInv M k s) :
    ∃ s', stepTok s k (tokOf M k) = some s' ∧ CInv M (k + 1) s' := by
  unfold tokOf
  cases ho : M.find? (fun m => m.1 == k) with
  | some m0 =>
    obtain ⟨hm, hk⟩ := find_open_some ho
    refine ⟨_, rfl, ?_⟩
    intro t
    have hb := wf.bnd m0 hm
    have hother : ∀ x ∈ M, x ≠ m0 → openAt k t x = openAt (k + 1) t x := by
      intro x hx hne
      have h1 : x.1 ≠ k := fun e => hne (wf.injO x hx m0 hm (by omega))
      have h2 : x.2.1 ≠ k := fun e => wf.oc m0 hm x hx (by omega)
      exact openAt_succ h1 h2
    by_cases ht : t = m0.2.2
    · subst ht
      simp only [if_true, List.length_cons]
      rw [inv m0.2.2]
      refine (countP_flip wf.nodup hm _ _ hother ?_ ?_).symm
      · unfold openAt; simp; omega
      · unfold openAt; simp; omega
    · simp only [ht, if_false]
      rw [inv t]
      apply List.countP_congr
      intro x hx
      by_cases hxm : x = m0
      · subst hxm
        unfold openAt
        have : ¬ x.2.2 = t := fun e => ht e.symm
        simp [this]
      · rw [hother x hx hxm]
  | none =>
    have ho' := find_open_none ho
    cases hc : M.find? (fun m => m.2.1 == k) with
    | some m0 =>
      obtain ⟨hm, hk⟩ := find_close_some hc
      have hb := wf.bnd m0 hm
      have hother : ∀ t' : Nat, ∀ x ∈ M, x ≠ m0 → openAt (k + 1) t' x = openAt k t' x := by
        intro t' x hx hne
        have h1 : x.1 ≠ k := ho' x hx
        have h2 : x.2.1 ≠ k := fun e => hne (wf.injC x hx m0 hm (by omega))
        exact (openAt_succ h1 h2).symm
      have hcnt := countP_flip wf.nodup hm (openAt (k + 1) m0.2.2) (openAt k m0.2.2)
        (fun x hx hne => hother m0.2.2 x hx hne)
        (by unfold openAt; simp; omega) (by unfold openAt; simp; omega)
      have hlen := inv m0.2.2
      cases hst : s.stacks m0.2.2 with
      | nil => rw [hst] at hlen; simp at hlen; omega
      | cons i rest =>
        refine ⟨⟨fun u => if u = m0.2.2 then rest else s.stacks u, s.out ++ [(i, k)]⟩,
          by simp only [stepTok, hst], ?_⟩
        intro t
        by_cases ht : t = m0.2.2
        · subst ht
          simp only [if_true]
          rw [hst] at hlen
          simp only [List.length_cons] at hlen
          omega
        · simp only [ht, if_false]
          rw [inv t]
          apply List.countP_congr
          intro x hx
          by_cases hxm : x = m0
          · subst hxm
            unfold openAt
            have : ¬ x.2.2 = t := fun e => ht e.symm
            simp [this]
          · rw [hother t x hx hxm]
    | none =>
      refine ⟨s, rfl, ?_⟩
      intro t
      rw [inv t]
      apply List.countP_congr
      intro x hx
      have h1 : x.1 ≠ k := ho' x hx
      have h2 : x.2.1 ≠ k := find_close_none hc x hx
      rw [openAt_succ h1 h2]

theorem cinv_range {M : List Tr} (wf : WF4 M) :
    ∀ (len k : Nat) (s : St), CInv M k s →
      ∃ s', decodeFrom (tokOf M) (List.range' k len) s = some s' ∧ CInv M (k + len) s' := by
  intro len
  induction len with
  | zero => intro k s inv; exact ⟨s, rfl, by simpa using inv⟩
  | succ len ih =>
    intro k s inv
    obtain ⟨s1, h1, inv1⟩ := cinv_step wf inv
    obtain ⟨s2, h2, inv2⟩ := ih (k + 1) s1 inv1
    refine ⟨s2, ?_, by rw [show k + (len + 1) = k + 1 + len by omega]; exact inv2⟩
    simp only [List.range'_succ, decodeFrom, h1, Option.bind_some, h2]

/-- **the decoder is total on written matchings**: no closing bracket meets an empty stack -/
theorem decodeFrom_total {M : List Tr} (wf : WF4 M) (n : Nat) :
    ∃ s', decodeFrom (tokOf M) (List.range n) St.init = some s' := by
  have h0 : CInv M 0 St.init := by
    intro t
    simp only [St.init, List.length_nil]
    symm
    apply List.countP_eq_zero.mpr
    intro m _
    unfold openAt
    simp
  obtain ⟨s', h, _⟩ := cinv_range wf n 0 _ h0
  exact ⟨s', by simpa [List.range_eq_range'] using h⟩

theorem wf4_triples {es : List Entry} (v : ValidP es) (lvs : List Nat)
    (hlen : (regions es).length ≤ lvs.length) : WF4 (triples (regions es) lvs) := by
  have facts := fun u (hu : u < (regions es).length) => stemFacts_regions v (List.getElem_mem hu)
  have disj := fun u w (hu : u < (regions es).length) (hw : w < (regions es).length)
    (h : u < w) => stems_disjoint v (facts u hu) (facts w hw) (regions_sorted v u w hu hw h)
  have srt := fun u w (hu : u < (regions es).length) (hw : w < (regions es).length)
    (h : u < w) => regions_sorted v u w hu hw h
  refine ⟨?_, ?_, ?_, ?_, ?_⟩
  · intro m hm
    obtain ⟨u, hu, hl, t, ht, rfl⟩ := mem_triples.mp hm
    have := stem_single (facts u hu) ht
    simp only
    omega
  · intro m hm m' hm' heq
    obtain ⟨u, hu, hl, t, ht, rfl⟩ := mem_triples.mp hm
    obtain ⟨w, hw, hl', t', ht', rfl⟩ := mem_triples.mp hm'
    simp only at heq
    have s1 := stem_single (facts u hu) ht
    have s2 := stem_single (facts w hw) ht'
    rcases Nat.lt_trichotomy u w with h | h | h
    · have := srt u w hu hw h; omega
    · subst h
      have : t = t' := by omega
      subst this; rfl
    · have := srt w u hw hu h; omega
  · intro m hm m' hm' heq
    obtain ⟨u, hu, hl, t, ht, rfl⟩ := mem_triples.mp hm
    obtain ⟨w, hw, hl', t', ht', rfl⟩ := mem_triples.mp hm'
    simp only at heq
    have s1 := stem_single (facts u hu) ht
    have s2 := stem_single (facts w hw) ht'
    rcases Nat.lt_trichotomy u w with h | h | h
    · have := disj u w hu hw h; omega
    · subst h
      have : t = t' := by omega
      subst this; rfl
    · have := disj w u hw hu h; omega
  · intro m hm m' hm'
    obtain ⟨u, hu, hl, t, ht, rfl⟩ := mem_triples.mp hm
    obtain ⟨w, hw, hl', t', ht', rfl⟩ := mem_triples.mp hm'
    simp only
    have s1 := stem_single (facts u hu) ht
    have s2 := stem_single (facts w hw) ht'
    rcases Nat.lt_trichotomy u w with h | h | h
    · have := disj u w hu hw h; have := srt u w hu hw h; omega
    · subst h; omega
    · have := disj w u hw hu h; have := srt w u hw hu h; omega
  · have hmap := regions_cover_triples v lvs hlen
    have hnd := pairs0_nodup v
    rw [← hmap] at hnd
    exact List.Pairwise.of_map _ (fun a b h e => h (by rw [e])) hnd

/-! ### the writer fails when a level has no bracket -/

theorem writeRegions_ok_levels {br : List (Char × Char)} (lvs : List Nat) :
    ∀ (rs : List Region) (i0 : Nat) (s s' : List Char),
      writeRegions br (lvs.map Int.ofNat) (rs.map Region.toZ) i0 s = .ok s' →
      ∀ u, u < rs.length → ∃ _ : i0 + u < lvs.length, lvs[i0 + u] < br.length := by
  intro rs
  induction rs with
  | nil => intro i0 s s' _ u hu; simp at hu
  | cons r rs ih =>
    intro i0 s s' h u hu
    simp only [List.map_cons, Region.toZ, writeRegions] at h
    by_cases h0 : i0 < lvs.length
    · rw [pyGet_nat (by simpa using h0)] at h
      simp only [List.getElem_map] at h
      rw [show Int.ofNat lvs[i0] = ((lvs[i0] : Nat) : Int) from rfl] at h
      by_cases h1 : lvs[i0] < br.length
      · rw [pyGet_nat h1] at h
        simp only at h
        split at h
        · cases h
        · cases u with
          | zero => exact ⟨h0, h1⟩
          | succ u =>
            obtain ⟨a, b⟩ := ih (i0 + 1) _ s' h u (by simpa using hu)
            have e : i0 + 1 + u = i0 + (u + 1) := by omega
            exact ⟨by omega, by simpa [e] using b⟩
      · rw [pyGet_nat_err (by omega)] at h
        cases h
    · rw [pyGet_nat_err (by simpa using h0)] at h
      cases h

/-! ### main theorem -/

/-- **mkDBw_eq_mkDB**: on the regions of a valid BPSEQ, with one level per region, the sequence of
list writes performed by `__make_dot_bracket` (followed by the `DotBracket` constructor's checks)
produces exactly what the pointwise model `mkDB` describes — the writes hit distinct in-range
positions, and the decoder in `__post_init__` cannot fail; if some level has no bracket both raise
`IndexError`. -/
theorem mkDBw_eq_mkDB {es : List Entry} {lvs : List Nat} (hv : valid es = true)
    (hlen : lvs.length = (regions es).length) :
    mkDBw es.length (regions es) lvs = mkDB es.length (regions es) lvs := by
  have v := (valid_iff es).mp hv
  by_cases hlv : ∀ l ∈ lvs, l < Gen.encBrackets.length
  · rw [mkDB_ok (by omega) hlv]
    obtain ⟨s', hs', hl', hp'⟩ := writeRegions_spec lvs (regions es) 0
      (List.replicate es.length '.') (goodStems_regions v) (by simp)
      (fun u hu => ⟨by omega, hlv _ (List.getElem_mem _)⟩)
    have hM : ∀ m ∈ triples (regions es) lvs, m.2.2 < Gen.encBrackets.length :=
      fun m hm => hlv _ (triples_level_mem hm)
    have hs_eq : s' = (List.range es.length).map
        (fun k => charOfTok Gen.encBrackets (tokOf (triples (regions es) lvs) k)) := by
      apply List.ext_getElem (by simp [hl'])
      intro p h1 h2
      have hp := hp' p
      rw [List.drop_zero] at hp
      have hg : s'.getD p '.' = s'[p] := by simp [List.getD_eq_getElem?_getD, h1]
      have hr : (List.replicate es.length '.').getD p '.' = '.' := by
        have hpl : p < es.length := by omega
        simp [List.getD_eq_getElem?_getD, hpl]
      rw [hg, hr] at hp
      rw [hp]
      simp only [List.getElem_map, List.getElem_range]
      cases tokOf (triples (regions es) lvs) p <;> rfl
    obtain ⟨st, hst⟩ := decodeFrom_total (wf4_triples v lvs (by omega)) es.length
    have hdec : decodePairs s' = .ok st.out := by
      unfold decodePairs
      rw [hs_eq, decodeChars_written hM, hst]
    unfold mkDBw mkDBwZ
    rw [hs']
    simp only
    rw [if_neg (by simp [hl']), hdec, hs_eq]
  · have hex : ∃ u, ∃ h : u < lvs.length, Gen.encBrackets.length ≤ lvs[u] := by
      apply Decidable.byContradiction
      intro hc
      apply hlv
      intro l hl
      obtain ⟨u, hu, rfl⟩ := List.mem_iff_getElem.mp hl
      apply Decidable.byContradiction
      intro hh
      exact hc ⟨u, hu, by omega⟩
    obtain ⟨u, hu, hbig⟩ := hex
    have hR : mkDB es.length (regions es) lvs = .error .indexError := by
      unfold mkDB
      rw [if_neg (by omega), if_pos]
      rw [List.any_eq_true]
      exact ⟨lvs[u], by rw [← hlen, List.take_length]; exact List.getElem_mem _, by simpa using hbig⟩
    rw [hR]
    unfold mkDBw mkDBwZ
    cases hw : writeRegions Gen.encBrackets (lvs.map Int.ofNat) ((regions es).map Region.toZ) 0
        (List.replicate es.length '.') with
    | error e => simp only; rw [writeRegions_err hw]
    | ok s' =>
      exfalso
      obtain ⟨_, b⟩ := writeRegions_ok_levels lvs (regions es) 0 _ s' hw u (by omega)
      simp only [Nat.zero_add] at b
      omega

end RnaVerif.SecStr

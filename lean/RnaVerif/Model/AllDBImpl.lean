import RnaVerif.Model.Levels
/-!
# M1 — `BpSeq.all_dot_brackets`, step by step (import-free, executable)

`Model/Levels.lean` holds the *specification* model `allDB` (groups by label propagation + a decidable
closure check).  This file mirrors what the Python code of `/repo/src/rnapolis/common.py` really does:

```
graph = defaultdict(set);  for i, j in itertools.combinations(range(len(regions)), 2): … graph[i].add(j); graph[j].add(i)
vertices = list(graph.keys());  if not vertices: return [self.fcfs]
visited = {v: False …};  components = []
for vertex in vertices:                      # iterative depth-first search with an explicit stack
    if not visited[vertex]: … stack = [vertex]; components.append([vertex])
        while stack:
            current = stack[-1]; next_vertex = None
            for neighbor in graph[current]:          # <-- iteration of a `set` of ints: order σ
                if not visited[neighbor]: next_vertex = neighbor; break
            if next_vertex is not None: visited[…] = True; stack.append(…); components[-1].append(…)
            else: stack.pop()
for component in components:
    unique.append(set())
    for permutation in itertools.permutations(component):
        orders = {region: 0 for region in component}
        for i in range(1, len(permutation)):
            available = [True for _ in range(len(component))]
            for j in range(i):
                if permutation[j] in graph[permutation[i]]: available[orders[permutation[j]]] = False
            order = next(filter(lambda k: available[k] is True, range(len(available))))
            orders[permutation[i]] = order
        unique[-1].add(frozenset(orders.items()))
solutions = {}
for assignment in itertools.product(*unique):    # <-- iteration of sets of frozensets: order τ
    orders = {region: 0 for region in range(len(regions))}
    for order in assignment: orders.update(order)  # <-- iteration of a frozenset: order ρ
    solutions[self.__make_dot_bracket(regions, orders)] = None
return list(solutions)
```

Every iteration of a hash-ordered collection is an explicit, *adversarial* parameter:

* `σ v l` — the order in which the set `graph[v]` (members `l`) is iterated;
* `τ i u` — the order in which the set `unique[i]` (members `u`) is iterated by `itertools.product`;
* `ρ f`   — the order in which a frozenset `f` of `(region, order)` items is iterated by `dict.update`.

The theorems (`Props/C16Impl.lean`) are stated for *every* σ, τ, ρ that return a permutation of their
argument.  Values of Python sets are represented by lists (insertion order for `graph[v]` and
`unique[i]`; ascending key order for a frozenset of items); only membership is ever used, apart from
the explicit re-ordering by σ / τ / ρ.  Python errors that the code could raise in these loops
(`IndexError` at `available[…] = False`, `StopIteration` at `next(filter(…))`, `IndexError` in
`__make_dot_bracket`) are kept as `Except Err`; the lemmas prove the first two never happen.
-/
namespace RnaVerif.SecStr.Impl

/-! ### the conflict graph: `defaultdict(set)` with `int` keys -/

/-- keys in first-insertion order (this is what `list(graph.keys())` returns — a `dict` keeps
insertion order); each value lists the members of the `set` (insertion order; only membership and the
re-ordering by `σ` are used) -/
abbrev Graph := List (Nat × List Nat)

/-- `graph[i].add(j)` -/
def gAdd : Graph → Nat → Nat → Graph
  | [], i, j => [(i, [j])]
  | (k, ns) :: rest, i, j =>
    if k = i then (k, if j ∈ ns then ns else ns ++ [j]) :: rest
    else (k, ns) :: gAdd rest i j

/-- `itertools.combinations(range(n), 2)`: `(0,1), (0,2), …, (0,n-1), (1,2), …` -/
def combos2 (n : Nat) : List (Nat × Nat) :=
  (List.range n).flatMap (fun i => ((List.range n).filter (fun j => decide (i < j))).map (fun j => (i, j)))

/-- one turn of the construction loop: `if conflict(regions[i], regions[j]): graph[i].add(j); graph[j].add(i)` -/
def graphStep (c : ConfPred) (regs : List Region) (g : Graph) (ij : Nat × Nat) : Graph :=
  match regs[ij.1]?, regs[ij.2]? with
  | some a, some b => if a.conf c b then gAdd (gAdd g ij.1 ij.2) ij.2 ij.1 else g
  | _, _ => g

def buildGraph (c : ConfPred) (regs : List Region) : Graph :=
  (combos2 regs.length).foldl (graphStep c regs) []

/-- `list(graph.keys())` -/
def vertices (g : Graph) : List Nat := g.map (·.1)

/-- members of `graph[v]` (every `v` the code looks up is a key, see `nbrs_subset_vertices`) -/
def nbrs (g : Graph) (v : Nat) : List Nat :=
  match g.find? (fun p => p.1 == v) with
  | some p => p.2
  | none => []

/-! ### connected components: the iterative depth-first search -/

/-- `for neighbor in <order>: if not visited[neighbor]: next_vertex = neighbor; break` -/
def nextUnvisited (visited order : List Nat) : Option Nat :=
  order.find? (fun w => !visited.contains w)

/-- `while stack:` — the top of the stack is the head of the list; `visited` lists the vertices whose
flag is `True`; returns `(visited, components[-1])`.  Fuel-bounded; `dfsFuel` suffices
(`Lemmas/ImplDfs.lean`, measure `2·#unvisited + len(stack)`). -/
def dfsLoop (g : Graph) (σ : Nat → List Nat → List Nat) :
    Nat → List Nat → List Nat → List Nat → List Nat × List Nat
  | 0, _, visited, comp => (visited, comp)
  | _ + 1, [], visited, comp => (visited, comp)
  | fuel + 1, current :: rest, visited, comp =>
    match nextUnvisited visited (σ current (nbrs g current)) with
    | some w => dfsLoop g σ fuel (w :: current :: rest) (w :: visited) (comp ++ [w])
    | none => dfsLoop g σ fuel rest visited comp

def dfsFuel (g : Graph) : Nat := 2 * g.length

/-- `for vertex in vertices: if not visited[vertex]: …` -/
def compLoop (g : Graph) (σ : Nat → List Nat → List Nat) :
    List Nat → List Nat → List (List Nat) → List (List Nat)
  | [], _, comps => comps
  | v :: vs, visited, comps =>
    if visited.contains v then compLoop g σ vs visited comps
    else
      let r := dfsLoop g σ (dfsFuel g) [v] (v :: visited) [v]
      compLoop g σ vs r.1 (comps ++ [r.2])

/-- `components`, each in discovery order, in the order in which their roots occur in `vertices` -/
def components (g : Graph) (σ : Nat → List Nat → List Nat) : List (List Nat) :=
  compLoop g σ (vertices g) [] []

/-! ### the greedy "lowest available order" loop of one permutation -/

/-- `available[idx] = False` -/
def setFalse (av : List Bool) (idx : Nat) : Except Err (List Bool) :=
  if idx < av.length then .ok (av.set idx false) else .error .indexError

/-- `for j in range(i): if permutation[j] in graph[permutation[i]]: available[orders[permutation[j]]] = False`
(`done` = `permutation[:i]`, `v` = `permutation[i]`; `orders` is the dict as an association list) -/
def blockLoop (g : Graph) (orders : List (Nat × Nat)) (v : Nat) : List Nat → List Bool → Except Err (List Bool)
  | [], av => .ok av
  | u :: rest, av =>
    if (nbrs g v).contains u then
      match setFalse av (lookup orders u) with
      | .ok av' => blockLoop g orders v rest av'
      | .error e => .error e
    else blockLoop g orders v rest av

/-- `next(filter(lambda k: available[k] is True, range(len(available))))`; `none` = `StopIteration` -/
def firstTrue (av : List Bool) : Option Nat :=
  (List.range av.length).find? (fun k => av.getD k false)

/-- `orders[v] = o` on an existing key (the key order of the dict is unchanged) -/
def setOrder (orders : List (Nat × Nat)) (v o : Nat) : List (Nat × Nat) :=
  orders.map (fun p => if p.1 = v then (p.1, o) else p)

/-- `for i in range(1, len(permutation)): …` with `done = permutation[:i]`, `todo = permutation[i:]`;
`k = len(component)` is the length of the `available` table -/
def assignLoop (g : Graph) (k : Nat) : List Nat → List Nat → List (Nat × Nat) → Except Err (List (Nat × Nat))
  | _, [], orders => .ok orders
  | done, v :: rest, orders =>
    match blockLoop g orders v done (List.replicate k true) with
    | .error e => .error e
    | .ok av =>
      match firstTrue av with
      | none => .error .stopIteration
      | some o => assignLoop g k (done ++ [v]) rest (setOrder orders v o)

/-- the dict `orders` after the loop over one `permutation` of `component` -/
def permOrders (g : Graph) (comp π : List Nat) : Except Err (List (Nat × Nat)) :=
  let orders0 := comp.map (fun r => (r, 0))
  match π with
  | [] => .ok orders0
  | p0 :: rest => assignLoop g comp.length [p0] rest orders0

/-- keys of `component` in ascending order (`n` = number of regions) -/
def keysOf (n : Nat) (comp : List Nat) : List Nat := (List.range n).filter (fun v => comp.contains v)

/-- the *value* `frozenset(orders.items())`: items listed by ascending key (a canonical
representative: two such frozensets are equal iff these lists are equal) -/
def frozenItems (n : Nat) (comp : List Nat) (orders : List (Nat × Nat)) : List (Nat × Nat) :=
  (keysOf n comp).map (fun v => (v, lookup orders v))

/-- `unique[-1]` after the loop over all permutations of one component: the set of frozensets, members
in first-insertion order.  (The code enumerates `itertools.permutations` lexicographically, the model's
`perms` in another order: this only changes the insertion order of a *set*, which nothing reads — the
set is iterated in the order `τ` says.) -/
def uniqueOf (g : Graph) (n : Nat) (comp : List Nat) : Except Err (List (List (Nat × Nat))) :=
  ((perms comp).mapM (fun π => (permOrders g comp π).map (frozenItems n comp))).map dedupFirst

/-! ### product over components, assembling, de-duplication -/

/-- the iteration orders of `unique[0]`, `unique[1]`, … chosen by `τ` -/
def iterFrom (τ : Nat → List (List (Nat × Nat)) → List (List (Nat × Nat))) :
    Nat → List (List (List (Nat × Nat))) → List (List (List (Nat × Nat)))
  | _, [] => []
  | i, u :: us => τ i u :: iterFrom τ (i + 1) us

/-- `orders.update(items)` on the dict `{0: …, …, n-1: …}` represented as a list of length `n` -/
def updateOrders (orders : List Nat) (items : List (Nat × Nat)) : List Nat :=
  items.foldl (fun o p => o.set p.1 p.2) orders

/-- `orders = {region: 0 for region in range(n)}; for order in assignment: orders.update(order)` -/
def assemble (n : Nat) (ρ : List (Nat × Nat) → List (Nat × Nat)) (assignment : List (List (Nat × Nat))) : List Nat :=
  assignment.foldl (fun o fs => updateOrders o (ρ fs)) (List.replicate n 0)

/-- everything after `unique` has been computed, given the iteration orders `U` of the sets
`unique[i]`: `itertools.product` (last component varies fastest), `orders`, `__make_dot_bracket`,
first-occurrence de-duplication through the insertion-ordered dict `solutions` -/
def finishWith (es : List Entry) (ρ : List (Nat × Nat) → List (Nat × Nat))
    (U : List (List (List (Nat × Nat)))) : Except Err (List (List Char)) :=
  let regs := regions es
  (((product U).map (assemble regs.length ρ)).mapM (mkDB es.length regs)).map dedupFirst

/-- **`BpSeq.all_dot_brackets`**, as a list of structure lines in the order of the returned list -/
def allDBImpl (σ : Nat → List Nat → List Nat)
    (τ : Nat → List (List (Nat × Nat)) → List (List (Nat × Nat)))
    (ρ : List (Nat × Nat) → List (Nat × Nat)) (es : List Entry) : Except Err (List (List Char)) :=
  let regs := regions es
  let g := buildGraph Gen.conflictAll regs
  if (vertices g).isEmpty then (fcfs es).map (fun s => [s])
  else
    match (components g σ).mapM (uniqueOf g regs.length) with
    | .error e => .error e
    | .ok unique => finishWith es ρ (iterFrom τ 0 unique)

/-! ### reference iteration orders (used by the driver and the examples) -/

def sigmaId : Nat → List Nat → List Nat := fun _ l => l
def sigmaRev : Nat → List Nat → List Nat := fun _ l => l.reverse
def tauId : Nat → List (List (Nat × Nat)) → List (List (Nat × Nat)) := fun _ l => l
def tauRev : Nat → List (List (Nat × Nat)) → List (List (Nat × Nat)) := fun _ l => l.reverse
def rhoId : List (Nat × Nat) → List (Nat × Nat) := fun l => l
def rhoRev : List (Nat × Nat) → List (Nat × Nat) := fun l => l.reverse

end RnaVerif.SecStr.Impl

import RnaVerif.Model.PairUtil
import RnaVerif.Generated.Geometry
/-!
# M5 — `clashfinder.find_clashes` and the report of `clashfinder.main` in exact rational arithmetic

`find_clashes`: atoms whose (stripped) name starts with one of the `AtomType` letters, of all
residues (or of the nucleotides only), in file order, go into a KD-tree; every index pair `i < j`
within `factor · max radius + mp` is passed through the option filters, the distance test
`d ≤ r_i + r_j + mp` (here `d² ≤ (r_i + r_j + mp)²`) and the occupancy test.

`main`: clashes grouped by (chain, chain) and (residue, residue) with running maxima, printed, and
written as CSV rows.  The report is a function of the clash list *in the order `find_clashes`
returned it* (a Python `set` order the model does not predict) — theorems quantify over every order.

Domain restriction: atom names carry no leading white space (the readers strip them), so
`name[0]` is the type letter.
-/
namespace RnaVerif.Clash
open RnaVerif

structure CAtom where
  /-- position among all atoms of the structure (file order) -/
  idx : Nat
  /-- index of the residue the atom belongs to -/
  res : Nat
  chain : String
  /-- `str(residue)` -/
  resName : String
  /-- `residue.is_nucleotide` (computed by the real code, an input here) -/
  nucleotide : Bool
  name : String
  pos : V3 Rat
  occ : Option Rat

structure Opts where
  ignoreOccupancy : Bool
  ignoreAutoclashes : Bool
  nucleicAcidOnly : Bool
  requireSameAtomName : Bool
  molprobity : Bool
deriving DecidableEq, Repr

/-- `AtomType.matches` for some member: the stripped name starts with its letter -/
def typed (name : String) : Bool :=
  Gen.clashRadii.any (fun p => p.1.toList.isPrefixOf name.trimAscii.toString.toList)

/-- `AtomType[name[0]].radius` -/
def radius (name : String) : Rat :=
  (Gen.clashRadii.lookup (String.ofList (name.toList.take 1))).getD 0

def maxRadius : Rat :=
  match Gen.clashRadii.map (·.2) with
  | [] => 0
  | r :: rs => rs.foldl max r

def mp (o : Opts) : Rat := if o.molprobity then Gen.molprobityOn else Gen.molprobityOff

/-- radius handed to `KDTree.query_pairs` -/
def queryRadius (o : Opts) : Rat := Gen.kdQueryFactor * maxRadius + mp o

/-- `atom.occupancy or 1.0` as written in the source (see `Gen.occZeroIsMissing`) -/
def effOcc : Option Rat → Rat
  | none => Gen.occDefault
  | some v => if Gen.occZeroIsMissing && v == 0 then Gen.occDefault else v

def absR (x : Rat) : Rat := if x < 0 then -x else x

/-- `math.isclose(a, b)` -/
def isclose (a b : Rat) : Bool :=
  absR (a - b) ≤ max (Gen.iscloseRelTol * max (absR a) (absR b)) Gen.iscloseAbsTol

structure Clash where
  a : CAtom
  b : CAtom
  /-- the "occupancy sum" reported with the clash -/
  occ : Rat

def margin : Rat := 1 / 1000000

/-- edge of the grid cells used to skip far pairs cheaply: a little more than the query radius -/
def cellSize (o : Opts) : Rat := queryRadius o + margin

/-- an atom in the KD-tree together with its van-der-Waals radius and its grid cell
`⌊x / cell⌋, ⌊y / cell⌋, ⌊z / cell⌋` (small integers: comparing them is much cheaper than exact
rational arithmetic on the coordinates) -/
structure RAtom where
  atom : CAtom
  r : Rat
  cx : Int
  cy : Int
  cz : Int

def mkR (o : Opts) (a : CAtom) : RAtom :=
  ⟨a, radius a.name, (a.pos.x / cellSize o).floor, (a.pos.y / cellSize o).floor, (a.pos.z / cellSize o).floor⟩

def eligible (o : Opts) (a : CAtom) : Bool := (!o.nucleicAcidOnly || a.nucleotide) && typed a.name

/-- atoms put into the KD-tree -/
def refs (o : Opts) (atoms : List CAtom) : List RAtom := (atoms.filter (eligible o)).map (mkR o)

/-- two cells apart along some axis: farther apart than the cell edge, hence than any radius sum -/
def cellFar (a b : RAtom) : Bool :=
  decide (1 < a.cx - b.cx) || decide (1 < b.cx - a.cx) ||
  decide (1 < a.cy - b.cy) || decide (1 < b.cy - a.cy) ||
  decide (1 < a.cz - b.cz) || decide (1 < b.cz - a.cz)

/-- literal reading of "occupancy": a missing value counts as full occupancy, nothing else is changed -/
def specOcc : Option Rat → Rat
  | none => 1
  | some v => v

/-- body of the loop over `query_pairs` for `a` listed before `b`; `q2` = squared query radius;
`occ` = how an atom's occupancy is read (`effOcc` for the code, `specOcc` for the statement).
The first line is only a shortcut (cells two apart ⇒ distance above the query radius), it never
changes the result (`Lemmas/Clash.lean: cellFar_sound`). -/
def test (occ : Option Rat → Rat) (o : Opts) (q2 : Rat) (a b : RAtom) : Option Clash :=
  if cellFar a b then none
  else if q2 < V3.dist2 a.atom.pos b.atom.pos then none            -- not returned by the KD-tree
  else if o.ignoreAutoclashes && a.atom.res == b.atom.res then none
  else if o.requireSameAtomName && a.atom.name != b.atom.name then none
  else if sq (a.r + b.r + mp o) < V3.dist2 a.atom.pos b.atom.pos then none
  else
    let s := occ a.atom.occ + occ b.atom.occ
    if o.ignoreOccupancy || isclose s 1 then some ⟨a.atom, b.atom, s⟩ else none

/-- the double loop `for i < j`, fused (no intermediate list of pairs) -/
def scan (occ : Option Rat → Rat) (o : Opts) (q2 : Rat) : List RAtom → List Clash
  | [] => []
  | a :: l => l.filterMap (test occ o q2 a) ++ scan occ o q2 l

def clashesWith (occ : Option Rat → Rat) (o : Opts) (atoms : List CAtom) : List Clash :=
  scan occ o (sq (queryRadius o)) (refs o atoms)

/-- the model of `find_clashes` -/
def clashes (o : Opts) (atoms : List CAtom) : List Clash := clashesWith effOcc o atoms

/-- the same with the literal reading of the occupancies -/
def clashesSpec (o : Opts) (atoms : List CAtom) : List Clash := clashesWith specOcc o atoms

/-- `d` within the margin of `R` (in squared form; `R ≥ margin`) -/
def nearR (d2 R : Rat) : Bool := sq (R - margin) < d2 && d2 ≤ sq (R + margin)

/-- pairs whose distance is within 1e-6 Å of a threshold the code compares it with, or whose
occupancy sum is within 1e-12 of the `isclose` boundary: floating point may decide them either way -/
def undecidedPair (o : Opts) (qm2 : Rat) (a b : RAtom) : Bool :=
  if cellFar a b then false else
  let d2 := V3.dist2 a.atom.pos b.atom.pos
  nearR d2 (a.r + b.r + mp o) || nearR d2 (queryRadius o) ||
  (decide (d2 ≤ qm2) &&
   let s := effOcc a.atom.occ + effOcc b.atom.occ
   let t := max (Gen.iscloseRelTol * max (absR s) 1) Gen.iscloseAbsTol
   !o.ignoreOccupancy && absR (absR (s - 1) - t) ≤ 1 / 1000000000000)

def undecidedFrom (o : Opts) (qm2 : Rat) : List RAtom → List (RAtom × RAtom)
  | [] => []
  | a :: l => (l.filter (undecidedPair o qm2 a)).map (fun b => (a, b)) ++ undecidedFrom o qm2 l

def undecided (o : Opts) (atoms : List CAtom) : List (RAtom × RAtom) :=
  undecidedFrom o (sq (queryRadius o + margin)) (refs o atoms)

/-! ## report of `main` -/

/-- value left in a `max_occupancy_…` dictionary under one key after the updates
`d[k] = max([src.get(k, 0.0), occupancy])` for the occupancy sums `occs` of that key, in order;
`own` says whether `src` is the dictionary being written (otherwise the lookup always misses) -/
def finalMax (own : Bool) (occs : List Rat) : Rat :=
  occs.foldl (fun cur o => max (if own then cur else 0) o) 0

def chainKey (c : Clash) : String × String := (c.a.chain, c.b.chain)
def resKey (c : Clash) : Nat × Nat := (c.a.res, c.b.res)

structure ResGroup where
  ri : Nat
  rj : Nat
  riName : String
  rjName : String
  /-- printed "maximum occupancy sum" of the residue pair -/
  maxOcc : Rat
  atoms : List Clash

structure ChainGroup where
  ci : String
  cj : String
  /-- printed "maximum occupancy sum" of the chain pair -/
  maxOcc : Rat
  groups : List ResGroup

def chainLe (a b : String × String) : Bool := a.1 < b.1 || (a.1 == b.1 && decide (a.2 ≤ b.2))

def resGroups (sub : List Clash) : List ResGroup :=
  (dedupKeys (sub.map resKey)).map (fun rk =>
    let sub2 := sub.filter (fun c => resKey c == rk)
    ⟨rk.1, rk.2, (sub2.head?.map (·.a.resName)).getD "", (sub2.head?.map (·.b.resName)).getD "",
     finalMax Gen.residueMaxReadsOwnDict (sub2.map (·.occ)), sub2⟩)

/-- what `main` prints, for the clash list `cl` in the order `find_clashes` returned it -/
def report (cl : List Clash) : List ChainGroup :=
  ((dedupKeys (cl.map chainKey)).mergeSort chainLe).map (fun ck =>
    let sub := cl.filter (fun c => chainKey c == ck)
    ⟨ck.1, ck.2, finalMax Gen.chainMaxReadsOwnDict (sub.map (·.occ)), resGroups sub⟩)

/-- clashes in the order of the CSV rows -/
def csvClashes (cl : List Clash) : List Clash :=
  (report cl).flatMap (fun cg => cg.groups.flatMap (·.atoms))

structure CsvRow where
  atom1 : String
  atom2 : String
  occ : Rat
deriving DecidableEq

def csvRow (c : Clash) : CsvRow := ⟨c.a.resName ++ " " ++ c.a.name, c.b.resName ++ " " ++ c.b.name, c.occ⟩

def csvRows (cl : List Clash) : List CsvRow := (csvClashes cl).map csvRow

end RnaVerif.Clash

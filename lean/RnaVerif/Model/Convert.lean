import RnaVerif.Model.Levels
/-!
# M1 — `BpSeq.dot_bracket` / `convert_to_dot_bracket` with the solver as a parameter (C13)

The solver is an external program; the model takes what it *did* as an argument:
* `solverPresent = false` — `convert_to_dot_bracket(None)` (no MILP back-end available),
* `Outcome.raises` — `problem.solve` raised `PulpSolverError`,
* `Outcome.notOptimal` — it returned with a status other than `LpStatusOptimal`,
* `Outcome.optimal ones` — status optimal, `ones` = the variables with value 1 as (region, order)
  in the order of `problem.variables()`.
How each fall-back is *written* in the source (`self.fcfs` vs `self.fcfs()`, with `fcfs` a
cached property or a method) is regenerated from the source (`Gen.fcfsIsProperty`,
`Gen.fallbackCalls`): calling a cached property's value raises `TypeError`.
-/
namespace RnaVerif.SecStr

inductive Outcome where
  | raises
  | notOptimal
  | optimal (ones : List (Nat × Nat))
deriving Repr

/-- value of the `k`-th fall-back expression -/
def fallback (es : List Entry) (k : Nat) : Except Err (List Char) :=
  let isCall := Gen.fallbackCalls.getD k false
  if Gen.fcfsIsProperty then
    (if isCall then (match fcfs es with | .ok _ => .error .typeError | .error e => .error e) else fcfs es)
  else
    (if isCall then fcfs es else .error .other)

def noEdges (c : ConfPred) (regs : List Region) : Bool :=
  (List.range regs.length).all (fun v => degree (adjOf c regs) regs.length v == 0)

def convert (es : List Entry) (solverPresent : Bool) (o : Outcome) : Except Err (List Char) :=
  if !solverPresent then fallback es 0
  else
    let regs := regions es
    if noEdges Gen.conflictConvert regs then mkDB es.length regs (regs.map (fun _ => 0))
    else match o with
      | .raises => fallback es 1
      | .notOptimal => fallback es 2
      | .optimal ones => mkDB es.length regs (readBack regs.length ones)

end RnaVerif.SecStr

import RnaVerif.Model.SecStr
/-!
# M1 — structural elements (`BpSeq.elements`), import-free and executable.

The model follows the Python code step by step: stems from `__stems_entries`, the
stop set, the 5'/3' tails, hairpin / loop-candidate classification of consecutive
stop intervals, the successor relation `pair(last) = first` between candidates,
chain following, the closing test and the "all strands short" filter, left-overs as
single strands.  `db` is the structure line of `self.dot_bracket` (it only feeds the
`structure` text of the strands).
-/
namespace RnaVerif.SecStr

structure Strand where
  first : Nat
  last : Nat
  seq : List Char
  str : List Char
deriving DecidableEq, Repr, Inhabited

/-- `Strand.from_bpseq_entries(entries, dotbracket)` (non-reversed) -/
def strandOf (ents : List Entry) (db : List Char) : Strand :=
  let first := (ents.headD default).idx
  let last := first + ents.length - 1
  ⟨first, last, ents.map (·.ch), (db.drop (first - 1)).take (last - (first - 1))⟩

structure StemEl where
  s5 : Strand
  s3 : Strand
deriving DecidableEq, Repr

/-- `Stem.from_bpseq_entries` -/
def stemOf (s5 : List Entry) (all : List Entry) (db : List Char) : StemEl :=
  let paired := s5.map (·.pair)
  let s3 := all.filter (fun e => paired.contains e.idx)
  ⟨strandOf s5 db, strandOf s3 db⟩

inductive SSKind where | five | three | plain | both
deriving DecidableEq, Repr

structure Elements where
  stems : List StemEl
  singles : List (Strand × SSKind)
  hairpins : List Strand
  loops : List (List Strand)
deriving Repr

def insertSorted (x : Nat) : List Nat → List Nat
  | [] => [x]
  | y :: ys => if x < y then x :: y :: ys else if x = y then y :: ys else y :: insertSorted x ys

/-- `sorted(set(l))` -/
def sortDedup (l : List Nat) : List Nat := l.foldr insertSorted []

def slice {α} (l : List α) (a b : Nat) : List α := (l.drop a).take (b - a)

/-- consecutive pairs of a list -/
def consec {α} : List α → List (α × α)
  | a :: b :: rest => (a, b) :: consec (b :: rest)
  | _ => []

/-- follow the successor relation from candidate `cur`, never revisiting `used` or the chain -/
def followChain (cands : List Strand) (succ : Nat → List Nat) (used : List Strand) :
    Nat → Nat → List Strand → List Strand
  | 0, _, chain => chain
  | fuel + 1, cur, chain =>
    match (succ cur).find? (fun j =>
        let c := cands.getD j default
        !used.contains c && !chain.contains c) with
    | some j => followChain cands succ used fuel j (chain ++ [cands.getD j default])
    | none => chain

def elements (es : List Entry) (db : List Char) : Elements :=
  let groups := stemsEntries es
  if groups.isEmpty then
    (if es.isEmpty then ⟨[], [], [], []⟩ else ⟨[], [(strandOf es db, .both)], [], []⟩) else
  let stems := groups.map (fun g => stemOf g es db)
  let stops := sortDedup (stems.flatMap (fun s => [s.s5.first - 1, s.s5.last - 1, s.s3.first - 1, s.s3.last - 1]))
  let s0 := stops.headD 0
  let sN := stops.getLastD 0
  let five : List (Strand × SSKind) :=
    if s0 > 0 then [(strandOf (es.take (s0 + 1)) db, .five)] else []
  let three : List (Strand × SSKind) :=
    if sN + 1 < es.length then [(strandOf (es.drop sN) db, .three)] else []
  -- classify consecutive stop intervals
  let cls := (consec stops).filterMap (fun (a, b) =>
    let cand := slice es a (b + 1)
    let interior := (cand.drop 1).dropLast
    if interior.all (fun e => e.pair == 0) then
      if (cand.headD default).pair == (cand.getLastD default).idx then some (true, strandOf cand db)
      else some (false, strandOf cand db)
    else none)
  let hairpins := (cls.filter (·.1)).map (·.2)
  let cands := (cls.filter (fun c => !c.1)).map (·.2)
  let n := cands.length
  let pairAt (pos : Nat) : Nat := (es.getD (pos - 1) default).pair
  let succ (i : Nat) : List Nat :=
    let ci := cands.getD i default
    (List.range n).filter (fun j => j != i && pairAt ci.last == (cands.getD j default).first)
  -- chain following over all start indices, with the growing `used` set
  let (loops, used) := (List.range n).foldl (fun (acc : List (List Strand) × List Strand) i =>
      let (loops, used) := acc
      let chain := followChain cands succ used n i [cands.getD i default]
      let f := chain.headD default
      let l := chain.getLastD default
      if pairAt f.first == l.last then
        if !(chain.all (fun s => s.last - s.first ≤ 1)) then (loops ++ [chain], used ++ chain)
        else (loops, used)
      else (loops, used)) ([], [])
  let left := (cands.filter (fun c => !used.contains c)).map (fun c => (c, SSKind.plain))
  ⟨stems, five ++ three ++ left, hairpins, loops⟩

/-! descriptions (`__str__` of the element classes) -/

def strandText (s : Strand) : String :=
  s!"{s.first} {s.last} {String.ofList s.seq} {String.ofList s.str}"

def Elements.describe (e : Elements) : List String :=
  e.stems.map (fun s => s!"Stem {strandText s.s5} {strandText s.s3}") ++
  e.singles.map (fun (s, k) =>
    match k with
    | .five => s!"SingleStrand5p {strandText s}"
    | .both => s!"SingleStrand5p {strandText s}"
    | .three => s!"SingleStrand3p {strandText s}"
    | .plain => s!"SingleStrand {strandText s}") ++
  e.hairpins.map (fun s => s!"Hairpin {strandText s}") ++
  e.loops.map (fun l => "Loop " ++ " ".intercalate (l.map strandText))

end RnaVerif.SecStr

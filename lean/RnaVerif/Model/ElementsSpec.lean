import RnaVerif.Model.Elements
/-!
# C07 — decidable specification of "structural elements decompose the structure consistently"

Evaluated (through the driver) on the element lists the REAL code returns, and the subject of
the C07 theorems when applied to the model's own `elements`.  Elements are given by numbers only
(1-based first/last of each strand); the text part of the property is `strandTextOk`.
-/
namespace RnaVerif.SecStr

structure ElemNums where
  /-- (5' first, 5' last, 3' first, 3' last) -/
  stems : List (Nat × Nat × Nat × Nat)
  /-- (first, last, kind) kind 5 = 5' tail, 3 = 3' tail, 0 = plain, 53 = both tails (no base pairs) -/
  singles : List (Nat × Nat × Nat)
  hairpins : List (Nat × Nat)
  loops : List (List (Nat × Nat))
deriving Repr

def Elements.nums (e : Elements) : ElemNums :=
  { stems := e.stems.map (fun s => (s.s5.first, s.s5.last, s.s3.first, s.s3.last)),
    singles := e.singles.map (fun (s, k) => (s.first, s.last, match k with | .five => 5 | .three => 3 | .plain => 0 | .both => 53)),
    hairpins := e.hairpins.map (fun s => (s.first, s.last)),
    loops := e.loops.map (fun l => l.map (fun s => (s.first, s.last))) }

def unpairedBetween (es : List Entry) (a b : Nat) : Bool :=
  (List.range (b - a - 1)).all (fun t => partnerOf es (a + 1 + t) == 0)

/-- stems: mirrored strands of directly stacked pairs, partition of the 5'→3' pairs, maximal -/
def specStems (es : List Entry) (el : ElemNums) : Bool :=
  el.stems.all (fun (f5, l5, f3, l3) =>
    decide (f5 ≤ l5) && decide (f3 ≤ l3) && l5 - f5 == l3 - f3 && decide (l5 < f3) &&
    (List.range (l5 - f5 + 1)).all (fun t => partnerOf es (f5 + t) == l3 - t && partnerOf es (l3 - t) == f5 + t)) &&
  (paired5to3 es).all (fun e =>
    (el.stems.filter (fun (f5, l5, _, l3) => decide (f5 ≤ e.idx) && decide (e.idx ≤ l5) && e.pair == l3 - (e.idx - f5))).length == 1) &&
  el.stems.all (fun (_, l5, f3, _) => el.stems.all (fun (f5', _, _, l3') => !(f5' == l5 + 1 && l3' + 1 == f3)))

/-- hairpins are exactly the pairs enclosing only unpaired nucleotides -/
def specHairpins (es : List Entry) (el : ElemNums) : Bool :=
  el.hairpins.all (fun (i, j) => decide (i < j) && partnerOf es i == j && unpairedBetween es i j) &&
  (paired5to3 es).all (fun e => !(unpairedBetween es e.idx e.pair) || el.hairpins.contains (e.idx, e.pair)) &&
  (el.hairpins.all (fun h => el.hairpins.count h == 1))

def consecPairs {α} : List α → List (α × α)
  | a :: b :: rest => (a, b) :: consecPairs (b :: rest)
  | _ => []

/-- loops: ≥ 2 strands, consecutive ends base-paired, closed, interiors unpaired -/
def specLoops (es : List Entry) (el : ElemNums) : Bool :=
  el.loops.all (fun l =>
    decide (2 ≤ l.length) &&
    l.all (fun (f, t) => decide (f < t) && unpairedBetween es f t) &&
    (consecPairs l).all (fun (a, b) => partnerOf es a.2 == b.1) &&
    (match l.head?, l.getLast? with
     | some a, some b => partnerOf es a.1 == b.2
     | _, _ => false))

/-- interiors of the strands that carry unpaired nucleotides: [lo, hi] inclusive ranges -/
def interiors (el : ElemNums) : List (Nat × Nat) :=
  el.singles.map (fun (f, l, k) => if k == 53 then (f, l) else if k == 5 then (f, l - 1) else if k == 3 then (f + 1, l) else (f + 1, l - 1)) ++
  el.hairpins.map (fun (f, l) => (f + 1, l - 1)) ++
  el.loops.flatten.map (fun (f, l) => (f + 1, l - 1))

/-- every unpaired nucleotide lies in the interior of exactly one single strand, hairpin or loop strand -/
def specCover (es : List Entry) (el : ElemNums) : Bool :=
  let ints := interiors el
  es.all (fun e => e.pair != 0 ||
    (ints.filter (fun (lo, hi) => decide (lo ≤ e.idx) && decide (e.idx ≤ hi))).length == 1)

def specAll (es : List Entry) (el : ElemNums) : String :=
  if !specStems es el then "fail:stems"
  else if !specHairpins es el then "fail:hairpins"
  else if !specLoops es el then "fail:loops"
  else if !specCover es el then "fail:cover"
  else "ok"

end RnaVerif.SecStr

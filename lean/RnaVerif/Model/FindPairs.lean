import RnaVerif.Model.Pairs
/-!
# The complete loop of `annotator.find_pairs` as a function of the structure (core Lean only) — C03 / C05 / C11

Since /repo commit f72e0ea the hydrogen-bond candidates are processed in `sorted(kdtree.query_pairs(r))` order, i.e. in
ascending order of the point index pairs `(i, j)`, `i < j`.  Point indices are fixed by the structure: residues in
`structure.residues` order (those of the requested model), inside a residue the names of
`dict.fromkeys(acceptors + donors)` for which `find_atom` succeeds.  So `find_pairs` is a deterministic function of
the structure and is modelled here *functionally*, statement by statement:

* `points`      the KD-tree points with their global indices;
* `canonList`   the three dictionaries keyed by the coordinate tuple `(x, y, z)`: two points with identical coordinates
                collide and the later one overwrites atom / type / residue for BOTH indices, so every look-up by
                `coordinates[i]` yields the LAST point with the coordinates of point `i` ("canonical index");
* `candsFrom`   all index pairs `i < j` with `d ≤ HYDROGEN_BOND_MAX_DISTANCE`, ascending, three-valued (`distTri`);
* `step`        the loop body: type test, same-residue skips, base-phosphate branch, base-ribose branch (both
                `continue` whether or not a class was found), base-base angle test;
                `used_atoms` is a set of `Atom` values; the atoms that reach it come out of the coordinate-keyed
                dictionary, so two of them are equal (dataclass equality over entity/label/auth/model/name/x/y/z/
                occupancy) exactly when their coordinates are equal, i.e. when their canonical indices are equal:
                the set is modelled as a list of canonical point indices;
* `findPairs`   labels (edge look-up, `detect_cis_trans`, orientation by `residue_i < residue_j`),
                `Counter.most_common()` order, greedy edge occupation, `sorted(base_base_pairs)`, Saenger look-up;
                `merge_and_clean_bph_br(sorted(...))` with the dictionary insertion order of the result.

Residues are identified by their position in `structure.residues`.  This mirrors Python's identity of `Residue3D`
values under two shape conditions that the model reports in `Output.wf` (inputs outside are not compared):
the sort keys `(model, chain, number, icode)` of the residues of the analysed model are pairwise different (then
`sorted` on tuples of residues is the lexicographic order of ranks, and no two residues are equal as values).

`Output.und` is raised when any quantity used on the executed path lies inside its undecided band (1e-6 Å on the
candidate distances, the cosine band on the two normal angles, the torsion band of BPh/BR classes and of cis/trans).
-/
namespace RnaVerif.FindPairs
open RnaVerif RnaVerif.Pairs

/-! ## points -/

/-- one point handed to the KD-tree: residue (position in the structure), atom name, coordinates -/
structure Point where
  ri : Nat
  name : String
  pos : Q3
deriving Repr, DecidableEq

/-- `if model is not None and residue.model != model: continue` -/
def inModel (model : Option Int) (r : Res) : Bool :=
  match model with
  | none => true
  | some m => r.model == m

/-- the points of one residue: `for atom_name in dict.fromkeys(acceptors + donors): atom = find_atom(...)` -/
def resPoints (P : Params) (i : Nat) (r : Res) : List Point :=
  (codePointNames P r.base).filterMap (fun n => (findAtom r n).map (fun p => ⟨i, n, p⟩))

/-- `coordinates`, in order; the index of a point is its position in this list -/
def points (P : Params) (model : Option Int) (s : Array Res) : List Point :=
  (List.range s.size).flatMap (fun i =>
    match s[i]? with
    | some r => if inModel model r then resPoints P i r else []
    | none => [])

/-! ## the coordinate-keyed dictionaries -/

/-- index of the last point (counting from `k`) whose coordinates are `x`; `acc` when there is none -/
def lastIdxFrom (x : Q3) : Nat → List Point → Nat → Nat
  | _, [], acc => acc
  | k, p :: ps, acc => lastIdxFrom x (k + 1) ps (if p.pos == x then k else acc)

/-- for every point index the index whose atom / type / residue the dictionaries return for `coordinates[i]` -/
def canonList (pts : List Point) : List Nat := pts.map (fun p => lastIdxFrom p.pos 0 pts 0)

/-- the look-up the source performs: `keyed = true` — through the coordinate tuple (`canonList`); `keyed = false` — by
point index (every point is its own atom).  The switch is regenerated from the source by a live probe
(`Gen.Ann.pointsKeyedByCoordinates`); every theorem about the loop is proved for both values. -/
def canonOf (keyed : Bool) (pts : List Point) : List Nat := if keyed then canonList pts else List.range pts.length

/-! ## candidates: `sorted(kdtree.query_pairs(HYDROGEN_BOND_MAX_DISTANCE))` -/

/-- the squared difference `d2` of one coordinate already exceeds both ends of the distance band -/
def farAxis (P : Params) (d : Rat) : Bool :=
  let lo := P.maxDist - tol
  let hi := P.maxDist + tol
  d * d > hi * hi && d * d > lo * lo

/-- `distTri` on the squared distance of two points, with a shortcut that saves most of the exact arithmetic: points
further apart than the band along x or along y are answered `no` without computing the distance
(`Lemmas/FindPairs.lean: distTriPt_eq` proves this is `distTri P (V3.dist2 p q)`) -/
def distTriPt (P : Params) (p q : Q3) : Tri :=
  if farAxis P (p.x - q.x) then .no
  else if farAxis P (p.y - q.y) then .no
  else distTri P (V3.dist2 p q)

def candRow (P : Params) (i : Nat) (p : Q3) : Nat → List Point → List (Nat × Nat × Tri)
  | _, [] => []
  | j, q :: qs =>
    match distTriPt P p q.pos with
    | .no => candRow P i p (j + 1) qs
    | t => (i, j, t) :: candRow P i p (j + 1) qs

/-- index pairs `i < j` whose distance is `yes` or `undecided`, in ascending `(i, j)` order -/
def candsFrom (P : Params) : Nat → List Point → List (Nat × Nat × Tri)
  | _, [] => []
  | i, p :: ps => candRow P i p.pos (i + 1) ps ++ candsFrom P (i + 1) ps

/-! ## loop state -/

/-- `hydrogen_bonds.append((atom_i, atom_j, residue_i, residue_j))` -/
structure HB where
  ri : Nat
  ni : String
  rj : Nat
  nj : String
deriving Repr, DecidableEq

/-- one consumed donor → oxygen contact: `base_phosphate_pairs.append(...)` (`phos`) or
`base_ribose_pairs.append(...)`, together with the two canonical point indices put into `used_atoms` -/
structure Rec where
  phos : Bool
  ci : Nat
  cj : Nat
  d : Nat
  a : Nat
  dn : String
  an : String
  k : Nat
deriving Repr, DecidableEq

structure St where
  /-- `used_atoms`, as canonical point indices -/
  used : List Nat
  hb : List HB
  recs : List Rec
  und : Bool
  /-- candidates that entered the base-phosphate or base-ribose branch -/
  consumed : Nat
  /-- candidates that reached the base-base test -/
  fell : Nat
deriving Repr, DecidableEq

def St.init : St := ⟨[], [], [], false, 0, 0⟩

/-- `base_phosphate_pairs` / `base_ribose_pairs` -/
def St.triples (st : St) (phos : Bool) : List (Nat × Nat × Nat) :=
  (st.recs.filter (fun r => r.phos == phos)).map (fun r => (r.d, r.a, r.k))

/-! ## loop body -/

/-- inside `if (name in …ACCEPTORS) and atom_i not in used_atoms and atom_j not in used_atoms:` up to `continue` -/
def consume (P : Params) (st : St) (phos : Bool) (ci cj : Nat) (d : Point) (rd : Res) (ac : Point) : St :=
  let st := { st with consumed := st.consumed + 1 }
  match bphClasses P rd d.name d.pos ac.pos with
  | [] => st
  | [k] => { st with used := cj :: ci :: st.used, recs := st.recs ++ [⟨phos, ci, cj, d.ri, ac.ri, d.name, ac.name, k⟩] }
  | k :: _ :: _ =>
    { st with used := cj :: ci :: st.used, recs := st.recs ++ [⟨phos, ci, cj, d.ri, ac.ri, d.name, ac.name, k⟩], und := true }

/-- `# check for base-base contacts` -/
def baseBase (P : Params) (st : St) (a b : Point) (ra rb : Res) : St :=
  let st := { st with fell := st.fell + 1 }
  match normal P ra, normal P rb with
  | some ni, some nj =>
    let v := V3.sub a.pos b.pos
    match triAnd (angleTri P ni v) (angleTri P nj v) with
    | .yes => { st with hb := st.hb ++ [⟨a.ri, a.name, b.ri, b.name⟩] }
    | .undecided => { st with und := true }
    | .no => st
  | _, _ => st

/-- the body for the atoms / types / residues the dictionaries return (`ci`, `cj` canonical indices) -/
def body (P : Params) (st : St) (ci cj : Nat) (a b : Point) (ra rb : Res) : St :=
  let ka := kindOf P ra.base a.name
  let kb := kindOf P rb.base b.name
  if ka == kb then st
  else if sameResidue ra rb then st
  else
    let free := !st.used.contains ci && !st.used.contains cj
    if (P.phosphateAcceptors.contains a.name || P.phosphateAcceptors.contains b.name) && free then
      if ka == .donor then consume P st true ci cj a ra b else consume P st true ci cj b rb a
    else if (P.riboseAcceptors.contains a.name || P.riboseAcceptors.contains b.name) && free then
      if ka == .donor then consume P st false ci cj a ra b else consume P st false ci cj b rb a
    else baseBase P st a b ra rb

/-- one iteration of `for i, j in sorted(kdtree.query_pairs(...))` -/
def step (P : Params) (s : Array Res) (pts : List Point) (canon : List Nat) (st : St) (c : Nat × Nat × Tri) : St :=
  let st := if c.2.2 == .undecided then { st with und := true } else st
  match canon[c.1]? with
  | none => st
  | some ci =>
  match canon[c.2.1]? with
  | none => st
  | some cj =>
  match pts[ci]? with
  | none => st
  | some a =>
  match pts[cj]? with
  | none => st
  | some b =>
  match s[a.ri]? with
  | none => st
  | some ra =>
  match s[b.ri]? with
  | none => st
  | some rb => body P st ci cj a b ra rb

/-- the state after the loop -/
def loopOn (P : Params) (s : Array Res) (pts : List Point) (cands : List (Nat × Nat × Tri)) : St :=
  cands.foldl (step P s pts (canonOf Gen.Ann.pointsKeyedByCoordinates pts)) St.init

def loop (P : Params) (model : Option Int) (s : Array Res) : St :=
  loopOn P s (points P model s) (candsFrom P 0 (points P model s))

/-! ## after the loop -/

/-- a hydrogen bond both of whose atoms have an edge entry, as a contact of the relational model -/
def hbContact (P : Params) (s : Array Res) (h : HB) : Option Contact :=
  match s[h.ri]?, s[h.rj]? with
  | some ri, some rj =>
    match edgesOf P ri.base h.ni, edgesOf P rj.base h.nj with
    | some ea, some eb =>
      some ⟨h.ri, h.rj, h.ni, h.nj, ea, eb, .yes, sugarPhosphateName P h.ni || sugarPhosphateName P h.nj⟩
    | _, _ => none
  | _, _ => none

/-- `detect_cis_trans` is undecided for a hydrogen bond that reaches it -/
def contactUnd (P : Params) (s : Array Res) (c : Contact) : Bool :=
  match s[c.i]?, s[c.j]? with
  | some ri, some rj => cisTri P ri rj == some .undecided
  | _, _ => false

/-- the sort keys of the residues of the analysed model are pairwise different -/
def keysDistinct (model : Option Int) (s : Array Res) : Bool :=
  (List.range s.size).all (fun i => (List.range s.size).all (fun j =>
    match s[i]?, s[j]? with
    | some ri, some rj => i == j || !inModel model ri || !inModel model rj || resLt ri rj || resLt rj ri
    | _, _ => true))

/-- order of `sorted(base_phosphate_pairs)`: tuples (donor residue, acceptor residue, class) -/
def tripleLe (rank : Nat → Nat) (a b : Nat × Nat × Nat) : Bool :=
  rank a.1 < rank b.1 ||
    (rank a.1 == rank b.1 && (rank a.2.1 < rank b.2.1 || (rank a.2.1 == rank b.2.1 && a.2.2 ≤ b.2.2)))

/-- `merge_and_clean_bph_br(sorted(pairs))` followed by the two `for` loops that build the result list; `n` = number
of residues (the dictionary key (residue, residue) is coded as `d * n + a`) -/
def mergeOut (P : Params) (rank : Nat → Nat) (n : Nat) (l : List (Nat × Nat × Nat)) : List (Nat × Nat × Nat) :=
  (mergeClean P ((isort (tripleLe rank) l).map (fun t => (t.1 * n + t.2.1, t.2.2)))).flatMap
    (fun e => e.2.map (fun k => (e.1 / n, e.1 % n, k)))

/-- `detect_saenger` -/
def saengerOf (s : Array Res) (l : Label) : Option String :=
  match s[l.lo]?, s[l.hi]? with
  | some a, some b => Gen.saengerTable.lookup (a.base ++ b.base, l.lwName)
  | _, _ => none

structure Output where
  /-- `(nt1, nt2, lw, saenger)` in the order returned -/
  pairs : List (Nat × Nat × String × Option String)
  /-- `(nt1, nt2, class)` in the order returned -/
  bph : List (Nat × Nat × Nat)
  br : List (Nat × Nat × Nat)
  und : Bool
  wf : Bool
deriving Repr, DecidableEq

/-- the hydrogen bonds that reach `detect_cis_trans`, as contacts -/
def loopContacts (P : Params) (model : Option Int) (s : Array Res) : List Contact :=
  (loop P model s).hb.filterMap (hbContact P s)

def rankFn (s : Array Res) : Nat → Nat :=
  let ranks := (List.range s.size).map (rankOf s)
  fun i => ranks.getD i s.size

/-- everything after the loop, from the loop's final state -/
def output (P : Params) (model : Option Int) (s : Array Res) (st : St) : Output :=
  let cs := st.hb.filterMap (hbContact P s)
  let rank := rankFn s
  { pairs := (modelPairs P s cs).map (fun l => (l.lo, l.hi, l.lwName, saengerOf s l))
    bph := mergeOut P rank s.size (st.triples true)
    br := mergeOut P rank s.size (st.triples false)
    und := st.und || cs.any (contactUnd P s)
    wf := keysDistinct model s }

/-- `find_pairs(structure, model)` -/
def findPairs (P : Params) (model : Option Int) (s : Array Res) : Output :=
  output P model s (loop P model s)

end RnaVerif.FindPairs

import RnaVerif.Model.Pdb
import RnaVerif.Model.SecStr
/-!
# M7 — `can_write_pdb` / `fit_to_pdb` of `rnapolis.parser_v2` on abstract atom tables (core only, executable)

A table is the list of its rows seen through the 16 PDB fields (for a mmCIF-derived table: `id`,
`auth_asym_id`, `auth_seq_id`, `pdbx_PDB_ins_code`, … as `Gen.ParserV2.fitCifCols` / `cifReadCols` say).
The model mirrors the algorithm (fit test, the four refusals, chain / residue / serial renaming); the
pandas mechanics (dtypes, column renaming) are exercised by the correspondence check only.
-/
namespace RnaVerif.Fit
open RnaVerif RnaVerif.Pdb RnaVerif.Gen

inductive Format where
  | pdb | cif
  deriving DecidableEq, Repr, Inhabited

abbrev Table := List Atom

/-! ## first-seen order (`Series.unique()`, `drop_duplicates()`, `enumerate`) -/

def firstSeenAux {α} [DecidableEq α] (seen : List α) : List α → List α
  | [] => []
  | x :: xs => if x ∈ seen then firstSeenAux seen xs else x :: firstSeenAux (x :: seen) xs

/-- the distinct values of a list in order of first appearance -/
def firstSeen {α} [DecidableEq α] (l : List α) : List α := firstSeenAux [] l

/-- position of a value in the first-seen order (`{v: i for i, v in enumerate(unique)}`) -/
def firstSeenIndex {α} [DecidableEq α] (l : List α) (x : α) : Nat := (firstSeen l).idxOf x

/-! ## `can_write_pdb` -/

def rowFits (a : Atom) : Bool :=
  decide (a.serial ≤ (ParserV2.canWriteMaxSerial : Int)) &&
  decide (a.chain.length ≤ ParserV2.canWriteMaxChainLen) &&
  decide (a.resSeq ≤ (ParserV2.canWriteMaxResSeq : Int))

/-- the same three tests as the branch `format_type == "PDB"` makes them (columns `serial`, `chainID`, `resSeq`) -/
def rowFitsPdb (a : Atom) : Bool :=
  decide (a.serial ≤ (ParserV2.canWritePdbMaxSerial : Int)) &&
  decide (a.chain.length ≤ ParserV2.canWritePdbMaxChainLen) &&
  decide (a.resSeq ≤ (ParserV2.canWritePdbMaxResSeq : Int))

/-- `can_write_pdb`.  A mmCIF-derived table: an empty table fits; otherwise it fits iff the maxima of serial,
chain-id length and residue number do not exceed the limits.  A PDB-derived table: as the source has it
(`Gen.ParserV2.pdbAssumedToFit`, read off the source on every run) — either taken to fit without a look at it
(the code up to the fix: a PDB-derived table whose identifiers were edited, as `unifier.main` does, passed),
or tested against the same three limits (maxima over an empty column are NaN, so an empty table fits). -/
def canWritePdb : Format → Table → Bool
  | .pdb, t => if ParserV2.pdbAssumedToFit then true else t.all rowFitsPdb
  | .cif, t => t.isEmpty || t.all rowFits

/-! ## `fit_to_pdb` -/

def chainsOf (t : Table) : List Str := firstSeen (t.map (·.chain))

abbrev ResKey := Int × Str

def resKey (a : Atom) : ResKey := (a.resSeq, a.iCode)

/-- distinct (number, insertion code) of one chain in order of appearance -/
def residuesOf (t : Table) (c : Str) : List ResKey :=
  firstSeen ((t.filter (fun a => a.chain = c)).map resKey)

def maxResidues (t : Table) : Nat :=
  (chainsOf t).foldl (fun m c => max m (residuesOf t c).length) 0

/-- number of places where consecutive rows have different chain ids (one TER serial each) -/
def chainChanges : Table → Nat
  | a :: b :: rest => (if a.chain ≠ b.chain then 1 else 0) + chainChanges (b :: rest)
  | _ => 0

def newChain (chains : List Str) (c : Str) : Str :=
  [ParserV2.chainAlphabet.getD (chains.idxOf c) '?']

def newResSeq (resTable : List (Str × List ResKey)) (a : Atom) : Int :=
  (((resTable.lookup a.chain).getD []).idxOf (resKey a) : Nat) + 1

/-- chains and residues renamed, insertion codes cleared, everything else kept -/
def renameRows (t : Table) : Table :=
  let chains := chainsOf t
  let resTable := chains.map (fun c => (c, residuesOf t c))
  t.map (fun a => { a with chain := newChain chains a.chain, resSeq := newResSeq resTable a, iCode := [] })

/-- serial renumbering: +1 per atom and one more whenever the chain differs from the previous row -/
def serialsFrom : Option Str → Int → Table → List Int
  | _, _, [] => []
  | prev, cur, a :: rest =>
    let cur' := cur + (if prev.isSome ∧ prev ≠ some a.chain then 2 else 1)
    cur' :: serialsFrom (some a.chain) cur' rest

def setSerials (t : Table) (ss : List Int) : Table :=
  List.zipWith (fun a s => { a with serial := s }) t ss

def fitToPdb (fmt : Format) (t : Table) : Except Err Table :=
  if canWritePdb fmt t then .ok t
  else
    let chains := chainsOf t
    if t.length + chains.length > ParserV2.maxSerial then .error .valueError
    else if chains.length > ParserV2.chainAlphabet.length then .error .valueError
    else if maxResidues t > ParserV2.maxResSeq then .error .valueError
    else
      let renamed := renameRows t
      let ss := serialsFrom none 0 renamed
      if ss.any (fun s => decide (s > (ParserV2.maxSerial : Int))) then .error .valueError
      else .ok (setSerials renamed ss)

/-- the exact refusal condition -/
def refuses (fmt : Format) (t : Table) : Bool :=
  !canWritePdb fmt t &&
  (decide (t.length + (chainsOf t).length > ParserV2.maxSerial) ||
   decide ((chainsOf t).length > ParserV2.chainAlphabet.length) ||
   decide (maxResidues t > ParserV2.maxResSeq) ||
   decide (t.length + chainChanges t > ParserV2.maxSerial))

/-! ## the specification of C10 as a decidable predicate on (input table, returned table) -/

/-- the limits the statement names -/
def satisfiesLimits (t : Table) : Bool :=
  t.all (fun a => decide (a.serial ≤ 99999) && decide (a.chain.length = 1) && decide (a.resSeq ≤ 9999))

/-- all fields other than serial, chain, residue number, insertion code -/
def sameOtherFields (a b : Atom) : Bool :=
  a.record == b.record && a.name == b.name && a.altLoc == b.altLoc && a.resName == b.resName &&
  a.x == b.x && a.y == b.y && a.z == b.z && a.occ == b.occ && a.b == b.b &&
  a.element == b.element && a.charge == b.charge && a.model == b.model

/-- the pairs (old, new) describe a one-to-one map: distinct pairs have distinct firsts and distinct seconds -/
def oneToOne {α β} [DecidableEq α] [DecidableEq β] (ps : List (α × β)) : Bool :=
  let d := firstSeen ps
  (firstSeen (d.map (·.1))).length == d.length && (firstSeen (d.map (·.2))).length == d.length

def resId (a : Atom) : Str × Int × Str := (a.chain, a.resSeq, a.iCode)

def specCheck (fmt : Format) (t t' : Table) : String :=
  if canWritePdb fmt t then (if t' = t then "ok" else "fail:not-identity-on-fitting-table")
  else if t'.length ≠ t.length then "fail:row-count"
  else if !satisfiesLimits t' then "fail:limits"
  else if !(List.zipWith sameOtherFields t t').all id then "fail:other-fields"
  else if !oneToOne (List.zip (t.map (·.chain)) (t'.map (·.chain))) then "fail:chain-map"
  else if !oneToOne (List.zip (t.map resId) (t'.map resId)) then "fail:residue-map"
  else "ok"

end RnaVerif.Fit

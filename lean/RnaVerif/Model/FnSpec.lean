import RnaVerif.Model.Pairs
import RnaVerif.Model.Mapping
import RnaVerif.Model.Labels
import RnaVerif.Model.Clash
import RnaVerif.Model.Pdb
import RnaVerif.Generated.Functions
/-!
# Right-hand sides of the bridge theorems about regenerated functions (import-free, executable)

For every function `Gen.Fn.f` that tools/py2lean.py regenerates from the source, `Props/C<xx>Fn.lean` proves
`Gen.Fn.f args = <model side>`.  The model sides — the hand-written model function, the table lookup or the
specification the property theorems are about — are collected here as executable definitions, so that

* the theorems can state them, and
* the driver (`Driver/FnOps.lean`, ops `fns.*`) can evaluate them on the same wire-encoded arguments as `fn.*`;
  `harness/corr/fn_common.py` compares the REAL function with both.  When a bridge theorem stops checking because
  the source function changed, this comparison produces the concrete argument on which the function left its model.

Definitions that read regenerated tables take them as parameters: the theorems instantiate them with `Gen.*`,
the driver with the values the properties pin (`Pairs.Params.spec`, -90/90, -30/120, 4/4).
-/
namespace RnaVerif.FnSpec
open RnaVerif RnaVerif.Gen.Fn

/-! ### C11 -/

/-- the key `(chain, number, icode or " ")` of a residue that has a chain and a number -/
def keyOf (r : Residue) : Option Pairs.RKey :=
  match residueChain r, residueNumber r with
  | some c, some n => some ⟨c, n, Py.orStr (residueIcode r) " "⟩
  | _, _ => none

def moleculeType (r : Residue) : Molecule :=
  match residueName r with
  | none => .Other
  | some n => if ["A", "C", "G", "U"].contains (Py.upper n) then .RNA
              else if ["DA", "DC", "DG", "DT"].contains (Py.upper n) then .DNA else .Other

/-- `lo < t < hi` on a finite-or-nan float -/
def between (lo hi : Rat) (t : Py.PyFloat) : Bool := Py.fLt (some lo) t && Py.fLt t (some hi)

/-- what a BPh/BR class TABLE says about a donor atom: no entry — no class; an entry without reference atoms — its
class; a torsion-dependent entry — the first class when the torsion (ref₁, ref₂, donor, acceptor) lies between the
bounds, the second otherwise, and no class when a reference atom is missing (the decision structure of the model's
`Pairs.bphClasses`) -/
def tableClass (P : Pairs.Params) (lo hi : Rat) (fa : String → Option Atom) (tors : Atom → Atom → Py.PyFloat)
    (base donor : String) : Option Int :=
  match Pairs.bphEntry P base donor with
  | none => none
  | some (r1, r2, cin, cout) =>
    if r1 == "" then some (cin : Int) else
    match fa r1, fa r2 with
    | some a1, some a2 => some (if between lo hi (tors a1 a2) then (cin : Int) else (cout : Int))
    | _, _ => none

/-- lookup of (two letters, class value) in a Saenger table, then the member of that name -/
def saengerOf (table : List ((String × String) × String)) (l1 l2 : String) (lw : LeontisWesthof) : Option Saenger :=
  (table.lookup (l1 ++ l2, lw.value)).bind Saenger.ofName?

/-! ### C03 -/

def glyco (letters purine other : String) (r : Residue3D) : String :=
  if Py.strIn r.one_letter_name letters then purine else other

/-- decision structure of `Pairs.cisTri` on the regenerated record types -/
def cisTrans (sugar letters purine other : String) (lo hi : Rat) (tors : Atom → Atom → Atom → Atom → Py.PyFloat)
    (deg : Py.PyFloat → Py.PyFloat) (ri rj : Residue3D) : Option String :=
  match findAtom ri sugar, findAtom rj sugar, findAtom ri (glyco letters purine other ri), findAtom rj (glyco letters purine other rj) with
  | some c1, some c2, some n1, some n2 => some (if between lo hi (deg (tors c1 n1 n2 c2)) then "c" else "t")
  | _, _, _, _ => none

/-- the pair-model residue with the sort fields of a `Residue3D` that has a chain and a number -/
def toRes (r : Residue3D) : Option Pairs.Res :=
  match residueChain r.toResidue, residueNumber r.toResidue with
  | some c, some n => some ⟨r.model, c, n, Py.orStr (residueIcode r.toResidue) " ", none, none, r.one_letter_name, []⟩
  | _, _ => none

/-- `min(1.0, max(-1.0, c))` as a plain case distinction; a nan is mapped to -1 (`max(-1.0, nan)` keeps -1.0) -/
def clamp (c : Py.PyFloat) : Rat :=
  match c with
  | none => -1
  | some q => if q < -1 then -1 else if 1 < q then 1 else q

/-! ### C06 -/

/-- position of an enum member in definition order: the index the Mapping model uses -/
def lwIdx (m : LeontisWesthof) : Nat := LeontisWesthof.all.idxOf m
def saIdx (s : Saenger) : Nat := Saenger.all.idxOf s

def modelNts (c1 c2 : Char) : List Mapping.Nt := [⟨[], 1, [], c1, true⟩, ⟨[], 2, [], c2, true⟩]
def modelPair (p : BasePair3D) : Mapping.BP := ⟨0, 1, lwIdx p.lw, p.saenger.map saIdx⟩

/-- first component of the sort key, as the model computes it from a regenerated rule `sc` -/
def modelScore (sc : Option Nat → Char → Char → Nat) (p : BasePair3D) (c1 c2 : Char) : Int :=
  ((sc (p.saenger.map saIdx) (Mapping.sortedLetters c1 c2).1 (Mapping.sortedLetters c1 c2).2 : Nat) : Int)

/-- the one ASCII character of a one-letter name -/
def asciiLetter (s : String) : Option Char :=
  match s.toList with
  | [c] => if c.toNat < 128 then some c else none
  | _ => none

/-! ### C18 -/

/-- syn iff `lo° < d < hi°` -/
def chiRule (lo hi d : Rat) : GlycosidicBond := if lo < d ∧ d < hi then .syn else .anti

/-! ### C17 -/

def clashClass (a b : String) : Option String :=
  if a = "O3'" ∧ b ∈ ["OP1", "OP2", "OP3", "O1P", "O2P", "O3P"] then some "O3'" else none

end RnaVerif.FnSpec

/-!
# M5 — exact geometry basics (import-free): 3-vectors over any type with ring operations.

Instantiated at `Rat` for execution (driver) and at `ℝ` / any commutative ring for theorems.
Shared file (owner: main session) — extend in your own files, do not edit.
-/
namespace RnaVerif

structure V3 (K : Type) where
  x : K
  y : K
  z : K
deriving DecidableEq, Repr

namespace V3
variable {K : Type}

def add [Add K] (a b : V3 K) : V3 K := ⟨a.x + b.x, a.y + b.y, a.z + b.z⟩
def sub [Sub K] (a b : V3 K) : V3 K := ⟨a.x - b.x, a.y - b.y, a.z - b.z⟩
def neg [Neg K] (a : V3 K) : V3 K := ⟨-a.x, -a.y, -a.z⟩
def smul [Mul K] (k : K) (a : V3 K) : V3 K := ⟨k * a.x, k * a.y, k * a.z⟩
def dot [Add K] [Mul K] (a b : V3 K) : K := a.x * b.x + a.y * b.y + a.z * b.z
def cross [Sub K] [Mul K] (a b : V3 K) : V3 K :=
  ⟨a.y * b.z - a.z * b.y, a.z * b.x - a.x * b.z, a.x * b.y - a.y * b.x⟩
/-- scalar triple product a · (b × c) -/
def triple [Add K] [Sub K] [Mul K] (a b c : V3 K) : K := dot a (cross b c)
def norm2 [Add K] [Mul K] (a : V3 K) : K := dot a a
def dist2 [Add K] [Sub K] [Mul K] (a b : V3 K) : K := norm2 (sub a b)

end V3

/-- 3×3 matrix as three rows -/
structure M3 (K : Type) where
  r1 : V3 K
  r2 : V3 K
  r3 : V3 K

namespace M3
variable {K : Type}
def apply [Add K] [Mul K] (m : M3 K) (v : V3 K) : V3 K := ⟨V3.dot m.r1 v, V3.dot m.r2 v, V3.dot m.r3 v⟩
def det [Add K] [Sub K] [Mul K] (m : M3 K) : K := V3.triple m.r1 m.r2 m.r3
/-- rows orthonormal: R Rᵀ = 1 (written with an explicit 0 and 1) -/
def Orthonormal [Add K] [Mul K] (one zero : K) (m : M3 K) : Prop :=
  V3.dot m.r1 m.r1 = one ∧ V3.dot m.r2 m.r2 = one ∧ V3.dot m.r3 m.r3 = one ∧
  V3.dot m.r1 m.r2 = zero ∧ V3.dot m.r1 m.r3 = zero ∧ V3.dot m.r2 m.r3 = zero
end M3

/-- three-valued answer of an exact decision against a threshold with an undecided band -/
inductive Tri where | yes | no | undecided
deriving DecidableEq, Repr

def Tri.toString : Tri → String
  | .yes => "yes" | .no => "no" | .undecided => "undecided"

end RnaVerif

import RnaVerif.Generated.Common
import RnaVerif.Generated.Adapter
import RnaVerif.Model.SecStr
/-!
# M-labels — the FR3D / DSSR import language of `rnapolis.adapter` (import-free, executable)

Mirrors, on ASCII input, what `/repo/src/rnapolis/adapter.py` *does*:
`unify_classification`, `parse_unit_id` (with CPython's `int()` on text), `_process_interaction_line`
(which exceptions are contained), `parse_fr3d_output` (line splitting, stripping, skipped lines,
routing to the five result lists), `Residue.full_name`, `match_dssr_name_to_residue`, `match_dssr_lw`,
`parse_dssr_output` (model selection, pairs, stacks).  Every literal the Python code takes from a
constant comes from `RnaVerif.Gen` (regenerated from the source on every run).
All text is handled as `List Char`; the `String` wrappers at the end are the public face.
-/
namespace RnaVerif.Labels

/-! ### Python text primitives (ASCII) -/

def asciiUpper : List Char :=
  ['A','B','C','D','E','F','G','H','I','J','K','L','M','N','O','P','Q','R','S','T','U','V','W','X','Y','Z']
def asciiLower : List Char :=
  ['a','b','c','d','e','f','g','h','i','j','k','l','m','n','o','p','q','r','s','t','u','v','w','x','y','z']
def asciiDigits : List Char := ['0','1','2','3','4','5','6','7','8','9']

/-- `str.lower()` on one ASCII character -/
def pyLower (c : Char) : Char := ((asciiUpper.zip asciiLower).lookup c).getD c
/-- `str.upper()` on one ASCII character -/
def pyUpper (c : Char) : Char := ((asciiLower.zip asciiUpper).lookup c).getD c
/-- `str.isdigit()` on one ASCII character -/
def pyIsDigit (c : Char) : Bool := asciiDigits.contains c
def digitVal (c : Char) : Nat := c.toNat - 48

/-- ASCII characters for which `str.isspace()` holds (what `str.strip()` removes) -/
def pySpaces : List Char :=
  [Char.ofNat 9, Char.ofNat 10, Char.ofNat 11, Char.ofNat 12, Char.ofNat 13,
   Char.ofNat 28, Char.ofNat 29, Char.ofNat 30, Char.ofNat 31, ' ']
/-- C `isspace`: what `int()` skips around an ASCII literal -/
def cSpaces : List Char :=
  [Char.ofNat 9, Char.ofNat 10, Char.ofNat 11, Char.ofNat 12, Char.ofNat 13, ' ']

def stripWith (sp : List Char) (cs : List Char) : List Char :=
  ((cs.dropWhile sp.contains).reverse.dropWhile sp.contains).reverse

/-- `str.strip()` -/
def pyStrip (cs : List Char) : List Char := stripWith pySpaces cs

/-- `str.isspace()` -/
def pyIsSpace (cs : List Char) : Bool := !cs.isEmpty && cs.all pySpaces.contains

/-- `str.split(sep)` for a one-character separator (never returns the empty list) -/
def splitBy (p : Char → Bool) : List Char → List (List Char)
  | [] => [[]]
  | c :: cs =>
    if p c then [] :: splitBy p cs
    else match splitBy p cs with
      | [] => [[c]]
      | f :: fs => (c :: f) :: fs

def splitOn (sep : Char) (cs : List Char) : List (List Char) := splitBy (· == sep) cs

/-- `l[i]`, raising IndexError -/
def getIdx {α} (l : List α) (i : Nat) : Except Err α :=
  match l[i]? with
  | some x => .ok x
  | none => .error .indexError

/-! ### CPython `int(text)` for ASCII text, base 10 -/

/-- digits with single underscores between digits; `prevUnderscore` = the previous character was `_` -/
def digitsGo : List Char → Nat → Bool → Option Nat
  | [], acc, prevU => if prevU then none else some acc
  | c :: cs, acc, prevU =>
    if c = '_' then (if prevU then none else digitsGo cs acc true)
    else if pyIsDigit c then digitsGo cs (acc * 10 + digitVal c) false
    else none

/-- the unsigned part: a digit first, then `digitsGo` -/
def pyNat (body : List Char) : Option Nat :=
  match body with
  | d :: r => if pyIsDigit d then digitsGo r (digitVal d) false else none
  | [] => none

def splitSign : List Char → Bool × List Char
  | '-' :: r => (true, r)
  | '+' :: r => (false, r)
  | r => (false, r)

/-- `int(s)`: optional surrounding C whitespace, optional sign, decimal digits with single underscores
between digits; more than `sys.get_int_max_str_digits()` digits is a ValueError too -/
def pyInt (cs : List Char) : Except Err Int :=
  let sb := splitSign (stripWith cSpaces cs)
  match pyNat sb.2 with
  | none => .error .valueError
  | some n =>
    if Gen.pyIntMaxStrDigits != 0 && decide ((sb.2.filter pyIsDigit).length > Gen.pyIntMaxStrDigits) then
      .error .valueError
    else .ok (if sb.1 then -(n : Int) else (n : Int))

/-! ### `unify_classification` -/

/-- result of `unify_classification`: category and the *name* of the enum member -/
inductive Category where
  | basePair (lw : String)
  | stacking (topology : String)
  | baseRibose (member : String)
  | basePhosphate (member : String)
  | other
deriving DecidableEq, Repr, Inhabited

/-- first component of the tuple returned by `unify_classification` -/
def Category.tag : Category → String
  | .basePair _ => "base-pair"
  | .stacking _ => "stacking"
  | .baseRibose _ => "base-ribose"
  | .basePhosphate _ => "base-phosphate"
  | .other => "other"

def Category.member : Category → String
  | .basePair m => m
  | .stacking m => m
  | .baseRibose m => m
  | .basePhosphate m => m
  | .other => ""

/-- `if name.startswith(prefix): name = name[1:]` -/
def stripPrefix (cs : List Char) : List Char :=
  if Gen.fr3dPrefix.toList.isPrefixOf cs then cs.drop Gen.fr3dPrefix.toList.length else cs

/-- `if len(name) >= 3 and name.endswith(suffix): name = name[:-1]` -/
def stripSuffix (cs : List Char) : List Char :=
  if decide (cs.length ≥ Gen.fr3dSuffixMinLen) && Gen.fr3dSuffix.toList.isSuffixOf cs then
    cs.take (cs.length - Gen.fr3dSuffix.toList.length)
  else cs

/-- `len(name) == len and name[1:] == tail and name[0].isdigit()`; when it fires the result is the
enum member `keyPrefix + name[0]`, or `none` for the contained KeyError -/
def backbone (len : Nat) (tail keyPrefix : String) (members : List (String × String))
    (cs : List Char) : Option (Option String) :=
  match cs with
  | [] => none
  | d :: rest =>
    if cs.length == len && rest == tail.toList && pyIsDigit d then
      let key := keyPrefix.toList ++ [d]
      some (if (members.map (·.1.toList)).contains key then some (String.ofList key) else none)
    else none

/-- the `s33 … s55` branch: `some topology` when one of the inner `if`s returns -/
def stackRule (cs : List Char) : Option String :=
  if cs.length == Gen.stackLen && Gen.stackHead.toList.isPrefixOf cs
      && (Gen.stackSecond.map String.toList).contains [cs.getD 1 ' ']
      && (Gen.stackThird.map String.toList).contains [cs.getD 2 ' '] then
    (Gen.stackMap.map (fun p => (p.1.toList, p.2))).lookup cs
  else none

/-- the `cWW` branch (orientation lower-cased, edges upper-cased, KeyError contained) -/
def lwRule (cs : List Char) : Category :=
  if cs.length == Gen.lwLen && (Gen.lwOrient.map String.toList).contains [pyLower (cs.getD 0 ' ')] then
    let name := [pyLower (cs.getD 0 ' '), pyUpper (cs.getD 1 ' '), pyUpper (cs.getD 2 ' ')]
    if (Gen.lwNames.map String.toList).contains name then .basePair (String.ofList name) else .other
  else .other

/-- the part of `unify_classification` after prefix/suffix removal -/
def coreL (cs : List Char) : Category :=
  match backbone Gen.brLen Gen.brTail Gen.brKeyPrefix Gen.brMembers cs with
  | some (some m) => .baseRibose m
  | some none => .other
  | none =>
    match backbone Gen.bphLen Gen.bphTail Gen.bphKeyPrefix Gen.bphMembers cs with
    | some (some m) => .basePhosphate m
    | some none => .other
    | none =>
      match stackRule cs with
      | some t => .stacking t
      | none => lwRule cs

def unifyL (cs : List Char) : Category := coreL (stripSuffix (stripPrefix cs))

/-! ### `parse_unit_id` -/

structure Residue where
  chain : String
  number : Int
  icode : Option String
  name : String
deriving DecidableEq, Repr, Inhabited

/-- `parse_unit_id` after the split, in Python's evaluation order (icode line first, then the
arguments of `ResidueAuth(fields[2], int(fields[4]), icode, fields[3])` left to right) -/
def unitOfFields (f : List (List Char)) : Except Err Residue :=
  match (if f.length ≥ Gen.unitIcodeMinLen then
          (match getIdx f Gen.unitIcodeIdx with
           | .ok x => .ok (if x ≠ [] then some (String.ofList x) else none)
           | .error e => .error e)
         else (.ok none : Except Err (Option String))) with
  | .error e => .error e
  | .ok icode =>
    match getIdx f Gen.unitChainIdx with
    | .error e => .error e
    | .ok chain =>
      match getIdx f Gen.unitNumberIdx with
      | .error e => .error e
      | .ok numRaw =>
        match pyInt numRaw with
        | .error e => .error e
        | .ok number =>
          match getIdx f Gen.unitNameIdx with
          | .error e => .error e
          | .ok name => .ok ⟨String.ofList chain, number, icode, String.ofList name⟩

def parseUnitIdL (cs : List Char) : Except Err Residue := unitOfFields (splitOn Gen.unitSep cs)

/-! ### `_process_interaction_line`, `parse_fr3d_output` -/

structure Interaction where
  nt1 : Residue
  nt2 : Residue
  cat : Category
deriving DecidableEq, Repr, Inhabited

inductive LineOutcome where
  | added (i : Interaction)   -- returned True, one interaction appended
  | skipped                   -- returned False (too few fields, or a contained exception)
  | raised (e : Err)          -- an exception escaped
deriving DecidableEq, Repr

/-- is the exception caught by the `except (…)` clause of the line processor? -/
def contained (e : Err) : Bool :=
  Gen.lineContained.contains e.toString || Gen.lineContained.contains "Exception"
    || Gen.lineContained.contains "BaseException"

/-- the body of the `try` after the length test: the three fields, then the two unit ids -/
def lineOfParts (parts : List (List Char)) : Except Err Interaction :=
  match getIdx parts Gen.lineNt1Idx with
  | .error e => .error e
  | .ok a =>
    match getIdx parts Gen.lineLabelIdx with
    | .error e => .error e
    | .ok l =>
      match getIdx parts Gen.lineNt2Idx with
      | .error e => .error e
      | .ok b =>
        match parseUnitIdL a with
        | .error e => .error e
        | .ok r1 =>
          match parseUnitIdL b with
          | .error e => .error e
          | .ok r2 => .ok ⟨r1, r2, unifyL l⟩

def outcomeOfParts (parts : List (List Char)) : LineOutcome :=
  if parts.length < Gen.lineMinParts then .skipped
  else match lineOfParts parts with
    | .ok i => .added i
    | .error e => if contained e then .skipped else .raised e

def processLineL (line : List Char) : LineOutcome := outcomeOfParts (splitOn Gen.lineSep line)

/-- the five result lists of `BaseInteractions` -/
structure Listing where
  basePairs : List Interaction := []
  stackings : List Interaction := []
  baseRibose : List Interaction := []
  basePhosphate : List Interaction := []
  other : List Interaction := []
deriving DecidableEq, Repr, Inhabited

/-- `BaseInteractions` field the category is routed to (live routing table) -/
def fieldOf (c : Category) : Option String := (Gen.fr3dRouting.lookup c.tag).map (·.1)

/-- append to the list the category is routed to; a category without a branch is dropped silently -/
def Listing.add (l : Listing) (i : Interaction) : Listing :=
  match fieldOf i.cat with
  | none => l
  | some f =>
    if f == "basePairs" then { l with basePairs := l.basePairs ++ [i] }
    else if f == "stackings" then { l with stackings := l.stackings ++ [i] }
    else if f == "baseRiboseInteractions" then { l with baseRibose := l.baseRibose ++ [i] }
    else if f == "basePhosphateInteractions" then { l with basePhosphate := l.basePhosphate ++ [i] }
    else if f == "otherInteractions" then { l with other := l.other ++ [i] }
    else l

def Listing.size (l : Listing) : Nat :=
  l.basePairs.length + l.stackings.length + l.baseRibose.length + l.basePhosphate.length + l.other.length

/-- text-mode iteration over the file: universal newlines (`\r\n`, `\r`, `\n`); an empty piece between
`\r` and `\n` is an empty line, which is skipped anyway -/
def fileLines (text : List Char) : List (List Char) :=
  splitBy (fun c => c == '\n' || c == '\r') text

/-- `line = line.strip(); if not line or line.startswith("#"): continue` -/
def keepLine (l : List Char) : Bool := !l.isEmpty && !(Gen.commentPrefix.toList.isPrefixOf l)

def stepLine (acc : Listing) (raw : List Char) : Except Err Listing :=
  let l := pyStrip raw
  if keepLine l then
    match processLineL l with
    | .added i => .ok (acc.add i)
    | .skipped => .ok acc
    | .raised e => .error e
  else .ok acc

def foldLines : List (List Char) → Listing → Except Err Listing
  | [], acc => .ok acc
  | l :: ls, acc =>
    match stepLine acc l with
    | .ok acc' => foldLines ls acc'
    | .error e => .error e

def parseListingL (text : List Char) : Except Err Listing := foldLines (fileLines text) {}

/-! ### DSSR -/

/-- `Residue.full_name` (auth branch) -/
def fullName (r : Residue) : String :=
  let b := if pyIsSpace r.chain.toList then r.name else r.chain ++ "." ++ r.name
  let b := if (match r.name.toList.getLast? with | some c => pyIsDigit c | none => false) then b ++ "/" else b
  let b := b ++ toString r.number
  match r.icode with
  | some i => if i ≠ "" then b ++ "^" ++ i else b
  | none => b

/-- `match_dssr_name_to_residue`: last `:`-segment, first residue with that full name -/
def resolve (st : List Residue) (nt : Option String) : Option Residue :=
  match nt with
  | none => none
  | some s =>
    let key := String.ofList ((splitOn Gen.dssrNameSep s.toList).getLastD [])
    st.find? (fun r => fullName r == key)

/-- `match_dssr_lw`: `LeontisWesthof[lw] if lw in <container> else None` -/
def matchLw (lw : Option String) : Except Err (Option String) :=
  match lw with
  | none => .ok none
  | some s =>
    if Gen.dssrLwAccepted.contains s then
      (if Gen.lwNames.contains s then .ok (some s) else .error .keyError)
    else .ok none

structure DssrPair where
  nt1 : Option String
  nt2 : Option String
  lw : Option String
deriving DecidableEq, Repr, Inhabited

structure DssrParams where
  pairs : List DssrPair := []
  /-- `nts_long` of every stack (`""` when the key is missing) -/
  stacks : List String := []
deriving DecidableEq, Repr, Inhabited

/-- the document as far as `parse_dssr_output` looks at it -/
structure DssrDoc where
  top : DssrParams
  /-- `none`: no `"models"` key; entries: (`"model"` number if any, `"parameters"`) -/
  models : Option (List (Option Int × DssrParams))
deriving Repr, Inhabited

def selectParams (doc : DssrDoc) (model : Option Int) : DssrParams :=
  match doc.models with
  | none => doc.top
  | some ms =>
    match model, ms with
    | none, m :: _ => m.2
    | none, [] => doc.top
    | some k, _ =>
      match ms.find? (fun m => m.1 == some k) with
      | some m => m.2
      | none => doc.top

abbrev PairOut := Residue × Residue × String
abbrev StackOut := Residue × Residue

def dssrPairs (st : List Residue) : List DssrPair → Except Err (List PairOut)
  | [] => .ok []
  | p :: ps =>
    match matchLw p.lw with
    | .error e => .error e
    | .ok lw =>
      match dssrPairs st ps with
      | .error e => .error e
      | .ok rest =>
        match resolve st p.nt1, resolve st p.nt2, lw with
        | some a, some b, some c => .ok ((a, b, c) :: rest)
        | _, _, _ => .ok rest

/-- `for i in range(1, len(nts))`: consecutive members, kept when both resolved -/
def consecutive : List (Option Residue) → List StackOut
  | a :: b :: rest =>
    match a, b with
    | some x, some y => (x, y) :: consecutive (b :: rest)
    | _, _ => consecutive (b :: rest)
  | _ => []

def stackMembers (st : List Residue) (ntsLong : String) : List (Option Residue) :=
  (splitOn Gen.dssrStackSep ntsLong.toList).map (fun n => resolve st (some (String.ofList n)))

def dssrStacks (st : List Residue) (stacks : List String) : List StackOut :=
  stacks.flatMap (fun s => consecutive (stackMembers st s))

def parseDssr (st : List Residue) (doc : DssrDoc) (model : Option Int) :
    Except Err (List PairOut × List StackOut) :=
  let p := selectParams doc model
  match dssrPairs st p.pairs with
  | .error e => .error e
  | .ok bp => .ok (bp, dssrStacks st p.stacks)

/-! ### public face on `String` -/

def unify (s : String) : Category := unifyL s.toList
def parseUnitId (s : String) : Except Err Residue := parseUnitIdL s.toList
def processLine (s : String) : LineOutcome := processLineL s.toList
def parseListing (s : String) : Except Err Listing := parseListingL s.toList

end RnaVerif.Labels

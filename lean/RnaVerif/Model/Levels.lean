import RnaVerif.Model.SecStr
/-!
# M1 — level assignments: conflict graph, greedy / Grundy colourings, `all_dot_brackets`,
the MILP of `convert_to_dot_bracket`, the score and an exact optimiser (import-free).
-/
namespace RnaVerif.SecStr

/-- adjacency of the conflict graph as the Python code builds it: for `u < v` the test is
`conf regions[u] regions[v]`, entered in both directions -/
def adjOf (c : ConfPred) (regs : List Region) (u v : Nat) : Bool :=
  match regs[u]?, regs[v]? with
  | some a, some b => if u < v then a.conf c b else if v < u then b.conf c a else false
  | _, _ => false

def edges (c : ConfPred) (regs : List Region) : List (Nat × Nat) :=
  (List.range regs.length).flatMap (fun u =>
    ((List.range regs.length).filter (fun v => decide (u < v) && adjOf c regs u v)).map (fun v => (u, v)))

def degree (adj : Nat → Nat → Bool) (n v : Nat) : Nat := ((List.range n).filter (fun u => adj u v)).length

def maxDegree (adj : Nat → Nat → Bool) (n : Nat) : Nat := ((List.range n).map (degree adj n)).foldl max 0

/-! ### mex and greedy colouring -/

def mexFrom (used : List Nat) : Nat → Nat → Nat
  | 0, c => c
  | fuel + 1, c => if c ∈ used then mexFrom used fuel (c + 1) else c

def mex (used : List Nat) : Nat := mexFrom used (used.length + 1) 0

def nbrCols (adj : Nat → Nat → Bool) (acc : List (Nat × Nat)) (v : Nat) : List Nat :=
  (acc.filter (fun p => adj p.1 v)).map (·.2)

def greedyAux (adj : Nat → Nat → Bool) : List Nat → List (Nat × Nat) → List (Nat × Nat)
  | [], acc => acc
  | v :: vs, acc => greedyAux adj vs (acc ++ [(v, mex (nbrCols adj acc v))])

/-- greedy colouring along the order `π`, as an association list in that order -/
def greedy (adj : Nat → Nat → Bool) (π : List Nat) : List (Nat × Nat) := greedyAux adj π []

def lookup (l : List (Nat × Nat)) (v : Nat) : Nat :=
  match l.find? (fun p => p.1 == v) with
  | some p => p.2
  | none => 0

/-! ### permutations -/

def insertAll {α} (x : α) : List α → List (List α)
  | [] => [[x]]
  | y :: ys => (x :: y :: ys) :: (insertAll x ys).map (y :: ·)

def perms {α} : List α → List (List α)
  | [] => [[]]
  | x :: xs => (perms xs).flatMap (insertAll x)

/-! ### components -/

def reach (adj : Nat → Nat → Bool) (verts : List Nat) : Nat → List Nat → List Nat
  | 0, cur => cur
  | fuel + 1, cur =>
    let next := verts.filter (fun w => !cur.contains w && cur.any (fun u => adj u w))
    if next.isEmpty then cur else reach adj verts fuel (cur ++ next)

def partsAux (adj : Nat → Nat → Bool) (verts : List Nat) : Nat → List Nat → List (List Nat)
  | 0, _ => []
  | _, [] => []
  | fuel + 1, v :: rest =>
    let comp := reach adj verts verts.length [v]
    comp :: partsAux adj verts fuel (rest.filter (fun w => !comp.contains w))

def noCrossEdges (adj : Nat → Nat → Bool) (parts : List (List Nat)) : Bool :=
  parts.all (fun p => parts.all (fun q => p == q || p.all (fun u => q.all (fun v => !adj u v))))

def isPartition (verts : List Nat) (parts : List (List Nat)) : Bool :=
  let fl := parts.flatten
  verts.all (fun v => fl.count v == 1) && fl.all (fun v => verts.contains v)

/-- groups of mutually (transitively) crossing stems; checked, with the one-part fall-back -/
def parts (adj : Nat → Nat → Bool) (n : Nat) : List (List Nat) :=
  let verts := (List.range n).filter (fun v => degree adj n v > 0)
  let ps := partsAux adj verts verts.length verts
  if noCrossEdges adj ps && isPartition verts ps then ps else (if verts.isEmpty then [] else [verts])

/-! ### all dot-brackets -/

def dedup {α} [BEq α] : List α → List α
  | [] => []
  | x :: xs => let r := dedup xs; if r.contains x then r else x :: r

/-- order-preserving (first occurrence kept) -/
def dedupFirst {α} [BEq α] (l : List α) : List α := (dedup l.reverse).reverse

/-- the distinct greedy assignments of one part, each as an assoc list in part order -/
def partAssignments (adj : Nat → Nat → Bool) (part : List Nat) : List (List (Nat × Nat)) :=
  dedupFirst ((perms part).map (fun π => let g := greedy adj π; part.map (fun v => (v, lookup g v))))

def product {α} : List (List α) → List (List α)
  | [] => [[]]
  | xs :: rest => xs.flatMap (fun x => (product rest).map (x :: ·))

def levelsOfAssignment (n : Nat) (a : List (List (Nat × Nat))) : List Nat :=
  let fl := a.flatten
  (List.range n).map (lookup fl)

/-- all level vectors enumerated by `all_dot_brackets` (distinct) -/
def allLevels (c : ConfPred) (regs : List Region) : List (List Nat) :=
  let n := regs.length
  let adj := adjOf c regs
  let ps := parts adj n
  dedupFirst ((product (ps.map (partAssignments adj))).map (levelsOfAssignment n))

/-- `BpSeq.all_dot_brackets` as a list of structure lines -/
def allDB (es : List Entry) : Except Err (List (List Char)) :=
  let regs := regions es
  let adj := adjOf Gen.conflictAll regs
  if (List.range regs.length).all (fun v => degree adj regs.length v == 0) then
    (fcfs es).map (fun s => [s])
  else
    (allLevels Gen.conflictAll regs).mapM (mkDB es.length regs) |>.map dedupFirst

/-! ### properness, Grundy, score -/

def proper (adj : Nat → Nat → Bool) (lv : List Nat) : Bool :=
  (List.range lv.length).all (fun u => (List.range lv.length).all (fun v =>
    !(adj u v) || lv.getD u 0 != lv.getD v 0))

/-- every stem sits on the lowest level not taken by a crossing stem of a lower level -/
def grundy (adj : Nat → Nat → Bool) (lv : List Nat) : Bool :=
  proper adj lv &&
  (List.range lv.length).all (fun v => (List.range (lv.getD v 0)).all (fun d =>
    (List.range lv.length).any (fun u => adj u v && lv.getD u 0 == d)))

/-- objective value of a level vector: Σ objCoeff(len, level) -/
def score (lens : List Nat) (lv : List Nat) : Int :=
  ((lens.zip lv).map (fun p => Gen.objCoeff (p.1 : Int) (p.2 : Int))).foldl (· + ·) 0

/-- what the property statement says the objective is -/
def scoreSpec (lens : List Nat) (lv : List Nat) : Int :=
  ((lens.zip lv).map (fun p => if p.2 = 0 then (p.1 : Int) else -((p.2 : Int) * (p.1 : Int)))).foldl (· + ·) 0

/-! ### the MILP of `convert_to_dot_bracket` -/

structure Milp where
  nRegions : Nat
  maxOrder : Nat
  /-- coefficient of x(region, order) -/
  obj : List ((Nat × Nat) × Int)
  /-- Σ_o x(i,o) = 1 -/
  oneLevel : List (List (Nat × Nat))
  /-- x(i,o) + x(j,o) ≤ 1, one per directed adjacency and order -/
  adjC : List ((Nat × Nat) × (Nat × Nat))
deriving Repr

/-- `none` = the early return (empty conflict graph, all levels zero, no solver call) -/
def milp (c : ConfPred) (regs : List Region) : Option Milp :=
  let n := regs.length
  let adj := adjOf c regs
  if (List.range n).all (fun v => degree adj n v == 0) then none else
  let mo := maxDegree adj n + Gen.maxOrderOffset
  some {
    nRegions := n, maxOrder := mo,
    obj := (List.range n).flatMap (fun i => (List.range mo).map (fun o =>
      ((i, o), Gen.objCoeff ((regs.getD i default).len : Int) (o : Int)))),
    oneLevel := (List.range n).map (fun i => (List.range mo).map (fun o => (i, o))),
    adjC := (List.range n).flatMap (fun i => ((List.range n).filter (adj i)).flatMap (fun j =>
      (List.range mo).map (fun o => ((i, o), (j, o)))))
  }

/-- read-back of a 0/1 solution given as the list of (region, order) with value 1,
in the order of `problem.variables()` (sorted by name); later entries overwrite earlier ones -/
def readBack (n : Nat) (ones : List (Nat × Nat)) : List Nat :=
  (List.range n).map (fun i => (ones.foldl (fun acc p => if p.1 = i then p.2 else acc) 0))

/-! ### exact optimum by branch and bound over proper assignments with levels < cap -/

def sumFrom (lens : List Nat) (k : Nat) : Int := ((lens.drop k).map (fun (x : Nat) => (x : Int))).foldl (· + ·) 0

/-- best achievable objective over proper assignments extending `pre` (levels of vertices
`0..pre.length-1`), levels `< cap` -/
def bbAux (adj : Nat → Nat → Bool) (lens : List Nat) (cap : Nat) :
    Nat → List Nat → Int → Option Int → Option Int
  | 0, _, cur, best => match best with
    | none => some cur
    | some b => some (if cur > b then cur else b)
  | fuel + 1, pre, cur, best =>
    let v := pre.length
    if v ≥ lens.length then
      (match best with | none => some cur | some b => some (if cur > b then cur else b))
    else
      -- optimistic bound: every remaining stem on level 0
      let bound := cur + sumFrom lens v
      match best with
      | some b => if bound ≤ b then best else
          (List.range cap).foldl (fun bst o =>
            if (List.range v).any (fun u => adj u v && pre.getD u 0 == o) then bst
            else bbAux adj lens cap fuel (pre ++ [o]) (cur + Gen.objCoeff ((lens.getD v 0 : Nat) : Int) (o : Int)) bst) best
      | none =>
          (List.range cap).foldl (fun bst o =>
            if (List.range v).any (fun u => adj u v && pre.getD u 0 == o) then bst
            else bbAux adj lens cap fuel (pre ++ [o]) (cur + Gen.objCoeff ((lens.getD v 0 : Nat) : Int) (o : Int)) bst) best

/-- exact optimum of the objective over all proper assignments with levels ≤ Δ -/
def optimum (c : ConfPred) (regs : List Region) : Option Int :=
  let n := regs.length
  let adj := adjOf c regs
  bbAux adj (regs.map (·.len)) (maxDegree adj n + 1) (n + 1) [] 0 none

end RnaVerif.SecStr

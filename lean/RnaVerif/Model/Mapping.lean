import RnaVerif.Model.SecStr
import RnaVerif.Generated.Mapping
/-!
# M2 — 3D → 2D mapping (`Mapping2D3D` of `/repo/src/rnapolis/tertiary.py`), import-free, executable

Abstract input: the nucleotides of the structure in file order (`Nt`: chain, number, insertion code,
one-letter name, `conn` = `is_connected(next nucleotide)`), and a list of pair records
`(res₁, res₂, lw, saenger?)` whose residues are nucleotide positions or dangling (`none`).
Residues are identified with their position (the harness only builds inputs where
`find_residue` is injective on nucleotides).  Everything the Python code takes from a literal comes
from `RnaVerif.Gen.map*` (regenerated on every run).

Mirrors what the code *does*: pair lifting with reverse duplication, canonical filter, the
conflict-resolution loop (fuelled), BPSEQ numbering with gap placeholders and last-write-wins
partner assignment, strand sequences (second copy of the gap rule), per-strand slicing, and the rows
of the extended dot-bracket with the row limit `Gen.mapExtRowLimit` of the present code.
-/
namespace RnaVerif.Mapping
open RnaVerif

structure Nt where
  chain : List Char
  number : Int
  /-- `[]` = no insertion code -/
  icode : List Char
  letter : Char
  /-- `self.is_connected(next nucleotide in file order)` -/
  conn : Bool
deriving DecidableEq, Repr, Inhabited

/-- `icode or " "` -/
def Nt.icodeKey (n : Nt) : List Char := if n.icode.isEmpty then [' '] else n.icode

/-- `Residue.__lt__`: `(chain, number, icode or " ")` compared as Python tuples -/
def ntLt (a b : Nt) : Bool :=
  if a.chain ≠ b.chain then decide (a.chain < b.chain)
  else if a.number ≠ b.number then decide (a.number < b.number)
  else decide (a.icodeKey < b.icodeKey)

/-- `is_connected` given the squared O3'…P distance (`none` = an atom is missing) -/
def isConnected (d2 : Option Rat) : Bool :=
  match d2 with
  | none => false
  | some d =>
    let t := Gen.mapConnFactor * Gen.mapConnOP
    if Gen.mapConnStrict then decide (d < t * t) else decide (d ≤ t * t)

/-- an input pair record; residues are nucleotide positions, `none` = not in the structure -/
structure PairIn where
  r1 : Option Nat
  r2 : Option Nat
  lw : Nat
  sa : Option Nat
deriving DecidableEq, Repr, Inhabited

/-- a lifted pair (`BasePair3D`) -/
structure BP where
  i : Nat
  j : Nat
  lw : Nat
  sa : Option Nat
deriving DecidableEq, Repr, Inhabited

def lwRev (lw : Nat) : Nat := Gen.mapLwRev.getD lw lw

/-- `BasePair3D.reverse` -/
def BP.rev (b : BP) : BP := ⟨b.j, b.i, lwRev b.lw, b.sa⟩

def BP.touches (b : BP) (r : Nat) : Bool := b.i == r || b.j == r

def BP.disjoint (a b : BP) : Bool := a.i != b.i && a.i != b.j && a.j != b.i && a.j != b.j

/-! ### lifting (`Mapping2D3D.base_pairs`) -/

def pushNew (acc : List BP) (b : BP) : List BP := if b ∈ acc then acc else acc ++ [b]

def liftStep (n : Nat) (acc : List BP) (p : PairIn) : List BP :=
  match p.r1, p.r2 with
  | some a, some b =>
    if a < n ∧ b < n then pushNew (pushNew acc ⟨a, b, p.lw, p.sa⟩) (BP.rev ⟨a, b, p.lw, p.sa⟩) else acc
  | _, _ => acc

/-- dedupe + reverse exactly as the loop with the `used` set -/
def liftPairs (n : Nat) (inp : List PairIn) : List BP := inp.foldl (liftStep n) []

/-! ### canonical filter -/

def ntAt (nts : List Nt) (k : Nat) : Nt := nts.getD k default

def sortedLetters (a b : Char) : Char × Char :=
  let x := a.toUpper
  let y := b.toUpper
  if x ≤ y then (x, y) else (y, x)

/-- `BasePair3D.is_canonical` -/
def isCanonical (nts : List Nt) (b : BP) : Bool :=
  match b.sa with
  | some s => Gen.mapSaengerCanonical.getD s false
  | none => Gen.mapCanonLw.contains b.lw &&
      Gen.mapCanonLetters.contains (sortedLetters (ntAt nts b.i).letter (ntAt nts b.j).letter)

/-- `base_pair.nt1 < base_pair.nt2` -/
def oriented (nts : List Nt) (b : BP) : Bool := ntLt (ntAt nts b.i) (ntAt nts b.j)

def canonicalPairs (nts : List Nt) (bps : List BP) : List BP :=
  bps.filter (fun b => isCanonical nts b && oriented nts b)

/-! ### conflict resolution (the `while True` loop of `_generated_bpseq_data`) -/

def group (cs : List BP) (r : Nat) : List BP := cs.filter (·.touches r)

/-- `matches.values()` in insertion order; the first residue with more than one pair -/
def conflictGroup (cs : List BP) : Option (List BP) :=
  (cs.flatMap (fun b => [b.i, b.j])).findSome? (fun r =>
    if 1 < (group cs r).length then some (group cs r) else none)

/-- one round with victim selection `pick`; fuel bounds the number of rounds -/
def resolveLoop (pick : List BP → BP) : Nat → List BP → List BP
  | 0, cs => cs
  | fuel + 1, cs =>
    match conflictGroup cs with
    | none => cs
    | some g => resolveLoop pick fuel (cs.erase (pick g))

def pairScore (nts : List Nt) (b : BP) : Nat :=
  let l := sortedLetters (ntAt nts b.i).letter (ntAt nts b.j).letter
  Gen.mapPairScore2 b.sa l.1 l.2

/-- Python tuple comparison of the sort keys `(score, nt1, nt2)` -/
def keyLt (nts : List Nt) (a b : BP) : Bool :=
  if pairScore nts a ≠ pairScore nts b then decide (pairScore nts a < pairScore nts b)
  else if a.i ≠ b.i then ntLt (ntAt nts a.i) (ntAt nts b.i)
  else if a.j ≠ b.j then ntLt (ntAt nts a.j) (ntAt nts b.j)
  else false

/-- `sorted(pairs, key=…)[-1]`: a maximal element (the last one in list order among equals; the
real code takes the last in *set* order — see `resolveTie`) -/
def victim (nts : List Nt) (g : List BP) : BP :=
  g.foldl (fun best y => if keyLt nts y best then best else y) (g.headD default)

def resolveConflicts (nts : List Nt) (cs : List BP) : List BP :=
  resolveLoop (victim nts) cs.length cs

/-- does some round meet two maximal candidates with equal keys (outcome then depends on the
iteration order of a Python `set`)? -/
def resolveTie (nts : List Nt) : Nat → List BP → Bool
  | 0, _ => false
  | fuel + 1, cs =>
    match conflictGroup cs with
    | none => false
    | some g =>
      let v := victim nts g
      (1 < (g.filter (fun y => !keyLt nts y v && !keyLt nts v y)).length) ||
        resolveTie nts fuel (cs.erase v)

/-! ### BPSEQ numbering with gap placeholders (`__generate_bpseq`) -/

structure Slot where
  /-- nucleotide position, `none` = placeholder -/
  res : Option Nat
  ch : Char
deriving DecidableEq, Repr, Inhabited

def gapSlot : Slot := ⟨none, Gen.mapGapCharBpseq⟩

def gapsBpseq (fg : Bool) (prev cur : Nt) : Nat :=
  if Gen.mapGapCondBpseq fg true prev.conn (prev.chain == cur.chain)
  then (Gen.mapGapCountBpseq prev.number cur.number).toNat else 0

def slotsAux (fg : Bool) : Option Nt → Nat → List Nt → List Slot
  | _, _, [] => []
  | prev, k, n :: rest =>
    (match prev with
      | none => []
      | some p => List.replicate (gapsBpseq fg p n) gapSlot) ++
    (⟨some k, n.letter⟩ :: slotsAux fg (some n) (k + 1) rest)

/-- `numbering`: the slots of the BPSEQ in order -/
def slots (fg : Bool) (nts : List Nt) : List Slot := slotsAux fg none 0 nts

/-- 0-based slot of nucleotide `k` (`residue_map`) -/
def posOf (sl : List Slot) (k : Nat) : Option Nat := sl.findIdx? (fun s => s.res == some k)

/-- the pairs as 1-based BPSEQ indices; pairs with a residue outside the map are skipped -/
def indexPairs (sl : List Slot) (ps : List (Nat × Nat)) : List (Nat × Nat) :=
  ps.filterMap (fun p =>
    match posOf sl p.1, posOf sl p.2 with
    | some a, some b => some (a + 1, b + 1)
    | _, _ => none)

/-- `result[j][2] = k; result[k][2] = j` in list order: the last write wins -/
def partner (ips : List (Nat × Nat)) (pos : Nat) : Nat :=
  ips.foldl (fun acc p => if p.1 = pos then p.2 else if p.2 = pos then p.1 else acc) 0

def entriesOf (sl : List Slot) (ips : List (Nat × Nat)) : List Entry :=
  (List.range sl.length).map (fun p => ⟨p + 1, (sl.getD p gapSlot).ch, partner ips (p + 1)⟩)

/-- `__generate_bpseq(base_pairs)` -/
def genBpseq (fg : Bool) (nts : List Nt) (ps : List (Nat × Nat)) : List Entry :=
  entriesOf (slots fg nts) (indexPairs (slots fg nts) ps)

def bpPairs (bs : List BP) : List (Nat × Nat) := bs.map (fun b => (b.i, b.j))

/-- the pairs that survive: canonical filter + conflict resolution -/
def keptPairs (nts : List Nt) (inp : List PairIn) : List BP :=
  resolveConflicts nts (canonicalPairs nts (liftPairs nts.length inp))

/-- `Mapping2D3D.bpseq` -/
def bpseq (fg : Bool) (nts : List Nt) (inp : List PairIn) : List Entry :=
  genBpseq fg nts (bpPairs (keptPairs nts inp))

/-! ### strands (`strands_sequences`, second copy of the gap rule) and slicing -/

def gapsStrands (fg : Bool) (prev cur : Nt) : Nat :=
  if Gen.mapGapCondStrands fg prev.conn (prev.chain == cur.chain)
  then (Gen.mapGapCountStrands prev.number cur.number).toNat else 0

/-- strands of the list `p :: rest` as `(chain, sequence)` -/
def strandsFrom (fg : Bool) : Nt → List Nt → List (List Char × List Char)
  | p, [] => [(p.chain, [p.letter])]
  | p, n :: rest =>
    if Gen.mapNewStrand (p.chain == n.chain) then (p.chain, [p.letter]) :: strandsFrom fg n rest
    else
      match strandsFrom fg n rest with
      | [] => [(p.chain, [p.letter])]
      | (_, s) :: more =>
        (p.chain, p.letter :: (List.replicate (gapsStrands fg p n) Gen.mapGapCharStrands ++ s)) :: more

def strandSequences (fg : Bool) (nts : List Nt) : List (List Char × List Char) :=
  match nts with
  | [] => []
  | p :: rest => strandsFrom fg p rest

/-- `__generate_dot_bracket_per_strand`: `dbn[i : i + len]`, `i += len` -/
def slices : List Nat → List Char → List (List Char)
  | [], _ => []
  | l :: ls, db => db.take l :: slices ls (db.drop l)

def strandLens (fg : Bool) (nts : List Nt) : List Nat := (strandSequences fg nts).map (·.2.length)

/-- the text of `dot_bracket` / one member of `all_dot_brackets` for a structure line -/
def dotBracketText (fg : Bool) (nts : List Nt) (db : List Char) : String :=
  let ss := strandSequences fg nts
  let ds := slices (strandLens fg nts) db
  "\n".intercalate ((ss.zip ds).flatMap (fun (s, d) =>
    [">strand_" ++ String.ofList s.1, String.ofList s.2, String.ofList d]))

/-! ### rows of the extended dot-bracket -/

/-- `base_pair.lw == lw and base_pair.nt1 < base_pair.nt2` over `self.base_pairs` -/
def classRecords (nts : List Nt) (bps : List BP) (lw : Nat) : List BP :=
  bps.filter (fun b => b.lw == lw && oriented nts b)

def disjointRow (r : BP) (row : List BP) : Bool := row.all (fun q => q.disjoint r)

def isLastRow (k : Option Nat) (t : Nat) : Bool := k == some (t + 1)

/-- put record `r` into the first row (from index `t`) that is either the overflow row (`k`-th) or
shares no residue with it; open a new row at the end -/
def place (k : Option Nat) (r : BP) : Nat → List (List BP) → List (List BP)
  | _, [] => [[r]]
  | t, row :: rest =>
    if isLastRow k t || disjointRow r row then (row ++ [r]) :: rest
    else row :: place k r (t + 1) rest

def allocRows (k : Option Nat) (recs : List BP) : List (List BP) :=
  recs.foldl (fun rows r => place k r 0 rows) []

def lwCount : Nat := Gen.mapLwNames.length

/-- the (class, row records) list in output order -/
def extRowRecords (k : Option Nat) (nts : List Nt) (bps : List BP) : List (Nat × List BP) :=
  (List.range lwCount).flatMap (fun lw => (allocRows k (classRecords nts bps lw)).map (fun row => (lw, row)))

/-- `extended_dot_bracket` up to the solver's level choice: class and BPSEQ of every row -/
def extRows (k : Option Nat) (fg : Bool) (nts : List Nt) (inp : List PairIn) : List (Nat × List Entry) :=
  (extRowRecords k nts (liftPairs nts.length inp)).map (fun (lw, row) => (lw, genBpseq fg nts (bpPairs row)))

/-! ### writer with Python's overwrite semantics (rows may carry a non-symmetric BPSEQ) -/

def setAt (l : List Char) (k : Nat) (c : Char) : List Char := l.set k c

/-- `__make_dot_bracket` structure line: positions are overwritten in region order -/
def writeDB (n : Nat) (regs : List Region) (lvs : List Nat) : List Char :=
  (regs.zip lvs).foldl (fun acc (r, lv) =>
    let br := Gen.encBrackets.getD lv ('?', '?')
    (List.range r.len).foldl (fun a t => setAt (setAt a (r.i - 1 + t) br.1) (r.j - 1 - t) br.2) acc)
    (List.replicate n '.')

/-- is `text` what `bpseq.dot_bracket.structure` can be for *some* level choice? -/
def matchesModuloLevels (es : List Entry) (text : List Char) : Bool :=
  let regs := SecStr.regions es
  let lv := regs.map (fun r => match SecStr.tokOfChar (text.getD (r.i - 1) '.') with
    | .op t => some t
    | _ => none)
  lv.all (·.isSome) && writeDB es.length regs (lv.map (·.getD 0)) == text

/-! ### specification predicates of C06, evaluated on outputs of the real code -/

/-- placeholders the property expects before nucleotide `k` (`k ≥ 1`): with gap detection, on the same
chain, not connected: the number jump minus one -/
def gapsSpec (fg : Bool) (nts : List Nt) (k : Nat) : Nat :=
  if k = 0 then 0 else
  let p := ntAt nts (k - 1)
  let c := ntAt nts k
  if fg && p.chain == c.chain && !p.conn then (c.number - p.number - 1).toNat else 0

/-- the numbering the property states: for each nucleotide in file order, its placeholders then itself -/
def slotsSpec (fg : Bool) (nts : List Nt) : List Slot :=
  (List.range nts.length).flatMap (fun k =>
    List.replicate (gapsSpec fg nts k) (⟨none, '?'⟩ : Slot) ++ [⟨some k, (ntAt nts k).letter⟩])

/-- distinct input pairs the property speaks about: both residues present, not a self pair, oriented
low → high (class reversed when swapped), exact duplicates removed -/
def orientRec (nts : List Nt) (p : PairIn) : Option BP :=
  match p.r1, p.r2 with
  | some a, some b =>
    if a < nts.length ∧ b < nts.length ∧ a ≠ b then
      let r : BP := ⟨a, b, p.lw, p.sa⟩
      if oriented nts r then some r else if oriented nts r.rev then some r.rev else none
    else none
  | _, _ => none

def distinctRecs (nts : List Nt) (inp : List PairIn) : List BP :=
  (inp.filterMap (orientRec nts)).foldl pushNew []

def normPair (a b : Nat) : Nat × Nat := if a ≤ b then (a, b) else (b, a)

def sortPairs (l : List (Nat × Nat)) : List (Nat × Nat) :=
  (l.toArray.qsort (fun a b => a.1 < b.1 || (a.1 == b.1 && a.2 < b.2))).toList

def countOf {α} [BEq α] (x : α) (l : List α) : Nat := (l.filter (· == x)).length

/-- BPSEQ clauses on real entries `es`: numbering, letters, symmetric, ≤ 1 partner, pairs ⊆ canonical
input pairs, unconflicted canonical pairs kept -/
def specBpseq (fg : Bool) (nts : List Nt) (inp : List PairIn) (es : List Entry) : String :=
  let sl := slotsSpec fg nts
  if es.length != sl.length then "fail:numbering:length" else
  if es.map (·.idx) != (List.range sl.length).map (· + 1) then "fail:numbering:index" else
  if es.map (·.ch) != sl.map (·.ch) then "fail:numbering:letters" else
  if !SecStr.valid es then "fail:matching" else
  let recs := (distinctRecs nts inp).filter (isCanonical nts)
  let pos (k : Nat) : Nat := ((posOf sl k).getD 0) + 1
  let want := recs.map (fun r => normPair (pos r.i) (pos r.j))
  let got := (SecStr.paired5to3 es).map (fun e => (e.idx, e.pair))
  if !(got.all (fun p => want.contains p)) then "fail:pair-not-canonical-input" else
  let lonely := recs.filter (fun r => recs.all (fun q => (q.i == r.i && q.j == r.j) || q.disjoint r))
  -- a canonical pair sharing no residue with any *other* canonical pair (records that differ only in
  -- class/Saenger on the same two residues are the same pair)
  if !(lonely.all (fun r => got.contains (normPair (pos r.i) (pos r.j)))) then "fail:unconflicted-dropped" else
  "ok"

/-- text clauses: strands concatenate to the BPSEQ sequence, structure lines concatenate to a
balanced line of the same length that decodes to exactly the BPSEQ's pairs -/
def specText (es : List Entry) (strands : List (List Char × List Char)) : String :=
  let seq := strands.flatMap (·.1)
  let db := strands.flatMap (·.2)
  if seq != SecStr.sequence es then "fail:text:sequence" else
  if strands.any (fun s => s.1.length != s.2.length) then "fail:text:strand-length" else
  match SecStr.decodeChars db with
  | none => "fail:text:unbalanced"
  | some st =>
    if !((List.range Gen.decOpening.length).all (fun t => (st.stacks t).isEmpty)) then "fail:text:unbalanced" else
    if sortPairs st.out != sortPairs (SecStr.pairs0 es) then "fail:text:pairs" else "ok"

/-- extended rows: `(class, concatenated text)`.  Every distinct input pair encoded under its class
(exactly once), nothing else encoded; every row balanced and as long as the sequence -/
def specExt (fg : Bool) (nts : List Nt) (inp : List PairIn) (rows : List (Nat × List Char)) : String :=
  let sl := slotsSpec fg nts
  let recs := distinctRecs nts inp
  let pos (k : Nat) : Nat := (posOf sl k).getD 0
  let want : List (Nat × Nat × Nat) := recs.map (fun r => (r.lw, normPair (pos r.i) (pos r.j)))
  let dec := rows.map (fun (lw, t) => (lw, t, SecStr.decodeChars t))
  let got : List (Nat × Nat × Nat) := dec.flatMap (fun (lw, _, d) =>
    match d with
    | some st => st.out.map (fun p => (lw, normPair p.1 p.2))
    | none => [])
  -- records that differ only in their Saenger class encode the same (class, residues) triple; the
  -- statement can be read as "once per record" or "once per triple": only what fails under both
  -- readings is reported (triple absent / present more often than there are records)
  match want.find? (fun w => countOf w got == 0) with
  | some w =>
    let triples := want.foldl (fun acc x => if acc.contains x then acc else acc ++ [x]) []
    let deg (r : Nat) : Nat := (triples.filter (fun x => x.1 == w.1 && (x.2.1 == r || x.2.2 == r))).length
    if 3 ≤ max (deg w.2.1) (deg w.2.2) then "fail:extended:pair-lost:degree>=3" else "fail:extended:pair-lost:degree<=2"
  | none =>
    if got.any (fun g => countOf g got > countOf g want) then "fail:extended:pair-invented" else
    if rows.any (fun r => r.2.length != sl.length) then "fail:extended:row-length" else
    if dec.any (fun (_, _, d) => match d with
        | none => true
        | some st => !((List.range Gen.decOpening.length).all (fun t => (st.stacks t).isEmpty)))
    then "fail:extended:row-unbalanced" else "ok"

end RnaVerif.Mapping

import RnaVerif.Model.Levels
/-!
# M1 — semantics of the MILP of `convert_to_dot_bracket` (import-free, executable)

What it means for a 0/1 assignment of the variables `x_i_o` to satisfy the constraints of a
`Milp`, the objective value of such an assignment, the levels read back from it, the encoding of
a level vector as an assignment, and the "push-down" of a level vector (greedy colouring along the
vertices sorted by their level).  Everything lives in `RnaVerif.SecStr.Poa` (POA = the name the
Python code gives the problem) so that it cannot clash with `Model/Levels.lean`.
-/
namespace RnaVerif.SecStr.Poa

/-- `x i o = true` : the variable `x_i_o` has value 1 -/
abbrev Assign := Nat → Nat → Bool

/-- the 0/1 assignment satisfies every constraint of the program: each `oneLevel` row has exactly
one variable at 1 (`Σ_o x(i,o) = 1`), and no `adjC` pair has both at 1 (`x(i,o) + x(j,o) ≤ 1`) -/
def feasible (m : Milp) (x : Assign) : Bool :=
  m.oneLevel.all (fun row => (row.filter (fun p => x p.1 p.2)).length == 1) &&
  m.adjC.all (fun c => !(x c.1.1 c.1.2 && x c.2.1 c.2.2))

/-- objective value `Σ coeff · x` -/
def objective (m : Milp) (x : Assign) : Int :=
  (m.obj.map (fun t => if x t.1.1 t.1.2 then t.2 else 0)).foldl (· + ·) 0

/-- what is assumed of the external solver: the returned 0/1 vector satisfies the constraints and
no vector satisfying them has a larger objective value -/
def Optimal (m : Milp) (x : Assign) : Prop :=
  feasible m x = true ∧ ∀ x' : Assign, feasible m x' = true → objective m x' ≤ objective m x

/-- the level of region `i` : the first `o < mo` with `x i o` (0 when there is none) -/
def levelOf (mo : Nat) (x : Assign) (i : Nat) : Nat := ((List.range mo).find? (x i)).getD 0

def levelsOf (m : Milp) (x : Assign) : List Nat :=
  (List.range m.nRegions).map (levelOf m.maxOrder x)

/-- the variables with value 1, region-major (any other enumeration order reads back the same) -/
def onesOf (m : Milp) (x : Assign) : List (Nat × Nat) :=
  (List.range m.nRegions).flatMap (fun i => ((List.range m.maxOrder).filter (x i)).map (fun o => (i, o)))

/-- level vector → 0/1 assignment -/
def encode (lv : List Nat) : Assign := fun i o => lv.getD i 0 == o

/-- the program of `milp`, for an arbitrary adjacency / length function / level bound -/
def milpG (adj : Nat → Nat → Bool) (len : Nat → Nat) (n mo : Nat) : Milp :=
  { nRegions := n, maxOrder := mo,
    obj := (List.range n).flatMap (fun i => (List.range mo).map (fun o =>
      ((i, o), Gen.objCoeff ((len i : Nat) : Int) (o : Int)))),
    oneLevel := (List.range n).map (fun i => (List.range mo).map (fun o => (i, o))),
    adjC := (List.range n).flatMap (fun i => ((List.range n).filter (adj i)).flatMap (fun j =>
      (List.range mo).map (fun o => ((i, o), (j, o))))) }

/-! ### push-down: greedy along the vertices sorted by level -/

def insBy (f : Nat → Nat) (x : Nat) : List Nat → List Nat
  | [] => [x]
  | y :: ys => if f x ≤ f y then x :: y :: ys else y :: insBy f x ys

/-- insertion sort by the key `f` -/
def sortBy (f : Nat → Nat) : List Nat → List Nat
  | [] => []
  | x :: xs => insBy f x (sortBy f xs)

def pushDown (adj : Nat → Nat → Bool) (a : List Nat) : List Nat :=
  (List.range a.length).map
    (lookup (greedy adj (sortBy (fun v => a.getD v 0) (List.range a.length))))

/-- all vectors of length `n` with entries `< k` -/
def vecs (k : Nat) : Nat → List (List Nat)
  | 0 => [[]]
  | n + 1 => (List.range k).flatMap (fun o => (vecs k n).map (o :: ·))

/-- first maximiser of `f` in a list -/
def argmax {α} (f : α → Int) : List α → Option α
  | [] => none
  | x :: xs => match argmax f xs with
    | none => some x
    | some y => if f y ≤ f x then some x else some y

end RnaVerif.SecStr.Poa

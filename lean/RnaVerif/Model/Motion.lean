import RnaVerif.Model.Pairs
import RnaVerif.Model.Stacking
import RnaVerif.Generated.Nucleotide
import RnaVerif.Generated.Mapping
/-!
# Presentation changes of a structure (core Lean only) — C05

* rigid motion `p ↦ R p + t` of every atom (`V3.move`, `Pairs.moveRes`, `Stacking.moveRes`);
  `M3.Proper` = rows orthonormal and determinant 1, `M3.Mirror` = rows orthonormal and determinant −1;
* another order of the atoms inside a residue (`withAtoms`, used with `List.Perm`);
* renaming of residue identities (`relabelRes`): chain / number / insertion code through a key map,
  the `label` / `auth` identities through string maps;
* the coordinate-dependent tests behind `Residue3D.is_nucleotide` and `Residue3D.is_connected`
  (`Connect`), which decide the strands and gaps of the derived secondary structure, as three-valued
  answers with the 1e-6 Å band;
* the index view of a stacking (`Stk.view`) in which presentations are compared.
-/
namespace RnaVerif

namespace M3
variable {K : Type}
/-- rows orthonormal (R Rᵀ = 1) and det R = 1: a rotation -/
def Proper (R : M3 Rat) : Prop := M3.Orthonormal (1 : Rat) 0 R ∧ M3.det R = 1
/-- rows orthonormal and det R = −1: a rotation composed with a reflection -/
def Mirror (R : M3 Rat) : Prop := M3.Orthonormal (1 : Rat) 0 R ∧ M3.det R = -1

def isOrthonormal (R : M3 Rat) : Bool :=
  V3.dot R.r1 R.r1 == 1 && V3.dot R.r2 R.r2 == 1 && V3.dot R.r3 R.r3 == 1 &&
  V3.dot R.r1 R.r2 == 0 && V3.dot R.r1 R.r3 == 0 && V3.dot R.r2 R.r3 == 0
/-- executable form of `Proper` -/
def isProper (R : M3 Rat) : Bool := isOrthonormal R && M3.det R == 1
def isMirror (R : M3 Rat) : Bool := isOrthonormal R && M3.det R == -1

def id3 : M3 Rat := ⟨⟨1, 0, 0⟩, ⟨0, 1, 0⟩, ⟨0, 0, 1⟩⟩
end M3

namespace V3
/-- the rigid motion `p ↦ R p + t` -/
def move {K : Type} [Add K] [Mul K] (R : M3 K) (t p : V3 K) : V3 K := V3.add (M3.apply R p) t
end V3

/-! ## `Pairs` residues -/
namespace Pairs

def moveAtom (R : M3 Rat) (t : Q3) (a : Atom) : Atom := ⟨a.name, V3.move R t a.pos⟩

def moveRes (R : M3 Rat) (t : Q3) (r : Res) : Res := { r with atoms := r.atoms.map (moveAtom R t) }

def moveStruct (R : M3 Rat) (t : Q3) (s : Array Res) : Array Res := s.map (moveRes R t)

/-- the same residue with its atoms listed differently -/
def withAtoms (r : Res) (as : List Atom) : Res := { r with atoms := as }

/-- a renaming of residue identities: `(chain, number, icode)` through `key`, the `label` and `auth`
identities through `lab` and `auth` -/
structure Relabel where
  key : String × Int × String → String × Int × String
  lab : String → String
  auth : String → String

def relabelRes (f : Relabel) (r : Res) : Res :=
  let k := f.key (r.chain, r.number, r.icode)
  { r with chain := k.1, number := k.2.1, icode := k.2.2, lab := r.lab.map f.lab, auth := r.auth.map f.auth }

def relabelStruct (f : Relabel) (s : Array Res) : Array Res := s.map (relabelRes f)

/-- atom names of a residue are pairwise different -/
def namesNodup (r : Res) : Bool := pairwiseB (fun a b : Atom => a.name != b.name) r.atoms

end Pairs

/-! ## `Stacking` residues -/
namespace Stacking

def moveAtom (R : M3 Rat) (t : V3 Rat) (a : Atom) : Atom := ⟨a.name, V3.move R t a.pos⟩

def moveRes (R : M3 Rat) (t : V3 Rat) (r : Res) : Res := { r with atoms := r.atoms.map (moveAtom R t) }

def withAtoms (r : Res) (as : List Atom) : Res := { r with atoms := as }

/-- renaming of `(chain, number, icode)`; the model number is kept -/
def relabelRes (f : String × Int × String → String × Int × String) (r : Res) : Res :=
  let k := f (r.chain, r.number, r.icode)
  { r with chain := k.1, number := k.2.1, icode := k.2.2 }

/-- what a rigid motion does to a prepared residue: the centroid moves, the normal turns -/
def movePrep (R : M3 Rat) (t : V3 Rat) (p : Prep) : Prep :=
  { p with c := V3.move R t p.c, n := p.n.map (M3.apply R) }

def moveStk (R : M3 Rat) (t : V3 Rat) (s : Stk) : Stk := ⟨movePrep R t s.r1, movePrep R t s.r2, s.topo⟩

/-- a prepared residue under another key -/
def rekeyPrep (K : Nat → Key) (p : Prep) : Prep := { p with key := K p.idx }

def rekeyStk (K : Nat → Key) (s : Stk) : Stk := ⟨rekeyPrep K s.r1, rekeyPrep K s.r2, s.topo⟩

/-- the observable part of a reported stacking: file positions of the two residues (first printed
first) and the topology label -/
def Stk.view (s : Stk) : Nat × Nat × Topology := (s.r1.idx, s.r2.idx, s.topo)

/-- … together with the residue keys -/
def Stk.keyView (s : Stk) : (Nat × Key) × (Nat × Key) × Topology := ((s.r1.idx, s.r1.key), (s.r2.idx, s.r2.key), s.topo)

end Stacking

/-! ## coordinate-dependent tests of the 3D → 2D mapping -/
namespace Connect
open Pairs

/-- `d ≤ thr` (`strict = false`) or `d < thr` (`strict = true`) on the squared distance, with the 1e-6 Å band -/
def cmpTri (thr d2 : Rat) : Tri :=
  let lo := thr - tol
  let hi := thr + tol
  if d2 ≤ lo * lo then .yes else if d2 > hi * hi then .no else .undecided

/-- the distance test between two named atoms of (possibly different) residues; `none` = an atom is missing -/
def atomsTri (thr : Rat) (r1 : Res) (n1 : String) (r2 : Res) (n2 : String) : Option Tri := do
  let p ← findAtom r1 n1; let q ← findAtom r2 n2
  some (cmpTri thr (V3.dist2 p q))

/-- the distance tests `is_nucleotide` may evaluate for its "connections" score (P–O5', C1'–N9, C1'–N1 in the
source) against `thr` (2.0 Å in the source) -/
def nuclTests (thr : Rat) (pairs : List (String × String)) (r : Res) : List Tri :=
  pairs.filterMap (fun p => atomsTri thr r p.1 r p.2)

/-- `previous.is_connected(next)`: O3'…P distance below `1.5 * 1.6` -/
def linkTri (thr : Rat) (atoms : String × String) (prev next : Res) : Option Tri :=
  atomsTri thr prev atoms.1 next atoms.2

/-- the undecided connectivity tests of a structure: per residue, and per ordered pair of residues (earlier, later)
— the code tests consecutive *nucleotides*, which need not be adjacent in the residue list; measuring every
ordered pair is a superset -/
def undecidedWith (thrNucl : Rat) (pairs : List (String × String)) (thrLink : Rat) (atoms : String × String)
    (s : List Res) : Nat :=
  let a := (s.flatMap (nuclTests thrNucl pairs)).filter (· == .undecided)
  let b := ((pairsUp s).filterMap (fun p => linkTri thrLink atoms p.1 p.2)).filter (· == .undecided)
  a.length + b.length

/-- … with the thresholds and atom names regenerated from the source -/
def undecided (s : List Res) : Nat :=
  undecidedWith Gen.nuclConnThreshold Gen.nuclConnPairs (Gen.mapConnFactor * Gen.mapConnOP) Gen.linkAtoms s

end Connect

end RnaVerif

import RnaVerif.Model.Levels
/-!
# Exact optimum of the pseudoknot-order objective, per group of crossing stems (C02 oracle)

Independent of the MILP and of the theorems: plain branch-and-bound over all proper assignments
of each part with levels `< cap`, summed over parts (the objective is additive and parts have no
cross edges), isolated stems on level 0.
-/
namespace RnaVerif.SecStr

def bestPart (adj : Nat → Nat → Bool) (len : Nat → Int) (cap : Nat) :
    List Nat → List (Nat × Nat) → Int → Option Int → Option Int
  | [], _, cur, best => some (match best with | none => cur | some b => if cur > b then cur else b)
  | v :: rest, asg, cur, best =>
    let bound := cur + (v :: rest).foldl (fun s u => s + len u) 0
    if (match best with | some b => decide (bound ≤ b) | none => false) then best else
    (List.range cap).foldl (fun bst o =>
      if asg.any (fun p => adj p.1 v && p.2 == o) then bst
      else bestPart adj len cap rest ((v, o) :: asg) (cur + Gen.objCoeff (len v) (o : Int)) bst) best

/-- maximum of the objective over all proper level assignments with levels ≤ Δ -/
def optimumParts (c : ConfPred) (regs : List Region) : Int :=
  let n := regs.length
  let adj := adjOf c regs
  let len (v : Nat) : Int := ((regs.getD v default).len : Int)
  let cap := maxDegree adj n + 1
  let ps := parts adj n
  let iso := (List.range n).filter (fun v => degree adj n v == 0)
  (ps.map (fun p => (bestPart adj len cap p [] 0 none).getD 0)).foldl (· + ·) 0 +
  (iso.map (fun v => Gen.objCoeff (len v) 0)).foldl (· + ·) 0

end RnaVerif.SecStr

import RnaVerif.Model.Geom
/-! Small list/Tri helpers shared by the stacking and clash models (core Lean only). -/
namespace RnaVerif

/-- all pairs (earlier, later) of a list — the index pairs `i < j` that `KDTree.query_pairs`
enumerates, before the distance cut -/
def pairsUp {α} : List α → List (α × α)
  | [] => []
  | a :: l => l.map (fun b => (a, b)) ++ pairsUp l

def enumFrom' {α} : Nat → List α → List (Nat × α)
  | _, [] => []
  | k, a :: l => (k, a) :: enumFrom' (k + 1) l

def sq (x : Rat) : Rat := x * x

def Tri.and3 : Tri → Tri → Tri
  | .no, _ => .no
  | _, .no => .no
  | .yes, .yes => .yes
  | _, _ => .undecided

def Tri.or3 : Tri → Tri → Tri
  | .yes, _ => .yes
  | _, .yes => .yes
  | .no, .no => .no
  | _, _ => .undecided

/-- first occurrences, in order (Python `dict` key insertion order) -/
abbrev dedupKeys {κ} [BEq κ] (l : List κ) : List κ := l.eraseDups

end RnaVerif

import RnaVerif.Model.Geom
import RnaVerif.Generated.Common
import RnaVerif.Generated.Annotator
import RnaVerif.Spec.PairsChemistry
/-!
# Decision layer of `annotator.find_pairs` in exact rational arithmetic (core Lean only)

What is modelled (C03, C11):

* the typed point set of a residue (`pointNames`, `kindOf`, `edgesOf`) from the generated chemistry tables;
* the contact predicate `hbondTri` (different residues, one donor / one acceptor, `d² ≤ 4²`, both
  normal angles in (50°,130°) ⇔ `(n·v)² < cos²50°·|n|²|v|²`) as a three-valued answer: the
  thresholds carry an "undecided" band (1e-6 Å on distances, 2e-8 on squared cosines ⊇ 1e-6°);
* `cisTri` (sign of `(v₁×v₂)·(v₂×v₃)` for C1'–N1/N9…N1/N9–C1');
* labels `(lower residue, higher residue, c/t, edge, edge)`, their multiset, and the code's
  most-common-first edge occupation `greedyOccupy` for an *arbitrary* processing order;
* the assembly stage (`assemble`: sort by residue, residue, LW);
* BPh/BR classification (`bphClasses`) and `mergeClean` (3∧5→4, 7∧9→8, first class kept);
* the executable specification predicates `specPairs` (C03) and `specBph`/`specWF` (C11) that the
  harness evaluates on the *real* output of `find_pairs` / `extract_base_interactions`.

The KD-tree, float geometry and the order-dependent consumption of phosphate/ribose contacts are not
modelled: the correspondence is relational (see DESIGN.md C03).
-/
namespace RnaVerif.Pairs
open RnaVerif

abbrev Q3 := V3 Rat

/-! ## residues -/

structure Atom where
  name : String
  pos : Q3
deriving Repr

/-- one `Residue3D`: sort key `(model, chain, number, icode or " ")`, the identities of its `label`
and `auth` (`none` = absent), `one_letter_name`, atoms in file order -/
structure Res where
  model : Int
  chain : String
  number : Int
  icode : String
  lab : Option String
  auth : Option String
  base : String
  atoms : List Atom
deriving Repr

/-- `Residue3D.find_atom`: first atom with that name -/
def findAtom (r : Res) (n : String) : Option Q3 := (r.atoms.find? (·.name == n)).map (·.pos)

/-- `Residue3D.__lt__` -/
def resLt (a b : Res) : Bool :=
  if a.model != b.model then a.model < b.model
  else if a.chain != b.chain then a.chain < b.chain
  else if a.number != b.number then a.number < b.number
  else a.icode < b.icode

/-- the same-residue skip of `find_pairs`: equal non-absent labels, or equal non-absent auths -/
def sameResidue (a b : Res) : Bool :=
  (a.lab.isSome && a.lab == b.lab) || (a.auth.isSome && a.auth == b.auth)

/-! ## parameters: tables and thresholds

Every function below takes the tables and thresholds as a record.  `Params.gen` holds the values
regenerated from the source on every run (what the code *does*); `Params.spec` holds the values the
property statements pin (Spec/PairsChemistry.lean).  The specification predicates are evaluated with
`Params.spec`, the functional comparisons with `Params.gen`; `Props.C03.params_bridge` proves the two equal,
so a changed table entry or threshold breaks that obligation *and* shows up as concrete failing inputs. -/

structure Params where
  baseDonors : List (String × List String)
  baseAcceptors : List (String × List String)
  phosphateAcceptors : List String
  riboseAcceptors : List String
  baseEdges : List (String × List (String × String))
  /-- `HYDROGEN_BOND_MAX_DISTANCE` -/
  maxDist : Rat
  /-- rational enclosures of cos² of the lower / upper end of `HYDROGEN_BOND_ANGLE_RANGE` -/
  encLo : Rat × Rat
  encHi : Rat × Rat
  /-- minimum number of hydrogen bonds of a reported pair -/
  minCount : Nat
  purineLetters : String
  glycoPurine : String
  glycoOther : String
  glycoSugar : String
  normalPurineLetters : String
  normalPurine : List String
  normalOther : List String
  bphTable : List (String × String × String × String × Nat × Nat)
  mergeRules : List (Nat × Nat × Nat)
  /-- the code inserts each atom of a residue once -/
  dedupPoints : Bool
deriving DecidableEq, Repr

def Params.gen : Params where
  baseDonors := Gen.Ann.baseDonors
  baseAcceptors := Gen.Ann.baseAcceptors
  phosphateAcceptors := Gen.Ann.phosphateAcceptors
  riboseAcceptors := Gen.Ann.riboseAcceptors
  baseEdges := Gen.Ann.baseEdges
  maxDist := Gen.Ann.hbondMaxDistance
  encLo := Gen.Ann.cosSqLoEnc
  encHi := Gen.Ann.cosSqHiEnc
  minCount := Gen.Ann.minHbondCount
  purineLetters := Gen.Ann.purineLetters
  glycoPurine := Gen.Ann.glycoPurine
  glycoOther := Gen.Ann.glycoOther
  glycoSugar := Gen.Ann.glycoSugar
  normalPurineLetters := Gen.Ann.normalPurineLetters
  normalPurine := Gen.Ann.normalPurine
  normalOther := Gen.Ann.normalOther
  bphTable := Gen.Ann.bphTable
  mergeRules := Gen.Ann.mergeRules
  dedupPoints := Gen.Ann.pointsDeduplicated

def Params.spec : Params where
  baseDonors := Spec.PairsChemistry.baseDonors
  baseAcceptors := Spec.PairsChemistry.baseAcceptors
  phosphateAcceptors := Spec.PairsChemistry.phosphateAcceptors
  riboseAcceptors := Spec.PairsChemistry.riboseAcceptors
  baseEdges := Spec.PairsChemistry.baseEdges
  maxDist := Spec.PairsChemistry.maxDist
  encLo := Spec.PairsChemistry.cosSq50
  encHi := Spec.PairsChemistry.cosSq50
  minCount := Spec.PairsChemistry.minCount
  purineLetters := Spec.PairsChemistry.purineLetters
  glycoPurine := Spec.PairsChemistry.glyco.2.1
  glycoOther := Spec.PairsChemistry.glyco.2.2
  glycoSugar := Spec.PairsChemistry.glyco.1
  normalPurineLetters := Spec.PairsChemistry.purineLetters
  normalPurine := Spec.PairsChemistry.normalPurine
  normalOther := Spec.PairsChemistry.normalOther
  bphTable := Spec.PairsChemistry.bphTable
  mergeRules := Spec.PairsChemistry.mergeRules
  dedupPoints := true

/-! ## chemistry tables -/

/-- order-preserving de-duplication (`dict.fromkeys`) -/
def dedup : List String → List String
  | [] => []
  | x :: xs => x :: (dedup xs).filter (· != x)

def acceptorsOf (P : Params) (base : String) : List String :=
  ((P.baseAcceptors.lookup base).getD []) ++ P.riboseAcceptors ++ P.phosphateAcceptors

def donorsOf (P : Params) (base : String) : List String := (P.baseDonors.lookup base).getD []

/-- the names `find_pairs` iterates for one residue, as written: `acceptors + donors` -/
def rawPointNames (P : Params) (base : String) : List String := acceptorsOf P base ++ donorsOf P base

/-- the names the code actually inserts into the KD-tree (one point per list element) -/
def codePointNames (P : Params) (base : String) : List String :=
  if P.dedupPoints then dedup (rawPointNames P base) else rawPointNames P base

/-- the distinct atoms of a residue that take part in contacts -/
def pointNames (P : Params) (base : String) : List String := dedup (rawPointNames P base)

inductive Kind where | donor | acceptor
deriving DecidableEq, Repr

/-- `"acceptor" if atom_name in acceptors else "donor"` -/
def kindOf (P : Params) (base name : String) : Kind :=
  if (acceptorsOf P base).contains name then .acceptor else .donor

/-- `BASE_EDGES.get(base, {}).get(name)` as the list of edge letters -/
def edgesOf (P : Params) (base name : String) : Option (List Char) :=
  ((P.baseEdges.lookup base).bind (fun m => m.lookup name)).map String.toList

/-- may be consumed by base-phosphate / base-ribose detection before it reaches the base-base test
(an atom named in `PHOSPHATE_ACCEPTORS` or `RIBOSE_ACCEPTORS`): "support only" in C03 -/
def sugarPhosphateName (P : Params) (n : String) : Bool :=
  P.riboseAcceptors.contains n || P.phosphateAcceptors.contains n

/-- Python `x in "AG"` (substring test) -/
def isInfixOf : List Char → List Char → Bool
  | p, [] => p.isEmpty
  | p, c :: cs => p.isPrefixOf (c :: cs) || isInfixOf p cs

def pyIn (x letters : String) : Bool := isInfixOf x.toList letters.toList

/-! ## geometry -/

/-- un-normalised `base_normal_vector` (only its direction is used) -/
def normal (P : Params) (r : Res) : Option Q3 :=
  let names := if pyIn r.base P.normalPurineLetters then P.normalPurine else P.normalOther
  match names with
  | [o, a1, a2] => do
    let po ← findAtom r o; let p1 ← findAtom r a1; let p2 ← findAtom r a2
    some (V3.cross (V3.sub p1 po) (V3.sub p2 po))
  | _ => none

def triAnd : Tri → Tri → Tri
  | .no, _ => .no
  | _, .no => .no
  | .yes, .yes => .yes
  | _, _ => .undecided

/-- width of the undecided band on distances (Å) -/
def tol : Rat := 1 / 1000000
/-- width of the undecided band on squared cosines; since `|d cos²θ/dθ| = |sin 2θ| ≤ 1` per radian and
1e-6° = 1.75e-8 rad, every angle within 1e-6° of a threshold falls inside this band -/
def cosBand : Rat := 1 / 50000000
/-- three atoms are treated as collinear (torsion undefined) when `sin² < degBand` -/
def degBand : Rat := 1 / 100000000000

/-- `d ≤ HYDROGEN_BOND_MAX_DISTANCE` (what `KDTree.query_pairs(r)` returns) on the squared distance -/
def distTri (P : Params) (d2 : Rat) : Tri :=
  let lo := P.maxDist - tol
  let hi := P.maxDist + tol
  if d2 ≤ lo * lo then .yes else if d2 > hi * hi then .no else .undecided

/-- `q < c·m` for a constant `c` known only through an enclosure `[lo, hi]`, with the undecided band -/
def bandTri (q m lo hi : Rat) : Tri :=
  if q < (lo - cosBand) * m then .yes
  else if q > (hi + cosBand) * m then .no
  else .undecided

/-- `lo° < angle(n, v) < hi°` for a range straddling 90°: on the side `n·v ≥ 0` compare with cos²lo,
on the other side with cos²hi -/
def angleTri (P : Params) (n v : Q3) : Tri :=
  let nv := V3.dot n v
  let enc := if nv ≥ 0 then P.encLo else P.encHi
  bandTri (nv * nv) (V3.norm2 n * V3.norm2 v) enc.1 enc.2

/-- the geometric part of the contact test between atom `pa` of a residue with normal `ni` and atom `pb`
of a residue with normal `nj` -/
def hbondGeomTri (P : Params) (ni nj pa pb : Q3) : Tri :=
  let v := V3.sub pa pb
  triAnd (distTri P (V3.norm2 v)) (triAnd (angleTri P ni v) (angleTri P nj v))

/-- x-component of the torsion: `(v₁×v₂)·(v₂×v₃)`; its sign decides cis (`> 0` ⇔ |torsion| < 90°) -/
def torsionX (p1 p2 p3 p4 : Q3) : Rat :=
  let v1 := V3.sub p2 p1; let v2 := V3.sub p3 p2; let v3 := V3.sub p4 p3
  V3.dot (V3.cross v1 v2) (V3.cross v2 v3)

/-- `-90° < torsion(p1,p2,p3,p4) < 90°` (yes = cis) -/
def torsionCisTri (p1 p2 p3 p4 : Q3) : Tri :=
  let v1 := V3.sub p2 p1; let v2 := V3.sub p3 p2; let v3 := V3.sub p4 p3
  let t1 := V3.cross v1 v2; let t2 := V3.cross v2 v3
  let x := V3.dot t1 t2
  if V3.norm2 t1 ≤ degBand * (V3.norm2 v1 * V3.norm2 v2) then .undecided
  else if V3.norm2 t2 ≤ degBand * (V3.norm2 v2 * V3.norm2 v3) then .undecided
  else if x * x ≤ cosBand * cosBand * (V3.norm2 t1 * V3.norm2 t2) then .undecided
  else if x > 0 then .yes else .no

def glycoName (P : Params) (r : Res) : String :=
  if pyIn r.base P.purineLetters then P.glycoPurine else P.glycoOther

/-- `detect_cis_trans`: `none` when C1' or N1/N9 is missing in either residue -/
def cisTri (P : Params) (ri rj : Res) : Option Tri := do
  let c1 ← findAtom ri P.glycoSugar; let c2 ← findAtom rj P.glycoSugar
  let n1 ← findAtom ri (glycoName P ri); let n2 ← findAtom rj (glycoName P rj)
  some (torsionCisTri c1 n1 n2 c2)

/-! ## contacts -/

/-- a distinct qualifying atom-pair contact between residues `i < j` (positions in the structure):
atom `a` of `i`, atom `b` of `j`, both with an edge entry, one donor and one acceptor -/
structure Contact where
  i : Nat
  j : Nat
  a : String
  b : String
  ea : List Char
  eb : List Char
  /-- `yes` or `undecided` (contacts answered `no` are not listed) -/
  tri : Tri
  /-- goes through a ribose/phosphate oxygen (O2'): support only -/
  sp : Bool
deriving Repr

/-- typed atoms of a residue that can appear in a base-base label: name, position, edges, kind -/
def edgePoints (P : Params) (r : Res) : List (String × Q3 × List Char × Kind) :=
  (pointNames P r.base).filterMap (fun n => do
    let p ← findAtom r n
    let e ← edgesOf P r.base n
    some (n, p, e, kindOf P r.base n))

def contactsBetween (P : Params) (i j : Nat) (ri rj : Res) : List Contact :=
  if sameResidue ri rj then [] else
  match normal P ri, normal P rj with
  | some ni, some nj =>
    (edgePoints P ri).flatMap (fun (a, pa, ea, ka) =>
      (edgePoints P rj).filterMap (fun (b, pb, eb, kb) =>
        if ka == kb then none else
        match hbondGeomTri P ni nj pa pb with
        | .no => none
        | t => some ⟨i, j, a, b, ea, eb, t, sugarPhosphateName P a || sugarPhosphateName P b⟩))
  | _, _ => []

/-- smallest `k` with `k² ≥ n` or `Nat.sqrt n + 1`, whichever: an upper bound of `√n` -/
def sqrtUp (n : Nat) : Nat := Nat.sqrt n + 1

/-- all atoms named in `pointNames`, with or without an edge entry -/
def allPoints (P : Params) (r : Res) : List Q3 := (pointNames P r.base).filterMap (findAtom r)

/-- (centre, integer upper bound of the radius) of a residue's point set -/
def ball (P : Params) (r : Res) : Option (Q3 × Nat) :=
  match allPoints P r with
  | [] => none
  | c :: ps =>
    let r2 := ps.foldl (fun m p => let d := V3.dist2 c p; if d > m then d else m) (0 : Rat)
    some (c, sqrtUp (r2.ceil.toNat))

/-- exact pre-filter: two residues whose bounding balls are further apart than the distance threshold
have no contact.  `true` = may be in contact. -/
def near (bi bj : Option (Q3 × Nat)) (rc : Nat) : Bool :=
  match bi, bj with
  | some (ci, ri), some (cj, rj) =>
    let s : Rat := ((rc + ri + rj : Nat) : Rat)
    V3.dist2 ci cj ≤ s * s
  | _, _ => false

/-- an integer strictly above `HYDROGEN_BOND_MAX_DISTANCE + tol` -/
def reach (P : Params) : Nat := (P.maxDist + tol).ceil.toNat + 1

/-- all residue pairs `i < j` (positions) that pass the pre-filter -/
def nearPairs (P : Params) (s : Array Res) : List (Nat × Nat) :=
  let balls := s.map (ball P)
  (List.range s.size).flatMap (fun i =>
    ((List.range s.size).filter (fun j => i < j && near (balls.getD i none) (balls.getD j none) (reach P))).map (fun j => (i, j)))

/-- every distinct qualifying base-edge contact of the structure -/
def contacts (P : Params) (s : Array Res) : List Contact :=
  (nearPairs P s).flatMap (fun (i, j) =>
    match s[i]?, s[j]? with
    | some ri, some rj => contactsBetween P i j ri rj
    | _, _ => [])

/-- the same without the pre-filter (reference definition; the driver cross-checks the two) -/
def contactsAll (P : Params) (s : Array Res) : List Contact :=
  (List.range s.size).flatMap (fun i => (List.range s.size).flatMap (fun j =>
    if i < j then
      match s[i]?, s[j]? with
      | some ri, some rj => contactsBetween P i j ri rj
      | _, _ => []
    else []))

/-! ## labels and the greedy edge occupation -/

/-- `(residue_i, residue_j, cis_trans, edge_i, edge_j)` with `residue_i` the lower residue;
residues are positions in the structure -/
structure Label where
  lo : Nat
  hi : Nat
  cis : Bool
  e1 : Char
  e2 : Char
deriving DecidableEq, Repr

abbrev Slot := Nat × Char
def Label.slot1 (l : Label) : Slot := (l.lo, l.e1)
def Label.slot2 (l : Label) : Slot := (l.hi, l.e2)
def Label.slots (l : Label) : List Slot := [l.slot1, l.slot2]
def Label.lwName (l : Label) : String := String.ofList [if l.cis then 'c' else 't', l.e1, l.e2]

/-- the `if residue_i < residue_j … else …` orientation of one (edge_i, edge_j) combination;
`lt` = `residue_i < residue_j` -/
def orient (lt : Bool) (i j : Nat) (cis : Bool) (ei ej : Char) : Label :=
  if lt then ⟨i, j, cis, ei, ej⟩ else ⟨j, i, cis, ej, ei⟩

/-- the labels one contact contributes for a given cis/trans letter -/
def labelsOfContact (lt : Bool) (c : Contact) (cis : Bool) : List Label :=
  c.ea.flatMap (fun ei => c.eb.map (fun ej => orient lt c.i c.j cis ei ej))

/-- one step of the occupation loop over `counter.most_common()` -/
def occStep (P : Params) (labels : List Label) (st : List Slot × List Label) (l : Label) : List Slot × List Label :=
  if labels.count l < P.minCount then st
  else if st.1.contains l.slot1 then st
  else if st.1.contains l.slot2 then st
  else (l.slot1 :: l.slot2 :: st.1, st.2 ++ [l])

/-- the code's edge occupation when the distinct labels are processed in `order` -/
def greedyOccupy (P : Params) (order labels : List Label) : List Label :=
  (order.foldl (occStep P labels) ([], [])).2

/-- stable insertion sort (structural recursion, so that examples reduce by `decide`): `x` is put in front
of the first element it is `le` to -/
def insertBy {α} (le : α → α → Bool) (x : α) : List α → List α
  | [] => [x]
  | y :: ys => if le x y then x :: y :: ys else y :: insertBy le x ys

def isort {α} (le : α → α → Bool) (l : List α) : List α := l.foldr (insertBy le) []

def dedupL : List Label → List Label
  | [] => []
  | x :: xs => x :: (dedupL xs).filter (· != x)

/-- `Counter(labels).most_common()`: distinct labels in first-occurrence order, stably sorted by
descending count -/
def mostCommonOrder (labels : List Label) : List Label :=
  isort (fun a b => decide (labels.count a ≥ labels.count b)) (dedupL labels)

/-- two distinct candidates that compete for a slot have different counts: then the result of the
occupation does not depend on how `most_common` breaks ties -/
def noTiedConflicts (P : Params) (labels : List Label) : Bool :=
  let cand := (dedupL labels).filter (fun l => labels.count l ≥ P.minCount)
  cand.all (fun a => cand.all (fun b =>
    a == b || labels.count a != labels.count b || !(a.slots.any (fun s => b.slots.contains s))))

/-! ## assembly stage -/

/-- `LeontisWesthof.__lt__`: tuples of characters -/
def lwLe (a b : Label) : Bool :=
  let ka := [if a.cis then 'c' else 't', a.e1, a.e2].map Char.toNat
  let kb := [if b.cis then 'c' else 't', b.e1, b.e2].map Char.toNat
  ka ≤ kb

/-- order of `sorted(base_base_pairs)`: tuples (residue_i, residue_j, lw); `rank` = position of a residue
in the `Residue3D.__lt__` order -/
def labelLe (rank : Nat → Nat) (a b : Label) : Bool :=
  rank a.lo < rank b.lo ||
    (rank a.lo == rank b.lo && (rank a.hi < rank b.hi || (rank a.hi == rank b.hi && lwLe a b)))

def assemble (rank : Nat → Nat) (out : List Label) : List Label := isort (labelLe rank) out

/-- rank of every residue in the `Residue3D.__lt__` order: number of residues strictly below it -/
def rankOf (s : Array Res) (i : Nat) : Nat :=
  match s[i]? with
  | some r => (s.toList.filter (fun q => resLt q r)).length
  | none => s.size

/-! ## BPh / BR -/

def bphEntry (P : Params) (base donor : String) : Option (String × String × Nat × Nat) :=
  (P.bphTable.find? (fun e => e.1 == base && e.2.1 == donor)).map (fun e => e.2.2)

/-- classes `detect_bph_br_classification` may return for this donor atom and acceptor position:
one class when decided, both candidates of a torsion-dependent entry inside the undecided band,
none when the table has no entry or reference atoms are missing -/
def bphClasses (P : Params) (r : Res) (donor : String) (dpos apos : Q3) : List Nat :=
  match bphEntry P r.base donor with
  | none => []
  | some (r1, r2, cin, cout) =>
    if r1 == "" then [cin] else
    match findAtom r r1, findAtom r r2 with
    | some p1, some p2 =>
      match torsionCisTri p1 p2 dpos apos with
      | .yes => [cin]
      | .no => [cout]
      | .undecided => [cin, cout]
    | _, _ => []

/-- `OrderedSet.add` -/
def osAdd (s : List Nat) (c : Nat) : List Nat := if s.contains c then s else s ++ [c]

/-- one merge rule: `if a in s and b in s: s.remove(a); s.remove(b); s.add(c)` -/
def applyRule (s : List Nat) (r : Nat × Nat × Nat) : List Nat :=
  if s.contains r.1 && s.contains r.2.1 then osAdd ((s.filter (· != r.1)).filter (· != r.2.1)) r.2.2 else s

def applyRules (P : Params) (s : List Nat) : List Nat := P.mergeRules.foldl applyRule s

/-- what `merge_and_clean_bph_br` keeps of one residue pair's ordered set -/
def cleanSet (P : Params) (s : List Nat) : List Nat := (applyRules P s).head?.toList

/-- group classes by key in first-seen order (`defaultdict(OrderedSet)`) -/
def groupAdd (m : List (Nat × List Nat)) (k c : Nat) : List (Nat × List Nat) :=
  if m.any (·.1 == k) then m.map (fun e => if e.1 == k then (e.1, osAdd e.2 c) else e) else m ++ [(k, osAdd [] c)]

def groupAll (ps : List (Nat × Nat)) : List (Nat × List Nat) :=
  ps.foldl (fun m p => groupAdd m p.1 p.2) []

/-- `merge_and_clean_bph_br` on (residue-pair key, class) rows -/
def mergeClean (P : Params) (ps : List (Nat × Nat)) : List (Nat × List Nat) :=
  (groupAll ps).map (fun e => (e.1, cleanSet P e.2))

/-- classes a residue pair may carry given the classes `cs` of its donor–oxygen contacts: one of them, or
the merged class of a rule both of whose inputs are present -/
def impliedBy (P : Params) (cs : List Nat) (k : Nat) : Bool :=
  cs.contains k || P.mergeRules.any (fun r => r.2.2 == k && cs.contains r.1 && cs.contains r.2.1)

/-- a base donor → phosphate/ribose oxygen contact: donor residue, acceptor residue, atoms, distance
answer, classes the classification may give -/
structure BContact where
  d : Nat
  a : Nat
  dn : String
  an : String
  tri : Tri
  classes : List Nat
deriving Repr

def donorPoints (P : Params) (r : Res) : List (String × Q3) :=
  (pointNames P r.base).filterMap (fun n =>
    if kindOf P r.base n == .donor then (findAtom r n).map (fun p => (n, p)) else none)

def oxygenPoints (r : Res) (names : List String) : List (String × Q3) :=
  names.filterMap (fun n => (findAtom r n).map (fun p => (n, p)))

def bcontactsBetween (P : Params) (names : List String) (d a : Nat) (rd ra : Res) : List BContact :=
  if sameResidue rd ra then [] else
  (donorPoints P rd).flatMap (fun (dn, dp) =>
    (oxygenPoints ra names).filterMap (fun (an, ap) =>
      match distTri P (V3.dist2 dp ap) with
      | .no => none
      | t => some ⟨d, a, dn, an, t, bphClasses P rd dn dp ap⟩))

/-- all donor→oxygen contacts of one kind (`names` = PHOSPHATE_ACCEPTORS or RIBOSE_ACCEPTORS) -/
def bcontacts (P : Params) (names : List String) (s : Array Res) : List BContact :=
  (nearPairs P s).flatMap (fun (i, j) =>
    match s[i]?, s[j]? with
    | some ri, some rj => bcontactsBetween P names i j ri rj ++ bcontactsBetween P names j i rj ri
    | _, _ => [])

/-! ## specification predicates evaluated on the implementation's output -/

/-- one reported base pair: positions of nt1, nt2 in the structure and the LW letters -/
structure Reported where
  i : Nat
  j : Nat
  cis : Bool
  e1 : Char
  e2 : Char
deriving Repr, DecidableEq

def Reported.slots (p : Reported) : List Slot := [(p.i, p.e1), (p.j, p.e2)]

/-- contacts between the two residues of a reported pair that lie on the named edges -/
def supportOf (cs : List Contact) (p : Reported) : List Contact :=
  cs.filter (fun c =>
    (c.i == p.i && c.j == p.j && c.ea.contains p.e1 && c.eb.contains p.e2) ||
    (c.i == p.j && c.j == p.i && c.ea.contains p.e2 && c.eb.contains p.e1))

structure Verdict where
  fails : List String := []
  undecided : Nat := 0
  notes : List String := []

def Verdict.fail (v : Verdict) (s : String) : Verdict := { v with fails := v.fails ++ [s] }
def Verdict.und (v : Verdict) : Verdict := { v with undecided := v.undecided + 1 }

def showP (p : Reported) : String :=
  s!"{p.i}-{p.j}:" ++ String.ofList [if p.cis then 'c' else 't', p.e1, p.e2]

/-- C03, first half: every reported pair joins two different residues, has ≥ `minHbondCount` distinct
qualifying contacts on its edges, and its letter matches the torsion -/
def checkSound (P : Params) (s : Array Res) (cs : List Contact) (v : Verdict) (p : Reported) : Verdict :=
  if p.i == p.j then v.fail s!"self-pair {showP p}" else
  match s[p.i]?, s[p.j]? with
  | some ri, some rj =>
    let sup := supportOf cs p
    let nYes := (sup.filter (·.tri == .yes)).length
    let nAll := sup.length
    let nSp := (sup.filter (·.sp)).length
    let v :=
      if nAll < P.minCount then
        if nAll + nSp ≥ P.minCount then v.fail s!"pair-on-single-contact:O2'-doubled {showP p} distinct={nAll}"
        else v.fail s!"pair-unsupported {showP p} distinct={nAll}"
      else if nYes < P.minCount then v.und else v
    match cisTri P ri rj with
    | none => v.fail s!"pair-without-torsion {showP p}"
    | some .undecided => v.und
    | some .yes => if p.cis then v else v.fail s!"cis-trans-letter {showP p} torsion=cis"
    | some .no => if p.cis then v.fail s!"cis-trans-letter {showP p} torsion=trans" else v
  | _, _ => v.fail s!"participant-out-of-range {showP p}"

/-- C03, second clause: no (residue, edge) slot is used by two reported pairs -/
def checkExclusive (rep : List Reported) (v : Verdict) : Verdict :=
  let rec go (l : List Reported) (seen : List Slot) (v : Verdict) : Verdict :=
    match l with
    | [] => v
    | p :: rest =>
      let clash := p.slots.filter (fun s => seen.contains s)
      let v := if clash.isEmpty then v else v.fail s!"edge-reused {showP p}"
      go rest (p.slots ++ seen) v
  go rep [] v

/-- C03, third clause: every residue pair with ≥ `minHbondCount` decided base-to-base contacts on an edge
combination is reported with that class or has one of the two slots taken by a reported pair -/
def checkMaximal (P : Params) (s : Array Res) (cs : List Contact) (rep : List Reported) (v : Verdict) : Verdict :=
  let bb := cs.filter (fun c => !c.sp && c.tri == .yes)
  let occupied : List Slot := rep.flatMap (·.slots)
  let pairsIJ := (bb.map (fun c => (c.i, c.j))).eraseDups
  pairsIJ.foldl (fun v (i, j) =>
    match s[i]?, s[j]? with
    | some ri, some rj =>
      let mine := bb.filter (fun c => c.i == i && c.j == j)
      let lt := resLt ri rj
      let ambiguous := !lt && !resLt rj ri
      match cisTri P ri rj with
      | none => v
      | some t =>
        -- labels with an arbitrary letter; the letter is compared separately
        let labs := mine.flatMap (fun c => labelsOfContact lt c true)
        let cands := (dedupL labs).filter (fun l => labs.count l ≥ P.minCount)
        cands.foldl (fun v l =>
          let okLetter (p : Reported) : Bool := match t with
            | .yes => p.cis | .no => !p.cis | .undecided => true
          let reported := rep.any (fun p => okLetter p &&
            ((p.i == l.lo && p.j == l.hi && p.e1 == l.e1 && p.e2 == l.e2) ||
             (ambiguous && p.i == l.hi && p.j == l.lo && p.e1 == l.e2 && p.e2 == l.e1)))
          if reported then v
          else if occupied.contains l.slot1 || occupied.contains l.slot2 then v
          else v.fail s!"unreported-unblocked {l.lo}-{l.hi}:{String.ofList [l.e1, l.e2]} count={labs.count l}") v
    | _, _ => v) v

def specPairs (P : Params) (s : Array Res) (rep : List Reported) : Verdict :=
  let cs := contacts P s
  let v := rep.foldl (checkSound P s cs) {}
  let v := checkExclusive rep v
  let v := checkMaximal P s cs rep v
  { v with notes := [s!"contacts={cs.length}", s!"support-only={(cs.filter (·.sp)).length}",
                     s!"undecided-contacts={(cs.filter (·.tri == .undecided)).length}"] }

/-- the model's own annotation from a given multiset of contacts (canonical `most_common` order) -/
def modelLabels (P : Params) (s : Array Res) (cs : List Contact) : List Label :=
  cs.flatMap (fun c =>
    match s[c.i]?, s[c.j]? with
    | some ri, some rj =>
      match cisTri P ri rj with
      | some .yes => labelsOfContact (resLt ri rj) c true
      | some .no => labelsOfContact (resLt ri rj) c false
      | _ => []
    | _, _ => [])

def modelPairs (P : Params) (s : Array Res) (cs : List Contact) : List Label :=
  let labs := modelLabels P s cs
  let ranks := (List.range s.size).map (rankOf s)
  assemble (fun i => ranks.getD i s.size) (greedyOccupy P (mostCommonOrder labs) labs)

/-- C11: one reported base-phosphate / base-ribose interaction -/
structure RepB where
  d : Nat
  a : Nat
  k : Nat
deriving Repr, DecidableEq

def specBph (P : Params) (kind : String) (names : List String) (s : Array Res) (rep : List RepB) : Verdict :=
  let bc := bcontacts P names s
  let v : Verdict := {}
  let v := rep.foldl (fun v p =>
    if p.d == p.a then v.fail s!"{kind}-self {p.d}" else
    let mine := bc.filter (fun c => c.d == p.d && c.a == p.a)
    let csAll := mine.flatMap (·.classes)
    let csYes := (mine.filter (fun c => c.tri == .yes && c.classes.length == 1)).flatMap (·.classes)
    if mine.isEmpty then v.fail s!"{kind}-without-contact {p.d}>{p.a}:{p.k}"
    else if !impliedBy P csAll p.k then v.fail s!"{kind}-class-not-implied {p.d}>{p.a}:{p.k} contacts={csAll}"
    else if !impliedBy P csYes p.k then v.und else v) v
  let rec dup (l : List RepB) (v : Verdict) : Verdict :=
    match l with
    | [] => v
    | p :: rest =>
      let v := if rest.any (fun q => q.d == p.d && q.a == p.a) then v.fail s!"{kind}-two-classes {p.d}>{p.a}" else v
      dup rest v
  let v := dup rep v
  { v with notes := [s!"contacts={bc.length}"] }

/-! ## C11: well-formedness of a list of pairs (assembly-stage output) -/

/-- `Saenger.table()` lookup on two one-letter names and an LW name -/
def saenger (b1 b2 : Char) (lw : String) : Option String :=
  (Gen.saengerTable.find? (fun e => e.1.1.toList == [b1, b2] && e.1.2 == lw)).map (·.2)

def lwReverse (lw : String) : Option String := Gen.lwReverse.lookup lw

/-- a class name is three letters `c e₁ e₂` and its reverse is `c e₂ e₁` -/
def swapsEdges (p : String × String) : Bool :=
  match p.1.toList with
  | [c, e1, e2] => p.2.toList == [c, e2, e1]
  | _ => false

/-- table entry check used by `Props.C11.saenger_table_symmetric`: the key is two letters plus a class; looking
the entry up gives its own value (keys are unique) and the reversed key with the reversed class gives the
same value -/
def entrySymmetric (e : (String × String) × String) : Bool :=
  match e.1.1.toList, lwReverse e.1.2 with
  | [c1, c2], some r => saenger c1 c2 e.1.2 == some e.2 && saenger c2 c1 r == some e.2
  | _, _ => false

/-- key of `Residue.__lt__`: (chain, number, icode or " ") -/
structure RKey where
  chain : String
  number : Int
  icode : String
deriving DecidableEq, Repr

def RKey.lt (a b : RKey) : Bool :=
  if a.chain != b.chain then a.chain < b.chain
  else if a.number != b.number then a.number < b.number
  else a.icode < b.icode

/-- one row of an interaction list: keys and one-letter names of both residues, class text, Saenger text -/
structure Row where
  k1 : RKey
  k2 : RKey
  b1 : String
  b2 : String
  cls : String
  sae : Option String
deriving DecidableEq, Repr

def Row.le (a b : Row) : Bool :=
  a.k1.lt b.k1 || (a.k1 == b.k1 && (a.k2.lt b.k2 || a.k2 == b.k2))

def pairwiseB {α} (r : α → α → Bool) : List α → Bool
  | [] => true
  | x :: xs => xs.all (r x) && pairwiseB r xs

/-- no repeats, no self pairs, lower residue first, sorted by (nt1, nt2) -/
def specWF (rows : List Row) : List String :=
  let f1 := if pairwiseB (fun a b => a != b) rows then [] else ["repeat"]
  let f2 := if rows.all (fun r => r.k1 != r.k2) then [] else ["self"]
  let f3 := if rows.all (fun r => r.k1.lt r.k2 || r.k1 == r.k2) then [] else ["not-lower-first"]
  let f4 := if pairwiseB Row.le rows then [] else ["not-sorted"]
  f1 ++ f2 ++ f3 ++ f4

/-- the Saenger class is present exactly when the table defines one for (bases, LW), and is that one -/
def specSaenger (rows : List Row) : List String :=
  rows.filterMap (fun r =>
    let expect := match r.b1.toList, r.b2.toList with
      | [c1], [c2] => saenger c1 c2 r.cls
      | _, _ => Gen.saengerTable.lookup (r.b1 ++ r.b2, r.cls)
    if expect == r.sae then none else some s!"saenger {r.b1}{r.b2} {r.cls} expected={expect} got={r.sae}")

end RnaVerif.Pairs

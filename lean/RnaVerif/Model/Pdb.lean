import RnaVerif.Generated.ParserV2
/-!
# M6 — atom records and the PDB fixed-column text format of `rnapolis.parser_v2` (core only, executable)

Mirrors `_format_pdb_atom_line`, `write_pdb`, `parse_pdb_atoms` and the row maps of `write_cif` /
`write_pdb` (mmCIF branch) of `/repo/src/rnapolis/parser_v2.py`.

* Text is `List Char`.  Python `None`/NaN of an optional text field is the empty list.
* Numbers are fixed point: coordinates in 1/1000, occupancy and B-factor in 1/100 (`Int`).
  ASSUMPTION (validated differentially, not proved): Python's `f"{v:8.3f}"` of the double nearest to
  `k/1000` prints the decimal expansion of `k/1000` that `fmtFixed 8 3 k` prints, and
  `pd.to_numeric` of that text returns that double again.
* Every column slice, width, justification, template, limit and marker comes from
  `RnaVerif.Gen.ParserV2`, regenerated from the source on every run.
-/
namespace RnaVerif.Pdb
open RnaVerif.Gen

abbrev Str := List Char

/-- the 16 fields of one atom row -/
structure Atom where
  record : Str
  serial : Int
  name : Str
  altLoc : Str
  resName : Str
  chain : Str
  resSeq : Int
  iCode : Str
  x : Int
  y : Int
  z : Int
  occ : Int
  b : Int
  element : Str
  charge : Str
  model : Int
  deriving DecidableEq, Repr, Inhabited

def Atom.text (a : Atom) : Field → Str
  | .record => a.record | .name => a.name | .altLoc => a.altLoc | .resName => a.resName
  | .chain => a.chain | .iCode => a.iCode | .element => a.element | .charge => a.charge
  | _ => []

def Atom.int (a : Atom) : Field → Int
  | .serial => a.serial | .resSeq => a.resSeq | .x => a.x | .y => a.y | .z => a.z
  | .occ => a.occ | .b => a.b | .model => a.model
  | _ => 0

/-! ## Python string primitives -/

/-- `str.isspace` for one character (what `str.strip()` removes) -/
def isWs (c : Char) : Bool :=
  let n := c.toNat
  (9 ≤ n && n ≤ 13) || (28 ≤ n && n ≤ 32) || n == 0x85 || n == 0xA0 || n == 0x1680 ||
  (0x2000 ≤ n && n ≤ 0x200A) || n == 0x2028 || n == 0x2029 || n == 0x202F || n == 0x205F || n == 0x3000

def lstrip (l : Str) : Str := l.dropWhile isWs
def rstrip (l : Str) : Str := (l.reverse.dropWhile isWs).reverse
def strip (l : Str) : Str := rstrip (lstrip l)

def ljust (w : Nat) (s : Str) : Str := s ++ List.replicate (w - s.length) ' '
def rjust (w : Nat) (s : Str) : Str := List.replicate (w - s.length) ' ' ++ s
def just : Just → Nat → Str → Str
  | .left => ljust
  | .right => rjust

def showNat (n : Nat) : Str := Nat.toDigits 10 n
/-- `str(int)` -/
def showInt (i : Int) : Str := if i < 0 then '-' :: showNat i.natAbs else showNat i.natAbs

def padZeros (p : Nat) (l : Str) : Str := List.replicate (p - l.length) '0' ++ l

/-- unpadded `f"{k / 10^p:.{p}f}"` -/
def fixedBody (p : Nat) (k : Int) : Str :=
  let m := k.natAbs
  (if k < 0 then ['-'] else []) ++ showNat (m / 10 ^ p) ++
    (if p = 0 then [] else '.' :: padZeros p (showNat (m % 10 ^ p)))

/-- `f"{k / 10^p:w.pf}"` -/
def fmtFixed (w p : Nat) (k : Int) : Str := rjust w (fixedBody p k)

def parseNat (l : Str) : Option Nat :=
  if l ≠ [] ∧ l.all Char.isDigit = true then some (Nat.ofDigitChars 10 l 0) else none

/-- integers as the writer prints them (`pd.to_numeric` / `int()` accept more; those inputs are outside the model) -/
def parseInt : Str → Option Int
  | '-' :: r => (parseNat r).map (fun n => -(n : Int))
  | '+' :: r => (parseNat r).map (fun n => (n : Int))
  | r => (parseNat r).map (fun n => (n : Int))

/-- decimal text with at most `p` decimals to fixed point -/
def parseFixedAbs (p : Nat) (u : Str) : Option Nat :=
  let ip := u.takeWhile (· != '.')
  match u.dropWhile (· != '.') with
  | [] => (parseNat ip).map (· * 10 ^ p)
  | _ :: fr =>
    if fr.length ≤ p then
      match parseNat ip, parseNat fr with
      | some i, some f => some (i * 10 ^ p + f * 10 ^ (p - fr.length))
      | _, _ => none
    else none

def parseFixed (p : Nat) : Str → Option Int
  | '-' :: r => (parseFixedAbs p r).map (fun n => -(n : Int))
  | '+' :: r => (parseFixedAbs p r).map (fun n => (n : Int))
  | r => (parseFixedAbs p r).map (fun n => (n : Int))

/-! ## `_format_pdb_atom_line` -/

def applyText (j : Just) (w : Nat) (trunc : Option Nat) (strp : Bool) (s : Str) : Str :=
  let s := if strp then strip s else s
  let s := match trunc with
    | some k => s.take k
    | none => s
  just j w s

/-- names shorter than `lim` that start with a letter get one leading blank -/
def atomNameFmt (lim w : Nat) (s : Str) : Str :=
  match s with
  | c :: _ => if s.length < lim ∧ c.isAlpha = true then ljust w (' ' :: s) else ljust w s
  | [] => ljust w s

/-- `int(float(s))` on plain decimal literals `[ws][+-]digits[.digits][ws]`; everything else counts as
"not a number" (exponents, `inf`, `nan`, underscores are outside the model) -/
def pyFloatTrunc (s : Str) : Option Int :=
  let t := strip s
  let neg := t.head? == some '-'
  let u := match t with
    | '-' :: r => r
    | '+' :: r => r
    | r => r
  let ip := u.takeWhile Char.isDigit
  let ok : Bool := match u.dropWhile Char.isDigit with
    | [] => !ip.isEmpty
    | c :: fr => c == '.' && fr.all Char.isDigit && (!ip.isEmpty || !fr.isEmpty)
  if ok then
    let n : Int := Nat.ofDigitChars 10 ip 0
    some (if neg then -n else n)
  else none

/-- charge rendering: numeric strings become `n±` (zero becomes blank), other strings are kept;
then `strip()[:trunc].rjust(w)`; a missing charge is `w` blanks -/
def chargeFmt (trunc w : Nat) (c : Str) : Str :=
  if c = [] then List.replicate w ' ' else
    let t := match pyFloatTrunc c with
      | some n => if n ≠ 0 then showNat n.natAbs ++ [if n > 0 then '+' else '-'] else []
      | none => c
    rjust w ((strip t).take trunc)

def renderField (fmts : List (Field × Fmt)) (a : Atom) (f : Field) : Str :=
  match fmts.lookup f with
  | some (.text j w t s) => applyText j w t s (a.text f)
  | some (.int j w) => just j w (showInt (a.int f))
  | some (.fixed w p) => fmtFixed w p (a.int f)
  | some (.atomName lim w) => atomNameFmt lim w (a.text f)
  | some (.charge t w) => chargeFmt t w (a.text f)
  | none => []

def renderPiece (fmts : List (Field × Fmt)) (a : Atom) : Piece → Str
  | .lit s => s
  | .fld f => renderField fmts a f

def renderPieces (fmts : List (Field × Fmt)) (a : Atom) (t : List Piece) : Str :=
  t.flatMap (renderPiece fmts a)

/-- one ATOM/HETATM line -/
def formatAtom (a : Atom) : Str :=
  ljust ParserV2.lineWidth (renderPieces ParserV2.writerFmt a ParserV2.lineTemplate)

/-- the TER record written after `last` (serial = last serial + 1) -/
def formatTer (last : Atom) : Str :=
  ljust ParserV2.terWidth
    (renderPieces ParserV2.terFmt { last with serial := last.serial + 1 } ParserV2.terTemplate)

def formatModel (m : Int) : Str := ParserV2.modelPrefix ++ rjust ParserV2.modelWidth (showInt m)

/-! ## `write_pdb` -/

inductive Line where
  | model (m : Int)
  | endmdl
  | ter (last : Atom)
  | atom (a : Atom)
  | fin
  deriving DecidableEq, Repr, Inhabited

def Line.render : Line → Str
  | .model m => formatModel m
  | .endmdl => "ENDMDL".toList
  | .ter p => formatTer p
  | .atom a => formatAtom a
  | .fin => "END".toList

/-- the tracking variables of `write_pdb` (`last` carries `last_res_info` and `last_serial`) -/
structure WState where
  lastModel : Option Int := none
  lastChain : Option Str := none
  last : Option Atom := none
  deriving Repr

/-- TER for the open chain, if any -/
def terOf (s : WState) : List Line :=
  match s.lastChain, s.last with
  | some _, some p => [.ter p]
  | _, _ => []

/-- one iteration of the row loop: lines written and the new tracking variables.
`fixed = false` is the code as it is: on a model change the chain tracking is reset *before* the TER test,
so no TER is written in front of ENDMDL.  `fixed = true` writes that TER. -/
def stepRow (fixed : Bool) (s : WState) (a : Atom) : List Line × WState :=
  let modelChange := s.lastModel ≠ some a.model
  let pre : List Line :=
    if modelChange then
      (if s.lastModel.isSome then (if fixed then terOf s else []) ++ [.endmdl] else []) ++ [.model a.model]
    else []
  let chainSeen : Option Str := if modelChange then none else s.lastChain
  let ter : List Line :=
    match chainSeen, s.last with
    | some c, some p => if a.chain ≠ c then [.ter p] else []
    | _, _ => []
  (pre ++ ter ++ [.atom a], { lastModel := some a.model, lastChain := some a.chain, last := some a })

def closing (s : WState) : List Line :=
  terOf s ++ (if s.lastModel.isSome then [.endmdl] else []) ++ [.fin]

def writeAux (fixed : Bool) : WState → List Atom → List Line
  | s, [] => closing s
  | s, a :: rest => (stepRow fixed s a).1 ++ writeAux fixed (stepRow fixed s a).2 rest

/-- `write_pdb` without the TER in front of ENDMDL (the behaviour of the code up to the fix) -/
def writePdbLinesOld (rows : List Atom) : List Line :=
  if rows.isEmpty then [.fin] else writeAux false {} rows

/-- `write_pdb` with the TER in front of ENDMDL -/
def writePdbLinesFixed (rows : List Atom) : List Line :=
  if rows.isEmpty then [.fin] else writeAux true {} rows

def writePdbLinesWith (fixed : Bool) (rows : List Atom) : List Line :=
  if fixed then writePdbLinesFixed rows else writePdbLinesOld rows

/-- `write_pdb` as it is in the source now (`Gen.ParserV2.terBeforeEndmdl` is read off the source on every run) -/
def writePdbLines (rows : List Atom) : List Line := writePdbLinesWith ParserV2.terBeforeEndmdl rows

def writePdbOld (rows : List Atom) : List Str := (writePdbLinesOld rows).map Line.render
def writePdbFixed (rows : List Atom) : List Str := (writePdbLinesFixed rows).map Line.render
def writePdb (rows : List Atom) : List Str := (writePdbLines rows).map Line.render

/-! ## `parse_pdb_atoms` -/

def slice (l : Str) (s e : Nat) : Str := (l.drop s).take (e - s)

def sliceOf (f : Field) : Nat × Nat := (ParserV2.readerSlices.lookup f).getD (0, 0)

/-- `line[a:b].strip()` -/
def fieldText (l : Str) (f : Field) : Str := strip (slice l (sliceOf f).1 (sliceOf f).2)

def recordType (l : Str) : Str := fieldText l .record

/-- one ATOM/HETATM line under the current model number; `none` = not an atom record, or a numeric field
that `pd.to_numeric(errors="coerce")` would turn into NaN -/
def parseAtomV2 (model : Int) (l : Str) : Option Atom :=
  if ParserV2.recordNames.contains (recordType l) then
    match parseInt (fieldText l .serial), parseInt (fieldText l .resSeq),
          parseFixed 3 (fieldText l .x), parseFixed 3 (fieldText l .y), parseFixed 3 (fieldText l .z),
          parseFixed 2 (fieldText l .occ), parseFixed 2 (fieldText l .b) with
    | some serial, some resSeq, some x, some y, some z, some occ, some b =>
      some { record := recordType l, serial := serial, name := fieldText l .name,
             altLoc := fieldText l .altLoc, resName := fieldText l .resName, chain := fieldText l .chain,
             resSeq := resSeq, iCode := fieldText l .iCode, x := x, y := y, z := z, occ := occ, b := b,
             element := fieldText l .element, charge := fieldText l .charge, model := model }
    | _, _, _, _, _, _, _ => none
  else none

def isModelRecord (l : Str) : Bool := recordType l == "MODEL".toList

/-- MODEL record: the new current model (a malformed number keeps the previous one) -/
def parseModel (cur : Int) (l : Str) : Int :=
  (parseInt (strip (slice l ParserV2.modelSlice.1 ParserV2.modelSlice.2))).getD cur

/-- the record loop of `parse_pdb_atoms`: one entry per ATOM/HETATM line -/
def parsePdbAux : Int → List Str → List (Option Atom)
  | _, [] => []
  | cur, l :: rest =>
    if isModelRecord l then parsePdbAux (parseModel cur l) rest
    else if ParserV2.recordNames.contains (recordType l) then parseAtomV2 cur l :: parsePdbAux cur rest
    else parsePdbAux cur rest

def parsePdb (lines : List Str) : List (Option Atom) := parsePdbAux 1 lines

/-! ## PDB ⇄ mmCIF row maps (`write_cif` on PDB-derived rows; `parse_cif_atoms` typing; `write_pdb` on mmCIF rows) -/

def nullMarker (f : Field) : Option Str := ParserV2.cifWriteNull.lookup f

/-- `fixedCharge = false`: the charge text (`2+`) is copied as it is — the code as it is.
`fixedCharge = true`: it is written as the signed integer mmCIF expects (`2`, `-1`). -/
def cifChargeToken (fixedCharge : Bool) (c : Str) : Str :=
  if fixedCharge then
    match c with
    | [d, '+'] => if d.isDigit then [d] else c
    | [d, '-'] => if d.isDigit then ['-', d] else c
    | _ => c
  else c

/-- the token `write_cif` writes for one attribute of a PDB-derived row -/
def cifToken (fixedCharge : Bool) (a : Atom) : CifSrc → Str
  | .const s => s
  | .col f =>
    match f with
    | .serial | .resSeq | .model => showInt (a.int f)
    | .x | .y | .z | .occ | .b => fmtFixed 0 ((ParserV2.cifDecimals.lookup f).getD 0) (a.int f)
    | _ =>
      let t := if f == .charge then cifChargeToken fixedCharge (a.text f) else a.text f
      match nullMarker f with
      | some m => if a.text f = [] then m else t
      | none => t

def toCifRow (fixedCharge : Bool) (a : Atom) : List Str :=
  ParserV2.cifSources.map (cifToken fixedCharge a)

/-- `write_cif` as it is in the source now -/
def toCifRowCode (a : Atom) : List Str := toCifRow ParserV2.cifChargeSigned a

/-- value of the first of the preferred columns that exists (`row.get(c1, row.get(c2, …))`);
null markers have been read as missing -/
def cifGet (attrs : List String) (row : List Str) (f : Field) : Option (Option Str) :=
  let cols := (ParserV2.cifReadCols.lookup f).getD []
  match cols.find? (fun c => attrs.contains c) with
  | none => none
  | some c =>
    let tok := row.getD (attrs.idxOf c) []
    some (if ParserV2.cifReadNulls.contains tok then none else some tok)

/-- required text: `str(value)` (a missing value prints as `nan`) -/
def cifReqText (attrs : List String) (row : List Str) (f : Field) : Str :=
  match cifGet attrs row f with
  | some (some t) => t
  | some none => "nan".toList
  | none => []

/-- optional text: missing is empty -/
def cifOptText (attrs : List String) (row : List Str) (f : Field) : Str :=
  match cifGet attrs row f with
  | some (some t) => t
  | _ => []

/-- `pdbx_formal_charge` is an integer column: `to_numeric(errors="coerce")`, then `str()` -/
def cifChargeText (attrs : List String) (row : List Str) : Str :=
  match cifGet attrs row .charge with
  | some (some t) =>
    if ParserV2.cifIntCols.contains "pdbx_formal_charge" then
      match parseInt t with
      | some n => showInt n
      | none => []
    else t
  | _ => []

/-- the atom `write_pdb` sees in one row of a mmCIF-derived table; `none` = `int()`/`float()` of a missing or
malformed value raises -/
def ofCifRow (attrs : List String) (row : List Str) : Option Atom :=
  match parseInt (cifOptText attrs row .serial), parseInt (cifOptText attrs row .resSeq),
        parseFixed 3 (cifOptText attrs row .x), parseFixed 3 (cifOptText attrs row .y),
        parseFixed 3 (cifOptText attrs row .z), parseFixed 2 (cifOptText attrs row .occ),
        parseFixed 2 (cifOptText attrs row .b), parseInt (cifOptText attrs row .model) with
  | some serial, some resSeq, some x, some y, some z, some occ, some b, some model =>
    some { record := cifReqText attrs row .record, serial := serial, name := cifReqText attrs row .name,
           altLoc := cifOptText attrs row .altLoc, resName := cifReqText attrs row .resName,
           chain := cifReqText attrs row .chain, resSeq := resSeq, iCode := cifOptText attrs row .iCode,
           x := x, y := y, z := z, occ := occ, b := b, element := cifOptText attrs row .element,
           charge := cifChargeText attrs row, model := model }
  | _, _, _, _, _, _, _, _ => none

/-! ## Limits ("the data fit PDB field widths") -/

/-- printable, non-blank ASCII -/
def graphic (c : Char) : Bool := 33 ≤ c.toNat && c.toNat ≤ 126

def chargeTexts : List Str :=
  [] :: (['1', '2', '3', '4', '5', '6', '7', '8', '9'].flatMap (fun d => [[d, '+'], [d, '-']]))

/-- the value shapes the PDB columns can hold: record name ATOM/HETATM, serial −9999…99999,
1–4 character names, at most one character of altLoc / insertion code, 1–3 character residue names,
one-character chain id, residue number −999…9999, coordinates −999.999…9999.999, occupancy and B-factor
−99.99…999.99, at most two characters of element, charge blank or `1+ … 9-`, model −999…9999;
all text printable non-blank ASCII. -/
def withinPdbLimits (a : Atom) : Bool :=
  ParserV2.recordNames.contains a.record &&
  decide (-9999 ≤ a.serial) && decide (a.serial ≤ (ParserV2.maxSerial : Int)) &&
  decide (1 ≤ a.name.length) && decide (a.name.length ≤ 4) && a.name.all graphic &&
  decide (a.altLoc.length ≤ 1) && a.altLoc.all graphic &&
  decide (1 ≤ a.resName.length) && decide (a.resName.length ≤ 3) && a.resName.all graphic &&
  decide (a.chain.length = 1) && a.chain.all graphic &&
  decide (-999 ≤ a.resSeq) && decide (a.resSeq ≤ (ParserV2.maxResSeq : Int)) &&
  decide (a.iCode.length ≤ 1) && a.iCode.all graphic &&
  decide (-999999 ≤ a.x) && decide (a.x ≤ 9999999) &&
  decide (-999999 ≤ a.y) && decide (a.y ≤ 9999999) &&
  decide (-999999 ≤ a.z) && decide (a.z ≤ 9999999) &&
  decide (-9999 ≤ a.occ) && decide (a.occ ≤ 99999) &&
  decide (-9999 ≤ a.b) && decide (a.b ≤ 99999) &&
  decide (a.element.length ≤ 2) && a.element.all graphic &&
  chargeTexts.contains a.charge &&
  decide (-999 ≤ a.model) && decide (a.model ≤ 9999)

abbrev WithinPdbLimits (a : Atom) : Prop := withinPdbLimits a = true

/-! ## Shape of a written document (specification side of "MODEL/ENDMDL around every model, TER after every chain") -/

/-- what kind of record a line is, with the data the bracketing rule speaks about -/
inductive Kind where
  | model (m : Int)
  | endmdl
  | ter (chain : Str)
  | atom (m : Int) (chain : Str)
  | fin
  deriving DecidableEq, Repr, Inhabited

def Line.kind : Line → Kind
  | .model m => .model m
  | .endmdl => .endmdl
  | .ter p => .ter p.chain
  | .atom a => .atom a.model a.chain
  | .fin => .fin

/-- states of the acceptor of well-bracketed documents -/
inductive DocState where
  | outside                          -- between models
  | opened (m : Int)                 -- after MODEL m, no atom yet
  | inChain (m : Int) (c : Str)      -- inside a run of atoms of chain c
  | closedChain (m : Int)            -- after the TER of a chain
  | done
  deriving DecidableEq, Repr, Inhabited

/-- every model is bracketed by MODEL/ENDMDL, carries the number its atoms have, and every run of atoms of
one chain is followed by a TER naming that chain before the next chain or the ENDMDL -/
def docStep : DocState → Kind → Option DocState
  | .outside, .model m => some (.opened m)
  | .outside, .fin => some .done
  | .opened m, .atom m' c => if m' = m then some (.inChain m c) else none
  | .inChain m c, .atom m' c' => if m' = m ∧ c' = c then some (.inChain m c) else none
  | .inChain m c, .ter c' => if c' = c then some (.closedChain m) else none
  | .closedChain m, .atom m' c => if m' = m then some (.inChain m c) else none
  | .closedChain _, .endmdl => some .outside
  | _, _ => none

def docRun : DocState → List Kind → Option DocState
  | s, [] => some s
  | s, k :: ks => match docStep s k with
    | some s' => docRun s' ks
    | none => none

def wellBracketed (ks : List Kind) : Bool := docRun .outside ks == some .done

end RnaVerif.Pdb

/-! # M6 vocabulary: the 16 atom fields and the formatting vocabulary of the PDB writer

Core-only.  `Generated/ParserV2.lean` (rewritten from `/repo/src/rnapolis/parser_v2.py` on every run)
is expressed in this vocabulary; `Model/Pdb.lean` interprets it. -/
namespace RnaVerif.Pdb

/-- the 16 fields of an atom record (PDB column names of `parse_pdb_atoms`) -/
inductive Field where
  | record | serial | name | altLoc | resName | chain | resSeq | iCode
  | x | y | z | occ | b | element | charge | model
  deriving DecidableEq, Repr, Inhabited

def Field.all : List Field :=
  [.record, .serial, .name, .altLoc, .resName, .chain, .resSeq, .iCode,
   .x, .y, .z, .occ, .b, .element, .charge, .model]

def Field.toString : Field → String
  | .record => "record_type" | .serial => "serial" | .name => "name" | .altLoc => "altLoc"
  | .resName => "resName" | .chain => "chainID" | .resSeq => "resSeq" | .iCode => "iCode"
  | .x => "x" | .y => "y" | .z => "z" | .occ => "occupancy" | .b => "tempFactor"
  | .element => "element" | .charge => "charge" | .model => "model"

inductive Just where
  | left | right
  deriving DecidableEq, Repr, Inhabited

/-- how `_format_pdb_atom_line` / the TER writer render one field -/
inductive Fmt where
  /-- `s[:trunc].ljust(w)` / `.rjust(w)`; `strip = true` when `.strip()` is applied first -/
  | text (j : Just) (w : Nat) (trunc : Option Nat) (strip : Bool)
  /-- `str(int).rjust(w)` -/
  | int (j : Just) (w : Nat)
  /-- `f"{v:w.pf}"` -/
  | fixed (w p : Nat)
  /-- the atom-name alignment rule: names shorter than `lim` that start with a letter get one
  leading blank; then `ljust(w)` -/
  | atomName (lim w : Nat)
  /-- the charge rendering: numeric strings become `n±`, others are kept; `strip()[:trunc].rjust(w)` -/
  | charge (trunc w : Nat)
  deriving DecidableEq, Repr, Inhabited

/-- one piece of an f-string template -/
inductive Piece where
  | lit (s : List Char)
  | fld (f : Field)
  deriving DecidableEq, Repr, Inhabited

/-- where `write_cif` takes the value of one mmCIF attribute from (PDB-derived tables) -/
inductive CifSrc where
  | col (f : Field)
  | const (s : List Char)
  deriving DecidableEq, Repr, Inhabited

end RnaVerif.Pdb

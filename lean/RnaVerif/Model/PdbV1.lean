import RnaVerif.Generated.Parser
import RnaVerif.Model.SecStr
/-!
# M6 (reader v1 part) — `rnapolis.parser`: PDB / mmCIF atom tables → residues (core only, executable)

Mirrors what `/repo/src/rnapolis/parser.py` *does*:

* `parseLineV1` / `parsePdb`  — `parse_pdb`: record-name tests, column slices (from `Gen.Parser`),
  Python `int()` / `float()` / `str.strip()` on ASCII, the running MODEL number;
* `decodeCifRow`              — the `_atom_site` row loop of `parse_cif` (null markers from `Gen.Parser`);
* `filterDup` → `filterClash` — the two halves of `filter_clashing_atoms` (insertion-ordered dict with
  "replace on strictly greater occupancy"; pairs within the clash distance, the copy of lower
  occupancy — on a tie the *earlier* one — is discarded; pairs with an absent occupancy are skipped);
* `selectModel`               — `read_3d_structure`: requested model if some surviving atom has it,
  else the model of the first surviving atom;
* `group`                     — `group_atoms`: maximal runs of equal `(label, auth, model)`.

The order `filterDup → filterClash → selectModel → group` is the order of the code.  The pipeline is
parameterised by `Cfg` (does the de-duplication key contain the model, are clashes restricted to one
model, is the occupancy comparison `None`-safe); `codeCfg` reads these three switches from the
regenerated `Gen.Parser`, so the model follows the source both before and after a repair.

Numbers: coordinates and occupancies are *decimal texts* in the files; `Dec` keeps mantissa and
number of decimals exactly, and a table is brought to one common unit (`Tok`: integers in units of
`1/u` Å resp. `1/ou`) before the pipeline runs, so all comparisons are exact integer comparisons.
-/
namespace RnaVerif.PdbV1
open RnaVerif

/-! ## records -/

structure Label where
  chain : String
  number : Int
  name : String
deriving DecidableEq, Repr, Inhabited

structure Auth where
  chain : String
  number : Int
  icode : Option String
  name : String
deriving DecidableEq, Repr, Inhabited

/-- one atom record with numbers in fixed point: `x y z` in units of `1/u` Å, `occ` in units of `1/ou`.
`alt` and `het` are carried for the specification side only: reader v1 never reads the altloc column
and does not distinguish ATOM from HETATM. -/
structure Tok where
  model : Int
  entity : Option String
  label : Option Label
  auth : Option Auth
  name : String
  alt : String
  occ : Option Int
  x : Int
  y : Int
  z : Int
  het : Bool
deriving DecidableEq, Repr, Inhabited

/-- the three switches in which a repaired reader may differ from the present one -/
structure Cfg where
  /-- the model number is part of the de-duplication key -/
  keyModel : Bool
  /-- two atoms only clash when they belong to the same model -/
  clashPerModel : Bool
  /-- an absent occupancy counts as 0 when copies are compared (else: `TypeError`) -/
  noneSafe : Bool
deriving DecidableEq, Repr

/-- what the property demands -/
def cfgFixed : Cfg := ⟨true, true, true⟩
/-- the reader as first found -/
def cfgLegacy : Cfg := ⟨false, false, false⟩
/-- what the present source does (regenerated) -/
def codeCfg : Cfg :=
  ⟨Gen.Parser.dedupKey.contains "model", Gen.Parser.clashSameModel, Gen.Parser.occNoneSafe⟩

/-- occupancy as compared by the code when it is `None`-safe: absent = 0 -/
def occv (t : Tok) : Int := t.occ.getD 0

/-! ## de-duplication (first half of `filter_clashing_atoms`) -/

/-- the de-duplication key `(atom.label, atom.auth, atom.name)` (+ the model when `cfg.keyModel`) -/
def key (cfg : Cfg) (t : Tok) : String × Option Auth × Option Label × Option Int :=
  (t.name, t.auth, t.label, if cfg.keyModel then some t.model else none)

def sameKey (cfg : Cfg) (a b : Tok) : Bool :=
  a.name == b.name && a.auth == b.auth && a.label == b.label && (!cfg.keyModel || a.model == b.model)

/-- `unique_atoms[key] = atom` when the key is new or the occupancy strictly greater; the dict keeps
the position of the first insertion of a key -/
def upsert (cfg : Cfg) (a : Tok) : List Tok → List Tok
  | [] => [a]
  | c :: rest =>
    if sameKey cfg c a then (if occv c < occv a then a :: rest else c :: rest)
    else c :: upsert cfg a rest

/-- the same with the `TypeError` of `None > x` -/
def upsertE (cfg : Cfg) (a : Tok) : List Tok → Except Err (List Tok)
  | [] => .ok [a]
  | c :: rest =>
    if sameKey cfg c a then
      if !cfg.noneSafe && (a.occ.isNone || c.occ.isNone) then .error .typeError
      else .ok (if occv c < occv a then a :: rest else c :: rest)
    else match upsertE cfg a rest with
      | .ok r => .ok (c :: r)
      | .error e => .error e

def dedup (cfg : Cfg) (l : List Tok) : List Tok := l.foldl (fun acc a => upsert cfg a acc) []

def filterDupFrom (cfg : Cfg) : List Tok → List Tok → Except Err (List Tok)
  | acc, [] => .ok acc
  | acc, a :: rest => match upsertE cfg a acc with
    | .ok acc' => filterDupFrom cfg acc' rest
    | .error e => .error e

def filterDup (cfg : Cfg) (l : List Tok) : Except Err (List Tok) := filterDupFrom cfg [] l

/-! ## clash filter (second half) -/

def clashNum : Nat := Gen.Parser.clashNum
def clashDen : Nat := Gen.Parser.clashDen

def dist2 (a b : Tok) : Int :=
  (a.x - b.x) * (a.x - b.x) + (a.y - b.y) * (a.y - b.y) + (a.z - b.z) * (a.z - b.z)

/-- distance ≤ clash distance `p/q` Å, coordinates in units of `1/u` Å: `q²·d² ≤ p²·u²` -/
def closeB (u : Nat) (a b : Tok) : Bool :=
  decide ((clashDen * clashDen : Nat) * dist2 a b ≤ ((clashNum * clashNum * (u * u) : Nat) : Int))

/-- a pair the loop over `query_pairs` acts on -/
def clashes (cfg : Cfg) (u : Nat) (a b : Tok) : Bool :=
  (!cfg.clashPerModel || a.model == b.model) && a.occ.isSome && b.occ.isSome && closeB u a b

/-- `a` is discarded because of an *earlier* atom `b` (pair `(b, a)`: `occ b > occ a`) -/
def beatenByEarlier (cfg : Cfg) (u : Nat) (a b : Tok) : Bool := clashes cfg u a b && decide (occv a < occv b)
/-- `a` is discarded because of a *later* atom `b` (pair `(a, b)`: not `occ a > occ b`) -/
def beatenByLater (cfg : Cfg) (u : Nat) (a b : Tok) : Bool := clashes cfg u a b && decide (occv a ≤ occv b)

/-- every pair is judged independently of earlier discards, exactly as the loop over the pair set
does (so the iteration order of that set is irrelevant); survivors in list order -/
def filterClashAux (cfg : Cfg) (u : Nat) : List Tok → List Tok → List Tok
  | _, [] => []
  | pre, a :: rest =>
    if pre.any (beatenByEarlier cfg u a) || rest.any (beatenByLater cfg u a)
    then filterClashAux cfg u (a :: pre) rest
    else a :: filterClashAux cfg u (a :: pre) rest

/-- `KDTree(np.array([]))` raises `ValueError` on an empty table -/
def filterClash (cfg : Cfg) (u : Nat) (l : List Tok) : Except Err (List Tok) :=
  if l.isEmpty then .error .valueError else .ok (filterClashAux cfg u [] l)

/-! ## model selection and grouping -/

/-- the model `read_3d_structure` settles on: the requested one when some atom has it, else the
model of the first atom -/
def targetModel (req : Option Int) : List Tok → Option Int
  | [] => none
  | a :: rest => some (match req with
      | some r => if (a :: rest).any (fun t => t.model == r) then r else a.model
      | none => a.model)

def selectModel (req : Option Int) (l : List Tok) : List Tok :=
  match targetModel req l with
  | none => []
  | some m => l.filter (fun t => t.model == m)

def sameRes (a b : Tok) : Bool := a.label == b.label && a.auth == b.auth && a.model == b.model

/-- maximal runs of atoms with equal `(label, auth, model)` -/
def group : List Tok → List (List Tok)
  | [] => []
  | a :: rest =>
    match group rest with
    | (b :: g) :: gs => if sameRes a b then (a :: b :: g) :: gs else [a] :: (b :: g) :: gs
    | [] :: gs => [a] :: gs   -- unreachable: groups are never empty
    | [] => [[a]]

/-- the whole of `parse_* → filter_clashing_atoms → read_3d_structure → group_atoms` on a token table -/
def read (cfg : Cfg) (u : Nat) (req : Option Int) (l : List Tok) : Except Err (List (List Tok)) :=
  match filterDup cfg l with
  | .error e => .error e
  | .ok d => match filterClash cfg u d with
    | .error e => .error e
    | .ok c => .ok (group (selectModel req c))

/-! ## the specification predicate of C08 (decidable; evaluated on outputs of the real code)

`l` = the atom table as written (all models), `r` = the residues returned. -/

def keyFull (t : Tok) := key cfgFixed t
def sameKeyFull (a b : Tok) : Bool := sameKey cfgFixed a b

/-- `occ b ≤ occ a`, vacuous when one of them is absent -/
def occLe (b a : Tok) : Bool :=
  match b.occ, a.occ with
  | some x, some y => decide (x ≤ y)
  | _, _ => true

def pairwiseB {α} (p : α → α → Bool) : List α → Bool
  | [] => true
  | a :: rest => rest.all (p a) && pairwiseB p rest

def adjDiffer : List (List Tok) → Bool
  | (a :: _) :: (b :: g2) :: rest => !sameRes a b && adjDiffer ((b :: g2) :: rest)
  | _ => true

/-- a residue: non-empty, one identity -/
def groupOk (g : List Tok) : Bool := match g with | [] => false | h :: t => t.all (sameRes h)

def resKey (t : Tok) : Option Label × Option Auth × Int := (t.label, t.auth, t.model)

/-- the clause `complete` for one record (index of the first failing record is reported by the driver) -/
def excused (u : Nat) (a lm : List Tok) (b : Tok) : Bool :=
  a.contains b ||
    lm.any (fun c => sameKeyFull c b && occLe b c && c != b) ||
    lm.any (fun c => closeB u b c && b.occ.isSome && c.occ.isSome && decide (occv b ≤ occv c) && c != b)

structure SpecReport where
  onlyModel : Bool   -- every returned atom carries the target model
  fromFile : Bool    -- every returned atom is a record of the file, fields untouched
  once : Bool        -- no two returned atoms share (model, residue identity, atom name)
  maxOcc : Bool      -- a returned atom has the highest occupancy among its copies
  noClose : Bool     -- no two returned atoms (with occupancies) lie within the clash distance
  complete : Bool    -- a record of the target model that is missing has a copy or a neighbour that outranks it
  grouped : Bool     -- residues are non-empty runs of one identity, neighbours differ
  order : Bool       -- residue identities in file order
deriving DecidableEq, Repr

def spec (u : Nat) (req : Option Int) (l : List Tok) (r : List (List Tok)) : SpecReport :=
  match targetModel req l with
  | none => ⟨r.isEmpty, r.isEmpty, true, true, true, true, r.isEmpty, true⟩
  | some m =>
    let a := r.flatten
    let lm := l.filter (fun t => t.model == m)
    { onlyModel := a.all (fun t => t.model == m)
      fromFile := a.all (fun t => l.contains t)
      once := pairwiseB (fun s t => !sameKeyFull s t) a
      maxOcc := a.all (fun s => lm.all (fun t => !sameKeyFull s t || occLe t s))
      noClose := pairwiseB (fun s t => !(s.occ.isSome && t.occ.isSome && closeB u s t)) a
      complete := lm.all (excused u a lm)
      grouped := r.all groupOk && adjDiffer r
      order := (r.map (fun g => (g.map resKey).head?)).isSublist ((lm.map resKey).map some) }

def SpecReport.ok (s : SpecReport) : Bool :=
  s.onlyModel && s.fromFile && s.once && s.maxOcc && s.noClose && s.complete && s.grouped && s.order

def SpecReport.firstFail (s : SpecReport) : String :=
  if !s.onlyModel then "other-model" else if !s.fromFile then "fields" else if !s.once then "repeated-atom"
  else if !s.maxOcc then "not-highest-occupancy" else if !s.noClose then "close-pair-kept"
  else if !s.complete then "atom-lost" else if !s.grouped then "grouping" else if !s.order then "residue-order"
  else "ok"

/-- some pair of atoms of `lm` (at distance > 0) lies within 1e-6 Å of the clash distance -/
def nearThresholdL (u : Nat) (lm : List Tok) : Bool :=
  let q : Int := clashDen * 1000000
  let lo : Int := (clashNum * 1000000 : Nat) - (clashDen : Int)
  let hi : Int := (clashNum * 1000000 : Nat) + (clashDen : Int)
  lm.any (fun a => lm.any (fun b =>
    let d := dist2 a b * q * q
    decide (lo * lo * (u * u : Nat) ≤ d) && decide (d ≤ hi * hi * (u * u : Nat)) && decide (0 < dist2 a b)))

/-- the same among the atoms of the target model: distance-dependent clauses are then not judged -/
def nearThreshold (u : Nat) (req : Option Int) (l : List Tok) : Bool :=
  match targetModel req l with
  | none => false
  | some m => nearThresholdL u (l.filter (fun t => t.model == m))

/-! ## text level: Python `strip`, `int`, `float`, slices -/

def isPyWs (c : Char) : Bool :=
  c == ' ' || c == '\t' || c == '\n' || c == '\r' || c.toNat == 11 || c.toNat == 12 ||
  (28 ≤ c.toNat && c.toNat ≤ 31)

def stripL (l : List Char) : List Char := l.dropWhile isPyWs
def strip (l : List Char) : List Char := (stripL (stripL l).reverse).reverse

/-- `line[lo:hi]` -/
def slice (l : List Char) (s : Nat × Nat) : List Char := (l.drop s.1).take (s.2 - s.1)

def digitVal (c : Char) : Option Nat := if c.isDigit then some (c.toNat - 48) else none

def natOfDigits : Nat → List Char → Option Nat
  | acc, [] => some acc
  | acc, c :: rest => match digitVal c with
    | some d => natOfDigits (acc * 10 + d) rest
    | none => none

/-- Python `int(s)` on ASCII text without underscores: `[ws][+-]digits[ws]` -/
def pyInt (l : List Char) : Option Int :=
  match strip l with
  | [] => none
  | '-' :: ds => if ds.isEmpty then none else (natOfDigits 0 ds).map (fun n => -(n : Int))
  | '+' :: ds => if ds.isEmpty then none else (natOfDigits 0 ds).map (fun n => (n : Int))
  | ds => (natOfDigits 0 ds).map (fun n => (n : Int))

/-- exact decimal: `mant / 10^dec` -/
structure Dec where
  mant : Int
  dec : Nat
deriving DecidableEq, Repr, Inhabited

def decBody (l : List Char) : Option (Nat × Nat) :=
  let ip := l.takeWhile (· != '.')
  let rest := l.dropWhile (· != '.')
  match rest with
  | [] => if ip.isEmpty then none else (natOfDigits 0 ip).map (fun n => (n, 0))
  | _ :: fp =>
    if ip.isEmpty && fp.isEmpty then none
    else match natOfDigits 0 (ip ++ fp) with
      | some n => some (n, fp.length)
      | none => none

/-- Python `float(s)` on plain decimal text (no exponent, no inf/nan, no underscores):
`[ws][+-](digits[.digits*] | .digits)[ws]`, kept exactly -/
def pyFloat (l : List Char) : Option Dec :=
  match strip l with
  | [] => none
  | '-' :: ds => (decBody ds).map (fun p => ⟨-(p.1 : Int), p.2⟩)
  | '+' :: ds => (decBody ds).map (fun p => ⟨(p.1 : Int), p.2⟩)
  | ds => (decBody ds).map (fun p => ⟨(p.1 : Int), p.2⟩)

/-- atom record before the numbers are brought to a common unit -/
structure RawTok where
  model : Int
  entity : Option String
  label : Option Label
  auth : Option Auth
  name : String
  alt : String
  occ : Option Dec
  x : Dec
  y : Dec
  z : Dec
  het : Bool
deriving DecidableEq, Repr, Inhabited

inductive LineV1 where
  | skip
  | model (m : Int)
  | atom (t : RawTok)
deriving DecidableEq, Repr

def startsWith (line : List Char) (s : String) : Bool := s.toList.isPrefixOf line

def str (l : List Char) : String := String.ofList l

/-- one line of `parse_pdb` (with its trailing newline, as `readlines()` delivers it);
`cur` = the running model number -/
def parseLineV1 (cur : Int) (line : List Char) : Except Err LineV1 :=
  match Gen.Parser.pdbRecordTests.find? (startsWith line) with
  | some "MODEL" =>
    match pyInt (slice line Gen.Parser.pdbModelNum) with
    | some m => .ok (.model m)
    | none => .error .valueError
  | some "MODRES" =>
    -- only its exceptions matter here: line[16], int(line[18:22]), line[23]
    if line.length ≤ Gen.Parser.modresChain.1 then .error .indexError
    else match pyInt (slice line Gen.Parser.modresNum) with
      | none => .error .valueError
      | some _ => if line.length ≤ Gen.Parser.modresIcode.1 then .error .indexError else .ok .skip
  | some rec =>
    if rec == "ATOM" || rec == "HETATM" then
      let name := strip (slice line Gen.Parser.pdbAtomName)
      let resn := strip (slice line Gen.Parser.pdbResName)
      match line[Gen.Parser.pdbChain.1]? with
      | none => .error .indexError
      | some ch =>
        match pyInt (slice line Gen.Parser.pdbResNum) with
        | none => .error .valueError
        | some num =>
          match line[Gen.Parser.pdbIcode.1]? with
          | none => .error .indexError
          | some ic =>
            match pyFloat (slice line Gen.Parser.pdbX), pyFloat (slice line Gen.Parser.pdbY),
                  pyFloat (slice line Gen.Parser.pdbZ), pyFloat (slice line Gen.Parser.pdbOcc) with
            | some x, some y, some z, some o =>
              let icode := if String.singleton ic == Gen.Parser.pdbIcodeBlank then none else some (String.singleton ic)
              .ok (.atom { model := cur, entity := none, label := none,
                           auth := some ⟨String.singleton ch, num, icode, str resn⟩, name := str name, alt := "",
                           occ := some o, x := x, y := y, z := z, het := startsWith line "HETATM" })
            | _, _, _, _ => .error .valueError
    else .ok .skip
  | none => .ok .skip

/-- `readlines()`: lines keep their `\n` -/
def splitLines : List Char → List Char → List (List Char)
  | cur, [] => if cur.isEmpty then [] else [cur.reverse]
  | cur, c :: rest => if c == '\n' then (c :: cur).reverse :: splitLines [] rest else splitLines (c :: cur) rest

def parseLines : Int → List (List Char) → Except Err (List RawTok)
  | _, [] => .ok []
  | cur, l :: rest =>
    match parseLineV1 cur l with
    | .error e => .error e
    | .ok .skip => parseLines cur rest
    | .ok (.model m) => parseLines m rest
    | .ok (.atom t) => match parseLines cur rest with
      | .ok ts => .ok (t :: ts)
      | .error e => .error e

/-- `parse_pdb` up to the call of `filter_clashing_atoms`; the model number starts at 1 -/
def parsePdb (text : List Char) : Except Err (List RawTok) := parseLines 1 (splitLines [] text)

/-! ## mmCIF `_atom_site` row decoding (`parse_cif`) -/

/-- `try_parse_int(row_dict.get(..))`: `int(None)` is a `TypeError` that is not caught -/
def tryParseInt : Option String → Except Err (Option Int)
  | none => .error .typeError
  | some s => .ok (pyInt s.toList)

/-- names of the attributes this decoder reads (bridge theorem: = `Gen.Parser.cifAttrs` as a set) -/
def cifAttrsRead : List String :=
  ["label_entity_id", "label_asym_id", "label_seq_id", "label_comp_id", "auth_asym_id", "auth_seq_id",
   "auth_comp_id", "pdbx_PDB_ins_code", "pdbx_PDB_model_num", "label_atom_id", "Cartn_x", "Cartn_y", "Cartn_z",
   "occupancy"]

/-- one row; `get` = `row_dict.get`.  `none` = the row is skipped. -/
def decodeCifRow (icodeNull occNull : List String) (nameFallback : Bool) (get : String → Option String) :
    Except Err (Option RawTok) :=
  let ent := get "label_entity_id"
  let lch := get "label_asym_id"
  match tryParseInt (get "label_seq_id") with
  | .error e => .error e
  | .ok lnum =>
  let lname := get "label_comp_id"
  let ach := get "auth_asym_id"
  match tryParseInt (get "auth_seq_id") with
  | .error e => .error e
  | .ok anum =>
  let aname := get "auth_comp_id"
  let icode := match get "pdbx_PDB_ins_code" with
    | some s => if icodeNull.contains s then none else some s
    | none => none
  if lch.isNone && ach.isNone then .error .other
  else if lnum.isNone && anum.isNone then .error .other
  else if lname.isNone && aname.isNone then .error .other
  else
    let label : Option Label := match lch, lnum, lname with
      | some c, some n, some m => some ⟨c, n, m⟩
      | _, _, _ => none
    let auth0 : Option Auth := match ach, anum, aname with
      | some c, some n, some m => some ⟨c, n, icode, m⟩
      | _, _, _ => none
    let auth : Option Auth :=
      if nameFallback && label.isNone && auth0.isNone then
        match ach, anum, lname with
        | some c, some n, some m => some ⟨c, n, icode, m⟩
        | _, _, _ => none
      else auth0
    if label.isNone && auth.isNone then .ok none
    else match pyInt ((get "pdbx_PDB_model_num").getD Gen.Parser.cifModelDefault).toList with
      | none => .error .valueError
      | some model =>
        match get "label_atom_id" with
        | none => .error .keyError
        | some name =>
          match get "Cartn_x", get "Cartn_y", get "Cartn_z" with
          | some xs, some ys, some zs =>
            match pyFloat xs.toList with
            | none => .error .valueError
            | some x => match pyFloat ys.toList with
              | none => .error .valueError
              | some y => match pyFloat zs.toList with
                | none => .error .valueError
                | some z =>
                  let occE : Except Err (Option Dec) := match get "occupancy" with
                    | none => .ok none
                    | some s => if occNull.contains s then .ok none else match pyFloat s.toList with
                      | some o => .ok (some o)
                      | none => .error .valueError
                  match occE with
                  | .error e => .error e
                  | .ok occ => .ok (some { model := model, entity := ent, label := label, auth := auth, name := name,
                                           alt := "", occ := occ, x := x, y := y, z := z, het := false })
          | _, _, _ => .error .keyError

def decodeCifRows (icodeNull occNull : List String) (fb : Bool) (attrs : List String) :
    List (List String) → Except Err (List RawTok)
  | [] => .ok []
  | row :: rest =>
    let get := fun a => (attrs.zip row).lookup a
    match decodeCifRow icodeNull occNull fb get with
    | .error e => .error e
    | .ok none => decodeCifRows icodeNull occNull fb attrs rest
    | .ok (some t) => match decodeCifRows icodeNull occNull fb attrs rest with
      | .ok ts => .ok (t :: ts)
      | .error e => .error e

/-! ## common unit -/

def Dec.scaleTo (d : Dec) (k : Nat) : Int := d.mant * (10 ^ (k - d.dec) : Nat)

def maxDec (l : List RawTok) : Nat := l.foldl (fun m t => max m (max t.x.dec (max t.y.dec t.z.dec))) 0
def maxOccDec (l : List RawTok) : Nat := l.foldl (fun m t => max m (match t.occ with | some o => o.dec | none => 0)) 0

def RawTok.toTok (k ko : Nat) (t : RawTok) : Tok :=
  { model := t.model, entity := t.entity, label := t.label, auth := t.auth, name := t.name, alt := t.alt,
    occ := t.occ.map (·.scaleTo ko), x := t.x.scaleTo k, y := t.y.scaleTo k, z := t.z.scaleTo k, het := t.het }

/-- (decimals of the coordinate unit, decimals of the occupancy unit, tokens) -/
def toToks (l : List RawTok) : Nat × Nat × List Tok :=
  let k := maxDec l
  let ko := maxOccDec l
  (k, ko, l.map (RawTok.toTok k ko))

/-! ## an independent PDB line emitter (for the round-trip theorem of the column slicer) -/

def natDigitsAux : Nat → Nat → List Char → List Char
  | 0, _, acc => acc
  | fuel + 1, n, acc =>
    let acc' := Char.ofNat (48 + n % 10) :: acc
    if n / 10 = 0 then acc' else natDigitsAux fuel (n / 10) acc'

def natDigits (n : Nat) : List Char := natDigitsAux (n + 1) n []

def intText (i : Int) : List Char := if i < 0 then '-' :: natDigits i.natAbs else natDigits i.natAbs

def padLeft (w : Nat) (l : List Char) : List Char := List.replicate (w - l.length) ' ' ++ l
def padRight (w : Nat) (l : List Char) : List Char := l ++ List.replicate (w - l.length) ' '

/-- fixed-point text with `d` decimals of `m / 10^d` -/
def fixedText (d : Nat) (m : Int) : List Char :=
  let a := m.natAbs
  let ip := natDigits (a / 10 ^ d)
  let fp := natDigits (a % 10 ^ d)
  let body := ip ++ '.' :: (List.replicate (d - fp.length) '0' ++ fp)
  if m < 0 then '-' :: body else body

/-- what an ATOM/HETATM line is made of -/
structure PdbAtom where
  het : Bool
  serial : Nat
  name : List Char      -- 1..4 characters, no white space
  alt : Char
  resName : List Char   -- 1..3 characters, no white space
  chain : Char
  num : Int             -- -999 .. 9999
  icode : Char          -- ' ' = none
  x : Int               -- thousandths, -999999 .. 9999999
  y : Int
  z : Int
  occ : Int             -- hundredths, 0 .. 99999
  model : Int
deriving DecidableEq, Repr

def formatAtom (a : PdbAtom) : List Char :=
  (if a.het then "HETATM".toList else "ATOM  ".toList) ++ padLeft 5 (natDigits (a.serial % 100000)) ++ [' '] ++
  (if a.name.length ≥ 4 then a.name else padRight 4 (' ' :: a.name)) ++ [a.alt] ++ padLeft 3 a.resName ++ [' ', a.chain] ++
  padLeft 4 (intText a.num) ++ [a.icode] ++ [' ', ' ', ' '] ++
  padLeft 8 (fixedText 3 a.x) ++ padLeft 8 (fixedText 3 a.y) ++ padLeft 8 (fixedText 3 a.z) ++
  padLeft 6 (fixedText 2 a.occ) ++ padLeft 6 (fixedText 2 0) ++ ['\n']

/-- the record `parseLineV1` must extract from `formatAtom a` -/
def PdbAtom.raw (a : PdbAtom) : RawTok :=
  { model := a.model, entity := none, label := none,
    auth := some ⟨String.singleton a.chain, a.num, if a.icode = ' ' then none else some (String.singleton a.icode),
                  str a.resName⟩,
    name := str a.name, alt := "", occ := some ⟨a.occ, 2⟩, x := ⟨a.x, 3⟩, y := ⟨a.y, 3⟩, z := ⟨a.z, 3⟩, het := a.het }

end RnaVerif.PdbV1

import RnaVerif.Model.ElementsSpec
import RnaVerif.Model.Levels
/-!
# M1 — the BpSeq object as a state machine with cache slots (C12)

`BpSeq` caches `dot_bracket`, `fcfs`, `all_dot_brackets`, `elements`, `sequence`, the stems and
regions in `cached_property` slots.  The model keeps the entries and one slot per cached answer;
a query fills its slot on first use and answers from the slot afterwards.  Derived objects
(`without_pseudoknots`, `without_isolated`) are *values*.  The MILP solver's choice among optimal
notations is a parameter `opt` (a function of the entries only).
-/
namespace RnaVerif.SecStr

inductive Op where
  | str | pairs | dotBracket | fcfs | allDB | elements | withoutIsolated | withoutPseudoknots
deriving DecidableEq, Repr

/-- canonical answers (what the harness compares) -/
inductive Answer where
  | text (s : String)
  | err (e : Err)
deriving DecidableEq, Repr

structure Obj where
  entries : List Entry
  cDot : Option (Except Err (List Char)) := none
  cFcfs : Option (Except Err (List Char)) := none
  cAll : Option (Except Err (List (List Char))) := none
  cElems : Option (Except Err (List String)) := none

def showEntriesText (es : List Entry) : String :=
  "\n".intercalate (es.map (fun e => s!"{e.idx} {e.ch} {e.pair}"))

def showPairsDict (es : List Entry) : String :=
  -- `self.pairs` (built once in __post_init__): i -> j for every paired entry, both directions
  ",".intercalate ((es.filter (fun e => e.pair != 0)).map (fun e => s!"{e.idx}:{e.pair}"))

def ansOf {α} (f : α → String) : Except Err α → Answer
  | .ok a => .text (f a)
  | .error e => .err e

def elementsOf (es : List Entry) (db : Except Err (List Char)) : Except Err (List String) :=
  if es.isEmpty then .ok [] else db.map (fun d => (elements es d).describe)

/-- answer of `op` computed from scratch on the entries (what a fresh object answers) -/
def answerFresh (opt : List Entry → Except Err (List Char)) (es : List Entry) : Op → Answer
  | .str => .text (showEntriesText es)
  | .pairs => .text (showPairsDict es)
  | .dotBracket => ansOf String.ofList (opt es)
  | .fcfs => ansOf String.ofList (fcfs es)
  | .allDB => ansOf (fun l => ",".intercalate (l.map String.ofList)) (allDB es)
  | .elements => ansOf (fun l => "|".intercalate l) (elementsOf es (opt es))
  | .withoutIsolated => ansOf showEntriesText (
      if es.isEmpty then .ok es else (opt es).map (fun _ => withoutIsolated es))
  | .withoutPseudoknots => ansOf showEntriesText ((opt es).bind (withoutPseudoknots es))

def step (opt : List Entry → Except Err (List Char)) (o : Obj) : Op → Obj × Answer
  | .str => (o, .text (showEntriesText o.entries))
  | .pairs => (o, .text (showPairsDict o.entries))
  | .dotBracket =>
    let d := o.cDot.getD (opt o.entries)
    ({ o with cDot := some d }, ansOf String.ofList d)
  | .fcfs =>
    let d := o.cFcfs.getD (fcfs o.entries)
    ({ o with cFcfs := some d }, ansOf String.ofList d)
  | .allDB =>
    let d := o.cAll.getD (allDB o.entries)
    -- the knot-free branch goes through `self.fcfs` and fills that slot as well
    ({ o with cAll := some d }, ansOf (fun l => ",".intercalate (l.map String.ofList)) d)
  | .elements =>
    match o.cElems with
    | some e => (o, ansOf (fun l => "|".intercalate l) e)
    | none =>
      if o.entries.isEmpty then
        ({ o with cElems := some (.ok []) }, .text "")
      else
        let d := o.cDot.getD (opt o.entries)
        let e := d.map (fun db => (elements o.entries db).describe)
        ({ o with cDot := some d, cElems := some e }, ansOf (fun l => "|".intercalate l) e)
  | .withoutIsolated =>
    if o.entries.isEmpty then
      ({ o with cElems := some (o.cElems.getD (.ok [])) }, .text (showEntriesText o.entries))
    else
      let d := o.cDot.getD (opt o.entries)
      let e := o.cElems.getD (d.map (fun db => (elements o.entries db).describe))
      ({ o with cDot := some d, cElems := some e }, ansOf showEntriesText (d.map (fun _ => withoutIsolated o.entries)))
  | .withoutPseudoknots =>
    let d := o.cDot.getD (opt o.entries)
    ({ o with cDot := some d }, ansOf showEntriesText (d.bind (withoutPseudoknots o.entries)))

def run (opt : List Entry → Except Err (List Char)) : Obj → List Op → List Answer
  | _, [] => []
  | o, op :: ops => let (o', a) := step opt o op; a :: run opt o' ops

end RnaVerif.SecStr

import RnaVerif.Model.Pure
import RnaVerif.Model.Convert
import RnaVerif.Model.Text
/-!
# M1 — the BpSeq object model, extended to more of the public surface (C12)

`Model/Pure.lean` covers the eight calls named in the property's observation points.  This file
wraps that machine (nothing in it is edited) with the remaining public calls of `BpSeq` that a
user can interleave with them:

* `convert present outcome` — `convert_to_dot_bracket(solver)` with an **explicit** solver argument.
  What the solver did is the C13 parameter (`present = false` is `solver=None`; `Outcome` is what a
  present solver did).  The method is *not* cached: it never reads or writes the `dot_bracket`
  slot.  Its fall-backs return `self.fcfs` (a cached property): they read/fill the `fcfs` slot.
* `sequence` — a `cached_property` with its own slot (`__make_dot_bracket` fills it as well; which
  slots happen to be filled is not observable, see `Lemmas/PureExt.lean`, where the main theorem is
  proved from *every* consistent pattern of filled slots).
* `pairsDict` — the dictionary `self.pairs` built in `__post_init__` (both directions inserted, a
  later write of a key replaces the value and keeps the key's position), listed by ascending key.
* `eq other` — `__eq__`: equal lengths and pointwise equal entries (dataclass equality of `Entry`).
* `roundTrip` — `BpSeq.from_string(str(b))`: its text and whether it `==` the receiver, through the
  text model of C01 (`Model/Text.lean`).
-/
namespace RnaVerif.SecStr

inductive OpX where
  | base (op : Op)
  | convert (present : Bool) (out : Outcome)
  | sequence
  | pairsDict
  | eq (other : List Entry)
  | roundTrip
deriving Repr

structure ObjX where
  base : Obj
  cSeq : Option (List Char) := none

/-! ### `convert_to_dot_bracket(solver)` on the object: which slots it touches -/

/-- value of the `k`-th fall-back expression evaluated **on the object**: `self.fcfs` reads the
cached property (filling its slot on first use); `self.fcfs()` then calls the returned
`DotBracket` (TypeError).  Mirrors `fallback` of `Model/Convert.lean` case by case. -/
def fallbackObj (o : Obj) (k : Nat) : Obj × Except Err (List Char) :=
  let isCall := Gen.fallbackCalls.getD k false
  if Gen.fcfsIsProperty then
    let d := o.cFcfs.getD (fcfs o.entries)
    ({ o with cFcfs := some d },
      if isCall then (match d with | .ok _ => .error .typeError | .error e => .error e) else d)
  else
    (o, if isCall then fcfs o.entries else .error .other)

/-- `convert_to_dot_bracket(solver)` on the object.  Mirrors `convert`; no branch mentions `cDot`. -/
def convertObj (o : Obj) (solverPresent : Bool) (out : Outcome) : Obj × Except Err (List Char) :=
  if !solverPresent then fallbackObj o 0
  else
    let regs := regions o.entries
    if noEdges Gen.conflictConvert regs then (o, mkDB o.entries.length regs (regs.map (fun _ => 0)))
    else match out with
      | .raises => fallbackObj o 1
      | .notOptimal => fallbackObj o 2
      | .optimal ones => (o, mkDB o.entries.length regs (readBack regs.length ones))

/-! ### `self.pairs` -/

/-- `d[k] = v` on an insertion-ordered dictionary -/
def dictSet (d : List (Nat × Nat)) (k v : Nat) : List (Nat × Nat) :=
  if d.any (fun p => p.1 == k) then d.map (fun p => if p.1 == k then (k, v) else p) else d ++ [(k, v)]

/-- `__post_init__`: `for i, _, j in entries: if j != 0: pairs[i] = j; pairs[j] = i` -/
def pairsDict (es : List Entry) : List (Nat × Nat) :=
  es.foldl (fun d e => if e.pair != 0 then dictSet (dictSet d e.idx e.pair) e.pair e.idx else d) []

def insertByKey (p : Nat × Nat) : List (Nat × Nat) → List (Nat × Nat)
  | [] => [p]
  | q :: qs => if p.1 ≤ q.1 then p :: q :: qs else q :: insertByKey p qs

def sortByKey (l : List (Nat × Nat)) : List (Nat × Nat) := l.foldr insertByKey []

def showDictSorted (d : List (Nat × Nat)) : String :=
  ",".intercalate ((sortByKey d).map (fun p => s!"{p.1}:{p.2}"))

/-! ### `__eq__` and the text round trip -/

def pyBool (b : Bool) : String := if b then "True" else "False"

/-- `len(self.entries) == len(other.entries) and all(ei == ej for ei, ej in zip(...))` -/
def eqEntries (a b : List Entry) : Bool :=
  a.length == b.length && (a.zip b).all (fun p => p.1.idx == p.2.idx && p.1.ch == p.2.ch && p.1.pair == p.2.pair)

/-- `r = BpSeq.from_string(str(b))` ↦ `str(r)` and `r == b`, separated by `|` -/
def roundTripAnswer (es : List Entry) : Answer :=
  match Text.parseBpseq (Text.printBpseq es) with
  | .error e => .err e
  | .ok es' => .text (Text.printBpseqS es' ++ "|" ++ pyBool (es' == es.map Text.EntryS.ofEntry))

/-! ### the machine -/

/-- answer of a fresh object -/
def answerFreshX (opt : List Entry → Except Err (List Char)) (es : List Entry) : OpX → Answer
  | .base op => answerFresh opt es op
  | .convert present out => ansOf String.ofList (convert es present out)
  | .sequence => .text (String.ofList (sequence es))
  | .pairsDict => .text (showDictSorted (pairsDict es))
  | .eq other => .text (pyBool (eqEntries es other))
  | .roundTrip => roundTripAnswer es

def stepX (opt : List Entry → Except Err (List Char)) (o : ObjX) : OpX → ObjX × Answer
  | .base op =>
    let r := step opt o.base op
    ({ o with base := r.1 }, r.2)
  | .convert present out =>
    let r := convertObj o.base present out
    ({ o with base := r.1 }, ansOf String.ofList r.2)
  | .sequence =>
    let s := o.cSeq.getD (sequence o.base.entries)
    ({ o with cSeq := some s }, .text (String.ofList s))
  | .pairsDict => (o, .text (showDictSorted (pairsDict o.base.entries)))
  | .eq other => (o, .text (pyBool (eqEntries o.base.entries other)))
  | .roundTrip => (o, roundTripAnswer o.base.entries)

def runX (opt : List Entry → Except Err (List Char)) : ObjX → List OpX → List Answer
  | _, [] => []
  | o, op :: ops => let r := stepX opt o op; r.2 :: runX opt r.1 ops

/-- the object after a history -/
def afterX (opt : List Entry → Except Err (List Char)) (o : ObjX) (ops : List OpX) : ObjX :=
  ops.foldl (fun o op => (stepX opt o op).1) o

def freshX (es : List Entry) : ObjX := { base := { entries := es } }

end RnaVerif.SecStr

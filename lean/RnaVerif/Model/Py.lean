import RnaVerif.Generated.PyUnicode
/-!
# Semantic primitives of the Python subset accepted by `tools/py2lean.py` (import-free, executable)

`Generated/Functions.lean` (regenerated on every run from the source of whitelisted small pure functions)
is written in terms of these definitions only.  Each one mirrors one CPython operation on the value
domain of the subset:

* `str`  ↦ `String` (sequences of Unicode scalar values; lone surrogates are outside the domain),
* `int`  ↦ `Int`, `bool` ↦ `Bool`, `None | T` ↦ `Option T`, tuples ↦ products, enum members ↦ generated inductives,
* `float` ↦ `PyFloat := Option Rat` — a finite value or `nan` (`none`).  Only constants, comparisons, `min`/`max`
  and `math.isnan` are in the subset, so rounding never enters; infinities are outside the domain.
* "the call raises" ↦ `none` in the outer `Option` of a function translated in raising mode.

Unicode predicates (`str.isalpha`, `isdigit`, `isspace`) and the per-character case maps are tables
regenerated from the running interpreter (`Generated/PyUnicode.lean`).
-/
namespace RnaVerif.Py

/-- a Python float that is finite (`some q`, exact) or `nan` (`none`) -/
abbrev PyFloat := Option Rat

/-! ### text -/

/-- `len(s)` (code points) -/
def len (s : String) : Int := (s.toList.length : Nat)

def isInfix (n : List Char) : List Char → Bool
  | [] => n.isEmpty
  | c :: cs => n.isPrefixOf (c :: cs) || isInfix n cs

/-- `needle in hay` for two strings: the SUBSTRING test -/
def strIn (needle hay : String) : Bool := isInfix needle.toList hay.toList

/-- `s.startswith(p)` -/
def startsWith (s p : String) : Bool := p.toList.isPrefixOf s.toList

/-- `s.endswith(p)` -/
def endsWith (s p : String) : Bool := p.toList.isSuffixOf s.toList

/-- normalisation of one slice bound against length `n` (CPython `PySlice_AdjustIndices`, step 1) -/
def clampBound (n : Nat) (b : Int) : Nat :=
  if b < 0 then (b + (n : Int)).toNat else min b.toNat n

/-- `s[lo:hi]` with constant bounds (`none` = omitted) -/
def slice (s : String) (lo hi : Option Int) : String :=
  let cs := s.toList
  let n := cs.length
  let a := match lo with | none => 0 | some b => clampBound n b
  let z := match hi with | none => n | some b => clampBound n b
  String.ofList ((cs.take z).drop a)

/-- `s[i]`: a one-character string, `none` = IndexError -/
def index? (s : String) (i : Int) : Option String :=
  let cs := s.toList
  let j : Int := if i < 0 then i + (cs.length : Int) else i
  if j < 0 then none
  else match cs[j.toNat]? with
    | some c => some (String.singleton c)
    | none => none

def inRanges (t : List (Nat × Nat)) (c : Char) : Bool := t.any (fun r => r.1 ≤ c.toNat && c.toNat ≤ r.2)

/-- `c.isalpha()` for one character (ASCII fast path, then the regenerated Unicode table) -/
def alphaChar (c : Char) : Bool :=
  if c.toNat < 128 then (65 ≤ c.toNat && c.toNat ≤ 90) || (97 ≤ c.toNat && c.toNat ≤ 122)
  else inRanges Gen.PyU.alphaRanges c

def digitChar (c : Char) : Bool :=
  if c.toNat < 128 then 48 ≤ c.toNat && c.toNat ≤ 57 else inRanges Gen.PyU.digitRanges c

def spaceChar (c : Char) : Bool := inRanges Gen.PyU.spaceRanges c

/-- `s.isalpha()`: non-empty and every character alphabetic -/
def isAlpha (s : String) : Bool := !s.toList.isEmpty && s.toList.all alphaChar
/-- `s.isdigit()` -/
def isDigit (s : String) : Bool := !s.toList.isEmpty && s.toList.all digitChar
/-- `s.isspace()` -/
def isSpace (s : String) : Bool := !s.toList.isEmpty && s.toList.all spaceChar

/-- `s.strip()` (no argument: Unicode whitespace) -/
def strip (s : String) : String :=
  String.ofList ((s.toList.dropWhile spaceChar).reverse.dropWhile spaceChar).reverse

def upperChar (c : Char) : List Char :=
  if c.toNat < 128 then (if 97 ≤ c.toNat && c.toNat ≤ 122 then [Char.ofNat (c.toNat - 32)] else [c])
  else match Gen.PyU.upperTable.lookup c.toNat with
    | some s => s.map Char.ofNat
    | none => [c]

/-- `s.upper()` (context-free full case mapping, one table row per character) -/
def upper (s : String) : String := String.ofList (s.toList.flatMap upperChar)

def lowerChar (c : Char) : List Char :=
  if c.toNat < 128 then (if 65 ≤ c.toNat && c.toNat ≤ 90 then [Char.ofNat (c.toNat + 32)] else [c])
  else match Gen.PyU.lowerTable.lookup c.toNat with
    | some s => s.map Char.ofNat
    | none => [c]

/-- `s.lower()` for a string of AT MOST ONE character (the translator only emits it there: the
final-sigma rule of `str.lower` needs context and is outside the subset) -/
def lower1 (s : String) : String := String.ofList (s.toList.flatMap lowerChar)

/-- `s.ljust(w)` -/
def ljust (s : String) (w : Int) : String :=
  String.ofList (s.toList ++ List.replicate (w.toNat - s.toList.length) ' ')
/-- `s.rjust(w)` -/
def rjust (s : String) (w : Int) : String :=
  String.ofList (List.replicate (w.toNat - s.toList.length) ' ' ++ s.toList)

def insertSorted (x : String) : List String → List String
  | [] => [x]
  | y :: ys => if x < y then x :: y :: ys else y :: insertSorted x ys

/-- `sorted(l)` for a list of strings (code-point order; stability is unobservable on strings) -/
def sortedStr (l : List String) : List String := l.foldr insertSorted []

def joinChars (sep : List Char) : List String → List Char
  | [] => []
  | [a] => a.toList
  | a :: b :: rest => a.toList ++ sep ++ joinChars sep (b :: rest)

/-- `sep.join(l)` -/
def join (sep : String) (l : List String) : String := String.ofList (joinChars sep.toList l)

/-- `str(n)` / `f"{n}"` for an int -/
def strOfInt (n : Int) : String := toString n

/-! ### floats (finite or nan) -/

def fOfInt (n : Int) : PyFloat := some (n : Rat)
def isNan (x : PyFloat) : Bool := x.isNone
def fcmp (r : Rat → Rat → Bool) : PyFloat → PyFloat → Bool
  | some a, some b => r a b
  | _, _ => false
/-- every ordered comparison and `==` with a nan is False; `!=` is the negation of `==` -/
def fLt (a b : PyFloat) : Bool := fcmp (fun x y => decide (x < y)) a b
def fLe (a b : PyFloat) : Bool := fcmp (fun x y => decide (x ≤ y)) a b
def fEq (a b : PyFloat) : Bool := fcmp (fun x y => decide (x = y)) a b
/-- two-argument `min(a, b)`: `b if b < a else a` -/
def fMin (a b : PyFloat) : PyFloat := if fLt b a then b else a
/-- two-argument `max(a, b)`: `b if b > a else a` -/
def fMax (a b : PyFloat) : PyFloat := if fLt a b then b else a
def fNeg : PyFloat → PyFloat
  | some a => some (-a)
  | none => none

/-! ### comparisons that can raise TypeError (`None < x`) -/

/-- ordered comparison of two optional values: `none` (raise) as soon as one side is `None` -/
def optCmp {α} (r : α → α → Bool) : Option α → Option α → Option Bool
  | some a, some b => some (r a b)
  | _, _ => none

/-- truthiness of an optional string (`x or default`) -/
def orStr (x : Option String) (d : String) : String :=
  match x with
  | some s => if s.toList.isEmpty then d else s
  | none => d

end RnaVerif.Py

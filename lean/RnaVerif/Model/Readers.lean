import RnaVerif.Model.Pdb
import RnaVerif.Model.PdbV1
import RnaVerif.Model.Torsion
import RnaVerif.Generated.Readers
/-!
# M6c — the two reader generations side by side (core only, executable)

* residue-level reader  = `rnapolis.parser.read_3d_structure` → `tertiary.Structure3D.residues`
  (model: `PdbV1.parsePdb / decodeCifRows → filterDup → filterClash → selectModel → group`, Model/PdbV1.lean);
* table-level reader    = `rnapolis.parser_v2.parse_pdb_atoms / parse_cif_atoms` (model: `Pdb.parsePdb`, `Pdb.ofCifRow`,
  Model/Pdb.lean) followed by `rnapolis.tertiary_v2.Structure(...).residues` (`groupSorted` below: pandas
  `groupby(cols, dropna=False)` — one group per key that occurs, rows of a group in table order, groups in key order,
  a missing insertion code after every present one).

Both are mapped to one record, `Res = (chain, number, insertion code, name, atoms : (name, x, y, z))`:

* v1 (`resV1`): the four components of `Residue3D.auth` (`ResidueAuth(chain, number, icode, name)`), or of
  `Residue3D.label` (no insertion code) when there is no auth identity; the atoms are `Residue3D.atoms`;
* v2 (`resOfRows`): `Residue.chain_id / residue_number / insertion_code / residue_name` — all read from the *first* row
  of the group — and `Residue.atoms_list` (`Atom.name`, `Atom.coordinates`).

Coordinates are exact rationals (Å).  Then, for both generations: `is_connected` (O3'…P distance against
`factor * AVERAGE_OXYGEN_PHOSPHORUS_DISTANCE_COVALENT`, every literal from `Gen.Readers`), the segmentation of
`tertiary_v2.Structure.connected_residues` (parameterised by the connectivity predicate, so that the same walk can be made
with v1's `Residue3D.is_connected`), and the choice of the four χ atoms (`Residue3D.chi` / the χ part of
`tertiary_v2.Structure.torsion_angles`, atom lists and residue-name sets from `Gen.Tor`) handed to the torsion models
of Model/Torsion.lean.
-/
namespace RnaVerif.Readers
open RnaVerif RnaVerif.V3

/-! ## the common residue record -/

structure RAtom where
  name : String
  pos : V3 Rat
deriving DecidableEq, Repr

structure Res where
  chain : String
  number : Int
  icode : Option String
  name : String
  atoms : List RAtom
deriving DecidableEq, Repr

/-- the identity the property names: (chain, number, insertion code, name) -/
def Res.key (r : Res) : String × Int × Option String × String := (r.chain, r.number, r.icode, r.name)

/-- (chain, number, insertion code): what `tertiary_v2` groups by -/
def Res.key3 (r : Res) : String × Int × Option String := (r.chain, r.number, r.icode)

/-- a point given in units of `1/u` Å -/
def posOf (u : Nat) (x y z : Int) : V3 Rat := ⟨(x : Rat) / (u : Rat), (y : Rat) / (u : Rat), (z : Rat) / (u : Rat)⟩

/-! ## residue view of reader v1 -/

def atomV1 (u : Nat) (t : PdbV1.Tok) : RAtom := ⟨t.name, posOf u t.x t.y t.z⟩

/-- one `Residue3D` (a run of atoms with one `(label, auth, model)`): identity from `auth`, else from `label` -/
def resV1 (u : Nat) (g : List PdbV1.Tok) : Option Res :=
  match g with
  | [] => none
  | h :: _ =>
    match h.auth, h.label with
    | some a, _ => some ⟨a.chain, a.number, a.icode, a.name, g.map (atomV1 u)⟩
    | none, some l => some ⟨l.chain, l.number, none, l.name, g.map (atomV1 u)⟩
    | none, none => none

def residuesV1 (u : Nat) (gs : List (List PdbV1.Tok)) : List Res := gs.filterMap (resV1 u)

/-- `read_3d_structure(file)` (no model requested) on the atom records either parser of v1 delivers -/
def readV1 (cfg : PdbV1.Cfg) (raw : Except Err (List PdbV1.RawTok)) : Except Err (List Res) :=
  match raw with
  | .error e => .error e
  | .ok ts =>
    match PdbV1.read cfg (10 ^ (PdbV1.toToks ts).1) none (PdbV1.toToks ts).2.2 with
    | .error e => .error e
    | .ok gs => .ok (residuesV1 (10 ^ (PdbV1.toToks ts).1) gs)

/-- the text of a file made of these lines (every line terminated) -/
def docText (lines : List Pdb.Str) : List Char := lines.flatMap (· ++ ['\n'])

/-- residue-level reader on a PDB file -/
def residuesV1Pdb (lines : List Pdb.Str) : Except Err (List Res) :=
  readV1 PdbV1.codeCfg (PdbV1.parsePdb (docText lines))

/-- residue-level reader on the `_atom_site` token table of an mmCIF file -/
def residuesV1Cif (attrs : List String) (rows : List (List Pdb.Str)) : Except Err (List Res) :=
  readV1 PdbV1.codeCfg
    (PdbV1.decodeCifRows Gen.Parser.cifIcodeNull Gen.Parser.cifOccNull Gen.Parser.cifAuthNameFallback attrs
      (rows.map (·.map String.ofList)))

/-! ## `tertiary_v2.Structure.residues`: pandas `groupby` -/

section group
variable {κ α : Type} [DecidableEq κ]

/-- a row whose key is new opens a group at its place in key order -/
def insertNew (lt : κ → κ → Bool) (k : κ) (a : α) : List (κ × List α) → List (κ × List α)
  | [] => [(k, [a])]
  | p :: rest => if lt k p.1 then (k, [a]) :: p :: rest else p :: insertNew lt k a rest

/-- a row whose key is known joins its group at the end -/
def appendTo (k : κ) (a : α) (gs : List (κ × List α)) : List (κ × List α) :=
  gs.map (fun p => if p.1 = k then (p.1, p.2 ++ [a]) else p)

def insertRow (lt : κ → κ → Bool) (k : κ) (a : α) (gs : List (κ × List α)) : List (κ × List α) :=
  if gs.any (fun p => decide (p.1 = k)) then appendTo k a gs else insertNew lt k a gs

/-- one group per key that occurs; rows of a group in table order; groups in key order -/
def groupSorted (lt : κ → κ → Bool) (key : α → κ) (rows : List α) : List (κ × List α) :=
  rows.foldl (fun acc a => insertRow lt (key a) a acc) []

end group

/-- `NaN` sorts last -/
def ltOptLast : Option String → Option String → Bool
  | some a, some b => decide (a < b)
  | some _, none => true
  | none, _ => false

/-- order of the group keys of a PDB-derived frame: chain (text), number (integer), insertion code (text, missing last) -/
def ltKeyPdb (a b : String × Int × Option String) : Bool :=
  decide (a.1 < b.1) || (a.1 == b.1 && (decide (a.2.1 < b.2.1) || (a.2.1 == b.2.1 && ltOptLast a.2.2 b.2.2)))

/-- order of the group keys of an mmCIF-derived frame: `auth_seq_id` is a *text* (categorical) column there -/
def ltKeyCif (a b : String × String × Option String) : Bool :=
  decide (a.1 < b.1) || (a.1 == b.1 && (decide (a.2.1 < b.2.1) || (a.2.1 == b.2.1 && ltOptLast a.2.2 b.2.2)))

def icodeOpt (s : Pdb.Str) : Option String := if s = [] then none else some (String.ofList s)

/-- group key of a row of a PDB-derived frame (`Gen.Readers.v2GroupPdb`) -/
def key3 (a : Pdb.Atom) : String × Int × Option String := (String.ofList a.chain, a.resSeq, icodeOpt a.iCode)

def atomV2 (a : Pdb.Atom) : RAtom := ⟨String.ofList a.name, posOf 1000 a.x a.y a.z⟩

/-- one `tertiary_v2.Residue`: identity from the first row (`.iloc[0]`), atoms in row order -/
def resOfRows (g : List Pdb.Atom) : Option Res :=
  match g with
  | [] => none
  | h :: _ => some ⟨String.ofList h.chain, h.resSeq, icodeOpt h.iCode, String.ofList h.resName, g.map atomV2⟩

/-- `Structure(frame).residues` for a PDB-derived frame -/
def residuesOfRows (rows : List Pdb.Atom) : List Res :=
  (groupSorted ltKeyPdb key3 rows).filterMap (fun p => resOfRows p.2)

/-- table-level reader on the lines of a PDB file (rows with an unreadable number are outside the model) -/
def residuesV2Pdb (lines : List Pdb.Str) : List Res := residuesOfRows (Pdb.parsePdb lines).reduceOption

/-- rows of an mmCIF-derived frame: the text of the numbering column the frame is grouped by, and the typed row -/
def cifFrame (attrs : List String) (rows : List (List Pdb.Str)) : List (String × Pdb.Atom) :=
  rows.filterMap (fun row => (Pdb.ofCifRow attrs row).map (fun a => (String.ofList (Pdb.cifOptText attrs row .resSeq), a)))

def keyCif (p : String × Pdb.Atom) : String × String × Option String :=
  (String.ofList p.2.chain, p.1, icodeOpt p.2.iCode)

/-- table-level reader on the `_atom_site` token table of an mmCIF file -/
def residuesV2Cif (attrs : List String) (rows : List (List Pdb.Str)) : List Res :=
  (groupSorted ltKeyCif keyCif (cifFrame attrs rows)).filterMap (fun p => resOfRows (p.2.map (·.2)))

/-! ## the independent emitters (Model/Pdb.lean): the table as PDB lines and as an `_atom_site` token table -/

def emitPdb (rows : List Pdb.Atom) : List Pdb.Str := Pdb.writePdb rows
def emitCifAttrs : List String := Gen.ParserV2.cifAttributes
def emitCif (rows : List Pdb.Atom) : List (List Pdb.Str) := rows.map Pdb.toCifRowCode

/-! ## decidable well-formedness of a table ("a structure without alternate locations") -/

def pairwiseB {α} (p : α → α → Bool) : List α → Bool
  | [] => true
  | a :: rest => rest.all (p a) && pairwiseB p rest

/-- no alternate location indicator anywhere -/
def noAltLoc (rows : List Pdb.Atom) : Bool := rows.all (fun a => a.altLoc.isEmpty)

/-- one model -/
def singleModel (rows : List Pdb.Atom) : Bool :=
  match rows with
  | [] => true
  | a :: rest => rest.all (fun b => b.model == a.model)

/-- the residue identity the v1 reader groups by, for a row of the table -/
def key4 (a : Pdb.Atom) : String × Int × Option String × String :=
  (String.ofList a.chain, a.resSeq, icodeOpt a.iCode, String.ofList a.resName)

/-- no two rows of one residue carry the same atom name (then v1's duplicate filter keeps every row) -/
def noDupNames (rows : List Pdb.Atom) : Bool :=
  pairwiseB (fun a b => !(key4 a == key4 b && a.name == b.name)) rows

/-- squared distance of two rows in (1/1000 Å)² -/
def rowDist2 (a b : Pdb.Atom) : Int :=
  (a.x - b.x) * (a.x - b.x) + (a.y - b.y) * (a.y - b.y) + (a.z - b.z) * (a.z - b.z)

/-- no two atoms within the clash distance `Gen.Parser.clashNum / clashDen` Å (then v1's clash filter keeps every row) -/
def noClash (rows : List Pdb.Atom) : Bool :=
  pairwiseB (fun a b => decide (((Gen.Parser.clashNum * Gen.Parser.clashNum * (1000 * 1000) : Nat) : Int) <
                               ((Gen.Parser.clashDen * Gen.Parser.clashDen : Nat) : Int) * rowDist2 a b)) rows

/-- the rows of a residue are adjacent: once the run of a key has ended the key does not come back
("each residue once") -/
def contiguous {α κ : Type} [BEq κ] (key : α → κ) : List α → Bool
  | [] => true
  | a :: rest => (rest.dropWhile (fun b => key b == key a)).all (fun b => !(key b == key a)) && contiguous key rest

/-- rows with the same (chain, number, insertion code) carry the same residue name -/
def nameConsistent (rows : List Pdb.Atom) : Bool :=
  pairwiseB (fun a b => !(key3 a == key3 b) || a.resName == b.resName) rows

/-- no text field is literally one of the mmCIF null markers `?` `.` (such a value cannot be written to an mmCIF file) -/
def noNullRow (a : Pdb.Atom) : Bool :=
  [a.record, a.name, a.altLoc, a.resName, a.chain, a.iCode, a.element].all (fun t => !Gen.ParserV2.cifReadNulls.contains t)

/-- a single-conformer, single-model structure whose residues are written one after the other -/
def singleConformer (rows : List Pdb.Atom) : Bool :=
  noAltLoc rows && singleModel rows && noDupNames rows && noClash rows && contiguous key3 rows && nameConsistent rows

/-! ## connectivity -/

/-- `find_atom`: the first atom of that name -/
def findAtom (r : Res) (n : String) : Option RAtom := r.atoms.find? (fun a => a.name == n)

/-- `distance < factor * op` (or `<=`) on the squared distance (both sides are non-negative) -/
def connTest (strict : Bool) (factor op d2 : Rat) : Bool :=
  if strict then decide (d2 < (factor * op) * (factor * op)) else decide (d2 ≤ (factor * op) * (factor * op))

def isConnectedWith (aPrev aNext : String) (strict : Bool) (factor op : Rat) (a b : Res) : Bool :=
  match findAtom a aPrev, findAtom b aNext with
  | some o, some p => connTest strict factor op (dist2 o.pos p.pos)
  | _, _ => false

/-- `tertiary.Residue3D.is_connected` -/
def isConnectedV1 : Res → Res → Bool :=
  isConnectedWith Gen.Readers.v1ConnAtomPrev Gen.Readers.v1ConnAtomNext Gen.Readers.v1ConnStrict
    Gen.Readers.v1ConnFactor Gen.Readers.v1ConnOP

/-- `tertiary_v2.Residue.is_connected` -/
def isConnectedV2 : Res → Res → Bool :=
  isConnectedWith Gen.Readers.v2ConnAtomPrev Gen.Readers.v2ConnAtomNext Gen.Readers.v2ConnStrict
    Gen.Readers.v2ConnFactor Gen.Readers.v2ConnOP

/-- squared O3'…P distance the test is made on (for the undecided band of the correspondence check) -/
def connDist2 (aPrev aNext : String) (a b : Res) : Option Rat :=
  match findAtom a aPrev, findAtom b aNext with
  | some o, some p => some (dist2 o.pos p.pos)
  | _, _ => none

/-- chains in order of first appearance (insertion order of the dict) -/
def chainsOf (rs : List Res) : List String := (rs.map (·.chain)).eraseDups

/-- sort key of `connected_residues`: `(residue_number, insertion_code or "")` -/
def sortKeyLe (a b : Res) : Bool :=
  decide (a.number < b.number) || (a.number == b.number && !decide (b.icode.getD "" < a.icode.getD ""))

/-- maximal runs of consecutive residues each connected to the next -/
def runs (conn : Res → Res → Bool) : List Res → List (List Res)
  | [] => []
  | [a] => [[a]]
  | a :: b :: rest =>
    match runs conn (b :: rest) with
    | g :: gs => if conn a b then (a :: g) :: gs else [a] :: g :: gs
    | [] => [[a]]

/-- `Structure.connected_residues` with connectivity predicate `conn`: per chain (first-appearance order), residues sorted
(stable) by number and insertion code, cut where a residue is not connected to the next, runs shorter than `minLen` dropped -/
def segmentsWith (conn : Res → Res → Bool) (minLen : Nat) (rs : List Res) : List (List Res) :=
  (chainsOf rs).flatMap (fun c =>
    (runs conn ((rs.filter (fun r => r.chain == c)).mergeSort sortKeyLe)).filter (fun g => decide (minLen ≤ g.length)))

/-- `tertiary_v2.Structure.connected_residues` -/
def segmentsV2 (rs : List Res) : List (List Res) := segmentsWith isConnectedV2 Gen.Readers.v2MinSegment rs

/-- the same walk over the residues of reader v1 with `Residue3D.is_connected` -/
def segmentsV1 (rs : List Res) : List (List Res) := segmentsWith isConnectedV1 Gen.Readers.v2MinSegment rs

/-! ## glycosidic torsion χ -/

open RnaVerif.Torsion in
/-- the four named atoms, when all are present -/
def quadOf (r : Res) (names : List String) : Option (Quad Rat) :=
  match names.map (findAtom r) with
  | [some a, some b, some c, some d] => some ⟨a.pos, b.pos, c.pos, d.pos⟩
  | _ => none

/-- `str.upper()` on ASCII text -/
def upperStr (s : String) : String := String.ofList (s.toList.map Char.toUpper)

open RnaVerif.Torsion in
/-- `Residue3D.chi`: the atoms chosen for a residue whose one-letter name is `letter` (unknown letters: purine atoms
when present, else pyrimidine atoms) -/
def chiQuadV1 (letter : String) (r : Res) : Option (Quad Rat) :=
  if Gen.Tor.v1PurineLetters.contains (upperStr letter) then quadOf r Gen.Tor.v1ChiPurine
  else if Gen.Tor.v1PyrimidineLetters.contains (upperStr letter) then quadOf r Gen.Tor.v1ChiPyrimidine
  else match quadOf r Gen.Tor.v1ChiPurine with
    | some q => some q
    | none => quadOf r Gen.Tor.v1ChiPyrimidine

open RnaVerif.Torsion in
/-- χ part of `tertiary_v2.Structure.torsion_angles`: by residue *name*; other residues get no χ -/
def chiQuadV2 (r : Res) : Option (Quad Rat) :=
  if Gen.Tor.v2PurineNames.contains r.name then quadOf r Gen.Tor.v2ChiPurine
  else if Gen.Tor.v2PyrimidineNames.contains r.name then quadOf r Gen.Tor.v2ChiPyrimidine
  else none

/-- `parser.get_one_letter_name` for a residue name without MODRES / entity information: the name itself when it has one
character, the second character of a two-character name starting with `D`/`d`
(longer names go through further rules that are not modelled) -/
def oneLetterStd (name : String) : Option String :=
  match name.toList with
  | [c] => some (String.singleton c)
  | [d, c] => if d.toUpper == 'D' then some (String.singleton c) else none
  | _ => none

open RnaVerif.Torsion in
def chiV1 (letter : String) (r : Res) : Option Out :=
  (chiQuadV1 letter r).map (fun q => torsion1Rat q.p1 q.p2 q.p3 q.p4)

open RnaVerif.Torsion in
def chiV2 (r : Res) : Option Out :=
  (chiQuadV2 r).map (fun q => torsion2Rat q.p1 q.p2 q.p3 q.p4)

open RnaVerif.Torsion in
/-- magnitude of a torsion given as (sign cos, sign sin, tan²): the sign of the sine is forgotten -/
def outMag : Out → Out
  | .degenerate => .degenerate
  | .val sx sy t => .val sx (if sy < 0 then -sy else sy) t

end RnaVerif.Readers

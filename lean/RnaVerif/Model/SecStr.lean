import RnaVerif.Generated.Common
/-!
# M1 — secondary structure core of `rnapolis.common` (import-free, executable)

Mirrors `BpSeq`, `DotBracket` of `/repo/src/rnapolis/common.py`:
stems / regions, conflict test, dot-bracket writer, per-type stack decoder,
first-come-first-served level assignment, BPSEQ <-> dot-bracket conversion,
pseudoknot / isolated-pair removal.  Everything that the Python code takes from a
literal (bracket alphabets, conflict predicate, `available` length, regex class)
comes from `RnaVerif.Gen` (regenerated from the source on every run).
-/
namespace RnaVerif

/-- Error enum of the line protocol: which Python exception the real code raises. -/
inductive Err where
  | indexError | stopIteration | valueError | typeError | keyError | other
deriving DecidableEq, Repr

def Err.toString : Err → String
  | .indexError => "IndexError"
  | .stopIteration => "StopIteration"
  | .valueError => "ValueError"
  | .typeError => "TypeError"
  | .keyError => "KeyError"
  | .other => "other"

structure Entry where
  idx : Nat
  ch : Char
  pair : Nat
deriving DecidableEq, Repr, Inhabited

/-- `(i, j, length)` exactly as `BpSeq.__regions`: 1-based first 5' index, its partner, stem length -/
structure Region where
  i : Nat
  j : Nat
  len : Nat
deriving DecidableEq, Repr, Inhabited

/-- what the property statements mean by "crossing": `k < m < l < n ∨ m < k < n < l` -/
def conflictSpec (k l m n : Nat) : Bool :=
  (decide (k < m) && decide (m < l) && decide (l < n)) || (decide (m < k) && decide (k < n) && decide (n < l))

abbrev ConfPred := Nat → Nat → Nat → Nat → Bool

def Region.conf (c : ConfPred) (a b : Region) : Bool := c a.i a.j b.i b.j

namespace SecStr

/-- `BpSeq.paired(only5to3=True)` -/
def paired5to3 (es : List Entry) : List Entry :=
  es.filter (fun e => e.pair != 0 && decide (e.idx < e.pair))

/-- `BpSeq.__stems_entries`: maximal runs of consecutive 5'→3' entries with `i = k+1 ∧ j = l-1`. -/
def groupStems : List Entry → List (List Entry)
  | [] => []
  | e :: rest =>
    match groupStems rest with
    | (f :: g) :: gs =>
      if f.idx == e.idx + 1 && f.pair + 1 == e.pair then (e :: f :: g) :: gs
      else [e] :: (f :: g) :: gs
    | _ => [[e]]

def stemsEntries (es : List Entry) : List (List Entry) := groupStems (paired5to3 es)

def regionOf (g : List Entry) : Region :=
  match g with
  | [] => ⟨0, 0, 0⟩
  | e :: _ => ⟨e.idx, e.pair, g.length⟩

/-- `BpSeq.__regions` -/
def regions (es : List Entry) : List Region := (stemsEntries es).map regionOf

def sequence (es : List Entry) : List Char := es.map (·.ch)

/-! ### dot-bracket writer -/

/-- levelled pair, 0-based: (opening position, closing position, level) -/
abbrev Tr := Nat × Nat × Nat

def expandRegion (r : Region) (lv : Nat) : List Tr :=
  (List.range r.len).map (fun t => (r.i - 1 + t, r.j - 1 - t, lv))

def triples (regs : List Region) (lvs : List Nat) : List Tr :=
  (regs.zip lvs).flatMap (fun p => expandRegion p.1 p.2)

inductive Tok where
  | dot
  | op (t : Nat)
  | cl (t : Nat)
deriving DecidableEq, Repr

def tokOf (M : List Tr) (k : Nat) : Tok :=
  match M.find? (fun m => m.1 == k) with
  | some m => .op m.2.2
  | none =>
    match M.find? (fun m => m.2.1 == k) with
    | some m => .cl m.2.2
    | none => .dot

def charOfTok (br : List (Char × Char)) : Tok → Char
  | .dot => '.'
  | .op t => (br.getD t ('?', '?')).1
  | .cl t => (br.getD t ('?', '?')).2

/-- `BpSeq.__make_dot_bracket` (structure line).  `brackets[orders[i]]` raises `IndexError`
when a level is outside the bracket list. -/
def mkDB (n : Nat) (regs : List Region) (lvs : List Nat) : Except Err (List Char) :=
  if lvs.length < regs.length then .error .indexError
  else if (lvs.take regs.length).any (fun l => decide (Gen.encBrackets.length ≤ l)) then .error .indexError
  else
    let M := triples regs lvs
    .ok ((List.range n).map (fun k => charOfTok Gen.encBrackets (tokOf M k)))

/-! ### decoder (`DotBracket.__post_init__`) -/

def tokOfChar (c : Char) : Tok :=
  match Gen.decOpening.idxOf? c with
  | some t => .op t
  | none =>
    match Gen.decClosing.idxOf? c with
    | some t => .cl t
    | none => .dot

structure St where
  stacks : Nat → List Nat
  out : List (Nat × Nat)

def stepTok (s : St) (k : Nat) (tk : Tok) : Option St :=
  match tk with
  | .dot => some s
  | .op t => some { s with stacks := fun u => if u = t then k :: s.stacks u else s.stacks u }
  | .cl t =>
    match s.stacks t with
    | [] => none
    | i :: rest => some { stacks := fun u => if u = t then rest else s.stacks u, out := s.out ++ [(i, k)] }

def decodeFrom (tok : Nat → Tok) : (ks : List Nat) → St → Option St
  | [], s => some s
  | k :: ks, s => (stepTok s k (tok k)).bind (decodeFrom tok ks)

def St.init : St := ⟨fun _ => [], []⟩

/-- decode a structure line: `none` = pop from an empty stack (the real `IndexError`).
Returns the 0-based pairs in order of closing position, and the final stacks' emptiness. -/
def decodeChars (s : List Char) : Option St :=
  decodeFrom (fun k => tokOfChar (s.getD k '.')) (List.range s.length) St.init

def decodePairs (s : List Char) : Except Err (List (Nat × Nat)) :=
  match decodeChars s with
  | some st => .ok st.out
  | none => .error .indexError

/-- `BpSeq.from_dotbracket` -/
def fromDB (seq : List Char) (pairs : List (Nat × Nat)) : List Entry :=
  let partner (k : Nat) : Nat :=
    -- the *last* write wins, as in the Python loop
    (pairs.foldl (fun acc p => if p.1 = k then p.2 + 1 else if p.2 = k then p.1 + 1 else acc) 0)
  (List.range seq.length).map (fun k => ⟨k + 1, seq.getD k '?', partner k⟩)

/-! ### first come, first served -/

def firstAvail (cap : Nat) (used : List Nat) : Option Nat :=
  (List.range cap).find? (fun o => !used.contains o)

/-- levels of `BpSeq.fcfs`; `none` = `StopIteration` (no free level among `fcfsAvail`) -/
def fcfsAux (c : ConfPred) (cap : Nat) : List Region → List (Region × Nat) → Option (List (Region × Nat))
  | [], acc => some acc
  | r :: rs, acc =>
    let used := (acc.filter (fun q => c r.i r.j q.1.i q.1.j)).map (·.2)
    -- `available[orders[j]] = False` raises IndexError for a level ≥ cap; cannot happen: levels < cap
    match firstAvail cap used with
    | some o => fcfsAux c cap rs (acc ++ [(r, o)])
    | none => none

def fcfsLevels (c : ConfPred) (cap : Nat) (regs : List Region) : Option (List Nat) :=
  match regs with
  | [] => some []
  | r :: rs => (fcfsAux c cap rs [(r, 0)]).map (fun l => l.map (·.2))

def fcfs (es : List Entry) : Except Err (List Char) :=
  let regs := regions es
  match fcfsLevels Gen.conflictFcfs Gen.fcfsAvail regs with
  | none => .error .stopIteration
  | some lvs => mkDB es.length regs lvs

/-! ### removal operations -/

/-- `DotBracket.without_pseudoknots` (structure line) -/
def stripPk (s : List Char) : List Char :=
  s.flatMap (fun c => if Gen.pkStripped.contains c then Gen.pkRepl else [c])

/-- `BpSeq.without_pseudoknots` given the structure line of `self.dot_bracket` -/
def withoutPseudoknots (es : List Entry) (db : List Char) : Except Err (List Entry) :=
  match decodePairs (stripPk db) with
  | .ok ps => .ok (fromDB (sequence es) ps)
  | .error e => .error e

/-- `BpSeq.without_isolated`: unpair both ends of every stem of length one -/
def withoutIsolated (es : List Entry) : List Entry :=
  let iso := (regions es).filter (fun r => r.len == 1)
  let un : List Nat := iso.flatMap (fun r => [r.i, r.j])
  es.map (fun e => if un.contains e.idx then { e with pair := 0 } else e)

/-! ### validity -/

def partnerOf (es : List Entry) (i : Nat) : Nat := (es.getD (i - 1) ⟨0, '?', 0⟩).pair

/-- decidable well-formedness of a BPSEQ: indices 1..N in order, partners in range, not self,
symmetric -/
def valid (es : List Entry) : Bool :=
  (List.range es.length).all (fun k =>
    let e := es.getD k ⟨0, '?', 0⟩
    e.idx == k + 1 &&
    (e.pair == 0 || (decide (e.pair ≤ es.length) && e.pair != e.idx && partnerOf es e.pair == e.idx)))

/-- 0-based 5'→3' pairs of a BPSEQ -/
def pairs0 (es : List Entry) : List (Nat × Nat) :=
  (paired5to3 es).map (fun e => (e.idx - 1, e.pair - 1))

end SecStr
end RnaVerif

import RnaVerif.Model.Fit
/-!
# M7b — `rnapolis.splitter.main` on abstract atom tables (core only, executable)

What the tool does to the table it parsed (`parse_pdb_atoms` / `parse_cif_atoms`, models: C09):

* `atoms_df.groupby(model_column)`: one group per model number that occurs, groups in **ascending**
  model order (pandas sorts group keys), rows of a group in table order;
* per model: `model_df.attrs["format"] = input_format`; output format `PDB`: `fit_to_pdb(model_df)`
  (model: `Fit.fitToPdb` with the *input* format) then `write_pdb`; a `ValueError` of the fit skips the
  model (message on stderr, `continue`); output format `mmCIF`: `write_cif(model_df)`;
* file name `"{base}_model_{model_num}{ext}"`.

An empty table writes nothing (`sys.exit(0)` after a warning).  The content of a written file is kept
as the *table handed to the writer* (`Content.pdb t'`, text = `Pdb.writePdb t'`; `Content.cif rows`, tokens
of a PDB-derived row = `Pdb.toCifRowCode`, a mmCIF-derived frame is written column by column as it is).
-/
namespace RnaVerif.Splitter
open RnaVerif RnaVerif.Pdb RnaVerif.Fit

/-- `--format` -/
inductive OutFmt where
  | keep | pdb | cif
  deriving DecidableEq, Repr, Inhabited

def outFormat (infmt : Format) : OutFmt → Format
  | .keep => infmt
  | .pdb => .pdb
  | .cif => .cif

def insertSorted (x : Int) : List Int → List Int
  | [] => [x]
  | y :: ys => if x ≤ y then x :: y :: ys else y :: insertSorted x ys

/-- ascending order (insertion sort: structural, so that examples evaluate in the kernel) -/
def sortInts (l : List Int) : List Int := l.foldr insertSorted []

/-- the distinct model numbers, ascending (pandas `groupby` sorts its keys) -/
def modelsOf (t : Table) : List Int := sortInts (firstSeen (t.map (·.model)))

/-- rows of one group, in table order -/
def rowsOfModel (t : Table) (m : Int) : Table := t.filter (fun a => a.model = m)

inductive Content where
  /-- the table handed to `write_pdb` (after `fit_to_pdb`) -/
  | pdb (fitted : Table)
  /-- the table handed to `write_cif` -/
  | cif (rows : Table)
  /-- `fit_to_pdb` raised: nothing is written for this model -/
  | skipped (e : Err)
  deriving Repr

structure OutFile where
  model : Int
  stem : String
  ext : String
  content : Content
  deriving Repr

/-- `f"{base_name}_model_{model_num}"` -/
def stemOf (base : String) (m : Int) : String := base ++ "_model_" ++ toString m

def extOf : Format → String
  | .pdb => ".pdb"
  | .cif => ".cif"

/-- what is done with the rows of one model -/
def splitOne (infmt out : Format) (rows : Table) : Content :=
  match out with
  | .pdb =>
    match fitToPdb infmt rows with
    | .ok t' => .pdb t'
    | .error e => .skipped e
  | .cif => .cif rows

/-- `splitter.main`: the files it attempts, in the order of the loop -/
def split (infmt : Format) (o : OutFmt) (base : String) (t : Table) : List OutFile :=
  (modelsOf t).map (fun m =>
    { model := m, stem := stemOf base m, ext := extOf (outFormat infmt o),
      content := splitOne infmt (outFormat infmt o) (rowsOfModel t m) })

/-- text of a written PDB file -/
def Content.pdbText : Content → Option (List Str)
  | .pdb t' => some (writePdb t')
  | _ => none

/-- the table a written file holds -/
def Content.table : Content → Option Table
  | .pdb t' => some t'
  | .cif rows => some rows
  | .skipped _ => none

end RnaVerif.Splitter

import RnaVerif.Model.PairUtil
import RnaVerif.Generated.Geometry
/-!
# M5 — `annotator.find_stackings` in exact rational arithmetic (core Lean only)

Mirrors the code: residues of the requested model, in file order, that have at least one atom of
`BASE_ATOMS[one_letter_name]` get a centroid; every pair `i < j` (file order — what
`KDTree.query_pairs` returns) is tested:

* `|c_i - c_j| ≤ 6`                                  as `d² ≤ 6²`
* `min(∠(n_i,n_j), ∠(-n_i,n_j)) ≤ 35°`               as `(n_i·n_j)² ≥ cos²35° |n_i|²|n_j|²`
* `min(∠(v,n_i), ∠(v,n_j)) ≤ 45°`, `v = c_i - c_j`   as `v·n > 0 ∧ (v·n)² ≥ cos²45° |v|²|n|²` for one of the normals

The normals are used *unnormalised* (`(a - o) × (b - o)`): every test is invariant under positive
scaling of a normal.  Trigonometric constants enter as rational enclosures from `Gen`; together
with the margin this gives three-valued answers: `yes`/`no` are certain, anything within the margin
of a threshold is `undecided`.
-/
namespace RnaVerif.Stacking
open RnaVerif

structure Atom where
  name : String
  pos : V3 Rat

structure Res where
  model : Int
  chain : String
  number : Int
  /-- "" stands for `None` -/
  icode : String
  letter : String
  atoms : List Atom

/-- what `Residue3D.__lt__` compares: `(model, chain, number, icode or " ")` -/
structure Key where
  model : Int
  chain : String
  number : Int
  icode : String
deriving DecidableEq, Repr

def Res.key (r : Res) : Key := ⟨r.model, r.chain, r.number, if r.icode == "" then " " else r.icode⟩

/-- Python tuple `<` on `(model, chain, number, icode)` -/
def keyLt (a b : Key) : Bool :=
  decide (a.model < b.model) || (a.model == b.model &&
    (decide (a.chain < b.chain) || (a.chain == b.chain &&
      (decide (a.number < b.number) || (a.number == b.number && decide (a.icode < b.icode))))))

/-- `Residue3D.find_atom`: first atom with that name -/
def findAtom (r : Res) (n : String) : Option Atom := r.atoms.find? (fun a => a.name == n)

def baseAtomNames (letter : String) : List String := (Gen.baseAtoms.lookup letter).getD []

def vsum (l : List (V3 Rat)) : V3 Rat := l.foldl V3.add ⟨0, 0, 0⟩

/-- geometric centre of the base atoms that are present (`None` when there is none) -/
def centroid (r : Res) : Option (V3 Rat) :=
  let ps := (baseAtomNames r.letter).filterMap (fun n => (findAtom r n).map (·.pos))
  if ps.isEmpty then none else some (V3.smul (1 / (ps.length : Rat)) (vsum ps))

def tails {α} : List α → List (List α)
  | [] => [[]]
  | a :: l => (a :: l) :: tails l

/-- Python `s in t` for strings -/
def isSubstr (s t : String) : Bool := (tails t.toList).any (fun u => s.toList.isPrefixOf u)

def normalAtoms (letter : String) : String × String × String :=
  if isSubstr letter Gen.purineLetters then Gen.purineNormalAtoms else Gen.otherNormalAtoms

/-- `Residue3D.base_normal_vector`, not normalised: `(a - o) × (b - o)` -/
def normal (r : Res) : Option (V3 Rat) :=
  let (o, a, b) := normalAtoms r.letter
  match findAtom r o, findAtom r a, findAtom r b with
  | some po, some pa, some pb => some (V3.cross (V3.sub pa.pos po.pos) (V3.sub pb.pos po.pos))
  | _, _, _ => none

/-- a residue that entered the KD-tree -/
structure Prep where
  /-- position in the input list (file order) -/
  idx : Nat
  key : Key
  c : V3 Rat
  n : Option (V3 Rat)

def prepOne (model : Option Int) (p : Nat × Res) : Option Prep :=
  if model.isSome && model != some p.2.model then none else
  match centroid p.2 with
  | none => none
  | some c => some ⟨p.1, p.2.key, c, normal p.2⟩

def prepare (model : Option Int) (rs : List Res) : List Prep := (enumFrom' 0 rs).filterMap (prepOne model)

/-! ## three-valued decisions -/

/-- width of the undecided band: 1e-6 Å on the distance, 1e-6 on the cos² scale (≥ 1e-6 rad) -/
def margin : Rat := 1 / 1000000

/-- `|c_i - c_j| ≤ D` -/
def distTri (d2 : Rat) : Tri :=
  if d2 ≤ sq (Gen.stackingMaxDistance - margin) then .yes
  else if sq (Gen.stackingMaxDistance + margin) < d2 then .no
  else .undecided

/-- `min(∠(n,m), ∠(-n,m)) ≤ 35°` -/
def normTri (n m : V3 Rat) : Tri :=
  let p := sq (V3.dot n m)
  let q := V3.norm2 n * V3.norm2 m
  if q = 0 then .undecided
  else if (Gen.cosSqNormalsHi + margin) * q ≤ p then .yes
  else if p ≤ (Gen.cosSqNormalsLo - margin) * q then .no
  else .undecided

/-- `∠(v,n) ≤ 45°` -/
def vecTri (v n : V3 Rat) : Tri :=
  let s := V3.dot v n
  let q := V3.norm2 v * V3.norm2 n
  if q = 0 then .undecided
  else if 0 < s && decide ((Gen.cosSqVectorHi + margin) * q ≤ sq s) then .yes
  else if s ≤ 0 || decide (sq s ≤ (Gen.cosSqVectorLo - margin) * q) then .no
  else .undecided

/-- the decision for residue `a` listed before residue `b`; `v = c_a - c_b` (signed) -/
def pairTri (a b : Prep) : Tri :=
  match a.n, b.n with
  | some n, some m =>
    let v := V3.sub a.c b.c
    Tri.and3 (distTri (V3.norm2 v)) (Tri.and3 (normTri n m) (Tri.or3 (vecTri v n) (vecTri v m)))
  | _, _ => .no

inductive Topology where | upward | downward | inward | outward
deriving DecidableEq, Repr

def Topology.toString : Topology → String
  | .upward => "upward" | .downward => "downward" | .inward => "inward" | .outward => "outward"

/-- a reported stacking: `r1` is the residue printed first -/
structure Stk where
  r1 : Prep
  r2 : Prep
  topo : Topology

def sameDirection (a b : Prep) : Bool :=
  match a.n, b.n with
  | some n, some m => decide (0 < V3.dot n m)
  | _, _ => false

/-- `a` listed before `b` in the file -/
def classify (a b : Prep) : Stk :=
  if keyLt a.key b.key then
    ⟨a, b, if sameDirection a b then .upward else .inward⟩
  else
    ⟨b, a, if sameDirection a b then .downward else .outward⟩

/-- `sorted(pairs)` compares `(residue_1, residue_2, …)`; with distinct residue keys the third
component never decides -/
def stkLt (s t : Stk) : Bool :=
  keyLt s.r1.key t.r1.key || (s.r1.key == t.r1.key && keyLt s.r2.key t.r2.key)

def stkLe (s t : Stk) : Bool := !stkLt t s

def candidates (model : Option Int) (rs : List Res) : List (Prep × Prep) := pairsUp (prepare model rs)

/-- the loop over `query_pairs`, with its three `continue`s -/
def collect : List (Prep × Prep) → List Stk
  | [] => []
  | (a, b) :: rest =>
    match pairTri a b with
    | .yes => classify a b :: collect rest
    | _ => collect rest

def stackings (model : Option Int) (rs : List Res) : List Stk :=
  (collect (candidates model rs)).mergeSort stkLe

/-- pairs the exact model does not decide (within the margin of a threshold, or degenerate) -/
def undecided (model : Option Int) (rs : List Res) : List (Prep × Prep) :=
  (candidates model rs).filter (fun p => pairTri p.1 p.2 == .undecided)

end RnaVerif.Stacking

import RnaVerif.Model.SecStr
import RnaVerif.Generated.Transformer
/-!
# M7 — mmCIF item editing on abstract tables (`rnapolis.transformer`), core Lean only

Mirrors `/repo/src/rnapolis/transformer.py`:

* a parsed mmCIF file is a list of data blocks; only the first block (`data[0]`) is edited;
* a block is a list of categories (name, item names, rows of string values);
* `copy_from_to` : `copyFromTo`  (optional new column appended at the end);
* `replace_value` : `replaceValue` (first-seen index map through the substitution alphabet,
  `values[len(mapping)]` raises `IndexError` when the alphabet is exhausted);
* the two early `return file_content` branches (no data block / category absent / item absent) are the
  outcome `unchanged`: the *input text itself* is returned, nothing is re-serialised;
* `main` : `cliMain`, a dispatch model parameterised by what the translator reads off the body of
  `main` (`Gen.cli…` flags: is the path passed where the content is expected, is the `(text, mapping)`
  tuple handed to `write`).

The `mmcif` reader / writer is the trusted tokeniser: it appears as an abstract `Codec`.
Rows are *not* assumed rectangular in the model (the reader yields a short last row for a
truncated loop); the Python index operations that would raise are mapped to `Err.indexError`.
-/
namespace RnaVerif.Table

deriving instance DecidableEq for Except

abbrev Row := List String

structure Category where
  name : String
  items : List String
  rows : List Row
deriving DecidableEq, Repr

/-- the categories of one data block, in file order (names are unique: the container is a dict) -/
abbrev Document := List Category

structure Block where
  name : String
  cats : Document
deriving DecidableEq, Repr

/-- what a library call hands back: the untouched input text, or the writer's rendering of a value -/
inductive Outcome (α : Type) where
  | unchanged
  | rewritten (a : α)
deriving DecidableEq, Repr

/-- every row has one value per item -/
def Category.Rect (c : Category) : Prop := ∀ r ∈ c.rows, r.length = c.items.length

instance (c : Category) : Decidable c.Rect := by unfold Category.Rect; exact inferInstance

/-- `container.getObj(name)` -/
def getCat (d : Document) (cat : String) : Option Category := d.find? (fun c => c.name == cat)

/-- the first category called `cat` is replaced (the rows are mutated in place in Python) -/
def setCat : Document → String → Category → Document
  | [], _, _ => []
  | c :: cs, cat, c' => if c.name == cat then c' :: cs else c :: setCat cs cat c'

/-- the values of the item at position `p`, row by row (`none` where a row is too short) -/
def Category.colAt (c : Category) (p : Nat) : List (Option String) := c.rows.map (fun r => r[p]?)

/-- the values of item `it` (first item of that name, as `list.index` finds it) -/
def Category.col (c : Category) (it : String) : List (Option String) := c.colAt (c.items.idxOf it)

/-! ## copy_from_to -/

/-- loop body: `if j >= len(row): row.append(row[i]) else: row[j] = row[i]` -/
def copyRow (i j : Nat) (r : Row) : Except Err Row :=
  match r[i]? with
  | none => .error .indexError
  | some v => if j ≥ r.length then .ok (r ++ [v]) else .ok (r.set j v)

def copyRows (i j : Nat) : List Row → Except Err (List Row)
  | [] => .ok []
  | r :: rs =>
    match copyRow i j r with
    | .error e => .error e
    | .ok r' =>
      match copyRows i j rs with
      | .error e => .error e
      | .ok rs' => .ok (r' :: rs')

/-- `attributes` after the optional `attributes.append(copy_to)` -/
def itemsWith (items : List String) (to : String) : List String :=
  if to ∈ items then items else items ++ [to]

def copyCategory (c : Category) (src to : String) : Except Err Category :=
  let items' := itemsWith c.items to
  match copyRows (items'.idxOf src) (items'.idxOf to) c.rows with
  | .error e => .error e
  | .ok rows' => .ok { name := c.name, items := items', rows := rows' }

/-- `copy_from_to` on the first data block -/
def copyFromTo (d : Document) (cat src to : String) : Except Err (Outcome Document) :=
  match getCat d cat with
  | none => .ok .unchanged
  | some c =>
    if src ∈ c.items then
      match copyCategory c src to with
      | .error e => .error e
      | .ok c' => .ok (.rewritten (setCat d cat c'))
    else .ok .unchanged

/-! ## replace_value -/

/-- the Python dict `mapping` in insertion (first-seen) order -/
abbrev Mapping := List (String × Char)

def lookup (m : Mapping) (v : String) : Option Char := (m.find? (fun p => p.1 == v)).map (·.2)

/-- `if row[i] not in mapping: mapping[row[i]] = values[len(mapping)]`, then the mapped value -/
def step (values : List Char) (m : Mapping) (v : String) : Except Err (Mapping × Char) :=
  match lookup m v with
  | some c => .ok (m, c)
  | none =>
    match values[m.length]? with
    | none => .error .indexError
    | some c => .ok (m ++ [(v, c)], c)

def replaceRows (values : List Char) (i : Nat) : Mapping → List Row → Except Err (Mapping × List Row)
  | m, [] => .ok (m, [])
  | m, r :: rs =>
    match r[i]? with
    | none => .error .indexError
    | some v =>
      match step values m v with
      | .error e => .error e
      | .ok (m1, c) =>
        match replaceRows values i m1 rs with
        | .error e => .error e
        | .ok (m2, rs') => .ok (m2, r.set i (String.singleton c) :: rs')

/-- `replace_value` on the first data block: new document and the mapping that is returned -/
def replaceValue (d : Document) (cat col : String) (values : List Char) :
    Except Err (Outcome Document × Mapping) :=
  match getCat d cat with
  | none => .ok (.unchanged, [])
  | some c =>
    if col ∈ c.items then
      match replaceRows values (c.items.idxOf col) [] c.rows with
      | .error e => .error e
      | .ok (m, rows') => .ok (.rewritten (setCat d cat { c with rows := rows' }), m)
    else .ok (.unchanged, [])

/-! ### specification vocabulary for the first-seen mapping -/

/-- the values of the item at position `p`, where present, in row order -/
def valsAt (rows : List Row) (p : Nat) : List String := rows.filterMap (fun r => r[p]?)

/-- distinct values in order of first appearance, continuing from `acc` -/
def seenFrom : List String → List String → List String
  | acc, [] => acc
  | acc, v :: vs => if v ∈ acc then seenFrom acc vs else seenFrom (acc ++ [v]) vs

/-- distinct values of a column in order of first appearance -/
def firstSeen (l : List String) : List String := seenFrom [] l

/-- the first-seen mapping of a column through an alphabet: k-th distinct value ↦ k-th letter -/
def firstSeenMap (values : List Char) (l : List String) : Mapping := (firstSeen l).zip values

/-! ## whole files (list of data blocks) and text -/

/-- only `data[0]` is edited; `len(data) == 0` returns the input -/
def copyFile (f : List Block) (cat src to : String) : Except Err (Outcome (List Block)) :=
  match f with
  | [] => .ok .unchanged
  | b :: bs =>
    match copyFromTo b.cats cat src to with
    | .error e => .error e
    | .ok .unchanged => .ok .unchanged
    | .ok (.rewritten d') => .ok (.rewritten ({ b with cats := d' } :: bs))

def replaceFile (f : List Block) (cat col : String) (values : List Char) :
    Except Err (Outcome (List Block) × Mapping) :=
  match f with
  | [] => .ok (.unchanged, [])
  | b :: bs =>
    match replaceValue b.cats cat col values with
    | .error e => .error e
    | .ok (.unchanged, m) => .ok (.unchanged, m)
    | .ok (.rewritten d', m) => .ok (.rewritten ({ b with cats := d' } :: bs), m)

/-- the trusted tokeniser (`IoAdapterPy.readFile` / `writeFile`) -/
structure Codec where
  parse : String → List Block
  render : List Block → String

/-- `copy_from_to(file_content, category, copy_from, copy_to)`; `category = None` is in no name list -/
def copyText (cd : Codec) (content : String) (cat : Option String) (src to : String) : Except Err String :=
  match cat with
  | none => .ok content
  | some cat =>
    match copyFile (cd.parse content) cat src to with
    | .error e => .error e
    | .ok .unchanged => .ok content
    | .ok (.rewritten f) => .ok (cd.render f)

/-- `replace_value(file_content, category, column, values)` -/
def replaceText (cd : Codec) (content : String) (cat : Option String) (col : String) (values : List Char) :
    Except Err (String × Mapping) :=
  match cat with
  | none => .ok (content, [])
  | some cat =>
    match replaceFile (cd.parse content) cat col values with
    | .error e => .error e
    | .ok (.unchanged, m) => .ok (content, m)
    | .ok (.rewritten f, m) => .ok (cd.render f, m)

/-! ## command line (`main`) -/

structure Args where
  input : String
  output : String
  category : Option String := none
  copyFrom : Option String := none
  copyTo : Option String := none
  replace : Option String := none
  values : Option String := none
deriving DecidableEq, Repr

/-- what the translator reads off the body of `main` -/
structure CliFlags where
  /-- `open(args.input)` is evaluated before the mode dispatch -/
  readsFirst : Bool
  /-- the first argument of the `copy_from_to(...)` call is `args.input` itself (the *path*) -/
  copyPassesPath : Bool
  /-- the first argument of the `replace_value(...)` call is `args.input` itself -/
  replacePassesPath : Bool
  /-- the result of `replace_value` (a tuple) is what is given to `f.write` -/
  replaceWritesTuple : Bool
deriving DecidableEq, Repr

/-- the flags of the present source tree -/
def currentFlags : CliFlags :=
  { readsFirst := Gen.cliReadsFirst, copyPassesPath := Gen.cliCopyPassesPath,
    replacePassesPath := Gen.cliReplacePassesPath, replaceWritesTuple := Gen.cliReplaceWritesTuple }

/-- the flags under which `main` does what its help text says -/
def fixedFlags (readsFirst : Bool) : CliFlags :=
  { readsFirst := readsFirst, copyPassesPath := false, replacePassesPath := false, replaceWritesTuple := false }

inductive CliOut where
  /-- usage printed, nothing written -/
  | help
  /-- `content` written to `path` -/
  | wrote (path content : String)
  /-- an exception escaped (`truncated`: the output file had already been opened for writing) -/
  | failed (e : Err) (truncated : Bool)
deriving DecidableEq, Repr

/-- Python truthiness of an optional string option -/
def truthy : Option String → Bool
  | none => false
  | some s => s != ""

def strOf (o : Option String) : String := o.getD ""

/-- reading the input file: a missing file is `FileNotFoundError` -/
def readInput (fs : String → Option String) (path : String) : Except Err String :=
  match fs path with
  | some s => .ok s
  | none => .error .other

def cliMain (fl : CliFlags) (cd : Codec) (fs : String → Option String) (a : Args) : CliOut :=
  let rd := readInput fs a.input
  match fl.readsFirst, rd with
  | true, .error e => .failed e false
  | _, _ =>
    if truthy a.copyFrom && truthy a.copyTo then
      match (if fl.copyPassesPath then .ok a.input else rd) with
      | .error e => .failed e false
      | .ok content =>
        match copyText cd content a.category (strOf a.copyFrom) (strOf a.copyTo) with
        | .error e => .failed e false
        | .ok out => .wrote a.output out
    else if truthy a.replace && truthy a.values then
      match (if fl.replacePassesPath then .ok a.input else rd) with
      | .error e => .failed e false
      | .ok content =>
        match replaceText cd content a.category (strOf a.replace) (strOf a.values).toList with
        | .error e => .failed e false
        | .ok (out, _) => if fl.replaceWritesTuple then .failed .typeError true else .wrote a.output out
    else .help

/-- the statement: the tool writes what the library function returns for the input file's content -/
def cliSpec (cd : Codec) (content : String) (a : Args) : CliOut :=
  if truthy a.copyFrom && truthy a.copyTo then
    match copyText cd content a.category (strOf a.copyFrom) (strOf a.copyTo) with
    | .error e => .failed e false
    | .ok out => .wrote a.output out
  else if truthy a.replace && truthy a.values then
    match replaceText cd content a.category (strOf a.replace) (strOf a.values).toList with
    | .error e => .failed e false
    | .ok (out, _) => .wrote a.output out
  else .help

end RnaVerif.Table

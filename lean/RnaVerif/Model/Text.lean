import RnaVerif.Model.SecStr
import RnaVerif.Model.Labels
import RnaVerif.Generated.CommonGlue
/-!
# Text glue of `rnapolis.common` (C01): BPSEQ text, dot-bracket text, multi-strand text

Mirrors on **ASCII text** (all code points < 128; stated, and enforced by the harness generators):

* `BpSeq.__str__`  — `printBpseqS` / `printBpseq`;
* `BpSeq.from_string` — `parseBpseq`: `str.splitlines()` (ASCII line boundaries `\n`, `\r`, `\r\n`,
  `\v`, `\f`, `\x1c`, `\x1d`, `\x1e`; *not* `\x1f`; the non-ASCII ones `\x85`, ` `, ` `
  are outside the model), `strip()`, skip empty, `split()` (runs of `str.isspace` characters: the
  ASCII ones are `\t \n \v \f \r \x1c–\x1f` and space), a line with a number of fields other than
  3 is skipped (the code logs a warning; the logging call passes `'{}'` with an argument, which
  makes the *logging module* print a formatting error to stderr but never raises), `int()` on fields
  0 and 2 (`Labels.pyInt`: ValueError), field 1 kept as a string;
* `DotBracket.from_string`, `__str__`, `from_file` (as a pure function of the file text);
* `MultiStrandDotBracket.from_string` — `parseMulti`: the **regular expression's** leftmost,
  non-overlapping scan, mirrored exactly for a pattern of the shape checked by the translator
  (`Gen.multiShapeOk`), not just a line parser.

Every literal comes from `RnaVerif.Gen` (`Generated/CommonGlue.lean`).
-/
namespace RnaVerif.Text
open RnaVerif.Labels (pySpaces cSpaces stripWith pyStrip pyInt splitBy getIdx)

/-! ## BPSEQ text -/

/-- an entry as `from_string` builds it: any integers, any (whitespace-free) token -/
structure EntryS where
  idx : Int
  tok : String
  pair : Int
deriving DecidableEq, Repr, Inhabited

def EntryS.ofEntry (e : Entry) : EntryS := ⟨(e.idx : Int), String.singleton e.ch, (e.pair : Int)⟩

/-- `str(i)` of a Python `int` -/
def showInt : Int → List Char
  | .ofNat n => Nat.toDigits 10 n
  | .negSucc n => '-' :: Nat.toDigits 10 (n + 1)

def piece (k : Nat) : List Char := (Gen.bpseqFmtPieces.getD k "").toList

/-- `"{} {} {}".format(i, c, j)` -/
def printEntryS (e : EntryS) : List Char :=
  piece 0 ++ showInt e.idx ++ piece 1 ++ e.tok.toList ++ piece 2 ++ showInt e.pair ++ piece 3

/-- `sep.join(lines)` -/
def joinWith (sep : List Char) : List (List Char) → List Char
  | [] => []
  | [l] => l
  | l :: ls => l ++ sep ++ joinWith sep ls

/-- `BpSeq.__str__` -/
def printBpseqL (es : List EntryS) : List Char := joinWith Gen.bpseqJoin.toList (es.map printEntryS)

def printBpseqS (es : List EntryS) : String := String.ofList (printBpseqL es)

def printBpseq (es : List Entry) : String := printBpseqS (es.map EntryS.ofEntry)

/-- ASCII line boundaries of `str.splitlines()` -/
def lineBreaks : List Char :=
  ['\n', '\r', Char.ofNat 11, Char.ofNat 12, Char.ofNat 28, Char.ofNat 29, Char.ofNat 30]

def consLine (c : Char) : List (List Char) → List (List Char)
  | [] => [[c]]
  | l :: ls => (c :: l) :: ls

/-- `str.splitlines()`; the flag says: the previous character was `\r` (a following `\n` belongs to
the same boundary) -/
def splitLinesGo : List Char → Bool → List (List Char)
  | [], _ => []
  | c :: cs, afterCR =>
    if afterCR && c == '\n' then splitLinesGo cs false
    else if lineBreaks.contains c then
      -- the line that ends here is empty as seen from this position; characters before it are
      -- prepended by `consLine` on the way back
      [] :: splitLinesGo cs (c == '\r')
    else consLine c (splitLinesGo cs false)

/- `consLine` prepends to the *first* line of the rest; a boundary opens a fresh first line `[]`.
One correction is needed: after a `\r` that is followed by `\n` the fresh line must not be opened
twice — handled by the flag (the `\n` is dropped). -/
def splitLines (cs : List Char) : List (List Char) := splitLinesGo cs false

/-- `str.split()` without arguments: maximal runs of non-whitespace -/
def pySplit (cs : List Char) : List (List Char) :=
  (splitBy pySpaces.contains cs).filter (fun f => !f.isEmpty)

inductive LineOutcome where
  | entry (e : EntryS)
  | blank
  | warned          -- number of fields ≠ 3: `logging.warning(...)`, `continue`
deriving DecidableEq, Repr

/-- one iteration of the loop in `BpSeq.from_string` -/
def parseLine (raw : List Char) : Except Err LineOutcome :=
  let line := pyStrip raw
  if line.length == 0 then .ok .blank
  else
    let fields := pySplit line
    if fields.length != Gen.bpseqFields then .ok .warned
    else
      -- `Entry(int(fields[0]), fields[1], int(fields[2]))`, evaluated left to right
      match getIdx fields 0 with
      | .error e => .error e
      | .ok f0 =>
        match pyInt f0 with
        | .error e => .error e
        | .ok i =>
          match getIdx fields 1 with
          | .error e => .error e
          | .ok f1 =>
            match getIdx fields 2 with
            | .error e => .error e
            | .ok f2 =>
              match pyInt f2 with
              | .error e => .error e
              | .ok j => .ok (.entry ⟨i, String.ofList f1, j⟩)

/-- the loop: entries in order, number of warnings; the first exception aborts the call -/
def parseLines : List (List Char) → Except Err (List EntryS × Nat)
  | [] => .ok ([], 0)
  | l :: ls =>
    match parseLine l with
    | .error e => .error e
    | .ok o =>
      match parseLines ls with
      | .error e => .error e
      | .ok (es, w) =>
        match o with
        | .entry e => .ok (e :: es, w)
        | .blank => .ok (es, w)
        | .warned => .ok (es, w + 1)

/-- `BpSeq.from_string` together with the number of logged warnings -/
def parseBpseqW (s : String) : Except Err (List EntryS × Nat) := parseLines (splitLines s.toList)

/-- `BpSeq.from_string(text).entries` -/
def parseBpseq (s : String) : Except Err (List EntryS) := (parseBpseqW s).map (·.1)

/-- an integer whose decimal form `int()` accepts (CPython limits the number of digits) -/
def wfInt (i : Int) : Bool :=
  Gen.pyIntMaxStrDigits == 0 || decide ((Nat.toDigits 10 i.natAbs).length ≤ Gen.pyIntMaxStrDigits)

/-- **well-formed entries** (decidable): both integers printable/readable, the sequence token
non-empty and free of (ASCII) whitespace — line boundaries are whitespace, too -/
def wellFormedEntries (es : List EntryS) : Bool :=
  es.all (fun e => wfInt e.idx && wfInt e.pair && !e.tok.toList.isEmpty &&
    e.tok.toList.all (fun c => !pySpaces.contains c))

abbrev WellFormedEntries (es : List EntryS) : Prop := wellFormedEntries es = true

/-! ## dot-bracket text -/

/-- `DotBracket.from_string(sequence, structure)`: the length check, then the dataclass constructor
runs `__post_init__` (the decoder, which raises IndexError on an unmatched closing bracket);
result: sequence, structure, `pairs` -/
def dbFromString (seq str : List Char) : Except Err (List Char × List Char × List (Nat × Nat)) :=
  if seq.length != str.length then .error .valueError
  else
    match SecStr.decodePairs str with
    | .error e => .error e
    | .ok ps => .ok (seq, str, ps)

/-- `DotBracket.__str__` -/
def printDB (seq str : List Char) : List Char := seq ++ Gen.dbStrSep.toList ++ str

/-- text-mode reading: universal newlines translate `\r\n` and `\r` to `\n` -/
def univNL : List Char → Bool → List Char
  | [], _ => []
  | c :: cs, afterCR =>
    if afterCR && c == '\n' then univNL cs false
    else if c == '\r' then '\n' :: univNL cs true
    else c :: univNL cs false

/-- `f.readlines()` without the terminators (they are removed by `rstrip()` anyway): pieces between
`\n`, where a final empty piece is not a line -/
def readLines (text : List Char) : List (List Char) :=
  let ps := splitBy (· == '\n') (univNL text false)
  if ps.getLast?.any (·.isEmpty) then ps.dropLast else ps

/-- `str.rstrip()` -/
def pyRStrip (cs : List Char) : List Char := (cs.reverse.dropWhile pySpaces.contains).reverse

/-- `DotBracket.from_file` as a function of the file's text: `RuntimeError` (→ `other`) unless the
number of lines is one of the listed ones -/
def dbFromFile (text : List Char) : Except Err (List Char × List Char × List (Nat × Nat)) :=
  let lines := readLines text
  match Gen.dbFileCases.find? (fun c => c.1 == lines.length) with
  | none => .error .other
  | some (_, a, b) =>
    match getIdx lines a with
    | .error e => .error e
    | .ok la =>
      match getIdx lines b with
      | .error e => .error e
      | .ok lb => dbFromString (pyRStrip la) (pyRStrip lb)

/-! ## multi-strand text: the regular expression's scan -/

structure StrandS where
  first : Nat
  last : Nat
  seq : List Char
  str : List Char
deriving DecidableEq, Repr

def isSeqCh (c : Char) : Bool := Gen.multiSeqClass.contains c
def isStrCh (c : Char) : Bool := Gen.multiStrClass.contains c

/-- `([SEQ]+)\n([STR]+)` anchored at the head of `cs`: greedy runs (no shorter run can be followed by
`\n`, which is in neither class); result: sequence, structure, number of characters consumed -/
def matchBody (cs : List Char) : Option (List Char × List Char × Nat) :=
  let seq := cs.takeWhile isSeqCh
  if seq.isEmpty then none
  else
    match cs.dropWhile isSeqCh with
    | c :: r =>
      if c == '\n' then
        let str := r.takeWhile isStrCh
        if str.isEmpty then none else some (seq, str, seq.length + 1 + str.length)
      else none
    | [] => none

/-- the whole pattern anchored at the head of `cs`: first with the optional header group
`>.*?\n` (`.` never matches `\n`, so the header ends at the first `\n`), then without it -/
def matchAt (cs : List Char) : Option (List Char × List Char × Nat) :=
  match cs with
  | c :: r =>
    if c == '>' then
      let hdr := r.takeWhile (· != '\n')
      match r.dropWhile (· != '\n') with
      | _ :: r' =>
        match matchBody r' with
        | some (seq, str, n) => some (seq, str, 1 + hdr.length + 1 + n)
        | none => matchBody cs
      | [] => matchBody cs
    else matchBody cs
  | [] => none

/-- `re.finditer`: leftmost match, then continue right after it.  `skip` = characters of the current
match still to be passed over; `first` = number of the next strand's first nucleotide.
`assert len(sequence) == len(structure)` → `AssertionError` (→ `other`). -/
def scanGo : List Char → Nat → Nat → Except Err (List StrandS)
  | [], _, _ => .ok []
  | _ :: cs, skip + 1, first => scanGo cs skip first
  | c :: cs, 0, first =>
    match matchAt (c :: cs) with
    | none => scanGo cs 0 first
    | some (seq, str, n) =>
      if seq.length != str.length then .error .other
      else
        match scanGo cs (n - 1) (first + seq.length) with
        | .error e => .error e
        | .ok rest => .ok (⟨first, first + seq.length - 1, seq, str⟩ :: rest)

def scanMulti (text : List Char) : Except Err (List StrandS) := scanGo text 0 1

/-- `MultiStrandDotBracket.from_string`: the strands; the constructor then decodes the joined
structure line (`__post_init__` is inherited) — IndexError on an unmatched closing bracket -/
def parseMulti (text : List Char) : Except Err (List StrandS) :=
  match scanMulti text with
  | .error e => .error e
  | .ok ss =>
    match SecStr.decodePairs (ss.flatMap (·.str)) with
    | .error e => .error e
    | .ok _ => .ok ss

/-- one record of a multi-strand text: optional header (without the leading `>`), sequence, structure -/
structure Record where
  header : Option (List Char)
  seq : List Char
  str : List Char
deriving DecidableEq, Repr

def printRecord (r : Record) : List Char :=
  (match r.header with
   | some h => '>' :: h ++ ['\n']
   | none => []) ++ r.seq ++ '\n' :: r.str

/-- records separated by a newline -/
def printMulti (rs : List Record) : List Char := joinWith ['\n'] (rs.map printRecord)

/-- strands numbered consecutively from `first` -/
def number : List Record → Nat → List StrandS
  | [], _ => []
  | r :: rs, first =>
    ⟨first, first + r.seq.length - 1, r.seq, r.str⟩ :: number rs (first + r.seq.length)

/-- **well-formed records** (decidable): header without newline, non-empty sequence over the sequence
class, structure over the structure class, equal lengths -/
def wellFormedRecords (rs : List Record) : Bool :=
  rs.all (fun r =>
    (match r.header with
     | some h => h.all (· != '\n')
     | none => true) &&
    !r.seq.isEmpty && r.seq.all isSeqCh && r.str.all isStrCh &&
    r.seq.length == r.str.length)

end RnaVerif.Text

import RnaVerif.Model.Geom
import RnaVerif.Generated.Torsion
/-!
# M9 — torsion angle of four points, both implementations (import-free)

`tertiary.calculate_torsion_angle_coords` (v1) and `tertiary_v2.calculate_torsion_angle` (v2) both end
in `atan2 y x`.  The model gives, for each implementation, the pair handed to `atan2` **up to one
common positive factor** as polynomials in the coordinates, in the shape

    Args = ⟨x, w, n⟩      meaning      atan2 (√n · w) x       (n = |p₃ − p₂|² ≥ 0).

With `v₁ = p₂ − p₁`, `v₂ = p₃ − p₂`, `v₃ = p₄ − p₃`:

* v1 (code): `uᵢ = vᵢ/|vᵢ|` (only if `|vᵢ| > 1e-6`, else `uᵢ = vᵢ`), `t₁ = u₁×u₂`, `t₂ = u₂×u₃`,
  `t₃ = u₁·|u₂|`, returns `atan2 (t₂·t₃) (clip (t₁·t₂) −1 1)`.
  Writing `uᵢ = sᵢ vᵢ` (`sᵢ > 0`): `t₁·t₂ = s₁s₂²s₃ · (v₁×v₂)·(v₂×v₃)` and
  `t₂·t₃ = s₁s₂²s₃ · |v₂| · (v₂×v₃)·v₁`.  **Dropped common positive factor: `s₁ s₂² s₃`**
  (= 1/(|v₁||v₂|²|v₃|) when all three are normalised) — lemma `argsV1_scale` / `v1_scaling`; the same
  pair results whichever of the three normalisations is skipped, which is why the code multiplies by
  `|u₂|`.  The `clip` is the identity on exact values (|t₁·t₂| ≤ 1 for unit vectors).
  Model: `x = (v₁×v₂)·(v₂×v₃)`, `w = (v₂×v₃)·v₁`, `n = v₂·v₂`.
* v2 (code): `N₁ = v₁×v₂`, `N₂ = v₂×v₃`, `n̂ᵢ = Nᵢ/|Nᵢ|`, `m₁ = n̂₁ × (v₂/|v₂|)`, returns
  `atan2 (m₁·n̂₂) (n̂₁·n̂₂)`.  `n̂₁·n̂₂ = N₁·N₂/(|N₁||N₂|)`, `m₁·n̂₂ = (N₁×v₂)·N₂/(|N₁||N₂||v₂|)`.
  Multiplying both by `|N₁||N₂|·n` (n = |v₂|²) — **dropped common positive factor `1/(|N₁||N₂| n)`**,
  lemma `v2_scaling` — gives the model `x = n·(N₁·N₂)`, `w = (N₁×v₂)·N₂`, `n = v₂·v₂`.

Degenerate guards as the code has them (thresholds from `Gen.Tor`), on squared quantities (the code
compares norms; `a < b ↔ a² < b²` for non-negative numbers):

* v1: `dᵢ = |vᵢ|²` if `|vᵢ|² > εₙ²` else `1` (the vector stays unnormalised);
  `|t₁|² = |v₁×v₂|²/(d₁d₂) < ε²  ∨  |t₂|² = |v₂×v₃|²/(d₂d₃) < ε²`  → the code returns `0.0`;
* v2: `|v₁×v₂|² < ε²  ∨  |v₂×v₃|² < ε²`  → the code returns `nan`.

Executable twin over `Rat`: `(sign x, sign w, n·w²/x²)` = (sign cos, sign sin, tan²) of the returned
angle, compared with the float result by the correspondence check.
-/
namespace RnaVerif.Torsion
open RnaVerif RnaVerif.V3

/-- `atan2 (√n · w) x` -/
structure Args (K : Type) where
  x : K
  w : K
  n : K
deriving DecidableEq, Repr

section generic
variable {K : Type} [Add K] [Sub K] [Mul K]

/-- v1 from the three bond vectors -/
def argsV1 (v1 v2 v3 : V3 K) : Args K :=
  let t1 := cross v1 v2
  let t2 := cross v2 v3
  ⟨dot t1 t2, dot t2 v1, dot v2 v2⟩

/-- v2 from the three bond vectors -/
def argsV2 (v1 v2 v3 : V3 K) : Args K :=
  let n1 := cross v1 v2
  let n2 := cross v2 v3
  ⟨dot v2 v2 * dot n1 n2, dot (cross n1 v2) n2, dot v2 v2⟩

def args1 (p1 p2 p3 p4 : V3 K) : Args K := argsV1 (sub p2 p1) (sub p3 p2) (sub p4 p3)
def args2 (p1 p2 p3 p4 : V3 K) : Args K := argsV2 (sub p2 p1) (sub p3 p2) (sub p4 p3)

/-- rigid motion `p ↦ R p + t` -/
def move (R : M3 K) (t p : V3 K) : V3 K := add (M3.apply R p) t

/-- transpose (kept in this namespace to avoid clashes with other work packages) -/
def transpose (m : M3 K) : M3 K :=
  ⟨⟨m.r1.x, m.r2.x, m.r3.x⟩, ⟨m.r1.y, m.r2.y, m.r3.y⟩, ⟨m.r1.z, m.r2.z, m.r3.z⟩⟩

variable [LT K] [DecidableLT K] [OfNat K 1]

/-- squared length used by v1's conditional normalisation: `|v|²` if `|v| > εₙ`, else 1 -/
def normDiv (en2 : K) (v : V3 K) : K := if en2 < norm2 v then norm2 v else 1

/-- v1 returns 0.0: `‖t₁‖ < ε ∨ ‖t₂‖ < ε`  (`en2 = εₙ²`, `e2 = ε²`) -/
def degenerate1 (en2 e2 : K) (p1 p2 p3 p4 : V3 K) : Bool :=
  let v1 := sub p2 p1; let v2 := sub p3 p2; let v3 := sub p4 p3
  let d1 := normDiv en2 v1; let d2 := normDiv en2 v2; let d3 := normDiv en2 v3
  decide (norm2 (cross v1 v2) < e2 * (d1 * d2)) || decide (norm2 (cross v2 v3) < e2 * (d2 * d3))

/-- v2 returns nan: `‖v₁×v₂‖ < ε ∨ ‖v₂×v₃‖ < ε` -/
def degenerate2 (e2 : K) (p1 p2 p3 p4 : V3 K) : Bool :=
  let v1 := sub p2 p1; let v2 := sub p3 p2; let v3 := sub p4 p3
  decide (norm2 (cross v1 v2) < e2) || decide (norm2 (cross v2 v3) < e2)

end generic

/-! ## executable twin over `Rat` -/

/-- what the code does: a value determined by `Args`, or the degenerate answer (`0.0` for v1, `nan` for v2) -/
inductive Out where
  | degenerate
  /-- sign of the first atan2 argument, sign of the second, `tan²` (`none` when x = 0) -/
  | val (sx sy : Int) (tan2 : Option Rat)
deriving DecidableEq, Repr

def sgn (q : Rat) : Int := if q < 0 then -1 else if 0 < q then 1 else 0

def quadTan (a : Args Rat) : Out :=
  .val (sgn a.x) (sgn a.w) (if a.x = 0 then none else some (a.n * (a.w * a.w) / (a.x * a.x)))

def v1NormEps2 : Rat := Gen.Tor.v1NormEps * Gen.Tor.v1NormEps
def v1CrossEps2 : Rat := Gen.Tor.v1CrossEps * Gen.Tor.v1CrossEps
def v2CrossEps2 : Rat := Gen.Tor.v2CrossEps * Gen.Tor.v2CrossEps

/-- model of `tertiary.calculate_torsion_angle_coords` -/
def torsion1Rat (p1 p2 p3 p4 : V3 Rat) : Out :=
  if degenerate1 v1NormEps2 v1CrossEps2 p1 p2 p3 p4 then .degenerate else quadTan (args1 p1 p2 p3 p4)

/-- model of `tertiary_v2.calculate_torsion_angle` -/
def torsion2Rat (p1 p2 p3 p4 : V3 Rat) : Out :=
  if degenerate2 v2CrossEps2 p1 p2 p3 p4 then .degenerate else quadTan (args2 p1 p2 p3 p4)

/-- relative margin of the guards (how far the input is from the degenerate threshold):
`min(|t₁|², |t₂|²)/ε²` for v1 resp. `min(|N₁|², |N₂|²)/ε²` for v2 — the harness skips inputs with a
margin within 1e-6 of 1 -/
def margin1 (p1 p2 p3 p4 : V3 Rat) : Rat :=
  let v1 := sub p2 p1; let v2 := sub p3 p2; let v3 := sub p4 p3
  let d1 := normDiv v1NormEps2 v1; let d2 := normDiv v1NormEps2 v2; let d3 := normDiv v1NormEps2 v3
  let a := norm2 (cross v1 v2) / (v1CrossEps2 * (d1 * d2))
  let b := norm2 (cross v2 v3) / (v1CrossEps2 * (d2 * d3))
  if a < b then a else b

def margin2 (p1 p2 p3 p4 : V3 Rat) : Rat :=
  let v1 := sub p2 p1; let v2 := sub p3 p2; let v3 := sub p4 p3
  let a := norm2 (cross v1 v2) / v2CrossEps2
  let b := norm2 (cross v2 v3) / v2CrossEps2
  if a < b then a else b

/-! ## quadruples (for the statements of the theorems) -/

structure Quad (K : Type) where
  p1 : V3 K
  p2 : V3 K
  p3 : V3 K
  p4 : V3 K
deriving DecidableEq, Repr

namespace Quad
variable {K : Type}
def map (f : V3 K → V3 K) (q : Quad K) : Quad K := ⟨f q.p1, f q.p2, f q.p3, f q.p4⟩
/-- the same four points listed in the opposite order -/
def rev (q : Quad K) : Quad K := ⟨q.p4, q.p3, q.p2, q.p1⟩
def args1 [Add K] [Sub K] [Mul K] (q : Quad K) : Args K := Torsion.args1 q.p1 q.p2 q.p3 q.p4
def args2 [Add K] [Sub K] [Mul K] (q : Quad K) : Args K := Torsion.args2 q.p1 q.p2 q.p3 q.p4
end Quad

/-- the canonical frame of the property statement: p₂ = 0, p₃ = (0,0,l), p₁ = (a,0,−c₁),
p₄ = p₃ + (b·c, b·s, c₃) with (c, s) = (cos φ, sin φ).  Bond lengths √(a²+c₁²), l, √(b²+c₃²) and bond
angles atan2(a, −c₁)…, i.e. every combination of bond lengths and bond angles in (0°,180°) arises. -/
def built {K : Type} [Add K] [Mul K] [Neg K] [OfNat K 0] (a b l c1 c3 c s : K) : Quad K :=
  ⟨⟨a, 0, -c1⟩, ⟨0, 0, 0⟩, ⟨0, 0, l⟩, ⟨b * c, b * s, l + c3⟩⟩

/-- mirror image (reflection in the plane z = 0) -/
def mirrorZ {K : Type} [Neg K] (p : V3 K) : V3 K := ⟨p.x, p.y, -p.z⟩

end RnaVerif.Torsion

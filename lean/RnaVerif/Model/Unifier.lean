import RnaVerif.Model.Splitter
import RnaVerif.Model.Readers
import RnaVerif.Generated.Unifier
/-!
# M7c — the table manipulations of `rnapolis.unifier.main` (core only, executable)

Per input file (a table parsed by `parse_pdb_atoms` / `parse_cif_atoms`, models: C09):

* `Structure(atoms).residues` — pandas `groupby` on (chain, number, insertion code): `Readers.groupSorted` with the
  key order of the frame's format (a mmCIF-derived frame is ordered by the *text* of `auth_seq_id`);
* a residue whose name (first row, read before anything is filtered — `residue_name` is a cached property) is
  not a **substring** of `"ACGU"` is dropped; a name that is a substring but has no component table (`""`, `"AC"`,
  `"CG"`, …) raises `KeyError`;
* atom names are replaced through the component's `alt_atom_id → atom_id` dictionary, rows whose name is not one
  of the component's non-hydrogen `atom_id`s are dropped, the rest is sorted (stable here; `sort_values` is numpy's
  quicksort, which is stable only up to 16 rows — it matters only for repeated names, e.g. alternate locations)
  by `sort_values(by=[column], key=lambda col: col.map(valid_order))`.  The name column is a pandas **categorical**
  whose categories are the distinct atom names of the *whole file* in lexicographic order (`catsOfFile`), renamed in
  place by the replacement (`catsAfter`).  `Categorical.map` with a dictionary returns a categorical again when every
  category has an image, and sorting a categorical sorts by category *position*, not by the mapped numbers.  Hence:
  when every atom name of the file is a standard non-hydrogen atom of the residue at hand the rows come out in
  category (lexicographic) order; otherwise (any hydrogen, any atom of another residue type, … anywhere in the file)
  in component order (`sortKeyOf`).

Across files: the residue lists must have the length and the names of the first file's (else `sys.exit(1)`);
positions at which some file has another number of atoms than the first are deleted in all files; at every
remaining position the most common identifier `(chain, number, insertion code)` (ties: the first seen, i.e. the
first file's — `Counter.most_common(1)` is `max`) is written into all files.  Reading the identifier of a
residue that has no atom left raises `IndexError` (`.iloc[0]` on an empty frame).

Output per file: `pd.concat` of the residue frames (`ValueError` when no residue is left; `IndexError` for
`--format keep`, which looks at `residues[0]` first), then `fit_to_pdb` + `write_pdb` (a `ValueError` of the fit
skips the file) or `write_cif`.

Component tables, the name-test string and the hydrogen prefix are parameters (`Cfg`); `codeCfg` takes them from
`Gen.Unifier` (regenerated from `component_*.csv` and `unifier.py` on every run).
-/
namespace RnaVerif.Unifier
open RnaVerif RnaVerif.Pdb RnaVerif.Fit RnaVerif.Splitter

/-- rows `(atom_id, alt_atom_id)` of one component file, in file order -/
abbrev Component := List (Str × Str)

structure Cfg where
  nameTest : Str
  hPrefix : Str
  comps : List (Str × Component)

def codeCfg : Cfg :=
  { nameTest := Gen.Unifier.nameTest.toList
    hPrefix := Gen.Unifier.hydrogenPrefix.toList
    comps := Gen.Unifier.components.map (fun p => (p.1.toList, p.2.map (fun q => (q.1.toList, q.2.toList)))) }

/-- a parsed file: the frame's format and its rows, each with the text of the numbering column (used as the
group key of a mmCIF-derived frame only) -/
structure UFile where
  fmt : Format
  rows : List (String × Atom)

/-- one `tertiary_v2.Residue` as the tool uses it -/
structure URes where
  name : Str
  atoms : Table
  deriving Repr, DecidableEq

/-! ## per file -/

/-- `Structure(atoms).residues`: the groups, in key order, rows in table order -/
def groupsOf (f : UFile) : List Table :=
  match f.fmt with
  | .pdb => (Readers.groupSorted Readers.ltKeyPdb (fun p => Readers.key3 p.2) f.rows).map (fun g => g.2.map (·.2))
  | .cif => (Readers.groupSorted Readers.ltKeyCif Readers.keyCif f.rows).map (fun g => g.2.map (·.2))

/-- Python `s in t` for strings -/
def isInfix (s t : Str) : Bool := (List.range (t.length + 1)).any (fun i => (t.drop i).take s.length == s)

/-- `mapping_dict.get(name, name)`: the dictionary is built row by row, a later row with the same key wins -/
def rename (c : Component) (n : Str) : Str :=
  match c.reverse.find? (fun q => q.2 == n) with
  | some q => q.1
  | none => n

/-- `valid_names`: the `atom_id`s that do not start with the hydrogen prefix, in component order -/
def validNames (cfg : Cfg) (c : Component) : List Str :=
  (c.map (·.1)).filter (fun n => !(cfg.hPrefix.isPrefixOf n))

/-- stable insertion: `x` goes in front of the first element whose key is not smaller -/
def insertBy (key : Atom → Nat) (x : Atom) : Table → Table
  | [] => [x]
  | y :: ys => if key x ≤ key y then x :: y :: ys else y :: insertBy key x ys

def sortBy (key : Atom → Nat) (l : Table) : Table := l.foldr (insertBy key) []

/-- position of the (renamed) atom name in the component order -/
def orderKey (valid : List Str) (a : Atom) : Nat := valid.idxOf a.name

def insertStr (x : Str) : List Str → List Str
  | [] => [x]
  | y :: ys => if y < x then y :: insertStr x ys else if x = y then y :: ys else x :: y :: ys

/-- the categories of the name column: the distinct atom names of the file, ascending -/
def catsOfFile (rows : List Atom) : List Str := (rows.map (·.name)).foldr insertStr []

/-- categories after `replace(mapping_dict)`: renamed in place; a category whose new name is a category already
disappears -/
def catsAfter (c : Component) (cats : List Str) : List Str :=
  (cats.filter (fun n => rename c n == n || !cats.contains (rename c n))).map (rename c)

/-- does `col.map(valid_order)` stay categorical? -/
def sortsByCategory (valid cats' : List Str) : Bool := cats'.all valid.contains

/-- the sort key that is in effect -/
def sortKeyOf (valid cats' : List Str) (a : Atom) : Nat :=
  if sortsByCategory valid cats' then cats'.idxOf a.name else orderKey valid a

/-- the atoms of one residue after renaming, filtering and reordering; `cats` = categories of the file -/
def normalise (cfg : Cfg) (c : Component) (cats : List Str) (g : Table) : Table :=
  let valid := validNames cfg c
  sortBy (sortKeyOf valid (catsAfter c cats))
    ((g.map (fun a => { a with name := rename c a.name })).filter (fun a => valid.contains a.name))

/-- one iteration of the residue loop: `none` = the residue is skipped -/
def processResidue (cfg : Cfg) (cats : List Str) (g : Table) : Except Err (Option URes) :=
  match g with
  | [] => .ok none
  | h :: _ =>
    if !isInfix h.resName cfg.nameTest then .ok none
    else match cfg.comps.lookup h.resName with
      | none => .error .keyError
      | some c => .ok (some ⟨h.resName, normalise cfg c cats g⟩)

def processAll (cfg : Cfg) (cats : List Str) : List Table → Except Err (List URes)
  | [] => .ok []
  | g :: gs =>
    match processResidue cfg cats g with
    | .error e => .error e
    | .ok r =>
      match processAll cfg cats gs with
      | .error e => .error e
      | .ok rs => .ok (match r with | some x => x :: rs | none => rs)

def residuesOfFile (cfg : Cfg) (f : UFile) : Except Err (List URes) :=
  processAll cfg (catsOfFile (f.rows.map (·.2))) (groupsOf f)

/-! ## across files -/

def alen (r : URes) : Nat := r.atoms.length

/-- both validity checks against the first file -/
def shapesAgree (ref : List URes) (files : List (List URes)) : Bool :=
  files.all (fun rs => rs.length == ref.length && rs.map (·.name) == ref.map (·.name))

/-- `residues_to_remove`: positions at which some file has another number of atoms than the first file -/
def toRemove (ref : List URes) (files : List (List URes)) : List Nat :=
  (List.range ref.length).filter (fun i => files.any (fun rs => rs[i]?.map alen != ref[i]?.map alen))

def keepPositions (rm : List Nat) (rs : List URes) : List URes :=
  ((List.range rs.length).filter (fun i => !rm.contains i)).filterMap (fun i => rs[i]?)

abbrev ResIdent := Str × Int × Str

/-- `(residue.chain_id, residue.residue_number, residue.insertion_code)`: read from the first atom row -/
def identOf (r : URes) : Except Err ResIdent :=
  match r.atoms with
  | [] => .error .indexError
  | a :: _ => .ok (a.chain, a.resSeq, a.iCode)

/-- `Counter(l).most_common(1)[0][0]`: the value with the highest count, the first seen among equals -/
def mostCommon (l : List ResIdent) : Option ResIdent :=
  (firstSeen l).foldl (fun best x => match best with
    | none => some x
    | some b => if l.count b < l.count x then some x else some b) none

def setIdent (i : ResIdent) (r : URes) : URes :=
  { r with atoms := r.atoms.map (fun a => { a with chain := i.1, resSeq := i.2.1, iCode := i.2.2 }) }

def mapMExcept {α β} (f : α → Except Err β) : List α → Except Err (List β)
  | [] => .ok []
  | x :: xs =>
    match f x with
    | .error e => .error e
    | .ok y =>
      match mapMExcept f xs with
      | .error e => .error e
      | .ok ys => .ok (y :: ys)

/-- the identifier written at position `i`: the most common one over the files (in file order) -/
def commonIdent (files : List (List URes)) (i : Nat) : Except Err ResIdent :=
  match mapMExcept (fun rs => match rs[i]? with | some r => identOf r | none => .error .indexError) files with
  | .error e => .error e
  | .ok ids =>
    match mostCommon ids with
    | some x => .ok x
    | none => .error .indexError

/-- `residues[i].chain_id = …` for every position `i` (there are as many identifiers as positions) -/
def setIdents : List ResIdent → List URes → List URes
  | i :: is, r :: rs => setIdent i r :: setIdents is rs
  | _, rs => rs

inductive Unified where
  /-- `sys.exit(1)`: residue counts or names differ -/
  | exit1
  /-- an exception leaves `main` -/
  | crash (e : Err)
  /-- per file: format of the frame and the residue list after unification -/
  | ok (files : List (Format × List URes))
  deriving Repr

/-- everything up to the output loop -/
def unifyResidues (cfg : Cfg) (inputs : List UFile) : Unified :=
  match mapMExcept (residuesOfFile cfg) inputs with
  | .error e => .crash e
  | .ok files =>
    match files with
    | [] => .crash .indexError          -- `structures[0]` (argparse demands at least one file)
    | ref :: _ =>
      if !shapesAgree ref files then .exit1
      else
        let rm := toRemove ref files
        let kept := files.map (keepPositions rm)
        let n := (kept.headD []).length
        match mapMExcept (commonIdent kept) (List.range n) with
        | .error e => .crash e
        | .ok ids => .ok ((inputs.map (·.fmt)).zip (kept.map (setIdents ids)))

/-- `pd.concat([residue.atoms for residue in residues])` -/
def concatAtoms (rs : List URes) : Table := rs.flatMap (·.atoms)

structure OutFile where
  index : Nat
  fmt : Format
  content : Content
  deriving Repr

/-- the output loop.  `none` for `o` = `--format keep`. -/
def writeAll (o : OutFmt) (files : List (Format × List URes)) : Except Err (List OutFile) :=
  mapMExcept (fun p : Nat × Format × List URes =>
    if p.2.2.isEmpty then
      .error (if o == .keep then .indexError else .valueError)
    else
      let fmt := outFormat p.2.1 o
      .ok { index := p.1, fmt := fmt, content := splitOne p.2.1 fmt (concatAtoms p.2.2) })
    ((List.range files.length).zip files)

inductive Result where
  | exit1
  | crash (e : Err)
  | files (fs : List OutFile)
  deriving Repr

def unify (cfg : Cfg) (o : OutFmt) (inputs : List UFile) : Result :=
  match unifyResidues cfg inputs with
  | .exit1 => .exit1
  | .crash e => .crash e
  | .ok files =>
    match writeAll o files with
    | .error e => .crash e
    | .ok fs => .files fs

end RnaVerif.Unifier

import RnaVerif.Model.SecStr
/-!
# Faithful model of `BpSeq.__make_dot_bracket` (the sequence of list writes)

`SecStr.mkDB` describes the structure line *pointwise* (token function over the expanded triples).
The Python code does something more operational:

```
structure = ["." for _ in range(len(sequence))]
for i, stem in enumerate(regions):
    bracket = brackets[orders[i]]        # IndexError: orders too short / level outside -30..29
    j, k, n = stem
    while n > 0:
        structure[j - 1] = bracket[0]    # Python list assignment: negative index counts from the end,
        structure[k - 1] = bracket[1]    #   IndexError beyond either end; the last write wins
        j += 1; k -= 1; n -= 1
return DotBracket.from_string(sequence, "".join(structure))   # length check, then __post_init__ decodes
```

`mkDBwZ` mirrors exactly that on arbitrary integer region triples and integer levels (including
Python's negative indexing for `orders[...]`, `brackets[...]` and `structure[...]`), and ends with
what the `DotBracket` constructor does: the per-type stack decoder runs in `__post_init__`, so a
written line that closes a bracket of a type with no open bracket raises `IndexError` as well.
`Lemmas/Writer.lean` proves `mkDBw = mkDB` on the regions of every valid BPSEQ.
-/
namespace RnaVerif.SecStr

/-- Python index normalisation for a sequence of length `len`: `0 ≤ i < len` is itself,
`-len ≤ i < 0` counts from the end, anything else is out of range -/
def pyIdx (len : Nat) (i : Int) : Option Nat :=
  if 0 ≤ i then (if i.toNat < len then some i.toNat else none)
  else if (-i).toNat ≤ len then some (len - (-i).toNat) else none

/-- `l[i]` -/
def pyGet {α} (l : List α) (i : Int) : Except Err α :=
  match pyIdx l.length i with
  | some k =>
    match l[k]? with
    | some x => .ok x
    | none => .error .indexError
  | none => .error .indexError

/-- `l[i] = v` -/
def pySet {α} (l : List α) (i : Int) (v : α) : Except Err (List α) :=
  match pyIdx l.length i with
  | some k => .ok (l.set k v)
  | none => .error .indexError

/-- the `while n > 0` loop for one stem; the first argument is the number of iterations -/
def writeStem : Nat → Int → Int → Char × Char → List Char → Except Err (List Char)
  | 0, _, _, _, s => .ok s
  | n + 1, j, k, b, s =>
    match pySet s (j - 1) b.1 with
    | .error e => .error e
    | .ok s1 =>
      match pySet s1 (k - 1) b.2 with
      | .error e => .error e
      | .ok s2 => writeStem n (j + 1) (k - 1) b s2

/-- a region as the code receives it: any integer triple `(j, k, n)` -/
abbrev RegionZ := Int × Int × Int

/-- the `for i, stem in enumerate(regions)` loop; `i` is the running index into `orders` -/
def writeRegions (br : List (Char × Char)) (orders : List Int) :
    List RegionZ → Nat → List Char → Except Err (List Char)
  | [], _, s => .ok s
  | (j, k, n) :: rest, i, s =>
    match pyGet orders (i : Int) with
    | .error e => .error e
    | .ok o =>
      match pyGet br o with
      | .error e => .error e
      | .ok b =>
        -- `while n > 0: … n -= 1` runs `n` times for positive `n`, never otherwise
        match writeStem n.toNat j k b s with
        | .error e => .error e
        | .ok s' => writeRegions br orders rest (i + 1) s'

/-- `BpSeq.__make_dot_bracket(regions, orders)` on a sequence of length `n`: the structure line of the
returned `DotBracket`, or the exception raised -/
def mkDBwZ (n : Nat) (regs : List RegionZ) (orders : List Int) : Except Err (List Char) :=
  match writeRegions Gen.encBrackets orders regs 0 (List.replicate n '.') with
  | .error e => .error e
  | .ok s =>
    -- `DotBracket.from_string`: length check (list writes never change the length) …
    if s.length != n then .error .valueError
    else
      -- … then the dataclass constructor runs `__post_init__`, i.e. the decoder
      match decodePairs s with
      | .error e => .error e
      | .ok _ => .ok s

def Region.toZ (r : Region) : RegionZ := ((r.i : Int), (r.j : Int), (r.len : Int))

/-- the faithful writer on the model's (natural-number) regions and levels -/
def mkDBw (n : Nat) (regs : List Region) (lvs : List Nat) : Except Err (List Char) :=
  mkDBwZ n (regs.map Region.toZ) (lvs.map Int.ofNat)

end RnaVerif.SecStr

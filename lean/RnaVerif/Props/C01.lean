import RnaVerif.Model.SecStr
import RnaVerif.Model.Levels
import RnaVerif.Lemmas.Decode
import RnaVerif.Lemmas.Regions
import RnaVerif.Lemmas.MkDB
import RnaVerif.Lemmas.FromDB
/-! # C01 — BPSEQ <-> dot-bracket conversion is lossless for every encoder (property theorems)

All statements are about the executable model `RnaVerif.SecStr` (Model/SecStr.lean), which is tied
to `/repo/src/rnapolis/common.py` by the generated tables (`RnaVerif.Gen`) and by the differential
correspondence check.  Proofs live in `Lemmas/{Decode,Regions,MkDB,FromDB}.lean`.
-/
namespace RnaVerif.Props.C01
open RnaVerif RnaVerif.SecStr

/-! ## bridges to the generated tables -/

/-- bridge: the encoder's bracket list is the decoder's opening/closing alphabets zipped, there are
30 bracket types, and FCFS has exactly that many levels available -/
theorem brackets_agree :
    Gen.encBrackets = Gen.decOpening.zip Gen.decClosing ∧ Gen.encBrackets.length = 30 ∧
    Gen.fcfsAvail = 30 := by decide

/-- bridge: the conflict test written out at the three call sites is the crossing predicate of the
property statement -/
theorem conflict_sites_agree (k l m n : Nat) :
    Gen.conflictConvert k l m n = conflictSpec k l m n ∧
    Gen.conflictFcfs k l m n = conflictSpec k l m n ∧
    Gen.conflictAll k l m n = conflictSpec k l m n := by
  refine ⟨?_, ?_, ?_⟩ <;>
    first
      | rfl
      | (simp only [Gen.conflictConvert, Gen.conflictFcfs, Gen.conflictAll, conflictSpec]; grind)

/-- bridge: every token of level `< 30` written with the encoder's bracket list is read back as
the same token by the decoder's alphabets, and is a character of the dot-bracket alphabet -/
theorem alphabet_roundtrip (t : Tok) (h : t.levelLt 30) :
    tokOfChar (charOfTok Gen.encBrackets t) = t ∧ IsDBChar (charOfTok Gen.encBrackets t) := by
  have h' : t.levelLt Gen.encBrackets.length := by rw [brackets_agree.2.1]; exact h
  exact ⟨tok_roundtrip h', char_alphabet h'⟩

example : (Tok.op 29).levelLt 30 ∧ (Tok.cl 4).levelLt 30 :=
  ⟨by show 29 < 30; decide, by show 4 < 30; decide⟩

/-! ## 1. validity -/

/-- `valid` means: indices are `1..N` in file order; every partner is `0` (unpaired) or lies in
`1..N`, is not the entry itself, and points back (symmetry) -/
theorem valid_iff (es : List Entry) :
    valid es = true ↔
      ∀ k (h : k < es.length), es[k].idx = k + 1 ∧
        (es[k].pair = 0 ∨ (1 ≤ es[k].pair ∧ es[k].pair ≤ es.length ∧ es[k].pair ≠ k + 1 ∧
          partnerOf es es[k].pair = k + 1)) := by
  rw [SecStr.valid_iff]
  constructor
  · intro v k h
    refine ⟨v.idx_get k h, ?_⟩
    rcases v.pair_get k h with h0 | ⟨a, b, c⟩
    · exact Or.inl h0
    · by_cases h0 : es[k].pair = 0
      · exact Or.inl h0
      · exact Or.inr ⟨by omega, a, b, c⟩
  · intro h
    exact ⟨fun k hk => (h k hk).1, fun k hk => by
      rcases (h k hk).2 with h0 | ⟨_, a, b, c⟩
      · exact Or.inl h0
      · exact Or.inr ⟨a, b, c⟩⟩

/-- the running example: `ACGUACGU` with pairs 1-5, 2-7, 6-8 (an H-type pseudoknot plus a kissing
stem): three one-pair stems, conflicts 0–1 and 1–2 -/
def exEs : List Entry :=
  [⟨1, 'A', 5⟩, ⟨2, 'C', 7⟩, ⟨3, 'G', 0⟩, ⟨4, 'U', 0⟩, ⟨5, 'A', 1⟩, ⟨6, 'C', 8⟩, ⟨7, 'G', 2⟩,
   ⟨8, 'U', 6⟩]

/-- a second example with a stem of length two: `((..[[))..]]`-like, pairs 1-8, 2-7, 5-12, 6-11 -/
def exEs2 : List Entry :=
  [⟨1, 'G', 8⟩, ⟨2, 'G', 7⟩, ⟨3, 'A', 0⟩, ⟨4, 'A', 0⟩, ⟨5, 'C', 12⟩, ⟨6, 'C', 11⟩, ⟨7, 'C', 2⟩,
   ⟨8, 'C', 1⟩, ⟨9, 'A', 0⟩, ⟨10, 'A', 0⟩, ⟨11, 'G', 6⟩, ⟨12, 'G', 5⟩]

example : valid exEs = true ∧ valid exEs2 = true := by decide
example : regions exEs = [⟨1, 5, 1⟩, ⟨2, 7, 1⟩, ⟨6, 8, 1⟩] ∧
    regions exEs2 = [⟨1, 8, 2⟩, ⟨5, 12, 2⟩] := by decide

/-! ## 2. the stems partition the 5'→3' pairs -/

/-- **regions_cover**: for a valid BPSEQ, concatenating the pairs of all regions (in region order,
outermost pair first) gives exactly the list of 5'→3' pairs, which has no duplicates: every pair
lies in exactly one stem. -/
theorem regions_cover {es : List Entry} (hv : valid es = true) :
    (regions es).flatMap stemPairs = pairs0 es ∧ (pairs0 es).Nodup :=
  have v := (SecStr.valid_iff es).mp hv
  ⟨SecStr.regions_cover v, pairs0_nodup v⟩

/-- the same for what the writer actually expands (`triples`, with levels) -/
theorem regions_cover_triples {es : List Entry} (hv : valid es = true) (lvs : List Nat)
    (hlen : lvs.length = (regions es).length) :
    (triples (regions es) lvs).map (fun m => (m.1, m.2.1)) = pairs0 es :=
  SecStr.regions_cover_triples ((SecStr.valid_iff es).mp hv) lvs (by omega)

example : valid exEs2 = true ∧ [0, 1].length = (regions exEs2).length ∧
    pairs0 exEs2 = [(0, 7), (1, 6), (4, 11), (5, 10)] := by decide

/-! ## 3. the outer-pair conflict test decides crossing of whole stems -/

/-- **cross_uniform**: for two distinct regions of a valid BPSEQ, the code's conflict test on the
outer pairs holds iff some pair of `r` crosses some pair of `s`, iff every pair of `r` crosses
every pair of `s`. -/
theorem cross_uniform {es : List Entry} (hv : valid es = true) {r s : Region}
    (hr : r ∈ regions es) (hs : s ∈ regions es) (hne : r ≠ s) :
    (conflictSpec r.i r.j s.i s.j = true ↔ ∃ a ∈ stemPairs r, ∃ b ∈ stemPairs s, crosses a b) ∧
    (conflictSpec r.i r.j s.i s.j = true ↔ ∀ a ∈ stemPairs r, ∀ b ∈ stemPairs s, crosses a b) :=
  SecStr.cross_uniform ((SecStr.valid_iff es).mp hv) hr hs hne

example : valid exEs2 = true ∧ (⟨1, 8, 2⟩ : Region) ∈ regions exEs2 ∧
    (⟨5, 12, 2⟩ : Region) ∈ regions exEs2 ∧ (⟨1, 8, 2⟩ : Region) ≠ ⟨5, 12, 2⟩ ∧
    conflictSpec 1 8 5 12 = true := by decide

/-! ## 4. main theorem: whatever `mkDB` writes decodes to exactly the structure's pairs -/

/-- `s` is a lossless dot-bracket for `es`: same length, only characters of the dot-bracket
alphabet, the per-type stack decoder succeeds (never pops an empty stack), ends with every stack
empty (balanced per bracket type), and returns exactly the 5'→3' pairs of `es`, each once -/
def Lossless (es : List Entry) (s : List Char) : Prop :=
  s.length = es.length ∧ (∀ c ∈ s, IsDBChar c) ∧
  ∃ st, decodeChars s = some st ∧ (∀ t, st.stacks t = []) ∧ st.out.Nodup ∧
    ∀ p, p ∈ st.out ↔ p ∈ pairs0 es

/-- **decode_mkDB**: for a valid BPSEQ and *any* proper level assignment with levels `< 30`
(one level per region; conflicting regions on different levels), `__make_dot_bracket` succeeds and
its output is lossless. -/
theorem decode_mkDB {es : List Entry} {lvs : List Nat} (hv : valid es = true)
    (hlen : lvs.length = (regions es).length) (hlv : ∀ l ∈ lvs, l < 30)
    (hp : proper (adjOf conflictSpec (regions es)) lvs = true) :
    ∃ s, mkDB es.length (regions es) lvs = .ok s ∧ Lossless es s := by
  have hlv' : ∀ l ∈ lvs, l < Gen.encBrackets.length := by rw [brackets_agree.2.1]; exact hlv
  obtain ⟨s, st, h1, h2, h3, h4, h5, h6, h7⟩ :=
    decode_mkDB_P ((SecStr.valid_iff es).mp hv) hlen hlv' (properP_of_proper hp)
  exact ⟨s, h1, h2, h3, st, h4, h5, h6, h7⟩

/-- in particular the decoded list is a permutation of the structure's list of 5'→3' pairs -/
theorem lossless_perm {es : List Entry} {s : List Char} (hv : valid es = true)
    (h : Lossless es s) : ∃ st, decodeChars s = some st ∧ st.out.Perm (pairs0 es) := by
  obtain ⟨_, _, st, h1, _, h3, h4⟩ := h
  exact ⟨st, h1, (List.perm_ext_iff_of_nodup h3 (regions_cover hv).2).mpr h4⟩

example : valid exEs = true ∧ [0, 1, 0].length = (regions exEs).length ∧
    (∀ l ∈ [0, 1, 0], l < 30) ∧ proper (adjOf conflictSpec (regions exEs)) [0, 1, 0] = true ∧
    (mkDB exEs.length (regions exEs) [0, 1, 0]).toOption =
      some ['(', '[', '.', '.', ')', '(', ']', ')'] := by
  decide

/-- no two crossing pairs are written on the same bracket type -/
theorem written_noncrossing {es : List Entry} {lvs : List Nat} (hv : valid es = true)
    (hp : proper (adjOf conflictSpec (regions es)) lvs = true) :
    ∀ m ∈ triples (regions es) lvs, ∀ m' ∈ triples (regions es) lvs, m.2.2 = m'.2.2 →
      ¬ crosses (m.1, m.2.1) (m'.1, m'.2.1) := by
  have wf := wf_triples ((SecStr.valid_iff es).mp hv) lvs (properP_of_proper hp)
  intro m hm m' hm' hl hc
  rcases hc with h | h
  · exact wf.nocross m hm m' hm' hl h
  · exact wf.nocross m' hm' m hm hl.symm h

example : valid exEs = true ∧ proper (adjOf conflictSpec (regions exEs)) [0, 1, 0] = true ∧
    triples (regions exEs) [0, 1, 0] = [(0, 4, 0), (1, 6, 1), (5, 7, 0)] := by decide

/-! ## 5. first come, first served -/

/-- **fcfs_lossless**: whenever FCFS finds levels for a valid BPSEQ (i.e. 30 levels suffice for its
greedy choice; otherwise the code raises `StopIteration`), they are one per region, below 30 and
proper w.r.t. the conflict graph, and the dot-bracket `fcfs` returns is lossless. -/
theorem fcfs_lossless {es : List Entry} {lvs : List Nat} (hv : valid es = true)
    (hf : fcfsLevels Gen.conflictFcfs Gen.fcfsAvail (regions es) = some lvs) :
    lvs.length = (regions es).length ∧ (∀ l ∈ lvs, l < 30) ∧ ProperP (regions es) lvs ∧
    ∃ s, fcfs es = .ok s ∧ Lossless es s := by
  obtain ⟨h1, h2, h3⟩ := fcfs_proper (fun k l m n => (conflict_sites_agree k l m n).2.1)
    (by rw [brackets_agree.2.2]; decide) hf
  have h2' : ∀ l ∈ lvs, l < Gen.encBrackets.length := by
    rw [brackets_agree.2.1, ← brackets_agree.2.2]; exact h2
  refine ⟨h1, by rw [← brackets_agree.2.2]; exact h2, h3, ?_⟩
  obtain ⟨s, st, a1, a2, a3, a4, a5, a6, a7⟩ :=
    decode_mkDB_P ((SecStr.valid_iff es).mp hv) h1 h2' h3
  exact ⟨s, by rw [fcfs_eq_mkDB hf]; exact a1, a2, a3, st, a4, a5, a6, a7⟩

example : valid exEs = true ∧
    fcfsLevels Gen.conflictFcfs Gen.fcfsAvail (regions exEs) = some [0, 1, 0] := by decide

/-! ## 6. converse direction: dot-bracket → BPSEQ → dot-bracket -/

/-- **roundtrip_db**: whatever structure line `s` the decoder accepts (in particular every balanced
one), converting its pairs to BPSEQ over a sequence of the same length gives a valid BPSEQ with that
sequence whose 5'→3' pairs are exactly the decoded pairs.  (Emptiness of the final stacks is not
needed for this.) -/
theorem roundtrip_db {s seq : List Char} {st : St} (hd : decodeChars s = some st)
    (hlen : seq.length = s.length) :
    valid (fromDB seq st.out) = true ∧ (fromDB seq st.out).length = s.length ∧
    sequence (fromDB seq st.out) = seq ∧ ∀ p, p ∈ pairs0 (fromDB seq st.out) ↔ p ∈ st.out := by
  have ok : PairsOK seq.length st.out := hlen ▸ decodeChars_pairsOK hd
  exact ⟨(SecStr.valid_iff _).mpr (fromDB_valid ok), by rw [fromDB_length, hlen],
    fromDB_sequence _ _, pairs0_fromDB ok⟩

/-- … and writing that BPSEQ back with any proper level assignment decodes to the same set of
pairs: dot-bracket → BPSEQ → dot-bracket preserves the pairs. -/
theorem roundtrip_db_back {s seq : List Char} {st : St} (hd : decodeChars s = some st)
    (hlen : seq.length = s.length) {lvs : List Nat}
    (hl : lvs.length = (regions (fromDB seq st.out)).length) (hlv : ∀ l ∈ lvs, l < 30)
    (hp : proper (adjOf conflictSpec (regions (fromDB seq st.out))) lvs = true) :
    ∃ s' st', mkDB s.length (regions (fromDB seq st.out)) lvs = .ok s' ∧ s'.length = s.length ∧
      decodeChars s' = some st' ∧ (∀ t, st'.stacks t = []) ∧ ∀ p, p ∈ st'.out ↔ p ∈ st.out := by
  obtain ⟨hv, hn, _, hps⟩ := roundtrip_db hd hlen
  obtain ⟨s', h1, h2, _, st', h3, h4, _, h5⟩ := decode_mkDB hv hl hlv hp
  rw [hn] at h1 h2
  exact ⟨s', st', h1, h2, h3, h4, fun p => (h5 p).trans (hps p)⟩

example : ∃ st, decodeChars ['(', '[', '.', '.', ')', '(', ']', ')'] = some st ∧
    st.out = [(0, 4), (1, 6), (5, 7)] ∧ ['A', 'C', 'G', 'U', 'A', 'C', 'G', 'U'].length = 8 ∧
    fromDB ['A', 'C', 'G', 'U', 'A', 'C', 'G', 'U'] st.out = exEs :=
  ⟨_, rfl, by decide, by decide, by decide⟩

end RnaVerif.Props.C01

import RnaVerif.Model.SecStr
/-! # C01 — BPSEQ <-> dot-bracket conversion is lossless for every encoder (property theorems) -/
namespace RnaVerif.Props.C01
open RnaVerif RnaVerif.SecStr

/-- bridge: the encoder's bracket list is the decoder's opening/closing alphabets zipped, there are
30 bracket types, and FCFS has exactly that many levels available -/
theorem brackets_agree :
    Gen.encBrackets = Gen.decOpening.zip Gen.decClosing ∧ Gen.encBrackets.length = 30 ∧
    Gen.fcfsAvail = 30 := by decide

/-- bridge: the conflict test written out at the three call sites is the crossing predicate of the
property statement -/
theorem conflict_sites_agree (k l m n : Nat) :
    Gen.conflictConvert k l m n = conflictSpec k l m n ∧
    Gen.conflictFcfs k l m n = conflictSpec k l m n ∧
    Gen.conflictAll k l m n = conflictSpec k l m n := by
  refine ⟨?_, ?_, ?_⟩ <;>
    first
      | rfl
      | (simp only [Gen.conflictConvert, Gen.conflictFcfs, Gen.conflictAll, conflictSpec]; grind)

end RnaVerif.Props.C01

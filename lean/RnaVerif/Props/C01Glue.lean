import RnaVerif.Props.C01
import RnaVerif.Model.Writer
import RnaVerif.Model.Text
import RnaVerif.Lemmas.Writer
import RnaVerif.Lemmas.Text
/-! # C01 — the glue around the core: faithful writer, BPSEQ text, dot-bracket text, multi-strand text

`Props/C01.lean` proves that the *pointwise* writer `mkDB` is lossless.  This module brings the
surrounding code inside the model:

1. `mkDBw` (Model/Writer.lean) performs the list writes of `BpSeq.__make_dot_bracket` one by one
   (last write wins, Python negative indexing, IndexError beyond the ends, then the checks of the
   `DotBracket` constructor) — `mkDBw_eq_mkDB` shows it is `mkDB` on every valid structure, so all
   theorems of `Props/C01.lean` hold for what the code executes;
2. `printBpseqS` / `parseBpseq` (`BpSeq.__str__` / `from_string` on ASCII text):
   `bpseq_text_roundtrip`, `parse_total`;
3. `printDB` / `dbFromFile` (`DotBracket.__str__` / `from_file`): `db_text_roundtrip`;
4. `parseMulti` — the model of the *regular expression's scan* in
   `MultiStrandDotBracket.from_string`: `multi_roundtrip`.

The models are tied to the code by the generated tables (`Generated/CommonGlue.lean`) and by the
correspondence checks of `harness/corr/c01_extra.py` (`C01:writer:*`, `C01:text:*`,
`C01:multistrand:*`).
-/
namespace RnaVerif.Props.C01
open RnaVerif RnaVerif.SecStr RnaVerif.Text

-- equality of model outcomes is decidable (used only by the `example`s below)
deriving instance DecidableEq for Except

/-! ## bridges to the generated tables -/

/-- bridge: the literals of the text glue are the ones the models' proofs assume: three fields per
BPSEQ line, entries printed as `"{} {} {}"` joined by newlines, sequence and structure separated by
a newline, `from_file` accepts 2 lines (0,1) or 3 lines (1,2) -/
theorem glue_tables_agree :
    Gen.bpseqFields = 3 ∧ Gen.bpseqFmtPieces = ["", " ", " ", ""] ∧ Gen.bpseqJoin = "\n" ∧
    Gen.dbStrSep = "\n" ∧ Gen.dbFileCases = [(2, 0, 1), (3, 1, 2)] := by decide

/-- bridge: the pattern of `MultiStrandDotBracket.from_string` has the shape the scan model mirrors
(`((>.*?\n)?([SEQ]+)\n([STR]+))`), neither class contains the newline, `>` does not start a sequence,
and the structure class contains `.` and every bracket of the 30 types — every structure line the
library writes is accepted -/
theorem multi_regex_agrees :
    Gen.multiShapeOk = true ∧ isSeqCh '\n' = false ∧ isStrCh '\n' = false ∧ isSeqCh '>' = false ∧
    isStrCh '.' = true ∧ (∀ c ∈ Gen.decOpening, isStrCh c = true) ∧
    (∀ c ∈ Gen.decClosing, isStrCh c = true) := by decide

/-! ## 1. the write-by-write writer -/

/-- **mkDBw_eq_mkDB**: for a valid BPSEQ and one level per region, the sequence of list writes of
`__make_dot_bracket` followed by the `DotBracket` constructor (`mkDBw`) yields exactly the pointwise
`mkDB`: the writes hit distinct in-range positions, the decoder of `__post_init__` never fails, and a
level without a bracket raises `IndexError` in both. -/
theorem mkDBw_eq_mkDB {es : List Entry} {lvs : List Nat} (hv : valid es = true)
    (hlen : lvs.length = (regions es).length) :
    mkDBw es.length (regions es) lvs = mkDB es.length (regions es) lvs :=
  SecStr.mkDBw_eq_mkDB hv hlen

example : valid exEs2 = true ∧ [1, 0].length = (regions exEs2).length ∧
    (mkDBw exEs2.length (regions exEs2) [1, 0]).toOption =
      some ['[', '[', '.', '.', '(', '(', ']', ']', '.', '.', ')', ')'] := by decide

/-- hence what the code *executes* is lossless for every proper level assignment below 30 -/
theorem decode_mkDBw {es : List Entry} {lvs : List Nat} (hv : valid es = true)
    (hlen : lvs.length = (regions es).length) (hlv : ∀ l ∈ lvs, l < 30)
    (hp : proper (adjOf conflictSpec (regions es)) lvs = true) :
    ∃ s, mkDBw es.length (regions es) lvs = .ok s ∧ Lossless es s := by
  rw [mkDBw_eq_mkDB hv hlen]
  exact decode_mkDB hv hlen hlv hp

example : valid exEs = true ∧ [0, 1, 0].length = (regions exEs).length ∧
    (∀ l ∈ [0, 1, 0], l < 30) ∧ proper (adjOf conflictSpec (regions exEs)) [0, 1, 0] = true ∧
    (mkDBw exEs.length (regions exEs) [0, 1, 0]).toOption =
      some ['(', '[', '.', '.', ')', '(', ']', ')'] := by
  decide

/-- **writer_total**: whatever integer triples and levels `__make_dot_bracket` is given (overlapping,
reversed, zero, negative, out of range, too few orders), the only exception is `IndexError`, and a
returned structure line has the length of the sequence -/
theorem writer_total {n : Nat} {regs : List RegionZ} {orders : List Int} :
    (∀ e, mkDBwZ n regs orders = .error e → e = .indexError) ∧
    (∀ s, mkDBwZ n regs orders = .ok s → s.length = n) :=
  ⟨fun _ h => mkDBwZ_err h, fun _ h => mkDBwZ_length h⟩

/-- the model does exhibit the corner cases: last write wins (`()()`), Python's index `-1`
(`k = 0` writes the last position), a closing bracket before its opening one → `IndexError` -/
example :
    mkDBwZ 4 [(1, 4, 3)] [0] = .ok ['(', ')', '(', ')'] ∧
    mkDBwZ 4 [(1, 0, 1)] [-1] = .ok ['Z', '.', '.', 'z'] ∧
    mkDBwZ 4 [(4, 1, 1)] [0] = .error .indexError ∧
    mkDBwZ 4 [(1, 5, 1)] [0] = .error .indexError ∧
    mkDBwZ 4 [(1, 4, 1), (2, 3, 1)] [0] = .error .indexError := by decide

/-! ## 2. BPSEQ text -/

/-- **bpseq_text_roundtrip**: entries whose integers are within CPython's `int()` digit limit and
whose sequence token is non-empty and free of ASCII whitespace (`WellFormedEntries`, decidable) are
read back exactly, without a single skipped line, from the text `BpSeq.__str__` prints -/
theorem bpseq_text_roundtrip {es : List EntryS} (h : WellFormedEntries es) :
    parseBpseq (printBpseqS es) = .ok es ∧ parseBpseqW (printBpseqS es) = .ok (es, 0) := by
  have := parseBpseqW_print h
  exact ⟨by unfold parseBpseq; rw [this]; rfl, this⟩

example : WellFormedEntries [⟨1, "A", 3⟩, ⟨-2, "xy", 0⟩, ⟨3, "U", 1⟩] := by decide

/-- the same for the model's own entries (one character per position) -/
theorem bpseq_text_roundtrip_entries {es : List Entry}
    (h : WellFormedEntries (es.map EntryS.ofEntry)) :
    parseBpseq (printBpseq es) = .ok (es.map EntryS.ofEntry) :=
  (bpseq_text_roundtrip h).1

example : WellFormedEntries (exEs.map EntryS.ofEntry) := by decide

/-- **parse_total**: `BpSeq.from_string` raises nothing but `ValueError` (a non-integer first or
third field); lines with another number of fields are skipped -/
theorem parse_total {s : String} {e : Err} (h : parseBpseq s = .error e) : e = .valueError := by
  unfold parseBpseq parseBpseqW at h
  cases hp : parseLines (splitLines s.toList) with
  | error e' =>
    rw [hp] at h
    have := parseLines_err _ hp
    cases h
    exact this
  | ok r => rw [hp] at h; cases h

example : parseBpseq "1 A x" = .error .valueError ∧
    parseBpseqW "1 A 0\n2 C\n\n 3\tG  1_0 \r\n" = .ok ([⟨1, "A", 0⟩, ⟨3, "G", 10⟩], 1) := by decide

/-! ## 3. dot-bracket text -/

/-- **db_text_roundtrip**: reading the text `DotBracket.__str__` prints, through the line logic of
`from_file`, is `from_string` on the same sequence and structure — provided neither contains ASCII
whitespace and the structure is not empty -/
theorem db_text_roundtrip {seq str : List Char} (hne : str ≠ [])
    (hs : ∀ c ∈ seq, Labels.pySpaces.contains c = false)
    (ht : ∀ c ∈ str, Labels.pySpaces.contains c = false) :
    dbFromFile (printDB seq str) = dbFromString seq str :=
  dbFromFile_print hne hs ht

example : dbFromFile (printDB "ACGU".toList "(..)".toList) =
    .ok ("ACGU".toList, "(..)".toList, [(0, 3)]) := by decide
example : dbFromFile ">h\r\nAC \r\n()\r\n".toList = .ok ("AC".toList, "()".toList, [(0, 1)]) := by decide
example : dbFromFile "AC\n".toList = .error .other := by decide
example : dbFromFile "AC\n(\n".toList = .error .valueError := by decide

/-- no character of the dot-bracket alphabet is whitespace, so `db_text_roundtrip` applies to every
structure line the writer produces -/
theorem dbchar_not_space {c : Char} (h : IsDBChar c) : Labels.pySpaces.contains c = false := by
  have h1 : Labels.pySpaces.contains '.' = false := by decide
  have h2 : ∀ x ∈ Gen.decOpening, Labels.pySpaces.contains x = false := by decide
  have h3 : ∀ x ∈ Gen.decClosing, Labels.pySpaces.contains x = false := by decide
  rcases h with rfl | h | h
  · exact h1
  · exact h2 c h
  · exact h3 c h

/-- a lossless dot-bracket of a non-empty structure survives `str` → file → `from_file` -/
theorem lossless_text_roundtrip {es : List Entry} {s : List Char} (hne : es ≠ [])
    (hseq : ∀ c ∈ sequence es, Labels.pySpaces.contains c = false) (h : Lossless es s) :
    dbFromFile (printDB (sequence es) s) = dbFromString (sequence es) s := by
  apply db_text_roundtrip
  · intro e
    have := h.1
    rw [e] at this
    exact hne (List.eq_nil_of_length_eq_zero this.symm)
  · exact hseq
  · exact fun c hc => dbchar_not_space (h.2.1 c hc)

example : exEs ≠ [] ∧ (∀ c ∈ sequence exEs, Labels.pySpaces.contains c = false) ∧
    (mkDB exEs.length (regions exEs) [0, 1, 0]).toOption =
      some ['(', '[', '.', '.', ')', '(', ']', ')'] := by decide

/-! ## 4. multi-strand text -/

theorem number_str : ∀ (rs : List Record) (f : Nat),
    (number rs f).flatMap (·.str) = rs.flatMap (·.str) := by
  intro rs
  induction rs with
  | nil => intro _; rfl
  | cons r rs ih => intro f; simp only [number, List.flatMap_cons, ih]

/-- **multi_roundtrip**: for well-formed records (optional header line without newline, non-empty
sequence over the sequence class, structure over the structure class of equal length — decidable
`wellFormedRecords`), the regular expression's scan over the printed text finds exactly the records,
numbered consecutively from 1; `MultiStrandDotBracket.from_string` then returns them unless the
decoder of the inherited `__post_init__` fails on the joined structure line -/
theorem multi_roundtrip {rs : List Record} (h : wellFormedRecords rs = true) :
    scanMulti (printMulti rs) = .ok (number rs 1) ∧
    parseMulti (printMulti rs) =
      match decodePairs (rs.flatMap (·.str)) with
      | .error e => .error e
      | .ok _ => .ok (number rs 1) := by
  have hs : scanMulti (printMulti rs) = .ok (number rs 1) := scanGo_print rs 1 (wfRecord_of h)
  refine ⟨hs, ?_⟩
  unfold parseMulti
  rw [hs]
  simp only [number_str]
  cases decodePairs (rs.flatMap (·.str)) <;> rfl

example : wellFormedRecords [⟨some "strand A".toList, "AC".toList, "((".toList⟩,
      ⟨none, "GU-".toList, ")).".toList⟩] = true ∧
    parseMulti (printMulti [⟨some "strand A".toList, "AC".toList, "((".toList⟩,
      ⟨none, "GU-".toList, ")).".toList⟩]) =
      .ok [⟨1, 2, "AC".toList, "((".toList⟩, ⟨3, 5, "GU-".toList, ")).".toList⟩] := by decide

/-- the scan is not a line parser: a match may start inside a line, a sequence line is itself a
legal structure line, unequal lengths trip the `assert` -/
example :
    parseMulti "xxACGU\n....--".toList = .ok [⟨1, 4, "ACGU".toList, "....".toList⟩] ∧
    parseMulti "AC\nGU\n()".toList = .ok [⟨1, 2, "AC".toList, "GU".toList⟩] ∧
    parseMulti "ACG\n()".toList = .error .other ∧
    parseMulti "AC\n)(".toList = .error .indexError := by decide

end RnaVerif.Props.C01

import RnaVerif.Lemmas.PoaModel
/-!
# C02 — pseudoknot order assignment is a proper and optimal level assignment (property theorems)

Setting.  `regs` are the stems ("regions") of a structure, `c` the crossing test (the code uses
`Gen.conflictConvert`; nothing below depends on which test is used), `adjOf c regs` the conflict graph
as `convert_to_dot_bracket` builds it, `Δ = maxDegree …`, `milp c regs` the program handed to the
solver (`none` = the early return for an empty graph).  A solver result is a 0/1 assignment
`x : Nat → Nat → Bool` of the variables `x_i_o`; `levelsOf m x` are the levels read back from it.
What is assumed of the external solver is exactly the hypothesis `Optimal m x`.
All proofs are one-line appeals to `Lemmas/{Pushdown,Milp,PoaOptimal,PoaModel}.lean`.
-/
namespace RnaVerif.Props.C02
open RnaVerif RnaVerif.SecStr RnaVerif.SecStr.Poa

/-! ### concrete objects for the non-vacuity examples -/

/-- stems (1,5), (3,8), (6,10), one base pair each: the conflict graph is the path 0 – 1 – 2 -/
def regsPath : List Region := [⟨1, 5, 1⟩, ⟨3, 8, 1⟩, ⟨6, 10, 1⟩]
/-- two nested stems: no crossing -/
def regsFlat : List Region := [⟨1, 10, 2⟩, ⟨3, 8, 1⟩]
/-- the program the model builds for `regsPath` (Δ = 2, three levels) -/
def mPath : Milp :=
  milpG (adjOf Gen.conflictConvert regsPath) (fun i => (regsPath.getD i default).len) 3 3

example : edges Gen.conflictConvert regsPath = [(0, 1), (1, 2)] := by decide
example : maxDegree (adjOf Gen.conflictConvert regsPath) 3 = 2 := by decide
theorem milp_path : milp Gen.conflictConvert regsPath = some mPath := rfl
example : milp Gen.conflictConvert regsFlat = none := rfl

/-! ### 1. bridges to the regenerated objective rule and level bound -/

/-- bridge: the coefficient the code gives `x_i_o` is `+len` on level 0 and `−o·len` above -/
theorem objCoeff_spec (len o : Nat) :
    Gen.objCoeff (len : Int) (o : Int) = if o = 0 then (len : Int) else -((o : Int) * (len : Int)) := by
  rw [objCoeff_spec_int]; simp only [show ((o : Int) = 0) ↔ o = 0 by omega]

/-- bridge: the model's score is the objective of the property statement:
(nucleotides on level 0) − Σ_k k·(nucleotides on level k) -/
theorem score_spec (lens lv : List Nat) : score lens lv = scoreSpec lens lv :=
  score_eq_scoreSpec lens lv

/-- bridge: `max_order = Δ + 1` -/
theorem maxOrder_spec : Gen.maxOrderOffset = 1 := by decide

/-- the program has one block of `Δ + 1` level variables per stem -/
theorem milp_shape (c : ConfPred) (regs : List Region) (m : Milp) (h : milp c regs = some m) :
    m.nRegions = regs.length ∧ m.maxOrder = maxDegree (adjOf c regs) regs.length + 1 :=
  model_shape c regs m h

example : ∃ m, milp Gen.conflictConvert regsPath = some m := ⟨mPath, milp_path⟩

/-! ### 2. the program: feasible 0/1 assignments = proper level vectors with levels ≤ Δ -/

/-- a 0/1 assignment satisfies all constraints iff, on every stem's block, it is the one-hot
encoding of the level read back (which is `< maxOrder`), and the levels read back are proper -/
theorem milp_feasible_iff (c : ConfPred) (regs : List Region) (m : Milp)
    (h : milp c regs = some m) (x : Assign) :
    feasible m x = true ↔
      (∀ i, i < regs.length → (levelsOf m x).getD i 0 < m.maxOrder ∧
        ∀ o, o < m.maxOrder → x i o = decide (o = (levelsOf m x).getD i 0)) ∧
      proper (adjOf c regs) (levelsOf m x) = true :=
  model_feasible_iff c regs m h x

example : feasible mPath (encode [0, 1, 0]) = true := by decide
example : feasible mPath (encode [0, 0, 1]) = false := by decide

/-- shape of the read-back of a feasible assignment: one level per stem, each `≤ Δ` -/
theorem milp_levels (c : ConfPred) (regs : List Region) (m : Milp) (h : milp c regs = some m)
    (x : Assign) (hf : feasible m x = true) :
    (levelsOf m x).length = regs.length ∧
      ∀ i, i < regs.length → (levelsOf m x).getD i 0 < m.maxOrder :=
  model_levels c regs m h x hf

/-- the objective value `Σ coeff·x` of a feasible assignment is the score of its levels -/
theorem milp_objective (c : ConfPred) (regs : List Region) (m : Milp) (h : milp c regs = some m)
    (x : Assign) (hf : feasible m x = true) :
    objective m x = score (regs.map (·.len)) (levelsOf m x) :=
  model_objective c regs m h x hf

example : objective mPath (encode [0, 1, 0]) = 1 ∧ score [1, 1, 1] [0, 1, 0] = 1 := by decide

/-- conversely every proper level vector with levels `< maxOrder` is the read-back of a feasible
assignment (its one-hot encoding) -/
theorem milp_feasible_of_proper (c : ConfPred) (regs : List Region) (m : Milp)
    (h : milp c regs = some m) (lv : List Nat) (hl : lv.length = regs.length)
    (hb : ∀ i, i < regs.length → lv.getD i 0 < m.maxOrder)
    (hp : proper (adjOf c regs) lv = true) :
    feasible m (encode lv) = true ∧ levelsOf m (encode lv) = lv :=
  model_encode c regs m h lv hl hb hp

example : ([0, 1, 0] : List Nat).length = regsPath.length ∧
    (∀ i, i < regsPath.length → ([0, 1, 0] : List Nat).getD i 0 < mPath.maxOrder) ∧
    proper (adjOf Gen.conflictConvert regsPath) [0, 1, 0] = true := by decide

/-- the model's `readBack` (the loop `orders[i] = order` over the variables at 1) returns
`levelsOf`, in whatever order the variables at 1 are enumerated -/
theorem milp_readBack (c : ConfPred) (regs : List Region) (m : Milp) (h : milp c regs = some m)
    (x : Assign) (hf : feasible m x = true) (ones : List (Nat × Nat))
    (hones : ∀ i o, (i, o) ∈ ones ↔ i < regs.length ∧ o < m.maxOrder ∧ x i o = true) :
    readBack regs.length ones = levelsOf m x :=
  model_readBack c regs m h x hf ones hones

/-- … in particular for the region-major enumeration `onesOf` -/
theorem milp_readBack_onesOf (c : ConfPred) (regs : List Region) (m : Milp)
    (h : milp c regs = some m) (x : Assign) (hf : feasible m x = true) :
    readBack regs.length (onesOf m x) = levelsOf m x :=
  model_readBack_onesOf c regs m h x hf

example : onesOf mPath (encode [0, 1, 0]) = [(0, 0), (1, 1), (2, 0)] ∧
    readBack 3 [(2, 0), (1, 1), (0, 0)] = [0, 1, 0] ∧
    levelsOf mPath (encode [0, 1, 0]) = [0, 1, 0] := by decide

/-! ### 3. push-down -/

/-- every proper level vector — any levels, any number of them — is dominated by a Grundy one that
puts each stem on a level `≤` its number of crossing stems `≤ Δ`, pointwise not higher, and with
at least the same score.  (`lens ≥ 1` is not even needed for this part.) -/
theorem pushdown (adj : Nat → Nat → Bool) (hadj : SymIrr adj) (lens a : List Nat)
    (hlen : a.length = lens.length) (hp : proper adj a = true) :
    ∃ a' : List Nat, a'.length = a.length ∧ grundy adj a' = true ∧
      (∀ v, v < a.length → a'.getD v 0 ≤ degree adj a.length v) ∧
      (∀ v, v < a.length → a'.getD v 0 ≤ maxDegree adj a.length) ∧
      (∀ v, a'.getD v 0 ≤ a.getD v 0) ∧
      score lens a ≤ score lens a' :=
  Poa.pushdown adj hadj lens a hlen hp

/-- the conflict graph of the model is symmetric and irreflexive, for every crossing test -/
theorem conflict_graph_symIrr (c : ConfPred) (regs : List Region) : SymIrr (adjOf c regs) :=
  adjOf_symIrr c regs

example : proper (adjOf Gen.conflictConvert regsPath) [7, 3, 5] = true ∧
    pushDown (adjOf Gen.conflictConvert regsPath) [7, 3, 5] = [1, 0, 1] ∧
    grundy (adjOf Gen.conflictConvert regsPath) [1, 0, 1] = true ∧
    score [1, 1, 1] [7, 3, 5] = -15 ∧ score [1, 1, 1] [1, 0, 1] = -1 := by decide

/-! ### 4. main theorem -/

/-- **C02, main theorem.**  If the solver returns a feasible 0/1 assignment that is optimal for the
program it was given, the levels read back (i) never put two crossing stems on one level and
(ii) maximise the objective among *all* proper level assignments of the stems, with any number of
levels — the bound `Δ + 1` on the number of levels loses nothing. -/
theorem milp_optimal_is_global (c : ConfPred) (regs : List Region) (m : Milp)
    (h : milp c regs = some m) (x : Assign) (hopt : Optimal m x) :
    proper (adjOf c regs) (levelsOf m x) = true ∧
    ∀ a : List Nat, a.length = (levelsOf m x).length → proper (adjOf c regs) a = true →
      score (regs.map (·.len)) a ≤ score (regs.map (·.len)) (levelsOf m x) :=
  model_optimal_global c regs m h x hopt

/-- the same with the objective spelled out as in the property statement -/
theorem milp_optimal_is_global_spec (c : ConfPred) (regs : List Region) (m : Milp)
    (h : milp c regs = some m) (x : Assign) (hopt : Optimal m x) :
    proper (adjOf c regs) (levelsOf m x) = true ∧ (levelsOf m x).length = regs.length ∧
    ∀ a : List Nat, a.length = regs.length → proper (adjOf c regs) a = true →
      scoreSpec (regs.map (·.len)) a ≤ scoreSpec (regs.map (·.len)) (levelsOf m x) :=
  ⟨(model_optimal_global c regs m h x hopt).1, (model_levels c regs m h x hopt.1).1,
   fun a ha hp => by
    rw [← score_eq_scoreSpec, ← score_eq_scoreSpec]
    exact (model_optimal_global c regs m h x hopt).2 a
      (by rw [(model_levels c regs m h x hopt.1).1]; exact ha) hp⟩

/-- non-vacuity of `Optimal`, for every instance: the program always has an optimal 0/1 solution -/
theorem milp_optimal_exists (c : ConfPred) (regs : List Region) (m : Milp)
    (h : milp c regs = some m) : ∃ x : Assign, Optimal m x :=
  model_exists_optimal c regs m h

example : ∃ m x, milp Gen.conflictConvert regsPath = some m ∧ Optimal m x :=
  ⟨mPath, (milp_optimal_exists _ regsPath mPath milp_path).elim
    (fun x hx => ⟨x, milp_path, hx⟩)⟩

/-! ### 5. corollaries -/

/-- pseudoknot-free ⇒ only round brackets, part 1: the code takes the early return (no solver call,
all levels 0) exactly when no two stems cross -/
theorem knot_free_early_return (c : ConfPred) (regs : List Region) :
    milp c regs = none ↔ Edgeless (adjOf c regs) regs.length :=
  milp_none_iff c regs

/-- part 2: then "all on level 0" is proper and has the best score of all level vectors -/
theorem knot_free_all_round (adj : Nat → Nat → Bool) (lens : List Nat)
    (h : Edgeless adj lens.length) :
    proper adj (List.replicate lens.length 0) = true ∧
    ∀ a : List Nat, a.length = lens.length →
      score lens a ≤ score lens (List.replicate lens.length 0) :=
  edgeless_zero_best adj lens h

/-- part 3: and (all stems non-empty) it is the *only* optimal assignment -/
theorem knot_free_unique (adj : Nat → Nat → Bool) (lens a : List Nat)
    (hlen : a.length = lens.length) (hpos : ∀ l ∈ lens, 1 ≤ l) (h : Edgeless adj lens.length)
    (hbest : BestProper adj lens a) : a = List.replicate lens.length 0 :=
  edgeless_best_zero adj lens a hlen hpos h hbest

example : Edgeless (adjOf Gen.conflictConvert regsFlat) (regsFlat.map (·.len)).length ∧
    (∀ l ∈ regsFlat.map (·.len), 1 ≤ l) := by decide

example : BestProper (adjOf Gen.conflictConvert regsFlat) (regsFlat.map (·.len)) [0, 0] :=
  ⟨by decide, fun a ha _ =>
    (knot_free_all_round (adjOf Gen.conflictConvert regsFlat) (regsFlat.map (·.len))
      (by decide)).2 a ha⟩

/-- an optimal proper assignment (all stems non-empty) is Grundy: every stem sits on the lowest
level not taken by a stem crossing it -/
theorem optimal_is_grundy (adj : Nat → Nat → Bool) (hadj : SymIrr adj) (lens a : List Nat)
    (hlen : a.length = lens.length) (hpos : ∀ l ∈ lens, 1 ≤ l) (hbest : BestProper adj lens a) :
    grundy adj a = true :=
  best_is_grundy adj hadj lens a hlen hpos hbest

/-- "no stem could be moved to a lower level": moving a non-empty stem down strictly increases the
score, so in an optimal assignment every such move creates a clash -/
theorem optimal_no_move_down (adj : Nat → Nat → Bool) (lens a : List Nat)
    (hlen : a.length = lens.length) (hbest : BestProper adj lens a) (v d : Nat) (hv : v < a.length)
    (hd : d < a.getD v 0) (hl : 1 ≤ lens.getD v 0) : proper adj (a.set v d) = false :=
  best_no_move_down adj lens a hlen hbest v d hv hd hl

theorem move_down_improves (lens a : List Nat) (v d : Nat) (hlen : a.length = lens.length)
    (hv : v < a.length) (hd : d < a.getD v 0) (hl : 1 ≤ lens.getD v 0) :
    score lens a < score lens (a.set v d) :=
  score_set_lt lens a v d hlen hv hd hl

example : score [1, 1, 1] [0, 2, 0] < score [1, 1, 1] (([0, 2, 0] : List Nat).set 1 1) := by decide

/-- the solver's result itself: with all stems non-empty the read-back of an optimal solution is
Grundy -/
theorem milp_optimal_is_grundy (c : ConfPred) (regs : List Region) (m : Milp)
    (h : milp c regs = some m) (hpos : ∀ r ∈ regs, 1 ≤ r.len) (x : Assign) (hopt : Optimal m x) :
    grundy (adjOf c regs) (levelsOf m x) = true :=
  model_optimal_grundy c regs m h hpos x hopt

example : ∀ r ∈ regsPath, 1 ≤ r.len := by decide

/-- non-vacuity of `BestProper` on the path graph: an optimal proper assignment exists -/
example : ∃ a, a.length = 3 ∧ BestProper (adjOf Gen.conflictConvert regsPath) [1, 1, 1] a :=
  (milp_optimal_exists _ regsPath mPath milp_path).elim (fun x hx =>
    ⟨levelsOf mPath x, (milp_levels _ regsPath mPath milp_path x hx.1).1,
      model_optimal_global _ regsPath mPath milp_path x hx⟩)

/-- never worse than first-come-first-served — or than any other proper assignment `b` of the same
stems (FCFS levels are proper whenever FCFS succeeds) -/
theorem optimal_ge_fcfs (adj : Nat → Nat → Bool) (lens a b : List Nat)
    (hbest : BestProper adj lens a) (hb : b.length = a.length) (hp : proper adj b = true) :
    score lens b ≤ score lens a :=
  hbest.2 b hb hp

example : proper (adjOf Gen.conflictConvert regsPath) [0, 1, 2] = true ∧
    score [1, 1, 1] [0, 1, 2] = -2 ∧ score [1, 1, 1] [0, 1, 0] = 1 := by decide

/-- C02 at full strength, as one proposition (all parts above are proved; nothing is partial) -/
def C02_full : Prop :=
  ∀ (c : ConfPred) (regs : List Region),
    (milp c regs = none ↔ Edgeless (adjOf c regs) regs.length) ∧
    (Edgeless (adjOf c regs) regs.length →
      proper (adjOf c regs) (List.replicate regs.length 0) = true ∧
      ∀ a : List Nat, a.length = regs.length →
        scoreSpec (regs.map (·.len)) a ≤ scoreSpec (regs.map (·.len)) (List.replicate regs.length 0)) ∧
    ∀ (m : Milp), milp c regs = some m → ∀ x : Assign, Optimal m x →
      readBack regs.length (onesOf m x) = levelsOf m x ∧
      proper (adjOf c regs) (levelsOf m x) = true ∧
      (∀ a : List Nat, a.length = regs.length → proper (adjOf c regs) a = true →
        scoreSpec (regs.map (·.len)) a ≤ scoreSpec (regs.map (·.len)) (levelsOf m x)) ∧
      ((∀ r ∈ regs, 1 ≤ r.len) → grundy (adjOf c regs) (levelsOf m x) = true)

theorem C02_full_holds : C02_full := by
  intro c regs
  refine ⟨milp_none_iff c regs, ?_, ?_⟩
  · intro he
    have := edgeless_zero_best (adjOf c regs) (regs.map (·.len)) (by simpa using he)
    simp only [List.length_map] at this
    refine ⟨this.1, fun a ha => ?_⟩
    rw [← score_eq_scoreSpec, ← score_eq_scoreSpec]
    exact this.2 a ha
  · intro m h x hopt
    obtain ⟨h1, h2, h3⟩ := milp_optimal_is_global_spec c regs m h x hopt
    exact ⟨model_readBack_onesOf c regs m h x hopt.1, h1, h3,
      fun hpos => model_optimal_grundy c regs m h hpos x hopt⟩

end RnaVerif.Props.C02

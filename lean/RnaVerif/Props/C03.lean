import RnaVerif.Model.Pairs
import RnaVerif.Lemmas.Pairs
import RnaVerif.Lemmas.PairsReal
import RnaVerif.Lemmas.PairsCast
import RnaVerif.Lemmas.PairsCos50
import RnaVerif.Spec.PairsChemistry
/-! # C03 — reported base pairs are geometrically justified, edge-exclusive and maximal

Statements about the executable model `RnaVerif.Pairs` (Model/Pairs.lean), tied to
`/repo/src/rnapolis/{annotator,tertiary}.py` by the regenerated tables/thresholds (`RnaVerif.Gen`,
Generated/Annotator.lean) and by the relational correspondence check `harness/corr/c03.py`, which
evaluates `Pairs.specPairs` (the decidable form of the property) on the real output of `find_pairs`.

What is proved here:
* the three claims of the property about the *edge-occupation stage* for **every** processing order
  (`greedy_sound`, `greedy_exclusive`, `greedy_maximal`), so KD-tree set order and `most_common`
  tie-breaks are irrelevant; `spec_of_sandwich` combines them into the property's shape for any label
  multiset between "base-to-base contacts" and "all contacts" (O2' contacts may or may not arrive);
* over ℝ: the polynomial conditions the exact model tests are the angle window and the cis/trans test
  the code computes with `acos`/`atan2` (`angle_range_iff`, `cis_iff`);
* the exact model's three-valued answers on rational coordinates are sound for those real conditions
  (`model_angle_sound`, `model_distance_sound`, `model_cis_sound`); the pinned rational enclosure of cos²50°
  is proved to contain it (`cosSq50_encloses`), so no numeric fact is assumed;
* bridges from the regenerated tables and thresholds to what the statement pins (`params_bridge`: the
  specification predicate runs with the pinned `Params.spec`, so a changed threshold or table entry in the
  source both breaks the bridge and yields concrete failing inputs).

Not proved (carried by the correspondence): that the float/KD-tree stage hands the occupation stage a
label multiset inside the sandwich.
-/
namespace RnaVerif.Props.C03
open RnaVerif RnaVerif.Pairs

/-! ## bridges -/

/-- thresholds of the statement: 4.0 Å, 50°–130°, at least two hydrogen bonds, cis = (−90°, 90°) -/
theorem thresholds :
    Gen.Ann.hbondMaxDistance = 4 ∧ Gen.Ann.hbondAngleLo = 50 ∧ Gen.Ann.hbondAngleHi = 130 ∧
    Gen.Ann.minHbondCount = 2 ∧ Gen.Ann.cisLo = -90 ∧ Gen.Ann.cisHi = 90 := by decide

/-- the angle window is symmetric about 90° (so the orientation of the donor–acceptor vector, which
depends on KD-tree order, cannot matter) and both ends use the same squared-cosine enclosure, a proper
interval of width ≤ 1e-29 -/
theorem angle_window_symmetric :
    Gen.Ann.hbondAngleLo + Gen.Ann.hbondAngleHi = 180 ∧ Gen.Ann.cosSqLoEnc = Gen.Ann.cosSqHiEnc ∧
    Gen.Ann.cosSqLoEnc.1 < Gen.Ann.cosSqLoEnc.2 ∧
    Gen.Ann.cosSqLoEnc.2 - Gen.Ann.cosSqLoEnc.1 ≤ 1 / 100000000000000000000000000000 ∧
    0 < Gen.Ann.cosSqLoEnc.1 - cosBand ∧ Gen.Ann.cosSqLoEnc.2 + cosBand < 1 := by decide +kernel

/-- the regenerated chemistry tables are the pinned snapshot -/
theorem tables_snapshot :
    Gen.Ann.baseDonors = Spec.PairsChemistry.baseDonors ∧
    Gen.Ann.baseAcceptors = Spec.PairsChemistry.baseAcceptors ∧
    Gen.Ann.phosphateAcceptors = Spec.PairsChemistry.phosphateAcceptors ∧
    Gen.Ann.riboseAcceptors = Spec.PairsChemistry.riboseAcceptors ∧
    Gen.Ann.baseEdges = Spec.PairsChemistry.baseEdges := by decide

/-- **params_bridge**: everything the model takes from the regenerated source (tables, thresholds, enclosure,
atom names, BPh table, merge rules, "each atom inserted once") equals what the statements pin.  The
specification predicates run with `Params.spec`, the functional comparisons with `Params.gen`. -/
theorem params_bridge : Params.gen = Params.spec := by decide +kernel

/-- atoms of the glycosidic torsion and of the base normal -/
theorem geometry_atoms_snapshot :
    Gen.Ann.purineLetters = Spec.PairsChemistry.purineLetters ∧
    Gen.Ann.normalPurineLetters = Spec.PairsChemistry.purineLetters ∧
    (Gen.Ann.glycoSugar, Gen.Ann.glycoPurine, Gen.Ann.glycoOther) = Spec.PairsChemistry.glyco ∧
    Gen.Ann.normalPurine = Spec.PairsChemistry.normalPurine ∧
    Gen.Ann.normalOther = Spec.PairsChemistry.normalOther := by decide

/-- every donor and every acceptor of a base has an edge entry (so no base contact is silently dropped
by the edge lookup) -/
theorem donors_acceptors_have_edges :
    ∀ e ∈ Gen.Ann.baseDonors ++ Gen.Ann.baseAcceptors, ∀ n ∈ e.2, (edgesOf Params.gen e.1 n).isSome = true := by decide

/-- every edge entry names only the three Leontis–Westhof edges -/
theorem edges_are_WHS :
    ∀ e ∈ Gen.Ann.baseEdges, ∀ a ∈ e.2, a.2.toList ≠ [] ∧ ∀ c ∈ a.2.toList, c = 'W' ∨ c = 'H' ∨ c = 'S' := by
  decide

/-- the typing rule of `find_pairs`: an atom named in both lists is an acceptor; the atoms typed donor
are exactly the base donors that are not ribose/phosphate oxygens -/
theorem kinds :
    ∀ e ∈ Gen.Ann.baseDonors, ∀ n ∈ e.2,
      (kindOf Params.gen e.1 n = .donor ↔ sugarPhosphateName Params.gen n = false) := by decide

/-- the code inserts every atom of a residue into the KD-tree once (after the O2' fix: the names are
iterated through `dict.fromkeys(acceptors + donors)`).  With `acceptors + donors` iterated as written,
`O2'` — listed in `RIBOSE_ACCEPTORS` and in `BASE_DONORS` — was inserted twice and a single O2'…X contact
counted as two hydrogen bonds; this theorem fails to check on such a source tree. -/
theorem points_nodup : ∀ e ∈ Gen.Ann.baseDonors, (codePointNames Params.gen e.1).Nodup := by decide

/-- the spec-level point set lists every atom once, whatever the source does -/
theorem pointNames_nodup : ∀ e ∈ Gen.Ann.baseDonors, (pointNames Params.gen e.1).Nodup := by decide

/-! ## the occupation stage, for every processing order -/

/-- **greedy_sound**: whatever the processing order, every reported label has at least two hydrogen bonds -/
theorem greedy_sound (order labels : List Label) :
    ∀ l ∈ greedyOccupy Params.gen order labels, 2 ≤ labels.count l :=
  greedy_sound' (P := Params.gen) order labels

/-- **greedy_exclusive**: whatever the processing order, no (residue, edge) slot occurs in two reported
pairs (and no pair is reported twice) -/
theorem greedy_exclusive (order labels : List Label) :
    (greedyOccupy Params.gen order labels).Pairwise (fun a b => ∀ s ∈ a.slots, s ∉ b.slots) ∧
    (greedyOccupy Params.gen order labels).Nodup :=
  ⟨greedy_exclusive' order labels, greedy_nodup' order labels⟩

/-- **greedy_maximal**: whatever the processing order (as long as the label is processed at all), a label
with at least two hydrogen bonds that is not reported has one of its two slots taken by a reported pair -/
theorem greedy_maximal (order labels : List Label) (l : Label) (hl : l ∈ order)
    (hc : 2 ≤ labels.count l) (hn : l ∉ greedyOccupy Params.gen order labels) :
    ∃ o ∈ greedyOccupy Params.gen order labels, l.slot1 ∈ o.slots ∨ l.slot2 ∈ o.slots :=
  greedy_maximal' (P := Params.gen) order labels l hl hc hn

def exLabels : List Label :=
  [⟨0, 5, true, 'W', 'W'⟩, ⟨0, 5, true, 'W', 'W'⟩, ⟨0, 7, false, 'W', 'H'⟩, ⟨0, 7, false, 'W', 'H'⟩,
   ⟨0, 7, false, 'W', 'H'⟩, ⟨2, 5, true, 'S', 'H'⟩, ⟨2, 5, true, 'S', 'H'⟩, ⟨3, 4, true, 'W', 'W'⟩]

/-- non-vacuity: a label with two hydrogen bonds loses its W edge to a label with three -/
example : (⟨0, 5, true, 'W', 'W'⟩ : Label) ∈ mostCommonOrder exLabels ∧
    2 ≤ exLabels.count ⟨0, 5, true, 'W', 'W'⟩ ∧
    greedyOccupy Params.gen (mostCommonOrder exLabels) exLabels = [⟨0, 7, false, 'W', 'H'⟩, ⟨2, 5, true, 'S', 'H'⟩] ∧
    (⟨0, 5, true, 'W', 'W'⟩ : Label) ∉ greedyOccupy Params.gen (mostCommonOrder exLabels) exLabels := by decide

/-- `Counter.most_common()` processes every distinct label exactly once, by non-increasing count -/
theorem mostCommon_order (labels : List Label) :
    (∀ l, l ∈ mostCommonOrder labels ↔ l ∈ labels) ∧ (mostCommonOrder labels).Nodup ∧
    (mostCommonOrder labels).Pairwise (fun a b => labels.count b ≤ labels.count a) :=
  ⟨fun _ => mem_mostCommonOrder, nodup_mostCommonOrder labels, mostCommonOrder_sorted labels⟩

/-- **spec_of_sandwich** — the property at the level of labels.  Let `bb` be the labels of the distinct
base-to-base contacts, `all` those of all distinct qualifying contacts (including the ones through O2'),
and let the code have collected any multiset `code` in between.  Then for every processing order that
covers `code`, the reported pairs `out` satisfy the three clauses of C03:
every reported pair has ≥ 2 distinct contacts; no slot is used twice; every label with ≥ 2 base-to-base
contacts is reported or has a slot taken. -/
theorem spec_of_sandwich (bb code all order : List Label)
    (hlo : ∀ l, bb.count l ≤ code.count l) (hhi : ∀ l, code.count l ≤ all.count l)
    (hcov : ∀ l ∈ code, l ∈ order) :
    let out := greedyOccupy Params.gen order code
    (∀ l ∈ out, 2 ≤ all.count l) ∧
    out.Pairwise (fun a b => ∀ s ∈ a.slots, s ∉ b.slots) ∧
    (∀ l, 2 ≤ bb.count l → l ∈ out ∨ ∃ o ∈ out, l.slot1 ∈ o.slots ∨ l.slot2 ∈ o.slots) := by
  refine ⟨fun l hl => Nat.le_trans (greedy_sound order code l hl) (hhi l),
    (greedy_exclusive order code).1, ?_⟩
  intro l hb
  have hc : 2 ≤ code.count l := Nat.le_trans hb (hlo l)
  have hmem : l ∈ code := List.count_pos_iff.mp (by omega)
  by_cases hin : l ∈ greedyOccupy Params.gen order code
  · exact Or.inl hin
  · exact Or.inr (greedy_maximal order code l (hcov l hmem) hc hin)

/-- non-vacuity: an O2' contact that reaches the base-base stage only sometimes -/
example : let bb : List Label := [⟨1, 2, true, 'W', 'W'⟩, ⟨1, 2, true, 'W', 'W'⟩]
    let all := bb ++ [⟨1, 3, false, 'S', 'H'⟩, ⟨1, 3, false, 'S', 'H'⟩]
    let code := bb ++ [⟨1, 3, false, 'S', 'H'⟩]
    (∀ l ∈ all, bb.count l ≤ code.count l ∧ code.count l ≤ all.count l) ∧
    greedyOccupy Params.gen (mostCommonOrder code) code = [⟨1, 2, true, 'W', 'W'⟩] := by decide

/-- in the common orientation every label lists the lower residue first (distinct residues have
distinct sort keys) -/
theorem orient_lower_first {rank : Nat → Nat} {i j : Nat} (cis : Bool) (ei ej : Char)
    (hne : rank i ≠ rank j) :
    rank (orient (decide (rank i < rank j)) i j cis ei ej).lo <
      rank (orient (decide (rank i < rank j)) i j cis ei ej).hi :=
  Pairs.orient_lower_first cis ei ej hne

example : (id 3 : Nat) ≠ id 1 ∧ orient (decide (id 3 < id 1)) 3 1 true 'W' 'H' = ⟨1, 3, true, 'H', 'W'⟩ := by
  decide

/-! ## ℝ: the polynomial conditions are the code's angle tests -/

open Real V3 in
/-- **angle_range_iff**: `50° < arccos(n·v/|n|/|v|) < 130°  ↔  (n·v)² < cos²50° · |n|²|v|²` -/
theorem angle_range_iff (n v : V3 ℝ) (hn : 0 < norm2 n) (hv : 0 < norm2 v) :
    (50 * π / 180 < arccos (dot n v / √(norm2 n) / √(norm2 v)) ∧
      arccos (dot n v / √(norm2 n) / √(norm2 v)) < 130 * π / 180) ↔
    dot n v ^ 2 < cos (50 * π / 180) ^ 2 * (norm2 n * norm2 v) := by
  have h130 : 130 * π / 180 = π - 50 * π / 180 := by ring
  rw [h130]
  exact PairsReal.angle_window_iff n v hn hv (by positivity) (by linarith [pi_pos])

example : (0 : ℝ) < V3.norm2 (⟨0, 0, 1⟩ : V3 ℝ) ∧ (0 : ℝ) < V3.norm2 (⟨1, 0, 0⟩ : V3 ℝ) := by
  constructor <;> norm_num [V3.norm2, V3.dot]

open Real V3 in
/-- the exact model's answer is sound for the real angle window, *given* that the generated rational
interval encloses cos²50° (an explicit hypothesis: the enclosure is computed by the translator, not
proved in Lean): inside the lower bound ⇒ in the window, beyond the upper bound ⇒ outside -/
theorem enclosure_sound (q m lo hi : ℝ) (hm : 0 ≤ m)
    (henc : lo ≤ cos (50 * π / 180) ^ 2 ∧ cos (50 * π / 180) ^ 2 ≤ hi) :
    (q < lo * m → q < cos (50 * π / 180) ^ 2 * m) ∧ (hi * m < q → ¬ q < cos (50 * π / 180) ^ 2 * m) := by
  constructor
  · intro h
    have : lo * m ≤ cos (50 * π / 180) ^ 2 * m := mul_le_mul_of_nonneg_right henc.1 hm
    linarith
  · intro h h'
    have : cos (50 * π / 180) ^ 2 * m ≤ hi * m := mul_le_mul_of_nonneg_right henc.2 hm
    linarith

example : (0 : ℝ) ≤ 1 ∧ (0 : ℝ) ≤ Real.cos (50 * Real.pi / 180) ^ 2 ∧ Real.cos (50 * Real.pi / 180) ^ 2 ≤ 1 :=
  ⟨by norm_num, by positivity, by
    have := Real.cos_sq_le_one (50 * Real.pi / 180); exact this⟩

open Real V3 in
/-- **cis_iff**: with `x = t₁·t₂` computed by `calculate_torsion_angle_coords` from the bond vectors divided
by their norms `a, b, c` and any `y` (not both zero — the non-degenerate case),
`-90 < degrees(atan2(y, x)) < 90  ↔  0 < (v₁×v₂)·(v₂×v₃)` -/
theorem cis_iff (v1 v2 v3 : V3 ℝ) (a b c y : ℝ) (ha : 0 < a) (hb : 0 < b) (hc : 0 < c)
    (hnd : dot (cross (smul a⁻¹ v1) (smul b⁻¹ v2)) (cross (smul b⁻¹ v2) (smul c⁻¹ v3)) ≠ 0 ∨ y ≠ 0) :
    (-90 < PairsReal.atan2 y (dot (cross (smul a⁻¹ v1) (smul b⁻¹ v2))
        (cross (smul b⁻¹ v2) (smul c⁻¹ v3))) * 180 / π ∧
      PairsReal.atan2 y (dot (cross (smul a⁻¹ v1) (smul b⁻¹ v2))
        (cross (smul b⁻¹ v2) (smul c⁻¹ v3))) * 180 / π < 90) ↔
    0 < dot (cross v1 v2) (cross v2 v3) :=
  PairsReal.cis_iff v1 v2 v3 a b c y ha hb hc hnd

/-- non-vacuity: three mutually orthogonal unit bonds with y = 1 -/
example : (0 : ℝ) < 1 ∧
    (V3.dot (V3.cross (V3.smul (1 : ℝ)⁻¹ ⟨1, 0, 0⟩) (V3.smul (1 : ℝ)⁻¹ ⟨0, 1, 0⟩))
      (V3.cross (V3.smul (1 : ℝ)⁻¹ ⟨0, 1, 0⟩) (V3.smul (1 : ℝ)⁻¹ ⟨0, 0, 1⟩)) ≠ 0 ∨ (1 : ℝ) ≠ 0) :=
  ⟨by norm_num, Or.inr (by norm_num)⟩

/-! ## the exact model's three-valued answers are sound for the real-number conditions -/

open Real in
/-- the pinned rational interval really encloses cos² 50° (triple-angle identity `cos 150° = −√3/2`,
monotonicity of `4x³ − 3x` on `[1/2, ∞)`, 40-digit bounds of `√3`) -/
theorem cosSq50_encloses :
    ((Spec.PairsChemistry.cosSq50.1 : Rat) : ℝ) ≤ cos (50 * π / 180) ^ 2 ∧
    cos (50 * π / 180) ^ 2 ≤ ((Spec.PairsChemistry.cosSq50.2 : Rat) : ℝ) :=
  PairsCos50.cosSq50_encloses

open Real V3 PairsCast in
/-- **model_angle_sound**: for rational coordinates, if the exact model answers `yes` the real angle between
the normal and the donor–acceptor vector lies strictly between 50° and 130°; if it answers `no` it does
not.  (No numeric hypothesis: the enclosure of cos²50° is `cosSq50_encloses`.) -/
theorem model_angle_sound (n v : V3 Rat) (hn : 0 < norm2 (castV n)) (hv : 0 < norm2 (castV v)) :
    (angleTri Params.spec n v = .yes →
      50 * π / 180 < arccos (dot (castV n) (castV v) / √(norm2 (castV n)) / √(norm2 (castV v))) ∧
      arccos (dot (castV n) (castV v) / √(norm2 (castV n)) / √(norm2 (castV v))) < 130 * π / 180) ∧
    (angleTri Params.spec n v = .no →
      ¬ (50 * π / 180 < arccos (dot (castV n) (castV v) / √(norm2 (castV n)) / √(norm2 (castV v))) ∧
      arccos (dot (castV n) (castV v) / √(norm2 (castV n)) / √(norm2 (castV v))) < 130 * π / 180)) := by
  have henc := cosSq50_encloses
  have h := angleTri_sound Params.spec n v (cos (50 * π / 180) ^ 2) ⟨henc.1, henc.1⟩ ⟨henc.2, henc.2⟩
  rw [angle_range_iff (castV n) (castV v) hn hv]
  exact h

/-- non-vacuity of the hypotheses: a rational normal and contact vector of positive length -/
example : (0 : ℝ) < V3.norm2 (PairsCast.castV ⟨0, 0, 1⟩) ∧ (0 : ℝ) < V3.norm2 (PairsCast.castV ⟨3, 1, 0⟩) := by
  constructor <;> norm_num [V3.norm2, V3.dot, PairsCast.castV]

/-- non-vacuity: normal along z, contact vector in the plane (90°: `yes`), along the normal (0°: `no`) -/
example : angleTri Params.spec ⟨0, 0, 1⟩ ⟨3, 1, 0⟩ = .yes ∧ angleTri Params.spec ⟨0, 0, 2⟩ ⟨0, 0, 3⟩ = .no ∧
    angleTri Params.spec ⟨0, 0, 1⟩ ⟨1, 0, 1⟩ = .no ∧ angleTri Params.spec ⟨0, 0, 1⟩ ⟨1, 1, 1⟩ = .yes := by
  decide +kernel

/-- **model_distance_sound**: `yes` ⇒ `d² ≤ 4²`, `no` ⇒ `d² > 4²` -/
theorem model_distance_sound (d2 : Rat) :
    (distTri Params.spec d2 = .yes → d2 ≤ 4 * 4) ∧ (distTri Params.spec d2 = .no → 4 * 4 < d2) :=
  PairsCast.distTri_sound Params.spec d2 (by decide +kernel)

/-- **model_cis_sound**: `yes` ⇒ `(v₁×v₂)·(v₂×v₃) > 0` (cis by `cis_iff`), `no` ⇒ `< 0` (trans) -/
theorem model_cis_sound (p1 p2 p3 p4 : V3 Rat) :
    (torsionCisTri p1 p2 p3 p4 = .yes → 0 < torsionX p1 p2 p3 p4) ∧
    (torsionCisTri p1 p2 p3 p4 = .no → torsionX p1 p2 p3 p4 < 0) :=
  PairsCast.torsionCisTri_sound p1 p2 p3 p4

example : torsionCisTri ⟨1, 0, 0⟩ ⟨0, 0, 0⟩ ⟨0, 0, 1⟩ ⟨1, 1, 1⟩ = .yes ∧
    torsionCisTri ⟨1, 0, 0⟩ ⟨0, 0, 0⟩ ⟨0, 0, 1⟩ ⟨-1, 1, 1⟩ = .no ∧
    torsionCisTri ⟨1, 0, 0⟩ ⟨0, 0, 0⟩ ⟨0, 0, 1⟩ ⟨0, 1, 1⟩ = .undecided := by decide +kernel

/-- the cis/trans sign does not depend on which residue is read first -/
theorem cis_symmetric (p1 p2 p3 p4 : V3 Int) :
    V3.dot (V3.cross (V3.sub p2 p1) (V3.sub p3 p2)) (V3.cross (V3.sub p3 p2) (V3.sub p4 p3)) =
    V3.dot (V3.cross (V3.sub p3 p4) (V3.sub p2 p3)) (V3.cross (V3.sub p2 p3) (V3.sub p1 p2)) :=
  PairsReal.torsionX_symm p1 p2 p3 p4

end RnaVerif.Props.C03

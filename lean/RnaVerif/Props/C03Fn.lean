import RnaVerif.Model.FnSpec
import RnaVerif.Lemmas.Py
import RnaVerif.Lemmas.PyFloat
/-! # C03 — bridges for the functions regenerated from the source (translator part of the tie)

`Gen.Fn.residue3dLt`, `findAtom`, `cisTrans`, `angleClamp` are rewritten on every run by tools/py2lean.py from
the current text of `Residue3D.__lt__`, `Residue3D.find_atom`, `detect_cis_trans` and the returned expression of
`angle_between_vectors`.  They are related here to the pair model (`Model/Pairs.lean`: `resLt`, `findAtom`,
`cisTri`) and to the regenerated constants that model reads.
-/
namespace RnaVerif.Props.C03Fn
open RnaVerif RnaVerif.Gen.Fn RnaVerif.PyL RnaVerif.FnSpec

/-- the residue `m` of the pair model carries the sort fields of the `Residue3D` `r` -/
def sameKey (r : Residue3D) (m : Pairs.Res) : Prop :=
  r.model = m.model ∧ residueChain r.toResidue = some m.chain ∧ residueNumber r.toResidue = some m.number ∧
    Py.orStr (residueIcode r.toResidue) " " = m.icode

/-- **`Residue3D.__lt__` = the model's `Pairs.resLt`** — the order that decides which residue of a pair is
printed first, and the orientation used by `greedy_*`; no TypeError for residues with chain and number -/
theorem residue3dLt_bridge (a b : Residue3D) (ma mb : Pairs.Res) (ha : sameKey a ma) (hb : sameKey b mb) :
    residue3dLt a b = some (Pairs.resLt ma mb) := by
  obtain ⟨a1, a2, a3, a4⟩ := ha
  obtain ⟨b1, b2, b3, b4⟩ := hb
  simp [residue3dLt, a1, a2, a3, a4, b1, b2, b3, b4, Py.optCmp, Pairs.resLt]
  (repeat' split) <;> rfl

/-- the same with the executable conversion `FnSpec.toRes` (what the driver op `fns.residue3dLt` evaluates) -/
theorem residue3dLt_eq_model (a b : Residue3D) (ma mb : Pairs.Res) (ha : toRes a = some ma) (hb : toRes b = some mb) :
    residue3dLt a b = some (Pairs.resLt ma mb) := by
  unfold toRes at ha hb
  cases hca : residueChain a.toResidue <;> cases hna : residueNumber a.toResidue <;> simp [hca, hna] at ha
  cases hcb : residueChain b.toResidue <;> cases hnb : residueNumber b.toResidue <;> simp [hcb, hnb] at hb
  subst ha hb
  exact residue3dLt_bridge a b _ _ ⟨rfl, hca, hna, rfl⟩ ⟨rfl, hcb, hnb, rfl⟩

/-- non-vacuity: model 1 before model 2; equal models fall back to chain, number, insertion code -/
example : let mk (m : Int) (n : Int) (ic : Option String) : Residue3D :=
      { label := none, auth := some ⟨"A", n, ic, "G"⟩, model := m, one_letter_name := "G", atoms := [], chi := none }
    sameKey (mk 1 5 none) ⟨1, "A", 5, " ", none, none, "G", []⟩ ∧ sameKey (mk 2 3 (some "B")) ⟨2, "A", 3, "B", none, none, "G", []⟩ ∧
    residue3dLt (mk 1 5 none) (mk 2 3 (some "B")) = some true ∧ residue3dLt (mk 1 5 (some "A")) (mk 1 5 none) = some false := by
  refine ⟨⟨rfl, rfl, rfl, rfl⟩, ⟨rfl, rfl, rfl, rfl⟩, ?_, ?_⟩ <;> decide

/-- **`Residue3D.find_atom` = first atom with that name** (the model's `Pairs.findAtom`) -/
theorem findAtom_bridge (r : Residue3D) (n : String) : findAtom r n = r.atoms.find? (fun a => a.name == n) := by
  unfold findAtom
  have := findSome_ite (fun a : Atom => a.name == n) (fun a => some a) r.atoms
  simp only [this]
  cases r.atoms.find? (fun a => a.name == n) <;> rfl

/-- the base atom of the glycosidic bond, with the regenerated letters and names (`Pairs.glycoName`) -/
abbrev genGlyco := glyco Gen.Ann.purineLetters Gen.Ann.glycoPurine Gen.Ann.glycoOther

/-- `cisLo < t < cisHi` with the regenerated bounds (the test of `Pairs.torsionCisTri`, see `C03.cis_iff`) -/
abbrev cisDeg := between Gen.Ann.cisLo Gen.Ann.cisHi

/-- **`detect_cis_trans`** has the decision structure of the model's `Pairs.cisTri`: `None` when C1' or N9/N1 is
missing in either residue, otherwise "c" exactly when the torsion C1'–N–N–C1' (in degrees) lies strictly between
the regenerated bounds, "t" otherwise — for every behaviour of `torsion_angle` and `math.degrees`, nan included -/
theorem cisTrans_spec (tors : Atom → Atom → Atom → Atom → Py.PyFloat) (deg : Py.PyFloat → Py.PyFloat) (ri rj : Residue3D) :
    Gen.Fn.cisTrans tors deg ri rj =
      FnSpec.cisTrans Gen.Ann.glycoSugar Gen.Ann.purineLetters Gen.Ann.glycoPurine Gen.Ann.glycoOther Gen.Ann.cisLo Gen.Ann.cisHi
        tors deg ri rj := by
  unfold Gen.Fn.cisTrans FnSpec.cisTrans glyco between
  simp only [Gen.Ann.glycoSugar, Gen.Ann.purineLetters, Gen.Ann.glycoPurine, Gen.Ann.glycoOther, Gen.Ann.cisLo, Gen.Ann.cisHi]
  by_cases hi : Py.strIn ri.one_letter_name "AG" = true <;> by_cases hj : Py.strIn rj.one_letter_name "AG" = true <;>
    simp only [hi, hj, Bool.false_eq_true, ↓reduceIte]
  · cases findAtom ri "C1'" <;> cases findAtom rj "C1'" <;> cases findAtom ri "N9" <;> cases findAtom rj "N9" <;> simp
  · cases findAtom ri "C1'" <;> cases findAtom rj "C1'" <;> cases findAtom ri "N9" <;> cases findAtom rj "N1" <;> simp
  · cases findAtom ri "C1'" <;> cases findAtom rj "C1'" <;> cases findAtom ri "N1" <;> cases findAtom rj "N9" <;> simp
  · cases findAtom ri "C1'" <;> cases findAtom rj "C1'" <;> cases findAtom ri "N1" <;> cases findAtom rj "N1" <;> simp

/-- a nan torsion is "t"; the letter test is a SUBSTRING test (`one_letter_name in "AG"`): the empty letter and
"AG" itself select N9 -/
example : cisDeg none = false ∧ cisDeg (some 89) = true ∧ cisDeg (some 90) = false ∧ cisDeg (some (-90)) = false ∧
    (let r (l : String) : Residue3D := { label := none, auth := none, model := 1, one_letter_name := l, atoms := [], chi := none }
     genGlyco (r "G") = "N9" ∧ genGlyco (r "C") = "N1" ∧ genGlyco (r "") = "N9" ∧ genGlyco (r "AG") = "N9" ∧ genGlyco (r "GA") = "N1") := by decide

/-- **`angle_between_vectors`** hands `math.acos` the clamped cosine: a value in [-1, 1] for every cosine, also one
pushed outside by rounding and also nan (the repair 93874c4: no `ValueError: math domain error`) -/
theorem angleClamp_in_domain (acos : Py.PyFloat → Py.PyFloat) (c : Py.PyFloat) :
    ∃ x : Rat, -1 ≤ x ∧ x ≤ 1 ∧ angleClamp acos c = acos (some x) ∧ (∀ q, c = some q → -1 ≤ q → q ≤ 1 → x = q) := by
  refine ⟨clamp c, (clamp_range c).1, (clamp_range c).2, ?_, ?_⟩
  · unfold angleClamp
    simp only [fMin_fMax_clamp]
  · intro q hq h1 h2
    rw [hq]; exact clamp_id q h1 h2

end RnaVerif.Props.C03Fn

import RnaVerif.Lemmas.FindPairsRefine
import RnaVerif.Lemmas.FindPairsMerge
import RnaVerif.Lemmas.FindPairsExample
import RnaVerif.Lemmas.SpecBph
import RnaVerif.Lemmas.SpecPairsLoop
import RnaVerif.Props.C11
/-!
# C03 (loop) — the complete `find_pairs` loop, modelled functionally: what it consumes, what it reports

Model: `RnaVerif.FindPairs` (Model/FindPairs.lean).  Since /repo commit f72e0ea `find_pairs` iterates
`sorted(kdtree.query_pairs(...))`, so the order in which donor → oxygen contacts are consumed by base–phosphate /
base–ribose detection is a function of the structure.  The model follows the source statement by statement (point
list and indices, the dictionaries keyed by the coordinate tuple with their collisions, candidates in ascending index
order, type test, same-residue skips, the two consuming branches with `used_atoms` and their unconditional `continue`,
the base–base angle test, labels, `most_common`, greedy occupation, both `sorted` calls, `merge_and_clean_bph_br`,
Saenger look-up) and is tied to the source by the regenerated tables and by the FUNCTIONAL correspondence
`harness/corr/c03_loop.py`: the three lists of the real code, in order, equal the model's on every input whose
decision quantities are outside the 1e-6 band.

`Props/C03.lean` proves the three clauses of C03 for every label multiset "between the base-to-base contacts and all
contacts" and leaves to the relational correspondence that the code's multiset is one of these.  Here that gap is
closed by proof for the functional model:

* `loop_refines_relational` — under the shape conditions `Regular` (every residue analysed and carrying an identity,
  each atom listed once, no two points with identical coordinates) every hydrogen bond the loop collects is a contact
  of `Pairs.contactsAll`, and every contact of `Pairs.contactsAll` answered `yes` neither of whose atoms bears a
  phosphate / ribose oxygen name is collected — whatever the base–phosphate / base–ribose branches consumed before;
* `findPairs_meets_spec` — hence the base pairs the functional model reports are sound (≥ `minCount` distinct
  qualifying contacts on the named edges), edge-exclusive and maximal with respect to the relational contact list;
* `prefilter_exact` — the relational model's bounding-ball pre-filter loses nothing: `contacts = contactsAll`
  (until now cross-checked per input by the driver op `pairs.prefilter`);
* `findPairs_meets_specPairs` — on decided inputs the EXECUTABLE checker `Pairs.specPairs` (what the harness evaluates
  on the real output) reports no failure on the functional model's base-pair list: the whole chain code = model (by
  the functional correspondence) ⊨ specification (by proof);
* `bph_br_sound`, `bph_br_output`, `specBph_holds` — every recorded base–phosphate / base–ribose contact is a donor →
  oxygen contact between different residues, not further apart than the distance band, with a class `bphClasses`
  answers; what is reported after `merge_and_clean_bph_br` is implied by the recorded classes of that residue pair (one
  of them, or 4 from 3 ∧ 5, or 8 from 7 ∧ 9), one class per residue pair; the executable checker `Pairs.specBph`
  reports no failure on the functional model's lists;
* `used_atoms_exclusive` — an atom takes part in at most one recorded base–phosphate / base–ribose contact, and
  `used_atoms` is exactly the set of atoms of the recorded contacts.

`bph_br_sound`, `bph_br_output`, `used_atoms_exclusive` need NO shape condition (coordinate collisions included).
-/
namespace RnaVerif.Props.C03Loop
open RnaVerif RnaVerif.Pairs RnaVerif.FindPairs

/-! ## bridges -/

/-- the source lists every atom once (`dict.fromkeys(acceptors + donors)`), so a point is determined by its residue and
atom name — the first shape condition of `Regular` holds for the regenerated parameters -/
theorem points_listed_once : Params.gen.dedupPoints = true := by decide

/-- the names of the two consuming branches are typed acceptor for every base, so the atom typed donor in such a
contact is a base donor and the oxygen is the acceptor -/
theorem branch_names_are_acceptors (P : Params) (phos : Bool) (base n : String)
    (h : (branchNames P phos).contains n = true) : kindOf P base n = .acceptor := kindOf_branch phos base n h

/-- the axis shortcut used when listing the candidates is only a shortcut -/
theorem candidate_test_is_distance (P : Params) (p q : Q3) : distTriPt P p q = distTri P (V3.dist2 p q) :=
  distTriPt_eq P p q

/-! ## the candidates are exactly the index pairs within the distance band, once each, ascending -/

/-- every candidate names two points `i < j` and carries the answer of the distance test, which is not `no` -/
theorem candidates_sound (P : Params) (pts : List Point) (c : Nat × Nat × Tri) (h : c ∈ candsFrom P 0 pts) :
    ∃ p q, pts[c.1]? = some p ∧ pts[c.2.1]? = some q ∧ c.1 < c.2.1 ∧
      c.2.2 = distTri P (V3.dist2 p.pos q.pos) ∧ c.2.2 ≠ .no := cands_ok h

example : ((0 : Nat), (1 : Nat), Tri.yes) ∈
    candsFrom Params.gen 0 [⟨0, "N1", ⟨0, 0, 0⟩⟩, ⟨1, "N3", ⟨3, 0, 0⟩⟩, ⟨1, "O2", ⟨9, 0, 0⟩⟩] := by decide +kernel

/-- every index pair `m < n` whose distance is not answered `no` is a candidate -/
theorem candidates_complete (P : Params) (pts : List Point) (m n : Nat) (p q : Point)
    (hp : pts[m]? = some p) (hq : pts[n]? = some q) (hlt : m < n)
    (hd : distTri P (V3.dist2 p.pos q.pos) ≠ .no) :
    (m, n, distTri P (V3.dist2 p.pos q.pos)) ∈ candsFrom P 0 pts := by
  have := candsFrom_complete (P := P) (k := 0) hp hq hlt (by rw [distTriPt_eq]; exact hd)
  simpa [distTriPt_eq] using this

example : ∃ (pts : List Point) (p q : Point), pts[0]? = some p ∧ pts[1]? = some q ∧ (0 : Nat) < 1 ∧
    distTri Params.gen (V3.dist2 p.pos q.pos) ≠ .no :=
  ⟨[⟨0, "N1", ⟨0, 0, 0⟩⟩, ⟨1, "N3", ⟨3, 0, 0⟩⟩], _, _, rfl, rfl, by decide, by decide +kernel⟩

/-- no index pair is listed twice -/
theorem candidates_once (P : Params) (pts : List Point) :
    ((candsFrom P 0 pts).map (fun c => (c.1, c.2.1))).Nodup := candsFrom_keys_nodup pts 0

/-- the dictionaries keyed by the coordinate tuple return, for point `i`, the LAST point with the coordinates of
point `i` -/
theorem dictionaries_return_last (pts : List Point) (i : Nat) (p : Point) (hp : pts[i]? = some p) :
    ∃ ci a, (canonList pts)[i]? = some ci ∧ pts[ci]? = some a ∧ a.pos = p.pos ∧ i ≤ ci ∧
      ∀ m' p', ci < m' → pts[m']? = some p' → p'.pos ≠ p.pos := canon_spec hp

example : (canonList [⟨0, "N1", ⟨0, 0, 0⟩⟩, ⟨1, "O2'", ⟨1, 0, 0⟩⟩, ⟨2, "N3", ⟨0, 0, 0⟩⟩]) = [2, 1, 2] := by decide +kernel

/-! ## base–phosphate / base–ribose: what is recorded -/

/-- **bph_br_sound**: every contact recorded by the base–phosphate (`phos = true`) or base–ribose branch joins a
donor-typed atom `dn` of an analysed residue `d` with an oxygen `an` (named in PHOSPHATE_ACCEPTORS resp.
RIBOSE_ACCEPTORS) of an analysed residue `a` that is not the same residue, at a distance the test does not answer
`no` (≤ 4.0 Å + 1e-6), and its class is one of those `bphClasses` answers for this donor and these coordinates
(`Props.C11.bph_class_from_donor`: the class the (base, donor) table lists) — for every structure, with or without
coordinate collisions -/
theorem bph_br_sound (P : Params) (model : Option Int) (s : Array Res) :
    ∀ r ∈ (loop P model s).recs, RecSound P model s r := recs_sound P model s

/-- **used_atoms_exclusive**: the atoms (canonical point indices = coordinate classes) of the recorded contacts are
pairwise different — an atom takes part in at most one recorded base–phosphate / base–ribose contact — and
`used_atoms` after the loop is exactly the set of these atoms -/
theorem used_atoms_exclusive (P : Params) (model : Option Int) (s : Array Res) :
    ((loop P model s).recs.flatMap (fun r => [r.ci, r.cj])).Nodup ∧
    ∀ x, x ∈ (loop P model s).used ↔ ∃ r ∈ (loop P model s).recs, x = r.ci ∨ x = r.cj :=
  ⟨(recs_inv P model s).nodup, (recs_inv P model s).used_iff⟩

/-- the two atoms of one recorded contact are the atoms the dictionaries return for the two points of a candidate,
and they are different atoms -/
theorem recorded_atoms (P : Params) (model : Option Int) (s : Array Res) :
    ∀ r ∈ (loop P model s).recs, RecOK P s (points P model s) r := (recs_inv P model s).ok

/-- **bph_br_output**: what `find_pairs` returns as base–phosphate (base–ribose) list: every entry `(d, a, k)` is
implied by the classes recorded for the ordered residue pair `(d, a)` — `k` itself, or 4 with 3 and 5 recorded, or 8
with 7 and 9 recorded — and no ordered residue pair is listed twice (`specBph`'s three clauses on the functional
output, with the recorded contacts characterised by `bph_br_sound`) -/
theorem bph_br_output (model : Option Int) (s : Array Res) (phos : Bool) :
    let out := if phos then (findPairs Params.gen model s).bph else (findPairs Params.gen model s).br
    let recd := (loop Params.gen model s).triples phos
    (∀ t ∈ out, t ∈ recd ∨ (t.2.2 = 4 ∧ (t.1, t.2.1, 3) ∈ recd ∧ (t.1, t.2.1, 5) ∈ recd) ∨
      (t.2.2 = 8 ∧ (t.1, t.2.1, 7) ∈ recd ∧ (t.1, t.2.1, 9) ∈ recd)) ∧
    (out.map (fun t => (t.1, t.2.1))).Nodup := by
  intro out recd
  have hout : out = mergeOut Params.gen (rankFn s) s.size recd := by
    cases phos <;> rfl
  rw [hout]
  refine ⟨?_, mergeOut_pairs_nodup _ _ _⟩
  intro t ht
  obtain ⟨e, he, hk, h1, h2⟩ := mem_mergeOut ht
  have hb := triples_bound Params.gen model s phos
  have back : ∀ c, (e.1, c) ∈ encRows (rankFn s) s.size recd → (t.1, t.2.1, c) ∈ recd := by
    intro c hc
    have := mem_encRows hb hc
    rw [h1, h2]; exact this
  rcases Props.C11.mergeClean_rules _ e he t.2.2 hk with h | ⟨h4, h3, h5⟩ | ⟨h8, h7, h9⟩
  · left
    have := back _ h
    simpa using this
  · exact Or.inr (Or.inl ⟨h4, back 3 h3, back 5 h5⟩)
  · exact Or.inr (Or.inr ⟨h8, back 7 h7, back 9 h9⟩)

/-- a reported base–phosphate / base–ribose entry never joins a residue with itself, provided every analysed residue
carries an identity (label or auth) -/
theorem bph_br_not_self (P : Params) (model : Option Int) (s : Array Res)
    (hid : ∀ r ∈ s.toList, sameResidue r r = true) : ∀ r ∈ (loop P model s).recs, r.d ≠ r.a := by
  intro r hr e
  obtain ⟨rd, ra, _, _, ed, ea, _, _, _, _, _, _, _, hs, _⟩ := recs_sound P model s r hr
  rw [e] at ed
  rw [ed] at ea
  cases ea
  rw [hid rd (Array.mem_toList_iff.mpr (Array.mem_of_getElem? ed))] at hs
  cases hs

/-! ## base pairs: the functional loop refines the relational model -/

/-- **loop_refines_relational**: under `Regular`,
(1) every hydrogen bond of the loop that reaches the label stage is a contact of the relational model (same residues,
    atoms, edge letters, support-only mark; answer not `no`),
(2) every contact of the relational model answered `yes` neither of whose atoms bears a phosphate / ribose oxygen name
    is collected by the loop,
(3) the label multiset the code counts lies between the labels of (2) and the labels of all contacts -/
theorem loop_refines_relational {P : Params} {model : Option Int} {s : Array Res} (hreg : Regular P model s) :
    (∀ c ∈ loopContacts P model s, ∃ c' ∈ contactsAll P s, core c' = core c ∧ c'.sp = c.sp ∧ c'.tri ≠ .no) ∧
    (∀ c ∈ contactsAll P s, c.sp = false → c.tri = .yes → ∃ c' ∈ loopContacts P model s, core c' = core c) ∧
    (∀ l, (modelLabels P s ((contactsAll P s).filter (fun c => !c.sp && c.tri == .yes))).count l ≤
        (modelLabels P s (loopContacts P model s)).count l ∧
      (modelLabels P s (loopContacts P model s)).count l ≤ (modelLabels P s (contactsAll P s)).count l) := by
  refine ⟨?_, ?_, labels_sandwich hreg⟩
  · intro c hc
    obtain ⟨h, hh, hc'⟩ := List.mem_filterMap.mp hc
    exact hb_upper hreg hh hc'
  · intro c hc hsp hy
    obtain ⟨h, hh, c', hc', e⟩ := hb_lower hreg hc hsp hy
    exact ⟨c', List.mem_filterMap.mpr ⟨h, hh, hc'⟩, e⟩

/-- the reported base-pair list is the relational model's assembly (labels → `most_common` → greedy occupation →
`sorted`) applied to the contacts the loop collected, with the Saenger class looked up per pair -/
theorem findPairs_pairs (P : Params) (model : Option Int) (s : Array Res) :
    (findPairs P model s).pairs =
      (modelPairs P s (loopContacts P model s)).map (fun l => (l.lo, l.hi, l.lwName, saengerOf s l)) := rfl

/-- **findPairs_meets_spec**: the base pairs reported by the functional model satisfy the three clauses of C03 with
respect to the relational contact list —
* soundness: every reported label has at least `minCount` (2) qualifying contacts on its two edges,
* exclusivity: no (residue, edge) slot is used by two reported pairs; no pair is reported twice,
* maximality: every label with at least `minCount` decided base-to-base contacts is reported or has one of its two
  slots taken by a reported pair,
and the list is sorted by (residue, residue, class) -/
theorem findPairs_meets_spec {P : Params} {model : Option Int} {s : Array Res} (hreg : Regular P model s)
    (hpos : 0 < P.minCount) :
    let out := modelPairs P s (loopContacts P model s)
    let all := modelLabels P s (contactsAll P s)
    let bb := modelLabels P s ((contactsAll P s).filter (fun c => !c.sp && c.tri == .yes))
    (∀ l ∈ out, P.minCount ≤ all.count l) ∧
    (out.Pairwise (fun a b => ∀ sl ∈ a.slots, sl ∉ b.slots) ∧ out.Nodup) ∧
    (∀ l, P.minCount ≤ bb.count l → l ∈ out ∨ ∃ o ∈ out, l.slot1 ∈ o.slots ∨ l.slot2 ∈ o.slots) ∧
    out.Pairwise (fun a b => labelLe (rankFn s) a b = true) := by
  intro out all bb
  have hsw := labels_sandwich hreg
  let code := modelLabels P s (loopContacts P model s)
  have hperm : out.Perm (greedyOccupy P (mostCommonOrder code) code) := assemble_perm _ _
  have hsym : ∀ a b : Label, (∀ sl ∈ a.slots, sl ∉ b.slots) → (∀ sl ∈ b.slots, sl ∉ a.slots) :=
    fun a b h sl hb ha => h sl ha hb
  refine ⟨?_, ⟨?_, ?_⟩, ?_, ?_⟩
  · intro l hl
    exact Nat.le_trans (greedy_sound' _ code l (hperm.mem_iff.mp hl)) (hsw l).2
  · exact (hperm.pairwise_iff (fun {a b} h => hsym a b h)).mpr (greedy_exclusive' _ code)
  · exact hperm.nodup_iff.mpr (greedy_nodup' _ code)
  · intro l hb
    have hc : P.minCount ≤ code.count l := Nat.le_trans hb (hsw l).1
    have hmem : l ∈ code := List.count_pos_iff.mp (by omega)
    by_cases hin : l ∈ greedyOccupy P (mostCommonOrder code) code
    · exact Or.inl (hperm.mem_iff.mpr hin)
    · obtain ⟨o, ho, hs⟩ := greedy_maximal' (P := P) _ code l (mem_mostCommonOrder.mpr hmem) hc hin
      exact Or.inr ⟨o, hperm.mem_iff.mpr ho, hs⟩
  · exact assemble_sorted _ _

/-! ## non-vacuity: residues A29, A30, A44 of chain C of 1E7K -/

theorem exF_regular : Regular Params.gen none exF := by decide +kernel

/-- the example is not trivial: one base pair from two hydrogen bonds (one through O2'), three donor → oxygen contacts
consumed by the base–ribose branch (two of them are also base-edge contacts of the relational model, which lists four),
six atoms in `used_atoms` -/
theorem exF_loop :
    ((findPairs Params.gen none exF).pairs = [(0, 2, "tSW", none)] ∧
      (findPairs Params.gen none exF).br = [(1, 2, 6), (2, 0, 2), (2, 1, 6)]) ∧
    (loop Params.gen none exF).recs.map (fun r => (r.phos, r.d, r.dn, r.a, r.an, r.k)) =
      [(false, 2, "C2", 0, "O2'", 2), (false, 2, "N6", 1, "O4'", 6), (false, 1, "N6", 2, "O2'", 6)] ∧
    (loop Params.gen none exF).used = [28, 22, 34, 15, 33, 4] ∧
    (loopContacts Params.gen none exF).length = 2 ∧ (contactsAll Params.gen exF).length = 4 :=
  ⟨by decide +kernel, by decide +kernel, by decide +kernel, by decide +kernel, by decide +kernel⟩

example : 0 < Params.gen.minCount := by decide

example : let out := modelPairs Params.gen exF (loopContacts Params.gen none exF)
    out = [⟨0, 2, false, 'S', 'W'⟩] ∧
    ∀ l ∈ out, Params.gen.minCount ≤ (modelLabels Params.gen exF (contactsAll Params.gen exF)).count l :=
  ⟨by decide +kernel, (findPairs_meets_spec exF_regular (by decide)).1⟩

/-! ## the bounding-ball pre-filter of the relational model is exact -/

/-- **prefilter_exact**: `Pairs.contacts` (what `specPairs` and the C03 / C05 harnesses evaluate; residue pairs
pre-filtered by bounding balls) is the reference list `Pairs.contactsAll`, element by element — for every structure.
The driver op `pairs.prefilter` cross-checked this per input; it is now a theorem (triangle inequality in squared form
from the Lagrange identity). -/
theorem prefilter_exact (s : Array Res) : contacts Params.gen s = contactsAll Params.gen s :=
  contacts_eq_contactsAll (by decide +kernel) s

/-- the same for every parameter record with a non-negative distance threshold -/
theorem prefilter_exact_of (P : Params) (hpos : 0 ≤ P.maxDist) (s : Array Res) : contacts P s = contactsAll P s :=
  contacts_eq_contactsAll hpos s

example : (0 : Rat) ≤ Params.gen.maxDist ∧ (0 : Rat) ≤ Params.spec.maxDist := by decide +kernel

/-- **findPairs_meets_spec_contacts**: the three clauses of C03 against `Pairs.contacts` itself -/
theorem findPairs_meets_spec_contacts {model : Option Int} {s : Array Res} (hreg : Regular Params.gen model s) :
    let out := modelPairs Params.gen s (loopContacts Params.gen model s)
    (∀ l ∈ out, 2 ≤ (modelLabels Params.gen s (contacts Params.gen s)).count l) ∧
    out.Pairwise (fun a b => ∀ sl ∈ a.slots, sl ∉ b.slots) ∧
    (∀ l, 2 ≤ (modelLabels Params.gen s ((contacts Params.gen s).filter (fun c => !c.sp && c.tri == .yes))).count l →
      l ∈ out ∨ ∃ o ∈ out, l.slot1 ∈ o.slots ∨ l.slot2 ∈ o.slots) := by
  have h := findPairs_meets_spec hreg (by decide)
  rw [prefilter_exact]
  exact ⟨h.1, h.2.1.1, h.2.2.1⟩

/-! ## the executable checker `specBph` on the functional output -/

/-- **specBph_holds**: `Pairs.specBph` — the checker the C11 harness runs on the REAL base–phosphate / base–ribose
lists (no self entry; at least one donor → oxygen contact within 4.0 Å for the ordered residue pair; class implied by
the classes of the contacts; one class per residue pair) — reports no failure on the lists the functional model
returns, for every structure whose residues carry an identity -/
theorem specBph_holds (model : Option Int) (s : Array Res) (phos : Bool) (kind : String)
    (hid : ∀ r ∈ s.toList, sameResidue r r = true) :
    (specBph Params.gen kind (branchNames Params.gen phos) s
      ((if phos then (findPairs Params.gen model s).bph else (findPairs Params.gen model s).br).map
        (fun t => ⟨t.1, t.2.1, t.2.2⟩))).fails = [] := by
  obtain ⟨hout, hnd⟩ := bph_br_output model s phos
  apply specBph_no_fail
  · intro p hp
    obtain ⟨t, ht, rfl⟩ := List.mem_map.mp hp
    have hrec : ∀ c, (t.1, t.2.1, c) ∈ (loop Params.gen model s).triples phos →
        t.1 ≠ t.2.1 ∧ ∃ bc ∈ bcontacts Params.gen (branchNames Params.gen phos) s, bc.d = t.1 ∧ bc.a = t.2.1 ∧
          c ∈ bc.classes := fun c hc =>
      recorded_in_bcontacts (by decide +kernel) (by decide) model s hid phos hc
    have hcls : ∀ c, (t.1, t.2.1, c) ∈ (loop Params.gen model s).triples phos →
        c ∈ ((bcontacts Params.gen (branchNames Params.gen phos) s).filter
          (fun b => b.d == t.1 && b.a == t.2.1)).flatMap (·.classes) := by
      intro c hc
      obtain ⟨_, bc, hbc, h1, h2, h3⟩ := hrec c hc
      exact List.mem_flatMap.mpr ⟨bc, List.mem_filter.mpr ⟨hbc, by simp [h1, h2]⟩, h3⟩
    -- some recorded triple of this residue pair
    have hsome : ∃ c, (t.1, t.2.1, c) ∈ (loop Params.gen model s).triples phos := by
      rcases hout t ht with h | ⟨_, h, _⟩ | ⟨_, h, _⟩
      · exact ⟨t.2.2, h⟩
      · exact ⟨3, h⟩
      · exact ⟨7, h⟩
    obtain ⟨c0, hc0⟩ := hsome
    obtain ⟨hne, bc, hbc, h1, h2, _⟩ := hrec c0 hc0
    refine ⟨hne, ⟨bc, hbc, h1, h2⟩, ?_⟩
    rw [Props.C11.impliedBy_iff]
    rcases hout t ht with h | ⟨h4, h3, h5⟩ | ⟨h8, h7, h9⟩
    · exact Or.inl (hcls _ h)
    · exact Or.inr (Or.inl ⟨h4, hcls 3 h3, hcls 5 h5⟩)
    · exact Or.inr (Or.inr ⟨h8, hcls 7 h7, hcls 9 h9⟩)
  · rw [List.map_map]
    exact hnd

example : (∀ r ∈ exF.toList, sameResidue r r = true) ∧
    (specBph Params.gen "br" (branchNames Params.gen false) exF
      ((findPairs Params.gen none exF).br.map (fun t => ⟨t.1, t.2.1, t.2.2⟩))).fails = [] :=
  ⟨by decide +kernel, specBph_holds none exF false "br" (by decide +kernel)⟩

/-! ## the executable checker `specPairs` on the functional output -/

/-- the edge letters of one atom are pairwise different in the regenerated edge table -/
theorem edge_letters_distinct : ∀ e ∈ Gen.Ann.baseEdges, ∀ a ∈ e.2, a.2.toList.Nodup := by decide

theorem edgesNodup_gen : EdgesNodup Params.gen := by
  intro base n e h
  unfold edgesOf at h
  cases h1 : Params.gen.baseEdges.lookup base with
  | none => simp [h1] at h
  | some m =>
    cases h2 : m.lookup n with
    | none => simp [h1, h2] at h
    | some letters =>
      simp only [h1, h2, Option.bind_some, Option.map_some, Option.some.injEq] at h
      subst h
      exact edge_letters_distinct (base, m) (Props.C11.lookup_mem h1) (n, letters) (Props.C11.lookup_mem h2)

/-- **findPairs_meets_specPairs** — `findPairs_meets_spec` at the level of the executable checker: on a decided input
(`und = false`) satisfying the shape conditions, `Pairs.specPairs` — the checker the C03 harness runs on the REAL output
of `find_pairs` (every reported pair joins two different residues, has ≥ 2 distinct qualifying contacts on its edges and
the c/t letter of the torsion; no edge used twice; every residue pair with ≥ 2 decided base-to-base contacts on an edge
combination reported or blocked) — reports NO failure on the base-pair list the functional model returns.
Together with the functional correspondence (the real list equals the model's list on decided inputs) this is the
statement of C03 for the real output, by proof instead of by evaluation. -/
theorem findPairs_meets_specPairs {model : Option Int} {s : Array Res} (hreg : Regular Params.gen model s)
    (hund : (findPairs Params.gen model s).und = false) :
    (specPairs Params.gen s ((modelPairs Params.gen s (loopContacts Params.gen model s)).map toRep)).fails = [] :=
  specPairs_no_fail hreg hund (by decide +kernel) (by decide) edgesNodup_gen

/-- … and the reported list of `findPairs` is that label list, pair by pair -/
theorem findPairs_pairs_as_reported (P : Params) (model : Option Int) (s : Array Res) :
    (findPairs P model s).pairs.map (fun p => (p.1, p.2.1, p.2.2.1)) =
      ((modelPairs P s (loopContacts P model s)).map toRep).map
        (fun r => (r.i, r.j, String.ofList [if r.cis then 'c' else 't', r.e1, r.e2])) := by
  rw [findPairs_pairs, List.map_map, List.map_map]
  rfl

example : (findPairs Params.gen none exF).und = false ∧
    (specPairs Params.gen exF ((modelPairs Params.gen exF (loopContacts Params.gen none exF)).map toRep)).fails = [] :=
  ⟨by decide +kernel, findPairs_meets_specPairs exF_regular (by decide +kernel)⟩

/-- the cis/trans answer does not depend on which residue is read first (used above: a label lists the lower residue
first, the hydrogen bond lists the residue of the lower point index first) -/
theorem cis_trans_symmetric (P : Params) (ri rj : Res) : cisTri P rj ri = cisTri P ri rj := cisTri_symm ri rj

example : Regular Params.gen none exF := exF_regular

end RnaVerif.Props.C03Loop

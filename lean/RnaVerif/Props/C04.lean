import RnaVerif.Lemmas.Stacking
import RnaVerif.Lemmas.StackingReal
/-!
# C04 — stacking annotation equals its geometric definition (property theorems)

Model: `RnaVerif.Stacking.stackings` (`Model/Stacking.lean`), exact rational arithmetic, mirrors
`annotator.find_stackings`.  The defining predicate is `Stacking.StackDef` (polynomial form, certain
side of every threshold) and, over ℝ, `Stacking.GeomStack D A B` (distances by `√`, angles by
`arccos`, in degrees).  The centroid-to-centroid vector is `c_i − c_j` with `i` listed before `j`
in the file — signed, as in the code; this orientation is part of the statements below.
-/
namespace RnaVerif.Props.C04
open RnaVerif RnaVerif.Stacking

/-! ## bridges: generated values = what the property statement pins -/

/-- the thresholds in the source are 6 Å, 35°, 45° -/
theorem thresholds_bridge :
    Gen.stackingMaxDistance = 6 ∧ Gen.stackingMaxAngleNormals = 35 ∧ Gen.stackingMaxAngleVector = 45 :=
  ⟨rfl, rfl, rfl⟩

/-- the centroid averages the base heavy atoms of A, G, C, U, T; the normal is spanned from
N9→N7, N9→N3 for `one_letter_name in "AG"` and from N1→C4, N1→O2 otherwise; every atom that spans a
normal is one of the averaged base atoms -/
theorem atoms_bridge :
    Gen.baseAtoms.map (·.1) = ["A", "G", "C", "U", "T"] ∧
    Gen.purineLetters = "AG" ∧
    Gen.purineNormalAtoms = ("N9", "N7", "N3") ∧ Gen.otherNormalAtoms = ("N1", "C4", "O2") ∧
    (∀ l ∈ ["A", "G"], ∀ x ∈ ["N9", "N7", "N3"], x ∈ baseAtomNames l) ∧
    (∀ l ∈ ["C", "U", "T"], ∀ x ∈ ["N1", "C4", "O2"], x ∈ baseAtomNames l) := by
  decide

/-- the rational enclosures produced by the translator do enclose `cos² 35°` and `cos² 45°`
(proved: triple-angle identity for 35°, `cos π/4 = √2/2` for 45°), and are at most 1e-15 wide -/
theorem enclosures_hold : Enclosures := Stacking.enclosures_hold

theorem enclosures_narrow :
    Gen.cosSqNormalsHi - Gen.cosSqNormalsLo ≤ 1 / 1000000000000000 ∧
    Gen.cosSqVectorHi - Gen.cosSqVectorLo ≤ 1 / 1000000000000000 := by decide +kernel

/-! ## the list is the defining filter; once; sorted; oriented; labelled -/

/-- **soundness and completeness of the list**: the reported stackings are exactly the ordered
residue pairs (`a` before `b` in the file, same model filter, both with a base centroid) that
satisfy the defining predicate `StackDef a b` — which is stated for `v = c_a − c_b` —, each
labelled by `classify`, then sorted -/
theorem stackings_eq_filter (model : Option Int) (rs : List Res) :
    stackings model rs =
      (((pairsUp (prepare model rs)).filter (fun p => decide (StackDef p.1 p.2))).map
        (fun p => classify p.1 p.2)).mergeSort stkLe :=
  stackings_eq_filter' model rs

/-- `StackDef` spelled out (so that the orientation of `v` is visible in this file) -/
theorem stackDef_spelled (a b : Prep) (n m : V3 Rat) (hn : a.n = some n) (hm : b.n = some m) :
    StackDef a b ↔
      (V3.norm2 (V3.sub a.c b.c) ≤ sq (Gen.stackingMaxDistance - margin) ∧
      (V3.norm2 n * V3.norm2 m ≠ 0 ∧
        (Gen.cosSqNormalsHi + margin) * (V3.norm2 n * V3.norm2 m) ≤ sq (V3.dot n m)) ∧
      ((V3.norm2 (V3.sub a.c b.c) * V3.norm2 n ≠ 0 ∧ 0 < V3.dot (V3.sub a.c b.c) n ∧
          (Gen.cosSqVectorHi + margin) * (V3.norm2 (V3.sub a.c b.c) * V3.norm2 n) ≤ sq (V3.dot (V3.sub a.c b.c) n)) ∨
       (V3.norm2 (V3.sub a.c b.c) * V3.norm2 m ≠ 0 ∧ 0 < V3.dot (V3.sub a.c b.c) m ∧
          (Gen.cosSqVectorHi + margin) * (V3.norm2 (V3.sub a.c b.c) * V3.norm2 m) ≤ sq (V3.dot (V3.sub a.c b.c) m)))) := by
  simp only [StackDef, hn, hm]

/-- a pair without both normals is never a stacking -/
theorem stackDef_needs_normals (a b : Prep) (h : StackDef a b) : ∃ n m, a.n = some n ∧ b.n = some m :=
  h.normals

/-- each unordered pair of residues (file positions) is reported at most once -/
theorem stackings_once (model : Option Int) (rs : List Res) :
    ((stackings model rs).map Stk.upair).Nodup :=
  stackings_once' model rs

/-- the list is sorted by (key of first residue, key of second residue), keys compared as
`(model, chain, number, icode)` -/
theorem stackings_sorted (model : Option Int) (rs : List Res) :
    (stackings model rs).Pairwise (fun s t =>
      ¬ (keyLt t.r1.key s.r1.key = true ∨ (t.r1.key = s.r1.key ∧ keyLt t.r2.key s.r2.key = true))) := by
  refine (stackings_sorted' model rs).imp ?_
  intro s t h
  simp only [stkLe, stkLt, Bool.not_eq_true', Bool.or_eq_false_iff, Bool.and_eq_false_iff, beq_eq_false_iff_ne] at h
  rintro (h1 | ⟨h1, h2⟩)
  · rw [h.1] at h1; cases h1
  · rcases h.2 with h3 | h3
    · exact h3 h1
    · rw [h3] at h2; cases h2

/-- the residue printed first is never the higher one, and the two residues are different -/
theorem stackings_oriented (model : Option Int) (rs : List Res) :
    ∀ s ∈ stackings model rs, keyLt s.r2.key s.r1.key = false ∧ s.r1.idx ≠ s.r2.idx :=
  stackings_oriented' model rs

/-- … and when the two residues have different keys the first is the lower one -/
theorem stackings_lower_first (model : Option Int) (rs : List Res) :
    ∀ s ∈ stackings model rs, s.r1.key ≠ s.r2.key → keyLt s.r1.key s.r2.key = true := by
  intro s hs hne
  rcases keyLt_total hne with h | h
  · exact h
  · rw [(stackings_oriented' model rs s hs).1] at h; cases h

/-- upward/downward iff the normals point the same way (`n₁·n₂ > 0`), inward/outward otherwise;
upward/inward iff the residue printed first is also the one listed first in the file -/
theorem topology_label (model : Option Int) (rs : List Res) :
    ∀ s ∈ stackings model rs, ∃ n1 n2, s.r1.n = some n1 ∧ s.r2.n = some n2 ∧
      ((s.topo = .upward ∨ s.topo = .downward) ↔ 0 < V3.dot n1 n2) ∧
      ((s.topo = .upward ∨ s.topo = .inward) ↔ s.r1.idx < s.r2.idx) :=
  topology_label' model rs

/-! ## over ℝ: the angle clauses are their polynomial forms -/

/-- normals within `θ ≤ 90°` of parallel or antiparallel ⇔ `(n·m)² ≥ cos²θ |n|²|m|²` -/
theorem angle_normals_iff {n m : V3 ℝ} (hn : 0 < V3.norm2 n) (hm : 0 < V3.norm2 m) {θ : ℝ}
    (h0 : 0 ≤ θ) (h2 : θ ≤ Real.pi / 2) :
    min (angle n m) (angle (V3.neg n) m) ≤ θ ↔
      Real.cos θ ^ 2 * (V3.norm2 n * V3.norm2 m) ≤ V3.dot n m ^ 2 :=
  normals_iff hn hm h0 h2

example : (0 : ℝ) < V3.norm2 (⟨1, 0, 0⟩ : V3 ℝ) ∧ (0 : ℝ) ≤ Real.pi / 4 ∧ Real.pi / 4 ≤ Real.pi / 2 := by
  refine ⟨by simp [V3.norm2, V3.dot], ?_, ?_⟩ <;> linarith [Real.pi_pos]

/-- the (signed) vector within `θ ≤ 90°` of one of the normals ⇔ sign-split squared form -/
theorem angle_vector_iff {v n m : V3 ℝ} (hv : 0 < V3.norm2 v) (hn : 0 < V3.norm2 n) (hm : 0 < V3.norm2 m)
    {θ : ℝ} (h0 : 0 ≤ θ) (h2 : θ ≤ Real.pi / 2) :
    min (angle v n) (angle v m) ≤ θ ↔
      (0 ≤ V3.dot v n ∧ Real.cos θ ^ 2 * (V3.norm2 v * V3.norm2 n) ≤ V3.dot v n ^ 2) ∨
      (0 ≤ V3.dot v m ∧ Real.cos θ ^ 2 * (V3.norm2 v * V3.norm2 m) ≤ V3.dot v m ^ 2) :=
  vector_iff hv hn hm h0 h2

theorem distance_iff (v : V3 ℝ) : √(V3.norm2 v) ≤ 6 ↔ V3.norm2 v ≤ 6 ^ 2 :=
  dist_iff v (by norm_num)

theorem degrees_iff (x t : ℝ) : deg x ≤ t ↔ x ≤ t * Real.pi / 180 := deg_le_iff x t

/-! ## the exact model against the definition in the property statement (6 Å, 35°, 45°) -/

/-- **every pair the model accepts is a stacking**: centroids within 6 Å, normals within 35° of
(anti)parallel, `c_a − c_b` within 45° of one of the normals -/
theorem model_sound {a b : Prep} {n m : V3 Rat} (hn : a.n = some n) (hm : b.n = some m)
    (h : StackDef a b) : GeomStack 6 35 45 (toR a.c) (toR b.c) (toR n) (toR m) := by
  have := stackDef_sound enclosures_hold hn hm h
  simpa [Gen.stackingMaxDistance, Gen.stackingMaxAngleNormals, Gen.stackingMaxAngleVector] using this

/-- **every pair the model rejects is not a stacking**; hence each real stacking is either in the
model's list or among the pairs it reports as undecided (within the 1e-6 band, or degenerate) -/
theorem model_complete {a b : Prep} {n m : V3 Rat} (hn : a.n = some n) (hm : b.n = some m)
    (h : pairTri a b = .no) : ¬ GeomStack 6 35 45 (toR a.c) (toR b.c) (toR n) (toR m) := by
  have := pairTri_no_complete enclosures_hold hn hm h
  simpa [Gen.stackingMaxDistance, Gen.stackingMaxAngleNormals, Gen.stackingMaxAngleVector] using this

/-! ### non-vacuity: concrete placements on either side -/

/-- two bases 4 Å apart along a common normal -/
def exA : Prep := ⟨0, ⟨1, "A", 1, " "⟩, ⟨0, 0, 0⟩, some ⟨0, 0, 1⟩⟩
def exB : Prep := ⟨1, ⟨1, "A", 2, " "⟩, ⟨0, 0, -4⟩, some ⟨0, 0, 1⟩⟩
/-- the same with the second base on the other side: the signed vector points away from both normals -/
def exC : Prep := ⟨1, ⟨1, "A", 2, " "⟩, ⟨0, 0, 4⟩, some ⟨0, 0, 1⟩⟩

example : StackDef exA exB := by decide +kernel
example : pairTri exA exC = .no := by decide +kernel
example : (classify exA exB).topo = .upward ∧ (classify exB exA).topo = .downward := by decide +kernel

end RnaVerif.Props.C04

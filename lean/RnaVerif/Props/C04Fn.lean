import RnaVerif.Generated.Common
import RnaVerif.Generated.Functions
import RnaVerif.Lemmas.Py
import RnaVerif.Lemmas.PyFloat
/-! # C04 — bridges for the functions regenerated from the source (translator part of the tie)

`Gen.Fn.stackingReverse` (`StackingTopology.reverse`) and `Gen.Fn.angleClamp` (the returned expression of
`angle_between_vectors`, the angle both stacking tests are computed with) are rewritten on every run by
tools/py2lean.py.  No hand model of the label reversal exists; the clauses are proved directly about the
regenerated definition and against the table the value translator reads from the live enum.
-/
namespace RnaVerif.Props.C04Fn
open RnaVerif RnaVerif.Gen.Fn RnaVerif.PyL RnaVerif.FnSpec

theorem topology_enum_is_table : StackingTopology.all.map StackingTopology.name = Gen.stackingReverse.map (·.1) := by decide

/-- **`StackingTopology.reverse`** is the regenerated table, is an involution, exchanges upward/downward (same
direction of the normals, the other residue first) and fixes inward/outward -/
theorem stackingReverse_bridge (m : StackingTopology) :
    Gen.stackingReverse.lookup m.name = some (stackingReverse m).name ∧ stackingReverse (stackingReverse m) = m ∧
    (stackingReverse m = m ↔ m = .inward ∨ m = .outward) :=
  (by decide : ∀ m ∈ StackingTopology.all,
    Gen.stackingReverse.lookup m.name = some (stackingReverse m).name ∧ stackingReverse (stackingReverse m) = m ∧
    (stackingReverse m = m ↔ m = .inward ∨ m = .outward)) m m.mem_all

example : stackingReverse .upward = .downward ∧ stackingReverse .downward = .upward := by decide

/-- **`angle_between_vectors`** evaluates `math.acos` at the cosine clamped to [-1, 1]: inside the domain of
`acos` for every input, equal to the cosine itself whenever that already lies in [-1, 1] (so the angle of the
definition is what the two stacking thresholds are compared with) -/
theorem angleClamp_in_domain (acos : Py.PyFloat → Py.PyFloat) (c : Py.PyFloat) :
    ∃ x : Rat, -1 ≤ x ∧ x ≤ 1 ∧ angleClamp acos c = acos (some x) ∧ (∀ q, c = some q → -1 ≤ q → q ≤ 1 → x = q) := by
  refine ⟨clamp c, (clamp_range c).1, (clamp_range c).2, ?_, ?_⟩
  · unfold angleClamp
    simp only [fMin_fMax_clamp]
  · intro q hq h1 h2
    rw [hq]; exact clamp_id q h1 h2

/-- non-vacuity: a cosine of 1 + 2⁻⁵² (parallel vectors after rounding) is evaluated at 1, nan at -1 -/
example : angleClamp id (some (1 + 1 / 4503599627370496)) = some 1 ∧ angleClamp id none = some (-1) ∧
    angleClamp id (some (1 / 2)) = some (1 / 2) := by decide +kernel

end RnaVerif.Props.C04Fn

import RnaVerif.Lemmas.MotionAlgebra
import RnaVerif.Lemmas.InvariancePairs
import RnaVerif.Lemmas.InvarianceStacking
import RnaVerif.Lemmas.GreedyOrder
/-!
# C05 — the annotation depends only on internal geometry and identity, not on presentation

Models: `RnaVerif.Pairs` (decision layer of `annotator.find_pairs`: base–base contacts, cis/trans, labels,
greedy edge occupation, assembly, base–phosphate / base–ribose contacts and classes, the C03 / C11
specification predicates), `RnaVerif.Stacking` (`find_stackings`), `RnaVerif.Connect` (the two distance tests
behind `is_nucleotide` / `is_connected`, which decide strands and gaps of the derived secondary structure) —
all in exact rational arithmetic, tied to `/repo/src/rnapolis` by the regenerated tables/thresholds and by the
correspondence checks of C03 / C04 / C11 and `harness/corr/c05.py`.

What is proved here, for **every** rotation matrix with rational entries (`M3.Proper R`: rows orthonormal,
det = 1), **every** rational translation `t`, structures of any size, and **any** parameter record `P`
(in particular `Params.gen`, what the source uses, and `Params.spec`, what the statements pin):

* algebra over an arbitrary commutative ring: `dot_rot`, `norm2_rot`, `dist2_move`, `cross_rot`, `triple_rot`,
  `binet`, `det_sq`;
* centroid equivariance;
* every decision function of the two models is invariant: `contacts_move`, `bcontacts_move`,
  `modelLabels_move`, `modelPairs_move`, `specPairs_move`, `specBph_move`, `stackings_move`,
  `undecided_move`, `connect_move`, combined in `annotate_rigid_invariant`;
* mirror images (det = −1): dot products, distances, the cis/trans test and the whole base-pair layer are
  unchanged (the layer is achiral — `contacts_mirror`), the signed quantities flip (`triple_mirror`,
  `torsionY_mirror`, `stacking_vector_mirror`): the stacking test with its *signed* centroid vector is the
  part of the annotation that tells a structure from its mirror image (`stacking_chiral` is a witness);
* atom order: `findAtom_perm` and its consequences `contacts_perm`, `bcontacts_perm`, `modelPairs_perm`,
  `stackings_perm`;
* relabelling: `contacts_relabel`, `bcontacts_relabel`, `modelPairs_relabel`, `rankOf_relabel`,
  `stackings_relabel` — equality of the position-indexed results, i.e. equality up to the renaming;
* the one place where presentation can leak — the order in which the hydrogen bonds reach
  `Counter.most_common()` — is harmless when no two competing candidates tie: `greedy_order_independent`,
  `pairs_independent_of_arrival_order` (full statement, nothing partial), and is *not* harmless otherwise
  (`tie_break_matters`).

Not carried by a theorem (see WP notes / MANIFEST): IEEE round-off of the moved coordinates (the exact
statements are transported by the 1e-6 margins measured per input), the iteration order of the `set`
returned by `KDTree.query_pairs` (it decides which of several donor–oxygen contacts of one atom is
consumed by the base–phosphate / base–ribose detection), and the agreement of the PDB and mmCIF readers
(C08 / C15).
-/
namespace RnaVerif.Props.C05
open RnaVerif

/-! ## bridges -/

/-- the window of the hydrogen-bond angle test is symmetric about 90° in the source (one enclosure for both
ends), so the base-pair layer cannot see the orientation of a normal -/
theorem angle_window_symmetric : Pairs.Params.gen.encLo = Pairs.Params.gen.encHi := by decide +kernel

/-- literals of the two connectivity tests: 2.0 Å for P–O5' and C1'–N9 / C1'–N1, `1.5 * 1.6` Å strict for O3'…P -/
theorem connectivity_literals :
    Gen.nuclConnThreshold = 2 ∧ Gen.nuclConnPairs = [("P", "O5'"), ("C1'", "N9"), ("C1'", "N1")] ∧
    Gen.mapConnFactor * Gen.mapConnOP = 12 / 5 ∧ Gen.mapConnStrict = true ∧ Gen.linkAtoms = ("O3'", "P") := by
  decide +kernel

/-! ## algebra over any commutative ring -/

section algebra
variable {K : Type} [CommRing K]

/-- **dot_rot** -/
theorem dot_rot {R : M3 K} (h : M3.Orthonormal (1 : K) 0 R) (u v : V3 K) :
    V3.dot (M3.apply R u) (M3.apply R v) = V3.dot u v := M3.dot_rot h u v

theorem norm2_rot {R : M3 K} (h : M3.Orthonormal (1 : K) 0 R) (u : V3 K) :
    V3.norm2 (M3.apply R u) = V3.norm2 u := M3.norm2_rot h u

/-- squared distances are invariant under `p ↦ R p + t` -/
theorem dist2_move {R : M3 K} (h : M3.Orthonormal (1 : K) 0 R) (t p q : V3 K) :
    V3.dist2 (V3.move R t p) (V3.move R t q) = V3.dist2 p q := V3.dist2_move h t p q

/-- **cross_rot**: R (a × b) = R a × R b for a proper rotation -/
theorem cross_rot {R : M3 K} (h : M3.Orthonormal (1 : K) 0 R) (hd : M3.det R = 1) (a b : V3 K) :
    V3.cross (M3.apply R a) (M3.apply R b) = M3.apply R (V3.cross a b) := M3.cross_rot h hd a b

/-- … and R a × R b = −R (a × b) for a mirror image -/
theorem cross_mirror {R : M3 K} (h : M3.Orthonormal (1 : K) 0 R) (hd : M3.det R = -1) (a b : V3 K) :
    V3.cross (M3.apply R a) (M3.apply R b) = V3.neg (M3.apply R (V3.cross a b)) := M3.cross_mirror h hd a b

/-- **triple_rot** (any matrix): [R u, R v, R w] = det R · [u, v, w] -/
theorem triple_rot (R : M3 K) (u v w : V3 K) :
    V3.triple (M3.apply R u) (M3.apply R v) (M3.apply R w) = M3.det R * V3.triple u v w := M3.triple_rot R u v w

/-- **Binet–Cauchy** -/
theorem binet (a b c d : V3 K) :
    V3.dot (V3.cross a b) (V3.cross c d) = V3.dot a c * V3.dot b d - V3.dot a d * V3.dot b c := V3.binet a b c d

/-- an orthogonal matrix has determinant ±1 -/
theorem det_sq {R : M3 K} (h : M3.Orthonormal (1 : K) 0 R) : M3.det R * M3.det R = 1 := M3.det_sq h

end algebra

/-- a rational rotation that is not a permutation of the axes (from the quaternion (3,1,1,1)/√12 … any
Pythagorean quadruple gives one); a reflection -/
def exR : M3 Rat := ⟨⟨2/3, -1/3, 2/3⟩, ⟨2/3, 2/3, -1/3⟩, ⟨-1/3, 2/3, 2/3⟩⟩
def exT : V3 Rat := ⟨-500, 1234567/1000, 1/3⟩
def exMirror : M3 Rat := ⟨⟨1, 0, 0⟩, ⟨0, 1, 0⟩, ⟨0, 0, -1⟩⟩

theorem exR_proper : M3.Proper exR := M3.proper_of_check (by decide +kernel)

theorem exMirror_mirror : M3.Mirror exMirror := M3.mirror_of_check (by decide +kernel)

example : M3.Orthonormal (1 : Rat) 0 exR ∧ M3.det exR = 1 := exR_proper

/-! ## a concrete structure for the non-vacuity examples: G201, G202, C220 of 1A1T (bases and C1') -/

def exAtomsG201 : List Pairs.Atom :=
  [⟨"C1'", ⟨123/125, -4019/200, -2387/500⟩⟩, ⟨"N9", ⟨1021/500, -10337/500, -563/100⟩⟩, ⟨"C8", ⟨2729/1000, -10029/500, -3307/500⟩⟩, ⟨"N7", ⟨452/125, -20857/1000, -7197/1000⟩⟩, ⟨"C5", ⟨1737/500, -22047/1000, -1307/200⟩⟩, ⟨"C6", ⟨413/100, -11643/500, -3343/500⟩⟩, ⟨"O6", ⟨1003/200, -23527/1000, -7507/1000⟩⟩, ⟨"N1", ⟨3757/1000, -24299/1000, -2929/500⟩⟩, ⟨"C2", ⟨1393/500, -24061/1000, -2473/500⟩⟩, ⟨"N2", ⟨507/200, -5029/200, -843/200⟩⟩, ⟨"N3", ⟨1049/500, -2866/125, -943/200⟩⟩, ⟨"C4", ⟨1259/500, -10979/500, -5573/1000⟩⟩]
def exAtomsG202 : List Pairs.Atom :=
  [⟨"C1'", ⟨2639/500, -9709/500, -1589/1000⟩⟩, ⟨"N9", ⟨1433/250, -9827/500, -372/125⟩⟩, ⟨"C8", ⟨5611/1000, -18821/1000, -4031/1000⟩⟩, ⟨"N7", ⟨6123/1000, -19331/1000, -5147/1000⟩⟩, ⟨"C5", ⟨3297/500, -20557/1000, -1191/250⟩⟩, ⟨"C6", ⟨1449/200, -10789/500, -686/125⟩⟩, ⟨"O6", ⟨1881/250, -4307/200, -3343/500⟩⟩, ⟨"N1", ⟨1899/250, -2838/125, -4809/1000⟩⟩, ⟨"C2", ⟨7303/1000, -22779/1000, -3491/1000⟩⟩, ⟨"N2", ⟨7707/1000, -4787/200, -2971/1000⟩⟩, ⟨"N3", ⟨669/100, -175/8, -541/200⟩⟩, ⟨"C4", ⟨3183/500, -2597/125, -1721/500⟩⟩]
def exAtomsC220 : List Pairs.Atom :=
  [⟨"C1'", ⟨2883/500, -29291/1000, -502/125⟩⟩, ⟨"N1", ⟨1219/200, -28359/1000, -2557/500⟩⟩, ⟨"C2", ⟨221/40, -27087/1000, -2539/500⟩⟩, ⟨"O2", ⟨597/125, -13401/500, -4137/1000⟩⟩, ⟨"N3", ⟨581/100, -26221/1000, -3033/500⟩⟩, ⟨"C4", ⟨661/100, -26543/1000, -7063/1000⟩⟩, ⟨"N4", ⟨6879/1000, -25673/1000, -8029/1000⟩⟩, ⟨"C5", ⟨3607/500, -13927/500, -1781/250⟩⟩, ⟨"C6", ⟨6921/1000, -28707/1000, -1533/250⟩⟩]

def exS : Array Pairs.Res :=
  #[⟨1, "B", 201, " ", some "A.1", some "B.201", "G", exAtomsG201⟩,
    ⟨1, "B", 202, " ", some "A.2", some "B.202", "G", exAtomsG202⟩,
    ⟨1, "B", 220, " ", some "A.20", some "B.220", "C", exAtomsC220⟩]

def toStk (r : Pairs.Res) : Stacking.Res :=
  ⟨r.model, r.chain, r.number, "", r.base, r.atoms.map (fun a => ⟨a.name, a.pos⟩)⟩
def exL : List Stacking.Res := exS.toList.map toStk

/-- the example is not trivial: five qualifying contacts, one cWW pair G201–C220, one stacking G201–G202 -/
example : (Pairs.contacts Pairs.Params.gen exS).length = 5 ∧
    Pairs.modelPairs Pairs.Params.gen exS (Pairs.contacts Pairs.Params.gen exS) = [⟨0, 2, true, 'W', 'W'⟩] ∧
    (Stacking.stackings none exL).map Stacking.Stk.view = [(0, 1, .upward)] := by decide +kernel

/-! ## centroid equivariance -/

/-- **centroid_equivariant** (any matrix, any translation) -/
theorem centroid_equivariant (R : M3 Rat) (t : V3 Rat) (r : Stacking.Res) :
    Stacking.centroid (Stacking.moveRes R t r) = (Stacking.centroid r).map (V3.move R t) :=
  Stacking.centroid_move R t r

/-! ## the decision functions of `find_pairs` under a proper rigid motion -/

section pairs
open Pairs
variable {R : M3 Rat} (hR : M3.Proper R) (t : Q3) (P : Params)
include hR

/-- the base normal turns with the residue -/
theorem normal_move (r : Res) : normal P (moveRes R t r) = (normal P r).map (M3.apply R) :=
  normal_sim hR (resSim_move R t r)

theorem angleTri_move (n v : Q3) : angleTri P (M3.apply R n) (M3.apply R v) = angleTri P n v :=
  angleTri_rot hR.1 n v

theorem hbondGeomTri_move (ni nj pa pb : Q3) :
    hbondGeomTri P (M3.apply R ni) (M3.apply R nj) (V3.move R t pa) (V3.move R t pb) = hbondGeomTri P ni nj pa pb :=
  Pairs.hbondGeomTri_move hR.1 ni nj pa pb

theorem torsionCisTri_move (p1 p2 p3 p4 : Q3) :
    torsionCisTri (V3.move R t p1) (V3.move R t p2) (V3.move R t p3) (V3.move R t p4) = torsionCisTri p1 p2 p3 p4 :=
  Pairs.torsionCisTri_move hR.1 p1 p2 p3 p4

theorem cisTri_move (ri rj : Res) : cisTri P (moveRes R t ri) (moveRes R t rj) = cisTri P ri rj :=
  cisTri_sim hR.1 (resSim_move R t ri) (resSim_move R t rj)

theorem contactsBetween_move (i j : Nat) (ri rj : Res) :
    contactsBetween P i j (moveRes R t ri) (moveRes R t rj) = contactsBetween P i j ri rj :=
  contactsBetween_sim hR i j (resSim_move R t ri) (resSim_move R t rj) rfl

/-- the bounding ball of a residue moves with it (same integer radius) … -/
theorem ball_move (r : Res) : ball P (moveRes R t r) = (ball P r).map (moveBall R t) :=
  ball_sim hR.1 (resSim_move R t r)

/-- … so the pre-filter keeps the same residue pairs -/
theorem nearPairs_move (s : Array Res) : nearPairs P (moveStruct R t s) = nearPairs P s :=
  nearPairs_sim hR.1 (structSim_move R t s)

/-- **contacts_move**: the list of qualifying (yes / undecided) base-edge contacts is the same, contact by
contact, including every three-valued answer -/
theorem contacts_move (s : Array Res) : contacts P (moveStruct R t s) = contacts P s :=
  contacts_sim hR (structSim_move R t s)

theorem contactsAll_move (s : Array Res) : contactsAll P (moveStruct R t s) = contactsAll P s :=
  contactsAll_sim hR (structSim_move R t s)

theorem bphClasses_move (r : Res) (donor : String) (dp ap : Q3) :
    bphClasses P (moveRes R t r) donor (V3.move R t dp) (V3.move R t ap) = bphClasses P r donor dp ap :=
  bphClasses_sim hR.1 (resSim_move R t r) donor dp ap

/-- **bcontacts_move**: the donor → phosphate / ribose oxygen contacts with their classes -/
theorem bcontacts_move (names : List String) (s : Array Res) :
    bcontacts P names (moveStruct R t s) = bcontacts P names s :=
  bcontacts_sim hR.1 names (structSim_move R t s)

theorem modelLabels_move (s : Array Res) (cs : List Contact) :
    modelLabels P (moveStruct R t s) cs = modelLabels P s cs :=
  modelLabels_sim hR.1 (structSim_move R t s) cs

/-- **modelPairs_move**: labels, greedy occupation in `most_common` order, ranks and assembly -/
theorem modelPairs_move (s : Array Res) (cs : List Contact) :
    modelPairs P (moveStruct R t s) cs = modelPairs P s cs :=
  modelPairs_sim hR.1 (structSim_move R t s) cs

/-- the C03 verdict on any reported pair list -/
theorem specPairs_move (s : Array Res) (rep : List Reported) :
    specPairs P (moveStruct R t s) rep = specPairs P s rep :=
  specPairs_sim hR (structSim_move R t s) rep

/-- the C11 verdict on any reported base–phosphate / base–ribose list -/
theorem specBph_move (kind : String) (names : List String) (s : Array Res) (rep : List RepB) :
    specBph P kind names (moveStruct R t s) rep = specBph P kind names s rep :=
  specBph_sim hR.1 kind names (structSim_move R t s) rep

/-- the distance tests behind `is_nucleotide` and `is_connected` -/
theorem connect_move (l : List Res) : Connect.undecided (l.map (moveRes R t)) = Connect.undecided l :=
  connect_undecided_move hR.1 t l

/-- **annotate_rigid_invariant** (pair layer): contacts, the model's base pairs computed from them, and both
kinds of donor–oxygen contacts are unchanged by the motion -/
theorem annotate_rigid_invariant (s : Array Res) :
    contacts P (moveStruct R t s) = contacts P s ∧
    modelPairs P (moveStruct R t s) (contacts P (moveStruct R t s)) = modelPairs P s (contacts P s) ∧
    bcontacts P P.phosphateAcceptors (moveStruct R t s) = bcontacts P P.phosphateAcceptors s ∧
    bcontacts P P.riboseAcceptors (moveStruct R t s) = bcontacts P P.riboseAcceptors s := by
  refine ⟨contacts_move hR t P s, ?_, bcontacts_move hR t P _ s, bcontacts_move hR t P _ s⟩
  rw [contacts_move hR t P s, modelPairs_move hR t P s]

end pairs

example : Pairs.contacts Pairs.Params.gen (Pairs.moveStruct exR exT exS) = Pairs.contacts Pairs.Params.gen exS :=
  contacts_move exR_proper exT _ exS

/-! ## `find_stackings` under a proper rigid motion -/

section stacking
open Stacking
variable {R : M3 Rat} (hR : M3.Proper R) (t : V3 Rat)
include hR

theorem pairTri_move (a b : Prep) : pairTri (movePrep R t a) (movePrep R t b) = pairTri a b :=
  Stacking.pairTri_move hR t a b

theorem classify_move (a b : Prep) : classify (movePrep R t a) (movePrep R t b) = moveStk R t (classify a b) :=
  Stacking.classify_move hR t a b

/-- **stackings_move**: the reported list is the moved list, element by element, in the same order -/
theorem stackings_move (model : Option Int) (rs : List Res) :
    stackings model (rs.map (moveRes R t)) = (stackings model rs).map (moveStk R t) :=
  Stacking.stackings_move hR t model rs

/-- … in particular file positions, keys and topology labels are identical -/
theorem stackings_move_view (model : Option Int) (rs : List Res) :
    (stackings model (rs.map (moveRes R t))).map Stk.keyView = (stackings model rs).map Stk.keyView :=
  Stacking.stackings_move_view hR t model rs

/-- the pairs inside the 1e-6 band are the same pairs -/
theorem undecided_move (model : Option Int) (rs : List Res) :
    (undecided model (rs.map (moveRes R t))).map (fun p => (p.1.idx, p.2.idx)) =
      (undecided model rs).map (fun p => (p.1.idx, p.2.idx)) :=
  Stacking.undecided_move hR t model rs

end stacking

example : (Stacking.stackings none (exL.map (Stacking.moveRes exR exT))).map Stacking.Stk.keyView =
    (Stacking.stackings none exL).map Stacking.Stk.keyView := stackings_move_view exR_proper exT none exL

/-! ## mirror images: the converse sanity check -/

section mirror
variable {R : M3 Rat} (hR : M3.Mirror R)
include hR

/-- scalar triple products change sign … -/
theorem triple_mirror (u v w : V3 Rat) :
    V3.triple (M3.apply R u) (M3.apply R v) (M3.apply R w) = - V3.triple u v w := by
  rw [M3.triple_rot, hR.2]; ring

/-- … hence the sine part of every torsion angle does (the torsion angle itself changes sign) … -/
theorem torsionY_mirror (t p1 p2 p3 p4 : V3 Rat) :
    Pairs.torsionY (V3.move R t p1) (V3.move R t p2) (V3.move R t p3) (V3.move R t p4) =
      - Pairs.torsionY p1 p2 p3 p4 := by
  rw [Pairs.torsionY_move, hR.2]; ring

/-- … while its cosine part, the only thing the cis/trans test looks at, does not -/
theorem torsionX_mirror (t p1 p2 p3 p4 : V3 Rat) :
    Pairs.torsionX (V3.move R t p1) (V3.move R t p2) (V3.move R t p3) (V3.move R t p4) = Pairs.torsionX p1 p2 p3 p4 :=
  Pairs.torsionX_move hR.1 p1 p2 p3 p4

theorem torsionCisTri_mirror (t p1 p2 p3 p4 : V3 Rat) :
    Pairs.torsionCisTri (V3.move R t p1) (V3.move R t p2) (V3.move R t p3) (V3.move R t p4) =
      Pairs.torsionCisTri p1 p2 p3 p4 :=
  Pairs.torsionCisTri_move hR.1 p1 p2 p3 p4

/-- the base normal of a mirrored residue is the *reversed* image of the normal (a pseudo-vector) -/
theorem normal_mirror (t : V3 Rat) (r : Stacking.Res) :
    Stacking.normal (Stacking.moveRes R t r) = (Stacking.normal r).map (fun n => V3.neg (M3.apply R n)) :=
  Stacking.normal_mirror hR t r

/-- so the signed product of the centroid vector with a normal — what the 45° test of `find_stackings` looks at —
changes sign, while normal·normal does not -/
theorem stacking_vector_mirror (v n m : V3 Rat) :
    V3.dot (M3.apply R v) (V3.neg (M3.apply R n)) = - V3.dot v n ∧
    V3.dot (V3.neg (M3.apply R n)) (V3.neg (M3.apply R m)) = V3.dot n m :=
  ⟨Stacking.vec_dot_normal_mirror hR v n, Stacking.normal_dot_mirror hR n m⟩

/-- the base-pair layer is achiral: with a symmetric angle window the contacts of a mirror image are the same -/
theorem contacts_mirror (t : V3 Rat) (P : Pairs.Params) (hsym : P.encLo = P.encHi) (s : Array Pairs.Res) :
    Pairs.contacts P (Pairs.moveStruct R t s) = Pairs.contacts P s :=
  Pairs.contacts_sim_mirror hR hsym (Pairs.structSim_move R t s)

end mirror

example : Pairs.contacts Pairs.Params.gen (Pairs.moveStruct exMirror exT exS) = Pairs.contacts Pairs.Params.gen exS :=
  contacts_mirror exMirror_mirror exT _ angle_window_symmetric exS

/-- **stacking_chiral**: the stacking G201–G202 of the example disappears in the mirror image (the signed
centroid vector now points away from both reversed normals), so properness of `R` cannot be dropped from
`stackings_move` -/
theorem stacking_chiral :
    (Stacking.stackings none exL).length = 1 ∧
    (Stacking.stackings none (exL.map (Stacking.moveRes exMirror exT))).length = 0 := by decide +kernel

/-! ## atom order inside residues -/

/-- **findAtom_perm** -/
theorem findAtom_perm {r : Pairs.Res} {as : List Pairs.Atom} (hnd : (r.atoms.map (·.name)).Nodup)
    (hp : r.atoms.Perm as) (n : String) : Pairs.findAtom (Pairs.withAtoms r as) n = Pairs.findAtom r n :=
  Pairs.findAtom_perm hnd hp n

theorem findAtom_perm_stacking {r : Stacking.Res} {as : List Stacking.Atom} (hnd : (r.atoms.map (·.name)).Nodup)
    (hp : r.atoms.Perm as) (n : String) : Stacking.findAtom (Stacking.withAtoms r as) n = Stacking.findAtom r n :=
  Stacking.findAtom_perm hnd hp n

section perm
open Pairs
variable {s s' : Array Res} (h : AtomsPermuted s s') (P : Params)
include h

theorem contacts_perm : contacts P s' = contacts P s := contacts_sim proper_id3 (structSim_perm h)

theorem bcontacts_perm (names : List String) : bcontacts P names s' = bcontacts P names s :=
  bcontacts_sim proper_id3.1 names (structSim_perm h)

theorem modelPairs_perm (cs : List Contact) : modelPairs P s' cs = modelPairs P s cs :=
  modelPairs_sim proper_id3.1 (structSim_perm h) cs

theorem specPairs_perm (rep : List Reported) : specPairs P s' rep = specPairs P s rep :=
  specPairs_sim proper_id3 (structSim_perm h) rep

theorem specBph_perm (kind : String) (names : List String) (rep : List RepB) :
    specBph P kind names s' rep = specBph P kind names s rep :=
  specBph_sim proper_id3.1 kind names (structSim_perm h) rep

end perm

theorem stackings_perm {rs rs' : List Stacking.Res} (h : Stacking.AtomsPermuted rs rs') (model : Option Int) :
    Stacking.stackings model rs' = Stacking.stackings model rs ∧
    Stacking.undecided model rs' = Stacking.undecided model rs :=
  ⟨Stacking.stackings_perm h model, Stacking.undecided_perm h model⟩

/-- the example structure with the atoms of every residue listed backwards -/
def exSrev : Array Pairs.Res := exS.map (fun r => Pairs.withAtoms r r.atoms.reverse)

theorem exSrev_permuted : Pairs.AtomsPermuted exS exSrev := by
  refine ⟨Array.size_map, ?_⟩
  intro i r r' e e'
  unfold exSrev at e'
  simp only [Array.getElem?_map, e, Option.map_some, Option.some.injEq] at e'
  subst e'
  refine ⟨Pairs.namesNodup_iff r ?_, r.atoms.reverse, (List.reverse_perm r.atoms).symm, rfl⟩
  have hall : exS.toList.all Pairs.namesNodup = true := by decide +kernel
  exact List.all_eq_true.mp hall r (Array.mem_toList_iff.mpr (Array.mem_of_getElem? e))

example : Pairs.contacts Pairs.Params.gen exSrev = Pairs.contacts Pairs.Params.gen exS :=
  contacts_perm exSrev_permuted _

/-- duplicate-free names are needed: with two atoms of one name the first listed wins -/
example : Pairs.findAtom ⟨1, "A", 1, " ", none, none, "G", [⟨"N1", ⟨0, 0, 0⟩⟩, ⟨"N1", ⟨1, 0, 0⟩⟩]⟩ "N1" ≠
    Pairs.findAtom ⟨1, "A", 1, " ", none, none, "G", [⟨"N1", ⟨1, 0, 0⟩⟩, ⟨"N1", ⟨0, 0, 0⟩⟩]⟩ "N1" := by decide +kernel

/-! ## relabelling of chains, numbers, insertion codes and identities -/

section relabel
open Pairs
variable {f : Relabel} {s : Array Res} (h : OrderPreserving f s) (P : Params)
include h

/-- results are indexed by position in the structure, so "equal up to the renaming" is equality -/
theorem contacts_relabel : contacts P (relabelStruct f s) = contacts P s :=
  contacts_sim proper_id3 (structSim_relabel h)

theorem bcontacts_relabel (names : List String) : bcontacts P names (relabelStruct f s) = bcontacts P names s :=
  bcontacts_sim proper_id3.1 names (structSim_relabel h)

theorem modelLabels_relabel (cs : List Contact) : modelLabels P (relabelStruct f s) cs = modelLabels P s cs :=
  modelLabels_sim proper_id3.1 (structSim_relabel h) cs

theorem rankOf_relabel (i : Nat) : rankOf (relabelStruct f s) i = rankOf s i :=
  rankOf_sim (structSim_relabel h) i

theorem modelPairs_relabel (cs : List Contact) : modelPairs P (relabelStruct f s) cs = modelPairs P s cs :=
  modelPairs_sim proper_id3.1 (structSim_relabel h) cs

theorem specPairs_relabel (rep : List Reported) : specPairs P (relabelStruct f s) rep = specPairs P s rep :=
  specPairs_sim proper_id3 (structSim_relabel h) rep

end relabel

/-- injective renamings of the identities keep the same-residue test -/
theorem sameResidue_relabel (f : Pairs.Relabel) (hl : Function.Injective f.lab) (ha : Function.Injective f.auth)
    (a b : Pairs.Res) :
    Pairs.sameResidue (Pairs.relabelRes f a) (Pairs.relabelRes f b) = Pairs.sameResidue a b :=
  Pairs.sameResidue_relabel f hl ha a b

/-- **stackings_relabel**: a renaming of (chain, number, icode) that keeps the order and the distinctness of
the residue keys leaves positions and topology labels of all stackings unchanged -/
theorem stackings_relabel (f : String × Int × String → String × Int × String) (rs : List Stacking.Res)
    (hlt : ∀ a ∈ rs, ∀ b ∈ rs, Stacking.keyLt (Stacking.relabelRes f a).key (Stacking.relabelRes f b).key =
      Stacking.keyLt a.key b.key)
    (heq : ∀ a ∈ rs, ∀ b ∈ rs, ((Stacking.relabelRes f a).key == (Stacking.relabelRes f b).key) = (a.key == b.key))
    (model : Option Int) :
    (Stacking.stackings model (rs.map (Stacking.relabelRes f))).map Stacking.Stk.view =
      (Stacking.stackings model rs).map Stacking.Stk.view :=
  Stacking.stackings_relabel f rs hlt heq model

/-- chain B → "Q", numbers shifted by 1000, identities prefixed -/
def exRelabel : Pairs.Relabel :=
  ⟨fun k => (if k.1 == "B" then "Q" else "Z" ++ k.1, k.2.1 + 1000, k.2.2), fun l => "x" ++ l, fun a => "y" ++ a⟩

theorem exRelabel_preserving : Pairs.OrderPreserving exRelabel exS := by
  have hall : (List.range 3).all (fun i => (List.range 3).all (fun j =>
      match exS[i]?, exS[j]? with
      | some ri, some rj =>
        (Pairs.resLt (Pairs.relabelRes exRelabel ri) (Pairs.relabelRes exRelabel rj) == Pairs.resLt ri rj) &&
        (Pairs.sameResidue (Pairs.relabelRes exRelabel ri) (Pairs.relabelRes exRelabel rj) == Pairs.sameResidue ri rj)
      | _, _ => true)) = true := by decide +kernel
  have key : ∀ (i j : Nat) (ri rj : Pairs.Res), exS[i]? = some ri → exS[j]? = some rj →
      Pairs.resLt (Pairs.relabelRes exRelabel ri) (Pairs.relabelRes exRelabel rj) = Pairs.resLt ri rj ∧
      Pairs.sameResidue (Pairs.relabelRes exRelabel ri) (Pairs.relabelRes exRelabel rj) = Pairs.sameResidue ri rj := by
    intro i j ri rj ei ej
    have hi : i < 3 := by
      rcases Nat.lt_or_ge i 3 with h | h
      · exact h
      · rw [Array.getElem?_eq_none (show exS.size ≤ i from h)] at ei; cases ei
    have hj : j < 3 := by
      rcases Nat.lt_or_ge j 3 with h | h
      · exact h
      · rw [Array.getElem?_eq_none (show exS.size ≤ j from h)] at ej; cases ej
    have := List.all_eq_true.mp (List.all_eq_true.mp hall i (List.mem_range.mpr hi)) j (List.mem_range.mpr hj)
    rw [ei, ej] at this
    simpa using this
  exact ⟨fun i j ri rj ei ej => (key i j ri rj ei ej).1, fun i j ri rj ei ej => (key i j ri rj ei ej).2⟩

example : Pairs.modelPairs Pairs.Params.gen (Pairs.relabelStruct exRelabel exS) (Pairs.contacts Pairs.Params.gen exS) =
    Pairs.modelPairs Pairs.Params.gen exS (Pairs.contacts Pairs.Params.gen exS) :=
  modelPairs_relabel exRelabel_preserving _ _

/-- an order-reversing renaming is not harmless: swapping the order of two residues swaps the orientation
(hence the edge letters) of their labels -/
example : Pairs.orient true 0 2 true 'W' 'H' ≠ Pairs.orient false 0 2 true 'W' 'H' := by decide

/-! ## the tie-break of the edge occupation -/

section greedy
open Pairs
variable {P : Params} {labels : List Label}

/-- **greedy_order_independent**: when no two distinct competing candidates (sharing a residue edge) have the
same hydrogen-bond count, every processing order that `most_common` can produce — distinct labels by
non-increasing count, ties in *any* order — gives the same sorted pair list -/
theorem greedy_order_independent (hn : noTiedConflicts P labels = true) {σ σ' : List Label}
    (hσ : CountSorted labels σ) (hσ' : CountSorted labels σ') (hmem : ∀ l, l ∈ σ ↔ l ∈ σ')
    (rank : Nat → Nat) (hinj : ∀ i j, rank i = rank j → i = j) :
    assemble rank (greedyOccupy P σ labels) = assemble rank (greedyOccupy P σ' labels) :=
  Pairs.greedy_order_independent hn hσ hσ' hmem rank hinj

/-- the order `most_common` actually produces is such an order -/
theorem mostCommon_countSorted (labels : List Label) : CountSorted labels (mostCommonOrder labels) :=
  Pairs.mostCommon_countSorted labels

/-- **pairs_independent_of_arrival_order**: the reported base pairs do not depend on the order in which the
hydrogen bonds arrive from the KD-tree (any permutation of the label list) -/
theorem pairs_independent_of_arrival_order {labels' : List Label} (hp : labels.Perm labels')
    (hn : noTiedConflicts P labels = true) (rank : Nat → Nat) (hinj : ∀ i j, rank i = rank j → i = j) :
    assemble rank (greedyOccupy P (mostCommonOrder labels) labels) =
      assemble rank (greedyOccupy P (mostCommonOrder labels') labels') :=
  Pairs.pairs_independent_of_arrival_order hp hn rank hinj

end greedy

/-- the hypothesis is satisfiable with a genuine tie (two non-competing candidates of equal count) … -/
example : Pairs.noTiedConflicts Pairs.Params.gen
    [⟨0, 5, true, 'W', 'W'⟩, ⟨0, 5, true, 'W', 'W'⟩, ⟨1, 4, true, 'W', 'W'⟩, ⟨1, 4, true, 'W', 'W'⟩] = true := by
  decide +kernel

/-- … it holds on the example structure … -/
example : Pairs.noTiedConflicts Pairs.Params.gen
    (Pairs.modelLabels Pairs.Params.gen exS (Pairs.contacts Pairs.Params.gen exS)) = true := by decide +kernel

/-- **tie_break_matters**: … and it cannot be dropped: two candidates competing for edge W of residue 0 with
equal counts are reported according to whichever comes first -/
theorem tie_break_matters :
    let a : Pairs.Label := ⟨0, 5, true, 'W', 'W'⟩
    let b : Pairs.Label := ⟨0, 7, true, 'W', 'H'⟩
    Pairs.noTiedConflicts Pairs.Params.gen [a, a, b, b] = false ∧
    Pairs.greedyOccupy Pairs.Params.gen [a, b] [a, a, b, b] = [a] ∧
    Pairs.greedyOccupy Pairs.Params.gen [b, a] [a, a, b, b] = [b] := by decide +kernel

end RnaVerif.Props.C05

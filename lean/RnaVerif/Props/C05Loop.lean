import RnaVerif.Lemmas.FindPairs
import RnaVerif.Lemmas.FindPairsExample
/-!
# C05 (loop) — the WHOLE of `find_pairs` depends only on internal geometry and identity

Model: `RnaVerif.FindPairs.findPairs` (Model/FindPairs.lean) — the complete loop of `annotator.find_pairs` as a
function of the structure: KD-tree points in index order, the dictionaries keyed by the coordinate tuple (collisions
included), the candidates in ascending index order, the order-dependent consumption of donor → oxygen contacts by
base–phosphate / base–ribose detection with its `used_atoms` set, the base–base angle test, labels, `most_common`
order, greedy edge occupation, both `sorted` calls, `merge_and_clean_bph_br`, Saenger look-up.  It is tied to the
source by the regenerated tables and by the FUNCTIONAL correspondence `harness/corr/c03_loop.py` (the three lists
returned by the real code, in order, equal the model's whenever nothing on the executed path is inside the 1e-6 band).

`Props/C05.lean` proves invariance of the *relational* decision layer; the one thing it could not cover was the
order in which competing contacts are consumed (until /repo commit f72e0ea that order was the iteration order of the
set returned by `KDTree.query_pairs`).  With the repaired source the order is the index order, which does not depend
on coordinates, and the statements below close that gap: for EVERY proper rotation with rational entries, every
rational translation, every structure, every `model` argument and every parameter record, all three result lists and
both flags of the functional model are unchanged — likewise for another atom order inside residues (duplicate-free
names) and for every order-preserving renaming.
-/
namespace RnaVerif.Props.C05Loop
open RnaVerif RnaVerif.Pairs RnaVerif.FindPairs

/-- the axis shortcut used when listing the candidates is only a shortcut -/
theorem candidate_test_is_distance (P : Params) (p q : Q3) : distTriPt P p q = distTri P (V3.dist2 p q) :=
  distTriPt_eq P p q

/-- a rigid motion is injective, so the dictionaries keyed by `(x, y, z)` collide in the same places -/
theorem motion_injective {R : M3 Rat} (hR : M3.Proper R) (t : Q3) {p q : Q3}
    (h : V3.move R t p = V3.move R t q) : p = q := move_inj hR.1 h

example : M3.Proper (⟨⟨2/3, -1/3, 2/3⟩, ⟨2/3, 2/3, -1/3⟩, ⟨-1/3, 2/3, 2/3⟩⟩ : M3 Rat) :=
  M3.proper_of_check (by decide +kernel)

/-- the state of the loop after the last candidate — `used_atoms`, the hydrogen bonds, the consumed donor → oxygen
contacts in the order of consumption, the undecided flag, the counters — is the same for the moved structure -/
theorem loop_move {R : M3 Rat} (hR : M3.Proper R) (t : Q3) (P : Params) (model : Option Int) (s : Array Res) :
    loop P model (moveStruct R t s) = loop P model s :=
  loop_sim hR (loopSim_move R t s) model

/-- **findPairs_move**: base pairs (with LW and Saenger class), base–phosphate and base–ribose lists — each in the
order returned — and the undecided / shape flags are the same for `p ↦ R p + t` applied to every atom -/
theorem findPairs_move {R : M3 Rat} (hR : M3.Proper R) (t : Q3) (P : Params) (model : Option Int) (s : Array Res) :
    findPairs P model (moveStruct R t s) = findPairs P model s :=
  findPairs_sim hR (loopSim_move R t s) model

/-- **findPairs_perm**: … for another order of the atoms inside residues whose atom names are pairwise different -/
theorem findPairs_perm {s s' : Array Res} (h : AtomsPermuted s s') (P : Params) (model : Option Int) :
    findPairs P model s' = findPairs P model s :=
  findPairs_sim proper_id3 (loopSim_perm h) model

/-- **findPairs_relabel**: … for a renaming of chains, numbers, insertion codes and identities that preserves the
residue order and the same-residue test (results are indexed by position, so "equal up to the renaming" is equality) -/
theorem findPairs_relabel {f : Relabel} {s : Array Res} (h : OrderPreserving f s) (P : Params) (model : Option Int) :
    findPairs P model (relabelStruct f s) = findPairs P model s :=
  findPairs_sim proper_id3 (loopSim_relabel h) model

/-! ## non-vacuity: a structure with one base pair, three consumed donor → oxygen contacts -/

def exR : M3 Rat := ⟨⟨2/3, -1/3, 2/3⟩, ⟨2/3, 2/3, -1/3⟩, ⟨-1/3, 2/3, 2/3⟩⟩
def exT : V3 Rat := ⟨-500, 1234567/1000, 1/3⟩

theorem exR_proper : M3.Proper exR := M3.proper_of_check (by decide +kernel)

/-- the example is not trivial -/
theorem exF_annotation :
    findPairs Params.gen none exF =
      { pairs := [(0, 2, "tSW", none)], bph := [], br := [(1, 2, 6), (2, 0, 2), (2, 1, 6)], und := false, wf := true } ∧
    (loop Params.gen none exF).recs.length = 3 ∧ (loop Params.gen none exF).hb.length = 2 := by decide +kernel

example : findPairs Params.gen none (moveStruct exR exT exF) = findPairs Params.gen none exF :=
  findPairs_move exR_proper exT _ none exF

/-- the same residues with the atoms of each listed backwards -/
def exFrev : Array Res := exF.map (fun r => withAtoms r r.atoms.reverse)

theorem exFrev_permuted : AtomsPermuted exF exFrev := by
  refine ⟨Array.size_map, ?_⟩
  intro i r r' e e'
  unfold exFrev at e'
  simp only [Array.getElem?_map, e, Option.map_some, Option.some.injEq] at e'
  subst e'
  refine ⟨namesNodup_iff r ?_, r.atoms.reverse, (List.reverse_perm r.atoms).symm, rfl⟩
  have hall : exF.toList.all namesNodup = true := by decide +kernel
  exact List.all_eq_true.mp hall r (Array.mem_toList_iff.mpr (Array.mem_of_getElem? e))

example : findPairs Params.gen none exFrev = findPairs Params.gen none exF := findPairs_perm exFrev_permuted _ none

/-- chain C → "Q", numbers shifted by 1000, identities prefixed -/
def exRelabel : Relabel :=
  ⟨fun k => (if k.1 == "C" then "Q" else "Z" ++ k.1, k.2.1 + 1000, k.2.2), fun l => "x" ++ l, fun a => "y" ++ a⟩

theorem exRelabel_preserving : OrderPreserving exRelabel exF := by
  have hall : (List.range 3).all (fun i => (List.range 3).all (fun j =>
      match exF[i]?, exF[j]? with
      | some ri, some rj =>
        (resLt (relabelRes exRelabel ri) (relabelRes exRelabel rj) == resLt ri rj) &&
        (sameResidue (relabelRes exRelabel ri) (relabelRes exRelabel rj) == sameResidue ri rj)
      | _, _ => true)) = true := by decide +kernel
  have key : ∀ (i j : Nat) (ri rj : Res), exF[i]? = some ri → exF[j]? = some rj →
      resLt (relabelRes exRelabel ri) (relabelRes exRelabel rj) = resLt ri rj ∧
      sameResidue (relabelRes exRelabel ri) (relabelRes exRelabel rj) = sameResidue ri rj := by
    intro i j ri rj ei ej
    have hi : i < 3 := by
      rcases Nat.lt_or_ge i 3 with h | h
      · exact h
      · rw [Array.getElem?_eq_none (show exF.size ≤ i from h)] at ei; cases ei
    have hj : j < 3 := by
      rcases Nat.lt_or_ge j 3 with h | h
      · exact h
      · rw [Array.getElem?_eq_none (show exF.size ≤ j from h)] at ej; cases ej
    have := List.all_eq_true.mp (List.all_eq_true.mp hall i (List.mem_range.mpr hi)) j (List.mem_range.mpr hj)
    rw [ei, ej] at this
    simpa using this
  exact ⟨fun i j ri rj ei ej => (key i j ri rj ei ej).1, fun i j ri rj ei ej => (key i j ri rj ei ej).2⟩

example : findPairs Params.gen none (relabelStruct exRelabel exF) = findPairs Params.gen none exF :=
  findPairs_relabel exRelabel_preserving _ none

/-- mirror images are NOT covered (and need not be: C05 speaks of rigid motions): properness is used for the base
normals only; the consumption order and the dictionaries are indifferent to it -/
theorem loop_state_needs_only_injectivity {R : M3 Rat} (hR : M3.Orthonormal (1 : Rat) 0 R) (t : Q3) (pts : List Point) :
    canonList (pts.map (mvPt R t)) = canonList pts ∧
    ∀ (P : Params) (i : Nat), candsFrom P i (pts.map (mvPt R t)) = candsFrom P i pts :=
  ⟨canonList_move hR pts, fun _ i => candsFrom_move hR pts i⟩

example : M3.Orthonormal (1 : Rat) 0 (⟨⟨1, 0, 0⟩, ⟨0, 1, 0⟩, ⟨0, 0, -1⟩⟩ : M3 Rat) :=
  M3.orthonormal_of_check (by decide +kernel)

end RnaVerif.Props.C05Loop

import RnaVerif.Lemmas.Mapping
import RnaVerif.Lemmas.Decode
/-!
# C06 — 3D → 2D mapping gives a valid matching and faithful text for any pair list

Theorems about the model `RnaVerif.Mapping` (M2), which is tied to `Mapping2D3D` by the regenerated
`RnaVerif.Gen.map*` values (bridged below) and by the differential run of `harness/corr/c06.py`.
Residues are nucleotide positions; pair records may be dangling, duplicated, reversed, self pairs.
-/
namespace RnaVerif.Props.C06
open RnaVerif RnaVerif.Mapping

/-! ## bridges: what the generated values are, in the property's words -/

/-- canonical without Saenger class = cWW between A-U, A-T, C-G, G-U; with Saenger class = XIX, XX, XXVIII -/
theorem canonical_def :
    Gen.mapCanonLw = [0] ∧ Gen.mapLwNames.take 1 = ["cWW"] ∧
    Gen.mapCanonLetters = [('A', 'U'), ('A', 'T'), ('C', 'G'), ('G', 'U')] ∧
    (List.range Gen.mapSaengerNames.length).filter (fun s => Gen.mapSaengerCanonical.getD s false) = [18, 19, 27] ∧
    [18, 19, 27].map (fun s => Gen.mapSaengerNames.getD s "") = ["XIX", "XX", "XXVIII"] := by
  refine ⟨rfl, rfl, rfl, by decide, rfl⟩

/-- 18 classes; reversal is an involution on them (so a record and its reverse are one pair) -/
theorem lw_reverse_involution :
    lwCount = 18 ∧ Gen.mapLwRev.length = 18 ∧ ∀ lw, lw < 18 → lwRev lw < 18 ∧ lwRev (lwRev lw) = lw := by
  refine ⟨rfl, rfl, ?_⟩
  decide

/-- both copies of `pair_scoring_function` (in `bpseq` and in `_generated_bpseq_data`) are the same rule -/
theorem scoring_copies_agree (sa : Option Nat) (lo hi : Char) :
    Gen.mapPairScore1 sa lo hi = Gen.mapPairScore2 sa lo hi := rfl

/-- both copies of the gap rule agree: on one chain the same condition and count; across chains the
BPSEQ copy writes nothing and the strand copy opens a new strand; the placeholder is `?` in both;
nothing before the first nucleotide -/
theorem gap_rules_agree :
    (∀ fg conn, Gen.mapGapCondStrands fg conn true = Gen.mapGapCondBpseq fg true conn true) ∧
    (∀ fg conn, Gen.mapGapCondBpseq fg true conn true = (fg && !conn)) ∧
    (∀ fg conn, Gen.mapGapCondBpseq fg true conn false = false) ∧
    (∀ fg conn same, Gen.mapGapCondBpseq fg false conn same = false) ∧
    (∀ same, Gen.mapNewStrand same = !same) ∧
    (∀ a b, Gen.mapGapCountStrands a b = Gen.mapGapCountBpseq a b) ∧
    (∀ a b, Gen.mapGapCountBpseq a b = b - a - 1) ∧
    Gen.mapGapCharBpseq = '?' ∧ Gen.mapGapCharStrands = '?' := by
  refine ⟨by decide, by decide, by decide, by decide, by decide, fun _ _ => rfl, fun _ _ => rfl, rfl, rfl⟩

/-- connectivity threshold 1.5 · 1.6 Å, strict -/
theorem conn_threshold : Gen.mapConnFactor = 3 / 2 ∧ Gen.mapConnOP = 8 / 5 ∧ Gen.mapConnStrict = true :=
  ⟨rfl, rfl, rfl⟩

/-! ## conflict resolution -/

/-- the fuel given (the number of canonical pairs) suffices: on return no residue has two pairs left,
i.e. the `while True` loop has reached its `break` -/
theorem resolve_terminates (nts : List Nt) (cs : List BP) :
    conflictGroup (resolveConflicts nts cs) = none :=
  resolveLoop_terminates (victim_ok nts) cs.length cs (Nat.le_refl _)

/-- every residue has at most one pair in the result -/
theorem resolve_matching (nts : List Nt) (cs : List BP) (r : Nat) :
    ((resolveConflicts nts cs).filter (·.touches r)).length ≤ 1 :=
  conflictGroup_none (resolve_terminates nts cs) r

/-- the pairs kept are canonical input pairs (lifted, oriented low → high) -/
theorem resolve_subset (nts : List Nt) (inp : List PairIn) :
    ∀ c ∈ keptPairs nts inp,
      c ∈ liftPairs nts.length inp ∧ isCanonical nts c = true ∧ oriented nts c = true := by
  intro c hc
  exact mem_canonicalPairs ((resolveLoop_sublist (victim nts) _ _).subset hc)

/-- a canonical pair that shares no residue with any other canonical pair is kept -/
theorem resolve_keeps_unconflicted (nts : List Nt) (inp : List PairIn) (c : BP)
    (hc : c ∈ canonicalPairs nts (liftPairs nts.length inp))
    (hd : ∀ c' ∈ canonicalPairs nts (liftPairs nts.length inp), c' ≠ c → c.disjoint c' = true) :
    c ∈ keptPairs nts inp :=
  resolveLoop_keeps (victim_ok nts) _ _ c (canonicalPairs_nodup nts (liftPairs_nodup _ _)) hc hd

def exNts : List Nt :=
  [⟨['A'], 1, [], 'G', true⟩, ⟨['A'], 2, [], 'C', true⟩, ⟨['A'], 3, [], 'A', false⟩, ⟨['A'], 7, [], 'U', false⟩,
   ⟨['B'], 1, [], 'G', false⟩]

/-- G1–C2 (twice, once reversed), A3–U7 competing with A3–G(B1, Saenger XXVIII), a dangling and a self pair -/
def exInp : List PairIn :=
  [⟨some 0, some 1, 0, none⟩, ⟨some 1, some 0, 0, none⟩, ⟨some 2, some 3, 0, none⟩, ⟨some 4, some 2, 0, some 27⟩,
   ⟨none, some 1, 0, none⟩, ⟨some 3, some 3, 0, none⟩]

/-- non-vacuity: G1–C2 is canonical and unconflicted in `exInp`; A3–U7 wins over A3–G -/
example : (⟨0, 1, 0, none⟩ : BP) ∈ canonicalPairs exNts (liftPairs exNts.length exInp) ∧
    (∀ c' ∈ canonicalPairs exNts (liftPairs exNts.length exInp), c' ≠ ⟨0, 1, 0, none⟩ →
      (⟨0, 1, 0, none⟩ : BP).disjoint c' = true) ∧
    keptPairs exNts exInp = [⟨0, 1, 0, none⟩, ⟨2, 3, 0, none⟩] := by decide

/-! ## numbering and validity of the BPSEQ -/

/-- indices 1..N in file order with the residues' letters; `?` exactly at the detected gaps: the slots
are, for each nucleotide in file order, `gapsSpec` placeholders followed by the nucleotide itself -/
theorem numbering_ok (fg : Bool) (nts : List Nt) (inp : List PairIn) :
    slots fg nts = slotsSpec fg nts ∧
    (bpseq fg nts inp).map (·.idx) = (List.range (slotsSpec fg nts).length).map (· + 1) ∧
    SecStr.sequence (bpseq fg nts inp) = (slotsSpec fg nts).map (·.ch) := by
  refine ⟨slots_eq_spec fg nts, ?_, ?_⟩
  · unfold bpseq genBpseq entriesOf
    rw [List.map_map, slots_eq_spec]
    rfl
  · unfold bpseq genBpseq
    rw [sequence_entriesOf, slots_eq_spec]

/-- the BPSEQ pairs symmetrically, never a position with itself, partners in range: `SecStr.valid` -/
theorem bpseq_valid (fg : Bool) (nts : List Nt) (inp : List PairIn) :
    SecStr.valid (bpseq fg nts inp) = true := by
  apply genBpseq_valid fg nts (conflictGroup_none (resolve_terminates nts _))
  intro c hc
  exact oriented_ne (resolve_subset nts inp c hc).2.2

/-- the placeholders of the example: two before U7 with gap detection, none across chains -/
example : SecStr.sequence (bpseq true exNts exInp) = "GCA???UG".toList ∧
    (bpseq true exNts exInp).map (·.pair) = [2, 1, 7, 0, 0, 0, 3, 0] ∧
    SecStr.sequence (bpseq false exNts exInp) = "GCAUG".toList := by decide

/-! ## strands and per-strand slices -/

/-- the strand sequences concatenate to exactly the BPSEQ sequence -/
theorem strands_concat (fg : Bool) (nts : List Nt) (inp : List PairIn) :
    (strandSequences fg nts).flatMap (·.2) = SecStr.sequence (bpseq fg nts inp) := by
  unfold bpseq genBpseq
  rw [sequence_entriesOf]
  exact strands_concat_slots fg nts

/-- the per-strand slices of a structure line as long as the BPSEQ concatenate to that line -/
theorem slices_concat (fg : Bool) (nts : List Nt) (inp : List PairIn) (db : List Char)
    (h : db.length = (bpseq fg nts inp).length) :
    (slices (strandLens fg nts) db).flatten = db := by
  apply slices_flatten
  rw [strandLens_sum, h]
  unfold bpseq genBpseq
  rw [entriesOf_length]
  exact Nat.le_refl _

example : (strandSequences true exNts).map (fun s => (String.ofList s.1, String.ofList s.2)) = [("A", "GCA???U"), ("B", "G")] ∧
    "((.....)".toList.length = (bpseq true exNts exInp).length ∧
    slices (strandLens true exNts) "((.....)".toList = ["((.....".toList, ")".toList] := by decide

/-- the per-strand text concatenates to exactly that matching: whatever per-level non-crossing level
choice the solver makes, the structure line of the BPSEQ is as long as the sequence, its per-strand
slices concatenate to it, and it is balanced and decodes to exactly the BPSEQ's pairs -/
theorem dot_bracket_faithful (fg : Bool) (nts : List Nt) (inp : List PairIn) (lv : Nat × Nat → Nat)
    (hnc : ∀ p ∈ SecStr.pairs0 (bpseq fg nts inp), ∀ q ∈ SecStr.pairs0 (bpseq fg nts inp),
      lv p = lv q → ¬ (p.1 < q.1 ∧ q.1 < p.2 ∧ p.2 < q.2)) :
    (slices (strandLens fg nts) ((List.range (slots fg nts).length).map (fun k => SecStr.charOfTok Gen.encBrackets
        (SecStr.tokOf (levelled (bpseq fg nts inp) lv) k)))).flatten =
      (List.range (slots fg nts).length).map (fun k => SecStr.charOfTok Gen.encBrackets
        (SecStr.tokOf (levelled (bpseq fg nts inp) lv) k)) ∧
    ∃ s', SecStr.decodeFrom (SecStr.tokOf (levelled (bpseq fg nts inp) lv))
        (List.range (slots fg nts).length) SecStr.St.init = some s' ∧
      (∀ t, s'.stacks t = []) ∧ s'.out.Nodup ∧ (∀ p, p ∈ s'.out ↔ p ∈ SecStr.pairs0 (bpseq fg nts inp)) := by
  constructor
  · apply slices_flatten
    rw [strandLens_sum]
    simp
  · exact (row_text_balanced fg nts (conflictGroup_none (resolve_terminates nts _))
      (fun c hc => oriented_ne (resolve_subset nts inp c hc).2.2) lv hnc).2

/-- non-vacuity: the example BPSEQ has the nested pairs (0,1) and (2,6); one level suffices -/
example : SecStr.pairs0 (bpseq true exNts exInp) = [(0, 1), (2, 6)] ∧
    ∀ p ∈ [(0, 1), (2, 6)], ∀ q ∈ [(0, 1), (2, 6)], (fun (_ : Nat × Nat) => 0) p = (fun (_ : Nat × Nat) => 0) q →
      ¬ (p.1 < q.1 ∧ q.1 < p.2 ∧ p.2 < q.2) := by decide

/-! ## extended dot-bracket rows -/

/-- every text a row that is a matching can get — the tokens of its BPSEQ's pairs under *any* level
function without two crossing pairs on one level (what `__make_dot_bracket` writes under a proper level
assignment, whatever the solver chooses; C01/C02) — is as long as the sequence, balanced (decoding
never pops an empty stack and leaves every stack empty) and decodes to exactly the row BPSEQ's pairs -/
theorem ext_rows_balanced_len (fg : Bool) (nts : List Nt) (row : List BP) (hm : Matching row)
    (hne : ∀ c ∈ row, c.i ≠ c.j) (lv : Nat × Nat → Nat)
    (hnc : ∀ p ∈ SecStr.pairs0 (genBpseq fg nts (bpPairs row)), ∀ q ∈ SecStr.pairs0 (genBpseq fg nts (bpPairs row)),
      lv p = lv q → ¬ (p.1 < q.1 ∧ q.1 < p.2 ∧ p.2 < q.2)) :
    ((List.range (slots fg nts).length).map (fun k => SecStr.charOfTok Gen.encBrackets
        (SecStr.tokOf (levelled (genBpseq fg nts (bpPairs row)) lv) k))).length = (slots fg nts).length ∧
    ∃ s', SecStr.decodeFrom (SecStr.tokOf (levelled (genBpseq fg nts (bpPairs row)) lv))
        (List.range (slots fg nts).length) SecStr.St.init = some s' ∧
      (∀ t, s'.stacks t = []) ∧ s'.out.Nodup ∧
      (∀ p, p ∈ s'.out ↔ p ∈ SecStr.pairs0 (genBpseq fg nts (bpPairs row))) :=
  row_text_balanced fg nts hm hne lv hnc

/-- with greedy allocation every row satisfies the hypotheses of `ext_rows_balanced_len` -/
theorem ext_rows_greedy_rows_are_matchings (nts : List Nt) (inp : List PairIn) (lw : Nat) :
    ∀ row ∈ allocRows none (classRecords nts (liftPairs nts.length inp) lw),
      Matching row ∧ ∀ c ∈ row, c.i ≠ c.j := by
  intro row hrow
  refine ⟨allocRows_greedy_matching _ row hrow, ?_⟩
  intro c hc
  have hcr : c ∈ classRecords nts (liftPairs nts.length inp) lw :=
    ((allocRows_perm none _).mem_iff).mp (List.mem_flatten.mpr ⟨row, hrow, hc⟩)
  exact oriented_ne (classRecords_mem hcr).2.2

/-- non-vacuity: two crossing pairs on different levels, one row -/
example : Matching [⟨0, 2, 1, none⟩, ⟨1, 3, 1, none⟩] ∧
    SecStr.pairs0 (genBpseq false exNts (bpPairs [⟨0, 2, 1, none⟩, ⟨1, 3, 1, none⟩])) = [(0, 2), (1, 3)] ∧
    (∀ p ∈ [(0, 2), (1, 3)], ∀ q ∈ [(0, 2), (1, 3)], (fun (x : Nat × Nat) => x.1) p = (fun (x : Nat × Nat) => x.1) q →
      ¬ (p.1 < q.1 ∧ q.1 < p.2 ∧ p.2 < q.2)) := by
  refine ⟨?_, by decide, by decide⟩
  intro r
  by_cases hr : r < 4
  · revert hr; revert r; decide
  · have : group [⟨0, 2, 1, none⟩, ⟨1, 3, 1, none⟩] r = [] := by
      simp [group, BP.touches]; omega
    rw [this]; simp

/-- FULL CLAIM for a row limit `k` (`some 2` = the present code, `none` = as many rows as needed): for
every input and class, the rows partition the distinct records of the class and every row's BPSEQ is a
valid matching that pairs exactly the row's records (`ExtRowsCorrect`) -/
def ext_rows_encode_each_once_full (k : Option Nat) : Prop :=
  ∀ (fg : Bool) (nts : List Nt) (inp : List PairIn), ExtRowsCorrect k fg nts inp

/-- with as many rows as needed the full claim holds -/
theorem ext_rows_encode_each_once_greedy : ext_rows_encode_each_once_full none :=
  fun fg nts inp => extRows_correct_greedy fg nts inp

/-- the full claim for the code as generated, provided it allocates rows greedily without limit -/
theorem ext_rows_encode_each_once (h : Gen.mapExtRowLimit = none) :
    ext_rows_encode_each_once_full Gen.mapExtRowLimit := by
  rw [h]; exact ext_rows_encode_each_once_greedy

/-- PARTIAL (any row limit): if every allocated row is a matching, the claim holds for that input.
Missing for the two-row code: nothing guarantees that the second row is a matching. -/
theorem ext_rows_encode_each_once_partial (k : Option Nat) (fg : Bool) (nts : List Nt) (inp : List PairIn)
    (h : ∀ lw, lw < lwCount → ∀ row ∈ allocRows k (classRecords nts (liftPairs nts.length inp) lw), Matching row) :
    ExtRowsCorrect k fg nts inp :=
  extRows_correct_of_matching k fg nts inp h

def exNts4 : List Nt :=
  [⟨['A'], 1, [], 'G', true⟩, ⟨['A'], 2, [], 'C', true⟩, ⟨['A'], 3, [], 'A', true⟩, ⟨['A'], 4, [], 'U', false⟩]

/-- one residue with three partners in class cWH -/
def exDeg3 : List PairIn := [⟨some 0, some 1, 1, none⟩, ⟨some 0, some 2, 1, none⟩, ⟨some 0, some 3, 1, none⟩]

/-- non-vacuity of the partial theorem: a residue with two partners in one class, two rows, both matchings -/
example : allocRows (some 2) (classRecords exNts4 (liftPairs 4 (exDeg3.take 2)) 1) =
      [[⟨0, 1, 1, none⟩], [⟨0, 2, 1, none⟩]] ∧
    ∀ row ∈ allocRows (some 2) (classRecords exNts4 (liftPairs 4 (exDeg3.take 2)) 1), rowFaithful false exNts4 row = true := by
  decide

/-- the full claim is FALSE for the two-row code: with three partners of one residue in one class the
second row holds two pairs sharing that residue and its BPSEQ loses one of them -/
theorem ext_rows_two_rows_false : ¬ ext_rows_encode_each_once_full (some 2) := by
  intro h
  have h1 := (h false exNts4 exDeg3 1 (by decide)).2.2 [⟨0, 2, 1, none⟩, ⟨0, 3, 1, none⟩] (by decide)
  revert h1
  decide

def exNts5 : List Nt :=
  [⟨['A'], 1, [], 'G', true⟩, ⟨['A'], 2, [], 'C', true⟩, ⟨['A'], 3, [], 'A', true⟩, ⟨['A'], 4, [], 'U', true⟩,
   ⟨['A'], 5, [], 'G', false⟩]

/-- no residue has more than two partners: x–z and y–w fill the first row, r–x and r–y share r in the second -/
def exDeg2 : List PairIn :=
  [⟨some 1, some 3, 0, none⟩, ⟨some 2, some 4, 0, none⟩, ⟨some 0, some 1, 0, none⟩, ⟨some 0, some 2, 0, none⟩]

/-- degree ≤ 2 per class does not rescue the two-row code either -/
theorem ext_rows_two_rows_false_degree_two :
    ¬ ExtRowsCorrect (some 2) false exNts5 exDeg2 ∧
    ∀ r, ((classRecords exNts5 (liftPairs 5 exDeg2) 0).filter (·.touches r)).length ≤ 2 := by
  constructor
  · intro h
    have h1 := (h 0 (by decide)).2.2 [⟨0, 1, 0, none⟩, ⟨0, 2, 0, none⟩] (by decide)
    revert h1
    decide
  · intro r
    by_cases hr : r < 5
    · revert hr; revert r; decide
    · have : (classRecords exNts5 (liftPairs 5 exDeg2) 0).filter (·.touches r) = [] := by
        rw [List.filter_eq_nil_iff]
        intro c hc
        have hb := liftPairs_bound 5 exDeg2 c (classRecords_mem hc).1
        simp only [BP.touches, Bool.or_eq_true, beq_iff_eq]
        omega
      rw [this]; simp

end RnaVerif.Props.C06

import RnaVerif.Model.FnSpec
import RnaVerif.Lemmas.Py
/-! # C06 — bridges for the functions regenerated from the source (translator part of the tie)

`Gen.Fn.saengerIsCanonical`, `bpScore`, `bpIsCanonical`, `pairScoreBpseq`, `pairScoreData` are rewritten on every
run by tools/py2lean.py from the current text of `Saenger.is_canonical`, `BasePair3D.score`,
`BasePair3D.is_canonical` and both copies of `pair_scoring_function` (tertiary.py).  The theorems relate them
to the hand-written model of the 3D→2D mapping (`Model/Mapping.lean`: `isCanonical`, `pairScore`) and to the
tables of `Generated/Mapping.lean` that model is parameterised by.
-/
namespace RnaVerif.Props.C06Fn
open RnaVerif RnaVerif.Gen.Fn RnaVerif.PyL RnaVerif.FnSpec

theorem enums_are_tables : LeontisWesthof.all.map LeontisWesthof.name = Gen.mapLwNames ∧
    Saenger.all.map Saenger.name = Gen.mapSaengerNames := by decide

/-- **`Saenger.is_canonical`** per member = the regenerated flag list the model reads -/
theorem saengerIsCanonical_bridge (s : Saenger) : saengerIsCanonical s = Gen.mapSaengerCanonical.getD (saIdx s) false :=
  (by decide : ∀ s ∈ Saenger.all, saengerIsCanonical s = Gen.mapSaengerCanonical.getD (saIdx s) false) s s.mem_all

/-- **`BasePair3D.score`** = the regenerated score list (default 20 never applies: every class has a score) -/
theorem bpScore_bridge (p : BasePair3D) : bpScore p = ((Gen.mapScoreTable.getD (lwIdx p.lw) 20 : Nat) : Int) := by
  unfold bpScore
  generalize p.lw = m
  exact (by decide : ∀ m ∈ LeontisWesthof.all,
    ((bpScore_c1).lookup m).getD (20 : Int) = ((Gen.mapScoreTable.getD (lwIdx m) 20 : Nat) : Int)) m m.mem_all

/-- the residue letters of a pair as the model sees them: two ASCII characters -/
structure Letters (p : BasePair3D) (c1 c2 : Char) : Prop where
  h1 : p.nt1_3d.one_letter_name = String.singleton c1
  h2 : p.nt2_3d.one_letter_name = String.singleton c2
  a1 : c1.toNat < 128
  a2 : c2.toNat < 128

theorem nts_eq (p : BasePair3D) (c1 c2 : Char) (h : Letters p c1 c2) :
    Py.join "" (Py.sortedStr [Py.upper p.nt1_3d.one_letter_name, Py.upper p.nt2_3d.one_letter_name]) =
      String.ofList [(Mapping.sortedLetters c1 c2).1, (Mapping.sortedLetters c1 c2).2] := by
  rw [h.h1, h.h2, upper_singleton c1 h.a1, upper_singleton c2 h.a2, sorted_pair]
  unfold Mapping.sortedLetters
  by_cases l : c1.toUpper ≤ c2.toUpper <;> simp [l]

/-- **`BasePair3D.is_canonical` = the model's `Mapping.isCanonical`** (the filter `canonicalPairs` of the
C06 theorems), for every class, every Saenger class or none, every pair of ASCII letters -/
theorem bpIsCanonical_eq_model (p : BasePair3D) (c1 c2 : Char) (h : Letters p c1 c2) :
    bpIsCanonical p = Mapping.isCanonical (modelNts c1 c2) (modelPair p) := by
  unfold bpIsCanonical Mapping.isCanonical modelPair
  cases hs : p.saenger with
  | some s => simpa using saengerIsCanonical_bridge s
  | none =>
    simp only [nts_eq p c1 c2 h, Option.map_none]
    show _ = (Gen.mapCanonLw.contains (lwIdx p.lw) &&
      Gen.mapCanonLetters.contains (Mapping.sortedLetters c1 c2))
    generalize Mapping.sortedLetters c1 c2 = l
    obtain ⟨a, b⟩ := l
    have e : ∀ x y : Char, (String.ofList [a, b] == String.ofList [x, y]) = ((a, b) == (x, y)) := ofList_pair_beq a b
    have hAU : ("AU" : String) = String.ofList ['A', 'U'] := by decide
    have hAT : ("AT" : String) = String.ofList ['A', 'T'] := by decide
    have hCG : ("CG" : String) = String.ofList ['C', 'G'] := by decide
    have hGU : ("GU" : String) = String.ofList ['G', 'U'] := by decide
    rw [hAU, hAT, hCG, hGU, e, e, e, e]
    have f1 : (p.lw == LeontisWesthof.cWW) = Gen.mapCanonLw.contains (lwIdx p.lw) :=
      (by decide : ∀ m ∈ LeontisWesthof.all, (m == LeontisWesthof.cWW) = Gen.mapCanonLw.contains (lwIdx m)) _ p.lw.mem_all
    rw [f1]
    simp only [Gen.mapCanonLetters, List.contains_cons, List.contains_nil, Bool.or_false]

/-- non-vacuity: G–U cWW without Saenger class is canonical, G–A is not; with class XIX the letters do not matter -/
example : let r (l : String) : Residue3D := { label := none, auth := none, model := 1, one_letter_name := l, atoms := [], chi := none }
    let p (a b : String) (s : Option Saenger) : BasePair3D := ⟨⟨none, none⟩, ⟨none, none⟩, .cWW, s, r a, r b⟩
    Letters (p "u" "G" none) 'u' 'G' ∧ bpIsCanonical (p "u" "G" none) = true ∧ bpIsCanonical (p "G" "A" none) = false ∧
    bpIsCanonical (p "G" "A" (some .XIX)) = true := by
  refine ⟨⟨rfl, rfl, by decide, by decide⟩, ?_, ?_, ?_⟩ <;> decide

theorem pairScore_aux (p : BasePair3D) (c1 c2 : Char) (h : Letters p c1 c2) (sc : Option Nat → Char → Char → Nat)
    (hsc : ∀ sa lo hi, sc sa lo hi = match sa with
      | some s => if [18, 19].contains s then 0 else 1
      | none => if ([('A', 'U'), ('A', 'T'), ('C', 'G')] : List (Char × Char)).contains (lo, hi) then 0 else 1)
    (f : BasePair3D → Int × Residue × Residue)
    (hf : f p = (match p.saenger with
      | some s => if ([Saenger.XIX, Saenger.XX] : List Saenger).contains s then ((0 : Int), p.nt1, p.nt2) else ((1 : Int), p.nt1, p.nt2)
      | none => if (["AU", "AT", "CG"] : List String).contains
          (Py.join "" (Py.sortedStr [Py.upper p.nt1_3d.one_letter_name, Py.upper p.nt2_3d.one_letter_name]))
        then ((0 : Int), p.nt1, p.nt2) else ((1 : Int), p.nt1, p.nt2))) :
    f p = (modelScore sc p c1 c2, p.nt1, p.nt2) := by
  rw [hf]
  unfold modelScore
  rw [hsc]
  cases hs : p.saenger with
  | some s =>
    have := (by decide : ∀ s ∈ Saenger.all, ([Saenger.XIX, Saenger.XX] : List Saenger).contains s = [18, 19].contains (saIdx s)) s s.mem_all
    simp only [this, Option.map_some]
    split <;> rfl
  | none =>
    simp only [nts_eq p c1 c2 h, Option.map_none]
    generalize Mapping.sortedLetters c1 c2 = l
    obtain ⟨a, b⟩ := l
    have e : ∀ x y : Char, (String.ofList [a, b] == String.ofList [x, y]) = ((a, b) == (x, y)) := ofList_pair_beq a b
    have hAU : ("AU" : String) = String.ofList ['A', 'U'] := by decide
    have hAT : ("AT" : String) = String.ofList ['A', 'T'] := by decide
    have hCG : ("CG" : String) = String.ofList ['C', 'G'] := by decide
    simp only [List.contains_cons, List.contains_nil, Bool.or_false, hAU, hAT, hCG, e]
    split <;> rfl

/-- **`pair_scoring_function` of `Mapping2D3D.bpseq`** returns `(score, nt1, nt2)` with the score the regenerated
rule `Gen.mapPairScore1` gives — the value translator's reading of this function and the function translator's
agree for all inputs -/
theorem pairScoreBpseq_bridge (p : BasePair3D) (c1 c2 : Char) (h : Letters p c1 c2) :
    pairScoreBpseq p = (modelScore Gen.mapPairScore1 p c1 c2, p.nt1, p.nt2) := by
  apply pairScore_aux p c1 c2 h Gen.mapPairScore1 (fun sa lo hi => by unfold Gen.mapPairScore1; cases sa <;> rfl) pairScoreBpseq
  unfold pairScoreBpseq
  cases p.saenger <;> simp <;> (repeat' split) <;> simp_all

/-- **`pair_scoring_function` of `_generated_bpseq_data`** (the copy that decides which conflicting pair is removed):
the first component is the model's `Mapping.pairScore`, the other two are the residues unchanged -/
theorem pairScoreData_bridge (p : BasePair3D) (c1 c2 : Char) (h : Letters p c1 c2) :
    pairScoreData p = (((Mapping.pairScore (modelNts c1 c2) (modelPair p) : Nat) : Int), p.nt1, p.nt2) := by
  have := pairScore_aux p c1 c2 h Gen.mapPairScore2 (fun sa lo hi => by unfold Gen.mapPairScore2; cases sa <;> rfl) pairScoreData
    (by unfold pairScoreData; cases p.saenger <;> simp <;> (repeat' split) <;> simp_all)
  rw [this]; rfl

/-- both copies are the same function (on pairs of ASCII letters) -/
theorem pairScore_copies_agree (p : BasePair3D) (c1 c2 : Char) (h : Letters p c1 c2) : pairScoreBpseq p = pairScoreData p :=
  (pairScoreBpseq_bridge p c1 c2 h).trans
    (pairScore_aux p c1 c2 h Gen.mapPairScore1 (fun sa lo hi => by unfold Gen.mapPairScore1; cases sa <;> rfl) pairScoreData
      (by unfold pairScoreData; cases p.saenger <;> simp <;> (repeat' split) <;> simp_all)).symm

end RnaVerif.Props.C06Fn

import RnaVerif.Model.ElementsSpec
/-! # C07 — structural elements decompose the secondary structure consistently (property theorems) -/
namespace RnaVerif.Props.C07
open RnaVerif RnaVerif.SecStr

/-- sanity: the specification accepts the model's decomposition of a concrete knotted structure -/
theorem spec_example :
    let es : List Entry := [⟨1,'A',10⟩,⟨2,'C',9⟩,⟨3,'G',0⟩,⟨4,'U',0⟩,⟨5,'A',0⟩,⟨6,'C',0⟩,⟨7,'G',0⟩,⟨8,'U',0⟩,⟨9,'A',2⟩,⟨10,'C',1⟩]
    specAll es (elements es "((......))".toList).nums = "ok" := by decide

end RnaVerif.Props.C07

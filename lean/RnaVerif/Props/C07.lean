import RnaVerif.Model.ElementsSpec
import RnaVerif.Lemmas.ElementsFinal
/-! # C07 — structural elements decompose the secondary structure consistently (property theorems)

All statements are about the executable model `RnaVerif.SecStr.elements` (Model/Elements.lean),
which follows `BpSeq.elements` of `/repo/src/rnapolis/common.py` step by step and is tied to it by
the differential correspondence check; `specStems`, `specHairpins`, `specLoops`, `specCover`
(Model/ElementsSpec.lean) are the decidable clauses that the harness evaluates on the REAL code's
output.  Here they are proved for the model's output, for EVERY valid BPSEQ and every dot-bracket
line `db` (the hypothesis `db.length = es.length` of the informal statement is not needed: `db` only
feeds the `str` text of the strands).  Proofs live in `Lemmas/Elements*.lean`.
-/
namespace RnaVerif.Props.C07
open RnaVerif RnaVerif.SecStr

/-- sanity: the specification accepts the model's decomposition of a concrete knotted structure -/
theorem spec_example :
    let es : List Entry := [⟨1,'A',10⟩,⟨2,'C',9⟩,⟨3,'G',0⟩,⟨4,'U',0⟩,⟨5,'A',0⟩,⟨6,'C',0⟩,⟨7,'G',0⟩,⟨8,'U',0⟩,⟨9,'A',2⟩,⟨10,'C',1⟩]
    specAll es (elements es "((......))".toList).nums = "ok" := by decide

/-! ## running examples (used for non-vacuity and as kernel-checked TESTS) -/

/-- build a BPSEQ from a sequence and 0-based pairs (test helper) -/
def ofPairs (seq : String) (ps : List (Nat × Nat)) : List Entry := fromDB seq.toList ps

/-- three-way junction with a bulge: `((..((..))..(.(..)))).` -/
def exJunction : List Entry :=
  ofPairs "GGAAGGAACCAAGAGAACCCCA" [(0,20),(1,19),(4,9),(5,8),(12,18),(14,17)]
def exJunctionDb : List Char := "((..((..))..(.(..)))).".toList

/-- H-type pseudoknot with tails: `.((..[[..))..]].` -/
def exKnot : List Entry := ofPairs "AGGAACCAACCAAGGA" [(1,10),(2,9),(5,14),(6,13)]
def exKnotDb : List Char := ".((..[[..))..]].".toList

/-- isolated pairs, an internal loop and a zero-length hairpin: `(.(.()).).` -/
def exIsolated : List Entry := ofPairs "GAGAGCCACA" [(0,8),(2,6),(4,5)]
def exIsolatedDb : List Char := "(.(.()).).".toList

/-- no base pair at all -/
def exNoPairs : List Entry := ofPairs "ACGU" []

example : valid exJunction = true ∧ exJunctionDb.length = exJunction.length := by decide
example : valid exKnot = true ∧ exKnotDb.length = exKnot.length := by decide
example : valid exIsolated = true ∧ exIsolatedDb.length = exIsolated.length := by decide

/-! ### TESTS (finite evidence, *not* the theorems): the kernel evaluates the model and the
specification on concrete structures -/

/-- TEST: multi-branch loop + bulge: 4 stems, 2 hairpins, 2 loops (junction of 3 strands, bulge) -/
example : specAll exJunction (elements exJunction exJunctionDb).nums = "ok" ∧
    ((elements exJunction exJunctionDb).nums.stems.length,
     (elements exJunction exJunctionDb).nums.hairpins.length,
     (elements exJunction exJunctionDb).nums.loops.map List.length) = (4, 2, [3, 2]) := by
  decide

/-- TEST: pseudoknot: no chain of candidates closes, so all candidates stay single strands (the
two-nucleotide stem strands `(2,3)`, `(6,7)`, `(10,11)`, `(14,15)` are candidates with an empty
interior: their 2-cycles close but are dropped by the "all strands short" filter) -/
example : specAll exKnot (elements exKnot exKnotDb).nums = "ok" ∧
    (elements exKnot exKnotDb).nums.loops = [] ∧
    (elements exKnot exKnotDb).nums.singles =
      [(1, 2, 5), (15, 16, 3), (2, 3, 0), (3, 6, 0), (6, 7, 0), (7, 10, 0), (10, 11, 0), (11, 14, 0),
       (14, 15, 0)] := by
  decide

/-- TEST: isolated pairs and a zero-length hairpin -/
example : specAll exIsolated (elements exIsolated exIsolatedDb).nums = "ok" ∧
    (elements exIsolated exIsolatedDb).nums.hairpins = [(5, 6)] ∧
    (elements exIsolated exIsolatedDb).nums.loops = [[(1, 3), (7, 9)], [(3, 5), (6, 7)]] := by
  decide

/-- TEST: no base pairs: one single strand (kind 53) covering everything -/
example : specAll exNoPairs (elements exNoPairs "....".toList).nums = "ok" ∧
    (elements exNoPairs "....".toList).nums.singles = [(1, 4, 53)] := by decide

/-! ## 1. stems -/

/-- **stems_spec**: for every valid BPSEQ the stems of the model are mirrored runs of directly
stacked pairs (`partner (f5+t) = l3-t` and back, equal strand lengths, 5' strand before 3' strand),
every 5'→3' pair lies in exactly one stem, and no stem is directly stacked on another
(maximality of the runs) -/
theorem stems_spec (es : List Entry) (db : List Char) (hv : valid es = true) :
    specStems es (elements es db).nums = true :=
  specStems_model ((SecStr.valid_iff es).mp hv) db

example : valid exJunction = true ∧ (elements exJunction exJunctionDb).nums.stems.length = 4 := by
  decide

/-- the numbers of the stems are a function of the regions `(i, j, len)` of `BpSeq.__regions`:
5' strand `[i, i+len-1]`, 3' strand `[j-len+1, j]` — in particular the 3' strand, which the code
finds by filtering *all* entries for partners of the 5' strand, is the contiguous mirrored run -/
theorem stems_are_regions (es : List Entry) (db : List Char) (hv : valid es = true)
    (hne : (stemsEntries es).isEmpty = false) :
    (elements es db).nums.stems =
      (regions es).map (fun r => (r.i, r.i + r.len - 1, r.j - r.len + 1, r.j)) :=
  nums_stems_eq ((SecStr.valid_iff es).mp hv) db hne

example : valid exKnot = true ∧ (stemsEntries exKnot).isEmpty = false := by decide

/-! ## 2. hairpins -/

/-- **hairpins_spec**: every reported hairpin `(i, j)` has `i < j`, `partner i = j` and only unpaired
nucleotides strictly between; every 5'→3' pair enclosing only unpaired nucleotides is reported;
no hairpin is reported twice -/
theorem hairpins_spec (es : List Entry) (db : List Char) (hv : valid es = true) :
    specHairpins es (elements es db).nums = true :=
  specHairpins_model ((SecStr.valid_iff es).mp hv) db

example : valid exIsolated = true ∧ (elements exIsolated exIsolatedDb).nums.hairpins = [(5, 6)] := by
  decide

/-- **hairpins_exact**: `(i, j)` is reported as a hairpin iff `i < j`, `i` and `j` are paired with
each other and everything strictly between is unpaired (`1 ≤ i`: positions are 1-based) -/
theorem hairpins_exact (es : List Entry) (db : List Char) (hv : valid es = true) (i j : Nat)
    (hi : 1 ≤ i) :
    (i, j) ∈ (elements es db).nums.hairpins ↔
      i < j ∧ partnerOf es i = j ∧ unpairedBetween es i j = true := by
  have v := (SecStr.valid_iff es).mp hv
  have hs := specHairpins_model v db
  unfold specHairpins at hs
  simp only [Bool.and_eq_true, List.all_eq_true] at hs
  obtain ⟨⟨h1, h2⟩, _⟩ := hs
  constructor
  · intro hm
    have := h1 (i, j) hm
    simp only [decide_eq_true_eq, beq_iff_eq] at this
    exact ⟨this.1.1, this.1.2, this.2⟩
  · rintro ⟨hij, hp, hu⟩
    obtain ⟨_, _, _, hil, _⟩ := partnerOf_symm v hi hp (by omega)
    have hk : i - 1 < es.length := by omega
    have hidx : es[i - 1].idx = i := by rw [v.idx_get _ hk]; omega
    have hpr : es[i - 1].pair = j := by
      have := partnerOf_eq hk
      rw [show i - 1 + 1 = i by omega, hp] at this
      exact this.symm
    have hm : es[i - 1] ∈ paired5to3 es :=
      mem_paired5to3.mpr ⟨List.getElem_mem hk, by omega, by omega⟩
    have := h2 _ hm
    rw [hidx, hpr, hu] at this
    simpa using this

example : valid exJunction = true ∧ (6, 9) ∈ (elements exJunction exJunctionDb).nums.hairpins := by
  decide

/-! ## 3. stops and the intervals between them -/

/-- **candidates_tile**: the stop list of the model (0-based ends of all stem strands, sorted, without
repetition) is strictly increasing; every stop is a paired position; every paired position lies
between two stops; a non-stop position strictly between the first and the last stop lies strictly
inside exactly one interval of consecutive stops; and the interior of every such interval is either
all unpaired (hairpin or loop candidate) or all paired (inside a stem strand — dropped) -/
theorem candidates_tile (es : List Entry) (db : List Char) (hv : valid es = true) :
    (stopsOf es db).Pairwise (· < ·) ∧
    (∀ x ∈ stopsOf es db, x < es.length ∧ partnerOf es (x + 1) ≠ 0) ∧
    (∀ p, partnerOf es (p + 1) ≠ 0 →
      ∃ f l, f ∈ stopsOf es db ∧ l ∈ stopsOf es db ∧ f ≤ p ∧ p ≤ l) ∧
    (∀ p, p ∉ stopsOf es db → (stopsOf es db).headD 0 < p → p < (stopsOf es db).getLastD 0 →
      ((consec (stopsOf es db)).filter (fun ab => decide (ab.1 < p) && decide (p < ab.2))).length = 1) ∧
    (∀ a b, (a, b) ∈ consec (stopsOf es db) →
      (∀ k, a < k → k < b → partnerOf es (k + 1) = 0) ∨
      (∀ k, a < k → k < b → partnerOf es (k + 1) ≠ 0)) := by
  have v := (SecStr.valid_iff es).mp hv
  refine ⟨stopsOf_sorted es db, fun x hx => stop_paired v db hx, ?_, ?_, fun a b h => interval_uniform v db h⟩
  · intro p hp
    obtain ⟨f, l, hf, hl, h1, h2, _⟩ := paired_between_stops v db hp
    exact ⟨f, l, hf, hl, h1, h2⟩
  · intro p hp h1 h2
    rw [consec_count (stopsOf_sorted es db) hp, if_pos ⟨h1, h2⟩]

example : valid exJunction = true ∧ stopsOf exJunction exJunctionDb = [0, 1, 4, 5, 8, 9, 12, 14, 17, 18, 19, 20] := by
  decide

/-- the stops are exactly the 0-based ends of the four strand ends of every region -/
theorem stops_are_strand_ends (es : List Entry) (db : List Char) (hv : valid es = true) (x : Nat) :
    x ∈ stopsOf es db ↔ ∃ r ∈ regions es,
      x = r.i - 1 ∨ x = r.i + r.len - 1 - 1 ∨ x = r.j - r.len + 1 - 1 ∨ x = r.j - 1 :=
  mem_stopsOf ((SecStr.valid_iff es).mp hv) db

example : valid exKnot = true ∧ (regions exKnot).length = 2 := by decide

/-! ## 4. loops -/

/-- **loops_spec**: every reported loop has at least two strands; every strand has `first < last`
and an unpaired interior; the last nucleotide of each strand is paired with the first nucleotide of
the next; and the first nucleotide of the first strand is paired with the last of the last strand -/
theorem loops_spec (es : List Entry) (db : List Char) (hv : valid es = true) :
    specLoops es (elements es db).nums = true :=
  specLoops_model ((SecStr.valid_iff es).mp hv) db

example : valid exJunction = true ∧
    (elements exJunction exJunctionDb).nums.loops = [[(2, 5), (10, 13), (19, 20)], [(13, 15), (18, 19)]] := by
  decide

/-! ## 5. cover -/

/-- **cover_spec**: every unpaired nucleotide lies in the interior of exactly one single strand,
hairpin or loop strand (tails: the interior excludes the paired end only) -/
theorem cover_spec (es : List Entry) (db : List Char) (hv : valid es = true) :
    specCover es (elements es db).nums = true :=
  specCover_model ((SecStr.valid_iff es).mp hv) db

example : valid exKnot = true ∧ (exKnot.filter (fun e => e.pair == 0)).length = 8 := by decide

/-- the full statement (kept visible; it is the theorem `cover_spec` above) -/
def cover_spec_full : Prop :=
  ∀ es db, valid es = true → db.length = es.length → specCover es (elements es db).nums = true

theorem cover_spec_full_holds : cover_spec_full := fun es db hv _ => cover_spec es db hv

/-- Prop-level reading of `cover_spec`: for every unpaired entry exactly one of the listed
interiors contains its index -/
theorem unpaired_covered_once (es : List Entry) (db : List Char) (hv : valid es = true) :
    ∀ e ∈ es, e.pair = 0 →
      ((interiors (elements es db).nums).filter
        (fun q => decide (q.1 ≤ e.idx) && decide (e.idx ≤ q.2))).length = 1 :=
  (specCover_iff es _).mp (cover_spec es db hv)

example : valid exIsolated = true ∧ ∃ e ∈ exIsolated, e.pair = 0 := by decide

/-- the successor relation used for chain following is injective in both directions among the
candidates (candidates have pairwise different first nucleotides), and no candidate is reported
twice: the strands of all reported loops are pairwise different candidates, and `used` is exactly
their concatenation -/
theorem loops_disjoint (es : List Entry) (db : List Char) (hv : valid es = true) :
    (chainFold es (candsOf es db)).1.flatten.Nodup ∧
    (chainFold es (candsOf es db)).2 = (chainFold es (candsOf es db)).1.flatten ∧
    (∀ l ∈ (chainFold es (candsOf es db)).1, ∀ c ∈ l, c ∈ candsOf es db) ∧
    (candsOf es db).Nodup := by
  have v := (SecStr.valid_iff es).mp hv
  have hc := candsOf_ok v db
  have inv := chainFold_inv v hc
  exact ⟨inv.nodup, inv.used_eq, inv.sub, hc.nodup⟩

example : valid exJunction = true ∧ (candsOf exJunction exJunctionDb).length = 9 := by decide

/-! ## 6. strand texts -/

/-- **strand_text_is_slice**: for every strand of every element of the model (both strands of every
stem, single strands, hairpins, loop strands), the sequence text is the slice `[first-1, last)` of
the sequence and the structure text is the same slice of the dot-bracket line -/
theorem strand_text_is_slice (es : List Entry) (db : List Char) (hv : valid es = true) :
    ∀ s ∈ (elements es db).allStrands,
      s.seq = slice (sequence es) (s.first - 1) s.last ∧ s.str = slice db (s.first - 1) s.last :=
  strand_text_model ((SecStr.valid_iff es).mp hv) db

example : valid exJunction = true ∧ (elements exJunction exJunctionDb).allStrands.length = 20 := by
  decide

/-! ## 7. all clauses -/

/-- **elements_meet_spec**: the model's decomposition of every valid BPSEQ satisfies the whole
specification that the harness evaluates on the real code's output -/
theorem elements_meet_spec (es : List Entry) (db : List Char) (hv : valid es = true)
    (_hdb : db.length = es.length) : specAll es (elements es db).nums = "ok" :=
  specAll_model ((SecStr.valid_iff es).mp hv) db

example : valid exKnot = true ∧ exKnotDb.length = exKnot.length := by decide

end RnaVerif.Props.C07

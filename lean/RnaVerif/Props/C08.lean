import RnaVerif.Model.PdbV1
import RnaVerif.Lemmas.PdbV1
import RnaVerif.Lemmas.PdbV1Spec
import RnaVerif.Lemmas.PdbV1Text
/-! # C08 — structure reading preserves atoms, residue identity and the requested model

All statements are about the executable model `RnaVerif.PdbV1` (Model/PdbV1.lean): the pipeline
`parse → filterDup → filterClash → selectModel → group` of `rnapolis.parser`, tied to
`/repo/src/rnapolis/parser.py` by the regenerated `RnaVerif.Gen.Parser` (column slices, record names,
clash distance, de-duplication key, mmCIF attribute names and null markers, and the three switches
`codeCfg` in which a repaired reader differs from the reader as first found) and by the differential
correspondence check `harness/corr/c08.py`.  Proofs live in `Lemmas/PdbV1*.lean` (core Lean only).

The property demands the model number inside the de-duplication key and a clash filter that works
per model (`cfgFixed`); the reader as first found (`cfgLegacy`) has neither.  The theorems are stated
for an arbitrary configuration where they hold for every configuration, for `cfgFixed` where they
need it; `C08_full` is the whole statement, `not_full_*` are the counter-examples for each missing
switch, and `present_code_verdict` says which side of the line the present source is on.
-/
namespace RnaVerif.Props.C08
open RnaVerif RnaVerif.PdbV1

/-! ## bridges to the regenerated values -/

/-- bridge: the column slices of `parse_pdb` are the published PDB columns (0-based, half open):
name 13-16, residue 18-20, chain 22, number 23-26, insertion code 27, x y z 31-54, occupancy 55-60,
model number 11-14; the record names tested, in order; a blank insertion code means "none" -/
theorem columns_bridge :
    Gen.Parser.pdbAtomName = (12, 16) ∧ Gen.Parser.pdbResName = (17, 20) ∧ Gen.Parser.pdbChain = (21, 22) ∧
    Gen.Parser.pdbResNum = (22, 26) ∧ Gen.Parser.pdbIcode = (26, 27) ∧ Gen.Parser.pdbX = (30, 38) ∧
    Gen.Parser.pdbY = (38, 46) ∧ Gen.Parser.pdbZ = (46, 54) ∧ Gen.Parser.pdbOcc = (54, 60) ∧
    Gen.Parser.pdbModelNum = (10, 14) ∧ Gen.Parser.pdbRecordTests = ["MODEL", "ATOM", "HETATM", "MODRES"] ∧
    Gen.Parser.pdbIcodeBlank = " " ∧ Gen.Parser.pdbChainIsIndex = true ∧ Gen.Parser.pdbIcodeIsIndex = true := by decide

/-- bridge: the clash distance is the 0.5 Å of the property statement -/
theorem clash_bridge :
    Gen.Parser.clashDistance = (1 / 2 : Rat) ∧ Gen.Parser.clashNum = 1 ∧ Gen.Parser.clashDen = 2 ∧
    Gen.Parser.clashDistance = (Gen.Parser.clashNum : Rat) / (Gen.Parser.clashDen : Rat) :=
  ⟨rfl, rfl, rfl, by rfl⟩

/-- bridge: `closeB u` (coordinates in units of `1/u` Å) is "distance ≤ ½ Å": `4·d² ≤ u²` -/
theorem closeB_iff (u : Nat) (a b : Tok) : closeB u a b = true ↔ 4 * dist2 a b ≤ ((u * u : Nat) : Int) := by
  simp [closeB, clashNum, clashDen, Gen.Parser.clashNum, Gen.Parser.clashDen]

/-- bridge: the de-duplication key is made of the residue identity (label, auth), the atom name and
possibly the model — nothing else -/
theorem key_bridge :
    (∀ f ∈ Gen.Parser.dedupKey, f ∈ ["model", "label", "auth", "name"]) ∧
    "label" ∈ Gen.Parser.dedupKey ∧ "auth" ∈ Gen.Parser.dedupKey ∧ "name" ∈ Gen.Parser.dedupKey := by decide

/-- bridge: `parse_cif` reads exactly the `_atom_site` items the model's row decoder reads -/
theorem cif_attrs_bridge :
    (∀ a ∈ Gen.Parser.cifAttrs, a ∈ cifAttrsRead) ∧ (∀ a ∈ cifAttrsRead, a ∈ Gen.Parser.cifAttrs) ∧
    Gen.Parser.cifModelDefault = "1" := by decide

/-! ## 1. model selection -/

/-- **select_only_requested**: every atom that is returned carries the target model number, and
when some atom of the (filtered) table has the requested number, the target is the requested one -/
theorem select_only_requested (req : Option Int) (l : List Tok) :
    (∀ m, targetModel req l = some m → ∀ a ∈ selectModel req l, a.model = m) ∧
    (∀ r, req = some r → (∃ t ∈ l, t.model = r) → targetModel req l = some r) :=
  ⟨fun _ h _ ha => select_only h ha, fun _ hr ht => target_requested hr ht⟩

example : (∃ t ∈ [exA1, exA2], t.model = 2) ∧ selectModel (some 2) [exA1, exA2] = [exA2] := by decide

/-- **select_default_first**: without a request (or with a request for an absent model) the atoms
of the model of the first atom are returned -/
theorem select_default_first (a : Tok) (l : List Tok) :
    selectModel none (a :: l) = (a :: l).filter (fun t => t.model == a.model) ∧
    (∀ r, (∀ t ∈ a :: l, t.model ≠ r) →
      selectModel (some r) (a :: l) = (a :: l).filter (fun t => t.model == a.model)) :=
  ⟨select_default a l, fun r h => select_absent a l r h⟩

example : ∀ t ∈ [exA1, exA2], t.model ≠ 7 := by decide

/-! ## 2. de-duplication -/

/-- **dup_keeps_max_occupancy_first**: for every record `a` of the table, the de-duplicated list
contains exactly one record with `a`'s key; in the file-order list of `a`'s copies that record
comes after only strictly lower occupancies and before only lower-or-equal ones (the first of the
copies of highest occupancy). -/
theorem dup_keeps_max_occupancy_first (cfg : Cfg) {l r : List Tok} (h : filterDup cfg l = .ok r) {a : Tok}
    (ha : a ∈ l) :
    ∃ pre w post, l.filter (sameKey cfg a) = pre ++ w :: post ∧ r.filter (sameKey cfg a) = [w] ∧
      (∀ b ∈ pre, occv b < occv w) ∧ (∀ b ∈ post, occv b ≤ occv w) := by
  rw [filterDup_ok h]; exact dedup_winner cfg ha

example : filterDup cfgFixed [exP30, exC, exP70] = .ok [exP70, exC] ∧ exP30 ∈ [exP30, exC, exP70] := by
  refine ⟨?_, by decide⟩; rw [← isOk_iff]; decide

/-- the loop raises only where the real one does (`None > x`), and never when it is `None`-safe -/
theorem dup_no_error (cfg : Cfg) (hs : cfg.noneSafe = true) (l : List Tok) : filterDup cfg l = .ok (dedup cfg l) :=
  filterDup_safe hs l

/-! ## 3. clash filter -/

/-- **clash_survivor**: no two survivors clash (both with an occupancy, within ½ Å, and — per model —
of the same model); and against a clashing record of the table a survivor has the occupancy that
is not lower. -/
theorem clash_survivor (cfg : Cfg) (u : Nat) {l r : List Tok} (h : filterClash cfg u l = .ok r) :
    r.Pairwise (fun a b => clashes cfg u a b = false) ∧
    (∀ a ∈ r, ∀ b ∈ l, b ≠ a → clashes cfg u a b = true → b ∉ r ∧ occv b ≤ occv a) := by
  obtain ⟨_, rfl⟩ := filterClash_ok h
  exact ⟨aux_pairwise cfg u [] l, fun a ha b hb hne hc => survivor_outranks ha hb hne hc⟩

example : filterClash cfgFixed 1000 [exP30, exQ70] = .ok [exQ70] ∧ clashes cfgFixed 1000 exQ70 exP30 = true := by
  refine ⟨?_, by decide⟩; rw [← isOk_iff]; decide

/-! ## 4. nothing is invented or reordered -/

/-- **kept_is_sublist**: the clash filter and the model selection only delete records (file order
and every field untouched); de-duplication keeps records of the table, with distinct keys, in
the file order of the first occurrence of each key. -/
theorem kept_is_sublist (cfg : Cfg) (u : Nat) (req : Option Int) {l d c : List Tok}
    (hd : filterDup cfg l = .ok d) (hc : filterClash cfg u d = .ok c) :
    (selectModel req c).Sublist d ∧ (∀ a ∈ d, a ∈ l) ∧ d.Nodup ∧ (d.map (key cfg)).Sublist (l.map (key cfg)) := by
  obtain ⟨_, rfl⟩ := filterClash_ok hc
  rw [filterDup_ok hd]
  exact ⟨(selectModel_sublist _ _).trans (aux_sublist _ _ _ _), fun _ h => dedup_mem h,
    (dedup_distinct cfg l).nodup, (inv_dedup cfg l).keys⟩

example : filterDup cfgFixed [exP30, exC, exP70] = .ok [exP70, exC] ∧
    filterClash cfgFixed 1000 [exP70, exC] = .ok [exP70, exC] := by
  constructor <;> (rw [← isOk_iff]; decide)

/-- **no_atom_lost**: with the model in the key and the clash filter per model, a record of the
target model whose (model, residue, name) key occurs once and which has no other record of its model
within ½ Å is returned. -/
theorem no_atom_lost (u : Nat) (req : Option Int) {p s : List Tok} {a : Tok} {r : List (List Tok)}
    (hw : FirstModelLeads (p ++ a :: s))
    (h : read cfgFixed u req (p ++ a :: s) = .ok r)
    (hm : targetModel req (p ++ a :: s) = some a.model)
    (hkey : ∀ b ∈ p ++ s, sameKey cfgFixed a b = false)
    (hfar : ∀ b ∈ p ++ s, b.model = a.model → closeB u a b = false) :
    a ∈ r.flatten :=
  no_atom_lost_fixed hw h hm hkey hfar

example : FirstModelLeads ([exP30] ++ exC :: [exA2]) ∧
    read cfgFixed 1000 none ([exP30] ++ exC :: [exA2]) = .ok [[exP30, exC]] ∧
    targetModel none ([exP30] ++ exC :: [exA2]) = some exC.model ∧
    (∀ b ∈ [exP30] ++ [exA2], sameKey cfgFixed exC b = false) ∧
    (∀ b ∈ [exP30] ++ [exA2], b.model = exC.model → closeB 1000 exC b = false) := by
  refine ⟨⟨exP30, [exC], [exA2], rfl, by decide, by decide⟩, ?_, by decide, by decide, by decide⟩
  rw [← isOk_iff]; decide

/-! ## 5. grouping -/

/-- **group_preserves_order_and_fields**: concatenating the residues gives back the atom list
(order and fields untouched); every residue is a non-empty run of one `(label, auth, model)`
identity, and neighbouring residues differ in it. -/
theorem group_preserves_order_and_fields (l : List Tok) :
    (group l).flatten = l ∧ (group l).all groupOk = true ∧ adjDiffer (group l) = true :=
  ⟨group_flatten l, (group_ok l).1, (group_ok l).2⟩

/-! ## 6. the whole statement -/

/-- well-formedness used below: the table is non-empty and the records of the model of its first
record form a prefix (PDB: MODEL…ENDMDL blocks; mmCIF: rows sorted by model number) -/
theorem firstModelLeads_iff (l : List Tok) :
    FirstModelLeads l ↔ ∃ a l1 l2, l = a :: l1 ++ l2 ∧ (∀ t ∈ l1, t.model = a.model) ∧ (∀ t ∈ l2, t.model ≠ a.model) :=
  Iff.rfl

/-- **C08 in full** for a reader configuration: on every well-formed table, for every request, the
reader returns residues, and they satisfy every clause of the specification predicate `spec`
(requested model only — the requested one when present, else the first; records of the file with
all fields untouched; no atom twice; highest occupancy among copies; no clashing pair kept;
nothing lost without a copy or a neighbour within ½ Å that outranks it; residues are runs of one
identity; residue identities in file order). -/
def C08_full (cfg : Cfg) : Prop :=
  ∀ (u : Nat) (req : Option Int) (l : List Tok), FirstModelLeads l →
    ∃ r, read cfg u req l = .ok r ∧ (spec u req l r).ok = true

/-- the repaired pipeline (model in the key, clash filter per model, `None`-safe comparison)
satisfies the whole statement -/
theorem full_of_fixed : C08_full cfgFixed := full_fixed

example : FirstModelLeads [exA1, exA2] := lead_A

/-- in particular: asking for a model that is present returns that model's atoms and only them -/
theorem requested_model_returned (u : Nat) (r : Int) {l : List Tok} (hw : FirstModelLeads l) (hr : ∃ t ∈ l, t.model = r) :
    ∃ res, read cfgFixed u (some r) l = .ok res ∧ (∀ a ∈ res.flatten, a.model = r) ∧
      (spec u (some r) l res).ok = true := by
  obtain ⟨res, h1, h2⟩ := full_fixed u (some r) l hw
  refine ⟨res, h1, ?_, h2⟩
  have ht := target_requested rfl hr
  have : (spec u (some r) l res).onlyModel = true := by
    simp only [SpecReport.ok, Bool.and_eq_true] at h2; exact h2.1.1.1.1.1.1.1
  simp only [spec, ht, List.all_eq_true, beq_iff_eq] at this
  exact this

example : FirstModelLeads [exA1, exA2] ∧ ∃ t ∈ [exA1, exA2], t.model = 2 := ⟨lead_A, by decide⟩

/-- counter-example, key without the model: two models sharing the identity `A.G1 P`; asking for
model 2 returns the atom of model 1 -/
theorem not_full_without_model_key (cfg : Cfg) (h : cfg.keyModel = false) : ¬ C08_full cfg :=
  not_full_keyModel cfg h

/-- counter-example, clash filter across models: an atom of model 1 is deleted because an atom of
model 2 lies 0.1 Å away -/
theorem not_full_without_per_model_clash (cfg : Cfg) (h : cfg.clashPerModel = false) : ¬ C08_full cfg :=
  not_full_clashPerModel cfg h

/-- counter-example, comparison not `None`-safe: two copies without occupancy raise `TypeError` -/
theorem not_full_without_none_safe (cfg : Cfg) (h : cfg.noneSafe = false) : ¬ C08_full cfg :=
  not_full_noneSafe cfg h

/-- the reader as first found violates the statement (concrete run: request model 2, get model 1) -/
theorem legacy_returns_other_model :
    read cfgLegacy 1000 (some 2) [exA1, exA2] = .ok [[exA1]] ∧ exA1.model = 1 ∧
    (spec 1000 (some 2) [exA1, exA2] [[exA1]]).onlyModel = false := by
  refine ⟨?_, by decide, by decide⟩; rw [← isOk_iff]; decide

/-- **which side the present source is on**: either it has all three switches and then satisfies
the whole statement, or it lacks one and then violates it -/
theorem present_code_verdict :
    (codeCfg = cfgFixed ∧ C08_full codeCfg) ∨ (codeCfg ≠ cfgFixed ∧ ¬ C08_full codeCfg) :=
  verdict codeCfg

/-- `_partial` (what remains true of *every* configuration, in particular of the reader as first
found): on a table with a single model, whenever the reader does not raise, its result satisfies
every clause of the specification -/
theorem single_model_partial (cfg : Cfg) (u : Nat) (req : Option Int) {l : List Tok} {m : Int}
    (hl : l ≠ []) (hm : ∀ t ∈ l, t.model = m) {r : List (List Tok)} (h : read cfg u req l = .ok r) :
    (spec u req l r).ok = true :=
  single_model_spec cfg u req hl hm h

example : [exP30, exC, exP70] ≠ [] ∧ (∀ t ∈ [exP30, exC, exP70], t.model = 1) ∧
    read cfgLegacy 1000 none [exP30, exC, exP70] = .ok [[exP70, exC]] := by
  refine ⟨by decide, by decide, ?_⟩; rw [← isOk_iff]; decide

/-! ## 7. text level -/

/-- **column slicer**: on a line made of the published fixed-width fields, `parseLineV1` hands
exactly those fields to `int()` / `float()` / `strip()` -/
theorem parseAtomV1_fields (cur : Int) (f : PdbFields) (hw : f.WellSized) :
    parseLineV1 cur f.line = f.expected cur :=
  parseLine_fields cur f hw

/-- concrete well-formed lines: negative residue number with insertion code, negative
coordinates, four-character name, HETATM -/
theorem parseAtomV1_examples :
    parseLineV1 3 "ATOM      1  P     G A  -1A     11.000  -2.000  -3.500  0.50  0.00\n".toList =
      .ok (.atom { model := 3, entity := none, label := none, auth := some ⟨"A", -1, some "A", "G"⟩, name := "P",
                   alt := "", occ := some ⟨50, 2⟩, x := ⟨11000, 3⟩, y := ⟨-2000, 3⟩, z := ⟨-3500, 3⟩, het := false }) ∧
    parseLineV1 1 "HETATM 1234 HO5'APSU B-999    -999.9999999.999   0.001  1.00 10.00\n".toList =
      .ok (.atom { model := 1, entity := none, label := none, auth := some ⟨"B", -999, none, "PSU"⟩, name := "HO5'",
                   alt := "", occ := some ⟨100, 2⟩, x := ⟨-999999, 3⟩, y := ⟨9999999, 3⟩, z := ⟨1, 3⟩, het := true }) ∧
    parseLineV1 1 "MODEL       12\n".toList = .ok (.model 12) ∧
    parseLineV1 1 "TER\n".toList = .ok .skip := by
  refine ⟨?_, ?_, ?_, ?_⟩ <;> (rw [← isOk_iff]; decide)

/-- round trip with the model's own emitter on concrete records within the PDB limits -/
theorem parse_format_examples :
    ∀ a ∈ exAtoms, parseLineV1 a.model (formatAtom a) = .ok (.atom a.raw) := by
  intro a ha
  rw [← isOk_iff]
  revert a
  decide

/-! ## 8. mmCIF rows -/

/-- with both null markers recognised, a row written with either marker for the insertion code and
the occupancy decodes to a record without insertion code and without occupancy -/
theorem cif_null_markers (mi mo : String) (hi : mi = "?" ∨ mi = ".") (ho : mo = "?" ∨ mo = ".") :
    decodeCifRow ["?", "."] ["?", "."] false (exRow mi mo) = .ok (some exRowTok) := by
  rcases hi with rfl | rfl <;> rcases ho with rfl | rfl <;> (rw [← isOk_iff]; decide)

/-- the decoder as first found (`?` only for the insertion code, `.` only for the occupancy): a `.`
insertion code is kept literally and a `?` occupancy raises `ValueError` -/
theorem cif_null_markers_legacy :
    decodeCifRow ["?"] ["."] false (exRow "." ".") =
      .ok (some { exRowTok with auth := some ⟨"A", 2, some ".", "G"⟩ }) ∧
    decodeCifRow ["?"] ["."] false (exRow "?" "?") = .error .valueError := by
  constructor
  · rw [← isOk_iff]; decide
  · rw [← isErr_iff]; decide

end RnaVerif.Props.C08

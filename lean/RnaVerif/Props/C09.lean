import RnaVerif.Lemmas.PdbDoc
import RnaVerif.Lemmas.PdbCif
import RnaVerif.Lemmas.PdbTer
/-!
# C09 — PDB/mmCIF write–read round trips preserve every atom field (property theorems)

Objects: `Pdb.Atom` (16 fields, fixed-point numbers), `Pdb.formatAtom` / `formatTer` / `writePdb`
(= `_format_pdb_atom_line` / `write_pdb`), `Pdb.parseAtomV2` / `parsePdb` (= `parse_pdb_atoms`),
`Pdb.toCifRow` / `ofCifRow` (= row maps of `write_cif` / `parse_cif_atoms` typing / `write_pdb` on mmCIF rows);
all parameterised by `Gen.ParserV2` (regenerated from `parser_v2.py` on every run).

ASSUMPTION (validated by the differential run, not proved): the model's fixed-point numbers print as Python's
`f"{v:8.3f}"` / `f"{v:6.2f}"` / `f"{v:.3f}"` print the double nearest to `k/1000` (`k/100`), and `pd.to_numeric`
reads that text back as that double; pandas dtype coercions are the identity on well-typed values; the
`mmcif` package writes and reads token tables faithfully.

Two parts of the statement were FALSE of the code this framework was built against:
 1. `write_pdb` wrote no TER in front of the ENDMDL of every model but the last;
 2. `write_cif` copied the PDB charge text (`2+`) into the integer column `pdbx_formal_charge`, which
    `parse_cif_atoms` coerces to missing.
Both behaviours are read off the source on every run (`Gen.ParserV2.terBeforeEndmdl`, `cifChargeSigned`); the
model follows the source.  For the old behaviour the full statements stay visible with proved counter-examples
(`writePdbOld_structure_full`, `pdb_cif_pdb_full`, `cif_pdb_cif_full`) next to the `…_partial` theorems; the
theorems about the source as it is now (`writePdb_structure`, `pdb_cif_pdb_roundtrip`, `cif_pdb_cif_roundtrip`) check
exactly while the source has the corrected behaviour (otherwise their `decide` on the flag fails = broken
obligation, and the correspondence run produces the failing input).
-/
namespace RnaVerif.Props.C09
open RnaVerif RnaVerif.Pdb RnaVerif.Gen

/-! ## Bridges: generated values = what the statement pins -/

/-- the wwPDB ATOM/HETATM record: 1-based inclusive columns (the "80-column fixed layout") -/
def pdbLayout : List (Field × Nat × Nat) :=
  [(.record, 1, 6), (.serial, 7, 11), (.name, 13, 16), (.altLoc, 17, 17), (.resName, 18, 20),
   (.chain, 22, 22), (.resSeq, 23, 26), (.iCode, 27, 27), (.x, 31, 38), (.y, 39, 46), (.z, 47, 54),
   (.occ, 55, 60), (.b, 61, 66), (.element, 77, 78), (.charge, 79, 80)]

/-- nominal width of a rendered field -/
def fmtWidth : Fmt → Nat
  | .text _ w _ _ => w
  | .int _ w => w
  | .fixed w _ => w
  | .atomName _ w => w
  | .charge _ w => w

/-- half-open column range every field occupies in the writer's f-string template -/
def writerOffsets (fmts : List (Field × Fmt)) : Nat → List Piece → List (Field × Nat × Nat)
  | _, [] => []
  | off, .lit s :: rest => writerOffsets fmts (off + s.length) rest
  | off, .fld f :: rest =>
    let w := ((fmts.lookup f).map fmtWidth).getD 0
    (f, off, off + w) :: writerOffsets fmts (off + w) rest

/-- the reader's slices are the PDB layout -/
theorem reader_slices_are_pdb_layout :
    ParserV2.readerSlices = pdbLayout.map (fun p => (p.1, p.2.1 - 1, p.2.2)) := by decide

/-- the writer puts every field where the reader looks for it -/
theorem writer_offsets_are_reader_slices :
    writerOffsets ParserV2.writerFmt 0 ParserV2.lineTemplate = ParserV2.readerSlices := by decide

/-- TER: serial, residue name, chain, number start at the columns of the ATOM record -/
theorem ter_offsets :
    (writerOffsets [(.serial, .int .right 5), (.resName, .text .right 3 none true), (.chain, .text .left 1 none false),
        (.resSeq, .int .right 4), (.iCode, .text .left 1 none false)] 0 ParserV2.terTemplate).map (fun p => (p.1, p.2.1)) =
    [(.serial, 6), (.resName, 17), (.chain, 21), (.resSeq, 22), (.iCode, 26)] ∧
    ParserV2.terFmt = [(.serial, .int .right 5), (.resName, .text .right 3 none true),
        (.chain, .text .left 0 none false), (.resSeq, .int .right 4), (.iCode, .text .left 0 none false)] := by decide

theorem widths_and_limits :
    ParserV2.lineWidth = 80 ∧ ParserV2.terWidth = 80 ∧ ParserV2.maxSerial = 99999 ∧ ParserV2.maxResSeq = 9999 ∧
    ParserV2.recordNames = [['A', 'T', 'O', 'M'], ['H', 'E', 'T', 'A', 'T', 'M']] := by decide

/-- the MODEL record: the number is written where it is read -/
theorem model_record_layout :
    ParserV2.modelSlice = (ParserV2.modelPrefix.length, ParserV2.modelPrefix.length + ParserV2.modelWidth) ∧
    ParserV2.modelPrefix.take 5 = ['M', 'O', 'D', 'E', 'L'] := by decide

/-- mmCIF: one source per attribute; the column `write_pdb` prefers for a field is written from that field;
every null marker written is a null marker read -/
theorem cif_columns_and_markers :
    ParserV2.cifAttributes.length = ParserV2.cifSources.length ∧
    (Field.all.all fun f =>
      match (ParserV2.cifReadCols.lookup f).bind List.head? with
      | some col => (ParserV2.cifAttributes.zip ParserV2.cifSources).contains (col, CifSrc.col f)
      | none => false) = true ∧
    (ParserV2.cifWriteNull.all fun p => ParserV2.cifReadNulls.contains p.2) = true ∧
    ParserV2.cifReadNulls.contains ParserV2.cifWriteNullCif = true := by decide

/-! ## Records obey the 80-column layout -/

theorem formatAtom_len80 (a : Atom) (h : WithinPdbLimits a) : (formatAtom a).length = 80 :=
  Pdb.formatAtom_len80 a h

example : WithinPdbLimits Pdb.chargedAtom := by decide

/-- (the serial of a TER is the last serial + 1 and must fit as well) -/
theorem formatTer_len80 (a : Atom) (h : WithinPdbLimits a) (hs : a.serial + 1 ≤ 99999) :
    (formatTer a).length = 80 :=
  Pdb.formatTer_len80 a h hs

example : WithinPdbLimits Pdb.chargedAtom ∧ Pdb.chargedAtom.serial + 1 ≤ 99999 := by decide

/-- the TER record: `TER`, serial in columns 7–11, residue name in 18–20, chain in 22, number in 23–26,
insertion code in 27 (0-based half-open slices) -/
theorem formatTer_fields (a : Atom) (h : WithinPdbLimits a) (hs : a.serial + 1 ≤ 99999) :
    slice (formatTer a) 0 6 = ['T', 'E', 'R', ' ', ' ', ' '] ∧
    strip (slice (formatTer a) 6 11) = showInt (a.serial + 1) ∧
    strip (slice (formatTer a) 17 20) = a.resName ∧
    slice (formatTer a) 21 22 = a.chain ∧
    strip (slice (formatTer a) 22 26) = showInt a.resSeq ∧
    strip (slice (formatTer a) 26 27) = a.iCode :=
  Pdb.formatTer_fields a h hs

example : WithinPdbLimits Pdb.chargedAtom ∧ Pdb.chargedAtom.serial + 1 ≤ 99999 := by decide

/-- every field of a written line sits in its columns: reading the columns gives the field back -/
theorem formatAtom_fields (a : Atom) (h : WithinPdbLimits a) :
    fieldText (formatAtom a) .record = a.record ∧ fieldText (formatAtom a) .name = a.name ∧
    fieldText (formatAtom a) .altLoc = a.altLoc ∧ fieldText (formatAtom a) .resName = a.resName ∧
    fieldText (formatAtom a) .chain = a.chain ∧ fieldText (formatAtom a) .iCode = a.iCode ∧
    fieldText (formatAtom a) .element = a.element ∧ fieldText (formatAtom a) .charge = a.charge :=
  ⟨fieldText_formatAtom_record a h, fieldText_formatAtom_name a h, fieldText_formatAtom_altLoc a h,
   fieldText_formatAtom_resName a h, fieldText_formatAtom_chain a h, fieldText_formatAtom_iCode a h,
   fieldText_formatAtom_element a h, fieldText_formatAtom_charge a h⟩

/-! ## MAIN: the reader inverts the writer on every field -/

/-- all 16 fields; 1–4 character names incl. the alignment rule, 2-letter elements, negative numbers,
charges `n±` (the model number is the reader's current model) -/
theorem parseV2_formatAtom (a : Atom) (h : WithinPdbLimits a) :
    parseAtomV2 a.model (formatAtom a) = some a :=
  Pdb.parseV2_formatAtom a h a.model

example : WithinPdbLimits
    { record := "HETATM".toList, serial := -9999, name := "O5'".toList, altLoc := ['A'], resName := ['G'],
      chain := ['B'], resSeq := -12, iCode := ['C'], x := -1500, y := 2001, z := -999999, occ := 50, b := -5,
      element := ['M', 'G'], charge := ['2', '+'], model := 3 } := by decide
example : WithinPdbLimits
    { record := "ATOM".toList, serial := 99999, name := "1H5'".toList, altLoc := [], resName := "PSU".toList,
      chain := ['9'], resSeq := 9999, iCode := [], x := 9999999, y := 0, z := -1, occ := 100, b := 99999,
      element := [], charge := [], model := 9999 } := by decide

/-- exact decimal text of the fixed-point numbers -/
theorem parseFixed_fixedBody (p : Nat) (k : Int) : parseFixed p (fixedBody p k) = some k :=
  Pdb.parseFixed_fixedBody p k

/-! ## MODEL/ENDMDL bracket every model, a TER follows every chain of every model

`writePdbLines` is the writer as the source has it *now*: `Gen.ParserV2.terBeforeEndmdl` is read off
`write_pdb` on every run (is a TER written in the model-change branch before ENDMDL?).  `writePdbLinesOld` is the
behaviour without that TER (the code up to the fix), `writePdbLinesFixed` the behaviour with it. -/

/-- the full statement for the writer without the TER in front of ENDMDL … -/
def writePdbOld_structure_full : Prop :=
  ∀ rows : List Atom, wellBracketed ((writePdbLinesOld rows).map Line.kind) = true

/-- … is false: two rows that differ only in the model number give MODEL ATOM ENDMDL MODEL ATOM TER ENDMDL END -/
theorem not_writePdbOld_structure_full : ¬ writePdbOld_structure_full :=
  fun h => absurd (h Pdb.twoModels) (by rw [Pdb.writePdb_not_wellBracketed]; decide)

/-- that writer on single-model tables -/
theorem writePdbOld_structure_partial (rows : List Atom) (h : ∀ a ∈ rows, ∀ b ∈ rows, a.model = b.model) :
    wellBracketed ((writePdbLinesOld rows).map Line.kind) = true :=
  Pdb.writePdb_wellBracketed_partial rows h

example : (∀ a ∈ Pdb.twoChains, ∀ b ∈ Pdb.twoChains, a.model = b.model) ∧ Pdb.twoChains.length = 2 := by decide

/-- independent of what the source says: every document is well bracketed iff that TER is written -/
theorem writePdb_structure_iff :
    (∀ rows : List Atom, wellBracketed ((writePdbLines rows).map Line.kind) = true) ↔
      ParserV2.terBeforeEndmdl = true :=
  Pdb.writePdbLinesWith_wellBracketed_iff ParserV2.terBeforeEndmdl

/-- **the writer as it is in the source**: MODEL/ENDMDL bracket every model and a TER closes every chain of every
model, for every table.  (Checks only while `write_pdb` writes the TER in front of ENDMDL.) -/
theorem writePdb_structure (rows : List Atom) :
    wellBracketed ((writePdbLines rows).map Line.kind) = true :=
  writePdb_structure_iff.2 (by decide) rows

/-- the atom records of the document are the rows, in order -/
theorem writePdb_atoms (rows : List Atom) :
    (writePdbLines rows).filterMap (fun l => match l with | .atom a => some a | _ => none) = rows :=
  Pdb.writePdbLinesWith_atoms ParserV2.terBeforeEndmdl rows

/-! ## Round trips -/

/-- PDB → PDB: reading what `write_pdb` wrote gives the table back (with or without the TER in front of ENDMDL) -/
theorem pdb_pdb_roundtrip (rows : List Atom) (h : ∀ a ∈ rows, WithinPdbLimits a) :
    parsePdb (writePdb rows) = rows.map some :=
  Pdb.pdb_pdb_roundtrip_with ParserV2.terBeforeEndmdl rows h

example : ∀ a ∈ Pdb.twoChains ++ Pdb.twoModels, WithinPdbLimits a := by decide

/-- mmCIF → mmCIF is the identity on token tables by construction of `write_cif` (`attributes = df.columns`,
every value `str()`-ed, missing ↦ `?` ↦ missing): there is no logic to model beyond the null markers
(`cif_columns_and_markers`); the path is covered by the correspondence run on parsed tables. -/
theorem cif_null_marker_roundtrip : ParserV2.cifReadNulls.contains ParserV2.cifWriteNullCif = true := by decide

/-! `toCifRowCode` is `write_cif`'s row map as the source has it *now*: `Gen.ParserV2.cifChargeSigned` is read off
the source on every run (is the PDB charge text rewritten as a signed integer?); `toCifRow false` copies the charge
text (the code up to the fix), `toCifRow true` writes the signed integer. -/

/-- PDB → mmCIF → PDB, one row: the full statement for the token map that copies the charge text … -/
def pdb_cif_pdb_full : Prop := Pdb.pdb_cif_pdb_full

/-- … is false (`2+` is coerced to missing by the integer column) -/
theorem not_pdb_cif_pdb_full : ¬ pdb_cif_pdb_full := Pdb.not_pdb_cif_pdb_full

theorem pdb_cif_pdb_roundtrip_partial (a : Atom) (h : WithinPdbLimits a) (hn : noNullTokens a = true)
    (hc : a.charge = []) :
    ∃ c, ofCifRow ParserV2.cifAttributes (toCifRow false a) = some c ∧
         parseAtomV2 a.model (formatAtom c) = some a :=
  Pdb.pdb_cif_pdb_partial a h hn hc

example : WithinPdbLimits { Pdb.chargedAtom with charge := [] } ∧
    noNullTokens { Pdb.chargedAtom with charge := [] } = true := by decide

/-- **the row map as it is in the source**: PDB row → mmCIF tokens → typed mmCIF row → PDB line → the same PDB row.
(Checks only while `write_cif` writes the charge as a signed integer.) -/
theorem pdb_cif_pdb_roundtrip (a : Atom) (h : WithinPdbLimits a) (hn : noNullTokens a = true) :
    ∃ c, ofCifRow ParserV2.cifAttributes (toCifRowCode a) = some c ∧
         parseAtomV2 a.model (formatAtom c) = some a := by
  have e : toCifRowCode a = toCifRow true a := by
    unfold toCifRowCode; rw [show ParserV2.cifChargeSigned = true by decide]
  rw [e]; exact Pdb.pdb_cif_pdb_fixed a h hn

example : WithinPdbLimits Pdb.chargedAtom ∧ noNullTokens Pdb.chargedAtom = true := by decide

/-- mmCIF → PDB → mmCIF, one row -/
def cif_pdb_cif_full : Prop := Pdb.cif_pdb_cif_full

theorem not_cif_pdb_cif_full : ¬ cif_pdb_cif_full := Pdb.not_cif_pdb_cif_full

theorem cif_pdb_cif_roundtrip_partial (c : Atom) (h : withinPdbLimitsCif c = true) (hn : noNullTokens c = true)
    (hc : c.charge = []) :
    ∃ p, parseAtomV2 c.model (formatAtom c) = some p ∧
         ofCifRow ParserV2.cifAttributes (toCifRow false p) = some c :=
  Pdb.cif_pdb_cif_partial c h hn hc

example : withinPdbLimitsCif { Pdb.chargedCifAtom with charge := [] } = true := by decide

/-- **the row map as it is in the source**: typed mmCIF row → PDB line → PDB row → mmCIF tokens → the same mmCIF row
(integer charges −9…9; a charge 0 is written as blank, i.e. comes back as absent) -/
theorem cif_pdb_cif_roundtrip (c : Atom) (h : withinPdbLimitsCif c = true) (hn : noNullTokens c = true) :
    ∃ p, parseAtomV2 c.model (formatAtom c) = some p ∧
         ofCifRow ParserV2.cifAttributes (toCifRowCode p) = some c := by
  obtain ⟨p, h1, h2⟩ := Pdb.cif_pdb_cif_fixed c h hn
  refine ⟨p, h1, ?_⟩
  have e : toCifRowCode p = toCifRow true p := by
    unfold toCifRowCode; rw [show ParserV2.cifChargeSigned = true by decide]
  rw [e]; exact h2

example : withinPdbLimitsCif Pdb.chargedCifAtom = true ∧ noNullTokens Pdb.chargedCifAtom = true := by decide

end RnaVerif.Props.C09

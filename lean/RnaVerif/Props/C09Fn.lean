import RnaVerif.Model.Pdb
import RnaVerif.Generated.Functions
import RnaVerif.Lemmas.Py
/-! # C09 — bridge for the atom-name alignment rule regenerated from the source (translator part of the tie)

`Gen.Fn.pdbAtomName` is rewritten on every run by tools/py2lean.py from the `if` statement of
`_format_pdb_atom_line` that computes `atom_name_fmt` (columns 13–16 of an ATOM record).  The theorem states
that it is the function `Pdb.atomNameFmt` with which `formatAtom` (and `parseV2_formatAtom`, the 16-field round
trip) renders the name field.
-/
namespace RnaVerif.Props.C09Fn
open RnaVerif RnaVerif.Gen.Fn RnaVerif.PyL

/-- the value translator's reading of the same rule: limit 4, width 4 -/
theorem name_fmt : Gen.ParserV2.writerFmt.lookup Pdb.Field.name = some (Pdb.Fmt.atomName 4 4) := by decide

/-- **the alignment rule = the model's `Pdb.atomNameFmt 4 4`**, for every name whose first character (if any) is
ASCII: names of fewer than four characters that start with a letter get one leading blank, then `ljust(4)` -/
theorem pdbAtomName_bridge (s : String) (hascii : ∀ c, s.toList.head? = some c → c.toNat < 128) :
    (pdbAtomName s).toList = Pdb.atomNameFmt 4 4 s.toList := by
  unfold pdbAtomName Pdb.atomNameFmt
  cases hs : s.toList with
  | nil =>
    simp [Py.len, Py.isAlpha, Py.slice, Py.ljust, Pdb.ljust, hs]
  | cons c cs =>
    have hc : c.toNat < 128 := hascii c (by simp [hs])
    have ha : Py.alphaChar c = c.isAlpha := by
      have := alphaChar_ascii ⟨c.toNat, hc⟩
      simpa [Char.ofNat_toNat] using this
    simp [Py.len, Py.isAlpha, Py.slice, Py.ljust, Pdb.ljust, hs, ha, Py.clampBound]
    have e : ((cs.length : Int) + 1 < 4) ↔ (cs.length + 1 < 4) := by omega
    simp only [e]
    split <;> simp

/-- non-vacuity: " CA ", "1HB ", "HO5'" (four characters: no blank), " P  " -/
example : pdbAtomName "CA" = " CA " ∧ pdbAtomName "1HB" = "1HB " ∧ pdbAtomName "HO5'" = "HO5'" ∧ pdbAtomName "P" = " P  " ∧
    pdbAtomName "" = "    " := by decide

end RnaVerif.Props.C09Fn

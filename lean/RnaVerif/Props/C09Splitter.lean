import RnaVerif.Lemmas.Splitter
import RnaVerif.Props.C09
import RnaVerif.Props.C10
import RnaVerif.Generated.Unifier
/-!
# C09 / C10 at the observation point `splitter.main`

Object: `Splitter.split : Format → OutFmt → String → Table → List OutFile` (Model/Splitter.lean): group
the parsed table by model number, per model `fit_to_pdb` + `write_pdb` (output PDB) or `write_cif`
(output mmCIF), one file `"{base}_model_{m}{ext}"` per model.  The theorems below are the C09 / C10
theorems transported to every file the tool writes.
-/
namespace RnaVerif.Props.C09Splitter
open RnaVerif RnaVerif.Pdb RnaVerif.Fit RnaVerif.Splitter RnaVerif.Gen

/-- bridge (read off `splitter.main` on every run): the frame handed to `write_pdb` is the value of
`fit_to_pdb(model_df)` — the shape `splitOne` models -/
theorem splitter_fits_before_write : Gen.Unifier.splitterFitsBeforeWrite = true := by decide

/-- membership in the output list, unfolded -/
theorem mem_split {infmt : Format} {o : OutFmt} {base : String} {t : Table} {f : OutFile}
    (h : f ∈ split infmt o base t) :
    f.model ∈ modelsOf t ∧ f.stem = stemOf base f.model ∧ f.ext = extOf (outFormat infmt o) ∧
    f.content = splitOne infmt (outFormat infmt o) (rowsOfModel t f.model) := by
  unfold split at h
  obtain ⟨m, hm, rfl⟩ := List.mem_map.1 h
  exact ⟨hm, rfl, rfl, rfl⟩

/-- **splitter_partition**: one file per model number that occurs (each number once, in ascending
order); the file of model `m` is handed exactly the rows of model `m`, in table order;
together the groups hold every row of the table exactly as often as the table does -/
theorem splitter_partition (infmt : Format) (o : OutFmt) (base : String) (t : Table) :
    (split infmt o base t).map (·.model) = modelsOf t ∧ (modelsOf t).Nodup ∧ (modelsOf t).Pairwise (· ≤ ·) ∧
    (∀ m, m ∈ modelsOf t ↔ ∃ a ∈ t, a.model = m) ∧
    (∀ m, (rowsOfModel t m).Sublist t ∧ ∀ a, a ∈ rowsOfModel t m ↔ a ∈ t ∧ a.model = m) ∧
    (∀ a, ((modelsOf t).flatMap (rowsOfModel t)).count a = t.count a) :=
  ⟨by simp [split, Function.comp_def], modelsOf_nodup t, modelsOf_sorted t, mem_modelsOf t,
   fun m => ⟨rowsOfModel_sublist t m, mem_rowsOfModel t m⟩, count_all_groups t⟩

/-- mmCIF output: the table handed to `write_cif` is the group itself (round trip: C09) -/
theorem splitter_cif_rows (infmt : Format) (o : OutFmt) (base : String) (t : Table) (f : OutFile)
    (hf : f ∈ split infmt o base t) (ho : outFormat infmt o = .cif) :
    f.content.table = some (rowsOfModel t f.model) := by
  obtain ⟨-, -, -, hc⟩ := mem_split hf
  rw [hc, ho]; rfl

/-- **splitter_roundtrip_pdb**: for every table within the PDB limits (either input format), every
model gets a PDB file, and parsing the text of that file gives exactly that model's rows -/
theorem splitter_roundtrip_pdb (infmt : Format) (o : OutFmt) (base : String) (t : Table)
    (hw : ∀ a ∈ t, WithinPdbLimits a) (ho : outFormat infmt o = .pdb) (f : OutFile)
    (hf : f ∈ split infmt o base t) :
    f.content.pdbText = some (writePdb (rowsOfModel t f.model)) ∧
    parsePdb (writePdb (rowsOfModel t f.model)) = (rowsOfModel t f.model).map some := by
  obtain ⟨-, -, -, hc⟩ := mem_split hf
  have hw' : ∀ a ∈ rowsOfModel t f.model, WithinPdbLimits a :=
    fun a ha => hw a ((mem_rowsOfModel t _ a).1 ha).1
  refine ⟨?_, C09.pdb_pdb_roundtrip _ hw'⟩
  rw [hc, ho]
  simp only [splitOne, Fit.fit_id infmt _ (canWrite_of_within infmt _ hw')]
  rfl

/-- **splitter_file_structure**: every written PDB file holds exactly one MODEL … ENDMDL block, is
well bracketed (MODEL first, a TER after every chain, ENDMDL, END), all its atoms carry the model number
in the file name, and its atom records are the fitted rows in order — whatever the table (no limits
needed) -/
theorem splitter_file_structure (infmt : Format) (o : OutFmt) (base : String) (t : Table) (f : OutFile)
    (hf : f ∈ split infmt o base t) (t' : Table) (hc : f.content = .pdb t') :
    wellBracketed ((writePdbLines t').map Line.kind) = true ∧
    (writePdbLines t').countP isModelLine = 1 ∧ (writePdbLines t').countP isEndmdlLine = 1 ∧
    (∀ a ∈ t', a.model = f.model) ∧
    (writePdbLines t').filterMap (fun l => match l with | .atom a => some a | _ => none) = t' := by
  obtain ⟨hm, -, -, hc'⟩ := mem_split hf
  rw [hc'] at hc
  have hfit : fitToPdb infmt (rowsOfModel t f.model) = .ok t' := by
    unfold splitOne at hc
    cases ho : outFormat infmt o with
    | cif => rw [ho] at hc; cases hc
    | pdb =>
      rw [ho] at hc
      simp only at hc
      cases hr : fitToPdb infmt (rowsOfModel t f.model) with
      | error e => rw [hr] at hc; cases hc
      | ok t'' => rw [hr] at hc; injection hc with hc; rw [hc]
  have hmod : ∀ a ∈ t', a.model = f.model :=
    fit_keeps_model infmt _ t' f.model hfit (fun a ha => ((mem_rowsOfModel t _ a).1 ha).2)
  have hne : t' ≠ [] := fit_ne_nil infmt _ t' hfit (rowsOfModel_ne_nil t _ hm)
  obtain ⟨b1, b2⟩ := one_block t' hne (fun a ha b hb => by rw [hmod a ha, hmod b hb])
  exact ⟨C09.writePdb_structure t', b1, b2, hmod, C09.writePdb_atoms t'⟩

/-- **splitter_fit_per_model**: a model whose rows do not fit the PDB limits as they are is either
skipped with `ValueError` — exactly when `Fit.refuses` says no fit exists — or its file holds a table
for which every C10 guarantee holds relative to that model's rows: limits, same rows in the same
order with all other fields, chains renamed one-to-one, residues renamed one-to-one with grouping
preserved; and when the untouched fields fit their columns the file reads back to that table -/
theorem splitter_fit_per_model (infmt : Format) (o : OutFmt) (base : String) (t : Table)
    (ho : outFormat infmt o = .pdb) (f : OutFile) (hf : f ∈ split infmt o base t)
    (hnf : canWritePdb infmt (rowsOfModel t f.model) = false) :
    let g := rowsOfModel t f.model
    (f.content.table = none ↔ refuses infmt g = true) ∧
    (∀ e, f.content.table = none → fitToPdb infmt g = .error e → e = .valueError) ∧
    ∀ t', f.content = .pdb t' →
      (∀ a ∈ t', 1 ≤ a.serial ∧ a.serial ≤ (ParserV2.maxSerial : Int) ∧
        (∃ c ∈ ParserV2.chainAlphabet, a.chain = [c]) ∧ 1 ≤ a.resSeq ∧
        a.resSeq ≤ (ParserV2.maxResSeq : Int) ∧ a.iCode = []) ∧
      (t'.length = g.length ∧
        ∀ i (hi : i < g.length) (hi' : i < t'.length), sameOtherFields g[i] t'[i] = true) ∧
      (∀ i j (hi : i < g.length) (hj : j < g.length) (hi' : i < t'.length) (hj' : j < t'.length),
        (t'[i].chain = t'[j].chain ↔ g[i].chain = g[j].chain) ∧
        (resId t'[i] = resId t'[j] ↔ resId g[i] = resId g[j])) ∧
      ((∀ a ∈ g, withinPdbLimits { a with serial := 1, chain := ['A'], resSeq := 1, iCode := [] } = true) →
        parsePdb (writePdb t') = t'.map some) := by
  intro g
  obtain ⟨-, -, -, hc⟩ := mem_split hf
  rw [ho] at hc
  have hc' : f.content = (match fitToPdb infmt g with | .ok t' => Content.pdb t' | .error e => .skipped e) := hc
  refine ⟨?_, ?_, ?_⟩
  · rw [← C10.fit_refuses_iff]
    cases hr : fitToPdb infmt g with
    | ok t' => rw [hc', hr]; simp [Content.table]
    | error e => rw [hc', hr]; simp [Content.table]
  · intro e _ he
    exact C10.fit_error_valueError infmt g e he
  · intro t' ht'
    have hfit : fitToPdb infmt g = .ok t' := by
      cases hr : fitToPdb infmt g with
      | error e => rw [hc', hr] at ht'; cases ht'
      | ok t'' => rw [hc', hr] at ht'; injection ht' with ht'; rw [ht']
    exact ⟨C10.fit_ok_satisfies_limits infmt g t' hfit hnf, C10.fit_ok_preserves_rows infmt g t' hfit,
      fun i j hi hj hi' hj' => ⟨C10.fit_chain_map_injective infmt g t' hfit i j hi hj hi' hj',
        C10.fit_grouping_preserved infmt g t' hfit i j hi hj hi' hj'⟩,
      fun hof => C10.fit_then_write_read infmt g t' hfit hnf hof⟩

/-! ## non-vacuity -/

/-- two models of two chains, within the limits -/
def exTwo : Table :=
  Pdb.twoChains.map (fun a => { a with model := 2 }) ++ Pdb.twoChains.map (fun a => { a with model := 1 })

example : (∀ a ∈ exTwo, WithinPdbLimits a) ∧ modelsOf exTwo = [1, 2] ∧
    (split .pdb .keep "s" exTwo).map (fun f => (f.stem, f.ext)) = [("s_model_1", ".pdb"), ("s_model_2", ".pdb")] ∧
    (split .cif .pdb "s" exTwo).map (fun f => f.content.table) =
      [some (rowsOfModel exTwo 1), some (rowsOfModel exTwo 2)] ∧
    (rowsOfModel exTwo 1).length = 2 := by decide

/-- a mmCIF-derived table that needs fitting, as two models -/
def exFit : Table := Fit.exT ++ Fit.exT.map (fun a => { a with model := 7 })

example : modelsOf exFit = [1, 7] ∧ canWritePdb .cif (rowsOfModel exFit 7) = false ∧
    refuses .cif (rowsOfModel exFit 7) = false ∧
    (split .cif .pdb "x" exFit).map (fun f => f.content.table) =
      [some Fit.exT', some (Fit.exT'.map (fun a => { a with model := 7 }))] ∧
    (∀ a ∈ rowsOfModel exFit 7,
      withinPdbLimits { a with serial := 1, chain := ['A'], resSeq := 1, iCode := [] } = true) := by decide

/-- a model that cannot be fitted is skipped, the other model is still written -/
def exSkip : Table := Fit.exBig.map (fun a => { a with model := 3 }) ++ Fit.exT

example : (split .cif .pdb "x" exSkip).map (fun f => (f.model, f.content.table.isSome)) = [(1, true), (3, false)] ∧
    refuses .cif (rowsOfModel exSkip 3) = true := by decide

end RnaVerif.Props.C09Splitter

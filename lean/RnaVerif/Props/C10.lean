import RnaVerif.Lemmas.Fit
import RnaVerif.Lemmas.PdbDoc
/-!
# C10 — fitting an atom table to PDB limits is a structure-preserving renaming or a clean refusal

Objects: `Fit.canWritePdb`, `Fit.fitToPdb : Format → Table → Except Err Table` (= `can_write_pdb`, `fit_to_pdb` of
`parser_v2.py` on the 16-field view of a table), limits and chain alphabet from `Gen.ParserV2` (regenerated from the
source on every run).  The pandas mechanics of the renaming branch (dtypes, column renaming) are not modelled; they
are exercised by the correspondence run, which compares the returned frame field by field with the model's table.

Reading of "raises ValueError when no such fit exists": the refusals are exactly the four tests of the code
(`fit_refuses_iff`): rows + chains > 99999, chains > 62, some chain with > 9999 residues, and the safeguard
rows + chain changes > 99999 (every change of chain between consecutive rows reserves one serial for a TER; with
interleaved chains there are more changes than chains).  The formula in DESIGN.md lacked the fourth.
-/
namespace RnaVerif.Props.C10
open RnaVerif RnaVerif.Pdb RnaVerif.Fit RnaVerif.Gen

/-! ## Bridges -/

/-- the limits of the statement: serial ≤ 99999, one-character chain ids, numbers ≤ 9999; 62 chain names -/
theorem limits_pinned :
    ParserV2.maxSerial = 99999 ∧ ParserV2.maxResSeq = 9999 ∧ ParserV2.chainAlphabet.length = 62 ∧
    ParserV2.canWriteMaxSerial = 99999 ∧ ParserV2.canWriteMaxChainLen = 1 ∧ ParserV2.canWriteMaxResSeq = 9999 ∧
    ParserV2.fitRaising.length = 4 := by decide

/-- the new chain names are distinct printable characters -/
theorem alphabet_ok : ParserV2.chainAlphabet.Nodup ∧ ∀ c ∈ ParserV2.chainAlphabet, graphic c = true :=
  ⟨Fit.alphabet_nodup, Fit.alphabet_graphic⟩

/-! ## first-seen numbering -/

theorem firstSeen_injective {α} [DecidableEq α] (l : List α) (x y : α) (hx : x ∈ l) (hy : y ∈ l)
    (h : firstSeenIndex l x = firstSeenIndex l y) : x = y :=
  Fit.firstSeen_injective l x y hx hy h

theorem firstSeen_same_iff {α} [DecidableEq α] (l : List α) (x y : α) (hx : x ∈ l) (hy : y ∈ l) :
    firstSeenIndex l x = firstSeenIndex l y ↔ x = y :=
  Fit.firstSeen_same_iff l x y hx hy

example : (2 : Nat) ∈ [3, 1, 3, 2, 1] ∧ firstSeenIndex [3, 1, 3, 2, 1] 2 = 2 ∧ firstSeen [3, 1, 3, 2, 1] = [3, 1, 2] := by decide

/-! ## a table that already fits is returned unchanged -/

theorem fit_id (fmt : Format) (t : Table) (h : canWritePdb fmt t = true) : fitToPdb fmt t = .ok t :=
  Fit.fit_id fmt t h

example : canWritePdb .cif Fit.exT' = true := by decide

/-! ## the result satisfies the limits -/

/-- renaming branch: serials 1…99999, chain = one letter of the alphabet, numbers 1…9999, no insertion codes -/
theorem fit_ok_satisfies_limits (fmt : Format) (t t' : Table) (h : fitToPdb fmt t = .ok t')
    (hc : canWritePdb fmt t = false) :
    ∀ a ∈ t', 1 ≤ a.serial ∧ a.serial ≤ (ParserV2.maxSerial : Int) ∧ (∃ c ∈ ParserV2.chainAlphabet, a.chain = [c]) ∧
              1 ≤ a.resSeq ∧ a.resSeq ≤ (ParserV2.maxResSeq : Int) ∧ a.iCode = [] :=
  Fit.fit_ok_satisfies_limits fmt t t' h hc

example : canWritePdb .cif Fit.exT = false ∧ fitToPdb .cif Fit.exT = .ok Fit.exT' := by decide

/-- both branches, mmCIF-derived table: whatever is returned passes the fit test (holds under either behaviour
of the PDB branch of `can_write_pdb`) -/
theorem fit_ok_fits_cif (t t' : Table) (h : fitToPdb .cif t = .ok t') : t'.all rowFits = true :=
  Fit.fit_ok_rowFits t t' h

/-- bridge (read off `can_write_pdb` on every run): PDB-derived tables are *tested* against the three limits
(columns `serial`, `chainID`, `resSeq`), not assumed to fit.  Up to the fix the branch was `return True`; then this
`decide` fails (= broken obligation) and the correspondence run produces the failing input (`unifier.main` writing
the identifiers of a mmCIF file into a PDB-derived table). -/
theorem pdb_tables_are_tested :
    ParserV2.pdbAssumedToFit = false ∧ ParserV2.canWritePdbMaxSerial = 99999 ∧
    ParserV2.canWritePdbMaxChainLen = 1 ∧ ParserV2.canWritePdbMaxResSeq = 9999 := by decide

/-- **every format, both branches**: whatever `fit_to_pdb` returns satisfies the three limits of the statement.
(Checks only while `can_write_pdb` tests PDB-derived tables.) -/
theorem fit_ok_fits (fmt : Format) (t t' : Table) (h : fitToPdb fmt t = .ok t') :
    ∀ a ∈ t', a.serial ≤ 99999 ∧ a.chain.length ≤ 1 ∧ a.resSeq ≤ 9999 :=
  Fit.fit_ok_limits pdb_tables_are_tested.1 fmt t t' h

/-- the full statement ("returns a table that satisfies the limits", any format) … -/
def fit_ok_fits_full : Prop :=
  ∀ (fmt : Format) (t t' : Table), fitToPdb fmt t = .ok t' →
    ∀ a ∈ t', a.serial ≤ 99999 ∧ a.chain.length ≤ 1 ∧ a.resSeq ≤ 9999

/-- … is FALSE of the legacy behaviour (`pdbAssumedToFit = true`): the PDB-derived table `Fit.exEdited` (chain `AA`,
an edit of identifiers as `unifier.main` makes it) is returned unchanged -/
theorem not_fit_ok_fits_full_of_assumed (hb : ParserV2.pdbAssumedToFit = true) : ¬ fit_ok_fits_full := fun hf => by
  have h := hf .pdb Fit.exEdited Fit.exEdited (Fit.fit_pdb_assumed hb _) (Fit.exRow 1 "AA".toList 1 []) (by decide)
  exact absurd h.2.1 (by decide)

/-- … and holds of the present one; the part that holds under either behaviour is `fit_ok_fits_cif` -/
theorem fit_ok_fits_full_of_tested : fit_ok_fits_full := fit_ok_fits

/-- the same edited table under the present behaviour: renamed to chain `A` -/
theorem edited_pdb_table_is_renamed :
    fitToPdb .pdb Fit.exEdited = .ok [Fit.exRow 1 ['A'] 1 [], Fit.exRow 2 ['A'] 1 []] :=
  Fit.fit_pdb_edited pdb_tables_are_tested.1

example : canWritePdb .pdb Fit.exEdited = false ∧ satisfiesLimits Fit.exEdited = false := by
  refine ⟨?_, by decide⟩
  simp only [canWritePdb, pdb_tables_are_tested.1]; decide

/-! ## atoms keep their order, names, coordinates and all other fields -/

theorem fit_ok_preserves_rows (fmt : Format) (t t' : Table) (h : fitToPdb fmt t = .ok t') :
    t'.length = t.length ∧ ∀ i (hi : i < t.length) (hi' : i < t'.length), sameOtherFields t[i] t'[i] = true :=
  Fit.fit_ok_preserves_rows fmt t t' h

/-- `sameOtherFields` is equality of the twelve fields that are not serial / chain / number / insertion code -/
theorem sameOtherFields_iff (a b : Atom) :
    sameOtherFields a b = true ↔
      a.record = b.record ∧ a.name = b.name ∧ a.altLoc = b.altLoc ∧ a.resName = b.resName ∧ a.x = b.x ∧ a.y = b.y ∧
      a.z = b.z ∧ a.occ = b.occ ∧ a.b = b.b ∧ a.element = b.element ∧ a.charge = b.charge ∧ a.model = b.model := by
  simp [sameOtherFields, and_assoc]

/-! ## chains and residues are renamed one-to-one, grouping is preserved -/

theorem fit_chain_map_injective (fmt : Format) (t t' : Table) (h : fitToPdb fmt t = .ok t')
    (i j : Nat) (hi : i < t.length) (hj : j < t.length) (hi' : i < t'.length) (hj' : j < t'.length) :
    (t'[i].chain = t'[j].chain ↔ t[i].chain = t[j].chain) :=
  Fit.fit_chain_map_injective fmt t t' h i j hi hj hi' hj'

theorem fit_residue_map_injective_per_chain (fmt : Format) (t t' : Table) (h : fitToPdb fmt t = .ok t')
    (hc : canWritePdb fmt t = false)
    (i j : Nat) (hi : i < t.length) (hj : j < t.length) (hi' : i < t'.length) (hj' : j < t'.length)
    (hch : t[i].chain = t[j].chain) :
    (t'[i].resSeq = t'[j].resSeq ↔ resKey t[i] = resKey t[j]) :=
  Fit.fit_residue_map_injective_per_chain fmt t t' h hc i j hi hj hi' hj' hch

example : Fit.exT[0].chain = Fit.exT[1].chain ∧ resKey Fit.exT[0] ≠ resKey Fit.exT[1] ∧
    resKey Fit.exT[0] = resKey Fit.exT[3] := by decide

/-- two rows share the new (chain, number, insertion code) iff they shared the old one -/
theorem fit_grouping_preserved (fmt : Format) (t t' : Table) (h : fitToPdb fmt t = .ok t')
    (i j : Nat) (hi : i < t.length) (hj : j < t.length) (hi' : i < t'.length) (hj' : j < t'.length) :
    (resId t'[i] = resId t'[j] ↔ resId t[i] = resId t[j]) :=
  Fit.fit_grouping_preserved fmt t t' h i j hi hj hi' hj'

/-! ## or a clean refusal -/

/-- the only error is ValueError -/
theorem fit_error_valueError (fmt : Format) (t : Table) (e : Err) (h : fitToPdb fmt t = .error e) :
    e = .valueError :=
  Fit.fit_error_valueError fmt t e h

/-- exact characterisation of the refusals (`refuses`: the table does not fit as it is and
rows + chains > 99999 ∨ chains > 62 ∨ some chain has > 9999 residues ∨ rows + chain changes > 99999) -/
theorem fit_refuses_iff (fmt : Format) (t : Table) :
    (∃ e, fitToPdb fmt t = .error e) ↔ refuses fmt t = true :=
  Fit.fit_refuses_iff fmt t

example : refuses .cif Fit.exBig = true ∧ fitToPdb .cif Fit.exBig = .error .valueError := by decide
example : refuses .cif Fit.exT = false := by decide

/-- every table is either returned fitted or refused with ValueError -/
theorem fit_total (fmt : Format) (t : Table) :
    (∃ t', fitToPdb fmt t = .ok t') ∨ fitToPdb fmt t = .error .valueError := by
  cases h : fitToPdb fmt t with
  | ok t' => exact Or.inl ⟨t', rfl⟩
  | error e => exact Or.inr (by rw [Fit.fit_error_valueError fmt t e h])

/-! ## the fitted table can be written as PDB and read back (via C09) -/

/-- renaming branch: when the untouched fields fit their columns, every row of the result is within the PDB limits -/
theorem fit_ok_within (fmt : Format) (t t' : Table) (h : fitToPdb fmt t = .ok t') (hc : canWritePdb fmt t = false)
    (ho : ∀ a ∈ t, withinPdbLimits { a with serial := 1, chain := ['A'], resSeq := 1, iCode := [] } = true) :
    ∀ a ∈ t', WithinPdbLimits a :=
  Fit.fit_ok_within fmt t t' h hc ho

/-- … hence `write_pdb` (as it is in the source) followed by `parse_pdb_atoms` gives the fitted table back -/
theorem fit_then_write_read (fmt : Format) (t t' : Table) (h : fitToPdb fmt t = .ok t')
    (hc : canWritePdb fmt t = false)
    (ho : ∀ a ∈ t, withinPdbLimits { a with serial := 1, chain := ['A'], resSeq := 1, iCode := [] } = true) :
    parsePdb (writePdb t') = t'.map some :=
  Pdb.pdb_pdb_roundtrip_with ParserV2.terBeforeEndmdl t' (Fit.fit_ok_within fmt t t' h hc ho)

example : (∀ a ∈ Fit.exT, withinPdbLimits { a with serial := 1, chain := ['A'], resSeq := 1, iCode := [] } = true) ∧
    canWritePdb .cif Fit.exT = false := by decide

/-- identity branch: a table within the PDB limits is returned unchanged and reads back -/
theorem fit_then_write_read_id (fmt : Format) (t : Table) (hc : canWritePdb fmt t = true)
    (hw : ∀ a ∈ t, WithinPdbLimits a) :
    fitToPdb fmt t = .ok t ∧ parsePdb (writePdb t) = t.map some :=
  ⟨Fit.fit_id fmt t hc, Pdb.pdb_pdb_roundtrip_with ParserV2.terBeforeEndmdl t hw⟩

example : canWritePdb .cif Fit.exT' = true ∧ ∀ a ∈ Fit.exT', WithinPdbLimits a := by decide

end RnaVerif.Props.C10

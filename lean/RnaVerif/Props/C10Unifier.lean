import RnaVerif.Lemmas.Unifier
import RnaVerif.Props.C09
import RnaVerif.Props.C10
/-!
# C10 at the observation point `unifier.main`

Object: `Unifier.unify : Cfg → OutFmt → List UFile → Result` (Model/Unifier.lean): per file residues
(pandas group-by), filtered to the component names, atoms renamed to standard names, non-standard and hydrogen
atoms dropped, reordered; across files equal residue counts and names required (else exit 1), positions with
differing atom counts dropped everywhere, identifiers unified to the most common; output through
`fit_to_pdb` + `write_pdb` or `write_cif`.  Component tables and literals: `Gen.Unifier` (regenerated from
`component_*.csv` and `unifier.py` on every run) via `Unifier.codeCfg`; the theorems hold for every `Cfg`.

What C10 states for this tool is `unifier_output_roundtrip` (limits, read-back) together with the C10 theorems about
`fit_to_pdb` applied to the table of every file (`unifier_fit_guarantees`).  `unifier_same_shape` and
`unifier_keeps_coordinates` say that the table manipulations in front of the fit do what the tool is for.
Component order of the atoms is NOT unconditional: see `unifier_component_order_full` (false, with witness).
-/
namespace RnaVerif.Props.C10Unifier
open RnaVerif RnaVerif.Pdb RnaVerif.Fit RnaVerif.Splitter RnaVerif.Unifier RnaVerif.Gen

/-! ## bridges -/

/-- the literals of `unifier.main` / `splitter.main` the model is parameterised by, and the call shape
"the frame given to `write_pdb` is the value of `fit_to_pdb`" in both tools -/
theorem tool_literals :
    Gen.Unifier.nameTest = "ACGU" ∧ Gen.Unifier.hydrogenPrefix = "H" ∧
    Gen.Unifier.components.map (·.1) = ["A", "C", "G", "U"] ∧
    Gen.Unifier.unifierFitsBeforeWrite = true ∧ Gen.Unifier.splitterFitsBeforeWrite = true := by decide

/-- the component tables are dictionaries: no `atom_id` and no `alt_atom_id` twice within a component, and
renaming is idempotent (no alternative name is the standard name of another atom) -/
theorem components_wellformed :
    (codeCfg.comps.all fun p =>
      decide (p.2.map (·.1)).Nodup && decide (p.2.map (·.2)).Nodup &&
      p.2.all (fun q => rename p.2 (rename p.2 q.2) == rename p.2 q.2 && rename p.2 q.1 == q.1)) = true := by
  decide

/-! ## what is written -/

/-- **unifier_output_roundtrip**: every PDB file the tool writes holds the table `fit_to_pdb` returned for the
file's unified residues; that table satisfies the three limits (either input format — needs the bridge
`C10.pdb_tables_are_tested`), its text is well bracketed with exactly what `write_pdb` writes, and whenever its
rows are within the PDB field widths the file reads back to exactly that table -/
theorem unifier_output_roundtrip (cfg : Cfg) (o : OutFmt) (inputs : List UFile) (fs : List Unifier.OutFile)
    (h : unify cfg o inputs = .files fs) (f : Unifier.OutFile) (hf : f ∈ fs) (t' : Table) (hc : f.content = Content.pdb t') :
    (∀ a ∈ t', a.serial ≤ 99999 ∧ a.chain.length ≤ 1 ∧ a.resSeq ≤ 9999) ∧
    wellBracketed ((writePdbLines t').map Line.kind) = true ∧
    ((∀ a ∈ t', WithinPdbLimits a) → parsePdb (writePdb t') = t'.map some) := by
  obtain ⟨out, -, hw⟩ := unify_files cfg o inputs fs h
  obtain ⟨p, -, -, -, hcont⟩ := writeAll_mem o out fs hw f hf
  rw [hc] at hcont
  obtain ⟨-, hfit⟩ := splitOne_pdb _ _ _ t' hcont.symm
  exact ⟨C10.fit_ok_fits p.1 _ t' hfit, C09.writePdb_structure t', fun hw' => C09.pdb_pdb_roundtrip t' hw'⟩

/-- the C10 guarantees of the fit, file by file: the written table `t'` is `fit_to_pdb` of the concatenation `u` of
the file's unified residues — same rows in the same order with all other fields, chains and residues renamed
one-to-one; when `u` did not fit and its untouched fields fit their columns, `t'` is within the PDB field widths
(hence reads back, by `unifier_output_roundtrip`); a file is skipped exactly when `Fit.refuses` -/
theorem unifier_fit_guarantees (cfg : Cfg) (o : OutFmt) (inputs : List UFile) (fs : List Unifier.OutFile)
    (h : unify cfg o inputs = .files fs) (f : Unifier.OutFile) (hf : f ∈ fs) :
    ∃ out, unifyResidues cfg inputs = .ok out ∧ ∃ p ∈ out, p.2 ≠ [] ∧
      let u := concatAtoms p.2
      (f.fmt = Format.pdb → (f.content.table = none ↔ refuses p.1 u = true)) ∧
      (f.fmt = Format.cif → f.content.table = some u) ∧
      ∀ t', f.content = Content.pdb t' →
        fitToPdb p.1 u = .ok t' ∧
        (t'.length = u.length ∧ ∀ i (hi : i < u.length) (hi' : i < t'.length), sameOtherFields u[i] t'[i] = true) ∧
        (∀ i j (hi : i < u.length) (hj : j < u.length) (hi' : i < t'.length) (hj' : j < t'.length),
          (t'[i].chain = t'[j].chain ↔ u[i].chain = u[j].chain) ∧ (resId t'[i] = resId t'[j] ↔ resId u[i] = resId u[j])) ∧
        (canWritePdb p.1 u = true → t' = u) ∧
        (canWritePdb p.1 u = false →
          (∀ a ∈ u, withinPdbLimits { a with serial := 1, chain := ['A'], resSeq := 1, iCode := [] } = true) →
          ∀ a ∈ t', WithinPdbLimits a) := by
  obtain ⟨out, ho, hw⟩ := unify_files cfg o inputs fs h
  obtain ⟨p, hp, hne, hfmt, hcont⟩ := writeAll_mem o out fs hw f hf
  refine ⟨out, ho, p, hp, hne, ?_, ?_, ?_⟩
  · intro hpdb
    rw [hfmt] at hpdb
    rw [hcont, hpdb, ← C10.fit_refuses_iff]
    unfold splitOne
    cases hr : fitToPdb p.1 (concatAtoms p.2) <;> simp [Content.table]
  · intro hcif
    rw [hfmt] at hcif
    rw [hcont, hcif]; rfl
  · intro t' ht'
    rw [ht'] at hcont
    obtain ⟨-, hfit⟩ := splitOne_pdb _ _ _ t' hcont.symm
    exact ⟨hfit, C10.fit_ok_preserves_rows _ _ t' hfit,
      fun i j hi hj hi' hj' => ⟨C10.fit_chain_map_injective _ _ t' hfit i j hi hj hi' hj',
        C10.fit_grouping_preserved _ _ t' hfit i j hi hj hi' hj'⟩,
      fun hcw => Fit.fit_of_canWrite _ _ t' hfit hcw,
      fun hcw ho' => C10.fit_ok_within _ _ t' hfit hcw ho'⟩

/-! ## the files come out with the same shape -/

/-- **unifier_same_shape**: after unification every file has the same number of residues, position by position the
same number of atoms, hence the same number of atoms in total; and the fit does not change the number of rows -/
theorem unifier_same_shape (cfg : Cfg) (inputs : List UFile) (out : List (Format × List URes))
    (h : unifyResidues cfg inputs = .ok out) :
    ∀ p ∈ out, ∀ q ∈ out, p.2.map alen = q.2.map alen ∧ p.2.length = q.2.length ∧
      (concatAtoms p.2).length = (concatAtoms q.2).length := by
  intro p hp q hq
  have e := unified_same_shape cfg inputs out h p hp q hq
  refine ⟨e, ?_, ?_⟩
  · have := congrArg List.length e
    simpa using this
  · rw [concat_length, concat_length, e]

/-- … and for the written tables: two files written by one run hold equally many atoms -/
theorem unifier_same_size_written (cfg : Cfg) (o : OutFmt) (inputs : List UFile) (fs : List Unifier.OutFile)
    (h : unify cfg o inputs = .files fs) (f g : Unifier.OutFile) (hf : f ∈ fs) (hg : g ∈ fs) (t u : Table)
    (ht : f.content.table = some t) (hu : g.content.table = some u) : t.length = u.length := by
  obtain ⟨out, ho, hw⟩ := unify_files cfg o inputs fs h
  have key : ∀ (f : Unifier.OutFile), f ∈ fs → ∀ t, f.content.table = some t →
      ∃ p ∈ out, t.length = (concatAtoms p.2).length := by
    intro f hf t ht
    obtain ⟨p, hp, -, -, hcont⟩ := writeAll_mem o out fs hw f hf
    refine ⟨p, hp, ?_⟩
    rw [hcont] at ht
    unfold splitOne at ht
    cases hfmt : outFormat p.1 o with
    | cif => rw [hfmt] at ht; injection ht with ht; rw [← ht]
    | pdb =>
      rw [hfmt] at ht
      simp only at ht
      cases hr : fitToPdb p.1 (concatAtoms p.2) with
      | error e => rw [hr] at ht; cases ht
      | ok t'' =>
        rw [hr] at ht
        injection ht with ht
        rw [← ht]
        exact (C10.fit_ok_preserves_rows _ _ t'' hr).1
  obtain ⟨p, hp, e1⟩ := key f hf t ht
  obtain ⟨q, hq, e2⟩ := key g hg u hu
  rw [e1, e2]
  exact (unifier_same_shape cfg inputs out ho p hp q hq).2.2

/-! ## the kept atoms are input atoms under their standard names, in sorted order -/

/-- **unifier_keeps_coordinates**: every atom of every written table is an atom of the input file at the same
position (`Derived`: record type, alternate location, residue name, coordinates, occupancy, B-factor, element,
charge and model kept; the name is the component's standard name of the input name and is a non-hydrogen atom of that
component; identifiers and serial may be rewritten) -/
theorem unifier_keeps_coordinates (cfg : Cfg) (o : OutFmt) (inputs : List UFile) (fs : List Unifier.OutFile)
    (h : unify cfg o inputs = .files fs) (f : Unifier.OutFile) (hf : f ∈ fs) (t : Table) (ht : f.content.table = some t) :
    ∃ x ∈ inputs, ∀ a ∈ t, ∃ a0 ∈ x.rows.map (·.2), Derived cfg a0 a := by
  obtain ⟨out, ho, hw⟩ := unify_files cfg o inputs fs h
  obtain ⟨p, hp, -, -, hcont⟩ := writeAll_mem o out fs hw f hf
  obtain ⟨x, hx, -, hd⟩ := unified_atoms_derived cfg inputs out ho p hp
  refine ⟨x, hx, ?_⟩
  have hconcat : ∀ a ∈ concatAtoms p.2, ∃ a0 ∈ x.rows.map (·.2), Derived cfg a0 a := by
    intro a ha
    unfold concatAtoms at ha
    obtain ⟨r, hr, har⟩ := List.mem_flatMap.1 ha
    exact hd r hr a har
  rw [hcont] at ht
  unfold splitOne at ht
  cases hfmt : outFormat p.1 o with
  | cif => rw [hfmt] at ht; injection ht with ht; rw [← ht]; exact hconcat
  | pdb =>
    rw [hfmt] at ht
    simp only at ht
    cases hr : fitToPdb p.1 (concatAtoms p.2) with
    | error e => rw [hr] at ht; cases ht
    | ok t'' =>
      rw [hr] at ht
      injection ht with ht
      rw [← ht]
      intro a' ha'
      obtain ⟨a, ha, hs⟩ := fit_mem_same _ _ t'' hr a' ha'
      obtain ⟨a0, h0, hd0⟩ := hconcat a ha
      exact ⟨a0, h0, hd0.of_same hs⟩

/-- what `Derived` says, spelled out on the fields the property names -/
theorem derived_fields (cfg : Cfg) (a0 a : Atom) (h : Derived cfg a0 a) :
    a.x = a0.x ∧ a.y = a0.y ∧ a.z = a0.z ∧ a.occ = a0.occ ∧ a.b = a0.b ∧ a.element = a0.element ∧
    a.charge = a0.charge ∧ a.altLoc = a0.altLoc ∧ a.resName = a0.resName ∧ a.record = a0.record ∧
    a.model = a0.model ∧ cfg.hPrefix.isPrefixOf a.name = false := by
  obtain ⟨n, c, -, -, hv, hs⟩ := h
  rw [sameOther_iff] at hs
  obtain ⟨s1, -, s3, s4, s5, s6, s7, s8, s9, s10, s11, s12⟩ := hs
  exact ⟨s5.symm, s6.symm, s7.symm, s8.symm, s9.symm, s10.symm, s11.symm, s3.symm, s4.symm, s1.symm, s12.symm,
    (validNames_no_hydrogen cfg c a.name hv).1⟩

/-- inside every unified residue the atoms are ascending in the sort key that is in effect for the file
(`keyIn`), rows with equal keys in input order (`sortBy_stable`) -/
theorem unifier_residues_sorted (cfg : Cfg) (inputs : List UFile) (out : List (Format × List URes))
    (h : unifyResidues cfg inputs = .ok out) (p : Format × List URes) (hp : p ∈ out) :
    ∃ x ∈ inputs, p.1 = x.fmt ∧ ∀ r ∈ p.2, ∃ c, cfg.comps.lookup r.name = some c ∧
      r.atoms.Pairwise (fun a b => keyIn cfg x c a ≤ keyIn cfg x c b) :=
  unified_sorted cfg inputs out h p hp

theorem sort_is_stable (key : Atom → Nat) (k : Nat) (l : Table) :
    (sortBy key l).filter (fun a => key a == k) = l.filter (fun a => key a == k) ∧ (sortBy key l).Perm l :=
  ⟨sortBy_stable key k l, sortBy_perm key l⟩

/-- the full statement "the atoms of a residue come out in component order" … -/
def unifier_component_order_full : Prop :=
  ∀ (c : Component) (cats : List Str) (g : Table),
    (normalise codeCfg c cats g).Pairwise
      (fun a b => orderKey (validNames codeCfg c) a ≤ orderKey (validNames codeCfg c) b)

/-- a file made of one adenosine with the two atoms `P`, `C4'` (every atom name of the file is a standard heavy
atom of A) -/
def exRowsLex : Table :=
  [{ Fit.exRow 1 ['A'] 1 [] with name := "P".toList, resName := ['A'] },
   { Fit.exRow 2 ['A'] 1 [] with name := "C4'".toList, resName := ['A'] }]

def compA : Component := (codeCfg.comps.lookup ['A']).getD []

/-- … is FALSE of the code: in such a file the categorical name column is sorted by category position, `C4'`
before `P`, although the component lists `P` first -/
theorem not_unifier_component_order_full : ¬ unifier_component_order_full := fun hf => by
  have := hf compA (catsOfFile exRowsLex) exRowsLex
  revert this
  decide

/-- component order holds whenever some atom name of the file is not a standard non-hydrogen atom of the residue's
component (any hydrogen, any atom of another residue type, any unknown atom, anywhere in the file) -/
theorem unifier_component_order_partial (cfg : Cfg) (c : Component) (cats : List Str) (g : Table)
    (h : sortsByCategory (validNames cfg c) (catsAfter c cats) = false) :
    (normalise cfg c cats g).Pairwise (fun a b => orderKey (validNames cfg c) a ≤ orderKey (validNames cfg c) b) :=
  normalise_component_order cfg c cats g h

-- non-vacuity of the hypothesis: the same residue in a file that also holds a hydrogen
example : sortsByCategory (validNames codeCfg compA) (catsAfter compA (catsOfFile exRowsLex ++ ["H8".toList])) = false ∧
    (normalise codeCfg compA (catsOfFile exRowsLex ++ ["H8".toList]) exRowsLex).map (·.name) = ["P".toList, "C4'".toList] ∧
    (normalise codeCfg compA (catsOfFile exRowsLex) exRowsLex).map (·.name) = ["C4'".toList, "P".toList] := by decide

/-! ## non-vacuity: a complete run -/

def exAtom (serial : Int) (name : String) (chain : String) (num : Int) (x : Int) : Atom :=
  { Fit.exRow serial chain.toList num [] with name := name.toList, resName := ['G'], x := x }

/-- a mmCIF file, chain `AA`: O1P (alternative name), a hydrogen, C1', N9 — in that order -/
def exFileA : UFile :=
  { fmt := .cif
    rows := [("7", exAtom 1 "O1P" "AA" 7 10), ("7", exAtom 2 "H8" "AA" 7 20), ("7", exAtom 3 "N9" "AA" 7 30),
             ("7", exAtom 4 "C1'" "AA" 7 40)] }

/-- a PDB file, chain `B`, residue 3: the same atoms in another order, one more hydrogen -/
def exFileB : UFile :=
  { fmt := .pdb
    rows := [("3", exAtom 1 "N9" "B" 3 50), ("3", exAtom 2 "C1'" "B" 3 60), ("3", exAtom 3 "OP1" "B" 3 70),
             ("3", exAtom 4 "H1'" "B" 3 80), ("3", exAtom 5 "H8" "B" 3 90)] }

/-- name, chain, residue number, serial, x of every written atom -/
def tablesOf : Result → List (List String)
  | .files fs => fs.map (fun f => (f.content.table.getD []).map (fun a =>
      s!"{String.ofList a.name} {String.ofList a.chain} {a.resSeq} {a.serial} {a.x}"))
  | _ => []

-- both files come out as OP1, C1', N9 (component order), under the identifier of the first file; the PDB output of
-- both needs fitting (chain `AA`): chain `A`, residue 1, serials 1..3
example : tablesOf (unify codeCfg .pdb [exFileA, exFileB]) =
    [["OP1 A 1 1 10", "C1' A 1 2 40", "N9 A 1 3 30"],
     ["OP1 A 1 1 70", "C1' A 1 2 60", "N9 A 1 3 50"]] := by
  decide

example : tablesOf (unify codeCfg .keep [exFileA, exFileB]) =
    [["OP1 AA 7 1 10", "C1' AA 7 4 40", "N9 AA 7 3 30"],
     ["OP1 A 1 1 70", "C1' A 1 2 60", "N9 A 1 3 50"]] := by
  decide

end RnaVerif.Props.C10Unifier

import RnaVerif.Model.Pairs
import RnaVerif.Lemmas.Pairs
import RnaVerif.Spec.PairsChemistry
/-! # C11 — interaction lists are well-formed and self-consistent

Statements about the executable model `RnaVerif.Pairs` and the regenerated tables
(`Generated/Common.lean`: LW names/reverse, Saenger table, BR/BPh values; `Generated/Annotator.lean`:
BPh class table, merge rules), tied to the source on every run by the translator and by
`harness/corr/c11.py`, which evaluates `Pairs.specWF`, `Pairs.specSaenger` and `Pairs.specBph` on the
real output of `extract_base_interactions` and compares `mergeClean Params.gen` / `bphClasses Params.gen` functionally with
`merge_and_clean_bph_br` / `detect_bph_br_classification`.
-/
namespace RnaVerif.Props.C11
open RnaVerif RnaVerif.Pairs

/-- the tables and thresholds regenerated from the source equal the pinned ones: the specification
predicates (`specBph`, `impliedBy`, run with `Params.spec`) and the theorems below (stated for `Params.gen`, what
the code does) speak about the same values (the flag "each atom is inserted once", which concerns the
hydrogen-bond count of C03 only, is left out here) -/
theorem params_bridge : { Params.gen with dedupPoints := true } = Params.spec := by decide +kernel

/-! ## Leontis–Westhof names and their reversal -/

/-- the 18 classes, and `reverse` is defined on each -/
theorem lw_names : Gen.lwNames.length = 18 ∧ Gen.lwNames.Nodup ∧
    Gen.lwReverse.map (·.1) = Gen.lwNames := by decide

/-- **lw_reverse_closed**: the reverse of a class is a class -/
theorem lw_reverse_closed : ∀ lw ∈ Gen.lwNames, ∃ r ∈ Gen.lwNames, lwReverse lw = some r := by decide

/-- `reverse` keeps the cis/trans letter and swaps the two edges -/
theorem lw_reverse_swaps_edges : ∀ p ∈ Gen.lwReverse, swapsEdges p = true := by decide

theorem lwReverse_table : ∀ p ∈ Gen.lwReverse, lwReverse p.1 = some p.2 ∧ lwReverse p.2 = some p.1 := by
  decide

theorem lookup_mem {α β} [BEq α] [LawfulBEq α] {k : α} {v : β} :
    ∀ {t : List (α × β)}, t.lookup k = some v → (k, v) ∈ t
  | [], h => by simp at h
  | (a, b) :: t, h => by
    rw [List.lookup_cons] at h
    by_cases e : (k == a) = true
    · simp only [e] at h
      have : k = a := by simpa using e
      cases h; subst this; exact List.mem_cons_self
    · have e' : (k == a) = false := by simpa using e
      simp only [e'] at h
      exact List.mem_cons_of_mem _ (lookup_mem h)

/-- **lw_reverse_involutive**: reversing twice gives the class back -/
theorem lw_reverse_involutive (lw r : String) (h : lwReverse lw = some r) : lwReverse r = some lw :=
  (lwReverse_table (lw, r) (lookup_mem h)).2

example : lwReverse "cWH" = some "cHW" ∧ lwReverse "cHW" = some "cWH" ∧ lwReverse "tSS" = some "tSS" := by
  decide

/-- every class name the assembly stage can build (`LeontisWesthof[f"{cis_trans}{edge_i}{edge_j}"]` with
edges from the edge table) is a member of the enum, and it is the name of the label -/
theorem label_names_are_classes : ∀ cis ∈ [true, false], ∀ e1 ∈ ['W', 'H', 'S'], ∀ e2 ∈ ['W', 'H', 'S'],
    (⟨0, 1, cis, e1, e2⟩ : Label).lwName ∈ Gen.lwNames ∧
    lwReverse (⟨0, 1, cis, e1, e2⟩ : Label).lwName = some (⟨0, 1, cis, e2, e1⟩ : Label).lwName := by decide

/-! ## Saenger classes -/

/-- table-level fact (re-checked whenever the table or the LW enum changes): every key is two letters
plus a class; looking the entry up gives its own value (keys are unique), and the reversed key with the
reversed class gives the same value -/
theorem saenger_table_symmetric : ∀ e ∈ Gen.saengerTable, entrySymmetric e = true := by decide

theorem entrySymmetric_elim {e : (String × String) × String} {c1 c2 : Char} {r : String}
    (h : entrySymmetric e = true) (h1 : e.1.1.toList = [c1, c2]) (h2 : lwReverse e.1.2 = some r) :
    saenger c1 c2 e.1.2 = some e.2 ∧ saenger c2 c1 r = some e.2 := by
  unfold entrySymmetric at h
  rw [h1, h2] at h
  simpa using h

theorem saenger_some {b1 b2 : Char} {lw v : String} (h : saenger b1 b2 lw = some v) :
    ∃ e ∈ Gen.saengerTable, e.1.1.toList = [b1, b2] ∧ e.1.2 = lw ∧ e.2 = v := by
  unfold saenger at h
  cases hf : Gen.saengerTable.find? (fun e => e.1.1.toList == [b1, b2] && e.1.2 == lw) with
  | none => simp [hf] at h
  | some e =>
    simp only [hf, Option.map_some, Option.some.injEq] at h
    have hp := List.find?_some hf
    simp only [Bool.and_eq_true, beq_iff_eq] at hp
    exact ⟨e, List.mem_of_find?_eq_some hf, hp.1, hp.2, h⟩

/-- **saenger_present_iff_defined**: the lookup answers `some v` exactly when the table has an entry for
these two letters and this class, with value `v` -/
theorem saenger_present_iff_defined (b1 b2 : Char) (lw v : String) :
    saenger b1 b2 lw = some v ↔
      ∃ e ∈ Gen.saengerTable, e.1.1.toList = [b1, b2] ∧ e.1.2 = lw ∧ e.2 = v := by
  constructor
  · exact saenger_some
  · rintro ⟨e, he, h1, h2, h3⟩
    have hs := saenger_table_symmetric e he
    cases hr : lwReverse e.1.2 with
    | none =>
      unfold entrySymmetric at hs
      rw [h1, hr] at hs
      cases hs
    | some r =>
      rw [← h2, ← h3]; exact (entrySymmetric_elim hs h1 hr).1

/-- every value of the table is a member of the `Saenger` enum (`Saenger[...]` cannot raise) -/
theorem saenger_values_named : ∀ e ∈ Gen.saengerTable, e.2 ∈ Gen.saengerNames ∧ e.1.2 ∈ Gen.lwNames := by
  decide

/-- **saenger_reverse_consistent**: a pair and its reverse get the same Saenger class (or both none) -/
theorem saenger_reverse_consistent (b1 b2 : Char) (lw r : String) (hr : lwReverse lw = some r) :
    saenger b1 b2 lw = saenger b2 b1 r := by
  have key : ∀ (c1 c2 : Char) (l l' v : String), lwReverse l = some l' → saenger c1 c2 l = some v →
      saenger c2 c1 l' = some v := by
    intro c1 c2 l l' v hl hs
    obtain ⟨e, he, h1, h2, h3⟩ := saenger_some hs
    rw [← h2] at hl
    rw [← h3]; exact (entrySymmetric_elim (saenger_table_symmetric e he) h1 hl).2
  cases h : saenger b1 b2 lw with
  | some v => exact (key b1 b2 lw r v hr h).symm
  | none =>
    cases h' : saenger b2 b1 r with
    | none => rfl
    | some v =>
      have := key b2 b1 r lw v (lw_reverse_involutive lw r hr) h'
      rw [h] at this; cases this

example : lwReverse "cHW" = some "cWH" ∧ saenger 'A' 'U' "cHW" = some "XXIII" ∧
    saenger 'U' 'A' "cWH" = some "XXIII" ∧ saenger 'A' 'U' "cWH" = none ∧ saenger 'U' 'A' "cHW" = none := by
  decide

/-! ## assembly stage: orientation, order, no repeats -/

/-- **pairs_sorted_nodup_oriented**: whatever the processing order, if every collected label lists the
lower residue first (`orient_lower_first`: distinct residues have distinct sort keys), the assembled list
is sorted by (residue, residue, class), has no repeated pair, lists the lower residue first and never
joins a residue with itself; two reported pairs never share a (residue, edge) slot. -/
theorem pairs_sorted_nodup_oriented (rank : Nat → Nat) (order labels : List Label)
    (hor : ∀ l ∈ labels, rank l.lo < rank l.hi) :
    let out := assemble rank (greedyOccupy Params.gen order labels)
    out.Pairwise (fun a b => labelLe rank a b = true) ∧ out.Nodup ∧
    (∀ p ∈ out, rank p.lo < rank p.hi ∧ p.lo ≠ p.hi) := by
  have hperm := assemble_perm rank (greedyOccupy Params.gen order labels)
  refine ⟨assemble_sorted rank _, hperm.nodup_iff.mpr (greedy_nodup' (P := Params.gen) order labels), ?_⟩
  intro p hp
  have hp' : p ∈ greedyOccupy Params.gen order labels := hperm.mem_iff.mp hp
  have hl := hor p (greedy_subset (P := Params.gen) order labels (by decide) p hp')
  exact ⟨hl, fun e => by rw [e] at hl; exact Nat.lt_irrefl _ hl⟩

/-- labels built by the code's `if residue_i < residue_j … else …` list the lower residue first -/
theorem orient_lower_first {rank : Nat → Nat} {i j : Nat} (cis : Bool) (ei ej : Char)
    (hne : rank i ≠ rank j) :
    rank (orient (decide (rank i < rank j)) i j cis ei ej).lo <
      rank (orient (decide (rank i < rank j)) i j cis ei ej).hi :=
  Pairs.orient_lower_first cis ei ej hne

/-- non-vacuity: residues at positions 0,1,2 ranked 2,0,1 -/
example : let rank : Nat → Nat := fun i => [2, 0, 1].getD i 9
    let labels : List Label := [⟨1, 0, true, 'W', 'W'⟩, ⟨1, 0, true, 'W', 'W'⟩, ⟨2, 0, false, 'H', 'S'⟩,
      ⟨2, 0, false, 'H', 'S'⟩, ⟨1, 2, true, 'S', 'W'⟩, ⟨1, 2, true, 'S', 'W'⟩]
    (∀ l ∈ labels, rank l.lo < rank l.hi) ∧
    assemble rank (greedyOccupy Params.gen (mostCommonOrder labels) labels) =
      [⟨1, 2, true, 'S', 'W'⟩, ⟨1, 0, true, 'W', 'W'⟩, ⟨2, 0, false, 'H', 'S'⟩] := by decide

/-! ## base-phosphate / base-ribose -/

theorem bph_tables_snapshot :
    Gen.Ann.bphTable = Spec.PairsChemistry.bphTable ∧ Gen.Ann.mergeRules = Spec.PairsChemistry.mergeRules ∧
    Gen.Ann.bphLo = -90 ∧ Gen.Ann.bphHi = 90 ∧ Gen.Ann.hbondMaxDistance = 4 := by decide

/-- every class number the table or a merge rule can produce has a `BPh` and a `BR` enum member, and the
enum values are `kBPh` / `kBR` for k = 0…9 -/
theorem bph_classes_named :
    (∀ e ∈ Gen.Ann.bphTable, e.2.2.2.2.1 ∈ Gen.Ann.bphClassNumbers ∧ e.2.2.2.2.2 ∈ Gen.Ann.bphClassNumbers) ∧
    (∀ r ∈ Gen.Ann.mergeRules, r.2.2 ∈ Gen.Ann.bphClassNumbers) ∧
    Gen.bphValues = Gen.Ann.bphClassNumbers.map (fun k => toString k ++ "BPh") ∧
    Gen.brValues = Gen.Ann.bphClassNumbers.map (fun k => toString k ++ "BR") := by decide

/-- every classified donor is a donor of that base in `BASE_DONORS`, typed donor by `find_pairs`; a
torsion-dependent entry has both reference atoms among the base atoms -/
theorem bph_donors_are_base_donors : ∀ e ∈ Gen.Ann.bphTable,
    e.2.1 ∈ donorsOf Params.gen e.1 ∧ kindOf Params.gen e.1 e.2.1 = .donor ∧
    (e.2.2.1 = "" ∧ e.2.2.2.1 = "" ∧ e.2.2.2.2.1 = e.2.2.2.2.2 ∨
     e.2.2.1 ∈ (Gen.Ann.baseAtoms.lookup e.1).getD [] ∧ e.2.2.2.1 ∈ (Gen.Ann.baseAtoms.lookup e.1).getD []) := by
  decide

/-- **bph_class_from_donor**: the class given to a donor–oxygen contact is one of the (at most two) classes
the table lists for this base and donor atom; for an entry without reference atoms it is *the* class; for
a torsion-dependent entry it is the first class when the exact torsion test says cis and the second when
it says trans (by `C03.cis_iff` the sign test is `-90° < torsion < 90°`). -/
theorem bph_class_from_donor (r : Res) (donor : String) (dpos apos : Q3) (c : Nat)
    (h : c ∈ bphClasses Params.gen r donor dpos apos) :
    ∃ r1 r2 cin cout, (r.base, donor, r1, r2, cin, cout) ∈ Gen.Ann.bphTable ∧ (c = cin ∨ c = cout) ∧
      (r1 = "" → c = cin) := by
  obtain ⟨r1, r2, cin, cout, he, h1, h2⟩ := bphClasses_from_table r donor dpos apos c h
  refine ⟨r1, r2, cin, cout, ?_, h1, h2⟩
  unfold bphEntry at he
  cases hf : Params.gen.bphTable.find? (fun e => e.1 == r.base && e.2.1 == donor) with
  | none => simp [hf] at he
  | some e =>
    simp only [hf, Option.map_some, Option.some.injEq] at he
    have hp := List.find?_some hf
    simp only [Bool.and_eq_true, beq_iff_eq] at hp
    have hm := List.mem_of_find?_eq_some hf
    obtain ⟨b, d, rest⟩ := e
    simp only at hp he
    rw [← hp.1, ← hp.2, ← he]; exact hm

theorem bph_class_decided (r : Res) (donor : String) (dpos apos : Q3)
    {r1 r2 : String} {cin cout : Nat} {p1 p2 : Q3}
    (he : bphEntry Params.gen r.base donor = some (r1, r2, cin, cout)) (hr : r1 ≠ "")
    (h1 : findAtom r r1 = some p1) (h2 : findAtom r r2 = some p2) :
    (torsionCisTri p1 p2 dpos apos = .yes → bphClasses Params.gen r donor dpos apos = [cin]) ∧
    (torsionCisTri p1 p2 dpos apos = .no → bphClasses Params.gen r donor dpos apos = [cout]) :=
  bphClasses_decided r donor dpos apos he hr h1 h2

/-- an adenine with N1, C6, N6 in the plane z = 0 -/
def exA : Res :=
  ⟨1, "A", 1, " ", some "l", some "a", "A",
   [⟨"N1", ⟨0, 0, 0⟩⟩, ⟨"C6", ⟨1, 0, 0⟩⟩, ⟨"N6", ⟨2, 1, 0⟩⟩, ⟨"C2", ⟨-1, 1, 0⟩⟩]⟩

/-- non-vacuity: N6 contacts on the N1 side (cis, 6BPh), on the far side (trans, 7BPh), and a C2 contact -/
example : bphEntry Params.gen exA.base "N6" = some ("N1", "C6", 6, 7) ∧
    findAtom exA "N1" = some ⟨0, 0, 0⟩ ∧ findAtom exA "C6" = some ⟨1, 0, 0⟩ ∧
    bphClasses Params.gen exA "N6" ⟨2, 1, 0⟩ ⟨1, 3, 0⟩ = [6] ∧ bphClasses Params.gen exA "N6" ⟨2, 1, 0⟩ ⟨4, 1, 1⟩ = [7] ∧
    bphClasses Params.gen exA "C2" ⟨-1, 1, 0⟩ ⟨-2, 3, 0⟩ = [2] ∧ bphClasses Params.gen exA "N1" ⟨0, 0, 0⟩ ⟨0, 3, 0⟩ = [] := by
  decide +kernel

/-- **mergeClean_one_class_per_pair**: after `merge_and_clean_bph_br` every residue pair occurs once and
carries at most one class -/
theorem mergeClean_one_class_per_pair (ps : List (Nat × Nat)) :
    ((mergeClean Params.gen ps).map (·.1)).Nodup ∧ ∀ e ∈ mergeClean Params.gen ps, e.2.length ≤ 1 :=
  ⟨mergeClean_keys_nodup ps, mergeClean_len ps⟩

theorem applyRules_eq (s : List Nat) : applyRules Params.gen s = applyRule (applyRule s (3, 5, 4)) (7, 9, 8) := by
  have : Params.gen.mergeRules = [(3, 5, 4), (7, 9, 8)] := by decide
  unfold applyRules
  rw [this]; rfl

/-- **mergeClean_rules** (1): 3BPh together with 5BPh becomes 4BPh, 7 together with 9 becomes 8 -/
theorem mergeClean_rules_merge (s : List Nat) :
    (3 ∈ s → 5 ∈ s → 3 ∉ applyRules Params.gen s ∧ 5 ∉ applyRules Params.gen s ∧ 4 ∈ applyRules Params.gen s) ∧
    (7 ∈ s → 9 ∈ s → 7 ∉ applyRules Params.gen s ∧ 9 ∉ applyRules Params.gen s ∧ 8 ∈ applyRules Params.gen s) := by
  rw [applyRules_eq]
  constructor
  · intro h3 h5
    have m4 : 4 ∈ applyRule s (3, 5, 4) := by
      rw [mem_applyRule]; simp [h3, h5]
    have n3 : 3 ∉ applyRule s (3, 5, 4) := by
      rw [mem_applyRule]; simp [h3, h5]
    have n5 : 5 ∉ applyRule s (3, 5, 4) := by
      rw [mem_applyRule]; simp [h3, h5]
    refine ⟨?_, ?_, ?_⟩
    · rw [mem_applyRule]; split <;> simp [n3]
    · rw [mem_applyRule]; split <;> simp [n5]
    · rw [mem_applyRule]; split <;> simp [m4]
  · intro h7 h9
    have m7 : 7 ∈ applyRule s (3, 5, 4) := by
      rw [mem_applyRule]; split <;> simp [h7]
    have m9 : 9 ∈ applyRule s (3, 5, 4) := by
      rw [mem_applyRule]; split <;> simp [h9]
    refine ⟨?_, ?_, ?_⟩ <;> (rw [mem_applyRule]; simp [m7, m9])

/-- **mergeClean_rules** (2): the class kept for a residue pair is the *first* class that remains after the
two rules, and it is implied by the classes of the pair's contacts: one of them, or 4 with 3 and 5
present, or 8 with 7 and 9 present -/
theorem mergeClean_rules (ps : List (Nat × Nat)) :
    ∀ e ∈ mergeClean Params.gen ps, ∀ c ∈ e.2,
      (e.1, c) ∈ ps ∨ (c = 4 ∧ (e.1, 3) ∈ ps ∧ (e.1, 5) ∈ ps) ∨ (c = 8 ∧ (e.1, 7) ∈ ps ∧ (e.1, 9) ∈ ps) := by
  intro e he c hc
  unfold mergeClean at he
  obtain ⟨g, hg, rfl⟩ := List.mem_map.mp he
  have hin := mem_groupAll hg
  simp only [cleanSet] at hc
  have hc' : c ∈ applyRules Params.gen g.2 := by
    cases hh : (applyRules Params.gen g.2).head? with
    | none => simp [hh] at hc
    | some x =>
      simp only [hh, Option.toList_some, List.mem_singleton] at hc
      subst hc
      exact List.mem_of_head? hh
  rw [applyRules_eq] at hc'
  rcases applyRule_subset hc' with h | ⟨h8, h7, h9⟩
  · rcases applyRule_subset h with h | ⟨h4, h3, h5⟩
    · exact Or.inl (hin c h)
    · exact Or.inr (Or.inl ⟨h4, hin 3 h3, hin 5 h5⟩)
  · right; right
    refine ⟨h8, ?_, ?_⟩
    · rcases applyRule_subset h7 with h | ⟨h', _, _⟩
      · exact hin 7 h
      · cases h'
    · rcases applyRule_subset h9 with h | ⟨h', _, _⟩
      · exact hin 9 h
      · cases h'

/-- `impliedBy Params.gen` (the check the harness applies to the real output) is that disjunction -/
theorem impliedBy_iff (cs : List Nat) (k : Nat) :
    impliedBy Params.gen cs k = true ↔ k ∈ cs ∨ (k = 4 ∧ 3 ∈ cs ∧ 5 ∈ cs) ∨ (k = 8 ∧ 7 ∈ cs ∧ 9 ∈ cs) := by
  have : Params.gen.mergeRules = [(3, 5, 4), (7, 9, 8)] := by decide
  unfold impliedBy
  rw [this]
  simp only [List.contains_eq_mem, List.any_cons, List.any_nil, Bool.or_false, Bool.or_eq_true,
    decide_eq_true_eq, Bool.and_eq_true, beq_iff_eq]
  constructor
  · rintro (h | ⟨⟨h1, h2⟩, h3⟩ | ⟨⟨h1, h2⟩, h3⟩)
    · exact Or.inl h
    · exact Or.inr (Or.inl ⟨h1.symm, h2, h3⟩)
    · exact Or.inr (Or.inr ⟨h1.symm, h2, h3⟩)
  · rintro (h | ⟨h1, h2, h3⟩ | ⟨h1, h2, h3⟩)
    · exact Or.inl h
    · exact Or.inr (Or.inl ⟨⟨h1.symm, h2⟩, h3⟩)
    · exact Or.inr (Or.inr ⟨⟨h1.symm, h2⟩, h3⟩)

/-- examples: the residue-pair key 0 has 5 then 3 (→ 4), key 1 has 0 then 6 (first kept), key 2 has 9, 7, 3 -/
example : mergeClean Params.gen [(0, 5), (0, 3), (1, 0), (1, 6), (2, 9), (2, 7), (2, 3), (0, 5)] =
    [(0, [4]), (1, [0]), (2, [3])] ∧ cleanSet Params.gen [3, 5, 7, 9] = [4] ∧ cleanSet Params.gen [7, 9] = [8] ∧
    cleanSet Params.gen [] = [] := by decide

end RnaVerif.Props.C11

import RnaVerif.Props.C03Loop
/-!
# C11 (loop) — base–phosphate / base–ribose lists of the functional `find_pairs` model are well-formed

Re-statement, under property C11, of the theorems of `Props/C03Loop.lean` that concern the base–phosphate and
base–ribose lists (model: `RnaVerif.FindPairs`, Model/FindPairs.lean — the whole loop of `annotator.find_pairs` with its
order-dependent consumption of donor → oxygen contacts; tie to the source: regenerated tables and the functional
correspondence `harness/corr/c03_loop.py`).
-/
namespace RnaVerif.Props.C11Loop
open RnaVerif RnaVerif.Pairs RnaVerif.FindPairs

/-- every recorded contact is a donor → oxygen contact between two different analysed residues within the distance
band, with a class `bphClasses` answers (`Props.C11.bph_class_from_donor`: the class of the (base, donor) table) -/
theorem bph_br_sound (P : Params) (model : Option Int) (s : Array Res) :
    ∀ r ∈ (loop P model s).recs, RecSound P model s r := Props.C03Loop.bph_br_sound P model s

/-- an atom takes part in at most one recorded contact; `used_atoms` is exactly the set of recorded atoms -/
theorem used_atoms_exclusive (P : Params) (model : Option Int) (s : Array Res) :
    ((loop P model s).recs.flatMap (fun r => [r.ci, r.cj])).Nodup ∧
    ∀ x, x ∈ (loop P model s).used ↔ ∃ r ∈ (loop P model s).recs, x = r.ci ∨ x = r.cj :=
  Props.C03Loop.used_atoms_exclusive P model s

/-- the reported lists: class implied by the recorded classes of the residue pair, one class per residue pair -/
theorem bph_br_output (model : Option Int) (s : Array Res) (phos : Bool) :
    let out := if phos then (findPairs Params.gen model s).bph else (findPairs Params.gen model s).br
    let recd := (loop Params.gen model s).triples phos
    (∀ t ∈ out, t ∈ recd ∨ (t.2.2 = 4 ∧ (t.1, t.2.1, 3) ∈ recd ∧ (t.1, t.2.1, 5) ∈ recd) ∨
      (t.2.2 = 8 ∧ (t.1, t.2.1, 7) ∈ recd ∧ (t.1, t.2.1, 9) ∈ recd)) ∧
    (out.map (fun t => (t.1, t.2.1))).Nodup := Props.C03Loop.bph_br_output model s phos

/-- **specBph_holds**: the checker `Pairs.specBph` that `harness/corr/c11.py` runs on the REAL lists reports no failure
on the lists of the functional model -/
theorem specBph_holds (model : Option Int) (s : Array Res) (phos : Bool) (kind : String)
    (hid : ∀ r ∈ s.toList, sameResidue r r = true) :
    (specBph Params.gen kind (branchNames Params.gen phos) s
      ((if phos then (findPairs Params.gen model s).bph else (findPairs Params.gen model s).br).map
        (fun t => ⟨t.1, t.2.1, t.2.2⟩))).fails = [] := Props.C03Loop.specBph_holds model s phos kind hid

example : ∀ r ∈ exF.toList, sameResidue r r = true := by decide +kernel

/-- `Pairs.bcontacts` (pre-filtered by bounding balls) lists every donor → oxygen contact between two different
positions that the distance test does not answer `no` -/
theorem bcontacts_complete (names : List String) (s : Array Res) (d a : Nat) (rd ra : Res) (dn an : String)
    (dp ap : Q3) (hda : d ≠ a) (ed : s[d]? = some rd) (ea : s[a]? = some ra) (hs : sameResidue rd ra = false)
    (hdn : dn ∈ pointNames Params.gen rd.base) (hk : kindOf Params.gen rd.base dn = .donor)
    (hfd : findAtom rd dn = some dp) (han : an ∈ names) (han' : an ∈ pointNames Params.gen ra.base)
    (hfa : findAtom ra an = some ap) (ht : distTri Params.gen (V3.dist2 dp ap) ≠ .no) :
    ∃ bc ∈ bcontacts Params.gen names s, bc.d = d ∧ bc.a = a ∧ bc.dn = dn ∧ bc.an = an ∧
      bc.classes = bphClasses Params.gen rd dn dp ap :=
  mem_bcontacts_of (by decide +kernel) hda ed ea hs hdn hk hfd han han' hfa ht

example : ∃ bc ∈ bcontacts Params.gen Params.gen.riboseAcceptors exF, bc.d = 2 ∧ bc.a = 0 ∧ bc.classes = [2] := by
  decide +kernel

end RnaVerif.Props.C11Loop

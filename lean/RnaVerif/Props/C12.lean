import RnaVerif.Lemmas.Pure
import RnaVerif.Lemmas.Removals
/-! # C12 — secondary-structure objects are pure: queries and derivations never change them -/
namespace RnaVerif.Props.C12
open RnaVerif RnaVerif.SecStr RnaVerif.SecStr.Removals

/-- one step keeps the entries and keeps every filled cache slot equal to a fresh computation,
and answers what a fresh object answers -/
theorem step_keeps_invariant (opt) (es : List Entry) (o : Obj) (op : Op) (inv : ObjInv opt es o) :
    ObjInv opt es (step opt o op).1 ∧ (step opt o op).2 = answerFresh opt es op :=
  step_inv opt es o op inv

/-- **any interleaving of calls answers as a fresh copy of the original would** — for every
structure, every (deterministic) solver choice `opt` and every call sequence of any length -/
theorem history_as_fresh (opt : List Entry → Except Err (List Char)) (es : List Entry) (ops : List Op) :
    run opt { entries := es } ops = ops.map (answerFresh opt es) :=
  run_as_fresh opt es ops _ (init_inv' opt es)

/-- the entries (hence BPSEQ text and pairs) of the object are never changed by any history -/
theorem entries_unchanged (opt) (es : List Entry) (ops : List Op) :
    (ops.foldl (fun o op => (step opt o op).1) { entries := es }).entries = es := by
  suffices h : ∀ (o : Obj), ObjInv opt es o → (ops.foldl (fun o op => (step opt o op).1) o).entries = es from
    h _ (init_inv' opt es)
  induction ops with
  | nil => intro o inv; exact inv.ents
  | cons op ops ih => intro o inv; exact ih _ (step_inv opt es o op inv).1

-- non-vacuity: a concrete history on a knotted structure
example :
    let es : List Entry := [⟨1,'A',5⟩,⟨2,'C',7⟩,⟨3,'G',0⟩,⟨4,'U',0⟩,⟨5,'A',1⟩,⟨6,'C',8⟩,⟨7,'G',2⟩,⟨8,'U',6⟩]
    run (fun es => fcfs es) { entries := es } [.withoutIsolated, .str, .fcfs, .withoutPseudoknots] =
      [.text "1 A 0\n2 C 0\n3 G 0\n4 U 0\n5 A 0\n6 C 0\n7 G 0\n8 U 0",
       .text "1 A 5\n2 C 7\n3 G 0\n4 U 0\n5 A 1\n6 C 8\n7 G 2\n8 U 6",
       .text "([..)(])",
       .text "1 A 5\n2 C 0\n3 G 0\n4 U 0\n5 A 1\n6 C 8\n7 G 0\n8 U 6"] := by decide

/-! ## the two removals return what the statement says

First sentence of C12: "Removing pseudoknots returns exactly the pairs that the structure's own
dot-bracket writes with round brackets, and removing isolated pairs returns exactly the pairs that
belong to stems of length two or more, both with the sequence unchanged."  Proofs are in
`Lemmas/Removals.lean`. -/

/-! ### bridges to the generated tables -/

/-- bridge: the replacement text of `DotBracket.without_pseudoknots` is a single dot -/
theorem pkRepl_is_dot : Gen.pkRepl = ['.'] := by decide

/-- bridge: 30 bracket types, and level 0 is the round bracket -/
theorem level0_is_round :
    Gen.encBrackets.length = 30 ∧ Gen.encBrackets.getD 0 ('?', '?') = ('(', ')') := by decide

/-- bridge: the character class replaced by `DotBracket.without_pseudoknots` is exactly the set of
opening and closing brackets of the levels 1..29 of the writer's bracket list; it contains neither
round bracket nor the dot -/
theorem pkStripped_is_levels_ge_1 :
    (∀ c, c ∈ Gen.pkStripped ↔ ∃ l, 1 ≤ l ∧ l < 30 ∧
      (c = charOfTok Gen.encBrackets (.op l) ∨ c = charOfTok Gen.encBrackets (.cl l))) ∧
    '(' ∉ Gen.pkStripped ∧ ')' ∉ Gen.pkStripped ∧ '.' ∉ Gen.pkStripped := by
  have h1 : ∀ c ∈ Gen.pkStripped, ∃ l ∈ List.range 30, 1 ≤ l ∧
      (c = charOfTok Gen.encBrackets (.op l) ∨ c = charOfTok Gen.encBrackets (.cl l)) := by decide
  have h2 : ∀ l, l < 30 → 1 ≤ l → charOfTok Gen.encBrackets (.op l) ∈ Gen.pkStripped ∧
      charOfTok Gen.encBrackets (.cl l) ∈ Gen.pkStripped := by decide
  refine ⟨fun c => ⟨fun hc => ?_, ?_⟩, by decide, by decide, by decide⟩
  · obtain ⟨l, hl, h1l, h⟩ := h1 c hc
    exact ⟨l, h1l, List.mem_range.mp hl, h⟩
  · rintro ⟨l, h1l, hl, rfl | rfl⟩
    · exact (h2 l hl h1l).1
    · exact (h2 l hl h1l).2

/-- the same on the level of what is done to one written character: brackets of level 0 and dots
stay, brackets of the levels 1..29 become dots -/
theorem strip_written_char (t : Tok) (h : t.levelLt 30) :
    stripChar (charOfTok Gen.encBrackets t) = charOfTok Gen.encBrackets (stripTok t) := by
  have h' : t.levelLt Gen.encBrackets.length := by rw [level0_is_round.1]; exact h
  cases t with
  | dot => exact stripChar_dot
  | op l => exact stripChar_op l h'
  | cl l => exact stripChar_cl l h'

example : (Tok.op 3).levelLt 30 ∧ stripTok (.op 3) = .dot ∧ stripTok (.cl 0) = .cl 0 :=
  ⟨by show 3 < 30; decide, rfl, rfl⟩

/-! ### removing isolated pairs -/

/-- **withoutIsolated_eq_long_stems**: for a valid BPSEQ, `without_isolated` returns a valid BPSEQ
with the same sequence, length and indices, whose 5'→3' pairs (each listed once) are exactly the
pairs of the structure that lie in a stem (`regions`, expanded by `stemPairs`) of length two or
more. -/
theorem withoutIsolated_eq_long_stems {es : List Entry} (hv : valid es = true) :
    sequence (withoutIsolated es) = sequence es ∧
    (withoutIsolated es).length = es.length ∧
    (withoutIsolated es).map (·.idx) = es.map (·.idx) ∧
    valid (withoutIsolated es) = true ∧
    (pairs0 (withoutIsolated es)).Nodup ∧
    ∀ p, p ∈ pairs0 (withoutIsolated es) ↔
      p ∈ pairs0 es ∧ ∃ r ∈ regions es, 2 ≤ r.len ∧ p ∈ stemPairs r := by
  have v := (SecStr.valid_iff es).mp hv
  have v' := withoutIsolated_valid v
  exact ⟨withoutIsolated_sequence es, withoutIsolated_length es, withoutIsolated_idx es,
    (SecStr.valid_iff _).mpr v', pairs0_nodup v', pairs0_withoutIsolated v⟩

/-- example: `ACGUACGUAC`, stem 1-10/2-9 of length two and the isolated pair 4-7 -/
def exIso : List Entry :=
  [⟨1, 'A', 10⟩, ⟨2, 'C', 9⟩, ⟨3, 'G', 0⟩, ⟨4, 'U', 7⟩, ⟨5, 'A', 0⟩, ⟨6, 'C', 0⟩, ⟨7, 'G', 4⟩,
   ⟨8, 'U', 0⟩, ⟨9, 'A', 2⟩, ⟨10, 'C', 1⟩]

/-- the same without the isolated pair -/
def exNoIso : List Entry :=
  [⟨1, 'A', 10⟩, ⟨2, 'C', 9⟩, ⟨3, 'G', 0⟩, ⟨4, 'U', 0⟩, ⟨5, 'A', 0⟩, ⟨6, 'C', 0⟩, ⟨7, 'G', 0⟩,
   ⟨8, 'U', 0⟩, ⟨9, 'A', 2⟩, ⟨10, 'C', 1⟩]

-- non-vacuity: valid inputs, one with an isolated pair (which is removed), one without (unchanged)
example : valid exIso = true ∧ valid exNoIso = true ∧
    regions exIso = [⟨1, 10, 2⟩, ⟨4, 7, 1⟩] ∧ regions exNoIso = [⟨1, 10, 2⟩] ∧
    pairs0 exIso = [(0, 9), (1, 8), (3, 6)] ∧
    withoutIsolated exIso = exNoIso ∧ withoutIsolated exNoIso = exNoIso ∧
    pairs0 (withoutIsolated exIso) = [(0, 9), (1, 8)] := by decide

/-! ### removing pseudoknots -/

/-- **withoutPseudoknots_eq_level0**: let `db` be the dot-bracket the structure itself writes
(`__make_dot_bracket` with any proper level vector, one level `< 30` per stem — in particular what
`dot_bracket` / `fcfs` return).  Then `without_pseudoknots` succeeds and returns a valid BPSEQ of
the same length over the same sequence whose 5'→3' pairs (each listed once) are exactly

* the pairs of the stems whose level is 0, i.e.
* the pairs of the structure that `db` writes with round brackets. -/
theorem withoutPseudoknots_eq_level0 {es : List Entry} {lvs : List Nat} {db : List Char}
    (hv : valid es = true) (hlen : lvs.length = (regions es).length) (hlv : ∀ l ∈ lvs, l < 30)
    (hp : proper (adjOf conflictSpec (regions es)) lvs = true)
    (hdb : mkDB es.length (regions es) lvs = .ok db) :
    ∃ es', withoutPseudoknots es db = .ok es' ∧ sequence es' = sequence es ∧
      es'.length = es.length ∧ valid es' = true ∧ (pairs0 es').Nodup ∧
      (∀ p, p ∈ pairs0 es' ↔ ∃ q ∈ (regions es).zip lvs, q.2 = 0 ∧ p ∈ stemPairs q.1) ∧
      (∀ p, p ∈ pairs0 es' ↔ p ∈ pairs0 es ∧ db[p.1]? = some '(' ∧ db[p.2]? = some ')') := by
  have v := (SecStr.valid_iff es).mp hv
  have hlv' : ∀ l ∈ lvs, l < Gen.encBrackets.length := by rw [level0_is_round.1]; exact hlv
  have hp' := properP_of_proper hp
  obtain ⟨es', h1, h2, h3, h4, h5, h6⟩ := withoutPseudoknots_spec v hlen hlv' hp' hdb
  refine ⟨es', h1, h2, h3, (SecStr.valid_iff _).mpr h4, h5, fun p => ?_, fun p => ?_⟩
  · rw [h6, mem_triples_level0]
  · rw [h6, withoutPseudoknots_round v hlen hlv' hp' hdb]

/-- the knotted running example `ACGUACGU`, pairs 1-5, 2-7, 6-8 -/
def exKnot : List Entry :=
  [⟨1, 'A', 5⟩, ⟨2, 'C', 7⟩, ⟨3, 'G', 0⟩, ⟨4, 'U', 0⟩, ⟨5, 'A', 1⟩, ⟨6, 'C', 8⟩, ⟨7, 'G', 2⟩,
   ⟨8, 'U', 6⟩]

-- non-vacuity: a knotted structure with levels [0, 1, 0]; the square-bracket pair 2-7 is removed
example : valid exKnot = true ∧ [0, 1, 0].length = (regions exKnot).length ∧
    (∀ l ∈ [0, 1, 0], l < 30) ∧ proper (adjOf conflictSpec (regions exKnot)) [0, 1, 0] = true ∧
    (mkDB exKnot.length (regions exKnot) [0, 1, 0]).toOption =
      some ['(', '[', '.', '.', ')', '(', ']', ')'] ∧
    stripPk ['(', '[', '.', '.', ')', '(', ']', ')'] = ['(', '.', '.', '.', ')', '(', '.', ')'] ∧
    (withoutPseudoknots exKnot ['(', '[', '.', '.', ')', '(', ']', ')']).toOption.map pairs0 =
      some [(0, 4), (5, 7)] := by decide

/-! ### the sequence is unchanged; the object model answers with exactly these entries -/

/-- both removals keep the sequence — for every input, valid or not, and whatever dot-bracket the
pseudoknot removal is given -/
theorem removal_sequence_unchanged (es : List Entry) :
    sequence (withoutIsolated es) = sequence es ∧
    ∀ db es', withoutPseudoknots es db = .ok es' → sequence es' = sequence es :=
  ⟨withoutIsolated_sequence es, fun _ _ h => withoutPseudoknots_sequence h⟩

/-- the object model's `without_isolated` answer carries exactly the entries `withoutIsolated es`
(whenever the cached `dot_bracket` it goes through does not raise) -/
theorem answer_withoutIsolated (opt : List Entry → Except Err (List Char)) (es : List Entry)
    {db : List Char} (h : opt es = .ok db) :
    answerFresh opt es .withoutIsolated = .text (showEntriesText (withoutIsolated es)) := by
  simp only [answerFresh, h]
  cases es with
  | nil => rfl
  | cons e es => rfl

/-- the object model's `without_pseudoknots` answer carries exactly the entries
`withoutPseudoknots es db` for the object's own dot-bracket `db` -/
theorem answer_withoutPseudoknots (opt : List Entry → Except Err (List Char)) (es : List Entry)
    {db : List Char} {es' : List Entry} (h : opt es = .ok db)
    (h' : withoutPseudoknots es db = .ok es') :
    answerFresh opt es .withoutPseudoknots = .text (showEntriesText es') := by
  simp only [answerFresh, h]
  show ansOf showEntriesText (withoutPseudoknots es db) = _
  rw [h']; rfl

/-- **both removals of the object model, as stated**: if the object's `dot_bracket` is what
`__make_dot_bracket` writes for a proper level vector, then in any history the two removal calls
answer with the BPSEQ texts of two structures over the unchanged sequence whose pairs are exactly
the pairs in stems of length ≥ 2, resp. the pairs written with round brackets. -/
theorem removals_answers {opt : List Entry → Except Err (List Char)} {es : List Entry}
    {lvs : List Nat} {db : List Char}
    (hv : valid es = true) (hlen : lvs.length = (regions es).length) (hlv : ∀ l ∈ lvs, l < 30)
    (hp : proper (adjOf conflictSpec (regions es)) lvs = true)
    (hdb : mkDB es.length (regions es) lvs = .ok db) (hopt : opt es = .ok db) :
    ∃ eI eP, answerFresh opt es .withoutIsolated = .text (showEntriesText eI) ∧
      answerFresh opt es .withoutPseudoknots = .text (showEntriesText eP) ∧
      sequence eI = sequence es ∧ sequence eP = sequence es ∧
      valid eI = true ∧ valid eP = true ∧
      (∀ p, p ∈ pairs0 eI ↔ p ∈ pairs0 es ∧ ∃ r ∈ regions es, 2 ≤ r.len ∧ p ∈ stemPairs r) ∧
      (∀ p, p ∈ pairs0 eP ↔ p ∈ pairs0 es ∧ db[p.1]? = some '(' ∧ db[p.2]? = some ')') := by
  obtain ⟨i1, _, _, i4, _, i6⟩ := withoutIsolated_eq_long_stems hv
  obtain ⟨eP, p1, p2, _, p4, _, _, p7⟩ := withoutPseudoknots_eq_level0 hv hlen hlv hp hdb
  exact ⟨_, eP, answer_withoutIsolated opt es hopt, answer_withoutPseudoknots opt es hopt p1,
    i1, p2, i4, p4, i6, p7⟩

-- non-vacuity: the knotted example with `opt := fcfs` (levels [0, 1, 0])
example : valid exKnot = true ∧ [0, 1, 0].length = (regions exKnot).length ∧
    (∀ l ∈ [0, 1, 0], l < 30) ∧ proper (adjOf conflictSpec (regions exKnot)) [0, 1, 0] = true ∧
    (mkDB exKnot.length (regions exKnot) [0, 1, 0]).toOption =
      some ['(', '[', '.', '.', ')', '(', ']', ')'] ∧
    (fcfs exKnot).toOption = some ['(', '[', '.', '.', ')', '(', ']', ')'] ∧
    answerFresh (fun es => fcfs es) exKnot .withoutPseudoknots =
      .text "1 A 5\n2 C 0\n3 G 0\n4 U 0\n5 A 1\n6 C 8\n7 G 0\n8 U 6" ∧
    answerFresh (fun es => fcfs es) exIso .withoutIsolated =
      .text "1 A 10\n2 C 9\n3 G 0\n4 U 0\n5 A 0\n6 C 0\n7 G 0\n8 U 0\n9 A 2\n10 C 1" := by decide

/-! ### "exactly": sequence and pairs describe the returned structure completely -/

/-- two valid BPSEQs of the same length with the same sequence and the same set of 5'→3' pairs are
the same list of entries; hence the two theorems above pin the returned objects down completely -/
theorem entries_determined {a b : List Entry} (ha : valid a = true) (hb : valid b = true)
    (hl : a.length = b.length) (hs : sequence a = sequence b)
    (hp : ∀ p, p ∈ pairs0 a ↔ p ∈ pairs0 b) : a = b :=
  valid_ext ((SecStr.valid_iff a).mp ha) ((SecStr.valid_iff b).mp hb) hl hs hp

example : valid (withoutIsolated exIso) = true ∧ valid exNoIso = true ∧
    (withoutIsolated exIso).length = exNoIso.length ∧
    sequence (withoutIsolated exIso) = sequence exNoIso ∧
    pairs0 (withoutIsolated exIso) = pairs0 exNoIso := by decide

/-- consequence: a structure whose own dot-bracket uses round brackets only (all levels 0) is
returned unchanged by `without_pseudoknots` -/
theorem withoutPseudoknots_knot_free {es : List Entry} {lvs : List Nat} {db : List Char}
    (hv : valid es = true) (hlen : lvs.length = (regions es).length) (hz : ∀ l ∈ lvs, l = 0)
    (hp : proper (adjOf conflictSpec (regions es)) lvs = true)
    (hdb : mkDB es.length (regions es) lvs = .ok db) :
    withoutPseudoknots es db = .ok es :=
  withoutPseudoknots_all_zero ((SecStr.valid_iff es).mp hv) hlen hz (properP_of_proper hp) hdb

example : valid exIso = true ∧ [0, 0].length = (regions exIso).length ∧ (∀ l ∈ [0, 0], l = 0) ∧
    proper (adjOf conflictSpec (regions exIso)) [0, 0] = true ∧
    (mkDB exIso.length (regions exIso) [0, 0]).toOption =
      some ['(', '(', '.', '(', '.', '.', ')', '.', ')', ')'] := by decide

/-- consequence: a structure all of whose stems have length ≥ 2 is returned unchanged by
`without_isolated` -/
theorem withoutIsolated_no_isolated {es : List Entry} (h : ∀ r ∈ regions es, 2 ≤ r.len) :
    withoutIsolated es = es :=
  Removals.withoutIsolated_no_isolated (fun r hr hl => by have := h r hr; omega)

example : ∀ r ∈ regions exNoIso, 2 ≤ r.len := by decide

end RnaVerif.Props.C12

import RnaVerif.Lemmas.Pure
/-! # C12 — secondary-structure objects are pure: queries and derivations never change them -/
namespace RnaVerif.Props.C12
open RnaVerif RnaVerif.SecStr

/-- one step keeps the entries and keeps every filled cache slot equal to a fresh computation,
and answers what a fresh object answers -/
theorem step_keeps_invariant (opt) (es : List Entry) (o : Obj) (op : Op) (inv : ObjInv opt es o) :
    ObjInv opt es (step opt o op).1 ∧ (step opt o op).2 = answerFresh opt es op :=
  step_inv opt es o op inv

/-- **any interleaving of calls answers as a fresh copy of the original would** — for every
structure, every (deterministic) solver choice `opt` and every call sequence of any length -/
theorem history_as_fresh (opt : List Entry → Except Err (List Char)) (es : List Entry) (ops : List Op) :
    run opt { entries := es } ops = ops.map (answerFresh opt es) :=
  run_as_fresh opt es ops _ (init_inv' opt es)

/-- the entries (hence BPSEQ text and pairs) of the object are never changed by any history -/
theorem entries_unchanged (opt) (es : List Entry) (ops : List Op) :
    (ops.foldl (fun o op => (step opt o op).1) { entries := es }).entries = es := by
  suffices h : ∀ (o : Obj), ObjInv opt es o → (ops.foldl (fun o op => (step opt o op).1) o).entries = es from
    h _ (init_inv' opt es)
  induction ops with
  | nil => intro o inv; exact inv.ents
  | cons op ops ih => intro o inv; exact ih _ (step_inv opt es o op inv).1

-- non-vacuity: a concrete history on a knotted structure
example :
    let es : List Entry := [⟨1,'A',5⟩,⟨2,'C',7⟩,⟨3,'G',0⟩,⟨4,'U',0⟩,⟨5,'A',1⟩,⟨6,'C',8⟩,⟨7,'G',2⟩,⟨8,'U',6⟩]
    run (fun es => fcfs es) { entries := es } [.withoutIsolated, .str, .fcfs, .withoutPseudoknots] =
      [.text "1 A 0\n2 C 0\n3 G 0\n4 U 0\n5 A 0\n6 C 0\n7 G 0\n8 U 0",
       .text "1 A 5\n2 C 7\n3 G 0\n4 U 0\n5 A 1\n6 C 8\n7 G 2\n8 U 6",
       .text "([..)(])",
       .text "1 A 5\n2 C 0\n3 G 0\n4 U 0\n5 A 1\n6 C 8\n7 G 0\n8 U 6"] := by decide

end RnaVerif.Props.C12

import RnaVerif.Lemmas.PureExt
import RnaVerif.Lemmas.Text
import RnaVerif.Props.C13
/-! # C12 (extension) — purity over more of the object's public surface

The object model of `Props/C12.lean` wrapped with the remaining public calls of `BpSeq`:
`convert_to_dot_bracket(solver)` with an explicit solver argument (every solver outcome of C13),
`sequence`, the dictionary `pairs`, `__eq__`, and the text round trip `from_string(str(b))`. -/
namespace RnaVerif.Props.C12Ext
open RnaVerif RnaVerif.SecStr

/-- **history_as_fresh_ext**: any interleaving of the extended call set answers as a fresh copy of
the original would — every structure, every deterministic solver choice `opt` for the cached
property, every outcome of every explicitly passed solver, every history length -/
theorem history_as_fresh_ext (opt : List Entry → Except Err (List Char)) (es : List Entry)
    (ops : List OpX) : runX opt (freshX es) ops = ops.map (answerFreshX opt es) :=
  runX_as_fresh opt es ops _ (freshX_inv opt es)

/-- the same from **every** object whose filled slots are consistent with its entries — whichever
slots the real code happens to have filled on the way (e.g. `sequence` by `__make_dot_bracket`,
`fcfs` by a fall-back) does not matter -/
theorem history_from_consistent_state (opt : List Entry → Except Err (List Char)) (es : List Entry)
    (o : ObjX) (inv : ObjXInv opt es o) (ops : List OpX) :
    runX opt o ops = ops.map (answerFreshX opt es) :=
  runX_as_fresh opt es ops o inv

/-- the entries (hence BPSEQ text and pairs) are never changed by any extended history, and every
filled slot still holds what a fresh computation gives -/
theorem entries_unchanged_ext (opt) (es : List Entry) (ops : List OpX) :
    (afterX opt (freshX es) ops).base.entries = es ∧ ObjXInv opt es (afterX opt (freshX es) ops) :=
  ⟨(afterX_inv opt es ops _ (freshX_inv opt es)).base.ents, afterX_inv opt es ops _ (freshX_inv opt es)⟩

/-- `convert_to_dot_bracket(solver)` never writes the `dot_bracket` slot, whatever the solver did -/
theorem convert_leaves_dot_slot (opt) (o : ObjX) (present : Bool) (out : Outcome) :
    (stepX opt o (.convert present out)).1.base.cDot = o.base.cDot :=
  stepX_convert_cDot opt o present out

/-- `convert_to_dot_bracket(None)` answers the first-come-first-served notation (C13 bridge on how
the fall-backs are written in the present source) -/
theorem convert_none_is_fcfs (opt) (es : List Entry) (out : Outcome) :
    answerFreshX opt es (.convert false out) = ansOf String.ofList (fcfs es) := by
  show ansOf String.ofList (convert es false out) = _
  unfold convert
  simp only [Bool.not_false, if_true]
  rw [C13.fallback_eq_fcfs es 0 (by omega)]

/-- a faulting solver (raises / status not optimal) on a knotted structure: FCFS as well -/
theorem convert_fault_is_fcfs (opt) (es : List Entry) (out : Outcome)
    (hk : noEdges Gen.conflictConvert (regions es) = false) (h : out = .raises ∨ out = .notOptimal) :
    answerFreshX opt es (.convert true out) = ansOf String.ofList (fcfs es) := by
  show ansOf String.ofList (convert es true out) = _
  rw [C13.convert_fallback es true out hk (Or.inr h)]

/-- **convert_does_not_poison_cache**: after any history `pre`, calling
`convert_to_dot_bracket(None)` and then reading `dot_bracket` gives FCFS and then the *optimal*
notation `opt es`; and the other way round (`dot_bracket` first) the explicit call still gives
FCFS.  Neither call's answer is ever served from the other's slot. -/
theorem convert_does_not_poison_cache (opt : List Entry → Except Err (List Char)) (es : List Entry)
    (pre : List OpX) (out : Outcome) :
    runX opt (freshX es) (pre ++ [.convert false out, .base .dotBracket]) =
      pre.map (answerFreshX opt es) ++ [ansOf String.ofList (fcfs es), ansOf String.ofList (opt es)] ∧
    runX opt (freshX es) (pre ++ [.base .dotBracket, .convert false out]) =
      pre.map (answerFreshX opt es) ++ [ansOf String.ofList (opt es), ansOf String.ofList (fcfs es)] := by
  constructor <;>
  · rw [history_as_fresh_ext, List.map_append]
    simp only [List.map_cons, List.map_nil, convert_none_is_fcfs]
    rfl

/-- the structure `(.[[[.)..]]]`: one pair opening first, crossed by a stem of three -/
def exPoison : List Entry :=
  [⟨1, 'G', 7⟩, ⟨2, 'C', 0⟩, ⟨3, 'A', 12⟩, ⟨4, 'U', 11⟩, ⟨5, 'G', 10⟩, ⟨6, 'C', 0⟩, ⟨7, 'C', 1⟩,
   ⟨8, 'A', 0⟩, ⟨9, 'U', 0⟩, ⟨10, 'C', 5⟩, ⟨11, 'A', 4⟩, ⟨12, 'U', 3⟩]

/-- the optimal notation of `exPoison` (levels `[1, 0]`: the long stem gets the round brackets) -/
def exOpt (es : List Entry) : Except Err (List Char) := mkDB es.length (regions es) [1, 0]

-- non-vacuity: FCFS ≠ optimal on this structure, and the model answers each call with its own
-- notation in both orders, with further calls in between
example : valid exPoison = true ∧ regions exPoison = [⟨1, 7, 1⟩, ⟨3, 12, 3⟩] ∧
    noEdges Gen.conflictConvert (regions exPoison) = false ∧
    (fcfs exPoison).toOption = some "(.[[[.)..]]]".toList ∧
    (exOpt exPoison).toOption = some "[.(((.]..)))".toList := by decide

example : runX exOpt (freshX exPoison) [.convert false .raises, .base .dotBracket, .convert true .notOptimal,
      .base .withoutPseudoknots, .convert true (.optimal [(0, 1), (1, 0)]), .base .fcfs] =
    [.text "(.[[[.)..]]]", .text "[.(((.]..)))", .text "(.[[[.)..]]]",
     .text "1 G 0\n2 C 0\n3 A 12\n4 U 11\n5 G 10\n6 C 0\n7 C 0\n8 A 0\n9 U 0\n10 C 5\n11 A 4\n12 U 3",
     .text "[.(((.]..)))", .text "(.[[[.)..]]]"] := by decide

example : runX exOpt (freshX exPoison) [.base .dotBracket, .convert false .raises, .base .dotBracket] =
    [.text "[.(((.]..)))", .text "(.[[[.)..]]]", .text "[.(((.]..)))"] := by decide

/-! ### the small queries -/

/-- `__eq__` is equality of the entry lists -/
theorem eq_iff (a b : List Entry) : eqEntries a b = true ↔ a = b := by
  unfold eqEntries
  induction a generalizing b with
  | nil => cases b <;> simp
  | cons x xs ih =>
    cases b with
    | nil => simp
    | cons y ys =>
      have := ih ys
      simp only [List.length_cons, List.zip_cons_cons, List.all_cons, Bool.and_eq_true, beq_iff_eq,
        Nat.add_right_cancel_iff, List.cons.injEq] at this ⊢
      constructor
      · rintro ⟨hl, ⟨⟨h1, h2⟩, h3⟩, hr⟩
        refine ⟨?_, this.mp ⟨hl, hr⟩⟩
        cases x; cases y; simp_all
      · rintro ⟨rfl, rfl⟩
        exact ⟨rfl, ⟨⟨rfl, rfl⟩, rfl⟩, (this.mpr rfl).2⟩

/-- an object compares equal to (a copy of) itself in any history -/
theorem eq_self_answer (opt) (es : List Entry) : answerFreshX opt es (.eq es) = .text "True" := by
  show Answer.text (pyBool (eqEntries es es)) = _
  rw [(eq_iff es es).mpr rfl]; rfl

/-- the text round trip `BpSeq.from_string(str(b))` gives back the same text and an object that
compares equal, whenever the entries are printable (`WellFormedEntries`, C01 text layer) -/
theorem roundTrip_answer (opt) (es : List Entry)
    (h : Text.WellFormedEntries (es.map Text.EntryS.ofEntry)) :
    answerFreshX opt es .roundTrip = .text (Text.printBpseq es ++ "|True") := by
  show roundTripAnswer es = _
  unfold roundTripAnswer
  have hp : Text.parseBpseq (Text.printBpseq es) = .ok (es.map Text.EntryS.ofEntry) := by
    have := Text.parseBpseqW_print h
    unfold Text.parseBpseq Text.printBpseq; rw [this]; rfl
  rw [hp]
  have hb : (List.map Text.EntryS.ofEntry es == List.map Text.EntryS.ofEntry es) = true := by simp
  simp only [hb, pyBool, if_true, Text.printBpseq]
  rw [String.append_assoc]
  rfl

example : Text.WellFormedEntries (exPoison.map Text.EntryS.ofEntry) := by decide

-- the dictionary `pairs`, `sequence`, `__eq__` against a different structure, and the round trip
example : runX exOpt (freshX exPoison) [.sequence, .base .withoutIsolated, .sequence, .pairsDict,
      .eq exPoison, .eq (withoutIsolated exPoison)] =
    [.text "GCAUGCCAUCAU",
     .text "1 G 0\n2 C 0\n3 A 12\n4 U 11\n5 G 10\n6 C 0\n7 C 0\n8 A 0\n9 U 0\n10 C 5\n11 A 4\n12 U 3",
     .text "GCAUGCCAUCAU", .text "1:7,3:12,4:11,5:10,7:1,10:5,11:4,12:3", .text "True", .text "False"] := by
  decide

end RnaVerif.Props.C12Ext

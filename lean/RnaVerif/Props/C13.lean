import RnaVerif.Model.Convert
/-! # C13 — dot-bracket generation survives every solver configuration and solver fault -/
namespace RnaVerif.Props.C13
open RnaVerif RnaVerif.SecStr

/-- bridge (regenerated from the source): `fcfs` is a cached property and none of the three
fall-backs of `convert_to_dot_bracket` calls it -/
theorem fallback_sites_ok : Gen.fcfsIsProperty = true ∧ Gen.fallbackCalls = [false, false, false] := by decide

/-- every fall-back is the first-come-first-served encoding -/
theorem fallback_eq_fcfs (es : List Entry) (k : Nat) (hk : k < 3) : fallback es k = fcfs es := by
  have h := fallback_sites_ok
  unfold fallback
  rw [h.1, h.2]
  have : k = 0 ∨ k = 1 ∨ k = 2 := by omega
  rcases this with rfl | rfl | rfl <;> simp

/-- whenever the solver cannot deliver an optimal solution (absent, raises, non-optimal status)
and the structure is knotted, the result is the FCFS encoding -/
theorem convert_fallback (es : List Entry) (present : Bool) (o : Outcome)
    (hk : noEdges Gen.conflictConvert (regions es) = false)
    (h : present = false ∨ o = .raises ∨ o = .notOptimal) :
    convert es present o = fcfs es := by
  unfold convert
  rcases h with h | h | h
  · subst h; simpa using fallback_eq_fcfs es 0 (by omega)
  · subst h
    cases present
    · simpa using fallback_eq_fcfs es 0 (by omega)
    · simpa [hk] using fallback_eq_fcfs es 1 (by omega)
  · subst h
    cases present
    · simpa using fallback_eq_fcfs es 0 (by omega)
    · simpa [hk] using fallback_eq_fcfs es 2 (by omega)

example : noEdges Gen.conflictConvert (regions
    [⟨1,'A',5⟩,⟨2,'C',7⟩,⟨3,'G',0⟩,⟨4,'U',0⟩,⟨5,'A',1⟩,⟨6,'C',8⟩,⟨7,'G',2⟩,⟨8,'U',6⟩]) = false := by decide

end RnaVerif.Props.C13

import RnaVerif.Model.Convert
import RnaVerif.Props.C01
/-! # C13 — dot-bracket generation survives every solver configuration and solver fault -/
namespace RnaVerif.Props.C13
open RnaVerif RnaVerif.SecStr

/-- bridge (regenerated from the source): `fcfs` is a cached property and none of the three
fall-backs of `convert_to_dot_bracket` calls it -/
theorem fallback_sites_ok : Gen.fcfsIsProperty = true ∧ Gen.fallbackCalls = [false, false, false] := by decide

/-- every fall-back is the first-come-first-served encoding -/
theorem fallback_eq_fcfs (es : List Entry) (k : Nat) (hk : k < 3) : fallback es k = fcfs es := by
  have h := fallback_sites_ok
  unfold fallback
  rw [h.1, h.2]
  have : k = 0 ∨ k = 1 ∨ k = 2 := by omega
  rcases this with rfl | rfl | rfl <;> simp

/-- whenever the solver cannot deliver an optimal solution (absent, raises, non-optimal status)
and the structure is knotted, the result is the FCFS encoding -/
theorem convert_fallback (es : List Entry) (present : Bool) (o : Outcome)
    (hk : noEdges Gen.conflictConvert (regions es) = false)
    (h : present = false ∨ o = .raises ∨ o = .notOptimal) :
    convert es present o = fcfs es := by
  unfold convert
  rcases h with h | h | h
  · subst h; simpa using fallback_eq_fcfs es 0 (by omega)
  · subst h
    cases present
    · simpa using fallback_eq_fcfs es 0 (by omega)
    · simpa [hk] using fallback_eq_fcfs es 1 (by omega)
  · subst h
    cases present
    · simpa using fallback_eq_fcfs es 0 (by omega)
    · simpa [hk] using fallback_eq_fcfs es 2 (by omega)

example : noEdges Gen.conflictConvert (regions
    [⟨1,'A',5⟩,⟨2,'C',7⟩,⟨3,'G',0⟩,⟨4,'U',0⟩,⟨5,'A',1⟩,⟨6,'C',8⟩,⟨7,'G',2⟩,⟨8,'U',6⟩]) = false := by decide


/-! ## losslessness in every branch (via C01) -/

theorem conflictConvert_eq : Gen.conflictConvert = conflictSpec := by
  funext k l m n; exact (C01.conflict_sites_agree k l m n).1

theorem degree_zero {adj : Nat → Nat → Bool} {n v : Nat} (h : degree adj n v = 0) :
    ∀ u, u < n → adj u v = false := by
  intro u hu
  unfold degree at h
  have hnil : (List.range n).filter (fun u => adj u v) = [] := List.eq_nil_of_length_eq_zero h
  cases hb : adj u v with
  | false => rfl
  | true =>
    have : u ∈ (List.range n).filter (fun u => adj u v) := by
      simp [List.mem_filter, hu, hb]
    rw [hnil] at this; simp at this

theorem adjOf_oob {c : ConfPred} {regs : List Region} {u v : Nat} (h : regs.length ≤ u) :
    adjOf c regs u v = false := by
  unfold adjOf
  rw [List.getElem?_eq_none (by omega)]

theorem proper_zeros_of_noEdges {c : ConfPred} {regs : List Region}
    (h : noEdges c regs = true) : proper (adjOf c regs) (regs.map (fun _ => 0)) = true := by
  unfold noEdges at h
  rw [List.all_eq_true] at h
  unfold proper
  simp only [List.length_map, List.all_eq_true, List.mem_range, Bool.or_eq_true, Bool.not_eq_eq_eq_not,
    Bool.not_true, bne_iff_ne, ne_eq]
  intro u hu v hv
  left
  have hz := h v (by simpa using hv)
  simp only [beq_iff_eq] at hz
  exact degree_zero hz u hu

/-- the fall-back branches return a lossless encoding (whenever FCFS finds levels, i.e. the
structure needs at most 30 bracket types) -/
theorem convert_lossless_fallback {es : List Entry} {lvs : List Nat} (hv : valid es = true)
    (hf : fcfsLevels Gen.conflictFcfs Gen.fcfsAvail (regions es) = some lvs)
    (present : Bool) (o : Outcome)
    (hk : noEdges Gen.conflictConvert (regions es) = false)
    (h : present = false ∨ o = .raises ∨ o = .notOptimal) :
    ∃ s, convert es present o = .ok s ∧ C01.Lossless es s := by
  rw [convert_fallback es present o hk h]
  exact (C01.fcfs_lossless hv hf).2.2.2

/-- the knot-free branch (no solver call) returns a lossless all-round-bracket encoding -/
theorem convert_lossless_knotfree {es : List Entry} (hv : valid es = true) (o : Outcome)
    (hk : noEdges Gen.conflictConvert (regions es) = true) :
    ∃ s, convert es true o = .ok s ∧ C01.Lossless es s := by
  unfold convert
  simp only [Bool.not_true, Bool.false_eq_true, ↓reduceIte, hk]
  apply C01.decode_mkDB hv (by simp) (by intro l hl; simp at hl; omega)
  rw [← conflictConvert_eq]
  exact proper_zeros_of_noEdges hk

/-- with an optimal status, whatever 0/1 values were read back: if the resulting levels are proper
and below 30 the encoding is lossless (properness is what C02 proves of a feasible solution) -/
theorem convert_lossless_optimal {es : List Entry} (hv : valid es = true) (ones : List (Nat × Nat))
    (hk : noEdges Gen.conflictConvert (regions es) = false)
    (hlv : ∀ l ∈ readBack (regions es).length ones, l < 30)
    (hp : proper (adjOf conflictSpec (regions es)) (readBack (regions es).length ones) = true) :
    ∃ s, convert es true (.optimal ones) = .ok s ∧ C01.Lossless es s := by
  unfold convert
  simp only [Bool.not_true, Bool.false_eq_true, ↓reduceIte, hk]
  exact C01.decode_mkDB hv (by simp [readBack]) hlv hp

end RnaVerif.Props.C13

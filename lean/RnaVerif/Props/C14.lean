import RnaVerif.Lemmas.Perms
import RnaVerif.Props.C16
/-!
# C14 — outputs are a deterministic function of the input (what a functional model can carry)

In a functional model every output is trivially a function of the input; the content of C14 is
*order-independence*: wherever the Python code consumes a hash-ordered collection, the result must
not depend on the order σ in which that collection happens to be iterated.  The iteration sites of
the source are inventoried on every run (`tools/site_inventory.py`) and each must fall into a class
covered below, or have seed-independent hashes (ints, tuples/frozensets of ints — trusted CPython
behaviour, checked by the seed-differential run).
-/
namespace RnaVerif.Props.C14
open RnaVerif RnaVerif.SecStr RnaVerif.SecStr.AllDB

/-- `sorted(S)` with a key that is injective on the elements: the result is the same for every
iteration order of `S` (two presentations of the same collection are permutations of each other) -/
theorem sorted_order_independent (key : Nat → Nat) (l₁ l₂ : List Nat) (hp : l₁.Perm l₂)
    (hinj : ∀ a ∈ l₁, ∀ b ∈ l₁, key a = key b → a = b) :
    sortBy key l₁ = sortBy key l₂ := by
  apply List.Perm.eq_of_pairwise (le := fun a b => key a ≤ key b)
  · intro a b ha hb h1 h2
    have ha' : a ∈ l₁ := (sortBy_perm key l₁).subset ha
    have hb' : b ∈ l₁ := hp.symm.subset ((sortBy_perm key l₂).subset hb)
    exact hinj a ha' b hb' (Nat.le_antisymm h1 h2)
  · exact sortBy_sorted key l₁
  · exact sortBy_sorted key l₂
  · exact (sortBy_perm key l₁).trans (hp.trans (sortBy_perm key l₂).symm)

example : sortBy id [3, 1, 2] = sortBy id [2, 3, 1] := by decide

/-- membership in the enumerated level vectors does not depend on the order in which groups,
permutations or products are enumerated: it is characterised by the input alone -/
theorem allLevels_membership_order_free (c : ConfPred) (regs : List Region) (lv : List Nat) :
    lv ∈ allLevels c regs ↔ lv.length = regs.length ∧ grundy (adjOf c regs) lv = true :=
  C16.allLevels_exact c regs lv

/-- order-preserving de-duplication (what the repaired `all_dot_brackets` does) is a function of
the *sequence* of candidates; with a hash-ordered set in its place the list order would follow σ.
The negative statement for the unrepaired code: two orders of the same two-element set give
different lists -/
theorem list_of_set_is_order_dependent :
    ∃ (a b : List Char), a ≠ b ∧ [a, b] ≠ [b, a] ∧ ([a, b] : List (List Char)).Perm [b, a] := by
  refine ⟨['('], [')'], by decide, by decide, ?_⟩
  exact List.Perm.swap _ _ _

/-- first-occurrence de-duplication keeps exactly the members and removes repetitions -/
theorem dedupFirst_spec (l : List (List Nat)) :
    (dedupFirst l).Nodup ∧ ∀ x, x ∈ dedupFirst l ↔ x ∈ l :=
  ⟨dedupFirst_nodup l, fun _ => mem_dedupFirst⟩

end RnaVerif.Props.C14

import RnaVerif.Props.C16Impl
/-!
# C14 (implementation level) — which iteration orders can reach the list returned by `all_dot_brackets`

`Props/C14.lean` could only speak about the specification model.  With the step-by-step model of
`Model/AllDBImpl.lean` (every set iteration an adversarial parameter σ / τ / ρ) the order-(in)dependence
of "the list of all dot-brackets in order" is a theorem about the algorithm as written:

* as a *set with multiplicities* the list never depends on any iteration order;
* its *order* is a function of the iteration orders of the sets `unique[i]` (sets of frozensets of
  `(int, int)` pairs) alone — not of the int sets `graph[v]`, not of the frozensets;
* and it does depend on those (two-element witness).

Hence byte-identity of the list across runs/hash seeds (what C14 states) holds *iff* CPython iterates
equal-content sets of frozensets of int pairs, built by the same insertion sequence, in the same
order — hashes of ints, tuples of ints and frozensets thereof do not involve `PYTHONHASHSEED`.  That
last fact is the (trusted, differentially tested) assumption; everything else is proved.
-/
namespace RnaVerif.Props.C14Impl
open RnaVerif RnaVerif.SecStr RnaVerif.SecStr.AllDB RnaVerif.SecStr.Impl RnaVerif.Props.C16Impl

/-- the list of all dot-brackets, as a collection, is independent of every set-iteration order -/
theorem alldb_collection_order_free {σ τ ρ σ' τ' ρ'} (h : Orders σ τ ρ) (h' : Orders σ' τ' ρ')
    (es : List Entry) (L L' : List (List Char)) (hL : allDBImpl σ τ ρ es = .ok L)
    (hL' : allDBImpl σ' τ' ρ' es = .ok L') : L.Perm L' :=
  impl_outputs_perm h h' es L L' hL hL'

example : Orders sigmaId tauId rhoId ∧ Orders sigmaRev tauRev rhoRev ∧
    (allDBImpl sigmaId tauId rhoId twoEs).toOption.isSome = true ∧
    (allDBImpl sigmaRev tauRev rhoRev twoEs).toOption.isSome = true :=
  ⟨orders_id, orders_rev, by decide, by decide⟩

/-- the list *in order* is determined by the iteration orders of the sets `unique[i]`: two runs that
iterate those sets in the same orders return the same list, whatever the orders of the neighbour sets
(σ) and of the frozensets (ρ) were -/
theorem alldb_list_function_of_unique_iteration {σ τ ρ σ' τ' ρ'} (h : Orders σ τ ρ)
    (h' : Orders σ' τ' ρ') (es : List Entry)
    (hne : (vertices (buildGraph Gen.conflictAll (regions es))).isEmpty = false)
    (hU : iterSets σ τ es = iterSets σ' τ' es) : allDBImpl σ τ ρ es = allDBImpl σ' τ' ρ' es :=
  (impl_list_order_depends_only_on h h' es).2.2.1 hne hU

example : Orders sigmaId tauId rhoId ∧ Orders sigmaId tauId rhoRev ∧
    (vertices (buildGraph Gen.conflictAll (regions starEs))).isEmpty = false ∧
    iterSets sigmaId tauId starEs = iterSets sigmaId tauId starEs :=
  ⟨orders_id, ⟨orders_id.sigma, orders_id.tau, orders_rev.rho⟩, by decide, rfl⟩

/-- without crossing stems nothing is iterated: the result is the same for all orders -/
theorem alldb_knot_free_order_free {σ τ ρ σ' τ' ρ'} (h : Orders σ τ ρ) (h' : Orders σ' τ' ρ')
    (es : List Entry) (hemp : (vertices (buildGraph Gen.conflictAll (regions es))).isEmpty = true) :
    allDBImpl σ τ ρ es = allDBImpl σ' τ' ρ' es :=
  (impl_list_order_depends_only_on h h' es).2.2.2 hemp

example : (vertices (buildGraph Gen.conflictAll (regions C16.nestEs))).isEmpty = true := by decide

/-- the dependence on the iteration order of `unique[i]` is real -/
theorem alldb_list_depends_on_unique_iteration :
    ∃ (es : List Entry) (a b : List Char), a ≠ b ∧
      allDBImpl sigmaId tauId rhoId es = .ok [a, b] ∧ allDBImpl sigmaId tauRev rhoId es = .ok [b, a] := by
  obtain ⟨es, a, b, hab, _, _, h1, h2⟩ := list_order_changes_with_tau
  exact ⟨es, a, b, hab, h1, h2⟩

end RnaVerif.Props.C14Impl

import RnaVerif.Lemmas.ReadersMain
import RnaVerif.Lemmas.ReadersConn
import RnaVerif.Lemmas.ReadersExamples
/-!
# C15 — both reader generations and both file formats agree on structure content

Objects (Model/Readers.lean, on top of Model/PdbV1.lean, Model/Pdb.lean, Model/Torsion.lean):

* `residuesV1Pdb` / `residuesV1Cif` — `rnapolis.parser.read_3d_structure` (PDB text resp. `_atom_site` token table →
  `parse_pdb` / `parse_cif` → `filter_clashing_atoms` → model selection → `group_atoms`), every residue as
  `(chain, number, insertion code, name, [(atom name, x, y, z)])` taken from `Residue3D.auth` and `Residue3D.atoms`;
* `residuesV2Pdb` / `residuesV2Cif` — `rnapolis.parser_v2.parse_pdb_atoms` / `parse_cif_atoms` followed by
  `rnapolis.tertiary_v2.Structure(...).residues` (pandas `groupby`: one group per key, groups in key order);
* `emitPdb` / `emitCif` — the independent emitters (the writer model of C09);
* `isConnectedV1` / `isConnectedV2`, `segmentsV1` / `segmentsV2`, `chiQuadV1` / `chiQuadV2`, `torsion1Rat` / `torsion2Rat`.

Every literal of the code (column slices, null markers, clash distance, group-by columns, connectivity thresholds and
atom names, χ atom lists and residue-name sets, torsion guards) comes from `RnaVerif.Gen.*`, regenerated from the source
on every run.  The tie between these models and the running code is the differential run `harness/corr/c15.py`.

READING of "report the same residues … with the same atoms and coordinates": the two readers list the same *multiset* of
residue records — `List.Perm` — and every identity occurs once.  The order of the list is NOT part of the statement
(reader v1 lists in file order, the table-level reader in key order, and for mmCIF the key order is the order of the
*texts* of the residue numbers).

The statement quantifies over "structures without alternate locations".  The hypotheses under which it is proved are
explicit and decidable (`singleConformer`): no altloc, one model, no atom name twice in a residue, no two atoms within
the clash distance (then the two filters of reader v1 keep every record), the rows of a residue adjacent, one residue name
per (chain, number, insertion code).  Without the last four the statement is FALSE of the code
(`not_readers_agree_pdb_full`: reader v1 drops one of two superposed atoms and splits a residue whose rows are not
adjacent, the table-level reader does neither), and on a file without atoms reader v1 raises (`empty_v1`).
-/
namespace RnaVerif.Props.C15
open RnaVerif RnaVerif.Readers RnaVerif.Torsion RnaVerif.V3

/-! ## bridges to the regenerated values -/

/-- both generations test O3' of the residue against P of the candidate, strictly, against 1.5 · 1.6 = 2.4 Å -/
theorem threshold_bridge :
    Gen.Readers.v1ConnFactor * Gen.Readers.v1ConnOP = 12 / 5 ∧ Gen.Readers.v2ConnFactor * Gen.Readers.v2ConnOP = 12 / 5 ∧
    Gen.Readers.v1ConnAtomPrev = "O3'" ∧ Gen.Readers.v1ConnAtomNext = "P" ∧
    Gen.Readers.v2ConnAtomPrev = "O3'" ∧ Gen.Readers.v2ConnAtomNext = "P" ∧
    Gen.Readers.v1ConnStrict = true ∧ Gen.Readers.v2ConnStrict = true :=
  ⟨conn_threshold.1, conn_threshold.2, conn_atoms⟩

/-- `tertiary_v2.Structure.residues` groups by (chain, number, insertion code) — not by the residue name, not by the
model — keeps rows with a missing insertion code and sorts the groups; the accessors of `tertiary_v2.Residue` / `Atom`
read, in an mmCIF-derived frame, the columns in the order of preference the typed-row model `Pdb.ofCifRow` uses
(`Gen.ParserV2.cifReadCols`); segments shorter than two residues are not reported -/
theorem grouping_bridge :
    Gen.Readers.v2GroupPdb = ["chainID", "resSeq", "iCode"] ∧
    Gen.Readers.v2GroupCifAuth = ["auth_asym_id", "auth_seq_id", "pdbx_PDB_ins_code"] ∧
    Gen.Readers.v2GroupSorted = true ∧ Gen.Readers.v2GroupDropna = false ∧
    (([("chain_id", Pdb.Field.chain), ("residue_number", .resSeq), ("insertion_code", .iCode), ("residue_name", .resName),
       ("find_atom", .name)] : List (String × Pdb.Field)).all fun p =>
        (Gen.Readers.v2Cols.lookup p.1).map (·.2) == Gen.ParserV2.cifReadCols.lookup p.2) = true ∧
    (Gen.Readers.v2Cols.lookup "coordinates").map (·.2) = some ["Cartn_x", "Cartn_y", "Cartn_z"] ∧
    Gen.Readers.v2MinSegment = 2 := by decide

/-- χ atom lists and residue classes: for every residue name to which `tertiary_v2` gives a χ, the one-letter name of
reader v1 selects the same four atom names -/
theorem chi_bridge :
    (∀ n ∈ Gen.Tor.v2PurineNames, ∃ l, oneLetterStd n = some l ∧ Gen.Tor.v1PurineLetters.contains (upperStr l) = true) ∧
    (∀ n ∈ Gen.Tor.v2PyrimidineNames, ∃ l, oneLetterStd n = some l ∧
      Gen.Tor.v1PurineLetters.contains (upperStr l) = false ∧ Gen.Tor.v1PyrimidineLetters.contains (upperStr l) = true) ∧
    (∀ n ∈ Gen.Tor.v2PyrimidineNames, Gen.Tor.v2PurineNames.contains n = false) ∧
    Gen.Tor.v2ChiPurine = Gen.Tor.v1ChiPurine ∧ Gen.Tor.v2ChiPyrimidine = Gen.Tor.v1ChiPyrimidine :=
  chi_letters

/-! ## 0. what the emitted documents contain: the text level -/

/-- reader v1 extracts from the line written for a row exactly the fields of the row (C08 column slicer + Python
`int` / `float` / `strip` on the printed numbers); the table-level reader likewise (C09) -/
theorem line_level (cur : Int) (a : Pdb.Atom) (h : Pdb.WithinPdbLimits a) :
    PdbV1.parseLineV1 cur (Pdb.formatAtom a ++ ['\n']) = .ok (.atom (rawPdb cur a)) ∧
    Pdb.parseAtomV2 cur (Pdb.formatAtom a) = some { a with model := cur } :=
  ⟨parseLineV1_formatAtom cur a h, Pdb.parseV2_formatAtom a h cur⟩

example : ∀ a ∈ exTable, Pdb.WithinPdbLimits a := exTable_ok.2.2.1

/-- the whole PDB document (MODEL / ATOM / TER / ENDMDL / END lines, through `readlines()`), and the whole mmCIF table -/
theorem document_level (rows : List Pdb.Atom) (hw : ∀ a ∈ rows, Pdb.WithinPdbLimits a) (hn : ∀ a ∈ rows, noNullRow a = true) :
    PdbV1.parsePdb (docText (emitPdb rows)) = .ok (rows.map (fun a => rawPdb a.model a)) ∧
    Pdb.parsePdb (emitPdb rows) = rows.map some ∧
    PdbV1.decodeCifRows Gen.Parser.cifIcodeNull Gen.Parser.cifOccNull Gen.Parser.cifAuthNameFallback emitCifAttrs
      ((emitCif rows).map (·.map String.ofList)) = .ok (rows.map rawCif) ∧
    cifFrame emitCifAttrs (emitCif rows) = rows.map cifRowOf :=
  ⟨parsePdb_emitPdb rows hw, Pdb.pdb_pdb_roundtrip_with _ rows hw, decodeCifRows_emitCif rows hn, cifFrame_emitCif rows hn⟩

example : (∀ a ∈ exTable, Pdb.WithinPdbLimits a) ∧ (∀ a ∈ exTable, noNullRow a = true) := ⟨exTable_ok.2.2.1, exTable_ok.2.2.2⟩

/-- on a clean single-model table the filters of reader v1 are the identity: the reader is the grouping alone
(for every setting of the three switches of C08) -/
theorem v1_filters_identity (cfg : PdbV1.Cfg) (u : Nat) {l : List PdbV1.Tok} {m : Int} (hne : l ≠ [])
    (hm : ∀ t ∈ l, t.model = m) (hk : PdbV1.KeysDistinct cfg l) (hf : l.Pairwise (fun a b => PdbV1.closeB u a b = false)) :
    PdbV1.read cfg u none l = .ok (PdbV1.group l) :=
  read_eq_group cfg u hne hm hk hf

example : ∃ l : List PdbV1.Tok, l ≠ [] ∧ (∀ t ∈ l, t.model = 1) ∧ PdbV1.KeysDistinct PdbV1.codeCfg l ∧
    l.Pairwise (fun a b => PdbV1.closeB (10 ^ 3) a b = false) :=
  ⟨exTable.map (tokOf false), by decide, by decide, (tokens_clean false PdbV1.codeCfg exTable_ok.1).2.1,
    (tokens_clean false PdbV1.codeCfg exTable_ok.1).2.2.1⟩

/-- the table-level grouping: one residue per (chain, number, insertion code) that occurs, made of *all* rows with that
key in table order, identity and name from the first of them -/
theorem v2_grouping (rows : List Pdb.Atom) (r : Res) :
    (r ∈ residuesOfRows rows ↔
      ∃ a ∈ rows, resOfRows (rows.filter (fun b => decide (key3 b = key3 a))) = some r) ∧
    ((residuesOfRows rows).map Res.key3).Nodup :=
  ⟨mem_residuesOfRows, key3_nodup_residuesOfRows rows⟩

/-! ## 1. the two readers on the PDB text -/

/-- **readers_agree_pdb**: on the PDB text of a single-conformer table within PDB limits the residue-level reader does
not raise, and it reports the same residues as the table-level reader — same (chain, number, insertion code, name), same
atom names, same coordinates (`List.Perm` of the residue records) — each identity once. -/
theorem readers_agree_pdb (rows : List Pdb.Atom) (hne : rows ≠ []) (hw : ∀ a ∈ rows, Pdb.WithinPdbLimits a)
    (hs : singleConformer rows = true) :
    ∃ r1, residuesV1Pdb (emitPdb rows) = .ok r1 ∧ r1.Perm (residuesV2Pdb (emitPdb rows)) ∧ (r1.map Res.key).Nodup := by
  obtain ⟨r1, h1, hp, _⟩ := residuesV1Pdb_emitPdb hne hw hs
  refine ⟨r1, h1, by rw [residuesV2Pdb_emitPdb rows hw]; exact hp, ?_⟩
  have hk : (r1.map Res.key3).Nodup := ((hp.map Res.key3).nodup_iff).2 (key3_nodup_residuesOfRows rows)
  exact nodup_map_of_imp (k := Res.key3) (fun x _ y _ e => by
    simp only [Res.key, Prod.mk.injEq] at e
    simp only [Res.key3, Prod.mk.injEq]
    exact ⟨e.1, e.2.1, e.2.2.1⟩) hk

example : exTable ≠ [] ∧ (∀ a ∈ exTable, Pdb.WithinPdbLimits a) ∧ singleConformer exTable = true :=
  ⟨exTable_ok.2.1, exTable_ok.2.2.1, exTable_ok.1⟩

/-- what both report is the table: every residue is named by a row and holds the atoms (name, x, y, z) of all rows with
that row's (chain, number, insertion code) -/
theorem readers_report_the_table (rows : List Pdb.Atom) (hw : ∀ a ∈ rows, Pdb.WithinPdbLimits a) (r : Res)
    (hr : r ∈ residuesV2Pdb (emitPdb rows)) :
    ∃ a ∈ rows, r.key = key4 a ∧ r.atoms = (rows.filter (fun b => decide (key3 b = key3 a))).map atomV2 := by
  rw [residuesV2Pdb_emitPdb rows hw] at hr
  obtain ⟨a, ha, h⟩ := mem_residuesOfRows.1 hr
  obtain ⟨b, t, e, _, _, hat⟩ := resOfRows_key3 h
  have hb : b ∈ rows.filter (fun b => decide (key3 b = key3 a)) := by rw [e]; exact List.mem_cons_self
  refine ⟨b, (List.mem_filter.1 hb).1, ?_, ?_⟩
  · rw [e] at h
    simp only [resOfRows, Option.some.injEq] at h
    subst h
    rfl
  · have hk : key3 b = key3 a := by simpa using (List.mem_filter.1 hb).2
    rw [hat, hk]

example : ∀ a ∈ exTable, Pdb.WithinPdbLimits a := exTable_ok.2.2.1

/-- the statement with the quantifier read literally ("no alternate locations", one model, within limits) … -/
def readers_agree_pdb_full : Prop :=
  ∀ rows : List Pdb.Atom, rows ≠ [] → (∀ a ∈ rows, Pdb.WithinPdbLimits a) → noAltLoc rows = true → singleModel rows = true →
    ∃ r1, residuesV1Pdb (emitPdb rows) = .ok r1 ∧ r1.Perm (residuesV2Pdb (emitPdb rows))

/-- … is false of the code: of two atoms 0.1 Å apart (occupancies 0.30 / 0.70, no altloc flag) reader v1 keeps one, the
table-level reader both -/
theorem not_readers_agree_pdb_full : ¬ readers_agree_pdb_full := by
  intro h
  obtain ⟨r1, h1, hp⟩ := h exClash (by decide) exBad_limits.2.1 exBad_limits.2.2.2.2.1 exBad_limits.2.2.2.2.2.1
  have c1 := clash_v1
  rw [h1] at c1
  have c2 := clash_v2
  have := (hp.flatMap_right (·.atoms)).length_eq
  simp only [atomCount, Option.some.injEq] at c1
  omega

/-- second witness: when the rows of a residue are not adjacent, reader v1 lists that residue twice (C08: residues are
runs of the file), the table-level reader once -/
theorem interleaved_disagree :
    ¬ ∃ r1, residuesV1Pdb (emitPdb exInterleaved) = .ok r1 ∧ r1.Perm (residuesV2Pdb (emitPdb exInterleaved)) := by
  rintro ⟨r1, h1, hp⟩
  have c1 := interleaved_v1
  rw [h1] at c1
  rw [residuesV2Pdb_emitPdb _ exBad_limits.1] at hp
  have hk : (r1.map Res.key3).Nodup := ((hp.map Res.key3).nodup_iff).2 (key3_nodup_residuesOfRows _)
  simp [dupKey3, hk] at c1

/-- third witness (why `rows ≠ []` is a hypothesis): on a document without atom records reader v1 raises `ValueError`
(`KDTree` of an empty array), the table-level reader returns no residues -/
theorem empty_table_v1_raises :
    residuesV1Pdb (emitPdb []) = .error .valueError ∧ residuesV2Pdb (emitPdb []) = [] :=
  ⟨empty_v1, by rw [residuesV2Pdb_emitPdb [] (fun _ h => absurd h (List.not_mem_nil))]; rfl⟩

/-- the proved part under its conventional name -/
theorem readers_agree_pdb_partial (rows : List Pdb.Atom) (hne : rows ≠ []) (hw : ∀ a ∈ rows, Pdb.WithinPdbLimits a)
    (hs : singleConformer rows = true) :
    ∃ r1, residuesV1Pdb (emitPdb rows) = .ok r1 ∧ r1.Perm (residuesV2Pdb (emitPdb rows)) :=
  let ⟨r1, h1, hp, _⟩ := readers_agree_pdb rows hne hw hs
  ⟨r1, h1, hp⟩

example : exTable ≠ [] ∧ (∀ a ∈ exTable, Pdb.WithinPdbLimits a) ∧ singleConformer exTable = true :=
  ⟨exTable_ok.2.1, exTable_ok.2.2.1, exTable_ok.1⟩

/-! ## 2. the two readers on the mmCIF table -/

/-- **readers_agree_cif**: the same on the `_atom_site` token table (`noNullRow`: no text field of the table is literally
`?` or `.`, which mmCIF cannot carry) -/
theorem readers_agree_cif (rows : List Pdb.Atom) (hne : rows ≠ []) (hn : ∀ a ∈ rows, noNullRow a = true)
    (hs : singleConformer rows = true) :
    ∃ r1, residuesV1Cif emitCifAttrs (emitCif rows) = .ok r1 ∧
      r1.Perm (residuesV2Cif emitCifAttrs (emitCif rows)) ∧ (r1.map Res.key).Nodup := by
  obtain ⟨r1, h1, hp, _⟩ := residuesV1Cif_emitCif hne hn hs
  refine ⟨r1, h1, hp.trans (residuesV2Cif_emitCif hn).symm, ?_⟩
  have hk : (r1.map Res.key3).Nodup := ((hp.map Res.key3).nodup_iff).2 (key3_nodup_residuesOfRows rows)
  exact nodup_map_of_imp (k := Res.key3) (fun x _ y _ e => by
    simp only [Res.key, Prod.mk.injEq] at e
    simp only [Res.key3, Prod.mk.injEq]
    exact ⟨e.1, e.2.1, e.2.2.1⟩) hk

example : exTable ≠ [] ∧ (∀ a ∈ exTable, noNullRow a = true) ∧ singleConformer exTable = true :=
  ⟨exTable_ok.2.1, exTable_ok.2.2.2, exTable_ok.1⟩

/-! ## 3. the two formats in each reader -/

/-- **formats_agree**: each reader reports the same residues from the PDB text and from the mmCIF table of one table -/
theorem formats_agree (rows : List Pdb.Atom) (hne : rows ≠ []) (hw : ∀ a ∈ rows, Pdb.WithinPdbLimits a)
    (hn : ∀ a ∈ rows, noNullRow a = true) (hs : singleConformer rows = true) :
    (∃ p c, residuesV1Pdb (emitPdb rows) = .ok p ∧ residuesV1Cif emitCifAttrs (emitCif rows) = .ok c ∧ p.Perm c) ∧
    (residuesV2Pdb (emitPdb rows)).Perm (residuesV2Cif emitCifAttrs (emitCif rows)) := by
  obtain ⟨p, hp1, hp2, _⟩ := residuesV1Pdb_emitPdb hne hw hs
  obtain ⟨c, hc1, hc2, _⟩ := residuesV1Cif_emitCif hne hn hs
  refine ⟨⟨p, c, hp1, hc1, hp2.trans hc2.symm⟩, ?_⟩
  rw [residuesV2Pdb_emitPdb rows hw]
  exact (residuesV2Cif_emitCif hn).symm

/-- the table-level reader needs no hypothesis on the shape of the table for this (it never filters) -/
theorem formats_agree_table_level (rows : List Pdb.Atom) (hw : ∀ a ∈ rows, Pdb.WithinPdbLimits a)
    (hn : ∀ a ∈ rows, noNullRow a = true) :
    (residuesV2Pdb (emitPdb rows)).Perm (residuesV2Cif emitCifAttrs (emitCif rows)) := by
  rw [residuesV2Pdb_emitPdb rows hw]
  exact (residuesV2Cif_emitCif hn).symm

example : (∀ a ∈ exClash, Pdb.WithinPdbLimits a) ∧ (∀ a ∈ exClash, noNullRow a = true) := by decide

/-! ## 4. connectivity -/

/-- **connectivity_same**: the two `is_connected` are one function of the residues; it says "both atoms present and
O3'…P distance below 12/5 Å" (the distance of the property statement: `√d² < 2.4`); hence the segmentation of
`connected_residues` made with either predicate is the same, and made over either reader's listing of the residues it
is the same up to the order of the chains. -/
theorem connectivity_same :
    isConnectedV1 = isConnectedV2 ∧
    (∀ a b : Res, isConnectedV2 a b = true ↔
      ∃ o p, findAtom a "O3'" = some o ∧ findAtom b "P" = some p ∧ Real.sqrt ((dist2 o.pos p.pos : ℚ) : ℝ) < 2.4) ∧
    (∀ rs, segmentsV1 rs = segmentsV2 rs) ∧
    (∀ (rows : List Pdb.Atom) (l : List Res), l.Perm (residuesOfRows rows) →
      (segmentsV1 l).Perm (segmentsV2 (residuesOfRows rows))) := by
  refine ⟨isConnected_eq, ?_, segments_eq, ?_⟩
  · intro a b
    rw [← isConnected_eq, isConnectedV1_iff]
    constructor
    · rintro ⟨o, p, h1, h2, h3⟩; exact ⟨o, p, h1, h2, (sqrt_lt_iff _).2 h3⟩
    · rintro ⟨o, p, h1, h2, h3⟩; exact ⟨o, p, h1, h2, (sqrt_lt_iff _).1 h3⟩
  · intro rows l hl
    rw [segments_eq]
    exact segments_of_listing _ _ hl

/-- in particular: the segments computed from reader v1's residues with `Residue3D.is_connected` and
`tertiary_v2.Structure.connected_residues`, on the PDB text of one table, are the same up to order -/
theorem segments_agree_pdb (rows : List Pdb.Atom) (hne : rows ≠ []) (hw : ∀ a ∈ rows, Pdb.WithinPdbLimits a)
    (hs : singleConformer rows = true) :
    ∃ r1, residuesV1Pdb (emitPdb rows) = .ok r1 ∧ (segmentsV1 r1).Perm (segmentsV2 (residuesV2Pdb (emitPdb rows))) := by
  obtain ⟨r1, h1, hp, _⟩ := residuesV1Pdb_emitPdb hne hw hs
  refine ⟨r1, h1, ?_⟩
  rw [residuesV2Pdb_emitPdb rows hw]
  exact connectivity_same.2.2.2 rows r1 hp

example : exTable ≠ [] ∧ (∀ a ∈ exTable, Pdb.WithinPdbLimits a) ∧ singleConformer exTable = true :=
  ⟨exTable_ok.2.1, exTable_ok.2.2.1, exTable_ok.1⟩

/-- straddling the threshold: P at 2.399 Å from the O3' is connected, at 2.401 Å it is not, and a residue without O3' is
connected to nothing -/
def exO3 : Res := ⟨"B", 10, none, "G", [⟨"C1'", ⟨1, 1, 1⟩⟩, ⟨"O3'", ⟨0, 0, 0⟩⟩]⟩
def exPnear : Res := ⟨"B", 11, none, "C", [⟨"P", ⟨2399 / 1000, 0, 0⟩⟩]⟩
def exPfar : Res := ⟨"B", 11, some "A", "C", [⟨"P", ⟨0, -2401 / 1000, 0⟩⟩]⟩

theorem connectivity_examples :
    isConnectedV2 exO3 exPnear = true ∧ isConnectedV2 exO3 exPfar = false ∧ isConnectedV2 exPnear exO3 = false := by
  have f1 : findAtom exO3 "O3'" = some ⟨"O3'", ⟨0, 0, 0⟩⟩ := by decide
  have f2 : findAtom exPnear "P" = some ⟨"P", ⟨2399 / 1000, 0, 0⟩⟩ := rfl
  have f3 : findAtom exPfar "P" = some ⟨"P", ⟨0, -2401 / 1000, 0⟩⟩ := rfl
  have f4 : findAtom exPnear "O3'" = none := by decide
  refine ⟨?_, ?_, ?_⟩
  · rw [← isConnected_eq, isConnectedV1_iff]
    refine ⟨_, _, f1, f2, ?_⟩
    simp only [dist2, norm2, dot, sub]; norm_num
  · rw [Bool.eq_false_iff, ← isConnected_eq, Ne, isConnectedV1_iff]
    rintro ⟨o, p, h1, h2, h3⟩
    rw [f1] at h1; rw [f3] at h2
    injection h1 with h1; injection h2 with h2
    subst h1; subst h2
    simp only [dist2, norm2, dot, sub] at h3
    norm_num at h3
  · rw [Bool.eq_false_iff, ← isConnected_eq, Ne, isConnectedV1_iff]
    rintro ⟨o, p, h1, _, _⟩
    rw [f4] at h1
    cases h1

/-! ## 5. glycosidic torsion -/

/-- how a pair of torsion answers is judged: both must be values (not the degenerate exits: v1 answers `0.0`, v2 `nan`)
with the same sign of the cosine, the same `tan²`, and sines equal up to sign -/
def MagAgree (o1 o2 : Out) : Prop :=
  match o1, o2 with
  | .val _ _ _, .val _ _ _ => outMag o1 = outMag o2
  | _, _ => False

/-- the full statement: on every four points the two functions return angles of equal magnitude … -/
def chi_magnitude_agree_full : Prop :=
  ∀ p1 p2 p3 p4 : V3 ℚ, MagAgree (torsion1Rat p1 p2 p3 p4) (torsion2Rat p1 p2 p3 p4)

/-- … is false: on collinear points v1 answers 0.0 and v2 nan; and the guards themselves differ — on `guardQuad`
(coordinates within PDB limits, a 5000 Å "bond") v1 takes its degenerate exit while v2 returns an angle -/
theorem not_chi_magnitude_agree_full : ¬ chi_magnitude_agree_full := by
  intro h
  have := h collinearQuad.p1 collinearQuad.p2 collinearQuad.p3 collinearQuad.p4
  rw [collinear_degenerate.1] at this
  exact this

theorem guards_differ :
    torsion1Rat guardQuad.p1 guardQuad.p2 guardQuad.p3 guardQuad.p4 = .degenerate ∧
    torsion2Rat guardQuad.p1 guardQuad.p2 guardQuad.p3 guardQuad.p4 ≠ .degenerate := by
  refine ⟨guard_differs.1, ?_⟩
  unfold torsion2Rat
  rw [guard_differs.2]
  simp [quadTan]

/-- **chi_magnitude_agree** (the part that holds): for a residue with a standard name both generations hand the same
four atoms O4'–C1'–N9–C4 / O4'–C1'–N1–C2 to their torsion function, and whenever neither function takes its degenerate
exit the two answers have the same magnitude (same sign of cos, same tan², sin up to sign — `v2 = −v1`, C18). -/
theorem chi_magnitude_agree (r : Res) (hn : r.name ∈ Gen.Tor.v2PurineNames ++ Gen.Tor.v2PyrimidineNames) (l : String)
    (hl : oneLetterStd r.name = some l) :
    chiQuadV1 l r = chiQuadV2 r ∧
    ∀ q, chiQuadV2 r = some q →
      degenerate1 v1NormEps2 v1CrossEps2 q.p1 q.p2 q.p3 q.p4 = false → degenerate2 v2CrossEps2 q.p1 q.p2 q.p3 q.p4 = false →
      ∃ o1 o2, chiV1 l r = some o1 ∧ chiV2 r = some o2 ∧ MagAgree o1 o2 := by
  have hq := chiQuad_same r hn l hl
  refine ⟨hq, ?_⟩
  intro q hq2 h1 h2
  refine ⟨torsion1Rat q.p1 q.p2 q.p3 q.p4, torsion2Rat q.p1 q.p2 q.p3 q.p4, ?_, ?_, ?_⟩
  · simp [chiV1, hq, hq2]
  · simp [chiV2, hq2]
  · have hm := outMag_torsion q.p1 q.p2 q.p3 q.p4 h1 h2
    have e1 : torsion1Rat q.p1 q.p2 q.p3 q.p4 = quadTan (args1 q.p1 q.p2 q.p3 q.p4) := by simp [torsion1Rat, h1]
    have e2 : torsion2Rat q.p1 q.p2 q.p3 q.p4 = quadTan (args2 q.p1 q.p2 q.p3 q.p4) := by simp [torsion2Rat, h2]
    rw [e1, e2] at hm ⊢
    exact hm.symm

/-- the proved part under its conventional name: on every four points where neither guard fires -/
theorem chi_magnitude_agree_partial (p1 p2 p3 p4 : V3 ℚ) (h1 : degenerate1 v1NormEps2 v1CrossEps2 p1 p2 p3 p4 = false)
    (h2 : degenerate2 v2CrossEps2 p1 p2 p3 p4 = false) :
    MagAgree (torsion1Rat p1 p2 p3 p4) (torsion2Rat p1 p2 p3 p4) := by
  have hm := outMag_torsion p1 p2 p3 p4 h1 h2
  have e1 : torsion1Rat p1 p2 p3 p4 = quadTan (args1 p1 p2 p3 p4) := by simp [torsion1Rat, h1]
  have e2 : torsion2Rat p1 p2 p3 p4 = quadTan (args2 p1 p2 p3 p4) := by simp [torsion2Rat, h2]
  rw [e1, e2] at hm ⊢
  exact hm.symm

/-- a purine with its four χ atoms in general position: nobody's guard fires -/
def exPurine : Res :=
  ⟨"A", 7, none, "DG", [⟨"O4'", ⟨1, 0, 0⟩⟩, ⟨"C1'", ⟨0, 0, 0⟩⟩, ⟨"N9", ⟨0, 1, 0⟩⟩, ⟨"C4", ⟨0, 1, 1⟩⟩]⟩

example : exPurine.name ∈ Gen.Tor.v2PurineNames ++ Gen.Tor.v2PyrimidineNames ∧ oneLetterStd exPurine.name = some "G" ∧
    chiQuadV2 exPurine = some ⟨⟨1, 0, 0⟩, ⟨0, 0, 0⟩, ⟨0, 1, 0⟩, ⟨0, 1, 1⟩⟩ := by decide

example : degenerate1 v1NormEps2 v1CrossEps2 ⟨1, 0, 0⟩ ⟨0, 0, 0⟩ ⟨0, 1, 0⟩ (⟨0, 1, 1⟩ : V3 ℚ) = false ∧
    degenerate2 v2CrossEps2 ⟨1, 0, 0⟩ ⟨0, 0, 0⟩ ⟨0, 1, 0⟩ (⟨0, 1, 1⟩ : V3 ℚ) = false := by
  simp only [degenerate1, degenerate2, normDiv, v1NormEps2, v1CrossEps2, v2CrossEps2, Gen.Tor.v1NormEps, Gen.Tor.v1CrossEps,
    Gen.Tor.v2CrossEps, norm2, dot, cross, sub, Bool.or_eq_false_iff, decide_eq_false_iff_not, not_lt]
  norm_num

/-- over ℝ (the angles themselves): `|torsion₂ q| = |torsion₁ q|` for every quadruple with p₂ ≠ p₃ -/
theorem chi_magnitude_agree_real (q : Quad ℝ) (hn : 0 < norm2 (sub q.p3 q.p2)) : |torsion2 q| = |torsion1 q| :=
  abs_torsion2 q hn

example : 0 < norm2 (sub Wit.p3 Wit.p2) := by simp only [Wit, norm2, dot, sub]; norm_num

end RnaVerif.Props.C15

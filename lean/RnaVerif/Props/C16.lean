import RnaVerif.Lemmas.AllDBStrings
import RnaVerif.Lemmas.MkDB
import RnaVerif.Lemmas.Pushdown
/-!
# C16 — the all-dot-brackets list is exactly the set of greedy-stable (Grundy) assignments

Model: `allLevels` / `allDB` of `Model/Levels.lean` (tied to `BpSeq.all_dot_brackets` by the C01/C16
correspondence checks).  `grundy adj lv = true` says: `lv` is proper and every stem sits on the lowest
level not taken by a crossing stem of a lower level.  Proofs live in `Lemmas/Perms.lean`,
`Lemmas/AllDB.lean`, `Lemmas/FcfsGrundy.lean`, `Lemmas/AllDBStrings.lean`.
-/
namespace RnaVerif.Props.C16
open RnaVerif RnaVerif.SecStr RnaVerif.SecStr.AllDB

/-! ### running example: "ACGUACGU" with partners [5,7,0,0,1,8,2,6] — three stems whose conflict
graph is the path 0–1–2; and a nested (pseudoknot-free) hairpin -/

def exEs : List Entry :=
  [⟨1, 'A', 5⟩, ⟨2, 'C', 7⟩, ⟨3, 'G', 0⟩, ⟨4, 'U', 0⟩, ⟨5, 'A', 1⟩, ⟨6, 'C', 8⟩, ⟨7, 'G', 2⟩, ⟨8, 'U', 6⟩]

def exAdj : Nat → Nat → Bool := adjOf Gen.conflictAll (regions exEs)

def nestEs : List Entry :=
  [⟨1, 'G', 6⟩, ⟨2, 'G', 5⟩, ⟨3, 'A', 0⟩, ⟨4, 'A', 0⟩, ⟨5, 'C', 2⟩, ⟨6, 'C', 1⟩]

example : regions exEs = [⟨1, 5, 1⟩, ⟨2, 7, 1⟩, ⟨6, 8, 1⟩] := by decide
example : edges Gen.conflictAll (regions exEs) = [(0, 1), (1, 2)] := by decide

/-- (for the examples: `Except` has no `DecidableEq`, `Option` has) -/
theorem ok_of_toOption {ε α} {x : Except ε α} {y : α} (h : x.toOption = some y) : x = .ok y := by
  cases x with
  | error e => simp [Except.toOption] at h
  | ok a => simp [Except.toOption] at h; rw [h]

/-! ### bridges -/

/-- the conflict test of `all_dot_brackets` is the crossing predicate of the property statement -/
theorem conflictAll_is_crossing (k l m n : Nat) : Gen.conflictAll k l m n = conflictSpec k l m n := by
  first
    | rfl
    | (simp only [Gen.conflictAll, conflictSpec]; grind)

/-- the conflict test of `fcfs` (later stem first) agrees with the one of `all_dot_brackets`
(earlier stem first) -/
theorem conflict_fcfs_all (k l m n : Nat) : Gen.conflictFcfs k l m n = Gen.conflictAll m n k l := by
  simp only [Gen.conflictFcfs, Gen.conflictAll]; grind

theorem fcfsAvail_pos : 0 < Gen.fcfsAvail := by decide

/-- the adjacency the code builds is symmetric and irreflexive whatever the conflict test is -/
theorem adjOf_symm_irrefl (c : ConfPred) (regs : List Region) :
    (∀ u v, adjOf c regs u v = adjOf c regs v u) ∧ (∀ u, adjOf c regs u u = false) :=
  ⟨adjOf_symm c regs, adjOf_irrefl c regs⟩

/-- what `grundy` means: proper, and every lower level occurs at a neighbour -/
theorem grundy_meaning (adj : Nat → Nat → Bool) (lv : List Nat) :
    grundy adj lv = true ↔
      (∀ u ∈ List.range lv.length, ∀ v ∈ List.range lv.length,
        adj u v = true → lv.getD u 0 ≠ lv.getD v 0) ∧
      (∀ v ∈ List.range lv.length, ∀ d, d < lv.getD v 0 →
        ∃ u ∈ List.range lv.length, adj u v = true ∧ lv.getD u 0 = d) :=
  grundy_iff adj lv

/-! ### 1. permutations -/

theorem mem_perms {α} (xs l : List α) : l ∈ perms xs ↔ l.Perm xs := AllDB.mem_perms

example : [2, 0, 1] ∈ perms [0, 1, 2] := by decide

/-! ### 2. parts are closed -/

/-- the model's parts have no cross edges, and their concatenation lists every vertex of positive
degree exactly once and nothing else -/
theorem parts_closed (adj : Nat → Nat → Bool) (n : Nat) :
    (∀ p ∈ parts adj n, ∀ q ∈ parts adj n, p ≠ q → ∀ u ∈ p, ∀ v ∈ q, adj u v = false) ∧
    (∀ v, v ∈ (parts adj n).flatten ↔ v < n ∧ 0 < degree adj n v) ∧
    (parts adj n).flatten.Nodup :=
  let h := AllDB.parts_closed adj n
  ⟨h.noCross, h.mem_iff, h.nodup⟩

example : parts exAdj 3 = [[0, 1, 2]] := by decide

/-! ### 3. Grundy colourings factor over closed parts -/

theorem grundy_product (adj : Nat → Nat → Bool) (hs : ∀ u v, adj u v = adj v u) (n : Nat)
    (ps : List (List Nat)) (hok : PartsOK adj n ps) (lv : List Nat) (hlen : lv.length = n) :
    grundy adj lv = true ↔
      (∀ p ∈ ps, GrundyOn adj p (fun v => lv.getD v 0)) ∧
      (∀ v, v < n → degree adj n v = 0 → lv.getD v 0 = 0) :=
  AllDB.grundy_product adj hs n ps hok lv hlen

example : (∀ u v, exAdj u v = exAdj v u) ∧ PartsOK exAdj 3 (parts exAdj 3) ∧
    ([0, 1, 0] : List Nat).length = 3 ∧ grundy exAdj [0, 1, 0] = true :=
  ⟨adjOf_symm _ _, AllDB.parts_closed _ _, rfl, by decide⟩

/-! ### 4. the assignments of one part -/

theorem partAssignments_exact (adj : Nat → Nat → Bool) (hs : ∀ u v, adj u v = adj v u)
    (hi : ∀ u, adj u u = false) (part : List Nat) (hnd : part.Nodup) (a : List (Nat × Nat)) :
    a ∈ partAssignments adj part ↔
      ∃ f : Nat → Nat, GrundyOn adj part f ∧ a = part.map (fun v => (v, f v)) :=
  AllDB.partAssignments_exact adj hs hi part hnd a

example : ([0, 1, 2] : List Nat).Nodup ∧
    partAssignments exAdj [0, 1, 2] = [[(0, 0), (1, 1), (2, 0)], [(0, 1), (1, 0), (2, 1)]] :=
  ⟨by decide, by decide⟩

/-! ### 5. MAIN: the enumerated level vectors are exactly the Grundy colourings, each once -/

theorem allLevels_exact (c : ConfPred) (regs : List Region) (lv : List Nat) :
    lv ∈ allLevels c regs ↔ lv.length = regs.length ∧ grundy (adjOf c regs) lv = true := by
  rw [allLevels_eq]
  exact mem_allLevelsOf _ (adjOf_symm c regs) (adjOf_irrefl c regs) _ lv

theorem allLevels_nodup (c : ConfPred) (regs : List Region) : (allLevels c regs).Nodup :=
  allLevelsOf_nodup _ _

/-- the same for an arbitrary symmetric irreflexive adjacency on `0..n-1` -/
theorem allLevelsOf_exact (adj : Nat → Nat → Bool) (hs : ∀ u v, adj u v = adj v u)
    (hi : ∀ u, adj u u = false) (n : Nat) (lv : List Nat) :
    lv ∈ allLevelsOf adj n ↔ lv.length = n ∧ grundy adj lv = true :=
  mem_allLevelsOf adj hs hi n lv

example : allLevels Gen.conflictAll (regions exEs) = [[0, 1, 0], [1, 0, 1]] := by decide

/-- "combined freely across independent groups of crossing stems": the enumerated vectors are exactly
the read-offs of the tuples picking one (Grundy, by `partAssignments_exact`) assignment per part -/
theorem allLevels_product (c : ConfPred) (regs : List Region) (lv : List Nat) :
    lv ∈ allLevels c regs ↔
      ∃ a, All2 (fun x p => x ∈ partAssignments (adjOf c regs) p) a (parts (adjOf c regs) regs.length) ∧
        lv = levelsOfAssignment regs.length a := by
  rw [allLevels_eq]; exact mem_allLevelsOf_product _ _ lv

/-! ### 6. strings -/

/-- two level vectors that give the same structure line are equal, provided regions are non-empty
and opening positions are in range and identify their pair (true for the regions of a valid BPSEQ:
`WF (triples …) n` of `Lemmas/Decode.lean` implies `OpenInj`, see `openInj_of_WF`) -/
theorem mkDB_injective_in_levels {n : Nat} {regs : List Region} {lv1 lv2 : List Nat} {s : List Char}
    (hpos : ∀ r ∈ regs, 0 < r.len)
    (h1 : OpenInj (triples regs lv1) n) (h2 : OpenInj (triples regs lv2) n)
    (hl1 : lv1.length = regs.length) (hl2 : lv2.length = regs.length)
    (e1 : mkDB n regs lv1 = .ok s) (e2 : mkDB n regs lv2 = .ok s) : lv1 = lv2 :=
  AllDB.mkDB_injective_in_levels hpos h1 h2 hl1 hl2 e1 e2

example : (∀ r ∈ regions exEs, 0 < r.len) ∧ OpenInj (triples (regions exEs) [0, 1, 0]) 8 ∧
    mkDB 8 (regions exEs) [0, 1, 0] = .ok ['(', '[', '.', '.', ')', '(', ']', ')'] := by
  refine ⟨by decide, ?_, ok_of_toOption (by decide)⟩
  unfold OpenInj
  decide

/-- **C16, exactness**: in the non-error case the list returned by the model of `all_dot_brackets` has
no repetition and contains exactly the structure lines of the Grundy colourings of the conflict
graph -/
theorem allDB_exact (es : List Entry) (L : List (List Char)) (h : allDB es = .ok L) :
    L.Nodup ∧ ∀ s, s ∈ L ↔
      ∃ lv : List Nat, lv.length = (regions es).length ∧
        grundy (adjOf Gen.conflictAll (regions es)) lv = true ∧
        mkDB es.length (regions es) lv = .ok s :=
  allDB_exact_gen es L conflict_fcfs_all fcfsAvail_pos h

example : allDB exEs = .ok [['(', '[', '.', '.', ')', '(', ']', ')'], ['[', '(', '.', '.', ']', '[', ')', ']']] :=
  ok_of_toOption (by decide)

/-- when `mkDB` is injective on the enumerated level vectors (see `mkDB_injective_in_levels`) and
the structure has crossing stems, string de-duplication removes nothing: the result lists the
strings of the enumerated Grundy colourings one-to-one and in order -/
theorem allDB_one_to_one (es : List Entry) (L : List (List Char))
    (hinj : ∀ lv1 lv2 s, lv1 ∈ allLevels Gen.conflictAll (regions es) →
      lv2 ∈ allLevels Gen.conflictAll (regions es) →
      mkDB es.length (regions es) lv1 = .ok s → mkDB es.length (regions es) lv2 = .ok s → lv1 = lv2)
    (hne : ¬ (List.range (regions es).length).all (fun v =>
      degree (adjOf Gen.conflictAll (regions es)) (regions es).length v == 0) = true)
    (h : allDB es = .ok L) :
    All2 (fun lv s => mkDB es.length (regions es) lv = .ok s)
      (allLevels Gen.conflictAll (regions es)) L :=
  allDB_no_collapse es L hinj hne h

/-- the same from the facts the C01 lemmas give for a valid BPSEQ: stems are non-empty and the
levelled pairs of every Grundy colouring are well-formed (`WF` of `Lemmas/Decode.lean`) -/
theorem allDB_one_to_one_of_WF (es : List Entry) (L : List (List Char))
    (hpos : ∀ r ∈ regions es, 0 < r.len)
    (hwf : ∀ lv : List Nat, lv.length = (regions es).length →
      grundy (adjOf Gen.conflictAll (regions es)) lv = true →
      WF (triples (regions es) lv) es.length)
    (hne : ¬ (List.range (regions es).length).all (fun v =>
      degree (adjOf Gen.conflictAll (regions es)) (regions es).length v == 0) = true)
    (h : allDB es = .ok L) :
    All2 (fun lv s => mkDB es.length (regions es) lv = .ok s)
      (allLevels Gen.conflictAll (regions es)) L :=
  allDB_no_collapse_of_WF es L hpos hwf hne h

theorem grundy_proper {adj : Nat → Nat → Bool} {lv : List Nat} (h : grundy adj lv = true) :
    proper adj lv = true := by
  unfold grundy at h
  exact (Bool.and_eq_true _ _ ▸ h).1

/-- **C16, no repetition at the level of colourings**: for a *valid* BPSEQ with crossing stems the
returned strings correspond one-to-one, in order, to the Grundy colourings (uses the C01 lemmas
`stemFacts_regions`, `wf_triples` of `Lemmas/Regions.lean`, `Lemmas/MkDB.lean`); in particular the
list has as many entries as there are Grundy colourings -/
theorem allDB_one_to_one_valid (es : List Entry) (L : List (List Char)) (hv : valid es = true)
    (hne : ¬ (List.range (regions es).length).all (fun v =>
      degree (adjOf Gen.conflictAll (regions es)) (regions es).length v == 0) = true)
    (h : allDB es = .ok L) :
    All2 (fun lv s => mkDB es.length (regions es) lv = .ok s)
      (allLevels Gen.conflictAll (regions es)) L ∧
    L.length = (allLevels Gen.conflictAll (regions es)).length := by
  have v := (SecStr.valid_iff es).mp hv
  have hfun : Gen.conflictAll = conflictSpec := by
    funext k l m n; exact conflictAll_is_crossing k l m n
  have hA : All2 (fun lv s => mkDB es.length (regions es) lv = .ok s)
      (allLevels Gen.conflictAll (regions es)) L := by
    apply allDB_one_to_one_of_WF es L ?_ ?_ hne h
    · intro r hr; exact (stemFacts_regions v hr).len_pos
    · intro lv _ hg
      apply wf_triples v lv
      apply properP_of_proper
      rw [← hfun]
      exact grundy_proper hg
  exact ⟨hA, hA.length_eq.symm⟩

example : valid exEs = true := by decide

example : ¬ (List.range (regions exEs).length).all (fun v =>
    degree (adjOf Gen.conflictAll (regions exEs)) (regions exEs).length v == 0) = true := by decide

/-! ### 7. corollaries -/

/-- no crossing stems ⇒ the only enumerated level vector is all zeros -/
theorem knot_free_levels (c : ConfPred) (regs : List Region)
    (h : ∀ v, v < regs.length → degree (adjOf c regs) regs.length v = 0) :
    allLevels c regs = [List.replicate regs.length 0] := by
  rw [allLevels_eq]; exact allLevelsOf_no_edges _ _ h

/-- **pseudoknot-free structures**: the early-return branch is taken; the result is the single FCFS
string, which is the line of the all-zero vector and consists of dots and round brackets only -/
theorem knot_free_singleton (es : List Entry)
    (hdeg : ∀ v, v < (regions es).length →
      degree (adjOf Gen.conflictAll (regions es)) (regions es).length v = 0) :
    allDB es = (fcfs es).map (fun s => [s]) ∧
    ∀ L, allDB es = .ok L → ∃ s, L = [s] ∧ fcfs es = .ok s ∧
      mkDB es.length (regions es) (List.replicate (regions es).length 0) = .ok s ∧
      ∀ c ∈ s, c = '.' ∨ c = '(' ∨ c = ')' :=
  allDB_knot_free es conflict_fcfs_all fcfsAvail_pos hdeg

example : (∀ v, v < (regions nestEs).length →
      degree (adjOf Gen.conflictAll (regions nestEs)) (regions nestEs).length v = 0) ∧
    allDB nestEs = .ok [['(', '(', '.', '.', ')', ')']] := by
  refine ⟨?_, ok_of_toOption (by decide)⟩
  have : (List.range (regions nestEs).length).all (fun v =>
      degree (adjOf Gen.conflictAll (regions nestEs)) (regions nestEs).length v == 0) = true := by
    decide
  intro v hv
  simpa using List.all_eq_true.mp this v (List.mem_range.mpr hv)

/-- the FCFS level vector is greedy along the identity order, hence Grundy, hence enumerated -/
theorem fcfs_mem_allLevels (regs : List Region) (lv : List Nat)
    (h : fcfsLevels Gen.conflictFcfs Gen.fcfsAvail regs = some lv) :
    lv ∈ allLevels Gen.conflictAll regs :=
  AllDB.fcfs_mem_allLevels _ _ conflict_fcfs_all _ fcfsAvail_pos regs lv h

example : fcfsLevels Gen.conflictFcfs Gen.fcfsAvail (regions exEs) = some [0, 1, 0] := by decide

/-- … literally: FCFS is the greedy colouring of the conflict graph along the order `0,1,…,n-1` -/
theorem fcfs_is_greedy_identity (regs : List Region) (lv : List Nat)
    (h : fcfsLevels Gen.conflictFcfs Gen.fcfsAvail regs = some lv) :
    greedy (adjOf Gen.conflictAll regs) (List.range regs.length) =
      (List.range regs.length).map (fun v => (v, lv.getD v 0)) :=
  fcfsLevels_eq_greedy _ _ conflict_fcfs_all _ fcfsAvail_pos regs lv h

example : greedy exAdj (List.range 3) = [(0, 0), (1, 1), (2, 0)] := by decide

/-- FCFS does not run out of levels when there are at most as many stems as levels -/
theorem fcfs_levels_exist (regs : List Region) (h : regs.length ≤ Gen.fcfsAvail) :
    ∃ lv, fcfsLevels Gen.conflictFcfs Gen.fcfsAvail regs = some lv :=
  fcfsLevels_some _ _ regs h

example : (regions exEs).length ≤ Gen.fcfsAvail := by decide

/-- **the list always contains the first-come-first-served notation** -/
theorem fcfs_mem_allDB (es : List Entry) (L : List (List Char)) (s : List Char)
    (h : allDB es = .ok L) (hf : fcfs es = .ok s) : s ∈ L :=
  AllDB.fcfs_mem_allDB es L s conflict_fcfs_all fcfsAvail_pos h hf

example : fcfs exEs = .ok ['(', '[', '.', '.', ')', '(', ']', ')'] := ok_of_toOption (by decide)

/-- **the list contains the string of every Grundy colouring** — in particular of the optimal one
(C02 shows the optimum of `convert_to_dot_bracket` is attained at a Grundy colouring) -/
theorem grundy_string_mem_allDB (es : List Entry) (L : List (List Char)) (lv : List Nat) (s : List Char)
    (h : allDB es = .ok L) (hl : lv.length = (regions es).length)
    (hg : grundy (adjOf Gen.conflictAll (regions es)) lv = true)
    (hs : mkDB es.length (regions es) lv = .ok s) : s ∈ L :=
  ((allDB_exact es L h).2 s).mpr ⟨lv, hl, hg, hs⟩

example : grundy exAdj [1, 0, 1] = true ∧
    mkDB exEs.length (regions exEs) [1, 0, 1] = .ok ['[', '(', '.', '.', ']', '[', ')', ']'] :=
  ⟨by decide, ok_of_toOption (by decide)⟩

/-- **the list always contains an optimal notation**: every proper level vector is dominated
(pointwise, and in the objective of `convert_to_dot_bracket`) by an enumerated one — uses the C02
push-down lemma `Poa.pushdown` of `Lemmas/Pushdown.lean`; so the maximum of the objective over all
proper assignments is attained inside the list -/
theorem optimal_mem_allLevels (c : ConfPred) (regs : List Region) (a : List Nat)
    (hl : a.length = regs.length) (hp : proper (adjOf c regs) a = true) :
    ∃ lv ∈ allLevels c regs, (∀ v, lv.getD v 0 ≤ a.getD v 0) ∧
      score (regs.map (·.len)) a ≤ score (regs.map (·.len)) lv := by
  obtain ⟨a', h1, h2, _, _, h5, h6⟩ := Poa.pushdown (adjOf c regs)
    ⟨adjOf_symm c regs, adjOf_irrefl c regs⟩ (regs.map (·.len)) a (by simp [hl]) hp
  exact ⟨a', (allLevels_exact c regs a').mpr ⟨h1.trans hl, h2⟩, h5, h6⟩

example : proper exAdj [2, 0, 5] = true ∧ ([2, 0, 5] : List Nat).length = (regions exEs).length :=
  ⟨by decide, by decide⟩

/-- a Grundy colouring uses only levels up to the degree, hence up to the maximum degree -/
theorem grundy_le_degree (adj : Nat → Nat → Bool) (lv : List Nat) (h : grundy adj lv = true)
    (v : Nat) (hv : v < lv.length) :
    lv.getD v 0 ≤ degree adj lv.length v ∧ lv.getD v 0 ≤ maxDegree adj lv.length :=
  ⟨AllDB.grundy_le_degree adj lv h v hv,
   Nat.le_trans (AllDB.grundy_le_degree adj lv h v hv) (degree_le_maxDegree adj _ v hv)⟩

example : grundy exAdj [0, 1, 0] = true ∧ maxDegree exAdj 3 = 2 := ⟨by decide, by decide⟩

end RnaVerif.Props.C16

import RnaVerif.Lemmas.ImplAllDB
import RnaVerif.Props.C16
/-!
# C16 (implementation level) — `BpSeq.all_dot_brackets` as written, for every set-iteration order

`Model/AllDBImpl.lean` mirrors the Python code step by step: the `defaultdict(set)` conflict graph in
`itertools.combinations` order, `vertices = list(graph.keys())`, the iterative depth-first search with
its explicit stack, `itertools.permutations` + the `available` / `next(filter(…))` loop,
`unique[-1].add(frozenset(orders.items()))`, `itertools.product(*unique)`, `orders.update`,
`__make_dot_bracket`, the insertion-ordered dict that removes repetitions, and the early return.
Every iteration of a hash-ordered collection is a parameter:

* `σ v l` — order in which the set `graph[v]` (members `l`) is iterated (depth-first search);
* `τ i u` — order in which the set `unique[i]` is iterated (`itertools.product`);
* `ρ f`   — order in which a frozenset of `(region, order)` items is iterated (`orders.update`).

All theorems hold for **every** σ, τ, ρ that return a permutation of their argument, for every list of
BPSEQ entries, without any bound on sizes.  `Props/C16.lean` characterises the specification model
`allDB` (`allDB_exact`); here the implementation model is proved equal to it up to the order of the
list, and what the order depends on is stated and proved.  Proofs: `Lemmas/ImplGraph.lean`,
`ImplDfs.lean`, `ImplGreedy.lean`, `ImplAllDB.lean`.
-/
namespace RnaVerif.Props.C16Impl
open RnaVerif RnaVerif.SecStr RnaVerif.SecStr.AllDB RnaVerif.SecStr.Impl

/-- σ, τ, ρ may do anything but must list exactly the members of the set they are given -/
structure Orders (σ : Nat → List Nat → List Nat)
    (τ : Nat → List (List (Nat × Nat)) → List (List (Nat × Nat)))
    (ρ : List (Nat × Nat) → List (Nat × Nat)) : Prop where
  sigma : ∀ v l, (σ v l).Perm l
  tau : ∀ i l, (τ i l).Perm l
  rho : ∀ l, (ρ l).Perm l

theorem orders_id : Orders sigmaId tauId rhoId :=
  ⟨fun _ l => List.Perm.refl l, fun _ l => List.Perm.refl l, fun l => List.Perm.refl l⟩

theorem orders_rev : Orders sigmaRev tauRev rhoRev :=
  ⟨fun _ l => List.reverse_perm l, fun _ l => List.reverse_perm l, fun l => List.reverse_perm l⟩

theorem orders_mixed : Orders sigmaRev tauId rhoRev :=
  ⟨fun _ l => List.reverse_perm l, fun _ l => List.Perm.refl l, fun l => List.reverse_perm l⟩

/-! ### running examples

* `C16.exEs` — "ACGUACGU", partners [5,7,0,0,1,8,2,6]: three stems, conflict graph the path 0–1–2;
* `starEs` — partners [6,9,0,7,0,1,4,0,2]: stem 0 crosses stems 1 and 2, which are nested (a star):
  the discovery order inside the component depends on σ;
* `twoEs` — "([)]([)]": two independent H-type pseudoknots, 2 × 2 members;
* `C16.nestEs` — a hairpin without crossing (early return). -/

def starEs : List Entry :=
  [⟨1, 'A', 6⟩, ⟨2, 'C', 9⟩, ⟨3, 'G', 0⟩, ⟨4, 'U', 7⟩, ⟨5, 'A', 0⟩, ⟨6, 'C', 1⟩, ⟨7, 'G', 4⟩,
   ⟨8, 'U', 0⟩, ⟨9, 'A', 2⟩]

def twoEs : List Entry :=
  [⟨1, 'A', 3⟩, ⟨2, 'C', 4⟩, ⟨3, 'G', 1⟩, ⟨4, 'U', 2⟩, ⟨5, 'A', 7⟩, ⟨6, 'C', 8⟩, ⟨7, 'G', 5⟩, ⟨8, 'U', 6⟩]

def gOf (es : List Entry) : Graph := buildGraph Gen.conflictAll (regions es)

example : gOf C16.exEs = [(0, [1]), (1, [0, 2]), (2, [1])] := by decide
example : gOf starEs = [(0, [1, 2]), (1, [0]), (2, [0])] := by decide
example : gOf twoEs = [(0, [1]), (1, [0]), (2, [3]), (3, [2])] := by decide
example : gOf C16.nestEs = [] := by decide

/-! ### 1. the conflict graph as the code builds it -/

/-- `w ∈ graph[u]` iff stems `u` and `w` cross (the adjacency `adjOf` of the specification model, for
the conflict test of `all_dot_brackets`, which `C16.conflictAll_is_crossing` identifies with the
crossing predicate of the statement); `list(graph.keys())` lists every stem that crosses some other
stem exactly once -/
theorem graph_is_adjacency (c : ConfPred) (regs : List Region) :
    (∀ u w, w ∈ nbrs (buildGraph c regs) u ↔ adjOf c regs u w = true) ∧
    (∀ u, u ∈ vertices (buildGraph c regs) ↔
      u < regs.length ∧ 0 < degree (adjOf c regs) regs.length u) ∧
    (vertices (buildGraph c regs)).Nodup :=
  ⟨(buildGraph_spec c regs).1, mem_vertices_iff_degree c regs, (buildGraph_spec c regs).2.2⟩

/-- every member of a neighbour set is itself a key: `visited[neighbor]` cannot raise `KeyError` and
`graph[current]` never inserts a key into the `defaultdict` -/
theorem neighbours_are_keys (c : ConfPred) (regs : List Region) (u w : Nat)
    (h : w ∈ nbrs (buildGraph c regs) u) : w ∈ vertices (buildGraph c regs) :=
  nbrs_subset_vertices c regs u w h

/-- the early-return test `if not vertices` is the "no crossing stems" test of the specification model -/
theorem early_return_iff (c : ConfPred) (regs : List Region) :
    (vertices (buildGraph c regs)).isEmpty = true ↔
      (List.range regs.length).all (fun v => degree (adjOf c regs) regs.length v == 0) = true :=
  vertices_isEmpty_iff c regs

example : (vertices (gOf C16.nestEs)).isEmpty = true ∧ (vertices (gOf C16.exEs)).isEmpty = false := by
  decide

/-! ### 2. the depth-first search -/

/-- the fuel given to each search (`2·len(graph)`) covers its measure, and beyond the measure extra
fuel changes nothing: the fuel-bounded recursion is the `while stack:` loop run to its end -/
theorem dfs_fuel_suffices (c : ConfPred) (regs : List Region) (σ : Nat → List Nat → List Nat)
    (hσ : ∀ v l, (σ v l).Perm l) (v : Nat) (visited : List Nat)
    (hv : v ∈ vertices (buildGraph c regs)) (hnv : v ∉ visited) (extra : Nat) :
    dfsLoop (buildGraph c regs) σ (dfsFuel (buildGraph c regs) + extra) [v] (v :: visited) [v] =
      dfsLoop (buildGraph c regs) σ (dfsFuel (buildGraph c regs)) [v] (v :: visited) [v] :=
  dfsLoop_fuel_irrelevant _ σ (graphHyp_build c regs σ hσ) _ extra _ _ _
    (dfsFuel_covers _ v visited hv hnv)

example : (∀ v l, (sigmaRev v l).Perm l) ∧ 0 ∈ vertices (gOf starEs) ∧ 0 ∉ ([] : List Nat) :=
  ⟨orders_rev.sigma, by decide, by simp⟩

/-- **dfs_components_are_classes**: for every iteration order σ of the neighbour sets, the components
returned by the search
* partition `vertices` (their concatenation is a permutation of it, so every stem that crosses another
  one lies in exactly one component and nothing else does), none is empty;
* are closed: no crossing leaves a component;
* are connected: any two members are joined by a path of crossings;
* hence are exactly the classes of "joined by a path of crossings": for `x` in a component `c`,
  `y ∈ c ↔ Reach x y`. -/
theorem dfs_components_are_classes (c : ConfPred) (regs : List Region) (σ : Nat → List Nat → List Nat)
    (hσ : ∀ v l, (σ v l).Perm l) :
    let g := buildGraph c regs
    let cs := components g σ
    cs.flatten.Perm (vertices g) ∧
    (∀ p ∈ cs, p ≠ []) ∧
    (∀ p ∈ cs, ∀ x ∈ p, ∀ w, adjOf c regs x w = true → w ∈ p) ∧
    (∀ p ∈ cs, ∀ x ∈ p, ∀ y ∈ p, Reach g x y) ∧
    (∀ p ∈ cs, ∀ x ∈ p, ∀ y, y ∈ p ↔ Reach g x y) := by
  intro g cs
  have h := components_ok g σ (graphHyp_build c regs σ hσ)
  refine ⟨h.perm, h.nonempty, ?_, h.connected, ?_⟩
  · intro p hp x hx w hw
    exact h.closed p hp x hx w (((buildGraph_spec c regs).1 x w).mpr hw)
  · intro p hp x hx y
    exact same_component_iff g cs h hp hx y

example : components (gOf starEs) sigmaId = [[0, 1, 2]] ∧ components (gOf starEs) sigmaRev = [[0, 2, 1]] ∧
    components (gOf twoEs) sigmaRev = [[0, 1], [2, 3]] := by decide

/-- the sequence of components is the same for all σ up to the order *inside* each component
(the roots are taken in the order of `vertices`, which is an insertion-ordered dict) -/
theorem components_sigma_free (c : ConfPred) (regs : List Region) (σ σ' : Nat → List Nat → List Nat)
    (hσ : ∀ v l, (σ v l).Perm l) (hσ' : ∀ v l, (σ' v l).Perm l) :
    All2 List.Perm (components (buildGraph c regs) σ) (components (buildGraph c regs) σ') :=
  Impl.components_sigma_free _ σ σ' (graphHyp_build c regs σ hσ) (graphHyp_build c regs σ' hσ')

/-- the components, read as parts of the specification (`PartsOK` of `Props/C16.lean`: no cross
edges, cover the stems of positive degree once) -/
theorem components_are_parts (c : ConfPred) (regs : List Region) (σ : Nat → List Nat → List Nat)
    (hσ : ∀ v l, (σ v l).Perm l) :
    PartsOK (adjOf c regs) regs.length ((components (buildGraph c regs) σ).map (keysOf regs.length)) :=
  (partsOK_of_components c regs _ (components_ok _ σ (graphHyp_build c regs σ hσ))).1

/-! ### 3. the greedy loop -/

/-- **greedy_loop_is_mex**: for a permutation `π = pre ++ v :: suf` of a component the loop
`for i in range(1, len(permutation))` with its `available` table of `len(component)` slots raises
neither `IndexError` nor `StopIteration` (the slots suffice), keeps the keys of `orders`, and gives `v`
the least order not used by a stem of `pre` crossing `v` — `mex` of those orders; the result is the
greedy colouring `greedy` of `Props/C16.lean` along `π`. -/
theorem greedy_loop_is_mex (c : ConfPred) (regs : List Region) (comp π : List Nat) (hnd : comp.Nodup)
    (hπ : π.Perm comp) :
    ∃ orders, permOrders (buildGraph c regs) comp π = .ok orders ∧ orders.map (·.1) = comp ∧
      (∀ x, lookup orders x = lookup (greedy (adjOf c regs) π) x) ∧
      (∀ pre v suf, π = pre ++ v :: suf →
        lookup orders v = mex ((pre.filter (fun u => adjOf c regs u v)).map (lookup orders)) ∧
        lookup orders v < comp.length) := by
  obtain ⟨orders, h1, h2, h3⟩ := permOrders_spec (buildGraph c regs) (adjOf c regs)
    (hadj_build c regs) comp π hnd hπ
  refine ⟨orders, h1, h2, h3, ?_⟩
  intro pre v suf hsplit
  have hnd' : (pre ++ v :: suf).Nodup := by rw [← hsplit]; exact (List.Perm.nodup_iff hπ).mpr hnd
  have hfun : lookup orders = lookup (greedy (adjOf c regs) π) := funext h3
  have hmex : lookup orders v = mex ((pre.filter (fun u => adjOf c regs u v)).map (lookup orders)) := by
    rw [hfun, hsplit]
    exact greedy_at_position (adjOf c regs) pre suf v hnd'
  refine ⟨hmex, ?_⟩
  rw [hmex]
  have h4 := mex_le_length ((pre.filter (fun u => adjOf c regs u v)).map (lookup orders))
  have h5 : (pre.filter (fun u => adjOf c regs u v)).length ≤ pre.length := List.length_filter_le _ _
  have h6 : π.length = comp.length := hπ.length_eq
  rw [hsplit] at h6
  simp only [List.length_map, List.length_append, List.length_cons] at h4 h6
  omega

example : ([0, 1, 2] : List Nat).Nodup ∧ ([2, 0, 1] : List Nat).Perm [0, 1, 2] ∧
    (permOrders (gOf starEs) [0, 1, 2] [2, 0, 1]).toOption = some [(0, 1), (1, 0), (2, 0)] := by
  refine ⟨by decide, ?_, by decide⟩
  exact AllDB.mem_perms.mp (by decide)

/-- what "least order not used" means (the `mex` lemmas of `Lemmas/Greedy.lean`) -/
theorem mex_is_least (used : List Nat) : mex used ∉ used ∧ ∀ d, d < mex used → d ∈ used :=
  ⟨mex_not_mem used, mex_lt_mem used⟩

/-- the loop over all permutations of a component never raises; `unique[i]`, as a set, is the set of
Grundy colourings of the component (`partAssignments` of `Props/C16.lean`, see
`C16.partAssignments_exact`) -/
theorem unique_is_partAssignments (c : ConfPred) (regs : List Region) (comp : List Nat)
    (hnd : comp.Nodup) (hlt : ∀ v ∈ comp, v < regs.length) :
    ∃ U, uniqueOf (buildGraph c regs) regs.length comp = .ok U ∧ U.Nodup ∧
      ∀ a, a ∈ U ↔ a ∈ partAssignments (adjOf c regs) (keysOf regs.length comp) :=
  ⟨_, uniqueOf_eq _ (adjOf c regs) (hadj_build c regs) _ comp hnd, uniqueSet_nodup _ _ _,
    mem_uniqueSet_iff_partAssignments hnd hlt⟩

example : (uniqueOf (gOf starEs) 3 [0, 2, 1]).toOption =
    some [[(0, 0), (1, 1), (2, 1)], [(0, 1), (1, 0), (2, 0)]] := by decide

/-- `orders.update` over the frozensets of one tuple of the product, in any iteration order ρ: the
assembled `orders` is the plain look-up in the tuple (keys distinct) -/
theorem assemble_order_free (n : Nat) (ρ : List (Nat × Nat) → List (Nat × Nat)) (hρ : ∀ l, (ρ l).Perm l)
    (a : List (List (Nat × Nat))) (hnd : (a.flatten.map (·.1)).Nodup) :
    assemble n ρ a = levelsOfAssignment n a :=
  assemble_eq n ρ hρ a hnd

example : assemble 4 rhoRev [[(0, 1), (1, 0)], [(3, 2)]] = [1, 0, 0, 2] := by decide

/-! ### 4. MAIN: implementation model = specification model, for all σ, τ, ρ -/

/-- the two models fail together (with the same error) or succeed with lists that are permutations
of each other -/
theorem impl_same_as_spec {σ τ ρ} (h : Orders σ τ ρ) (es : List Entry) :
    SameAsSet (allDBImpl σ τ ρ es) (allDB es) :=
  impl_sameAsSet σ h.sigma τ h.tau ρ h.rho es

/-- the implementation model succeeds iff the specification model does -/
theorem impl_ok_iff {σ τ ρ} (h : Orders σ τ ρ) (es : List Entry) :
    (∃ L, allDBImpl σ τ ρ es = .ok L) ↔ (∃ L', allDB es = .ok L') := by
  have := impl_same_as_spec h es
  constructor
  · rintro ⟨L, hL⟩
    rw [hL] at this
    cases hs : allDB es with
    | ok L' => exact ⟨L', rfl⟩
    | error e => rw [hs] at this; exact absurd this (by simp [SameAsSet])
  · rintro ⟨L', hL'⟩
    rw [hL'] at this
    cases hs : allDBImpl σ τ ρ es with
    | ok L => exact ⟨L, rfl⟩
    | error e => rw [hs] at this; exact absurd this (by simp [SameAsSet])

/-- **impl_mem_iff**: a string is in the output of the implementation model iff it is in the output of
the specification model -/
theorem impl_mem_iff {σ τ ρ} (h : Orders σ τ ρ) (es : List Entry) (L L' : List (List Char))
    (hL : allDBImpl σ τ ρ es = .ok L) (hL' : allDB es = .ok L') (s : List Char) : s ∈ L ↔ s ∈ L' := by
  have := impl_same_as_spec h es
  rw [hL, hL'] at this
  exact List.Perm.mem_iff this

/-- **impl_exact** (`C16.allDB_exact` transferred): the list returned by the implementation model has
no repetition and consists exactly of the structure lines of the Grundy colourings of the conflict
graph — for every iteration order of every set -/
theorem impl_exact {σ τ ρ} (h : Orders σ τ ρ) (es : List Entry) (L : List (List Char))
    (hL : allDBImpl σ τ ρ es = .ok L) :
    L.Nodup ∧ ∀ s, s ∈ L ↔
      ∃ lv : List Nat, lv.length = (regions es).length ∧
        grundy (adjOf Gen.conflictAll (regions es)) lv = true ∧
        mkDB es.length (regions es) lv = .ok s := by
  obtain ⟨L', hL'⟩ := (impl_ok_iff h es).mp ⟨L, hL⟩
  have hp := impl_same_as_spec h es
  rw [hL, hL'] at hp
  have hP : L.Perm L' := hp
  obtain ⟨h1, h2⟩ := C16.allDB_exact es L' hL'
  exact ⟨(List.Perm.nodup_iff hP).mpr h1, fun s => (List.Perm.mem_iff hP).trans (h2 s)⟩

/-- **impl_nodup** -/
theorem impl_nodup {σ τ ρ} (h : Orders σ τ ρ) (es : List Entry) (L : List (List Char))
    (hL : allDBImpl σ τ ρ es = .ok L) : L.Nodup :=
  (impl_exact h es L hL).1

example : (allDBImpl sigmaRev tauRev rhoRev twoEs).toOption.map (·.map String.ofList) =
    some ["[(])[(])", "[(])([)]", "([)][(])", "([)]([)]"] := by decide

example : (allDB twoEs).toOption.map (·.map String.ofList) =
    some ["([)]([)]", "([)][(])", "[(])([)]", "[(])[(])"] := by decide

/-- for a *valid* BPSEQ with crossing stems the list has exactly as many entries as there are Grundy
colourings (string de-duplication removes nothing) -/
theorem impl_count {σ τ ρ} (h : Orders σ τ ρ) (es : List Entry) (L : List (List Char))
    (hv : valid es = true)
    (hne : (vertices (buildGraph Gen.conflictAll (regions es))).isEmpty = false)
    (hL : allDBImpl σ τ ρ es = .ok L) :
    L.length = (allLevels Gen.conflictAll (regions es)).length := by
  obtain ⟨L', hL'⟩ := (impl_ok_iff h es).mp ⟨L, hL⟩
  have hp := impl_same_as_spec h es
  rw [hL, hL'] at hp
  have hP : L.Perm L' := hp
  have hne' : ¬ (List.range (regions es).length).all (fun v =>
      degree (adjOf Gen.conflictAll (regions es)) (regions es).length v == 0) = true := by
    intro k
    rw [(vertices_isEmpty_iff _ _).mpr k] at hne; cases hne
  rw [hP.length_eq]
  exact (C16.allDB_one_to_one_valid es L' hv hne' hL').2

example : valid twoEs = true ∧ (vertices (gOf twoEs)).isEmpty = false := by decide

/-! ### 5. order: what is independent of the iteration orders, and what is not (serves C14) -/

/-- **impl_order_independent_as_set**: for any two choices of all iteration orders the outputs are
permutations of each other (or the same error) -/
theorem impl_order_independent_as_set {σ τ ρ σ' τ' ρ'} (h : Orders σ τ ρ) (h' : Orders σ' τ' ρ')
    (es : List Entry) : SameAsSet (allDBImpl σ τ ρ es) (allDBImpl σ' τ' ρ' es) :=
  (impl_same_as_spec h es).trans (impl_same_as_spec h' es).symm

/-- … in the non-error case, literally -/
theorem impl_outputs_perm {σ τ ρ σ' τ' ρ'} (h : Orders σ τ ρ) (h' : Orders σ' τ' ρ')
    (es : List Entry) (L L' : List (List Char)) (hL : allDBImpl σ τ ρ es = .ok L)
    (hL' : allDBImpl σ' τ' ρ' es = .ok L') : L.Perm L' := by
  have := impl_order_independent_as_set h h' es
  rw [hL, hL'] at this
  exact this

/-- **impl_list_order_depends_only_on**: the ORDER of the returned list is a function of the iteration
orders `U = iterSets σ τ es` of the sets `unique[0], unique[1], …` and of nothing else:
* (1) with crossing stems, the result is `finishSpec es U` — a definition in which neither σ nor ρ
  occurs (product with the last component varying fastest, look-up, `__make_dot_bracket`,
  first-occurrence de-duplication);
* (2) the sets themselves and their sequence do not depend on σ (nor on τ, ρ): for any other choice
  the `i`-th set is a permutation of the `i`-th set — τ only re-orders each set;
* (3) consequently equal `U` give equal lists, whatever σ, ρ are;
* (4) without crossing stems the result does not depend on σ, τ, ρ at all.
So the list order is a function of the order in which CPython iterates the sets `unique[i]` (sets of
frozensets of pairs of ints); the iteration order of the int sets `graph[v]` and of the frozensets
has no influence. -/
theorem impl_list_order_depends_only_on {σ τ ρ σ' τ' ρ'} (h : Orders σ τ ρ) (h' : Orders σ' τ' ρ')
    (es : List Entry) :
    ((vertices (buildGraph Gen.conflictAll (regions es))).isEmpty = false →
      allDBImpl σ τ ρ es = finishSpec es (iterSets σ τ es)) ∧
    All2 List.Perm (iterSets σ τ es) (iterSets σ' τ' es) ∧
    ((vertices (buildGraph Gen.conflictAll (regions es))).isEmpty = false →
      iterSets σ τ es = iterSets σ' τ' es → allDBImpl σ τ ρ es = allDBImpl σ' τ' ρ' es) ∧
    ((vertices (buildGraph Gen.conflictAll (regions es))).isEmpty = true →
      allDBImpl σ τ ρ es = allDBImpl σ' τ' ρ' es) := by
  refine ⟨?_, ?_, ?_, ?_⟩
  · exact impl_eq_finishSpec σ h.sigma τ h.tau ρ h.rho es
  · exact iterSets_sigma_free σ σ' h.sigma h'.sigma τ τ' h.tau h'.tau es
  · intro hne heq
    rw [impl_eq_finishSpec σ h.sigma τ h.tau ρ h.rho es hne,
      impl_eq_finishSpec σ' h'.sigma τ' h'.tau ρ' h'.rho es hne, heq]
  · intro he
    unfold allDBImpl
    simp only [he, if_true]

/-- σ and ρ alone do not change the list when they do not change the iteration orders of `unique[i]`
— on the star example σ changes the discovery order `[0,1,2]` / `[0,2,1]` and ρ reverses every
frozenset, yet the lists are equal -/
example : components (gOf starEs) sigmaId ≠ components (gOf starEs) sigmaRev ∧
    (allDBImpl sigmaId tauId rhoId starEs).toOption = (allDBImpl sigmaRev tauId rhoRev starEs).toOption := by
  decide

/-- **the list order does change with τ** (two-element witness: the three-stem path of `C16.exEs`, whose
list has two members): the same σ, ρ and two orders of the single set `unique[0]` give the two
different orders of the list.  So "the order of the list returned by `all_dot_brackets` is a function
of CPython's iteration order of `unique[i]`" cannot be improved to "is independent of it". -/
theorem list_order_changes_with_tau :
    ∃ (es : List Entry) (a b : List Char), a ≠ b ∧ Orders sigmaId tauId rhoId ∧ Orders sigmaId tauRev rhoId ∧
      allDBImpl sigmaId tauId rhoId es = .ok [a, b] ∧ allDBImpl sigmaId tauRev rhoId es = .ok [b, a] := by
  refine ⟨C16.exEs, ['(', '[', '.', '.', ')', '(', ']', ')'], ['[', '(', '.', '.', ']', '[', ')', ']'],
    by decide, orders_id, ⟨orders_id.sigma, orders_rev.tau, orders_id.rho⟩, ?_, ?_⟩
  · exact C16.ok_of_toOption (by decide)
  · exact C16.ok_of_toOption (by decide)

/-! ### 6. corollaries at the implementation level -/

/-- **the list contains the first-come-first-served notation** -/
theorem impl_contains_fcfs {σ τ ρ} (h : Orders σ τ ρ) (es : List Entry) (L : List (List Char))
    (s : List Char) (hL : allDBImpl σ τ ρ es = .ok L) (hf : fcfs es = .ok s) : s ∈ L := by
  obtain ⟨L', hL'⟩ := (impl_ok_iff h es).mp ⟨L, hL⟩
  exact (impl_mem_iff h es L L' hL hL' s).mpr (C16.fcfs_mem_allDB es L' s hL' hf)

example : fcfs starEs = .ok ['(', '[', '.', '[', '.', ')', ']', '.', ']'] := C16.ok_of_toOption (by decide)

/-- **the list contains the string of every Grundy colouring** — in particular of the optimal one: by
`C16.optimal_mem_allLevels` (push-down lemma of C02) every proper assignment is dominated in the
objective of `convert_to_dot_bracket` by a Grundy colouring, and C02 (`optimal_is_grundy`) shows the
solver's optimum is one -/
theorem impl_contains_grundy {σ τ ρ} (h : Orders σ τ ρ) (es : List Entry) (L : List (List Char))
    (lv : List Nat) (s : List Char) (hL : allDBImpl σ τ ρ es = .ok L)
    (hl : lv.length = (regions es).length)
    (hg : grundy (adjOf Gen.conflictAll (regions es)) lv = true)
    (hs : mkDB es.length (regions es) lv = .ok s) : s ∈ L :=
  ((impl_exact h es L hL).2 s).mpr ⟨lv, hl, hg, hs⟩

/-- **the list contains an optimal notation**: for every proper level vector `a` whose push-down
(`C16.optimal_mem_allLevels`) stays inside the bracket alphabet, the list contains the string of a level
vector that is pointwise ≤ `a` and at least as good in the objective -/
theorem impl_contains_optimal {σ τ ρ} (h : Orders σ τ ρ) (es : List Entry) (L : List (List Char))
    (a : List Nat) (hL : allDBImpl σ τ ρ es = .ok L) (hl : a.length = (regions es).length)
    (hp : proper (adjOf Gen.conflictAll (regions es)) a = true) :
    ∃ lv s, s ∈ L ∧ mkDB es.length (regions es) lv = .ok s ∧ (∀ v, lv.getD v 0 ≤ a.getD v 0) ∧
      score ((regions es).map (·.len)) a ≤ score ((regions es).map (·.len)) lv := by
  obtain ⟨lv, hlv, h1, h2⟩ := C16.optimal_mem_allLevels Gen.conflictAll (regions es) a hl hp
  obtain ⟨hlen, hg⟩ := (C16.allLevels_exact _ _ lv).mp hlv
  -- the implementation succeeded, so every enumerated vector has a string
  obtain ⟨L', hL'⟩ := (impl_ok_iff h es).mp ⟨L, hL⟩
  cases hs : mkDB es.length (regions es) lv with
  | ok s => exact ⟨lv, s, impl_contains_grundy h es L lv s hL hlen hg hs, hs, h1, h2⟩
  | error e =>
    exfalso
    by_cases hdeg : (List.range (regions es).length).all (fun v =>
        degree (adjOf Gen.conflictAll (regions es)) (regions es).length v == 0) = true
    · -- no crossing: the only Grundy vector is all zeros and FCFS is its string
      have hdeg' : ∀ v, v < (regions es).length →
          degree (adjOf Gen.conflictAll (regions es)) (regions es).length v = 0 := by
        intro v hv
        simpa using List.all_eq_true.mp hdeg v (List.mem_range.mpr hv)
      obtain ⟨_, hk⟩ := C16.knot_free_singleton es hdeg'
      obtain ⟨s0, _, _, hmk, _⟩ := hk L' hL'
      have hz := (grundy_no_edges _ (adjOf_symm _ _) (adjOf_irrefl _ _) _ hdeg' lv).mp ⟨hlen, hg⟩
      rw [hz, hmk] at hs; cases hs
    · have : allDB es = ((allLevels Gen.conflictAll (regions es)).mapM
          (mkDB es.length (regions es))).map dedupFirst := by
        unfold allDB; simp only; rw [if_neg hdeg]
      rw [this] at hL'
      cases hm : (allLevels Gen.conflictAll (regions es)).mapM (mkDB es.length (regions es)) with
      | error e' => rw [hm] at hL'; cases hL'
      | ok L0 =>
        obtain ⟨s', _, hr⟩ := ((mapM_ok _).mp hm).exists_right lv hlv
        rw [hs] at hr; cases hr

example : proper (adjOf Gen.conflictAll (regions starEs)) [3, 1, 7] = true ∧
    ([3, 1, 7] : List Nat).length = (regions starEs).length := by decide

/-- **pseudoknot-free structures**: the early return is taken for all σ, τ, ρ; the result is the single
FCFS string, the line of the all-zero level vector, made of dots and round brackets only -/
theorem impl_knot_free (σ : Nat → List Nat → List Nat)
    (τ : Nat → List (List (Nat × Nat)) → List (List (Nat × Nat)))
    (ρ : List (Nat × Nat) → List (Nat × Nat)) (es : List Entry)
    (hdeg : ∀ v, v < (regions es).length →
      degree (adjOf Gen.conflictAll (regions es)) (regions es).length v = 0) :
    allDBImpl σ τ ρ es = (fcfs es).map (fun s => [s]) ∧
    ∀ L, allDBImpl σ τ ρ es = .ok L → ∃ s, L = [s] ∧ fcfs es = .ok s ∧
      mkDB es.length (regions es) (List.replicate (regions es).length 0) = .ok s ∧
      ∀ ch ∈ s, ch = '.' ∨ ch = '(' ∨ ch = ')' := by
  have hb : (vertices (buildGraph Gen.conflictAll (regions es))).isEmpty = true := by
    rw [vertices_isEmpty_iff, List.all_eq_true]
    intro v hv
    simpa using hdeg v (List.mem_range.mp hv)
  have hbranch : allDBImpl σ τ ρ es = (fcfs es).map (fun s => [s]) := by
    unfold allDBImpl; simp only [hb, if_true]
  obtain ⟨h1, h2⟩ := C16.knot_free_singleton es hdeg
  refine ⟨hbranch, ?_⟩
  intro L hL
  apply h2 L
  rw [h1, ← hbranch]; exact hL

example : (∀ v, v < (regions C16.nestEs).length →
      degree (adjOf Gen.conflictAll (regions C16.nestEs)) (regions C16.nestEs).length v = 0) ∧
    allDBImpl sigmaRev tauRev rhoRev C16.nestEs = .ok [['(', '(', '.', '.', ')', ')']] := by
  refine ⟨?_, C16.ok_of_toOption (by decide)⟩
  have : (List.range (regions C16.nestEs).length).all (fun v =>
      degree (adjOf Gen.conflictAll (regions C16.nestEs)) (regions C16.nestEs).length v == 0) = true := by
    decide
  intro v hv
  simpa using List.all_eq_true.mp this v (List.mem_range.mpr hv)

end RnaVerif.Props.C16Impl

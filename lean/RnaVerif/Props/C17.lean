import RnaVerif.Lemmas.Clash
/-!
# C17 — clash detection equals the pairwise van-der-Waals definition (property theorems)

Model: `RnaVerif.Clash.clashes` (`find_clashes`) and `RnaVerif.Clash.report` / `csvRows`
(`clashfinder.main`), exact rational arithmetic (`Model/Clash.lean`).  The defining predicate is
`Clash.ClashDef occ o a b`; `occ` is the reading of an atom's occupancy: `effOcc` is what the source
does (regenerated: `Gen.occDefault`, `Gen.occZeroIsMissing`), `specOcc` is the literal reading
(missing = 1, nothing else changed).

Two theorems below hold only for a source in which (1) the per-chain running maximum reads the
per-chain dictionary (`Gen.chainMaxReadsOwnDict`) and (2) an occupancy of 0.0 is not replaced by 1.0
(`Gen.occZeroIsMissing = false`): `chain_max_correct` and `occupancy_literal`.  On a tree with
either defect they do not check, which is the intended signal.
-/
namespace RnaVerif.Props.C17
open RnaVerif RnaVerif.Clash

/-! ## bridges -/

/-- atom types are C, N, O, P; MolProbity mode adds 0.5 Å, the default mode nothing -/
theorem types_bridge :
    Gen.clashRadii.map (·.1) = ["C", "N", "O", "P"] ∧ Gen.molprobityOn = 1 / 2 ∧ Gen.molprobityOff = 0 := by
  decide +kernel

/-- **the KD-tree query radius is sufficient**: for all element types `a`, `b` and both modes,
`r a + r b + mp ≤ factor · max r + mp` — a radius edit that made the query incomplete breaks this -/
theorem kd_radius_sufficient :
    ∀ a ∈ Gen.clashRadii, ∀ b ∈ Gen.clashRadii, ∀ o : Opts, a.2 + b.2 + mp o ≤ queryRadius o := by
  intro a ha b hb o
  exact table_facts.1 a ha b hb _ (mp_mem o)

/-- the same for the radius the code looks up from any two atom names -/
theorem kd_radius_sufficient_names (o : Opts) (n₁ n₂ : String) :
    radius n₁ + radius n₂ + mp o ≤ queryRadius o :=
  radius_sum_le_query o n₁ n₂

/-- the grid shortcut of the model skips only pairs beyond the query radius -/
theorem grid_shortcut_sound (o : Opts) (a b : CAtom) (h : cellFar (mkR o a) (mkR o b) = true) :
    sq (queryRadius o) < V3.dist2 a.pos b.pos :=
  cellFar_sound o a b h

/-! ## the clash list -/

/-- **the list is the filter of the defining predicate** over all (earlier, later) pairs of atoms
that pass the nucleic-acid-only filter and are of type C/N/O/P -/
theorem clashes_eq_filter (o : Opts) (atoms : List CAtom) :
    clashes o atoms =
      ((pairsUp (atoms.filter (eligible o))).filter (fun p => decide (ClashDef effOcc o p.1 p.2))).map
        (mkClash effOcc) :=
  clashesWith_eq_filter effOcc o atoms

/-- `ClashDef` spelled out -/
theorem clashDef_spelled (occ : Option Rat → Rat) (o : Opts) (a b : CAtom) :
    ClashDef occ o a b ↔
      ((o.ignoreAutoclashes = true → a.res ≠ b.res) ∧
       (o.requireSameAtomName = true → a.name = b.name) ∧
       V3.dist2 a.pos b.pos ≤ sq (radius a.name + radius b.name + mp o) ∧
       (o.ignoreOccupancy = true ∨ isclose (occ a.occ + occ b.occ) 1 = true)) :=
  Iff.rfl

/-- the predicate is symmetric: a clash is an unordered pair -/
theorem clash_symmetric (occ : Option Rat → Rat) (o : Opts) (a b : CAtom) :
    ClashDef occ o a b ↔ ClashDef occ o b a :=
  clashDef_symm occ o a b

/-- each unordered pair is listed once (atoms numbered in file order): no pair of atom numbers
repeats, and the earlier atom always comes first, so `(i, j)` and `(j, i)` never both occur -/
theorem clashes_once (o : Opts) (atoms : List CAtom) (h : atoms.Pairwise (fun a b => a.idx < b.idx)) :
    ((clashes o atoms).map (fun c => (c.a.idx, c.b.idx))).Nodup ∧
    ∀ c ∈ clashes o atoms, c.a.idx < c.b.idx :=
  clashesWith_once effOcc o atoms h

def exAtom (i r : Nat) (name : String) (x : Rat) (occ : Option Rat) : CAtom :=
  { idx := i, res := r, chain := "A", resName := "A.G" ++ toString r, nucleotide := true, name := name,
    pos := ⟨x, 0, 0⟩, occ := occ }

/-- non-vacuity: two carbons 1 Å apart in different residues clash (0.6 + 0.6 ≥ 1), 3 Å apart do not -/
example : [exAtom 0 1 "C1'" 0 none, exAtom 1 2 "C2" 1 none].Pairwise (fun a b => a.idx < b.idx) := by
  decide
example : ClashDef specOcc ⟨true, false, false, false, false⟩ (exAtom 0 1 "C1'" 0 none) (exAtom 1 2 "C2" 1 none) ∧
    ¬ ClashDef specOcc ⟨true, false, false, false, false⟩ (exAtom 0 1 "C1'" 0 none) (exAtom 1 2 "C2" 3 none) ∧
    ¬ ClashDef specOcc ⟨false, false, false, false, false⟩ (exAtom 0 1 "C1'" 0 none) (exAtom 1 2 "C2" 1 none) ∧
    ¬ ClashDef specOcc ⟨false, false, false, false, false⟩ (exAtom 0 1 "C1'" 0 (some (1/2))) (exAtom 1 2 "C2" 1 none) ∧
    ClashDef specOcc ⟨false, false, false, false, false⟩ (exAtom 0 1 "C1'" 0 (some 0)) (exAtom 1 2 "C2" 1 (some 1)) := by
  decide +kernel

/-! ## the report of `main` -/

/-- the per-residue maximum printed for a residue pair is the maximum over the atom clashes listed
under it (occupancy sums are non-negative) -/
theorem residue_max_correct (cl : List Clash) (hpos : ∀ c ∈ cl, 0 ≤ c.occ) :
    ∀ cg ∈ report cl, ∀ g ∈ cg.groups, IsMaxOf g.maxOcc (g.atoms.map (·.occ)) := by
  have hflag : Gen.residueMaxReadsOwnDict = true := by decide
  intro cg hcg g hg
  obtain ⟨sub, _, hsub, hgroups, _⟩ := chainGroup_spec hcg
  rw [hgroups] at hg
  obtain ⟨hne, hmem, hmax⟩ := resGroup_spec hg
  rw [hmax, hflag]
  refine finalMax_own (by simpa using hne) ?_
  intro x hx
  obtain ⟨c, hc, rfl⟩ := List.mem_map.1 hx
  exact hpos c (hsub c (hmem c hc))

/-- **the per-chain maximum printed for a chain pair is the maximum over all atom clashes listed
under it.**  Needs `Gen.chainMaxReadsOwnDict = true`, i.e. a source whose running per-chain maximum
reads the per-chain dictionary. -/
theorem chain_max_correct (cl : List Clash) (hpos : ∀ c ∈ cl, 0 ≤ c.occ) :
    ∀ cg ∈ report cl, IsMaxOf cg.maxOcc ((cg.groups.flatMap (·.atoms)).map (·.occ)) := by
  have hflag : Gen.chainMaxReadsOwnDict = true := by decide
  intro cg hcg
  obtain ⟨sub, hne, hsub, hgroups, hmax⟩ := chainGroup_spec hcg
  have h := finalMax_own (occs := sub.map (·.occ)) (by simpa using hne)
    (by intro x hx; obtain ⟨c, hc, rfl⟩ := List.mem_map.1 hx; exact hpos c (hsub c hc))
  rw [hmax, hflag, hgroups]
  have hm : ∀ x, x ∈ ((resGroups sub).flatMap (·.atoms)).map (·.occ) ↔ x ∈ sub.map (·.occ) := by
    intro x
    simp only [List.mem_map]
    constructor
    · rintro ⟨c, hc, rfl⟩; exact ⟨c, mem_resGroups_atoms.1 hc, rfl⟩
    · rintro ⟨c, hc, rfl⟩; exact ⟨c, mem_resGroups_atoms.2 hc, rfl⟩
  exact ⟨(hm _).2 h.1, fun x hx => h.2 x ((hm x).1 hx)⟩

/-- the atom clashes printed / written to the CSV are exactly the clash list, each clash once -/
theorem csv_rows_eq_clashes (cl : List Clash) :
    (csvClashes cl).Perm cl ∧ (csvRows cl).Perm (cl.map csvRow) :=
  ⟨csvClashes_perm cl, (csvClashes_perm cl).map csvRow⟩

def exClash (i j : Nat) (ri rj : Nat) (o : Rat) : Clash :=
  ⟨exAtom i ri "C2" 0 none, exAtom j rj "C4" 0 none, o⟩

/-- non-vacuity: three clashes in two residue pairs of one chain pair, sums 1, 2, 1 -/
example : ∀ c ∈ [exClash 0 5 1 2 1, exClash 1 6 1 2 2, exClash 2 9 1 3 1], 0 ≤ c.occ := by decide +kernel
example : (report [exClash 0 5 1 2 1, exClash 1 6 1 2 2, exClash 2 9 1 3 1]).map (fun cg => cg.groups.length) = [2] := by
  decide +kernel

/-! ## occupancies are read literally -/

/-- **an atom's occupancy is used as it is; only a missing one counts as 1.**  Needs
`Gen.occZeroIsMissing = false`: with `occupancy or 1.0` in the source an occupancy of 0.0 is
replaced by 1.0 and a pair with occupancies 0.0 and 1.0 (sum 1) is not listed. -/
theorem occupancy_literal : ∀ x : Option Rat, effOcc x = specOcc x := by
  have h1 : Gen.occZeroIsMissing = false := by decide
  have h2 : Gen.occDefault = 1 := by decide +kernel
  intro x
  cases x <;> simp [effOcc, specOcc, h1, h2]

/-- hence the list is the defining filter with "occupancy sum 1" read literally -/
theorem clashes_eq_spec (o : Opts) (atoms : List CAtom) : clashes o atoms = clashesSpec o atoms := by
  have : effOcc = specOcc := funext occupancy_literal
  unfold clashes clashesSpec; rw [this]

end RnaVerif.Props.C17

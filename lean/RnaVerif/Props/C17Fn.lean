import RnaVerif.Model.FnSpec
import RnaVerif.Lemmas.Py
/-! # C17 — bridges for the functions regenerated from the source (translator part of the tie)

`Gen.Fn.atomRadius`, `atomMatches`, `classifyClash` are rewritten on every run by tools/py2lean.py from the
current text of `AtomType.radius`, `AtomType.matches` and `classify_clash` (clashfinder.py).  They are related to
the clash model (`Model/Clash.lean`: `radius`, `typed`) and to the radii table the value translator reads from
the live enum (`Gen.clashRadii`, pinned by `Props.C17.kd_radius_sufficient`).
-/
namespace RnaVerif.Props.C17Fn
open RnaVerif RnaVerif.Gen.Fn RnaVerif.PyL RnaVerif.FnSpec

theorem atomtype_enum_is_table : AtomType.all.map AtomType.name = Gen.clashRadii.map (·.1) ∧
    ∀ m ∈ AtomType.all, m.value = m.name ∧ m.value.toList.length = 1 := by decide

/-- **`AtomType.radius`** = the radius the table lists for that member; the `raise RuntimeError` branch is
unreachable -/
theorem atomRadius_bridge (m : AtomType) :
    atomRadius m = (Gen.clashRadii.lookup m.name).map some ∧ atomRadius m ≠ none :=
  (by decide +kernel : ∀ m ∈ AtomType.all,
    atomRadius m = (Gen.clashRadii.lookup m.name).map some ∧ atomRadius m ≠ none) m m.mem_all

/-- **the model's `Clash.radius name` is `AtomType[name[0]].radius`**: for an atom name whose first character is the
letter of a member, the model radius is the value the regenerated property returns -/
theorem model_radius_is_atomRadius (m : AtomType) (name : String) (h : name.toList.take 1 = m.name.toList) :
    atomRadius m = some (some (Clash.radius name)) := by
  unfold Clash.radius
  rw [h, String.ofList_toList]
  exact (by decide +kernel : ∀ m ∈ AtomType.all,
    atomRadius m = some (some ((Gen.clashRadii.lookup m.name).getD 0))) m m.mem_all

example : (("O3'" : String).toList.take 1 = AtomType.O.name.toList) ∧ atomRadius .O = some (some (53 / 100)) := by decide +kernel

/-- **`AtomType.matches`**: the stripped atom name starts with the member's letter -/
theorem atomMatches_spec (m : AtomType) (a : Atom) :
    atomMatches m a = m.value.toList.isPrefixOf (Py.strip a.name).toList := by
  simp [atomMatches, Py.startsWith]

/-- **the model's `Clash.typed` = "some member matches"**, for names on which Python's `strip()` and the model's
ASCII trimming agree (no exotic white space at the ends) -/
theorem model_typed_is_any_match (a : Atom) (h : Py.strip a.name = a.name.trimAscii.toString) :
    Clash.typed a.name = AtomType.all.any (fun m => atomMatches m a) := by
  unfold Clash.typed
  simp only [atomMatches_spec, h]
  simp [Gen.clashRadii, AtomType.all, AtomType.value, List.any]

example : atomMatches .O ⟨" O3'", none, none, none⟩ = true ∧ atomMatches .P ⟨"OP1", none, none, none⟩ = false ∧
    atomMatches .C ⟨"\tC1'", none, none, none⟩ = true := by decide

/-- **`classify_clash`**: the only named class is O3' against a phosphate oxygen (either naming scheme) -/
theorem classifyClash_spec (a b : Atom) (o : Py.PyFloat) :
    classifyClash a b o = clashClass a.name b.name := by
  unfold classifyClash clashClass
  simp

end RnaVerif.Props.C17Fn

import RnaVerif.Lemmas.Torsion
/-!
# C18 — torsion angles follow the IUPAC convention in both implementations (property theorems)

Reading.  `built a b l c₁ c₃ (cos φ) (sin φ)` is the quadruple p₂ = 0, p₃ = (0,0,l), p₁ = (a,0,−c₁),
p₄ = p₃ + (b cos φ, b sin φ, c₃): seen from p₂ towards p₃ (along +z) the bond p₂→p₁ points to azimuth 0
and the bond p₃→p₄ to azimuth φ, and azimuth grows clockwise for that viewer — the IUPAC dihedral is φ.
`a, b, l > 0` and `c₁, c₃` arbitrary give every combination of bond lengths and bond angles in
(0°, 180°); `Quad.map (move R t)` with `RᵀR = 1`, `det R = 1` gives every placement.

`torsion1` / `torsion2` (Lemmas) are `atan2 (√n·w) x` of the model's `Args` for
`tertiary.calculate_torsion_angle_coords` resp. `tertiary_v2.calculate_torsion_angle`;
`v1_scaling` / `v2_scaling` show that the literal arithmetic of the code (normalisations included) has
the same value.  The model is tied to the code by `harness/corr/c18.py` (quadrant and tan² of the
returned float against `Torsion.torsion1Rat` / `torsion2Rat`, whose meaning is `twin_sound`).

Result.  The claim holds for v1 (`C18_v1`).  For v2 it is **false**: it returns −φ
(`v2_returns_neg_phi`, `C18_v2_full_false`, witness of the pinned test: `v2_witness`);
`v2_returns_phi_partial` states what is true.
-/
namespace RnaVerif.Props.C18
open RnaVerif RnaVerif.V3 RnaVerif.Torsion Real

/-! ## bridges to the regenerated constants -/

/-- both implementations take χ over the IUPAC atoms O4'–C1'–N9–C4 (purines) and O4'–C1'–N1–C2
(pyrimidines), so they are applied to the same four points -/
theorem chi_atoms_agree :
    Gen.Tor.v1ChiPurine = ["O4'", "C1'", "N9", "C4"] ∧ Gen.Tor.v1ChiPyrimidine = ["O4'", "C1'", "N1", "C2"] ∧
    Gen.Tor.v2ChiPurine = Gen.Tor.v1ChiPurine ∧ Gen.Tor.v2ChiPyrimidine = Gen.Tor.v1ChiPyrimidine := by
  decide

/-- which residues get which χ: one-letter A,G / C,U,T in v1; residue names A,G,DA,DG / C,U,T,DC,DT in v2 -/
theorem chi_residue_sets :
    Gen.Tor.v1PurineLetters = ["A", "G"] ∧ Gen.Tor.v1PyrimidineLetters = ["C", "U", "T"] ∧
    Gen.Tor.v2PurineNames = ["A", "G", "DA", "DG"] ∧ Gen.Tor.v2PyrimidineNames = ["C", "U", "T", "DC", "DT"] := by
  decide

/-- the backbone torsions of the v2 table are the IUPAC α…ζ (atom, residue offset) -/
theorem backbone_table_iupac :
    Gen.Tor.v2Definitions =
      [("alpha", [("O3'", -1), ("P", 0), ("O5'", 0), ("C5'", 0)]),
       ("beta", [("P", 0), ("O5'", 0), ("C5'", 0), ("C4'", 0)]),
       ("gamma", [("O5'", 0), ("C5'", 0), ("C4'", 0), ("C3'", 0)]),
       ("delta", [("C5'", 0), ("C4'", 0), ("C3'", 0), ("O3'", 0)]),
       ("epsilon", [("C4'", 0), ("C3'", 0), ("O3'", 0), ("P", 1)]),
       ("zeta", [("C3'", 0), ("O3'", 0), ("P", 1), ("O5'", 1)])] ∧
    Gen.Tor.v2SeparateAngles = ["chi"] := by
  decide

/-- guards: all three thresholds are 1e-6, v1 answers 0.0 on a degenerate input, the clip is to [−1, 1] -/
theorem guard_constants :
    Gen.Tor.v1NormEps = 1 / 1000000 ∧ Gen.Tor.v1CrossEps = 1 / 1000000 ∧ Gen.Tor.v2CrossEps = 1 / 1000000 ∧
    Gen.Tor.v1DegenerateValue = 0 ∧ Gen.Tor.v1ClipLo = -1 ∧ Gen.Tor.v1ClipHi = 1 := by
  simp only [Gen.Tor.v1NormEps, Gen.Tor.v1CrossEps, Gen.Tor.v2CrossEps, Gen.Tor.v1DegenerateValue,
    Gen.Tor.v1ClipLo, Gen.Tor.v1ClipHi]
  norm_num

/-- `Residue3D.chi_class`: syn iff −30° < χ < 120°; hence −160° (A-form) is anti — and so is +160°,
i.e. the class cannot reveal a sign error, only the value can -/
theorem anti_at_minus_160 :
    Gen.Tor.v1SynLoDeg = -30 ∧ Gen.Tor.v1SynHiDeg = 120 ∧
    ¬ (Gen.Tor.v1SynLoDeg < -160 ∧ (-160 : Rat) < Gen.Tor.v1SynHiDeg) ∧
    ¬ (Gen.Tor.v1SynLoDeg < 160 ∧ (160 : Rat) < Gen.Tor.v1SynHiDeg) := by
  simp only [Gen.Tor.v1SynLoDeg, Gen.Tor.v1SynHiDeg]
  norm_num

/-! ## algebraic invariance (any commutative ring) -/
section ring
variable {K : Type} [CommRing K]

theorem dot_rot (R : M3 K) (h : M3.Orthonormal (1 : K) 0 (transpose R)) (u v : V3 K) :
    dot (R.apply u) (R.apply v) = dot u v := Torsion.dot_rot R h u v

theorem triple_rot (R : M3 K) (u v w : V3 K) :
    triple (R.apply u) (R.apply v) (R.apply w) = R.det * triple u v w := Torsion.triple_rot R u v w

theorem binet (a b c d : V3 K) :
    dot (cross a b) (cross c d) = dot a c * dot b d - dot a d * dot b c := Torsion.binet a b c d

theorem translation_invariant (p q t : V3 K) : sub (add p t) (add q t) = sub p q :=
  Torsion.sub_add_right p q t

/-- the `atan2` arguments of both implementations are unchanged by every proper rigid motion -/
theorem torsion_rigid_invariant (R : M3 K) (h : M3.Orthonormal (1 : K) 0 (transpose R)) (hd : R.det = 1)
    (t : V3 K) (q : Quad K) :
    (q.map (move R t)).args1 = q.args1 ∧ (q.map (move R t)).args2 = q.args2 := by
  rw [args1_move R h, args2_move R h, hd, one_mul, one_mul]; exact ⟨rfl, rfl⟩

/-- listing the points in the opposite order gives the same arguments (common factor 1) -/
theorem torsion_reverse (q : Quad K) : q.rev.args1 = q.args1 ∧ q.rev.args2 = q.args2 :=
  ⟨args1_rev q, args2_rev q⟩

/-- an improper motion (mirror image) keeps `x` and `n` and negates `w` (hence `y`) -/
theorem torsion_mirror (R : M3 K) (h : M3.Orthonormal (1 : K) 0 (transpose R)) (hd : R.det = -1)
    (t : V3 K) (q : Quad K) :
    (q.map (move R t)).args1 = ⟨q.args1.x, -q.args1.w, q.args1.n⟩ ∧
    (q.map (move R t)).args2 = ⟨q.args2.x, -q.args2.w, q.args2.n⟩ := by
  rw [args1_move R h, args2_move R h, hd, neg_one_mul, neg_one_mul]; exact ⟨rfl, rfl⟩

/-- the two implementations on every input: same `n`, `x₂ = n·x₁`, `w₂ = −n·w₁` -/
theorem v2_args_eq_neg_v1 (q : Quad K) :
    q.args2 = ⟨q.args1.n * q.args1.x, -(q.args1.n * q.args1.w), q.args1.n⟩ := args2_eq_args1 q

/-- v1's three normalisations multiply `x` and `y = √n·w` by the common factor `s₁ s₂² s₃` -/
theorem v1_scaling_args (s1 s2 s3 : K) (v1 v2 v3 : V3 K) :
    argsV1 (smul s1 v1) (smul s2 v2) (smul s3 v3) =
      ⟨s1 * s2 ^ 2 * s3 * (argsV1 v1 v2 v3).x, s1 * s2 * s3 * (argsV1 v1 v2 v3).w,
       s2 ^ 2 * (argsV1 v1 v2 v3).n⟩ := argsV1_scale s1 s2 s3 v1 v2 v3

end ring

-- non-vacuity: a proper rational rotation (3-4-5 about z) and the mirror z ↦ −z
example : M3.Orthonormal (1 : ℚ) 0 (transpose ⟨⟨3/5, -4/5, 0⟩, ⟨4/5, 3/5, 0⟩, ⟨0, 0, 1⟩⟩) ∧
    M3.det (⟨⟨3/5, -4/5, 0⟩, ⟨4/5, 3/5, 0⟩, ⟨0, 0, 1⟩⟩ : M3 ℚ) = 1 := by
  simp only [M3.Orthonormal, transpose, M3.det, triple, dot, cross]; norm_num
example : M3.Orthonormal (1 : ℚ) 0 (transpose (mirrorM : M3 ℚ)) ∧ (mirrorM : M3 ℚ).det = -1 :=
  ⟨mirrorM_orth, mirrorM_det⟩
example (p : V3 ℚ) : mirrorZ p = move mirrorM ⟨0, 0, 0⟩ p := mirrorZ_eq_move p

/-! ## over ℝ: what the code's arithmetic returns -/

/-- the literal arithmetic of tertiary.py, whichever vectors it normalises (`sᵢ > 0` arbitrary),
returns `torsion1` -/
theorem v1_scaling {s1 s2 s3 : ℝ} (h1 : 0 < s1) (h2 : 0 < s2) (h3 : 0 < s3) (q : Quad ℝ) :
    v1Code s1 s2 s3 q = torsion1 q := Torsion.v1_scaling h1 h2 h3 q

/-- the literal arithmetic of tertiary_v2.py past its collinearity guard returns `torsion2` -/
theorem v2_scaling (q : Quad ℝ)
    (h1 : 0 < norm2 (cross (sub q.p2 q.p1) (sub q.p3 q.p2)))
    (h2 : 0 < norm2 (cross (sub q.p3 q.p2) (sub q.p4 q.p3))) :
    v2Code q = torsion2 q := Torsion.v2_scaling' q h1 h2

example : 0 < norm2 (cross (sub Wit.p2 Wit.p1) (sub Wit.p3 Wit.p2)) ∧
    0 < norm2 (cross (sub Wit.p3 Wit.p2) (sub Wit.p4 Wit.p3)) := by
  simp only [Wit, norm2, dot, cross, sub]; norm_num

/-- meaning of the executable twin's output (sign x, sign w, n·w²/x²) -/
theorem twin_sound (a : Args ℝ) (hn : 0 < a.n) (hx : a.x ≠ 0) :
    Real.tan (angle a) ^ 2 = a.n * (a.w * a.w) / (a.x * a.x) ∧
    (0 < Real.cos (angle a) ↔ 0 < a.x) ∧ (Real.cos (angle a) < 0 ↔ a.x < 0) ∧
    (0 < Real.sin (angle a) ↔ 0 < a.w) ∧ (Real.sin (angle a) < 0 ↔ a.w < 0) :=
  Torsion.twin_sound a hn hx

example : (0 : ℝ) < (⟨-3, 4, 1⟩ : Args ℝ).n ∧ (⟨-3, 4, 1⟩ : Args ℝ).x ≠ 0 := by norm_num

/-- the rational model and the real model are the same polynomials -/
theorem model_cast (q : Quad ℚ) :
    (castQ q).args1 = q.args1.toReal ∧ (castQ q).args2 = q.args2.toReal := ⟨args1_cast q, args2_cast q⟩

/-! ## first implementation (tertiary.py): the property holds -/

/-- canonical frame: `(x, y) = k·(cos φ, sin φ)`, `k = a l² b > 0`, for any bond lengths and angles -/
theorem v1_xy_canonical (a b l c1 c3 φ : ℝ) (ha : 0 < a) (hb : 0 < b) (hl : 0 < l) :
    ∃ k : ℝ, 0 < k ∧
      (built a b l c1 c3 (cos φ) (sin φ)).args1.x = k * cos φ ∧
      Real.sqrt (built a b l c1 c3 (cos φ) (sin φ)).args1.n * (built a b l c1 c3 (cos φ) (sin φ)).args1.w
        = k * sin φ :=
  ⟨a * l ^ 2 * b, Torsion.v1_xy_canonical a b l c1 c3 φ ha hb hl⟩

theorem v1_returns_phi (a b l c1 c3 φ : ℝ) (ha : 0 < a) (hb : 0 < b) (hl : 0 < l)
    (hφ : φ ∈ Set.Ioc (-π) π) :
    torsion1 (built a b l c1 c3 (cos φ) (sin φ)) = φ := Torsion.v1_returns_phi a b l c1 c3 φ ha hb hl hφ

example : (0 : ℝ) < 1 ∧ (0 : ℝ) < 2 ∧ (0 : ℝ) < 3 / 2 ∧ π / 3 ∈ Set.Ioc (-π) π :=
  ⟨by norm_num, by norm_num, by norm_num, by constructor <;> linarith [Real.pi_pos]⟩

/-- **C18 for v1**: a quadruple built with dihedral φ, with any bond lengths and bond angles, placed
anywhere by a proper rigid motion: the function returns φ; the value lies in (−π, π]; the reversed
quadruple gives the same value and the mirror image the negated one -/
theorem C18_v1 (R : M3 ℝ) (hR : M3.Orthonormal (1 : ℝ) 0 (transpose R)) (hd : R.det = 1) (t : V3 ℝ)
    (a b l c1 c3 φ : ℝ) (ha : 0 < a) (hb : 0 < b) (hl : 0 < l) (hφ : φ ∈ Set.Ioc (-π) π) :
    let q := (built a b l c1 c3 (cos φ) (sin φ)).map (move R t)
    torsion1 q = φ ∧ torsion1 q.rev = φ ∧
    torsion1 (q.map mirrorZ) = if φ = π then π else -φ := by
  intro q
  have h : torsion1 q = φ := by
    rw [torsion1_rigid R hR hd]; exact Torsion.v1_returns_phi a b l c1 c3 φ ha hb hl hφ
  refine ⟨h, by rw [torsion1_rev, h], ?_⟩
  rw [map_mirrorZ, torsion1_improper mirrorM mirrorM_orth mirrorM_det, h]

example : M3.Orthonormal (1 : ℝ) 0 (transpose Rw) ∧ Rw.det = 1 := ⟨Rw_orth, Rw_det⟩

/-- range, reversal and mirror laws for v1 on *every* quadruple -/
theorem v1_laws (q : Quad ℝ) :
    torsion1 q ∈ Set.Ioc (-π) π ∧ torsion1 q.rev = torsion1 q ∧
    torsion1 (q.map mirrorZ) = if torsion1 q = π then π else -torsion1 q := by
  refine ⟨angle_mem _, torsion1_rev q, ?_⟩
  rw [map_mirrorZ, torsion1_improper mirrorM mirrorM_orth mirrorM_det]

/-- v1 on the quadruple of the test pinned for v2: −π/2 (the IUPAC value) -/
theorem v1_witness : torsion1 Wit = -(π / 2) := Torsion.v1_witness

/-! ## second implementation (tertiary_v2.py): returns −φ -/

/-- canonical frame: `(x, y) = k·(cos φ, −sin φ)`, `k = a l⁴ b > 0` -/
theorem v2_xy_canonical (a b l c1 c3 φ : ℝ) (ha : 0 < a) (hb : 0 < b) (hl : 0 < l) :
    ∃ k : ℝ, 0 < k ∧
      (built a b l c1 c3 (cos φ) (sin φ)).args2.x = k * cos φ ∧
      Real.sqrt (built a b l c1 c3 (cos φ) (sin φ)).args2.n * (built a b l c1 c3 (cos φ) (sin φ)).args2.w
        = -(k * sin φ) :=
  ⟨a * l ^ 4 * b, Torsion.v2_xy_canonical a b l c1 c3 φ ha hb hl⟩

theorem v2_returns_neg_phi (a b l c1 c3 φ : ℝ) (ha : 0 < a) (hb : 0 < b) (hl : 0 < l)
    (hφ : φ ∈ Set.Ioo (-π) π) :
    torsion2 (built a b l c1 c3 (cos φ) (sin φ)) = -φ :=
  Torsion.v2_returns_neg_phi a b l c1 c3 φ ha hb hl hφ

example : -(π / 2) ∈ Set.Ioo (-π) π := neg_half_pi_mem

/-- the property's claim for the second implementation, at full strength -/
def C18_v2_full : Prop :=
  ∀ (R : M3 ℝ) (t : V3 ℝ) (a b l c1 c3 φ : ℝ),
    M3.Orthonormal (1 : ℝ) 0 (transpose R) → R.det = 1 → 0 < a → 0 < b → 0 < l → φ ∈ Set.Ioc (-π) π →
    torsion2 ((built a b l c1 c3 (cos φ) (sin φ)).map (move R t)) = φ

/-- the quadruple (1,0,0),(0,0,0),(0,1,0),(0,1,1) of `tests/test_v2.py` is the construction with
prescribed dihedral −π/2 (unit bonds, right bond angles) after a proper rotation … -/
theorem witness_is_built :
    Wit = (built 1 1 1 0 0 (cos (-(π / 2))) (sin (-(π / 2)))).map (move Rw ⟨0, 0, 0⟩) := Wit_is_built

/-- … and the second implementation returns +π/2 on it -/
theorem v2_witness : torsion2 Wit = π / 2 := Torsion.v2_witness

/-- **the full claim is false for v2** (witness above) -/
theorem C18_v2_full_false : ¬ C18_v2_full := by
  intro h
  have h1 := h Rw ⟨0, 0, 0⟩ 1 1 1 0 0 (-(π / 2)) Rw_orth Rw_det one_pos one_pos one_pos
    ⟨neg_half_pi_mem.1, neg_half_pi_mem.2.le⟩
  rw [← Wit_is_built, Torsion.v2_witness] at h1
  linarith [Real.pi_pos]

/-- what **is** true of v2 on every built-and-placed quadruple: the value is `−φ` (φ itself only for
φ = π), i.e. right magnitude, range (−π, π], invariant under proper rigid motions, equal to v1's value
up to sign; reversal keeps it -/
theorem v2_returns_phi_partial (R : M3 ℝ) (hR : M3.Orthonormal (1 : ℝ) 0 (transpose R)) (hd : R.det = 1)
    (t : V3 ℝ) (a b l c1 c3 φ : ℝ) (ha : 0 < a) (hb : 0 < b) (hl : 0 < l) (hφ : φ ∈ Set.Ioc (-π) π) :
    let q := (built a b l c1 c3 (cos φ) (sin φ)).map (move R t)
    torsion2 q = (if φ = π then π else -φ) ∧ |torsion2 q| = |φ| ∧ torsion2 q ∈ Set.Ioc (-π) π ∧
    torsion2 q = (if torsion1 q = π then π else -torsion1 q) ∧ torsion2 q.rev = torsion2 q := by
  intro q
  have h1 : torsion1 q = φ := (C18_v1 R hR hd t a b l c1 c3 φ ha hb hl hφ).1
  have h2 : torsion2 q = if φ = π then π else -φ := by
    show torsion2 ((built a b l c1 c3 (cos φ) (sin φ)).map (move R t)) = _
    rw [torsion2_rigid R hR hd]
    split_ifs with hp
    · rw [hp]; exact v2_at_pi a b l c1 c3 ha hb hl
    · exact Torsion.v2_returns_neg_phi a b l c1 c3 φ ha hb hl ⟨hφ.1, lt_of_le_of_ne hφ.2 hp⟩
  refine ⟨h2, ?_, angle_mem _, ?_, torsion2_rev q⟩
  · rw [h2]; split_ifs with hp
    · rw [hp]
    · exact abs_neg φ
  · rw [h1]; exact h2

/-- relation of the two implementations on **every** quadruple with p₂ ≠ p₃ (not only built ones) -/
theorem v2_eq_neg_v1 (q : Quad ℝ) (hn : 0 < norm2 (sub q.p3 q.p2)) :
    torsion2 q = if torsion1 q = π then π else -torsion1 q := torsion2_eq q hn

example : 0 < norm2 (sub Wit.p3 Wit.p2) := by simp only [Wit, norm2, dot, sub]; norm_num

/-- range, reversal and mirror laws hold for v2 as well (they cannot see a global sign) -/
theorem v2_laws (q : Quad ℝ) :
    torsion2 q ∈ Set.Ioc (-π) π ∧ torsion2 q.rev = torsion2 q ∧
    torsion2 (q.map mirrorZ) = if torsion2 q = π then π else -torsion2 q := by
  refine ⟨angle_mem _, torsion2_rev q, ?_⟩
  rw [map_mirrorZ, torsion2_improper mirrorM mirrorM_orth mirrorM_det]

/-! ## the functions with their guards (thresholds from `Gen.Tor`) -/

/-- both guards only look at five rigid-motion invariants -/
theorem guards_rigid_invariant {K : Type} [CommRing K] (R : M3 K) (h : M3.Orthonormal (1 : K) 0 (transpose R))
    (t : V3 K) (q : Quad K) : guardQ (q.map (move R t)) = guardQ q := guardQ_move R h t q

/-- the `numpy.clip` of v1's first argument is the identity (all three vectors have length ≤ 1) -/
theorem v1_clip_harmless {s1 s2 s3 : ℝ} (q : Quad ℝ)
    (h1 : norm2 (smul s1 (sub q.p2 q.p1)) ≤ 1) (h2 : norm2 (smul s2 (sub q.p3 q.p2)) ≤ 1)
    (h3 : norm2 (smul s3 (sub q.p4 q.p3)) ≤ 1) :
    v1CodeClipped s1 s2 s3 q = v1Code s1 s2 s3 q := Torsion.v1_clip_harmless q h1 h2 h3

example : norm2 (smul (1 : ℝ) (sub Wit.p2 Wit.p1)) ≤ 1 ∧ norm2 (smul (1 : ℝ) (sub Wit.p3 Wit.p2)) ≤ 1 ∧
    norm2 (smul (1 : ℝ) (sub Wit.p4 Wit.p3)) ≤ 1 := by
  simp only [Wit, norm2, dot, smul, sub]; norm_num

/-- **C18 for v1, guard included**: bond lengths above 1e-6 and sines of both bond angles at least
1e-6 (in particular lengths 0.8–2.5 and angles 20°–160°): `code1` returns φ -/
theorem C18_v1_code (R : M3 ℝ) (hR : M3.Orthonormal (1 : ℝ) 0 (transpose R)) (hd : R.det = 1) (t : V3 ℝ)
    (a b l c1 c3 φ : ℝ) (ha : 0 < a) (hb : 0 < b) (hl : 0 < l) (hφ : φ ∈ Set.Ioc (-π) π)
    (h1 : ((v1NormEps2 : ℚ) : ℝ) < a ^ 2 + c1 ^ 2) (h2 : ((v1NormEps2 : ℚ) : ℝ) < l ^ 2)
    (h3 : ((v1NormEps2 : ℚ) : ℝ) < b ^ 2 + c3 ^ 2)
    (hs1 : ((v1CrossEps2 : ℚ) : ℝ) * (a ^ 2 + c1 ^ 2) ≤ a ^ 2)
    (hs2 : ((v1CrossEps2 : ℚ) : ℝ) * (b ^ 2 + c3 ^ 2) ≤ b ^ 2) :
    code1 ((built a b l c1 c3 (cos φ) (sin φ)).map (move R t)) = φ := by
  unfold code1
  rw [deg1_built _ _ R hR t a b l c1 c3 φ h1 h2 h3 hs1 hs2]
  exact (C18_v1 R hR hd t a b l c1 c3 φ ha hb hl hφ).1

-- non-vacuity: unit bonds, right bond angles
example : ((v1NormEps2 : ℚ) : ℝ) < 1 ^ 2 + 0 ^ 2 ∧ ((v1CrossEps2 : ℚ) : ℝ) * (1 ^ 2 + 0 ^ 2) ≤ 1 ^ 2 := by
  simp only [v1NormEps2, v1CrossEps2, Gen.Tor.v1NormEps, Gen.Tor.v1CrossEps]; norm_num

/-- v2 with its guard: defined (not nan) and equal to −φ (φ only at φ = π) -/
theorem C18_v2_code (R : M3 ℝ) (hR : M3.Orthonormal (1 : ℝ) 0 (transpose R)) (hd : R.det = 1) (t : V3 ℝ)
    (a b l c1 c3 φ : ℝ) (ha : 0 < a) (hb : 0 < b) (hl : 0 < l) (hφ : φ ∈ Set.Ioc (-π) π)
    (hs1 : ((v2CrossEps2 : ℚ) : ℝ) ≤ a ^ 2 * l ^ 2) (hs2 : ((v2CrossEps2 : ℚ) : ℝ) ≤ b ^ 2 * l ^ 2) :
    code2 ((built a b l c1 c3 (cos φ) (sin φ)).map (move R t)) = some (if φ = π then π else -φ) := by
  unfold code2
  rw [deg2_built _ R hR t a b l c1 c3 φ hs1 hs2]
  simp only [Bool.false_eq_true, if_false]
  exact congrArg some (v2_returns_phi_partial R hR hd t a b l c1 c3 φ ha hb hl hφ).1

example : ((v2CrossEps2 : ℚ) : ℝ) ≤ 1 ^ 2 * 1 ^ 2 := by
  simp only [v2CrossEps2, Gen.Tor.v2CrossEps]; norm_num


end RnaVerif.Props.C18

import RnaVerif.Lemmas.Labels
/-!
# C19 — external-tool output is imported totally and faithfully (property theorems)

Model: `RnaVerif/Model/Labels.lean` (mirrors `adapter.py` on ASCII input); specification vocabulary
(`Recognised`, `WellFormedUnit`, `lineSpec`, `pairSpec`, `stackSpec`, …) and proofs:
`RnaVerif/Lemmas/Labels.lean`.  All theorems are about *all* strings / lines / listings / documents,
none about a sample.
-/
namespace RnaVerif.Props.C19
open RnaVerif RnaVerif.Labels

/-! ## Bridge theorems: the regenerated literals are what the statement pins -/

/-- `n` prefix, `a` suffix (only on names of length ≥ 3), the shapes of `dBR` / `dBPh`, the stacking
letters and the cis/trans letters -/
theorem label_literals :
    Gen.fr3dPrefix = "n" ∧ Gen.fr3dSuffix = "a" ∧ Gen.fr3dSuffixMinLen = 3 ∧
    Gen.brLen = 3 ∧ Gen.brTail = "BR" ∧ Gen.brKeyPrefix = "_" ∧ Gen.brCategory = "base-ribose" ∧
    Gen.bphLen = 4 ∧ Gen.bphTail = "BPh" ∧ Gen.bphKeyPrefix = "_" ∧ Gen.bphCategory = "base-phosphate" ∧
    Gen.stackLen = 3 ∧ Gen.stackHead = "s" ∧ Gen.stackSecond = ["3", "5"] ∧ Gen.stackThird = ["3", "5"] ∧
    Gen.lwLen = 3 ∧ Gen.lwOrient = ["c", "t"] := by decide

/-- the four stacking labels and the topology each denotes -/
theorem stacking_map :
    Gen.stackMap = [("s33", "downward"), ("s55", "upward"), ("s35", "outward"), ("s53", "inward")] ∧
    ∀ p ∈ Gen.stackMap, p.2 ∈ Gen.stackingNames := by decide

/-- there are 18 Leontis–Westhof classes: {c,t} × {W,H,S} × {W,H,S} -/
theorem lw_classes :
    Gen.lwNames.length = 18 ∧ Gen.lwNames.Nodup ∧
    ∀ lw ∈ Gen.lwNames, ∃ o ∈ ['c', 't'], ∃ e₁ ∈ ['W', 'H', 'S'], ∃ e₂ ∈ ['W', 'H', 'S'],
      lw = String.ofList [o, e₁, e₂] := by decide

/-- enum member `_k` is the class written `kBR` / `kBPh`, k = 0..9 -/
theorem backbone_members :
    (∀ d ∈ asciiDigits, Gen.brMembers.lookup (String.ofList ['_', d]) = some (String.ofList [d, 'B', 'R'])) ∧
    (∀ d ∈ asciiDigits, Gen.bphMembers.lookup (String.ofList ['_', d]) = some (String.ofList [d, 'B', 'P', 'h'])) ∧
    Gen.brMembers.length = 10 ∧ Gen.bphMembers.length = 10 := by decide

/-- the model agrees with the live `unify_classification` on the representative labels tabulated by
the translator (category tag and member name) -/
theorem probe_agrees : ∀ e ∈ Gen.unifyProbe, ((unify e.1).tag, (unify e.1).member) = e.2 := by
  decide +kernel

/-- unit-id and line layout: `|`-fields chain=2, name=3, number=4, icode=7 (when ≥ 8 fields);
tab-fields unit=0, label=1, unit=2 (at least 3); `#` comments; ValueError and IndexError contained -/
theorem layout_literals :
    Gen.unitSep = '|' ∧ Gen.unitChainIdx = 2 ∧ Gen.unitNameIdx = 3 ∧ Gen.unitNumberIdx = 4 ∧
    Gen.unitIcodeIdx = 7 ∧ Gen.unitIcodeMinLen = 8 ∧
    Gen.lineSep = '\t' ∧ Gen.lineMinParts = 3 ∧ Gen.lineNt1Idx = 0 ∧ Gen.lineLabelIdx = 1 ∧ Gen.lineNt2Idx = 2 ∧
    Gen.commentPrefix = "#" ∧ contained .valueError = true ∧ contained .indexError = true ∧
    Gen.dssrNameSep = ':' ∧ Gen.dssrStackSep = ',' := by decide

/-- every category is routed to its own result list and wrapped in its own interaction class -/
theorem routing :
    Gen.fr3dRouting =
      [("base-pair", "basePairs", "BasePair"), ("stacking", "stackings", "Stacking"),
       ("base-ribose", "baseRiboseInteractions", "BaseRibose"),
       ("base-phosphate", "basePhosphateInteractions", "BasePhosphate"),
       ("other", "otherInteractions", "OtherInteraction")] ∧
    Gen.biFields = ["basePairs", "stackings", "baseRiboseInteractions", "basePhosphateInteractions",
      "otherInteractions"] := by decide

/-- the `LW in …` test of `match_dssr_lw` accepts exactly the 18 class names (so the enum lookup that
follows cannot raise).  FAILS TO CHECK on a tree where the test is `lw in dir(LeontisWesthof)`:
`"__doc__"` etc. pass the test and the lookup raises KeyError (`matchLw_keyError`). -/
theorem dssr_lw_test_exact : LwTestExact :=
  lwTestExact_of (by decide) (by decide)

/-! ## Label normalisation -/

/-- the grammar of recognised labels, spelled out -/
theorem recognised_def (s : String) :
    Recognised s ↔ ∃ pre core suf, s.toList = pre ++ core ++ suf ∧ (pre = [] ∨ pre = ['n']) ∧
      (suf = [] ∨ suf = ['a']) ∧
      ((∃ o e₁ e₂, core = [o, e₁, e₂] ∧ o ∈ ['c', 't', 'C', 'T'] ∧ e₁ ∈ ['W', 'H', 'S', 'w', 'h', 's'] ∧
          e₂ ∈ ['W', 'H', 'S', 'w', 'h', 's']) ∨
       (core = ['s', '3', '3'] ∨ core = ['s', '3', '5'] ∨ core = ['s', '5', '3'] ∨ core = ['s', '5', '5']) ∨
       (∃ d, d ∈ asciiDigits ∧ core = [d, 'B', 'R']) ∨ (∃ d, d ∈ asciiDigits ∧ core = [d, 'B', 'P', 'h'])) :=
  Iff.rfl

private theorem toList_wrap (pre suf : String) (l : List Char) :
    (pre ++ String.ofList l ++ suf).toList = pre.toList ++ l ++ suf.toList := by
  simp [String.toList_append, String.toList_ofList]

private theorem pre_cases {pre : String} (h : pre = "" ∨ pre = "n") : pre.toList = [] ∨ pre.toList = ['n'] := by
  rcases h with rfl | rfl
  · exact Or.inl (by decide)
  · exact Or.inr (by decide)

private theorem suf_cases {suf : String} (h : suf = "" ∨ suf = "a") : suf.toList = [] ∨ suf.toList = ['a'] := by
  rcases h with rfl | rfl
  · exact Or.inl (by decide)
  · exact Or.inr (by decide)

/-- all 18 Leontis–Westhof classes, every letter-case variant of the three letters, optional `n`
prefix, optional `a` suffix: the base-pair class named by the case-folded letters -/
theorem unify_lw (o e₁ e₂ : Char) (ho : o ∈ orientLetters) (h₁ : e₁ ∈ edgeLetters) (h₂ : e₂ ∈ edgeLetters)
    (pre suf : String) (hpre : pre = "" ∨ pre = "n") (hsuf : suf = "" ∨ suf = "a") :
    unify (pre ++ String.ofList [o, e₁, e₂] ++ suf) =
      .basePair (String.ofList [pyLower o, pyUpper e₁, pyUpper e₂]) := by
  unfold unify
  rw [toList_wrap, unifyL_strip (pre_cases hpre) (suf_cases hsuf) (Or.inl ⟨o, e₁, e₂, rfl, ho, h₁, h₂⟩)]
  exact coreL_lw ho h₁ h₂

example : unify "nCwsa" = .basePair "cWS" := by decide
example : 'C' ∈ orientLetters ∧ 'w' ∈ edgeLetters ∧ 's' ∈ edgeLetters := by decide

/-- every class is reached: the canonical spelling of each of the 18 names denotes that class -/
theorem unify_lw_onto : ∀ lw ∈ Gen.lwNames, unify lw = .basePair lw := by decide +kernel

/-- the four stacking labels, with optional prefix / suffix -/
theorem unify_stack (pre suf : String) (hpre : pre = "" ∨ pre = "n") (hsuf : suf = "" ∨ suf = "a") :
    unify (pre ++ "s33" ++ suf) = .stacking "downward" ∧ unify (pre ++ "s55" ++ suf) = .stacking "upward" ∧
    unify (pre ++ "s35" ++ suf) = .stacking "outward" ∧ unify (pre ++ "s53" ++ suf) = .stacking "inward" := by
  have h := coreL_stack
  have hp := pre_cases hpre
  have hs := suf_cases hsuf
  refine ⟨?_, ?_, ?_, ?_⟩
  · have := toList_wrap pre suf ['s', '3', '3']
    unfold unify; rw [show ("s33" : String) = String.ofList ['s', '3', '3'] from by decide, this,
      unifyL_strip hp hs (Or.inr (Or.inl (Or.inl rfl)))]; exact h.1
  · have := toList_wrap pre suf ['s', '5', '5']
    unfold unify; rw [show ("s55" : String) = String.ofList ['s', '5', '5'] from by decide, this,
      unifyL_strip hp hs (Or.inr (Or.inl (Or.inr (Or.inr (Or.inr rfl)))))]; exact h.2.1
  · have := toList_wrap pre suf ['s', '3', '5']
    unfold unify; rw [show ("s35" : String) = String.ofList ['s', '3', '5'] from by decide, this,
      unifyL_strip hp hs (Or.inr (Or.inl (Or.inr (Or.inl rfl))))]; exact h.2.2.1
  · have := toList_wrap pre suf ['s', '5', '3']
    unfold unify; rw [show ("s53" : String) = String.ofList ['s', '5', '3'] from by decide, this,
      unifyL_strip hp hs (Or.inr (Or.inl (Or.inr (Or.inr (Or.inl rfl)))))]; exact h.2.2.2

example : unify "ns35a" = .stacking "outward" := by decide

/-- `0BR … 9BR` and `0BPh … 9BPh`, with optional prefix / suffix -/
theorem unify_bph_br (d : Char) (hd : d ∈ asciiDigits) (pre suf : String)
    (hpre : pre = "" ∨ pre = "n") (hsuf : suf = "" ∨ suf = "a") :
    unify (pre ++ String.ofList [d, 'B', 'R'] ++ suf) = .baseRibose (String.ofList ['_', d]) ∧
    unify (pre ++ String.ofList [d, 'B', 'P', 'h'] ++ suf) = .basePhosphate (String.ofList ['_', d]) := by
  unfold unify
  rw [toList_wrap, toList_wrap,
    unifyL_strip (pre_cases hpre) (suf_cases hsuf) (Or.inr (Or.inr (Or.inl ⟨d, hd, rfl⟩))),
    unifyL_strip (pre_cases hpre) (suf_cases hsuf) (Or.inr (Or.inr (Or.inr ⟨d, hd, rfl⟩)))]
  exact ⟨coreL_br hd, coreL_bph hd⟩

example : unify "7BPh" = .basePhosphate "_7" ∧ unify "n0BRa" = .baseRibose "_0" := by decide

/-- normalisation never fails: the result is `other` or names an existing member of the right enum -/
theorem unify_total (s : String) : (unify s).WellFormed := unifyL_wf _

/-- MAIN: a label is filed under `other` exactly when it is not in the grammar — for every string -/
theorem unify_other_iff (s : String) (_h : IsAscii s) : unify s = .other ↔ ¬ Recognised s :=
  unifyL_other_iff _

example : IsAscii "perp" ∧ ¬ Recognised "perp" := by
  refine ⟨by decide, ?_⟩
  exact (unifyL_other_iff "perp".toList).1 (by decide)
example : IsAscii "ntSHa" ∧ Recognised "ntSHa" :=
  ⟨by decide, ['n'], ['t', 'S', 'H'], ['a'], by decide, Or.inr rfl, Or.inr rfl,
    Or.inl ⟨'t', 'S', 'H', rfl, by decide, by decide, by decide⟩⟩

/-! ## Unit ids, lines, listings -/

/-- a unit id parses exactly when it is well-formed, to exactly the residue it denotes -/
theorem unit_ok_iff (u : String) (r : Residue) : parseUnitId u = .ok r ↔ WellFormedUnit u.toList r :=
  parseUnitIdL_ok_iff _ _

/-- the unit-id specification, spelled out -/
theorem wellFormedUnit_def (u : List Char) (r : Residue) :
    WellFormedUnit u r ↔
      (match splitOn '|' u with
        | _ :: _ :: chain :: name :: num :: rest =>
          (match pyInt num with
            | .ok n => some ⟨String.ofList chain, n, icodeSpec rest, String.ofList name⟩
            | .error _ => none)
        | _ => none) = some r := Iff.rfl

/-- a line with two well-formed unit ids yields exactly one interaction, between exactly the parsed
residues, classified by its label, appended to the list that `unify` designates and to no other -/
theorem line_yields_one (line : String) (u₁ label u₂ : List Char) (rest : List (List Char))
    (r₁ r₂ : Residue) (hsplit : splitOn '\t' line.toList = u₁ :: label :: u₂ :: rest)
    (h₁ : WellFormedUnit u₁ r₁) (h₂ : WellFormedUnit u₂ r₂) (acc : Listing) :
    processLine line = .added ⟨r₁, r₂, unifyL label⟩ ∧
    (acc.add ⟨r₁, r₂, unifyL label⟩).get (listOf (unifyL label)) =
      acc.get (listOf (unifyL label)) ++ [⟨r₁, r₂, unifyL label⟩] ∧
    (∀ k, k ≠ listOf (unifyL label) → (acc.add ⟨r₁, r₂, unifyL label⟩).get k = acc.get k) := by
  refine ⟨?_, add_get acc ⟨r₁, r₂, unifyL label⟩⟩
  unfold processLine
  rw [processLineL_eq]
  have : lineSpec line.toList = some ⟨r₁, r₂, unifyL label⟩ := by
    unfold lineSpec
    rw [hsplit]
    unfold WellFormedUnit at h₁ h₂
    simp [h₁, h₂]
  rw [this]

example : splitOn '\t' "X|1|A|G|1\tcWW\tX|1|B|C|-2|||A".toList =
      "X|1|A|G|1".toList :: "cWW".toList :: "X|1|B|C|-2|||A".toList :: [] ∧
    WellFormedUnit "X|1|A|G|1".toList ⟨"A", 1, none, "G"⟩ ∧
    WellFormedUnit "X|1|B|C|-2|||A".toList ⟨"B", -2, some "A", "C"⟩ := by decide

/-- a line is skipped exactly when it does not have three tab-separated fields whose first and third
are well-formed unit ids; otherwise it is added; it never raises -/
theorem line_skipped_iff (line : String) :
    (processLine line = .skipped ↔ lineSpec line.toList = none) ∧ ∀ e, processLine line ≠ .raised e := by
  unfold processLine
  rw [processLineL_eq]
  cases lineSpec line.toList <;> simp

/-- the line specification, spelled out -/
theorem lineSpec_def (line : List Char) :
    lineSpec line =
      match splitOn '\t' line with
      | u₁ :: label :: u₂ :: _ =>
        (match unitSpec u₁, unitSpec u₂ with
          | some r₁, some r₂ => some ⟨r₁, r₂, unifyL label⟩
          | _, _ => none)
      | _ => none := rfl

/-- importing a listing never raises, and the result is exactly: one interaction for every kept line
(stripped, non-empty, not a `#` comment) that satisfies the line specification, in order, each in
the list of its category -/
theorem listing_total (text : String) :
    parseListing text = .ok (addAll {} ((keptLines text.toList).filterMap lineSpec)) ∧
    (addAll {} ((keptLines text.toList).filterMap lineSpec)).size =
      ((keptLines text.toList).filterMap lineSpec).length := by
  refine ⟨parseListingL_eq _, ?_⟩
  rw [addAll_size]; simp [Listing.size]

/-! ## DSSR -/

/-- exactly the pairs with a valid class whose two names resolve are kept, in document order -/
theorem dssr_pairs_exact (st : List Residue) (ps : List DssrPair) :
    dssrPairs st ps = .ok (ps.filterMap (pairSpec st)) :=
  dssrPairs_eq dssr_lw_test_exact st ps

/-- the pair specification, spelled out -/
theorem pairSpec_some_iff (st : List Residue) (p : DssrPair) (a b : Residue) (c : String) :
    pairSpec st p = some (a, b, c) ↔
      resolve st p.nt1 = some a ∧ resolve st p.nt2 = some b ∧ p.lw = some c ∧ c ∈ Gen.lwNames := by
  unfold pairSpec validClass
  cases resolve st p.nt1 <;> cases resolve st p.nt2 <;> cases p.lw <;> simp
  rename_i x y z
  by_cases hz : z ∈ Gen.lwNames <;> simp [hz]
  · rintro _ _ rfl; exact hz
  · rintro _ _ rfl; exact hz

/-- exactly the consecutive members of each stack that both resolve are kept -/
theorem dssr_stacks_exact (st : List Residue) (stacks : List String) :
    dssrStacks st stacks = stacks.flatMap (fun s => stackSpec (stackMembers st s)) :=
  dssrStacks_eq st stacks

/-- importing a DSSR document never raises and returns exactly the specified pairs and stackings -/
theorem dssr_total (st : List Residue) (doc : DssrDoc) (model : Option Int) :
    parseDssr st doc model = .ok ((selectParams doc model).pairs.filterMap (pairSpec st),
      (selectParams doc model).stacks.flatMap (fun s => stackSpec (stackMembers st s))) :=
  parseDssr_eq dssr_lw_test_exact st doc model

example : (dssrPairs [⟨"A", 1, none, "G"⟩, ⟨"A", 2, none, "C"⟩]
    [⟨some "A.G1", some "A.C2", some "cWW"⟩, ⟨some "A.G1", some "A.C9", some "cWW"⟩,
     ⟨some "A.G1", some "A.C2", some "cww"⟩]).toOption =
    some [(⟨"A", 1, none, "G"⟩, ⟨"A", 2, none, "C"⟩, "cWW")] := by decide +kernel

end RnaVerif.Props.C19

import RnaVerif.Model.Labels
import RnaVerif.Generated.Functions
import RnaVerif.Lemmas.Py
/-! # C19 — bridge for `match_dssr_lw` regenerated from the source (translator part of the tie)

`Gen.Fn.matchDssrLw` is rewritten on every run by tools/py2lean.py from the current text of
`adapter.match_dssr_lw`.  The theorem states that it is the model function `Labels.matchLw` the C19 theorems
(`dssr_pairs_exact`, `listing_total`) are about — for every string, not only for the strings the value
translator probes to build `Gen.dssrLwAccepted`.
-/
namespace RnaVerif.Props.C19Fn
open RnaVerif RnaVerif.Gen.Fn RnaVerif.PyL

theorem lw_names : LeontisWesthof.all.map LeontisWesthof.name = Gen.lwNames := by decide

/-- the strings the membership test accepts are exactly the member names -/
theorem accepted_same : (∀ a ∈ Gen.dssrLwAccepted, a ∈ Gen.lwNames) ∧ (∀ a ∈ Gen.lwNames, a ∈ Gen.dssrLwAccepted) := by
  decide

/-- **`match_dssr_lw` = the model's `Labels.matchLw`**: `None` for a missing label and for every string that is not
a member name (`__doc__`, lower case, trailing blanks, …), the member otherwise; it never raises -/
theorem matchDssrLw_bridge (x : Option String) :
    (matchDssrLw x).map (Option.map LeontisWesthof.name) =
      (match Labels.matchLw x with | .ok v => some v | .error _ => none) := by
  cases x with
  | none => decide
  | some s =>
    have hk : (LeontisWesthof.ofName? s).isSome = true ↔ s ∈ Gen.lwNames := by
      rw [← lw_names]; exact find_isSome_iff _ _ _
    unfold matchDssrLw Labels.matchLw
    cases ho : LeontisWesthof.ofName? s with
    | none =>
      have h1 : s ∉ Gen.lwNames := fun h => by have := hk.mpr h; simp [ho] at this
      have h2 : s ∉ Gen.dssrLwAccepted := fun h => h1 (accepted_same.1 s h)
      simp [ho, h2]
    | some m =>
      have hn : m.name = s := by
        have := List.find?_some ho
        simpa using this
      have h1 : s ∈ Gen.lwNames := hk.mp (by simp [ho])
      have h2 : s ∈ Gen.dssrLwAccepted := accepted_same.2 s h1
      simp [ho, h1, h2, hn]

theorem matchDssrLw_total (x : Option String) : matchDssrLw x ≠ none := by
  have := matchDssrLw_bridge x
  intro h
  rw [h] at this
  cases x with
  | none => simp [Labels.matchLw] at this
  | some s =>
    unfold Labels.matchLw at this
    by_cases h2 : s ∈ Gen.dssrLwAccepted
    · have h1 := accepted_same.1 s h2
      simp [h1, h2] at this
    · simp [h2] at this

example : matchDssrLw (some "tHS") = some (some .tHS) ∧ matchDssrLw (some "ths") = some none ∧
    matchDssrLw (some "__doc__") = some none ∧ matchDssrLw none = some none := by decide

end RnaVerif.Props.C19Fn

import RnaVerif.Lemmas.Table
/-!
# C20 — mmCIF item editing changes only its target; CLI output equals library result

Property theorems about the model `RnaVerif.Table` of `rnapolis.transformer` (tied to the source by
`Generated/Transformer.lean` and by `harness/corr/c20.py`); proofs are in `Lemmas/Table.lean`.

Reading fixed here.

* A document is the list of categories of the first data block (`data[0]`, the only block the code
  edits); `copyFile` / `replaceFile` carry the remaining blocks along unchanged by construction.
* "Injective first-seen mapping": the k-th distinct value of the item, in order of first appearance,
  receives the k-th letter of the substitution alphabet; the mapping is injective on the values seen
  *when the alphabet has no repeated letter* (the default alphabet has none — `default_alphabet_nodup`);
  with a repeated letter the code's mapping is not injective (`firstSeen_not_injective_with_repeats`),
  which is the caller's choice of alphabet, not a defect.
* Rows are rectangular (`Category.Rect`) in every statement that speaks about whole columns; the model
  also covers the short last row the reader yields for a truncated loop (there the Python code raises
  `IndexError`: `copy_error_is_index`, `replace_error_is_index`).
* "Untouched" = the library function returns the very text it was given (`Outcome.unchanged`), not a
  re-serialisation.
-/
namespace RnaVerif.Props.C20
open RnaVerif RnaVerif.Table

/-! ## bridges to the generated literals -/

/-- the defaults of both library functions address `atom_site`, copy `label_asym_id` onto
`auth_asym_id`, and replace `auth_asym_id` -/
theorem defaults_agree :
    Gen.trDefaultCopyCategory = "atom_site" ∧ Gen.trDefaultReplaceCategory = "atom_site" ∧
    Gen.trDefaultCopyFrom = "label_asym_id" ∧ Gen.trDefaultCopyTo = "auth_asym_id" ∧
    Gen.trDefaultReplaceColumn = "auth_asym_id" := by decide

/-- the default substitution alphabet has 94 letters, none repeated, none of them white space -/
theorem default_alphabet_nodup :
    Gen.trDefaultValues.toList.Nodup ∧ Gen.trDefaultValues.toList.length = 94 ∧
    Gen.trDefaultValues.toList.all (fun c => !c.isWhitespace) = true := by decide +kernel

/-- the positional arguments and options `main` understands -/
theorem cli_options :
    Gen.cliOptions = ["input", "output", "--category", "--copy-from", "--copy-to", "--replace", "--values"] := by
  decide

/-! ## copy -/

/-- **frame condition of copy**: every other category is untouched and stays at its place, no category
appears or disappears; inside the edited category the item names keep their order (the old item list is
a prefix of the new one), the rows keep their number and order, and every position other than the
target's — hence every item other than the target — keeps its value in every row -/
theorem copy_frame {d d' : Document} {cat src to : String}
    (h : copyFromTo d cat src to = .ok (.rewritten d')) :
    d'.length = d.length ∧ d'.map (·.name) = d.map (·.name) ∧
    (∀ (k : Nat) (x : Category), d[k]? = some x → x.name ≠ cat → d'[k]? = some x) ∧
    ∃ c c', getCat d cat = some c ∧ getCat d' cat = some c' ∧
      c.items <+: c'.items ∧ c'.rows.length = c.rows.length ∧
      (c.Rect → ∀ p, p < c.items.length → p ≠ c.items.idxOf to → c'.colAt p = c.colAt p) ∧
      (c.Rect → ∀ it ∈ c.items, it ≠ to → c'.col it = c.col it) := Table.copy_frame h

/-- **target equals source**: after the copy the target item holds, row by row, the values of the
source item, which is itself unchanged -/
theorem copy_target_eq_source {d d' : Document} {cat src to : String}
    (h : copyFromTo d cat src to = .ok (.rewritten d')) :
    ∃ c c', getCat d cat = some c ∧ getCat d' cat = some c' ∧ to ∈ c'.items ∧
      (c.Rect → c'.col to = c.col src ∧ c'.col src = c.col src) := Table.copy_target_eq_source h

/-- **new target item**: an item name that does not exist yet is appended as the last item and every
row receives its source value as a new last value; an existing target leaves the item list as it is;
rectangular stays rectangular -/
theorem copy_new_item_appended {d d' : Document} {cat src to : String}
    (h : copyFromTo d cat src to = .ok (.rewritten d')) :
    ∃ c c', getCat d cat = some c ∧ getCat d' cat = some c' ∧
      (to ∈ c.items → c'.items = c.items) ∧
      (to ∉ c.items → c'.items = c.items ++ [to] ∧
        (c.Rect → c'.rows = c.rows.map (fun r => r ++ [r.getD (c.items.idxOf src) ""]))) ∧
      (c.Rect → c'.Rect) := Table.copy_new_item_appended h

/-- with rectangular rows the copy never raises -/
theorem copy_total {d : Document} {cat src to : String} (hr : ∀ c ∈ d, c.Rect) :
    ∃ o, copyFromTo d cat src to = .ok o := Table.copy_total hr

/-- in general the only exception is `IndexError` (short row) -/
theorem copy_error_is_index {d : Document} {cat src to : String} {e : Err}
    (h : copyFromTo d cat src to = .error e) : e = .indexError := Table.copy_error_is_index h

/-- non-vacuity: a two-category document, multi-word / quoted / `?` / `.` values, existing target -/
example : copyFromTo
    [⟨"entry", ["id"], [["my id"]]⟩, ⟨"atom_site", ["id", "label_asym_id", "auth_asym_id"], [["1", "A", "?"], ["2", "it's", "."]]⟩]
    "atom_site" "label_asym_id" "auth_asym_id" =
    .ok (.rewritten [⟨"entry", ["id"], [["my id"]]⟩,
      ⟨"atom_site", ["id", "label_asym_id", "auth_asym_id"], [["1", "A", "A"], ["2", "it's", "it's"]]⟩]) := by decide

/-- non-vacuity: new target item on a rectangular category -/
example : copyFromTo [⟨"c", ["x", "y"], [["1", "a b"], ["2", "?"]]⟩] "c" "y" "z" =
    .ok (.rewritten [⟨"c", ["x", "y", "z"], [["1", "a b", "a b"], ["2", "?", "?"]]⟩]) ∧
    (⟨"c", ["x", "y"], [["1", "a b"], ["2", "?"]]⟩ : Category).Rect := by decide

/-- the short last row of a truncated loop: the code raises `IndexError` -/
example : copyFromTo [⟨"c", ["x", "y"], [["1", "2"], ["3"]]⟩] "c" "y" "x" = .error .indexError := by decide

/-! ## replace -/

/-- **frame condition of replace**: every other category is untouched and stays at its place; inside
the edited category the item list is the same, the rows keep their number and order and every position
other than the replaced item's keeps its value in every row -/
theorem replace_frame {d d' : Document} {cat col : String} {values : List Char} {m : Mapping}
    (h : replaceValue d cat col values = .ok (.rewritten d', m)) :
    d'.length = d.length ∧ d'.map (·.name) = d.map (·.name) ∧
    (∀ (k : Nat) (x : Category), d[k]? = some x → x.name ≠ cat → d'[k]? = some x) ∧
    ∃ c c', getCat d cat = some c ∧ getCat d' cat = some c' ∧
      c'.items = c.items ∧ c'.rows.length = c.rows.length ∧
      (∀ p, p ≠ c.items.idxOf col → c'.colAt p = c.colAt p) ∧
      (∀ it ∈ c.items, it ≠ col → c'.col it = c.col it) := Table.replace_frame h

/-- **the new column is the image of the old one under the first-seen mapping, and that mapping is what
is returned**: the returned `m` *is* `firstSeenMap values column` (k-th distinct value in order of first
appearance ↦ k-th letter), every row's new value is the letter `m` gives its old value, and `m` is
injective when the alphabet has no repeated letter -/
theorem replace_is_firstSeen_image {d d' : Document} {cat col : String} {values : List Char} {m : Mapping}
    (h : replaceValue d cat col values = .ok (.rewritten d', m)) :
    ∃ c c', getCat d cat = some c ∧ getCat d' cat = some c' ∧
      m = firstSeenMap values (valsAt c.rows (c.items.idxOf col)) ∧
      (∀ (k : Nat) (r : Row), c.rows[k]? = some r → ∃ v ch, r[c.items.idxOf col]? = some v ∧ lookup m v = some ch ∧
        c'.rows[k]? = some (r.set (c.items.idxOf col) (String.singleton ch))) ∧
      (values.Nodup → ∀ a b ch, lookup m a = some ch → lookup m b = some ch → a = b) :=
  Table.replace_is_firstSeen_image h

/-- **the first-seen mapping through an alphabet without repeated letters is injective**; its keys are
exactly the distinct values of the column, each once -/
theorem firstSeen_injective (values : List Char) (l : List String) (hnd : values.Nodup) :
    (∀ a b ch, lookup (firstSeenMap values l) a = some ch → lookup (firstSeenMap values l) b = some ch → a = b) ∧
    (firstSeen l).Nodup ∧ (∀ x, x ∈ firstSeen l ↔ x ∈ l) := Table.firstSeen_injective values l hnd

/-- non-vacuity of `values.Nodup`: the default alphabet -/
example : Gen.trDefaultValues.toList.Nodup := default_alphabet_nodup.1

/-- the hypothesis is needed: a repeated letter is handed out twice -/
theorem firstSeen_not_injective_with_repeats :
    lookup (firstSeenMap ['A', 'A'] ["x", "y"]) "x" = some 'A' ∧
    lookup (firstSeenMap ['A', 'A'] ["x", "y"]) "y" = some 'A' := by decide

/-- **alphabet exhausted ⇔ error**: on a rectangular category with the item present, `replace_value`
raises exactly when the item has more distinct values than the alphabet has letters, and what it raises
is `IndexError` -/
theorem replace_alphabet_exhausted_iff_error {d : Document} {cat col : String} {values : List Char} {c : Category}
    (hc : getCat d cat = some c) (hcol : col ∈ c.items) (hr : c.Rect) :
    ((∃ e, replaceValue d cat col values = .error e) ↔
        values.length < (firstSeen (valsAt c.rows (c.items.idxOf col))).length) ∧
    (∀ e, replaceValue d cat col values = .error e → e = .indexError) :=
  Table.replace_alphabet_exhausted_iff_error hc hcol hr

theorem replace_error_is_index {d : Document} {cat col : String} {values : List Char} {e : Err}
    (h : replaceValue d cat col values = .error e) : e = .indexError := Table.replace_error_is_index h

/-- non-vacuity (`test_replace_value` in small): four chains through "ABCD" -/
example : replaceValue
    [⟨"entry", ["id"], [["x y"]]⟩, ⟨"atom_site", ["id", "auth_asym_id"], [["1", "A"], ["2", "B"], ["3", "A-2"], ["4", "A"], ["5", "B-2"]]⟩]
    "atom_site" "auth_asym_id" "ABCD".toList =
    .ok (.rewritten [⟨"entry", ["id"], [["x y"]]⟩,
      ⟨"atom_site", ["id", "auth_asym_id"], [["1", "A"], ["2", "B"], ["3", "C"], ["4", "A"], ["5", "D"]]⟩],
      [("A", 'A'), ("B", 'B'), ("A-2", 'C'), ("B-2", 'D')]) := by decide

/-- non-vacuity of the exhaustion theorem: three distinct values, two letters -/
example : replaceValue [⟨"c", ["x"], [["p"], ["q"], ["p"], ["r"]]⟩] "c" "x" ['1', '2'] = .error .indexError ∧
    getCat [⟨"c", ["x"], [["p"], ["q"], ["p"], ["r"]]⟩] "c" = some ⟨"c", ["x"], [["p"], ["q"], ["p"], ["r"]]⟩ ∧
    (⟨"c", ["x"], [["p"], ["q"], ["p"], ["r"]]⟩ : Category).Rect ∧
    firstSeen ["p", "q", "p", "r"] = ["p", "q", "r"] := by decide

/-! ## missing category / item -/

/-- **a missing category or a missing source item leaves the file untouched**: the library functions
return the very text they were given (and `replace_value` an empty mapping), whatever the tokeniser
makes of it; the same for a text without any data block and for `category=None` -/
theorem missing_leaves_untouched (cd : Codec) (content : String) :
    (∀ cat src to, (∀ b bs, cd.parse content = b :: bs → ∀ c, getCat b.cats cat = some c → src ∉ c.items) →
        copyText cd content (some cat) src to = .ok content) ∧
    (∀ cat col values, (∀ b bs, cd.parse content = b :: bs → ∀ c, getCat b.cats cat = some c → col ∉ c.items) →
        replaceText cd content (some cat) col values = .ok (content, [])) ∧
    (∀ src to, copyText cd content none src to = .ok content) ∧
    (∀ col values, replaceText cd content none col values = .ok (content, [])) :=
  Table.missing_leaves_untouched cd content

/-- on the parsed level the outcome is `unchanged` *exactly* when the category or the source item is
missing: nothing else is ever returned verbatim, and nothing is rewritten when they are missing -/
theorem copy_unchanged_iff {d : Document} {cat src to : String} :
    copyFromTo d cat src to = .ok .unchanged ↔ (∀ c, getCat d cat = some c → src ∉ c.items) :=
  Table.copy_unchanged_iff

theorem replace_unchanged_iff {d : Document} {cat col : String} {values : List Char} :
    (∃ m, replaceValue d cat col values = .ok (.unchanged, m)) ↔ (∀ c, getCat d cat = some c → col ∉ c.items) :=
  Table.replace_unchanged_iff

theorem replace_unchanged_mapping {d : Document} {cat col : String} {values : List Char} {m : Mapping}
    (h : replaceValue d cat col values = .ok (.unchanged, m)) : m = [] := Table.replace_unchanged_mapping h

/-- non-vacuity: category absent, item absent -/
example : copyFromTo [⟨"c", ["x"], [["1"]]⟩] "nope" "x" "y" = .ok .unchanged ∧
    copyFromTo [⟨"c", ["x"], [["1"]]⟩] "c" "nope" "y" = .ok .unchanged ∧
    replaceValue [⟨"c", ["x"], [["1"]]⟩] "c" "nope" ['a'] = .ok (.unchanged, []) := by decide

/-! ## command line -/

/-- whenever `main` hands the file's *content* to the library function and writes the *text* component
of the result, the tool writes exactly what the library function returns for the input file's content
(`CliEqLibrary fl`: for every tokeniser, file system, argument vector and existing input file,
`cliMain fl … = cliSpec …`) -/
theorem cli_eq_library_of_fixed (readsFirst : Bool) : CliEqLibrary (fixedFlags readsFirst) :=
  Table.cli_eq_library_of_fixed readsFirst

/-- bridge: that is how the present `main` is written (flags regenerated from the source on every run;
this is the obligation that breaks when `main` passes the path or writes the tuple) -/
theorem cli_flags_fixed : currentFlags = fixedFlags Gen.cliReadsFirst := by decide

/-- **CLI = library** for the present source tree -/
theorem cli_eq_library : CliEqLibrary currentFlags := cli_flags_fixed ▸ cli_eq_library_of_fixed _

/-- the flags matter: a `main` that passes the path as content and writes the tuple does not satisfy
the statement (the state of the tree before the `fix:` commit) -/
theorem cli_not_eq_library_when_path_passed :
    ¬ CliEqLibrary { readsFirst := false, copyPassesPath := true, replacePassesPath := true, replaceWritesTuple := true } :=
  Table.cli_not_eq_library_when_path_passed

/-- non-vacuity of `CliEqLibrary`: an existing file, copy mode, something is written -/
example : cliSpec { parse := fun s => if s = "D" then [⟨"a", [⟨"c", ["x"], [["1"]]⟩]⟩] else [], render := fun _ => "R" } "D"
    { input := "in.cif", output := "out.cif", category := some "c", copyFrom := some "x", copyTo := some "y" } =
    .wrote "out.cif" "R" := by decide

end RnaVerif.Props.C20

/-! Snapshot of the donor / acceptor / edge tables and thresholds that property C03 pins
(`tertiary.py:29-99`, `annotator.py:51-52, 84, 346`).  Written by hand, never regenerated: the bridge
theorems of `Props/C03.lean` compare the regenerated tables (`RnaVerif.Gen`) with this file, so a
changed table entry or threshold in the source breaks a proof obligation. -/
namespace RnaVerif.Spec.PairsChemistry

def baseDonors : List (String × List String) :=
  [("A", ["C2", "N6", "C8", "O2'"]), ("G", ["N1", "N2", "C8", "O2'"]), ("C", ["N4", "C5", "C6", "O2'"]),
   ("U", ["N3", "C5", "C6", "O2'"]), ("T", ["N3", "C6", "C7"])]

def baseAcceptors : List (String × List String) :=
  [("A", ["N1", "N3", "N7"]), ("G", ["N3", "O6", "N7"]), ("C", ["O2", "N3"]), ("U", ["O2", "O4"]),
   ("T", ["O2", "O4"])]

def phosphateAcceptors : List String := ["OP1", "OP2", "O5'", "O3'"]
def riboseAcceptors : List String := ["O4'", "O2'"]

def baseEdges : List (String × List (String × String)) :=
  [("A", [("N1", "W"), ("C2", "WS"), ("N3", "S"), ("N6", "WH"), ("N7", "H"), ("C8", "H"), ("O2'", "S")]),
   ("G", [("N1", "W"), ("N2", "WS"), ("N3", "S"), ("O6", "WH"), ("N7", "H"), ("C8", "H"), ("O2'", "S")]),
   ("C", [("O2", "WS"), ("N3", "W"), ("N4", "WH"), ("C5", "H"), ("C6", "H"), ("O2'", "S")]),
   ("U", [("O2", "WS"), ("N3", "W"), ("O4", "WH"), ("C5", "H"), ("C6", "H"), ("O2'", "S")]),
   ("T", [("O2", "WS"), ("N3", "W"), ("O4", "WH"), ("C6", "H"), ("C7", "H")])]

/-- 4.0 Å; at least two contacts -/
def maxDist : Rat := 4
def minCount : Nat := 2
/-- angle window 50°–130°, and a rational enclosure (width 4e-30) of cos²50° = cos²130° -/
def angleLo : Rat := 50
def angleHi : Rat := 130
def cosSq50 : Rat × Rat :=
  (82635182233306965114828337323 / 200000000000000000000000000000,
   51646988895816853196767710827 / 125000000000000000000000000000)

/-- atoms of the glycosidic torsion C1'–N9/N1 … N9/N1–C1' and of the base normal -/
def purineLetters : String := "AG"
def glyco : String × String × String := ("C1'", "N9", "N1")
def normalPurine : List String := ["N9", "N7", "N3"]
def normalOther : List String := ["N1", "C4", "O2"]

/-- Zirbel et al. base-phosphate classes as coded: (base, donor, ref1, ref2, class if |torsion|<90°, class otherwise) -/
def bphTable : List (String × String × String × String × Nat × Nat) :=
  [("A", "C2", "", "", 2, 2), ("A", "C8", "", "", 0, 0), ("A", "N6", "N1", "C6", 6, 7),
   ("G", "C8", "", "", 0, 0), ("G", "N1", "", "", 5, 5), ("G", "N2", "N3", "C2", 1, 3),
   ("C", "C5", "", "", 9, 9), ("C", "C6", "", "", 0, 0), ("C", "N4", "N3", "C4", 6, 7),
   ("U", "C5", "", "", 9, 9), ("U", "C6", "", "", 0, 0), ("U", "N3", "", "", 5, 5),
   ("T", "C6", "", "", 0, 0), ("T", "C7", "", "", 9, 9), ("T", "N3", "", "", 5, 5)]

def mergeRules : List (Nat × Nat × Nat) := [(3, 5, 4), (7, 9, 8)]

end RnaVerif.Spec.PairsChemistry

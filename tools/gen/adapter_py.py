"""Translator for src/rnapolis/adapter.py -> Generated/Adapter.lean   (property C19)

Three sources, in the order of DESIGN 4.1:
 * live objects: enum members (BR, BPh, StackingTopology), the BaseInteractions field order, the
   routing of the five categories to result lists / interaction classes (read off one-line listings
   run through the live `parse_fr3d_output`), a table of `unify_classification` on a fixed list of
   representative labels, the container of the `LW in ...` test of `match_dssr_lw`;
 * `ast` for literals that exist only inside function bodies (prefix/suffix, BR/BPh tails and
   lengths, the s33..s55 map, separators, field indices, contained exception classes).  The walker
   looks for *shapes* (a `len(x) == N` next to an `x[1:] == "..."`, a `.split("...")` call, ...),
   never for line numbers or variable names;
 * pinned defaults below + ctx.lost(name) when a shape can no longer be found (that aspect is then
   carried by the correspondence check and by the `unifyProbe` table alone).
"""
import ast
import os
import sys
import tempfile

from genlib import HEADER, find_function, lean_char, lean_list, lean_str, module_ast

PIN = {
    "adapter.prefix": "n",
    "adapter.suffix": ("a", 3),
    "adapter.br": (3, "BR", "_", "base-ribose", "BR"),
    "adapter.bph": (4, "BPh", "_", "base-phosphate", "BPh"),
    "adapter.stack": (3, "s", ["3", "5"], ["3", "5"],
                      [("s33", "downward"), ("s55", "upward"), ("s35", "outward"), ("s53", "inward")]),
    "adapter.lw": (3, ["c", "t"]),
    "adapter.unit": ("|", 2, 4, 3, 7, 8),
    "adapter.line": ("\t", 3, 0, 1, 2, ["ValueError", "IndexError"]),
    "adapter.comment": "#",
    "adapter.dssrNameSep": ":",
    "adapter.dssrStackSep": ",",
}

PROBE_LABELS = (
    ["cWW", "cWH", "cWS", "cHW", "cHH", "cHS", "cSW", "cSH", "cSS",
     "tWW", "tWH", "tWS", "tHW", "tHH", "tHS", "tSW", "tSH", "tSS"]
    + ["s33", "s35", "s53", "s55"]
    + ["%dBR" % k for k in range(10)] + ["%dBPh" % k for k in range(10)]
    + ["ncWW", "cWWa", "ncWWa", "cww", "Tsh", "ns35", "s55a", "n0BR", "3BPha", "nctHSa"[2:]]
    + ["", "n", "a", "na", "cW", "cWa", "cWX", "xWW", "S35", "s34", "s3", "BR", "aBR", "0Br", "0BPH", "0BP",
       "nn", "nncWW", "cWWaa", "perp", "cWWn", "acWW", "10BR", "s333"]
)


def cstr(n):
    return n.value if isinstance(n, ast.Constant) and isinstance(n.value, str) else None


def cint(n):
    if isinstance(n, ast.Constant) and isinstance(n.value, int) and not isinstance(n.value, bool):
        return n.value
    if isinstance(n, ast.UnaryOp) and isinstance(n.op, ast.USub):
        v = cint(n.operand)
        return None if v is None else -v
    return None


def len_cmp(n, opcls):
    """`len(x) <op> K` -> K"""
    if (isinstance(n, ast.Compare) and len(n.ops) == 1 and isinstance(n.ops[0], opcls)
            and isinstance(n.left, ast.Call) and getattr(n.left.func, "id", "") == "len"):
        return cint(n.comparators[0])
    return None


def mcall(n, attr):
    """`x.attr(args)` -> args"""
    if isinstance(n, ast.Call) and isinstance(n.func, ast.Attribute) and n.func.attr == attr:
        return n.args
    return None


def conj(test):
    return list(test.values) if isinstance(test, ast.BoolOp) and isinstance(test.op, ast.And) else [test]


def index_of(n):
    """`x[K]` -> K"""
    if isinstance(n, ast.Subscript):
        return cint(n.slice)
    return None


def str_tuple(n):
    if isinstance(n, (ast.Tuple, ast.List, ast.Set)):
        v = [cstr(e) for e in n.elts]
        if v and all(x is not None for x in v):
            return v
    return None


def walk_ifs(fn):
    return [n for n in ast.walk(fn) if isinstance(n, ast.If)]


def returns_in(node):
    out = []
    for n in ast.walk(node):
        if isinstance(n, ast.Return) and isinstance(n.value, ast.Tuple) and len(n.value.elts) == 2:
            out.append(n.value.elts)
    return out


def find_prefix(fn):
    for i in walk_ifs(fn):
        a = mcall(i.test, "startswith")
        if a and cstr(a[0]) is not None:
            for s in ast.walk(i):
                if (isinstance(s, ast.Assign) and isinstance(s.value, ast.Subscript)
                        and isinstance(s.value.slice, ast.Slice) and cint(s.value.slice.lower) == len(cstr(a[0]))
                        and s.value.slice.upper is None):
                    return cstr(a[0])
    return None


def find_suffix(fn):
    for i in walk_ifs(fn):
        suf = mn = None
        for c in conj(i.test):
            a = mcall(c, "endswith")
            if a and cstr(a[0]) is not None:
                suf = cstr(a[0])
            k = len_cmp(c, ast.GtE)
            if k is not None:
                mn = k
            k = len_cmp(c, ast.Gt)
            if k is not None:
                mn = k + 1
        if suf is not None:
            for s in ast.walk(i):
                if (isinstance(s, ast.Assign) and isinstance(s.value, ast.Subscript)
                        and isinstance(s.value.slice, ast.Slice) and s.value.slice.lower is None
                        and cint(s.value.slice.upper) == -len(suf)):
                    return (suf, mn if mn is not None else 0)
    return None


def find_backbone(fn):
    """ifs of the shape `len(x) == N and x[1:] == "TAIL" and x[0].isdigit()` -> [(N, TAIL, keyprefix, category, enum)]"""
    found = []
    for i in walk_ifs(fn):
        n = tail = None
        digit = False
        for c in conj(i.test):
            k = len_cmp(c, ast.Eq)
            if k is not None:
                n = k
            if (isinstance(c, ast.Compare) and len(c.ops) == 1 and isinstance(c.ops[0], ast.Eq)
                    and isinstance(c.left, ast.Subscript) and isinstance(c.left.slice, ast.Slice)
                    and cint(c.left.slice.lower) == 1 and c.left.slice.upper is None and cstr(c.comparators[0]) is not None):
                tail = cstr(c.comparators[0])
            if mcall(c, "isdigit") is not None and index_of(c.func.value) == 0:
                digit = True
        if n is None or tail is None or not digit:
            continue
        keyprefix = None
        for s in ast.walk(i):
            if isinstance(s, ast.JoinedStr) and len(s.values) == 2 and cstr(s.values[0]) is not None \
                    and isinstance(s.values[1], ast.FormattedValue) and index_of(s.values[1].value) == 0:
                keyprefix = cstr(s.values[0])
        cat = enum = None
        for r in returns_in(i):
            if isinstance(r[1], ast.Subscript) and isinstance(r[1].value, ast.Name) and cstr(r[0]) is not None:
                cat, enum = cstr(r[0]), r[1].value.id
        if keyprefix is None or cat is None:
            continue
        found.append((n, tail, keyprefix, cat, enum))
    return found


def find_stack(fn):
    for i in walk_ifs(fn):
        n = head = None
        sets = {}
        for c in conj(i.test):
            k = len_cmp(c, ast.Eq)
            if k is not None:
                n = k
            a = mcall(c, "startswith")
            if a and cstr(a[0]) is not None:
                head = cstr(a[0])
            if isinstance(c, ast.Compare) and len(c.ops) == 1 and isinstance(c.ops[0], ast.In):
                ix = index_of(c.left)
                vals = str_tuple(c.comparators[0])
                if ix is not None and vals is not None:
                    sets[ix] = vals
        if n is None or head is None or 1 not in sets or 2 not in sets:
            continue
        table = []
        for j in walk_ifs(i):
            t = j.test
            if (isinstance(t, ast.Compare) and len(t.ops) == 1 and isinstance(t.ops[0], ast.Eq)
                    and cstr(t.comparators[0]) is not None):
                for r in returns_in(j):
                    if isinstance(r[1], ast.Attribute):
                        table.append((cstr(t.comparators[0]), r[1].attr))
        if not table:
            for d in ast.walk(i):        # the same map written as a dict literal
                if isinstance(d, ast.Dict) and d.keys and all(cstr(k) is not None for k in d.keys) \
                        and all(isinstance(v, ast.Attribute) for v in d.values):
                    table = [(cstr(k), v.attr) for k, v in zip(d.keys, d.values)]
        if table:
            return (n, head, sets[1], sets[2], table)
    return None


def find_lw(fn):
    for i in walk_ifs(fn):
        n = orient = None
        for c in conj(i.test):
            k = len_cmp(c, ast.Eq)
            if k is not None:
                n = k
            if (isinstance(c, ast.Compare) and len(c.ops) == 1 and isinstance(c.ops[0], ast.In)
                    and mcall(c.left, "lower") is not None and index_of(c.left.func.value) == 0):
                orient = str_tuple(c.comparators[0])
        if n is not None and orient is not None:
            return (n, orient)
    return None


def find_split(fn, nth=0):
    """the nth `.split("<one char>")` literal of the function, in source order"""
    hits = []
    if fn is None:
        return None
    for n in ast.walk(fn):
        a = mcall(n, "split")
        if a and cstr(a[0]) is not None and len(cstr(a[0])) == 1:
            hits.append((n.lineno, n.col_offset, cstr(a[0])))
    hits.sort()
    return hits[nth][2] if len(hits) > nth else None


def find_unit(fn):
    sep = find_split(fn)
    if sep is None:
        return None
    icode_idx = icode_min = None
    for n in ast.walk(fn):
        if isinstance(n, ast.IfExp):
            ix = index_of(n.body)
            mn = None
            for c in conj(n.test):
                k = len_cmp(c, ast.GtE)
                if k is not None:
                    mn = k
            if ix is not None and mn is not None:
                icode_idx, icode_min = ix, mn
    for n in ast.walk(fn):
        if isinstance(n, ast.Call) and getattr(n.func, "id", "") == "ResidueAuth" and len(n.args) == 4:
            chain = index_of(n.args[0])
            num = None
            if isinstance(n.args[1], ast.Call) and getattr(n.args[1].func, "id", "") == "int" and n.args[1].args:
                num = index_of(n.args[1].args[0])
            name = index_of(n.args[3])
            if None not in (chain, num, name, icode_idx, icode_min):
                return (sep, chain, num, name, icode_idx, icode_min)
    return None


def find_line(fn):
    sep = find_split(fn)
    if sep is None:
        return None
    minparts = None
    for i in walk_ifs(fn):
        k = len_cmp(i.test, ast.Lt)
        if k is not None:
            minparts = k
    var_idx = {}
    for n in ast.walk(fn):
        if isinstance(n, ast.Assign) and len(n.targets) == 1 and isinstance(n.targets[0], ast.Name):
            ix = index_of(n.value)
            if ix is not None:
                var_idx[n.targets[0].id] = ix
        if (isinstance(n, ast.Assign) and len(n.targets) == 1 and isinstance(n.targets[0], ast.Tuple)
                and isinstance(n.value, ast.Tuple) and len(n.value.elts) == len(n.targets[0].elts)):
            for t, v in zip(n.targets[0].elts, n.value.elts):
                if isinstance(t, ast.Name) and index_of(v) is not None:
                    var_idx[t.id] = index_of(v)
    units = []
    label = None
    for n in ast.walk(fn):
        if isinstance(n, ast.Call) and isinstance(n.func, ast.Name) and n.args:
            a = n.args[0]
            ix = index_of(a) if isinstance(a, ast.Subscript) else var_idx.get(getattr(a, "id", None))
            if n.func.id == "parse_unit_id" and ix is not None:
                units.append((n.lineno, n.col_offset, ix))
            if n.func.id == "unify_classification" and ix is not None:
                label = ix
    units.sort()
    contained = None
    for n in ast.walk(fn):
        if isinstance(n, ast.Try):
            names = []
            for h in n.handlers:
                if h.type is None:
                    names.append("BaseException")
                elif isinstance(h.type, ast.Tuple):
                    names += [getattr(e, "id", "?") for e in h.type.elts]
                else:
                    names.append(getattr(h.type, "id", "?"))
            contained = names
    if minparts is None or len(units) != 2 or label is None or contained is None:
        return None
    return (sep, minparts, units[0][2], label, units[1][2], contained)


def find_comment(fn):
    if fn is None:
        return None
    for i in walk_ifs(fn):
        for c in ast.walk(i.test):
            a = mcall(c, "startswith")
            if a and cstr(a[0]) is not None and any(isinstance(s, ast.Continue) for s in i.body):
                return cstr(a[0])
    return None


def lw_test_container(A, fn):
    """the strings for which the `lw in <container>` test of match_dssr_lw is true"""
    if fn is not None:
        for n in ast.walk(fn):
            if isinstance(n, ast.Compare) and len(n.ops) == 1 and isinstance(n.ops[0], ast.In):
                try:
                    val = eval(compile(ast.Expression(n.comparators[0]), "<gen>", "eval"), vars(A))
                    return sorted(x for x in val if isinstance(x, str))
                except Exception:
                    pass
    return None


def probe_routing(A, C):
    """which result list (BaseInteractions field) and class a label of each category lands in"""
    rows = []
    seen = set()
    for lab in ["cWW", "s33", "0BR", "0BPh", "zzz"]:
        try:
            cat = A.unify_classification(lab)[0]
        except Exception:
            continue
        if cat in seen:
            continue
        seen.add(cat)
        fd, path = tempfile.mkstemp(suffix=".txt")
        try:
            with os.fdopen(fd, "w") as f:
                f.write("X|1|A|G|1\t%s\tX|1|B|C|2\n" % lab)
            bi = A.parse_fr3d_output(path)
        finally:
            os.unlink(path)
        where = [(k, v) for k, v in vars(bi).items() if v]
        if len(where) == 1 and len(where[0][1]) == 1:
            rows.append((cat, where[0][0], type(where[0][1][0]).__name__))
        else:
            rows.append((cat, "", ""))
    return rows


def show_class(x):
    return "" if x is None else getattr(x, "name", str(x))


def emit(ctx):
    tree, _ = module_ast("adapter")
    import rnapolis.adapter as A
    import rnapolis.common as C
    import dataclasses

    def pinned(name, val):
        if val is None:
            ctx.lost(name)
            return PIN[name]
        return val

    fu = find_function(tree, "unify_classification")
    fu = fu if fu is not None else tree
    prefix = pinned("adapter.prefix", find_prefix(fu))
    suffix, sufmin = pinned("adapter.suffix", find_suffix(fu))
    bb = find_backbone(fu)
    br = next((b for b in bb if b[4] == "BR"), None)
    bph = next((b for b in bb if b[4] == "BPh"), None)
    br = pinned("adapter.br", br)
    bph = pinned("adapter.bph", bph)
    stack = pinned("adapter.stack", find_stack(fu))
    lw = pinned("adapter.lw", find_lw(fu))
    unit = pinned("adapter.unit", find_unit(find_function(tree, "parse_unit_id") or tree))
    fl = find_function(tree, "_process_interaction_line")
    line = pinned("adapter.line", find_line(fl) if fl is not None else None)
    comment = pinned("adapter.comment", find_comment(find_function(tree, "parse_fr3d_output")))
    name_sep = pinned("adapter.dssrNameSep", find_split(find_function(tree, "match_dssr_name_to_residue")))
    stack_sep = pinned("adapter.dssrStackSep", find_split(find_function(tree, "parse_dssr_output")))
    accepted = lw_test_container(A, find_function(tree, "match_dssr_lw"))
    if accepted is None:
        ctx.lost("adapter.dssrLwAccepted")
        cands = sorted(set(dir(C.LeontisWesthof)) | set(C.LeontisWesthof.__members__))
        accepted = []
        for s in cands:
            try:
                if A.match_dssr_lw(s) is not None:
                    accepted.append(s)
            except Exception:
                accepted.append(s)

    S = lean_str
    o = [HEADER, "namespace RnaVerif.Gen\n"]
    o.append("/-! ### `unify_classification` -/")
    o.append("def fr3dPrefix : String := %s" % S(prefix))
    o.append("def fr3dSuffix : String := %s" % S(suffix))
    o.append("def fr3dSuffixMinLen : Nat := %d\n" % sufmin)
    for nm, b, enum in (("br", br, C.BR), ("bph", bph, C.BPh)):
        o.append("def %sLen : Nat := %d" % (nm, b[0]))
        o.append("def %sTail : String := %s" % (nm, S(b[1])))
        o.append("def %sKeyPrefix : String := %s" % (nm, S(b[2])))
        o.append("def %sCategory : String := %s" % (nm, S(b[3])))
        o.append("/-- (member name, value) of the enum, live -/")
        o.append("def %sMembers : List (String × String) := %s\n" % (
            nm, lean_list(["(%s, %s)" % (S(m.name), S(m.value)) for m in enum], 5)))
    o.append("def stackLen : Nat := %d" % stack[0])
    o.append("def stackHead : String := %s" % S(stack[1]))
    o.append("def stackSecond : List String := %s" % lean_list([S(x) for x in stack[2]]))
    o.append("def stackThird : List String := %s" % lean_list([S(x) for x in stack[3]]))
    o.append("def stackMap : List (String × String) := %s" % lean_list(["(%s, %s)" % (S(a), S(b)) for a, b in stack[4]], 4))
    o.append("def stackingNames : List String := %s\n" % lean_list([S(m.name) for m in C.StackingTopology]))
    o.append("def lwLen : Nat := %d" % lw[0])
    o.append("def lwOrient : List String := %s\n" % lean_list([S(x) for x in lw[1]]))

    o.append("/-- live table: `unify_classification` on representative labels -> (category, member name or \"\") -/")
    rows = []
    for lab in PROBE_LABELS:
        try:
            cat, cl = A.unify_classification(lab)
            rows.append("(%s, %s, %s)" % (S(lab), S(str(cat)), S(show_class(cl))))
        except Exception as e:  # noqa: BLE001
            rows.append("(%s, %s, %s)" % (S(lab), S("raises"), S(type(e).__name__)))
    o.append("def unifyProbe : List (String × String × String) := %s\n" % lean_list(rows, 3))

    o.append("/-! ### `parse_unit_id`, `_process_interaction_line`, `parse_fr3d_output` -/")
    o.append("def unitSep : Char := %s" % lean_char(unit[0]))
    o.append("def unitChainIdx : Nat := %d" % unit[1])
    o.append("def unitNumberIdx : Nat := %d" % unit[2])
    o.append("def unitNameIdx : Nat := %d" % unit[3])
    o.append("def unitIcodeIdx : Nat := %d" % unit[4])
    o.append("def unitIcodeMinLen : Nat := %d\n" % unit[5])
    o.append("def lineSep : Char := %s" % lean_char(line[0]))
    o.append("def lineMinParts : Nat := %d" % line[1])
    o.append("def lineNt1Idx : Nat := %d" % line[2])
    o.append("def lineLabelIdx : Nat := %d" % line[3])
    o.append("def lineNt2Idx : Nat := %d" % line[4])
    o.append("/-- exception classes contained by the `try` of the line processor -/")
    o.append("def lineContained : List String := %s" % lean_list([S(x) for x in line[5]]))
    o.append("def commentPrefix : String := %s\n" % S(comment))
    o.append("/-- field order of `BaseInteractions`, live -/")
    o.append("def biFields : List String := %s" % lean_list([S(f.name) for f in dataclasses.fields(C.BaseInteractions)], 5))
    o.append("/-- live routing: category -> (BaseInteractions field, interaction class) -/")
    o.append("def fr3dRouting : List (String × String × String) := %s\n" % lean_list(
        ["(%s, %s, %s)" % (S(a), S(b), S(c)) for a, b, c in probe_routing(A, C)], 2))

    o.append("/-! ### DSSR -/")
    o.append("def dssrNameSep : Char := %s" % lean_char(name_sep))
    o.append("def dssrStackSep : Char := %s" % lean_char(stack_sep))
    o.append("/-- the strings for which the `LW` membership test of `match_dssr_lw` is true -/")
    o.append("def dssrLwAccepted : List String := %s\n" % lean_list([S(x) for x in accepted], 6))
    o.append("/-- CPython: sys.get_int_max_str_digits() of the interpreter that runs the code (0 = unlimited) -/")
    o.append("def pyIntMaxStrDigits : Nat := %d\n" % sys.get_int_max_str_digits())
    o.append("end RnaVerif.Gen\n")
    return {"Adapter.lean": "\n".join(o)}

"""Translator for src/rnapolis/annotator.py (+ the chemistry tables of tertiary.py it uses)
-> Generated/Annotator.lean

Live objects first (tables, module-level thresholds, the behaviour of
`detect_bph_br_classification` / `merge_and_clean_bph_br` probed on synthetic residues), `ast` for
literals that exist only inside function bodies (cis/trans bounds, minimum hydrogen-bond count, the
reference atoms of the torsion-dependent BPh classes, glycosidic / base-normal atom names).  Where a
value is available both ways the two are compared; a difference is a generator fault.
"""
import ast
import math
from fractions import Fraction

from genlib import HEADER, find_function, lean_list, lean_rat, lean_str, module_ast

# ---------------------------------------------------------------------------------------------
# rigorous rational enclosure of cos^2(theta degrees)

# 50 decimal digits of pi; PI_LO < pi < PI_HI
PI_LO = Fraction(31415926535897932384626433832795028841971693993751, 10 ** 49)
PI_HI = PI_LO + Fraction(1, 10 ** 49)


def _cos_enclosure(lo, hi, terms=40):
    """[cl, ch] containing cos(x) for every x in [lo, hi] (0 <= lo <= hi <= pi): cos is decreasing
    there; alternating Taylor sums with remainder bound |x|^(2n+2)/(2n+2)!"""
    def bounds(x):
        s = Fraction(0)
        term = Fraction(1)
        for k in range(terms):
            s += term if k % 2 == 0 else -term
            term = term * x * x / ((2 * k + 1) * (2 * k + 2))
        # |remainder| <= next term
        return s - term, s + term
    assert 0 <= lo <= hi <= 4
    return bounds(hi)[0], bounds(lo)[1]


def cos_sq_enclosure(deg, digits=30):
    """(lo, hi) rationals with denominators 10^digits, lo <= cos^2(deg degrees) <= hi"""
    d = Fraction(repr(float(deg)))
    if not (0 <= d <= 180):
        raise ValueError("angle threshold outside [0,180]: %r" % deg)
    lo_x, hi_x = d * PI_LO / 180, d * PI_HI / 180
    cl, ch = _cos_enclosure(lo_x, hi_x)
    cands = [cl * cl, ch * ch, cl * ch]
    sq_lo = Fraction(0) if cl <= 0 <= ch else min(cands)
    sq_hi = max(cands)
    scale = 10 ** digits
    lo = Fraction(math.floor(sq_lo * scale), scale)
    hi = Fraction(math.ceil(sq_hi * scale), scale)
    assert lo <= sq_lo and sq_hi <= hi and hi - lo <= Fraction(4, scale)
    # sanity against libm
    assert abs(float(lo) - math.cos(math.radians(float(deg))) ** 2) < 1e-12
    return lo, hi


def rat(fr):
    n, d = fr.numerator, fr.denominator
    if d == 1:
        return "(%d : Rat)" % n if n >= 0 else "(-%d : Rat)" % -n
    return "(%d / %d : Rat)" % (n, d) if n >= 0 else "(-%d / %d : Rat)" % (-n, d)


# ---------------------------------------------------------------------------------------------
# ast helpers

def _const_num(n):
    if isinstance(n, ast.Constant) and isinstance(n.value, (int, float)) and not isinstance(n.value, bool):
        return n.value
    if isinstance(n, ast.UnaryOp) and isinstance(n.op, ast.USub):
        v = _const_num(n.operand)
        return None if v is None else -v
    return None


def _open_interval_tests(fn):
    """all `a < name < b` comparison chains with numeric a, b inside fn -> list of (a, b)"""
    out = []
    for node in ast.walk(fn):
        if isinstance(node, ast.Compare) and len(node.ops) == 2 and all(isinstance(o, ast.Lt) for o in node.ops):
            a, b = _const_num(node.left), _const_num(node.comparators[1])
            if a is not None and b is not None and isinstance(node.comparators[0], ast.Name):
                out.append((a, b))
    return out


def _find_atom_names(node):
    out = []
    for n in ast.walk(node):
        if (isinstance(n, ast.Call) and isinstance(n.func, ast.Attribute) and n.func.attr == "find_atom"
                and n.args and isinstance(n.args[0], ast.Constant) and isinstance(n.args[0].value, str)):
            out.append((n.lineno, n.col_offset, n.args[0].value))
    return [x[2] for x in sorted(out)]


def _purine_split(fn):
    """`if <x>.one_letter_name in "AG": A else: B` -> (letters, find_atom names in A, in B) or None"""
    for node in ast.walk(fn):
        if isinstance(node, ast.If) and isinstance(node.test, ast.Compare) and len(node.test.ops) == 1 \
                and isinstance(node.test.ops[0], ast.In) and isinstance(node.test.comparators[0], ast.Constant) \
                and isinstance(node.test.comparators[0].value, str) \
                and isinstance(node.test.left, ast.Attribute) and node.test.left.attr == "one_letter_name":
            body = ast.Module(body=node.body, type_ignores=[])
            orelse = ast.Module(body=node.orelse, type_ignores=[])
            return node.test.comparators[0].value, _find_atom_names(body), _find_atom_names(orelse)
    return None


# ---------------------------------------------------------------------------------------------
# live probing of the BPh/BR classification

def _mk_residue(T, C, base, atoms):
    """atoms: dict name -> (x, y, z)"""
    lab = C.ResidueLabel("A", 1, base)
    auth = C.ResidueAuth("A", 1, None, base)
    ats = tuple(T.Atom(None, lab, auth, 1, n, float(p[0]), float(p[1]), float(p[2]), None) for n, p in atoms.items())
    return T.Residue3D(lab, auth, 1, base, ats)


def _probe_class(A, T, C, base, donor, refs, angle):
    """class returned for a donor with reference atoms r1, r2 placed so that torsion(r1, r2, donor, acceptor) = angle
    (degrees); refs None/() = no reference atoms present"""
    atoms = {}
    # r1 = (1,0,-1)... canonical frame: r2 = origin, donor = (0,0,1.4), r1 = (1.3,0,-0.5), acceptor rotated by angle
    if refs:
        r1, r2 = refs
        if r1 != donor:
            atoms[r1] = (1.3, 0.0, -0.5)
        if r2 != donor:
            atoms[r2] = (0.0, 0.0, 0.0)
    atoms[donor] = (0.0, 0.0, 1.4)
    res = _mk_residue(T, C, base, atoms)
    d = res.find_atom(donor)
    a = math.radians(angle)
    acc = T.Atom(None, None, None, 1, "OP1", 2.5 * math.cos(a), 2.5 * math.sin(a), 2.0, None)
    return A.detect_bph_br_classification(res, d, acc)


def bph_table(ctx, A, T, C, tree):
    """rows (base, donor, kind, r1, r2, class_cis, class_trans); kind 'fixed' or 'torsion'"""
    fn = find_function(tree, "detect_bph_br_classification")
    # ast: for every `donor.name == "X"` block under `one_letter_name == "B"`: reference atoms and returned constants
    shape = {}
    if fn is not None:
        for node in ast.walk(fn):
            if isinstance(node, ast.If) and isinstance(node.test, ast.Compare) and isinstance(node.test.left, ast.Attribute) \
                    and node.test.left.attr == "one_letter_name" and isinstance(node.test.comparators[0], ast.Constant):
                base = node.test.comparators[0].value
                for sub in node.body:
                    if isinstance(sub, ast.If) and isinstance(sub.test, ast.Compare) and isinstance(sub.test.left, ast.Attribute) \
                            and sub.test.left.attr == "name" and isinstance(sub.test.comparators[0], ast.Constant):
                        donor = sub.test.comparators[0].value
                        refs = _find_atom_names(sub)
                        iv = _open_interval_tests(sub)
                        shape[(base, donor)] = (tuple(refs[:2]) if len(refs) >= 2 else (), iv)
    bases = list(dict.fromkeys(list(T.BASE_DONORS) + list(T.BASE_ATOMS)))
    names = []
    for b in bases:
        for n in T.BASE_ATOMS.get(b, []) + T.BASE_DONORS.get(b, []) + T.BASE_ACCEPTORS.get(b, []):
            if n not in names:
                names.append(n)
    for (b, d) in shape:
        if d not in names:
            names.append(d)
    rows = []
    bounds = set()
    for b in bases:
        for d in names:
            refs, iv = shape.get((b, d), ((), []))
            none_missing = _probe_class(A, T, C, b, d, (), 0.0)
            if refs:
                cis = _probe_class(A, T, C, b, d, refs, 20.0)
                cis2 = _probe_class(A, T, C, b, d, refs, -70.0)
                trans = _probe_class(A, T, C, b, d, refs, 160.0)
                trans2 = _probe_class(A, T, C, b, d, refs, -110.0)
                if cis != cis2 or trans != trans2:
                    raise RuntimeError("BPh probe: class of (%s,%s) is not a function of the cis/trans half-plane" % (b, d))
                if cis is None and trans is None:
                    continue
                if cis == trans:
                    if none_missing != cis:
                        raise RuntimeError("BPh probe: (%s,%s) fixed class depends on reference atoms" % (b, d))
                    rows.append((b, d, "fixed", "", "", cis, cis))
                else:
                    if none_missing is not None:
                        raise RuntimeError("BPh probe: (%s,%s) classified without its reference atoms" % (b, d))
                    if cis is None or trans is None:
                        raise RuntimeError("BPh probe: (%s,%s) one half-plane unclassified" % (b, d))
                    rows.append((b, d, "torsion", refs[0], refs[1], cis, trans))
                    for x in iv:
                        bounds.add(x)
            else:
                if none_missing is None:
                    continue
                rows.append((b, d, "fixed", "", "", none_missing, none_missing))
    if fn is None:
        ctx.lost("annotator.bphShape")
    rows.sort(key=lambda r: (bases.index(r[0]), r[1]))
    return rows, sorted(bounds)


def probe_points_deduplicated(A, T, C):
    """live: run find_pairs on one synthetic residue per base with a recording stand-in for KDTree and see whether any
    coordinate triple is inserted twice; None when the probe cannot be carried out"""
    captured = []

    class Spy:
        def __init__(self, coords, *a, **kw):
            captured.append(list(coords))

        def query_pairs(self, r, *a, **kw):
            return set()

    if not hasattr(A, "KDTree"):
        return None
    old = A.KDTree
    A.KDTree = Spy
    try:
        for base in T.BASE_DONORS:
            names = list(dict.fromkeys(T.BASE_ACCEPTORS.get(base, []) + T.RIBOSE_ACCEPTORS + T.PHOSPHATE_ACCEPTORS
                                       + T.BASE_DONORS.get(base, [])))
            r = _mk_residue(T, C, base, {n: (1.5 * k, 0.25 * k * k, 0.5) for k, n in enumerate(names)})
            A.find_pairs(T.Structure3D([r]))
    except Exception:
        return None
    finally:
        A.KDTree = old
    if len(captured) != len(T.BASE_DONORS):
        return None
    return all(len(c) == len(set(c)) for c in captured)


def probe_points_keyed_by_coordinates(A, T, C):
    """live: does find_pairs look atoms / types / residues up through dictionaries keyed by the coordinate tuple (two
    points with identical coordinates collide, the later one wins for both) or by point index?  A donor C2 of an
    adenine and the OP1 atoms of two other residues placed on the SAME coordinates; a stand-in KDTree reports the index
    pair (C2, first OP1) only.  The base-phosphate contact is attributed to the second residue exactly when the maps
    are keyed by coordinates.  None when the probe cannot be carried out."""
    class Spy:
        def __init__(self, coords, *a, **kw):
            self.n = len(list(coords))

        def query_pairs(self, r, *a, **kw):
            return {(0, 1)} if self.n == 3 else set()

    if not hasattr(A, "KDTree"):
        return None

    def res(num, base, atoms):
        lab = C.ResidueLabel("A", num, base)
        auth = C.ResidueAuth("A", num, None, base)
        ats = tuple(T.Atom(None, lab, auth, 1, n, float(p[0]), float(p[1]), float(p[2]), None) for n, p in atoms.items())
        return T.Residue3D(lab, auth, 1, base, ats)
    old = A.KDTree
    A.KDTree = Spy
    try:
        ra = res(1, "A", {"C2": (0.0, 0.0, 0.0)})
        rx = res(2, "G", {"OP1": (3.0, 0.0, 0.0)})
        ry = res(3, "G", {"OP1": (3.0, 0.0, 0.0)})
        out = A.find_pairs(T.Structure3D([ra, rx, ry]))
        bph = list(out[1])
    except Exception:
        return None
    finally:
        A.KDTree = old
    if len(bph) != 1 or bph[0].nt2.auth is None:
        return None
    if bph[0].nt2.auth.number == 3:
        return True
    if bph[0].nt2.auth.number == 2:
        return False
    return None


def merge_rules(ctx, A, T, C, classes):
    """live: for every unordered pair of classes {a,b}: merged class c when the two on one residue pair become a third"""
    r1 = _mk_residue(T, C, "A", {"N1": (0, 0, 0)})
    lab = C.ResidueLabel("A", 2, "G")
    r2 = T.Residue3D(lab, C.ResidueAuth("A", 2, None, "G"), 1, "G", ())
    rules = []
    for a in classes:
        for b in classes:
            if a < b:
                m1 = list(A.merge_and_clean_bph_br([(r1, r2, a), (r1, r2, b)])[(r1, r2)])
                m2 = list(A.merge_and_clean_bph_br([(r1, r2, b), (r1, r2, a)])[(r1, r2)])
                if len(m1) != 1 or len(m2) != 1:
                    raise RuntimeError("merge probe: more than one class kept for (%d,%d)" % (a, b))
                if m1[0] not in (a, b):
                    if m1 != m2:
                        raise RuntimeError("merge probe: merged class order dependent for (%d,%d)" % (a, b))
                    rules.append((a, b, m1[0]))
                else:
                    if m1[0] != a or m2[0] != b:
                        raise RuntimeError("merge probe: first class not kept for (%d,%d)" % (a, b))
    return rules


def merge_rules_ast(tree):
    fn = find_function(tree, "merge_and_clean_bph_br")
    out = []
    if fn is None:
        return None
    for node in ast.walk(fn):
        if isinstance(node, ast.If) and isinstance(node.test, ast.BoolOp) and isinstance(node.test.op, ast.And):
            ins = []
            for v in node.test.values:
                if isinstance(v, ast.Compare) and len(v.ops) == 1 and isinstance(v.ops[0], ast.In) and _const_num(v.left) is not None:
                    ins.append(_const_num(v.left))
            adds = [_const_num(c.args[0]) for c in ast.walk(node) if isinstance(c, ast.Call)
                    and isinstance(c.func, ast.Attribute) and c.func.attr == "add" and c.args]
            if len(ins) == 2 and len(adds) == 1 and adds[0] is not None:
                out.append((min(ins), max(ins), adds[0]))
    return out


PINNED_BPH = [("A", "C2", "fixed", "", "", 2, 2), ("A", "C8", "fixed", "", "", 0, 0), ("A", "N6", "torsion", "N1", "C6", 6, 7),
              ("G", "C8", "fixed", "", "", 0, 0), ("G", "N1", "fixed", "", "", 5, 5), ("G", "N2", "torsion", "N3", "C2", 1, 3),
              ("C", "C5", "fixed", "", "", 9, 9), ("C", "C6", "fixed", "", "", 0, 0), ("C", "N4", "torsion", "N3", "C4", 6, 7),
              ("U", "C5", "fixed", "", "", 9, 9), ("U", "C6", "fixed", "", "", 0, 0), ("U", "N3", "fixed", "", "", 5, 5),
              ("T", "C6", "fixed", "", "", 0, 0), ("T", "C7", "fixed", "", "", 9, 9), ("T", "N3", "fixed", "", "", 5, 5)]


def emit(ctx):
    import rnapolis.annotator as A
    import rnapolis.common as C
    import rnapolis.tertiary as T
    tree, _ = module_ast("annotator")
    ttree, _ = module_ast("tertiary")
    out = [HEADER, "/-! tables and thresholds of annotator.py / tertiary.py used by the pair model; own namespace `Gen.Ann` so that\nnames cannot collide with other generated files -/\nnamespace RnaVerif.Gen.Ann\n"]

    def str_list(l):
        return lean_list([lean_str(s) for s in l], 12)

    def table(name, d, doc):
        out.append("/-- %s -/\ndef %s : List (String × List String) :=\n  %s\n" % (
            doc, name, lean_list(["(%s, %s)" % (lean_str(k), str_list(v)) for k, v in d.items()], 1)))

    # --- chemistry tables (live)
    table("baseAtoms", T.BASE_ATOMS, "tertiary.BASE_ATOMS")
    table("baseDonors", T.BASE_DONORS, "tertiary.BASE_DONORS")
    table("baseAcceptors", T.BASE_ACCEPTORS, "tertiary.BASE_ACCEPTORS")
    out.append("/-- tertiary.PHOSPHATE_ACCEPTORS -/\ndef phosphateAcceptors : List String := %s\n" % str_list(T.PHOSPHATE_ACCEPTORS))
    out.append("/-- tertiary.RIBOSE_ACCEPTORS -/\ndef riboseAcceptors : List String := %s\n" % str_list(T.RIBOSE_ACCEPTORS))
    out.append("/-- tertiary.BASE_EDGES: base -> atom -> edge letters -/\ndef baseEdges : List (String × List (String × String)) :=\n  %s\n" % lean_list(
        ["(%s, %s)" % (lean_str(b), lean_list(["(%s, %s)" % (lean_str(a), lean_str(e)) for a, e in m.items()], 8))
         for b, m in T.BASE_EDGES.items()], 1))

    # --- thresholds of find_pairs (live module constants; check that find_pairs uses them)
    dist = A.HYDROGEN_BOND_MAX_DISTANCE
    lo, hi = A.HYDROGEN_BOND_ANGLE_RANGE
    fp = find_function(tree, "find_pairs")
    used_dist = used_rng = False
    min_count = None
    dedup = None
    if fp is not None:
        for node in ast.walk(fp):
            if isinstance(node, ast.Call) and isinstance(node.func, ast.Attribute) and node.func.attr == "query_pairs" and node.args:
                a0 = node.args[0]
                if isinstance(a0, ast.Name) and a0.id == "HYDROGEN_BOND_MAX_DISTANCE":
                    used_dist = True
                elif _const_num(a0) is not None:
                    dist = _const_num(a0)
                    used_dist = True
            if isinstance(node, ast.Name) and node.id == "HYDROGEN_BOND_ANGLE_RANGE":
                used_rng = True
            # `count < K: continue`
            if isinstance(node, ast.If) and isinstance(node.test, ast.Compare) and len(node.test.ops) == 1 \
                    and isinstance(node.test.ops[0], ast.Lt) and isinstance(node.test.left, ast.Name) \
                    and isinstance(_const_num(node.test.comparators[0]), int) \
                    and len(node.body) == 1 and isinstance(node.body[0], ast.Continue):
                min_count = _const_num(node.test.comparators[0])
            # how the atom names of one residue are iterated: `acceptors + donors` (duplicates kept) or de-duplicated
            if isinstance(node, ast.For) and isinstance(node.target, ast.Name) and node.target.id == "atom_name":
                it = node.iter
                if isinstance(it, ast.BinOp) and isinstance(it.op, ast.Add):
                    dedup = False
                elif isinstance(it, ast.Call):
                    f = ast.unparse(it.func)
                    if f in ("dict.fromkeys", "set", "OrderedSet", "sorted", "list"):
                        inner = ast.unparse(it)
                        dedup = ("fromkeys" in inner) or ("set(" in inner) or ("OrderedSet" in inner)
    if not used_dist:
        ctx.lost("annotator.hbondMaxDistance")
    if not used_rng:
        ctx.lost("annotator.hbondAngleRange")
    if min_count is None:
        ctx.lost("annotator.minHbondCount")
        min_count = ctx.pin("annotator.minHbondCount", 2)
    live_dedup = probe_points_deduplicated(A, T, C)
    if live_dedup is not None:
        if dedup is not None and dedup != live_dedup:
            ctx.notes.append("find_pairs point list: live probe says deduplicated=%r, source shape says %r (live value used)" % (live_dedup, dedup))
        dedup = live_dedup
    if dedup is None:
        ctx.lost("annotator.pointsDeduplicated")
        dedup = ctx.pin("annotator.pointsDeduplicated", True)
    out.append("/-- HYDROGEN_BOND_MAX_DISTANCE (the radius handed to KDTree.query_pairs) -/\ndef hbondMaxDistance : Rat := %s\n" % lean_rat(dist))
    out.append("/-- HYDROGEN_BOND_ANGLE_RANGE, degrees, both ends exclusive -/\ndef hbondAngleLo : Rat := %s\ndef hbondAngleHi : Rat := %s\n" % (lean_rat(lo), lean_rat(hi)))
    lo_enc = cos_sq_enclosure(lo)
    hi_enc = cos_sq_enclosure(hi)
    # (a window that does not straddle 90 degrees is outside what the model's squared-cosine test covers; the bridge
    #  theorem `angle_window_symmetric` then fails to check)
    out.append("/-- rational enclosure (width <= 4e-30) of cos^2(hbondAngleLo degrees), computed by the translator from\n"
               "alternating Taylor sums and a 50-digit enclosure of pi -/\n"
               "def cosSqLoEnc : Rat × Rat := (%s, %s)\n" % (rat(lo_enc[0]), rat(lo_enc[1])))
    out.append("/-- the same for cos^2(hbondAngleHi degrees) -/\ndef cosSqHiEnc : Rat × Rat := (%s, %s)\n" % (rat(hi_enc[0]), rat(hi_enc[1])))
    out.append("/-- `if hydrogen_bond_count < K: continue` -/\ndef minHbondCount : Nat := %d\n" % min_count)
    keyed = probe_points_keyed_by_coordinates(A, T, C)
    if keyed is None:
        ctx.lost("annotator.pointsKeyedByCoordinates")
        keyed = ctx.pin("annotator.pointsKeyedByCoordinates", True)
    out.append("/-- find_pairs looks up atom / type / residue of a KD-tree point through dictionaries keyed by the coordinate\n"
               "tuple (two points with identical coordinates collide; the later one wins for both indices); false = keyed by\n"
               "point index (live probe with two atoms on the same coordinates) -/\n"
               "def pointsKeyedByCoordinates : Bool := %s\n" % ("true" if keyed else "false"))
    out.append("/-- find_pairs iterates the atom names of a residue without repetition (`dict.fromkeys(acceptors + donors)`);\n"
               "false = `acceptors + donors` with a name listed in both inserted twice -/\ndef pointsDeduplicated : Bool := %s\n" % ("true" if dedup else "false"))

    # --- cis/trans bounds (ast) and glycosidic atoms
    ct = find_function(tree, "detect_cis_trans")
    iv = _open_interval_tests(ct) if ct is not None else []
    if len(iv) != 1:
        ctx.lost("annotator.cisBounds")
        iv = [tuple(ctx.pin("annotator.cisBounds", [-90.0, 90.0]))]
    out.append("/-- `\"c\" if LO < torsion < HI else \"t\"` (degrees) in detect_cis_trans -/\ndef cisLo : Rat := %s\ndef cisHi : Rat := %s\n" % (
        lean_rat(iv[0][0]), lean_rat(iv[0][1])))
    sp = _purine_split(ct) if ct is not None else None
    sugar = [n for n in (_find_atom_names(ct) if ct is not None else []) if n.endswith("'")]
    if sp is None or len(sp[1]) < 1 or len(sp[2]) < 1 or not sugar:
        ctx.lost("annotator.glycosidicAtoms")
        sp = ("AG", ["N9"], ["N1"])
        sugar = ["C1'"]
    out.append("/-- detect_cis_trans: letters tested with `one_letter_name in …`, the base atom for them, the base atom otherwise, the sugar atom -/\n"
               "def purineLetters : String := %s\ndef glycoPurine : String := %s\ndef glycoOther : String := %s\ndef glycoSugar : String := %s\n" % (
                   lean_str(sp[0]), lean_str(sp[1][0]), lean_str(sp[2][0]), lean_str(sugar[0])))

    # --- base normal atoms (tertiary.Residue3D.base_normal_vector): origin, first arm, second arm
    bn = find_function(ttree, "Residue3D.base_normal_vector")
    sp2 = _purine_split(bn) if bn is not None else None
    if sp2 is None or len(sp2[1]) != 3 or len(sp2[2]) != 3:
        ctx.lost("tertiary.normalAtoms")
        sp2 = ("AG", ["N9", "N7", "N3"], ["N1", "C4", "O2"])
    else:
        # live check: normal of a synthetic purine/pyrimidine equals cross(arm1 - origin, arm2 - origin)
        import numpy
        for base, names in (("A", sp2[1]), ("C", sp2[2])):
            pos = {names[0]: (0.1, 0.2, 0.3), names[1]: (1.0, 0.0, 0.5), names[2]: (0.0, 2.0, 0.7)}
            r = _mk_residue(T, C, base, pos)
            o, a1, a2 = (numpy.array(pos[n]) for n in names)
            n = numpy.cross(a1 - o, a2 - o)
            n = n / numpy.linalg.norm(n)
            if r.base_normal_vector is None or numpy.linalg.norm(r.base_normal_vector - n) > 1e-9:
                # the source shape no longer says how the normal is computed: keep the names, flag the anchor
                ctx.lost("tertiary.normalAtoms")
    out.append("/-- base_normal_vector: letters tested with `in`, then (origin, arm1, arm2) with normal = (arm1-origin)×(arm2-origin) -/\n"
               "def normalPurineLetters : String := %s\ndef normalPurine : List String := %s\ndef normalOther : List String := %s\n" % (
                   lean_str(sp2[0]), str_list(sp2[1]), str_list(sp2[2])))

    # --- BPh/BR classification table (live probing, shape by ast)
    # behaviour that does not fit the table shape (a probe "mismatch") is never a generator fault: the anchor is
    # flagged as lost, the pinned table is used, and the correspondence check carries that aspect alone
    try:
        rows, bounds = bph_table(ctx, A, T, C, tree)
    except Exception as e:  # noqa: BLE001
        ctx.lost("annotator.bphTable")
        ctx.notes.append("BPh probe: %s" % e)
        rows, bounds = [tuple(r) for r in ctx.pin("annotator.bphTable", PINNED_BPH)], [(-90.0, 90.0)]
    if len(bounds) != 1:
        if any(r[2] == "torsion" for r in rows):
            ctx.lost("annotator.bphBounds")
        bounds = [tuple(ctx.pin("annotator.bphBounds", [-90.0, 90.0]))]
    out.append("/-- detect_bph_br_classification: (base, donor atom, reference atom 1, reference atom 2, class when the torsion\n"
               "(ref1, ref2, donor, acceptor) lies in (bphLo, bphHi), class otherwise); empty reference names = class does not\n"
               "depend on geometry.  A torsion-dependent entry without its reference atoms gives no class. -/\n"
               "def bphTable : List (String × String × String × String × Nat × Nat) :=\n  %s\n" % lean_list(
                   ["(%s, %s, %s, %s, %d, %d)" % (lean_str(b), lean_str(d), lean_str(r1), lean_str(r2), c1, c2)
                    for (b, d, k, r1, r2, c1, c2) in rows], 2))
    out.append("def bphLo : Rat := %s\ndef bphHi : Rat := %s\n" % (lean_rat(bounds[0][0]), lean_rat(bounds[0][1])))

    # --- merge rules (live, compared with ast)
    classes = sorted({int(m.name[1:]) for m in C.BPh} | {int(m.name[1:]) for m in C.BR})
    via_ast = merge_rules_ast(tree)
    try:
        live = merge_rules(ctx, A, T, C, classes)
    except Exception as e:  # noqa: BLE001
        ctx.lost("annotator.mergeRules")
        ctx.notes.append("merge probe: %s" % e)
        live = via_ast if via_ast else [tuple(r) for r in ctx.pin("annotator.mergeRules", [(3, 5, 4), (7, 9, 8)])]
    if via_ast is not None and sorted(via_ast) != sorted(live):
        ctx.notes.append("merge rules: live %r != source shape %r (live value used)" % (live, via_ast))
    elif via_ast is not None:
        live = [r for r in via_ast]  # keep source order (rules are applied in that order)
    out.append("/-- merge_and_clean_bph_br: (a, b, c) = classes a and b on one residue pair are replaced by c; applied in this order;\n"
               "afterwards only the first remaining class is kept -/\n"
               "def mergeRules : List (Nat × Nat × Nat) := %s\n" % lean_list(["(%d, %d, %d)" % r for r in live], 6))
    out.append("/-- class numbers that have a BPh and a BR enum member (`BPh[f\"_{k}\"]`) -/\ndef bphClassNumbers : List Nat := %s\n" % lean_list(
        [str(k) for k in classes if hasattr(C.BPh, "_%d" % k) and hasattr(C.BR, "_%d" % k)], 12))
    out.append("end RnaVerif.Gen.Ann\n")
    return {"Annotator.lean": "\n".join(out)}

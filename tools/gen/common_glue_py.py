"""Translator for the text glue of rnapolis.common (C01): BPSEQ text format, dot-bracket file logic,
the regular expression of MultiStrandDotBracket.from_string.  Emits Generated/CommonGlue.lean.

Pinned fall-backs live in this file (PIN) — used only when an anchor cannot be located (reported
through ctx.lost, so ./check prints it)."""
import ast

from genlib import HEADER, find_function, lean_char, lean_list, lean_str, module_ast

PIN = {
    "glue.bpseqFields": 3,
    "glue.bpseqFmtPieces": ["", " ", " ", ""],
    "glue.bpseqJoin": "\n",
    "glue.dbStrSep": "\n",
    "glue.dbFileCases": [(2, 0, 1), (3, 1, 2)],
    "glue.multiRegex": r"((>.*?\n)?([ACGTURYSWKMBDHVNacgturyswkmbdhvn.-]+)\n([.()\[\]{}<>A-Za-z]+))",
}


def _const(node):
    return node.value if isinstance(node, ast.Constant) else None


def _bpseq_fields(tree):
    fn = find_function(tree, "BpSeq.from_string")
    if fn is None:
        return None
    for node in ast.walk(fn):
        if isinstance(node, ast.Compare) and len(node.ops) == 1 and isinstance(node.ops[0], ast.NotEq):
            l, r = node.left, node.comparators[0]
            if (isinstance(l, ast.Call) and getattr(l.func, "id", None) == "len" and l.args
                    and getattr(l.args[0], "id", None) == "fields" and isinstance(_const(r), int)):
                return _const(r)
    return None


def _bpseq_str(tree):
    """(join separator, format pieces) of BpSeq.__str__ : SEP.join(FMT.format(i, c, j) for ...)"""
    fn = find_function(tree, "BpSeq.__str__")
    if fn is None:
        return None
    for node in ast.walk(fn):
        if (isinstance(node, ast.Call) and isinstance(node.func, ast.Attribute) and node.func.attr == "join"
                and isinstance(_const(node.func.value), str) and node.args):
            sep = _const(node.func.value)
            for sub in ast.walk(node.args[0]):
                if (isinstance(sub, ast.Call) and isinstance(sub.func, ast.Attribute) and sub.func.attr == "format"
                        and isinstance(_const(sub.func.value), str)):
                    names = [getattr(a, "id", None) for a in sub.args]
                    gen = node.args[0]
                    tgt = None
                    if isinstance(gen, (ast.GeneratorExp, ast.ListComp)) and isinstance(gen.generators[0].target, ast.Tuple):
                        tgt = [getattr(e, "id", None) for e in gen.generators[0].target.elts]
                    if tgt is None or names != tgt or len(names) != 3:
                        return None
                    fmt = _const(sub.func.value)
                    pieces = fmt.split("{}")
                    if len(pieces) != 4 or "{" in "".join(pieces) or "}" in "".join(pieces):
                        return None
                    return sep, pieces
    return None


def _db_str_sep(tree):
    fn = find_function(tree, "DotBracket.__str__")
    if fn is None:
        return None
    for node in ast.walk(fn):
        if isinstance(node, ast.JoinedStr):
            v = node.values
            if (len(v) == 3 and isinstance(v[0], ast.FormattedValue) and isinstance(v[2], ast.FormattedValue)
                    and isinstance(_const(v[1]), str)
                    and ast.unparse(v[0].value) == "self.sequence" and ast.unparse(v[2].value) == "self.structure"):
                return _const(v[1])
    return None


def _db_file_cases(tree):
    """[(number of lines, index of sequence line, index of structure line)] in source order"""
    fn = find_function(tree, "DotBracket.from_file")
    if fn is None:
        return None
    out = []
    for node in fn.body:
        if not isinstance(node, ast.If):
            continue
        t = node.test
        if not (isinstance(t, ast.Compare) and len(t.ops) == 1 and isinstance(t.ops[0], ast.Eq)
                and ast.unparse(t.left) == "len(lines)" and isinstance(_const(t.comparators[0]), int)):
            return None
        if len(node.body) != 1 or not isinstance(node.body[0], ast.Return) or node.orelse:
            return None
        c = node.body[0].value
        if not (isinstance(c, ast.Call) and ast.unparse(c.func) == "DotBracket.from_string" and len(c.args) == 2):
            return None
        idx = []
        for a in c.args:
            # lines[k].rstrip()
            if not (isinstance(a, ast.Call) and isinstance(a.func, ast.Attribute) and a.func.attr == "rstrip"
                    and not a.args and isinstance(a.func.value, ast.Subscript)
                    and ast.unparse(a.func.value.value) == "lines" and isinstance(_const(a.func.value.slice), int)
                    and _const(a.func.value.slice) >= 0):
                return None
            idx.append(_const(a.func.value.slice))
        out.append((_const(t.comparators[0]), idx[0], idx[1]))
    # everything else must end in `raise`
    if not out or not isinstance(fn.body[-1], ast.Raise):
        return None
    return out


def _multi_regex(tree):
    fn = find_function(tree, "MultiStrandDotBracket.from_string")
    if fn is None:
        return None
    for node in ast.walk(fn):
        if (isinstance(node, ast.Call) and ast.unparse(node.func) == "re.finditer" and node.args
                and isinstance(_const(node.args[0]), str) and len(node.args) == 2 and not node.keywords):
            return _const(node.args[0])
    return None


def _regex_shape(pattern):
    """(shape_ok, seq class, structure class): the pattern must be
    ( (> .*? \\n)? ([SEQ]+) \\n ([STR]+) ) with groups 3 and 4 the classes, no flags."""
    try:
        import re._parser as sp
        import re._constants as sc
    except ImportError:  # Python < 3.11
        import sre_parse as sp
        import sre_constants as sc

    def cls(items):
        chars = []
        for op, av in items:
            if op is sc.LITERAL:
                chars.append(chr(av))
            elif op is sc.RANGE:
                chars.extend(chr(x) for x in range(av[0], av[1] + 1))
            else:
                return None
        return chars

    try:
        p = sp.parse(pattern)
        if p.state.flags & ~sc.SRE_FLAG_UNICODE:
            return False, [], []
        (op, (g1, _, _, body)), = list(p)
        assert op is sc.SUBPATTERN and g1 == 1
        opt, seqg, nl, strg = list(body)
        assert opt[0] is sc.MAX_REPEAT and opt[1][0] == 0 and opt[1][1] == 1
        (hop, (g2, _, _, hbody)), = list(opt[1][2])
        assert hop is sc.SUBPATTERN and g2 == 2
        h0, h1, h2 = list(hbody)
        assert h0 == (sc.LITERAL, ord(">")) and h2 == (sc.LITERAL, 10)
        assert h1[0] is sc.MIN_REPEAT and h1[1][0] == 0 and h1[1][1] == sc.MAXREPEAT and list(h1[1][2]) == [(sc.ANY, None)]
        assert nl == (sc.LITERAL, 10)
        res = []
        for grp, num in ((seqg, 3), (strg, 4)):
            assert grp[0] is sc.SUBPATTERN and grp[1][0] == num
            (rop, (lo, hi, rb)), = list(grp[1][3])
            assert rop is sc.MAX_REPEAT and lo == 1 and hi == sc.MAXREPEAT
            (iop, items), = list(rb)
            assert iop is sc.IN
            c = cls(items)
            assert c is not None
            res.append(c)
        return True, res[0], res[1]
    except Exception:
        return False, [], []


def emit(ctx):
    tree, _src = module_ast("common")

    def get(name, val):
        if val is None:
            ctx.lost(name)
            return PIN[name]
        return val

    fields = get("glue.bpseqFields", _bpseq_fields(tree))
    bs = _bpseq_str(tree)
    if bs is None:
        ctx.lost("glue.bpseqFmtPieces")
        join, pieces = PIN["glue.bpseqJoin"], PIN["glue.bpseqFmtPieces"]
    else:
        join, pieces = bs
    dbsep = get("glue.dbStrSep", _db_str_sep(tree))
    cases = get("glue.dbFileCases", _db_file_cases(tree))
    regex = get("glue.multiRegex", _multi_regex(tree))
    ok, seqc, strc = _regex_shape(regex)

    out = [HEADER, "namespace RnaVerif.Gen\n"]
    out.append("/-- `BpSeq.from_string`: a line is kept iff `len(fields)` equals this -/\n"
               "def bpseqFields : Nat := %d\n" % fields)
    out.append("/-- `BpSeq.__str__`: the format string of one entry split at its three `{}` -/\n"
               "def bpseqFmtPieces : List String := %s\n" % lean_list([lean_str(p) for p in pieces]))
    out.append("/-- `BpSeq.__str__`: what the entries are joined with -/\ndef bpseqJoin : String := %s\n" % lean_str(join))
    out.append("/-- `DotBracket.__str__`: text between sequence and structure -/\ndef dbStrSep : String := %s\n" % lean_str(dbsep))
    out.append("/-- `DotBracket.from_file`: (number of lines, index of the sequence line, index of the structure line); "
               "any other number of lines raises -/\n"
               "def dbFileCases : List (Nat × Nat × Nat) := %s\n"
               % lean_list(["(%d, %d, %d)" % c for c in cases]))
    out.append("/-- the pattern given to `re.finditer` in `MultiStrandDotBracket.from_string` -/\n"
               "def multiRegex : String := %s\n" % lean_str(regex))
    out.append("/-- does the pattern have the shape `((>.*?\\n)?([SEQ]+)\\n([STR]+))` (groups 3, 4; no flags)? -/\n"
               "def multiShapeOk : Bool := %s\n" % ("true" if ok else "false"))
    out.append("/-- character class of group 3 (sequence line) -/\n"
               "def multiSeqClass : List Char := %s\n" % lean_list([lean_char(c) for c in seqc], 10))
    out.append("/-- character class of group 4 (structure line) -/\n"
               "def multiStrClass : List Char := %s\n" % lean_list([lean_char(c) for c in strc], 10))
    out.append("end RnaVerif.Gen\n")
    return {"CommonGlue.lean": "\n".join(out)}

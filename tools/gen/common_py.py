"""Translator for src/rnapolis/common.py -> Generated/Common.lean"""
import ast
import re
import string

from genlib import (HEADER, find_function, lean_char, lean_list, lean_str,
                    module_ast)


class ExprT:
    """Python boolean/arith expression over given names -> Lean Bool / Int text."""

    def __init__(self, names, ty="Nat"):
        self.names = names  # python name -> lean name

    def bexpr(self, n):
        if isinstance(n, ast.BoolOp):
            op = " && " if isinstance(n.op, ast.And) else " || "
            return "(" + op.join(self.bexpr(v) for v in n.values) + ")"
        if isinstance(n, ast.UnaryOp) and isinstance(n.op, ast.Not):
            return "(!" + self.bexpr(n.operand) + ")"
        if isinstance(n, ast.Compare):
            parts = []
            left = n.left
            for op, right in zip(n.ops, n.comparators):
                sym = {ast.Lt: "<", ast.LtE: "≤", ast.Gt: ">", ast.GtE: "≥", ast.Eq: "=", ast.NotEq: "≠"}.get(type(op))
                if sym is None:
                    raise ValueError("cmp op")
                parts.append("decide (%s %s %s)" % (self.aexpr(left), sym, self.aexpr(right)))
                left = right
            return "(" + " && ".join(parts) + ")"
        if isinstance(n, ast.Constant) and isinstance(n.value, bool):
            return "true" if n.value else "false"
        raise ValueError("bexpr " + ast.dump(n))

    def aexpr(self, n):
        if isinstance(n, ast.Name):
            if n.id not in self.names:
                raise ValueError("name " + n.id)
            return self.names[n.id]
        if isinstance(n, ast.Constant) and isinstance(n.value, int) and not isinstance(n.value, bool):
            return "(%d)" % n.value if n.value >= 0 else "(-%d)" % -n.value
        if isinstance(n, ast.UnaryOp) and isinstance(n.op, ast.USub):
            return "(-" + self.aexpr(n.operand) + ")"
        if isinstance(n, ast.BinOp):
            sym = {ast.Add: "+", ast.Sub: "-", ast.Mult: "*"}.get(type(n.op))
            if sym is None:
                raise ValueError("binop")
            return "(%s %s %s)" % (self.aexpr(n.left), sym, self.aexpr(n.right))
        raise ValueError("aexpr " + ast.dump(n))


def _conflict_in(fn):
    """Find `(a<b<c<d) or (...)`-shaped test over four names bound by two 3-tuple unpackings."""
    unpack = []  # in source order: (name1, name2)
    for node in ast.walk(fn):
        if isinstance(node, ast.Assign) and len(node.targets) == 1 and isinstance(node.targets[0], ast.Tuple):
            elts = node.targets[0].elts
            if len(elts) == 3 and all(isinstance(e, ast.Name) for e in elts):
                unpack.append((node.lineno, elts[0].id, elts[1].id))
    unpack.sort()
    best = None
    for node in ast.walk(fn):
        if isinstance(node, ast.BoolOp):
            names = {n.id for n in ast.walk(node) if isinstance(n, ast.Name)}
            if len(names) == 4 and all(isinstance(v, (ast.Compare, ast.BoolOp)) for v in node.values):
                # choose the two unpackings that bind exactly these names
                binds = [u for u in unpack if u[1] in names and u[2] in names]
                if len(binds) >= 2:
                    a, b = binds[0], binds[1]
                    if {a[1], a[2], b[1], b[2]} == names:
                        if best is None or node.lineno < best[0].lineno:
                            best = (node, {a[1]: "k", a[2]: "l", b[1]: "m", b[2]: "n"})
    return best


def emit(ctx):
    tree, src = module_ast("common")
    import rnapolis.common as C
    out = [HEADER, "namespace RnaVerif.Gen\n"]

    # --- encoder bracket list
    enc = None
    fn = find_function(tree, "BpSeq.__make_dot_bracket")
    cands = [fn] if fn is not None else []
    cls = find_function(tree, "BpSeq")
    if cls is not None:
        cands += [n for n in cls.body if isinstance(n, ast.FunctionDef)]
    for f in cands:
        for node in ast.walk(f):
            if isinstance(node, ast.Assign):
                try:
                    val = eval(compile(ast.Expression(node.value), "<gen>", "eval"), {"string": string})
                except Exception:
                    continue
                if isinstance(val, list) and len(val) >= 4 and all(isinstance(s, str) and len(s) == 2 for s in val):
                    enc = val
                    break
        if enc is not None:
            break
    if enc is None:
        ctx.lost("common.encBrackets")
        enc = ctx.pin("common.encBrackets")
    out.append("def encBrackets : List (Char × Char) :=\n  " +
               lean_list(["(%s, %s)" % (lean_char(s[0]), lean_char(s[1])) for s in enc], 6) + "\n")

    # --- decoder opening/closing
    opening = closing = None
    fn = find_function(tree, "DotBracket.__post_init__")
    strs = {}
    if fn is not None:
        for node in ast.walk(fn):
            if isinstance(node, ast.Assign) and len(node.targets) == 1 and isinstance(node.targets[0], ast.Name):
                try:
                    val = eval(compile(ast.Expression(node.value), "<gen>", "eval"), {"string": string})
                except Exception:
                    continue
                if isinstance(val, str) and len(val) >= 4:
                    strs[node.targets[0].id] = (node.lineno, val)
    if "opening" in strs and "closing" in strs:
        opening, closing = strs["opening"][1], strs["closing"][1]
    elif len(strs) == 2:
        (a, b) = sorted(strs.values())
        opening, closing = a[1], b[1]
    else:
        ctx.lost("common.decOpening")
        opening, closing = ctx.pin("common.decOpening"), ctx.pin("common.decClosing")
    out.append("def decOpening : List Char := " + lean_list([lean_char(c) for c in opening], 10) + "\n")
    out.append("def decClosing : List Char := " + lean_list([lean_char(c) for c in closing], 10) + "\n")

    # --- fcfs available length
    avail = None
    fn = find_function(tree, "BpSeq.fcfs")
    if fn is not None:
        for node in ast.walk(fn):
            if isinstance(node, ast.ListComp) and isinstance(node.elt, ast.Constant) and node.elt.value is True:
                it = node.generators[0].iter
                if isinstance(it, ast.Call) and getattr(it.func, "id", "") == "range":
                    try:
                        avail = eval(compile(ast.Expression(it.args[0]), "<gen>", "eval"), {"string": string, "len": len})
                    except Exception:
                        pass
    if not isinstance(avail, int):
        ctx.lost("common.fcfsAvail")
        avail = ctx.pin("common.fcfsAvail")
    out.append("def fcfsAvail : Nat := %d\n" % avail)

    # --- pseudoknot stripping regex: the set of ASCII characters it replaces, and the replacement
    pat = repl = None
    fn = find_function(tree, "DotBracket.without_pseudoknots")
    if fn is not None:
        for node in ast.walk(fn):
            if isinstance(node, ast.Call) and isinstance(node.func, ast.Attribute) and node.func.attr == "sub":
                a = node.args
                if len(a) >= 2 and isinstance(a[0], ast.Constant) and isinstance(a[1], ast.Constant):
                    pat, repl = a[0].value, a[1].value
    if pat is None:
        ctx.lost("common.pkRegex")
        pat, repl = ctx.pin("common.pkRegex"), ctx.pin("common.pkRepl")
    stripped = [chr(i) for i in range(128) if re.fullmatch(pat, chr(i))]
    out.append("def pkStripped : List Char := " + lean_list([lean_char(c) for c in stripped], 10) + "\n")
    out.append("def pkRepl : List Char := " + lean_list([lean_char(c) for c in repl], 10) + "\n")

    # --- conflict predicate at the three sites
    for lname, q in (("conflictConvert", "BpSeq.convert_to_dot_bracket"), ("conflictFcfs", "BpSeq.fcfs"),
                     ("conflictAll", "BpSeq.all_dot_brackets")):
        fn = find_function(tree, q)
        text = None
        if fn is not None:
            hit = _conflict_in(fn)
            if hit is not None:
                try:
                    text = ExprT(hit[1]).bexpr(hit[0])
                except ValueError:
                    text = None
        if text is None:
            ctx.lost("common." + lname)
            text = ctx.pin("common." + lname)
        out.append("/-- conflict test of `%s`; (k,l) = first unpacked region, (m,n) = second -/\n"
                   "def %s (k l m n : Nat) : Bool :=\n  %s\n" % (q, lname, text))

    # --- objective coefficient rule and max_order offset
    fn = find_function(tree, "BpSeq.convert_to_dot_bracket")
    obj = None
    off = None
    if fn is not None:
        for node in ast.walk(fn):
            if isinstance(node, ast.If) and isinstance(node.test, ast.Compare) and len(node.body) == 1 and len(node.orelse) == 1:
                t = node.test
                if (isinstance(t.left, ast.Name) and len(t.ops) == 1 and isinstance(t.ops[0], ast.Eq)
                        and isinstance(t.comparators[0], ast.Constant) and t.comparators[0].value == 0):
                    try:
                        def term(stmt):
                            call = stmt.value
                            assert isinstance(call, ast.Call) and call.func.attr == "append"
                            return call.args[0]
                        names = {t.left.id: "order", "length": "length", "var": "(1 : Int)"}
                        e1 = ExprT(names).aexpr(term(node.body[0]))
                        e2 = ExprT(names).aexpr(term(node.orelse[0]))
                        obj = "if order = 0 then %s else %s" % (e1, e2)
                    except Exception:
                        obj = None
            if isinstance(node, ast.Assign) and isinstance(node.targets[0], ast.Name) and node.targets[0].id == "max_order":
                v = node.value
                if (isinstance(v, ast.BinOp) and isinstance(v.op, ast.Add) and isinstance(v.right, ast.Constant)
                        and isinstance(v.left, ast.Call) and getattr(v.left.func, "id", "") == "max"):
                    off = v.right.value
    if obj is None:
        ctx.lost("common.objCoeff")
        obj = ctx.pin("common.objCoeff")
    if not isinstance(off, int):
        ctx.lost("common.maxOrderOffset")
        off = ctx.pin("common.maxOrderOffset")
    out.append("/-- objective coefficient of variable x(region, order) for a region of the given length -/\n"
               "def objCoeff (length order : Int) : Int :=\n  %s\n" % obj)
    out.append("/-- max_order = (maximum degree) + maxOrderOffset -/\ndef maxOrderOffset : Nat := %d\n" % off)

    # --- fall-back sites of convert_to_dot_bracket: is `fcfs` a (cached) property, and is each
    #     fall-back written as a call `self.fcfs()` (True) or as an attribute access `self.fcfs` (False)
    is_prop = None
    f = find_function(tree, "BpSeq.fcfs")
    if f is not None:
        decs = [ast.unparse(d) for d in f.decorator_list]
        is_prop = any(d.split(".")[-1] in ("cached_property", "property") for d in decs)
    sites = None
    fn = find_function(tree, "BpSeq.convert_to_dot_bracket")
    if fn is not None:
        sites = []
        rets = sorted((n for n in ast.walk(fn) if isinstance(n, ast.Return) and n.value is not None), key=lambda n: n.lineno)
        for r in rets:
            v = r.value
            if isinstance(v, ast.Call) and isinstance(v.func, ast.Attribute) and v.func.attr == "fcfs" and not v.args:
                sites.append(True)
            elif isinstance(v, ast.Attribute) and v.attr == "fcfs":
                sites.append(False)
    if is_prop is None or sites is None or len(sites) != 3:
        ctx.lost("common.fallbackSites")
        is_prop = ctx.pin("common.fcfsIsProperty", True)
        sites = ctx.pin("common.fallbackCalls", [False, False, False])
    out.append("/-- `BpSeq.fcfs` is declared as a (cached) property -/\ndef fcfsIsProperty : Bool := %s\n" % ("true" if is_prop else "false"))
    out.append("/-- the three fall-backs of convert_to_dot_bracket (no solver, PulpSolverError, status not optimal): "
               "written as a call `self.fcfs()`? -/\ndef fallbackCalls : List Bool := [%s]\n" % ", ".join("true" if x else "false" for x in sites))

    # --- enums and tables (live objects)
    lws = [m.name for m in C.LeontisWesthof]
    out.append("def lwNames : List String := " + lean_list([lean_str(n) for n in lws], 9) + "\n")
    out.append("def lwValues : List String := " + lean_list([lean_str(m.value) for m in C.LeontisWesthof], 9) + "\n")
    rev = []
    for m in C.LeontisWesthof:
        try:
            rev.append(m.reverse.name)
        except Exception:
            rev.append("?")
    out.append("def lwReverse : List (String × String) := " +
               lean_list(["(%s, %s)" % (lean_str(a), lean_str(b)) for a, b in zip(lws, rev)], 4) + "\n")
    tab = C.Saenger.table()
    out.append("def saengerTable : List ((String × String) × String) := " +
               lean_list(["((%s, %s), %s)" % (lean_str(k[0]), lean_str(k[1]), lean_str(v)) for k, v in tab.items()], 3) + "\n")
    out.append("def saengerNames : List String := " + lean_list([lean_str(m.name) for m in C.Saenger], 8) + "\n")
    out.append("def saengerCanonical : List String := " +
               lean_list([lean_str(m.name) for m in C.Saenger if m.is_canonical], 8) + "\n")
    out.append("def stackingReverse : List (String × String) := " +
               lean_list(["(%s, %s)" % (lean_str(m.name), lean_str(m.reverse.name)) for m in C.StackingTopology], 4) + "\n")
    out.append("def brValues : List String := " + lean_list([lean_str(m.value) for m in C.BR], 10) + "\n")
    out.append("def bphValues : List String := " + lean_list([lean_str(m.value) for m in C.BPh], 10) + "\n")
    out.append("end RnaVerif.Gen\n")
    return {"Common.lean": "\n".join(out)}
